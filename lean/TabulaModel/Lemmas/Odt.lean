import TabulaModel.Model.Odt
/-!
Helper lemmas for C16 (ODT model): inline content, the streaming body walk.
-/
namespace Tabula.Odt
open Tabula.Xml

theorem inlineList_append (a b : List Node) : inlineList (a ++ b) = inlineList a ++ inlineList b := by
  induction a with
  | nil => simp [inlineList]
  | cons n rest ih => simp [inlineList, ih]

mutual
/-- no `office:text` element anywhere in the subtree -/
def noTextNode : Node → Bool
  | .text _ => true
  | .elem tag _ kids => tag != sOfficeText && noTextList kids
def noTextList : List Node → Bool
  | [] => true
  | n :: rest => noTextNode n && noTextList rest
end

mutual
/-- the elements a subtree of the text body stands for, as a function of the tree alone:
`p`, `h`, `list`, `table` give their elements; any other element (a section, …) gives what
its children give, in order -/
def elemsOfNode (defs : List StyleDef) : Node → List Elem
  | .text _ => []
  | .elem tag attrs kids =>
    if localName tag == sP then [.para (processParagraph (.elem tag attrs kids))]
    else if localName tag == sH then [.para (processHeading defs (.elem tag attrs kids))]
    else if localName tag == sList then listElems (.elem tag attrs kids)
    else if localName tag == sTable then [.table (parseTable (.elem tag attrs kids))]
    else elemsOfList defs kids
def elemsOfList (defs : List StyleDef) : List Node → List Elem
  | [] => []
  | n :: rest => elemsOfNode defs n ++ elemsOfList defs rest
end

theorem walkList_append (defs : List StyleDef) (a b : List Node) (w : Walk) :
    walkList defs (a ++ b) w = walkList defs b (walkList defs a w) := by
  induction a generalizing w with
  | nil => simp [walkList]
  | cons n rest ih => simp only [List.cons_append, walkList]; rw [ih]

/-- once `parseBodyElements` has returned the depth error nothing is read any more -/
theorem walk_failed_node (defs : List StyleDef) (n : Node) (w : Walk) (h : w.failed = true) : walkNode defs n w = w := by
  cases n with
  | text s => rfl
  | elem tag attrs kids => simp [walkNode, h]

theorem walk_failed_list (defs : List StyleDef) (l : List Node) (w : Walk) (h : w.failed = true) : walkList defs l w = w := by
  induction l with
  | nil => rfl
  | cons n rest ih => simp only [walkList]; rw [walk_failed_node defs n w h]; exact ih

mutual
/-- every `text:p`, `text:h`, `text:list`, `table:table` the body walk hands to
`DecodeElement` is decoded to its end: no paragraph below them nests `text:span` / `text:a`
deeper than `maxInlineDepth` (a decidable property of the tree) -/
def decodesNode : Node → Bool
  | .text _ => true
  | .elem tag _ kids =>
    if localName tag == sP then decodes (.inline 0) kids
    else if localName tag == sH then decodes (.inline 0) kids
    else if localName tag == sList then decodes .list kids
    else if localName tag == sTable then decodes .table kids
    else decodesList kids
def decodesList : List Node → Bool
  | [] => true
  | n :: rest => decodesNode n && decodesList rest
end

/-- inside the text body the streaming walk appends exactly `elemsOfNode`, in source order -
for a subtree whose body elements are all decoded to their end (`decodesNode`; beyond
`maxInlineDepth` see `walk_refuses_node`) -/
theorem walk_inside_node (defs : List StyleDef) (n : Node) :
    ∀ w : Walk, w.inBody = true → w.failed = false → noTextNode n = true → decodesNode n = true →
      walkNode defs n w = { w with acc := w.acc ++ elemsOfNode defs n } := by
  induction n using Node.rec (motive_2 := fun l => ∀ w : Walk, w.inBody = true → w.failed = false →
      noTextList l = true → decodesList l = true →
      walkList defs l w = { w with acc := w.acc ++ elemsOfList defs l }) with
  | elem tag attrs kids ih =>
    intro w hb hd hn hdec
    simp only [noTextNode, Bool.and_eq_true, bne_iff_ne, ne_eq] at hn
    have hne : (tag == sOfficeText) = false := by
      cases h : tag == sOfficeText
      · rfl
      · exact absurd (by simpa using h) hn.1
    simp only [walkNode, elemsOfNode, hne, hb, hd, Bool.false_eq_true, if_false, Bool.not_true]
    simp only [decodesNode] at hdec
    split
    · rename_i hp
      simp only [hp, if_true] at hdec
      rw [if_pos hdec]
    · rename_i hp
      simp only [hp, Bool.false_eq_true, if_false] at hdec
      split
      · rename_i hh
        simp only [hh, if_true] at hdec
        rw [if_pos hdec]
      · rename_i hh
        simp only [hh, Bool.false_eq_true, if_false] at hdec
        split
        · rename_i hl
          simp only [hl, if_true] at hdec
          rw [if_pos hdec]
        · rename_i hl
          simp only [hl, Bool.false_eq_true, if_false] at hdec
          split
          · rename_i ht
            simp only [ht, if_true] at hdec
            rw [if_pos hdec]
          · rename_i ht
            simp only [ht, Bool.false_eq_true, if_false] at hdec
            rw [ih w hb hd hn.2 hdec, hb, hd]
  | text s => intro w _ _ _ _; simp [walkNode, elemsOfNode]
  | nil => simp [walkList, elemsOfList]
  | cons n rest ihn ihr =>
    rename_i w hb hd hn hdec
    simp only [noTextList, Bool.and_eq_true] at hn
    simp only [decodesList, Bool.and_eq_true] at hdec
    simp only [walkList, elemsOfList]
    rw [ihn w hb hd hn.1 hdec.1, ihr { w with acc := w.acc ++ elemsOfNode defs n } hb hd hn.2 hdec.2]
    simp [List.append_assoc]

theorem walk_inside_list (defs : List StyleDef) (l : List Node) :
    ∀ w : Walk, w.inBody = true → w.failed = false → noTextList l = true → decodesList l = true →
      walkList defs l w = { w with acc := w.acc ++ elemsOfList defs l } := by
  induction l with
  | nil => intro w _ _ _ _; simp [walkList, elemsOfList]
  | cons n rest ih =>
    intro w hb hd hn hdec
    simp only [noTextList, Bool.and_eq_true] at hn
    simp only [decodesList, Bool.and_eq_true] at hdec
    simp only [walkList, elemsOfList]
    rw [walk_inside_node defs n w hb hd hn.1 hdec.1, ih { w with acc := w.acc ++ elemsOfNode defs n } hb hd hn.2 hdec.2]
    simp [List.append_assoc]

/-- inside the text body a subtree in which some body element is NOT decoded to its end makes
`parseBodyElements` return the depth error -/
theorem walk_refuses_node (defs : List StyleDef) (n : Node) :
    ∀ w : Walk, w.inBody = true → w.failed = false → noTextNode n = true → decodesNode n = false →
      (walkNode defs n w).failed = true := by
  induction n using Node.rec (motive_2 := fun l => ∀ w : Walk, w.inBody = true → w.failed = false →
      noTextList l = true → decodesList l = false → (walkList defs l w).failed = true) with
  | elem tag attrs kids ih =>
    intro w hb hd hn hdec
    simp only [noTextNode, Bool.and_eq_true, bne_iff_ne, ne_eq] at hn
    have hne : (tag == sOfficeText) = false := by
      cases h : tag == sOfficeText
      · rfl
      · exact absurd (by simpa using h) hn.1
    simp only [walkNode, hne, hb, hd, Bool.false_eq_true, if_false, Bool.not_true]
    simp only [decodesNode] at hdec
    split
    · rename_i hp
      simp only [hp, if_true] at hdec
      simp [hdec]
    · rename_i hp
      simp only [hp, Bool.false_eq_true, if_false] at hdec
      split
      · rename_i hh
        simp only [hh, if_true] at hdec
        simp [hdec]
      · rename_i hh
        simp only [hh, Bool.false_eq_true, if_false] at hdec
        split
        · rename_i hl
          simp only [hl, if_true] at hdec
          simp [hdec]
        · rename_i hl
          simp only [hl, Bool.false_eq_true, if_false] at hdec
          split
          · rename_i ht
            simp only [ht, if_true] at hdec
            simp [hdec]
          · rename_i ht
            simp only [ht, Bool.false_eq_true, if_false] at hdec
            exact ih w hb hd hn.2 hdec
  | text s => intro w _ _ _ h; simp [decodesNode] at h
  | nil => rename_i w _ _ _ h; simp [decodesList] at h
  | cons n rest ihn ihr =>
    rename_i w hb hd hn hdec
    simp only [noTextList, Bool.and_eq_true] at hn
    simp only [walkList]
    cases hdn : decodesNode n with
    | false =>
      have hf := ihn w hb hd hn.1 hdn
      rw [walk_failed_list defs rest _ hf]; exact hf
    | true =>
      simp only [decodesList, hdn, Bool.true_and] at hdec
      rw [walk_inside_node defs n w hb hd hn.1 hdn]
      exact ihr _ hb hd hn.2 hdec

theorem walk_refuses_list (defs : List StyleDef) (l : List Node) :
    ∀ w : Walk, w.inBody = true → w.failed = false → noTextList l = true → decodesList l = false →
      (walkList defs l w).failed = true := by
  induction l with
  | nil => intro w _ _ _ h; simp [decodesList] at h
  | cons n rest ih =>
    intro w hb hd hn hdec
    simp only [noTextList, Bool.and_eq_true] at hn
    simp only [walkList]
    cases hdn : decodesNode n with
    | false =>
      have hf := walk_refuses_node defs n w hb hd hn.1 hdn
      rw [walk_failed_list defs rest _ hf]; exact hf
    | true =>
      simp only [decodesList, hdn, Bool.true_and] at hdec
      rw [walk_inside_node defs n w hb hd hn.1 hdn]
      exact ih _ hb hd hn.2 hdec

/-- outside the text body nothing is recorded -/
theorem walk_outside_node (defs : List StyleDef) (n : Node) :
    ∀ w : Walk, w.inBody = false → noTextNode n = true → walkNode defs n w = w := by
  induction n using Node.rec (motive_2 := fun l => ∀ w : Walk, w.inBody = false → noTextList l = true →
      walkList defs l w = w) with
  | elem tag attrs kids ih =>
    intro w hb hn
    simp only [noTextNode, Bool.and_eq_true, bne_iff_ne, ne_eq] at hn
    have hne : (tag == sOfficeText) = false := by
      cases h : tag == sOfficeText
      · rfl
      · exact absurd (by simpa using h) hn.1
    simp only [walkNode, hne, hb, Bool.false_eq_true, if_false, Bool.not_false, if_true]
    split
    · rfl
    · exact ih w hb hn.2
  | text s => intro w _ _; simp [walkNode]
  | nil => simp [walkList]
  | cons n rest ihn ihr =>
    rename_i w hb hn
    simp only [noTextList, Bool.and_eq_true] at hn
    simp only [walkList]
    rw [ihn w hb hn.1, ihr w hb hn.2]

theorem walk_outside_list (defs : List StyleDef) (l : List Node) :
    ∀ w : Walk, w.inBody = false → noTextList l = true → walkList defs l w = w := by
  induction l with
  | nil => intro w _ _; simp [walkList]
  | cons n rest ih =>
    intro w hb hn
    simp only [noTextList, Bool.and_eq_true] at hn
    simp only [walkList]
    rw [walk_outside_node defs n w hb hn.1, ih w hb hn.2]

/-! ### the walk before the repair: `scanListOld` is the old walk over `residualList` -/

theorem walkListOld_append (defs : List StyleDef) (a b : List Node) (w : WalkOld) :
    walkListOld defs (a ++ b) w = walkListOld defs b (walkListOld defs a w) := by
  induction a generalizing w with
  | nil => simp [walkListOld]
  | cons n rest ih => simp only [List.cons_append, walkListOld]; rw [ih]

/-- when the decoder `ctx` gave up below a child, the old walk went on over exactly the nodes
`residualNode` names; otherwise nothing happened -/
theorem scanOld_residual_node (defs : List StyleDef) (n : Node) :
    ∀ (ctx : Ctx) (w : WalkOld), scanNodeOld defs ctx n w = (residualNode ctx n).map fun r => walkListOld defs r w := by
  induction n using Node.rec (motive_2 := fun l => ∀ (ctx : Ctx) (w : WalkOld),
      scanListOld defs ctx l w = (residualList ctx l).map fun r => walkListOld defs r w) with
  | elem tag attrs kids ih =>
    intro ctx w
    simp only [scanNodeOld, residualNode]
    cases descend ctx (localName tag) with
    | skip => rfl
    | fail => rfl
    | into c => exact ih c w
  | text s => intro ctx w; rfl
  | nil => rfl
  | cons n rest ihn ihr =>
    rename_i ctx w
    simp only [scanListOld, residualList]
    rw [ihn ctx w]
    cases residualNode ctx n with
    | none => exact ihr ctx w
    | some r =>
      cases hi : ctx.isInline
      · simp
      · simp [walkListOld_append]

theorem scanOld_residual (defs : List StyleDef) (ctx : Ctx) (l : List Node) (w : WalkOld) :
    scanListOld defs ctx l w = (residualList ctx l).map fun r => walkListOld defs r w := by
  induction l generalizing w with
  | nil => rfl
  | cons n rest ih =>
    simp only [scanListOld, residualList]
    rw [scanOld_residual_node defs n ctx w]
    cases residualNode ctx n with
    | none => exact ih w
    | some r =>
      cases hi : ctx.isInline
      · simp
      · simp [walkListOld_append]

/-- once `Token` had answered `io.EOF` nothing was read any more -/
theorem walkOld_done_node (defs : List StyleDef) (n : Node) (w : WalkOld) (h : w.done = true) : walkNodeOld defs n w = w := by
  cases n with
  | text s => rfl
  | elem tag attrs kids => simp [walkNodeOld, h]

theorem walkOld_done_list (defs : List StyleDef) (l : List Node) (w : WalkOld) (h : w.done = true) : walkListOld defs l w = w := by
  induction l with
  | nil => rfl
  | cons n rest ih => simp only [walkListOld]; rw [walkOld_done_node defs n w h]; exact ih

/-! ### the depth limit of `decodeInlineContentAt` -/

mutual
/-- how deep `text:span` / `text:a` nest below a child of a paragraph (anything that is
skipped counts 0, a span or link one more than its content) -/
def spanNestNode : Node → Nat
  | .text _ => 0
  | .elem tag _ kids => if localName tag == sSpan || localName tag == sA then spanNestList kids + 1 else 0
def spanNestList : List Node → Nat
  | [] => 0
  | n :: rest => max (spanNestNode n) (spanNestList rest)
end

/-- the inline decoder entered with `d ≤ maxInlineDepth` reads a child to its end exactly when
the spans below it nest no deeper than the limit allows -/
theorem residual_inline_node (n : Node) : ∀ d, d ≤ maxInlineDepth →
    (residualNode (.inline d) n = none ↔ d + spanNestNode n ≤ maxInlineDepth) := by
  induction n using Node.rec (motive_2 := fun l => ∀ d, d ≤ maxInlineDepth →
      (residualList (.inline d) l = none ↔ d + spanNestList l ≤ maxInlineDepth)) with
  | elem tag attrs kids ih =>
    intro d hd
    by_cases hs : (localName tag == sSpan || localName tag == sA) = true
    · by_cases h : d + 1 > maxInlineDepth
      · simp only [residualNode, descend, spanNestNode, hs, h, if_true]
        constructor
        · intro hc; cases hc
        · intro hc; omega
      · simp only [residualNode, descend, spanNestNode, hs, h, if_true, if_false]
        rw [ih (d + 1) (by omega)]
        omega
    · simp only [residualNode, descend, spanNestNode, hs, if_false, Nat.add_zero]
      exact ⟨fun _ => hd, fun _ => rfl⟩
  | text s => intro d hd; simp [residualNode, spanNestNode, hd]
  | nil => rename_i d hd; simp [residualList, spanNestList, hd]
  | cons n rest ihn ihr =>
    rename_i d hd
    simp only [residualList, spanNestList]
    cases hr : residualNode (.inline d) n with
    | none =>
      have h1 := (ihn d hd).mp hr
      simp only
      rw [ihr d hd]
      omega
    | some r =>
      have h1 : ¬ (d + spanNestNode n ≤ maxInlineDepth) := fun hle => by
        have := (ihn d hd).mpr hle
        rw [hr] at this; cases this
      simp only [Ctx.isInline, if_true]
      constructor
      · intro hc; cases hc
      · intro hc; omega

theorem residual_inline (l : List Node) : ∀ d, d ≤ maxInlineDepth →
    (residualList (.inline d) l = none ↔ d + spanNestList l ≤ maxInlineDepth) := by
  induction l with
  | nil => intro d hd; simp [residualList, spanNestList, hd]
  | cons n rest ih =>
    intro d hd
    simp only [residualList, spanNestList]
    cases hr : residualNode (.inline d) n with
    | none =>
      have h1 := (residual_inline_node n d hd).mp hr
      simp only
      rw [ih d hd]
      omega
    | some r =>
      have h1 : ¬ (d + spanNestNode n ≤ maxInlineDepth) := fun hle => by
        have := (residual_inline_node n d hd).mpr hle
        rw [hr] at this; cases this
      simp only [Ctx.isInline, if_true]
      constructor
      · intro hc; cases hc
      · intro hc; omega

/-- `k` nested `text:span`s around `inner` -/
def spanN (stag : Str) : Nat → List Node → List Node
  | 0, inner => inner
  | k + 1, inner => [.elem stag [] (spanN stag k inner)]

theorem spanNest_spanN (stag : Str) (hs : (localName stag == sSpan || localName stag == sA) = true) (inner : List Node) :
    ∀ k, spanNestList (spanN stag k inner) = k + spanNestList inner := by
  intro k
  induction k with
  | zero => simp [spanN]
  | succ k ih =>
    simp only [spanN, spanNestList, spanNestNode, hs, if_true]
    rw [ih]; omega

theorem inline_spanN (stag : Str) (hs : (localName stag == sSpan || localName stag == sA) = true) (inner : List Node) :
    ∀ k, inlineList (spanN stag k inner) = inlineList inner := by
  intro k
  induction k with
  | zero => simp [spanN]
  | succ k ih =>
    simp only [spanN, inlineList, inlineNode, hs, if_true, List.append_nil]
    exact ih

/-! ### `text:s`: the space run -/

theorem spaceRun_range (c : Str) : 1 ≤ spaceRun c ∧ spaceRun c ≤ maxSpaceRun := by
  unfold spaceRun maxSpaceRun
  cases atoi? c with
  | none => simp
  | some v =>
    simp only
    split
    · omega
    · omega

mutual
/-- bytes of character data / number of elements below a node -/
def textBytesNode : Node → Nat
  | .text s => s.length
  | .elem _ _ kids => textBytesList kids
def textBytesList : List Node → Nat
  | [] => 0
  | n :: rest => textBytesNode n + textBytesList rest
end

mutual
def elemCountNode : Node → Nat
  | .text _ => 0
  | .elem _ _ kids => 1 + elemCountList kids
def elemCountList : List Node → Nat
  | [] => 0
  | n :: rest => elemCountNode n + elemCountList rest
end

/-- the text of a paragraph is at most its character data plus `maxSpaceRun` bytes per element -/
theorem inline_length_node (n : Node) :
    (inlineNode n).length ≤ textBytesNode n + maxSpaceRun * elemCountNode n := by
  induction n using Node.rec (motive_2 := fun l =>
      (inlineList l).length ≤ textBytesList l + maxSpaceRun * elemCountList l) with
  | elem tag attrs kids ih =>
    simp only [inlineNode, textBytesNode, elemCountNode]
    rw [Nat.mul_add, Nat.mul_one]
    split
    · omega
    · split
      · have := (spaceRun_range (attrOf attrs sC)).2
        simp only [List.length_replicate]
        omega
      · have : 1 ≤ maxSpaceRun := by decide
        split
        · simp only [List.length_singleton]; omega
        · split
          · simp only [List.length_singleton]; omega
          · simp only [List.length_nil]; omega
  | text s => simp [inlineNode, textBytesNode]
  | nil => simp [inlineList]
  | cons n rest ihn ihr =>
    simp only [inlineList, textBytesList, elemCountList, List.length_append]
    rw [Nat.mul_add]
    omega

theorem inline_length_list (l : List Node) :
    (inlineList l).length ≤ textBytesList l + maxSpaceRun * elemCountList l := by
  induction l with
  | nil => simp [inlineList]
  | cons n rest ih =>
    simp only [inlineList, textBytesList, elemCountList, List.length_append]
    have := inline_length_node n
    rw [Nat.mul_add]
    omega

/-! ### row spans: the pass only inserts covered placeholders -/

def live (cs : List Cell) : List Cell := cs.filter fun c => !c.covered

theorem live_append (a b : List Cell) : live (a ++ b) = live a ++ live b := by simp [live]

theorem live_skipCovered (cc : Nat) : ∀ (fuel colIdx : Nat) (rem : List Nat) (out : List Cell),
    live (skipCovered fuel cc colIdx rem out).2.2 = live out := by
  intro fuel
  induction fuel with
  | zero => intro colIdx rem out; simp [skipCovered]
  | succ n ih =>
    intro colIdx rem out
    simp only [skipCovered]
    split
    · rw [ih, live_append]; simp [live, coveredCell]
    · rfl

theorem live_spanRow (cc : Nat) : ∀ (cells : List Cell) (colIdx : Nat) (rem : List Nat) (out : List Cell),
    (∀ c ∈ cells, c.covered = false) →
    live (spanRow cc cells colIdx rem out).2.2 <+: live out ++ cells := by
  intro cells
  induction cells with
  | nil => intro colIdx rem out _; simp [spanRow]
  | cons c rest ih =>
    intro colIdx rem out hc
    simp only [spanRow]
    have hs := live_skipCovered cc cc colIdx rem out
    generalize skipCovered cc cc colIdx rem out = r at hs
    obtain ⟨col', rem', out'⟩ := r
    simp only at hs ⊢
    split
    · rw [hs]; exact List.prefix_append _ _
    · have hcc : c.covered = false := hc c (List.mem_cons_self)
      have := ih (col' + c.colSpan) (if c.rowSpan > 1 then markSpan c.colSpan cc col' (c.rowSpan - 1) rem' else rem') (out' ++ [c])
        (fun x hx => hc x (List.mem_cons_of_mem _ hx))
      rw [live_append, hs] at this
      have hl : live [c] = [c] := by simp [live, hcc]
      rw [hl, List.append_assoc] at this
      exact this

/-- row by row: the output row without its covered placeholders is a prefix of the authored row -/
inductive RowsKept : List (List Cell) → List (List Cell) → Prop
  | nil : RowsKept [] []
  | cons {out row : List Cell} {outs rows : List (List Cell)} :
      live out <+: row → RowsKept outs rows → RowsKept (out :: outs) (row :: rows)

/-- every output row, with the covered placeholders removed, is the authored row (cut
short only if the row overflows the grid) -/
theorem live_spanRows (cc : Nat) : ∀ (rows : List (List Cell)) (rem : List Nat),
    (∀ row ∈ rows, ∀ c ∈ row, c.covered = false) →
    RowsKept (spanRows cc rows rem) rows := by
  intro rows
  induction rows with
  | nil => intro rem _; simp only [spanRows]; exact RowsKept.nil
  | cons row rest ih =>
    intro rem h
    simp only [spanRows]
    have h1 := live_spanRow cc row 0 rem [] (h row (List.mem_cons_self))
    generalize spanRow cc row 0 rem [] = r at h1
    obtain ⟨col', rem', out'⟩ := r
    have h2 := live_skipCovered cc cc col' rem' out'
    generalize skipCovered cc cc col' rem' out' = r2 at h2
    obtain ⟨col2, rem2, out2⟩ := r2
    simp only at h1 h2 ⊢
    refine RowsKept.cons ?_ (ih rem2 (fun r hr => h r (List.mem_cons_of_mem _ hr)))
    rw [h2]
    simpa [live] using h1

theorem parseRows_live (tbl : Node) : ∀ row ∈ parseRows tbl, ∀ c ∈ row, c.covered = false := by
  intro row hrow c hc
  simp only [parseRows, List.mem_map] at hrow
  obtain ⟨tr, _, rfl⟩ := hrow
  simp only [List.mem_map] at hc
  obtain ⟨tc, _, rfl⟩ := hc
  rfl

/-- placeholders carry nothing -/
theorem covered_blank_skip (cc : Nat) : ∀ (fuel colIdx : Nat) (rem : List Nat) (out : List Cell),
    (∀ c ∈ out, c.covered = true → c = coveredCell) →
    ∀ c ∈ (skipCovered fuel cc colIdx rem out).2.2, c.covered = true → c = coveredCell := by
  intro fuel
  induction fuel with
  | zero => intro colIdx rem out h; simpa [skipCovered] using h
  | succ n ih =>
    intro colIdx rem out h
    simp only [skipCovered]
    split
    · apply ih
      intro c hc hcov
      simp only [List.mem_append, List.mem_singleton] at hc
      cases hc with
      | inl hm => exact h c hm hcov
      | inr he => exact he
    · exact h

theorem covered_blank_spanRow (cc : Nat) : ∀ (cells : List Cell) (colIdx : Nat) (rem : List Nat) (out : List Cell),
    (∀ c ∈ cells, c.covered = false) → (∀ c ∈ out, c.covered = true → c = coveredCell) →
    ∀ c ∈ (spanRow cc cells colIdx rem out).2.2, c.covered = true → c = coveredCell := by
  intro cells
  induction cells with
  | nil => intro colIdx rem out _ h; simpa [spanRow] using h
  | cons c0 rest ih =>
    intro colIdx rem out hc h
    simp only [spanRow]
    have hs := covered_blank_skip cc cc colIdx rem out h
    generalize skipCovered cc cc colIdx rem out = r at hs
    obtain ⟨col', rem', out'⟩ := r
    simp only at hs ⊢
    split
    · exact hs
    · apply ih _ _ _ (fun x hx => hc x (List.mem_cons_of_mem _ hx))
      intro c hmem hcov
      simp only [List.mem_append, List.mem_singleton] at hmem
      cases hmem with
      | inl hm => exact hs c hm hcov
      | inr he =>
        have := hc c0 (List.mem_cons_self)
        rw [he, this] at hcov
        cases hcov

theorem covered_blank_spanRows (cc : Nat) : ∀ (rows : List (List Cell)) (rem : List Nat),
    (∀ row ∈ rows, ∀ c ∈ row, c.covered = false) →
    ∀ out ∈ spanRows cc rows rem, ∀ c ∈ out, c.covered = true → c = coveredCell := by
  intro rows
  induction rows with
  | nil => intro rem _ out ho; simp [spanRows] at ho
  | cons row rest ih =>
    intro rem h out ho
    simp only [spanRows] at ho
    have h1 := covered_blank_spanRow cc row 0 rem [] (h row (List.mem_cons_self)) (by simp)
    generalize spanRow cc row 0 rem [] = r at h1 ho
    obtain ⟨col', rem', out'⟩ := r
    have h2 := covered_blank_skip cc cc col' rem' out' h1
    generalize skipCovered cc cc col' rem' out' = r2 at h2 ho
    obtain ⟨col2, rem2, out2⟩ := r2
    simp only [List.mem_cons] at ho
    cases ho with
    | inl he => rw [he]; exact h2
    | inr hm => exact ih rem2 (fun r hr => h r (List.mem_cons_of_mem _ hr)) out hm

/-! ### `limitTableGrid` -/

/-- every span of the table set to 1 (what `limitTableGrid` does beyond the limit) -/
def resetSpans (rows : List (List Cell)) : List (List Cell) :=
  rows.map fun row => row.map fun c => { c with colSpan := 1, rowSpan := 1 }

/-- the widest row counted in cells -/
def widest (rows : List (List Cell)) : Nat := rows.foldl (fun m row => max m row.length) 0

/-- the number of cells of a table -/
def cellCount (rows : List (List Cell)) : Nat := (rows.map List.length).sum

theorem limit_cases (rows : List (List Cell)) : limitTableGrid rows = rows ∨ limitTableGrid rows = resetSpans rows := by
  unfold limitTableGrid resetSpans
  split
  · exact Or.inl rfl
  · exact Or.inr rfl

/-- within the limit (rows x spanned columns ≤ 2^20) the table is left as it is -/
theorem limit_within (rows : List (List Cell)) (h : rows.length * colCount rows ≤ maxTableGridCells) :
    limitTableGrid rows = rows := by
  unfold limitTableGrid
  by_cases hc : colCount rows = 0
  · simp [hc]
  · have hpos : 0 < colCount rows := Nat.pos_of_ne_zero hc
    have : rows.length ≤ maxTableGridCells / colCount rows := (Nat.le_div_iff_mul_le hpos).mpr h
    simp [this]

/-- a table without spans is left as it is, whatever its size -/
theorem limit_nospans (rows : List (List Cell)) (h : hasSpans rows = false) : limitTableGrid rows = rows := by
  unfold limitTableGrid
  simp [h]

/-- beyond the limit a table that has spans loses all of them -/
theorem limit_beyond (rows : List (List Cell)) (hs : hasSpans rows = true)
    (h : rows.length * colCount rows > maxTableGridCells) : limitTableGrid rows = resetSpans rows := by
  unfold limitTableGrid resetSpans
  have hc : colCount rows ≠ 0 := by
    intro h0; rw [h0] at h; simp at h
  have hpos : 0 < colCount rows := Nat.pos_of_ne_zero hc
  have : ¬ rows.length ≤ maxTableGridCells / colCount rows := by
    intro hle
    have := (Nat.le_div_iff_mul_le hpos).mp hle
    omega
  simp [hs, hc, this]

/-- the limit touches spans only: texts, covered flags, the number of rows and of cells in
every row stay -/
theorem limit_content (rows : List (List Cell)) :
    (limitTableGrid rows).map (·.map fun c => (c.text, c.covered)) = rows.map (·.map fun c => (c.text, c.covered)) := by
  cases limit_cases rows with
  | inl h => rw [h]
  | inr h => rw [h]; simp [resetSpans, List.map_map, Function.comp_def]

theorem limit_length (rows : List (List Cell)) : (limitTableGrid rows).length = rows.length := by
  cases limit_cases rows with
  | inl h => rw [h]
  | inr h => rw [h]; simp [resetSpans]

theorem cellCount_resetSpans (rows : List (List Cell)) : cellCount (resetSpans rows) = cellCount rows := by
  simp [cellCount, resetSpans, List.map_map, Function.comp_def]

theorem limit_live (rows : List (List Cell)) (h : ∀ row ∈ rows, ∀ c ∈ row, c.covered = false) :
    ∀ row ∈ limitTableGrid rows, ∀ c ∈ row, c.covered = false := by
  cases limit_cases rows with
  | inl he => rw [he]; exact h
  | inr he =>
    rw [he]
    intro row hrow c hc
    simp only [resetSpans, List.mem_map] at hrow
    obtain ⟨r0, hr0, rfl⟩ := hrow
    simp only [List.mem_map] at hc
    obtain ⟨c0, hc0, rfl⟩ := hc
    exact h r0 hr0 c0 hc0

theorem hasSpans_false (rows : List (List Cell)) (h : hasSpans rows = false) :
    ∀ row ∈ rows, ∀ c ∈ row, c.colSpan ≤ 1 ∧ c.rowSpan ≤ 1 := by
  intro row hrow c hc
  unfold hasSpans at h
  rw [List.any_eq_false] at h
  have h1 := h row hrow
  have h1' : (row.any fun c => decide (c.colSpan > 1) || decide (c.rowSpan > 1)) = false := by simpa using h1
  rw [List.any_eq_false] at h1'
  have h2 := h1' c hc
  simp only [Bool.or_eq_true, decide_eq_true_eq, not_or, Nat.not_lt] at h2
  exact h2

/-! ### `processRowSpans`: how many cells it can make -/

theorem foldl_add_span : ∀ (l : List Cell) (a : Nat), l.foldl (fun s c => s + c.colSpan) a = a + (l.map (·.colSpan)).sum := by
  intro l
  induction l with
  | nil => intro a; simp
  | cons c cs ih => intro a; simp only [List.foldl_cons, List.map_cons, List.sum_cons]; rw [ih]; omega

theorem foldl_max_ge' (f : List Cell → Nat) : ∀ (rows : List (List Cell)) (a : Nat),
    a ≤ rows.foldl (fun m row => max m (f row)) a ∧ ∀ row ∈ rows, f row ≤ rows.foldl (fun m row => max m (f row)) a := by
  intro rows
  induction rows with
  | nil => intro a; simp
  | cons r rs ih =>
    intro a
    simp only [List.foldl_cons]
    obtain ⟨h1, h2⟩ := ih (max a (f r))
    refine ⟨by omega, ?_⟩
    intro row hrow
    cases hrow with
    | head => omega
    | tail _ hm => exact h2 row hm

theorem rowWidth_le_colCount (rows : List (List Cell)) (row : List Cell) (h : row ∈ rows) :
    (row.map (·.colSpan)).sum ≤ colCount rows := by
  have h1 := (foldl_max_ge' (fun row => row.foldl (fun s c => s + c.colSpan) 0) rows 0).2 row h
  rw [foldl_add_span row 0] at h1
  unfold colCount
  omega

/-- no row span is in progress -/
def ZeroRem (rem : List Nat) : Prop := ∀ i, rem.getD i 0 = 0

theorem zeroRem_replicate (n : Nat) : ZeroRem (List.replicate n 0) := by
  intro i
  simp only [List.getD_eq_getElem?_getD, List.getElem?_replicate]
  split <;> rfl

theorem skipCovered_zero (cc : Nat) (rem : List Nat) (hz : ZeroRem rem) : ∀ (fuel col : Nat) (out : List Cell),
    skipCovered fuel cc col rem out = (col, rem, out) := by
  intro fuel
  cases fuel with
  | zero => intro col out; rfl
  | succ n =>
    intro col out
    simp only [skipCovered]
    have h0 := hz col
    have : ¬ (col < cc ∧ rem.getD col 0 > 0) := by rw [h0]; omega
    simp only [this, if_false]

theorem spanRow_zero (cc : Nat) (rem : List Nat) (hz : ZeroRem rem) : ∀ (cells : List Cell) (col : Nat) (out : List Cell),
    (∀ c ∈ cells, 1 ≤ c.colSpan ∧ c.rowSpan ≤ 1) → col + (cells.map (·.colSpan)).sum ≤ cc →
    spanRow cc cells col rem out = (col + (cells.map (·.colSpan)).sum, rem, out ++ cells) := by
  intro cells
  induction cells with
  | nil => intro col out _ _; simp [spanRow]
  | cons c rest ih =>
    intro col out hg hw
    simp only [spanRow]
    rw [skipCovered_zero cc rem hz]
    simp only [List.map_cons, List.sum_cons] at hw ⊢
    have hc := hg c List.mem_cons_self
    have hlt : ¬ (col ≥ cc) := by omega
    have hrs : ¬ (c.rowSpan > 1) := by omega
    simp only [hlt, hrs, if_false]
    rw [ih (col + c.colSpan) (out ++ [c]) (fun x hx => hg x (List.mem_cons_of_mem _ hx)) (by omega)]
    simp [Nat.add_assoc]

theorem spanRows_zero (cc : Nat) (rem : List Nat) (hz : ZeroRem rem) : ∀ (rows : List (List Cell)),
    (∀ row ∈ rows, (∀ c ∈ row, 1 ≤ c.colSpan ∧ c.rowSpan ≤ 1) ∧ (row.map (·.colSpan)).sum ≤ cc) →
    spanRows cc rows rem = rows := by
  intro rows
  induction rows with
  | nil => intro _; rfl
  | cons row rest ih =>
    intro h
    have hr := h row List.mem_cons_self
    simp only [spanRows]
    rw [spanRow_zero cc rem hz row 0 [] hr.1 (by omega)]
    simp only
    rw [skipCovered_zero cc rem hz]
    simp only [List.nil_append]
    rw [ih (fun r hr' => h r (List.mem_cons_of_mem _ hr'))]

/-- **no row span, no placeholder**: a table whose cells are all one row high (and at least one
column wide) comes out of `processRowSpans` as it went in -/
theorem processRowSpans_flat (rows : List (List Cell)) (h : ∀ row ∈ rows, ∀ c ∈ row, 1 ≤ c.colSpan ∧ c.rowSpan ≤ 1) :
    processRowSpans rows = rows := by
  unfold processRowSpans
  apply spanRows_zero _ _ (zeroRem_replicate _)
  intro row hrow
  exact ⟨h row hrow, rowWidth_le_colCount rows row hrow⟩

theorem skipCovered_len (cc : Nat) : ∀ (fuel col : Nat) (rem : List Nat) (out : List Cell),
    out.length ≤ col → out.length ≤ cc →
    (skipCovered fuel cc col rem out).2.2.length ≤ (skipCovered fuel cc col rem out).1 ∧
    (skipCovered fuel cc col rem out).2.2.length ≤ cc := by
  intro fuel
  induction fuel with
  | zero => intro col rem out h1 h2; exact ⟨h1, h2⟩
  | succ n ih =>
    intro col rem out h1 h2
    simp only [skipCovered]
    split
    · rename_i hc
      apply ih
      · simp only [List.length_append, List.length_singleton]; omega
      · simp only [List.length_append, List.length_singleton]; omega
    · exact ⟨h1, h2⟩

theorem spanRow_len (cc : Nat) : ∀ (cells : List Cell) (col : Nat) (rem : List Nat) (out : List Cell),
    (∀ c ∈ cells, 1 ≤ c.colSpan) → out.length ≤ col → out.length ≤ cc →
    (spanRow cc cells col rem out).2.2.length ≤ (spanRow cc cells col rem out).1 ∧
    (spanRow cc cells col rem out).2.2.length ≤ cc := by
  intro cells
  induction cells with
  | nil => intro col rem out _ h1 h2; exact ⟨h1, h2⟩
  | cons c rest ih =>
    intro col rem out hg h1 h2
    simp only [spanRow]
    have hs := skipCovered_len cc cc col rem out h1 h2
    generalize skipCovered cc cc col rem out = r at hs
    obtain ⟨col', rem', out'⟩ := r
    simp only at hs ⊢
    split
    · exact hs
    · rename_i hlt
      have hc := hg c List.mem_cons_self
      apply ih _ _ _ (fun x hx => hg x (List.mem_cons_of_mem _ hx))
      · simp only [List.length_append, List.length_singleton]; omega
      · simp only [List.length_append, List.length_singleton]; omega

/-- every row `processRowSpans` writes is at most as long as the grid is wide -/
theorem spanRows_row_le (cc : Nat) : ∀ (rows : List (List Cell)) (rem : List Nat),
    (∀ row ∈ rows, ∀ c ∈ row, 1 ≤ c.colSpan) → ∀ out ∈ spanRows cc rows rem, out.length ≤ cc := by
  intro rows
  induction rows with
  | nil => intro rem _ out ho; simp [spanRows] at ho
  | cons row rest ih =>
    intro rem h out ho
    simp only [spanRows] at ho
    have h1 := spanRow_len cc row 0 rem [] (h row List.mem_cons_self) (by simp) (by simp)
    generalize spanRow cc row 0 rem [] = r at h1 ho
    obtain ⟨col', rem', out'⟩ := r
    have h2 := skipCovered_len cc cc col' rem' out' h1.1 h1.2
    generalize skipCovered cc cc col' rem' out' = r2 at h2 ho
    obtain ⟨col2, rem2, out2⟩ := r2
    simp only [List.mem_cons] at ho
    cases ho with
    | inl he => rw [he]; exact h2.2
    | inr hm => exact ih rem2 (fun r hr => h r (List.mem_cons_of_mem _ hr)) out hm

theorem spanRows_length (cc : Nat) : ∀ (rows : List (List Cell)) (rem : List Nat), (spanRows cc rows rem).length = rows.length := by
  intro rows
  induction rows with
  | nil => intro rem; rfl
  | cons row rest ih =>
    intro rem
    simp only [spanRows, List.length_cons]
    rw [ih]

theorem cellCount_le (rows : List (List Cell)) (b : Nat) (h : ∀ row ∈ rows, row.length ≤ b) : cellCount rows ≤ rows.length * b := by
  unfold cellCount
  induction rows with
  | nil => simp
  | cons r rs ih =>
    simp only [List.map_cons, List.sum_cons, List.length_cons]
    have := h r List.mem_cons_self
    have := ih (fun row hrow => h row (List.mem_cons_of_mem _ hrow))
    rw [Nat.succ_mul]
    omega

/-- `processRowSpans` writes at most rows x width cells -/
theorem processRowSpans_cells (rows : List (List Cell)) (h : ∀ row ∈ rows, ∀ c ∈ row, 1 ≤ c.colSpan) :
    cellCount (processRowSpans rows) ≤ rows.length * colCount rows := by
  unfold processRowSpans
  have := cellCount_le (spanRows (colCount rows) rows (List.replicate (colCount rows) 0)) (colCount rows)
    (spanRows_row_le _ rows _ h)
  rw [spanRows_length] at this
  exact this

end Tabula.Odt
