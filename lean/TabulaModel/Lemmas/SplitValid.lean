import TabulaModel.Lemmas.Utf8
/-!
C13, UTF-8 integrity of `SplitToSize`: on valid UTF-8 every split point returned by the
search (without semantic boundaries) is a character boundary, hence every piece is valid.
-/
set_option linter.unusedVariables false
namespace Tabula.Split

theorem isBreak_lt {b : Nat} (h : isBreak b = true) : b < 0x80 := by
  simp only [isBreak, Bool.or_eq_true, beq_iff_eq] at h; omega

theorem isSentenceEndChar_lt {b : Nat} (h : isSentenceEndChar b = true) : b < 0x80 := by
  simp only [isSentenceEndChar, Bool.or_eq_true, beq_iff_eq] at h; omega

theorem isBreakAt_spec {text : Str} {i : Nat} (h : isBreakAt text i = true) :
    ∃ b, text[i]? = some b ∧ b < 0x80 := by
  unfold isBreakAt at h
  split at h
  · rename_i c hc; exact ⟨c, hc, isBreak_lt h⟩
  · simp at h

/-- a backward sentence hit `i+1` is followed by a space or newline -/
theorem sentBack_spec (text : Str) (i steps p : Nat) (h : sentBack text i steps = some p) :
    ∃ b, text[p]? = some b ∧ b < 0x80 := by
  induction steps generalizing i with
  | zero => simp [sentBack] at h
  | succ n ih =>
    unfold sentBack at h
    split at h
    · rename_i hc
      simp only [Bool.and_eq_true] at hc
      simp only [Option.some.injEq] at h
      subst h
      exact isBreakAt_spec hc.2
    · split at h
      · simp at h
      · exact ih _ h

/-- a backward word-boundary hit is the position after a space or newline -/
theorem wordBack_spec (text : Str) (i steps p : Nat) (h : wordBack text i steps = some p) :
    ∃ j b, p = j + 1 ∧ text[j]? = some b ∧ b < 0x80 := by
  induction steps generalizing i with
  | zero => simp [wordBack] at h
  | succ n ih =>
    unfold wordBack at h
    split at h
    · rename_i hc
      simp only [Option.some.injEq] at h
      obtain ⟨b, hb, hlt⟩ := isBreakAt_spec hc
      exact ⟨i, b, h.symm, hb, hlt⟩
    · split at h
      · simp at h
      · exact ih _ h

theorem findWordBoundaryBefore_spec (text : Str) (T : Nat) (h : findWordBoundaryBefore text T > 0) :
    ∃ j b, findWordBoundaryBefore text T = j + 1 ∧ text[j]? = some b ∧ b < 0x80 := by
  unfold findWordBoundaryBefore at h ⊢
  split
  · rename_i h0; simp [h0] at h
  · rename_i h0
    simp only [h0, if_false] at h
    cases hw : wordBack text (T - 1) 50 with
    | none => simp [hw] at h
    | some p => simpa using wordBack_spec text _ _ p hw

/-- a forward sentence hit is the position after an ASCII byte -/
theorem sentFwd_spec (rest : Str) (i steps q : Nat) (h : sentFwd rest i steps = some q) :
    ∃ k b, q = i + k + 1 ∧ rest[k]? = some b ∧ b < 0x80 := by
  induction steps generalizing rest i with
  | zero => simp [sentFwd] at h
  | succ n ih =>
    cases rest with
    | nil => simp [sentFwd] at h
    | cons c rest' =>
      unfold sentFwd at h
      split at h
      · rename_i hc
        split at h
        · simp only [Option.some.injEq] at h
          exact ⟨0, c, by omega, rfl, isSentenceEndChar_lt hc⟩
        · split at h
          · simp only [Option.some.injEq] at h
            exact ⟨0, c, by omega, rfl, isSentenceEndChar_lt hc⟩
          · obtain ⟨k, b, e, hb, hlt⟩ := ih _ _ h
            exact ⟨k + 1, b, by omega, by simpa using hb, hlt⟩
      · obtain ⟨k, b, e, hb, hlt⟩ := ih _ _ h
        exact ⟨k + 1, b, by omega, by simpa using hb, hlt⟩

theorem wordFwd_spec (rest : Str) (i steps q : Nat) (h : wordFwd rest i steps = some q) :
    ∃ k b, q = i + k + 1 ∧ rest[k]? = some b ∧ b < 0x80 := by
  induction steps generalizing rest i with
  | zero => simp [wordFwd] at h
  | succ n ih =>
    cases rest with
    | nil => simp [wordFwd] at h
    | cons c rest' =>
      unfold wordFwd at h
      split at h
      · rename_i hc
        simp only [Option.some.injEq] at h
        exact ⟨0, c, by omega, rfl, isBreak_lt hc⟩
      · obtain ⟨k, b, e, hb, hlt⟩ := ih _ _ h
        exact ⟨k + 1, b, by omega, by simpa using hb, hlt⟩

theorem valid_take_of_drop_ascii (s : Str) (hv : validUtf8 s = true) (T k b q : Nat)
    (e : q = T + k + 1) (hb : (s.drop T)[k]? = some b) (hlt : b < 0x80) :
    validUtf8 (s.take q) = true := by
  subst e
  rw [List.getElem?_drop] at hb
  exact valid_take_after_ascii s hv (T + k) b hb hlt

theorem valid_take_findWordBoundaryNear (s : Str) (hv : validUtf8 s = true) (T : Nat) :
    validUtf8 (s.take (findWordBoundaryNear s T)) = true := by
  unfold findWordBoundaryNear
  split
  · simpa using hv
  · rename_i hT
    simp only
    split
    · rename_i hp
      obtain ⟨j, b, e, hb, hlt⟩ := findWordBoundaryBefore_spec s T hp
      rw [e]; exact valid_take_after_ascii s hv j b hb hlt
    · split
      · rename_i q hq
        obtain ⟨k, b, e, hb, hlt⟩ := wordFwd_spec _ _ _ _ hq
        exact valid_take_of_drop_ascii s hv T k b q e hb hlt
      · exact valid_take_runeBoundaryNear s hv T (by omega)

/-- the split point found by `findSentenceEndNear` is a character boundary -/
theorem valid_take_findSentenceEndNear (s : Str) (hv : validUtf8 s = true) (T : Nat) :
    validUtf8 (s.take (findSentenceEndNear s T)) = true := by
  unfold findSentenceEndNear
  split
  · simpa using hv
  · rename_i hT
    split
    · rename_i p hp
      split at hp
      · simp at hp
      · obtain ⟨b, hb, hlt⟩ := sentBack_spec s _ _ p hp
        exact valid_take_of_runeStart s hv p (Or.inr ⟨b, hb, runeStart_of_lt hlt⟩)
    · simp only
      split
      · rename_i hp
        obtain ⟨j, b, e, hb, hlt⟩ := findWordBoundaryBefore_spec s T hp
        rw [e]; exact valid_take_after_ascii s hv j b hb hlt
      · split
        · rename_i q hq
          obtain ⟨k, b, e, hb, hlt⟩ := sentFwd_spec _ _ _ _ hq
          exact valid_take_of_drop_ascii s hv T k b q e hb hlt
        · exact valid_take_findWordBoundaryNear s hv T

/-- **every split point is a scalar boundary** (no semantic boundaries supplied) -/
theorem valid_take_findSplitPointAt (c : SizeConfig) (s : Str) (hv : validUtf8 s = true)
    (M : Nat) (u : SizeUnit) :
    validUtf8 (s.take (findSplitPointAt c s [] M u)) = true := by
  unfold findSplitPointAt
  simp only [List.isEmpty_nil, Bool.not_true, Bool.and_false, Bool.false_eq_true, if_false]
  split
  · simpa using hv
  · exact valid_take_findSentenceEndNear s hv _

/-- **UTF-8 integrity**: valid UTF-8 in ⇒ every piece of `SplitToSize(text, nil)` is valid -/
theorem splitToSize_valid (c : SizeConfig) (text : Str) (bs : List Boundary) (hbs : bs = [])
    (hv : validUtf8 text = true) : ∀ p ∈ splitToSize c text bs, validUtf8 p = true := by
  induction text, bs using splitToSize.induct c with
  | case1 rem bs h => rw [splitToSize, if_pos h]; simp
  | case2 rem bs h hmax =>
    rw [splitToSize, if_neg h, if_pos hmax]
    intro p hp; simp at hp; subst hp; exact hv
  | case3 rem bs h hmax sp hsp =>
    rw [splitToSize, if_neg h, if_neg hmax]
    simp only [sp] at hsp
    rw [dif_pos hsp]
    intro p hp; simp at hp; subst hp; exact hv
  | case4 rem bs h hmax sp hsp chunk rest bs' hchunk ih =>
    rw [splitToSize, if_neg h, if_neg hmax]
    simp only [sp] at hsp
    rw [dif_neg hsp]
    simp only [chunk, sp] at hchunk
    rw [if_pos hchunk]
    subst hbs
    have ht := valid_take_findSplitPointAt c rem hv c.maxValue c.maxUnit
    have hd := valid_drop_of_valid_take rem hv _ ht
    exact ih rfl (valid_trimSpace _ hd)
  | case5 rem bs h hmax sp hsp chunk rest bs' hchunk ih =>
    rw [splitToSize, if_neg h, if_neg hmax]
    simp only [sp] at hsp
    rw [dif_neg hsp]
    simp only [chunk, sp] at hchunk
    rw [if_neg hchunk]
    subst hbs
    have ht := valid_take_findSplitPointAt c rem hv c.maxValue c.maxUnit
    have hd := valid_drop_of_valid_take rem hv _ ht
    intro p hp
    rcases List.mem_cons.mp hp with hp | hp
    · subst hp; exact valid_trimSpace _ ht
    · exact ih rfl (valid_trimSpace _ hd) p hp

end Tabula.Split
