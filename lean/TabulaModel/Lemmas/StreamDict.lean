import TabulaModel.Model.StreamDict
import TabulaModel.Lemmas.Filters
/-!
Helper lemmas for the dictionary level of C05 (`Model/StreamDict.lean`): what `dictToParams`
and `getIntParam` read from a dictionary, and that the predictors only look at the parameter
values with their defaults applied.
-/
namespace Tabula.Filters

theorem lookup_dictToParams (d : Dict) (k : Str) :
    (dictToParams d).lookup k = (d.lookup k).map toPVal := by
  induction d with
  | nil => rfl
  | cons kv rest ih =>
    obtain ⟨k', v⟩ := kv
    simp only [dictToParams, List.map_cons, List.lookup_cons]
    cases h : k == k'
    · simpa [dictToParams] using ih
    · simp

theorem two_pow_pos (e : Nat) : (0 : Int) < (2 : Int) ^ e := Int.pow_pos (by omega)

/-- a Real whose value is the integer `v` reads as `v` -/
theorem truncReal_integral (v : Int) (e : Nat) : truncReal (v * (2 : Int) ^ e) e = v := by
  unfold truncReal
  exact Int.mul_tdiv_cancel _ (Int.ne_of_gt (two_pow_pos e))

/-- a Real with the value `(v·2^e + f) / 2^e`, `0 ≤ f < 2^e`, `v ≥ 0`, reads as `v`: `int(v)` cuts
the fraction off -/
theorem truncReal_fraction_nonneg (v : Nat) (e f : Nat) (hf : f < 2 ^ e) :
    truncReal ((v : Int) * (2 : Int) ^ e + (f : Int)) e = v := by
  unfold truncReal
  have h2 : ((2 : Int) ^ e) = ((2 ^ e : Nat) : Int) := by simp
  have hn : (v : Int) * (2 : Int) ^ e + (f : Int) = ((v * 2 ^ e + f : Nat) : Int) := by simp
  rw [hn, h2, Int.tdiv_eq_ediv_of_nonneg (by omega), ← Int.natCast_ediv]
  congr 1
  have hpos : 0 < 2 ^ e := Nat.pos_of_ne_zero (by simp)
  rw [Nat.mul_comm, Nat.mul_add_div hpos, Nat.div_eq_of_lt hf]
  simp

/-- toward zero, not down: `-(v + f/2^e)` reads as `-v` -/
theorem truncReal_fraction_neg (v : Nat) (e f : Nat) (hf : f < 2 ^ e) :
    truncReal (-((v : Int) * (2 : Int) ^ e + (f : Int))) e = -(v : Int) := by
  have := truncReal_fraction_nonneg v e f hf
  unfold truncReal at this ⊢
  rw [Int.neg_tdiv, this]

theorem intOpt_int (d : Dict) (k : Str) (n : Int) (h : dictGet d k = some (.int n)) :
    intOpt (dictToParams d) k = some n := by
  unfold dictGet at h
  simp [intOpt, lookup_dictToParams, h, toPVal]

theorem intOpt_real (d : Dict) (k : Str) (m : Int) (e : Nat) (h : dictGet d k = some (.real m e)) :
    intOpt (dictToParams d) k = some (truncReal m e) := by
  unfold dictGet at h
  simp [intOpt, lookup_dictToParams, h, toPVal]

theorem intOpt_absent (d : Dict) (k : Str) (h : dictGet d k = none) :
    intOpt (dictToParams d) k = none := by
  unfold dictGet at h
  simp [intOpt, lookup_dictToParams, h]

/-- a value that is neither Int nor Real counts as if the key were missing -/
theorem intOpt_nonnumber (d : Dict) (k : Str) (o : Obj) (h : dictGet d k = some o)
    (h1 : ∀ n, o ≠ .int n) (h2 : ∀ m e, o ≠ .real m e) : intOpt (dictToParams d) k = none := by
  unfold dictGet at h
  cases o with
  | int n => exact absurd rfl (h1 n)
  | real m e => exact absurd rfl (h2 m e)
  | _ => simp [intOpt, lookup_dictToParams, h, toPVal]

/-- `getIntParam` is the read value or the default -/
theorem getIntParam_eq (ps : GoParams) (k : Str) (dflt : Int) :
    getIntParam (some ps) k dflt = (intOpt ps k).getD dflt := rfl

/-- the record with every default applied -/
def Params.norm (p : Params) : Params :=
  { p with colors := some (p.colors.getD 1), columns := some (p.columns.getD 1), bpc := some (p.bpc.getD 8) }

theorem applyPNGPredictor_norm (d : Str) (p : Params) : applyPNGPredictor d p = applyPNGPredictor d p.norm := rfl

theorem applyTIFFPredictor2_norm (d : Str) (p : Params) :
    applyTIFFPredictor2 d p = applyTIFFPredictor2 d p.norm := rfl

theorem applyPredictor_norm (d : Str) (pr : Int) (p : Params) : applyPredictor d pr p = applyPredictor d pr p.norm := rfl

end Tabula.Filters
