import TabulaModel.Model.LayoutText
import TabulaModel.Lemmas.LayoutOrder
/-!
Lemmas about `Model/LayoutText.lean`: every rendering writes the fragment texts and white space.
-/
namespace Tabula.Layout
open List

theorem nonspace_nl : nonspace [10] = [] := rfl
theorem nonspace_nlnl : nonspace [10, 10] = [] := rfl
theorem nonspace_sp : nonspace [32] = [] := rfl

theorem nonspace_ite_ws (c : Prop) [Decidable c] (a b : Str) (ha : nonspace a = []) (hb : nonspace b = []) :
    nonspace (if c then a else b) = [] := by
  split <;> assumption

/-! ## LineLayout.GetText -/

theorem nonspace_lineLayoutTextAux (avg : Rat) (ls : List (List Frag)) :
    nonspace (lineLayoutTextAux avg ls) = nonspace (textsOf ls.flatten) := by
  induction ls with
  | nil => rfl
  | cons l ls ih =>
    cases ls with
    | nil => simp [lineLayoutTextAux, nonspace_lineText]
    | cons l2 ls =>
      simp only [lineLayoutTextAux, nonspace_append, nonspace_lineText, ih, List.flatten_cons, textsOf_append,
        nonspace_ite_ws _ _ _ nonspace_nlnl nonspace_nl, List.append_nil, List.nil_append]

theorem nonspace_lineLayoutText (ls : List (List Frag)) :
    nonspace (lineLayoutText ls) = nonspace (textsOf ls.flatten) :=
  nonspace_lineLayoutTextAux _ ls

/-! ## ReadingOrderResult.GetText -/

theorem nonspace_joinBySpacing (avg : Rat) (ts : List (Str × Rat)) :
    nonspace (joinBySpacing avg ts) = nonspace (ts.map (·.1)).flatten := by
  induction ts with
  | nil => rfl
  | cons t ts ih =>
    cases ts with
    | nil => simp [joinBySpacing]
    | cons t2 ts =>
      simp only [joinBySpacing, nonspace_append, ih, List.map_cons, List.flatten_cons,
        nonspace_ite_ws _ _ _ nonspace_nlnl nonspace_nl, List.append_nil, List.nil_append]

theorem secSpacingsAfter_length (ls : List (List Frag)) : (secSpacingsAfter ls).length = ls.length := by
  induction ls with
  | nil => rfl
  | cons a ls ih =>
    cases ls with
    | nil => rfl
    | cons b ls => simp only [secSpacingsAfter, List.length_cons] at *; omega

theorem flatMap_lengths_eq {α β γ : Type} (f : α → List β) (g : α → List γ) (l : List α)
    (h : ∀ a, (f a).length = (g a).length) : (l.flatMap f).length = (l.flatMap g).length := by
  induction l with
  | nil => rfl
  | cons a l ih => simp only [List.flatMap_cons, List.length_append, h a, ih]

theorem map_fst_zip_of_length_eq {α β : Type} (a : List α) (b : List β) (h : a.length = b.length) :
    (a.zip b).map (·.1) = a := by
  induction a generalizing b with
  | nil => rfl
  | cons x a ih =>
    cases b with
    | nil => simp at h
    | cons y b => simp only [List.zip_cons_cons, List.map_cons]; rw [ih b (by simpa using h)]

theorem flatMap_lineTexts (ss : List Sec) :
    nonspace (ss.flatMap fun s => s.lines.map lineText).flatten = nonspace (textsOf (ss.flatMap (·.lines)).flatten) := by
  induction ss with
  | nil => rfl
  | cons s ss ih =>
    simp only [List.flatMap_cons, List.flatten_append, nonspace_append, textsOf_append, ih, lineTexts_nonspace']

theorem nonspace_roText (ro : ReadingOrder) :
    nonspace (roText ro) = nonspace (textsOf (ro.sections.flatMap (·.lines)).flatten) := by
  unfold roText
  simp only
  rw [nonspace_joinBySpacing, map_fst_zip_of_length_eq, flatMap_lineTexts]
  apply flatMap_lengths_eq
  intro s
  rw [List.length_map, secSpacingsAfter_length]

/-! ## ColumnLayout.GetText -/

theorem nonspace_colLineTextAux (p : Frag) (l : List Frag) :
    nonspace (colLineTextAux p l) = nonspace (textsOf l) := by
  induction l generalizing p with
  | nil => rfl
  | cons f fs ih =>
    simp only [colLineTextAux, textsOf_cons, nonspace_append, ih,
      nonspace_ite_ws _ _ _ nonspace_sp nonspace_nil, List.append_nil, List.nil_append]

theorem nonspace_colLineText (l : List Frag) : nonspace (colLineText l) = nonspace (textsOf l) := by
  cases l with
  | nil => rfl
  | cons f fs => simp only [colLineText, textsOf_cons, nonspace_append, nonspace_colLineTextAux]

theorem nonspace_colLineText_order (preserve : List Frag → Bool) (b : List Frag) :
    (nonspace (colLineText (orderLine preserve b))).Perm (nonspace (textsOf b)) := by
  rw [nonspace_colLineText]
  exact textsOf_perm (orderLine_perm preserve b)

theorem nonspace_spanningTextAux (preserve : List Frag → Bool) (bs : List (List Frag)) :
    (nonspace (spanningTextAux preserve bs)).Perm (nonspace (textsOf bs.flatten)) := by
  induction bs with
  | nil => exact List.Perm.refl _
  | cons b bs ih =>
    cases bs with
    | nil => simpa [spanningTextAux] using nonspace_colLineText_order preserve b
    | cons b2 bs =>
      simp only [spanningTextAux, nonspace_append, nonspace_nl, List.append_nil, List.nil_append, List.flatten_cons, textsOf_append]
      exact (nonspace_colLineText_order preserve b).append (by simpa [textsOf_append, nonspace_append] using ih)

theorem nonspace_getSpanningText (preserve : List Frag → Bool) (sp : List Frag) :
    (nonspace (getSpanningText preserve sp)).Perm (nonspace (textsOf sp)) :=
  (nonspace_spanningTextAux preserve (bands sp)).trans (textsOf_perm (bands_perm sp))

theorem nonspace_columnTextAux (preserve : List Frag → Bool) (bs : List (List Frag)) :
    (nonspace (columnTextAux preserve bs)).Perm (nonspace (textsOf bs.flatten)) := by
  induction bs with
  | nil => exact List.Perm.refl _
  | cons b bs ih =>
    cases bs with
    | nil => simpa [columnTextAux] using nonspace_colLineText_order preserve b
    | cons b2 bs =>
      simp only [columnTextAux, nonspace_append, nonspace_ite_ws _ _ _ nonspace_nlnl nonspace_nl,
        List.append_nil, List.nil_append, List.flatten_cons, textsOf_append]
      exact (nonspace_colLineText_order preserve b).append (by simpa [textsOf_append, nonspace_append] using ih)

theorem nonspace_getColumnText (preserve : List Frag → Bool) (col : List Frag) :
    (nonspace (getColumnText preserve col)).Perm (nonspace (textsOf col)) :=
  (nonspace_columnTextAux preserve (bands col)).trans (textsOf_perm (bands_perm col))

theorem nonspace_columnsTextAux (preserve : List Frag → Bool) (cs : List (List Frag)) :
    (nonspace (columnsTextAux preserve cs)).Perm (nonspace (textsOf cs.flatten)) := by
  induction cs with
  | nil => exact List.Perm.refl _
  | cons c cs ih =>
    cases cs with
    | nil => simpa [columnsTextAux] using nonspace_getColumnText preserve c
    | cons c2 cs =>
      simp only [columnsTextAux, nonspace_append, nonspace_ite_ws _ _ _ nonspace_nil nonspace_nlnl,
        List.append_nil, List.nil_append, List.flatten_cons, textsOf_append]
      exact (nonspace_getColumnText preserve c).append (by simpa [textsOf_append, nonspace_append] using ih)

theorem nonspace_isEmpty {s : Str} (h : s.isEmpty = true) : nonspace s = [] := by
  rw [(isEmpty_eq_true_iff s).mp h]; rfl

theorem nonspace_columnLayoutText (preserve : List Frag → Bool) (cl : ColumnLayout) :
    (nonspace (columnLayoutText preserve cl)).Perm (nonspace (textsOf cl.all)) := by
  unfold columnLayoutText ColumnLayout.all
  rw [nonspace_append, textsOf_append, nonspace_append]
  refine List.Perm.trans ?_ List.perm_append_comm
  refine List.Perm.append ?_ (nonspace_columnsTextAux preserve cl.columns)
  by_cases h : (cl.spanning.isEmpty || (getSpanningText preserve cl.spanning).isEmpty) = true
  · rw [if_pos h]
    rcases Bool.or_eq_true_iff.mp h with h1 | h1
    · rw [(isEmpty_eq_true_iff _).mp h1]; exact List.Perm.refl _
    · have := nonspace_getSpanningText preserve cl.spanning
      rw [nonspace_isEmpty h1] at this
      rw [this.symm.eq_nil]; exact List.Perm.refl _
  · rw [if_neg h, nonspace_append, nonspace_nlnl, List.append_nil]
    exact nonspace_getSpanningText preserve cl.spanning

/-! ## Block.GetText, BlockLayout.GetText -/

theorem nonspace_blockTextAux (ls : List (List Frag)) :
    nonspace (blockTextAux ls) = nonspace (textsOf ls.flatten) := by
  induction ls with
  | nil => rfl
  | cons l ls ih =>
    cases ls with
    | nil => simp [blockTextAux, nonspace_lineText]
    | cons l2 ls =>
      simp only [blockTextAux, nonspace_append, nonspace_lineText, ih, List.flatten_cons, textsOf_append,
        nonspace_nl, List.append_nil, List.nil_append]

theorem nonspace_blockText (b : Block) : nonspace (blockText b) = nonspace (textsOf b.lines.flatten) :=
  nonspace_blockTextAux b.lines

theorem nonspace_blockLayoutText (bs : List Block) :
    nonspace (blockLayoutText bs) = nonspace (textsOf (blocksLines bs).flatten) := by
  induction bs with
  | nil => rfl
  | cons b bs ih =>
    cases bs with
    | nil => simp [blockLayoutText, nonspace_blockText, blocksLines]
    | cons b2 bs =>
      simp only [blockLayoutText, nonspace_append, ih, nonspace_ite_ws _ _ _ nonspace_nil nonspace_nlnl,
        List.append_nil, nonspace_blockText]
      simp [blocksLines, textsOf_append, nonspace_append]

/-- a block shows the same fragments in `Lines` as in `Fragments` -/
def BlockOk (b : Block) : Prop := b.lines.flatten.Perm b.frags

theorem mkBlock_ok (ls : List (List Frag)) : BlockOk (mkBlock ls) := List.Perm.refl _

theorem mergeBlocks_ok (a b : Block) (ha : BlockOk a) (hb : BlockOk b) : BlockOk (mergeBlocks a b) := by
  unfold BlockOk mergeBlocks at *
  simp only
  have h1 : ((a.lines ++ b.lines).mergeSort fun x y => decide (lineMaxY x ≥ lineMaxY y)).Perm (a.lines ++ b.lines) :=
    List.mergeSort_perm _ _
  refine h1.flatten.trans ?_
  rw [List.flatten_append]
  exact ha.append hb

theorem mergeInto_ok (ov : Block → Block → Bool) (cur : Block) (bs : List Block)
    (hc : BlockOk cur) (hb : ∀ b ∈ bs, BlockOk b) :
    BlockOk (mergeInto ov cur bs).1 ∧ ∀ b ∈ (mergeInto ov cur bs).2, BlockOk b := by
  induction bs generalizing cur with
  | nil => exact ⟨hc, by simp [mergeInto]⟩
  | cons b bs ih =>
    simp only [mergeInto]
    split
    · exact ih _ (mergeBlocks_ok _ _ hc (hb b (by simp))) (fun x hx => hb x (List.mem_cons_of_mem _ hx))
    · have := ih cur hc (fun x hx => hb x (List.mem_cons_of_mem _ hx))
      refine ⟨this.1, ?_⟩
      intro x hx
      rcases List.mem_cons.mp hx with h | h
      · subst h; exact hb _ (by simp)
      · exact this.2 x h

theorem mergeAll_ok (ov : Block → Block → Bool) (bs : List Block) (hb : ∀ b ∈ bs, BlockOk b) :
    ∀ b ∈ mergeAll ov bs, BlockOk b := by
  generalize hn : bs.length = n
  induction n using Nat.strongRecOn generalizing bs with
  | _ n ih =>
    cases bs with
    | nil => intro b hb'; rw [mergeAll] at hb'; simp at hb'
    | cons c cs =>
      intro b hb'
      rw [mergeAll] at hb'
      have hm := mergeInto_ok ov c cs (hb c (by simp)) (fun x hx => hb x (List.mem_cons_of_mem _ hx))
      rcases List.mem_cons.mp hb' with h | h
      · subst h; exact hm.1
      · have hl := mergeInto_length ov c cs
        exact ih (mergeInto ov c cs).2.length (by subst hn; simp only [List.length_cons]; omega) _ hm.2 rfl b h

theorem groupBlocks_ok (brk : List (List Frag) → List Frag → List (List Frag) → Bool) (lines : List (List Frag)) :
    ∀ b ∈ groupBlocks brk lines, BlockOk b := by
  intro b hb
  unfold groupBlocks at hb
  rcases List.mem_map.mp hb with ⟨ls, _, rfl⟩
  exact mkBlock_ok ls

/-- dropping blocks without visible text does not change the characters of the lines either -/
theorem validateBlocks_lines_nonspace (mw mh : Rat) (bs : List Block) (hb : ∀ b ∈ bs, BlockOk b) :
    nonspace (textsOf (blocksLines (validateBlocks mw mh bs)).flatten) = nonspace (textsOf (blocksLines bs).flatten) := by
  induction bs with
  | nil => rfl
  | cons b bs ih =>
    have ih' := ih (fun x hx => hb x (List.mem_cons_of_mem _ hx))
    unfold validateBlocks blocksLines at *
    simp only [List.filter_cons]
    cases hk : keepBlock mw mh b with
    | true =>
      simp only [if_true, List.map_cons, List.flatten_cons, List.flatten_append, textsOf_append, nonspace_append, ih']
    | false =>
      have h0 : nonspace (textsOf b.frags) = [] := dropped_block_blank mw mh b hk
      have h1 := textsOf_perm (hb b (by simp))
      rw [h0] at h1
      simp only [Bool.false_eq_true, if_false, List.map_cons, List.flatten_cons, List.flatten_append, textsOf_append,
        nonspace_append, ih', h1.eq_nil, List.append_nil, List.nil_append]

/-! ## text.GetText -/

theorem reorderForReading_perm (keepS rtlOf : List Frag → Bool) (l : List Frag) :
    (reorderForReading keepS rtlOf l).Perm l := by
  unfold reorderForReading
  split
  · exact List.Perm.refl _
  · split
    · exact List.Perm.refl _
    · exact stableSort_perm _ _

theorem nonspace_gtLineAux (spaceOf : Frag → Frag → Bool) (p : Frag) (l : List Frag) :
    nonspace (gtLineAux spaceOf p l) = nonspace (textsOf l) := by
  induction l generalizing p with
  | nil => rfl
  | cons f fs ih =>
    simp only [gtLineAux, textsOf_cons, nonspace_append, ih,
      nonspace_ite_ws _ _ _ nonspace_sp nonspace_nil, List.append_nil, List.nil_append]

theorem nonspace_gtLine (spaceOf : Frag → Frag → Bool) (l : List Frag) :
    nonspace (gtLine spaceOf l) = nonspace (textsOf l) := by
  cases l with
  | nil => rfl
  | cons f fs => simp only [gtLine, textsOf_cons, nonspace_append, nonspace_gtLineAux]

theorem nonspace_gtLines (keepS rtlOf : List Frag → Bool) (spaceOf : List Frag → Frag → Frag → Bool)
    (ls : List (List Frag)) :
    (nonspace (gtLines keepS rtlOf spaceOf ls)).Perm (nonspace (textsOf ls.flatten)) := by
  induction ls with
  | nil => exact List.Perm.refl _
  | cons l ls ih =>
    have hl : (nonspace (gtLine (spaceOf l) (reorderForReading keepS rtlOf l))).Perm (nonspace (textsOf l)) := by
      rw [nonspace_gtLine]; exact textsOf_perm (reorderForReading_perm keepS rtlOf l)
    cases ls with
    | nil => simpa [gtLines] using hl
    | cons l2 ls =>
      simp only [gtLines, nonspace_append, nonspace_ite_ws _ _ _ nonspace_nlnl nonspace_nl, List.append_nil, List.nil_append,
        List.flatten_cons, textsOf_append]
      exact hl.append (by simpa [textsOf_append, nonspace_append] using ih)

theorem groupFragments_flatten (fs : List Frag) : (groupFragments fs).flatten = fs := by
  simpa [groupFragments] using segment_flatten gfBreak fs []

end Tabula.Layout
