import TabulaModel.Lemmas.HtmlGrid
import TabulaModel.Lemmas.HtmlSrc
import TabulaModel.Lemmas.HtmlDepth
/-!
Helper lemmas for C19 (Props/C19Api.lean): raw mode values, the reader's cache over call
sequences, the Document view, the EPUB chapter loop.
-/
namespace Tabula.Html

/-! ### raw mode values -/

theorem excludedI_clamp (m : Int) (pos : Pos) (n : Dom) : excludedI m pos n = excluded (clampMode m) pos n := by
  cases n with
  | text s => rfl
  | other k => rfl
  | elem tag attrs kids =>
    unfold excludedI excluded clampMode
    by_cases h0 : m = 0
    · subst h0; simp
    · have hb : (m != 0) = true := by simpa using h0
      have ha : (Mode.aggressive != Mode.none) = true := by decide
      have he : (Mode.explicit != Mode.none) = true := by decide
      by_cases h3 : m ≥ 3
      · have h2 : m ≥ 2 := by omega
        simp [h0, h3, h2, Mode.rank, vocabOf, hb, ha]
      · by_cases h2 : m = 2
        · subst h2; simp [Mode.rank, vocabOf]
        · have h2' : ¬ m ≥ 2 := by omega
          simp [h0, h3, h2, h2', Mode.rank, hb, he]

theorem clampMode_toInt (m : Mode) : clampMode m.toInt = m := by
  cases m <;> decide

theorem pred_clamp (m : Int) :
    (if m = 0 then fun _ _ => false else excludedI m) = excluded (clampMode m) := by
  funext pos n
  by_cases h0 : m = 0
  · subst h0
    simp only [if_true]
    cases n <;> simp [clampMode, excluded]
  · simp only [h0, if_false]
    exact excludedI_clamp m pos n

/-- a raw mode value behaves as the documented mode it clamps to -/
theorem extractI_clamp (m : Int) (doc : Dom) : extractI m doc = extract (clampMode m) (bodyOf doc) := by
  unfold extractI extract
  rw [pred_clamp]

/-! ### the reader over call sequences -/

/-- the reader was opened on `doc` and every cached list is the list of its own key -/
def ReaderOk (doc : Dom) (r : ReaderI) : Prop :=
  r.doc = doc ∧ r.elements = extractI 0 doc ∧ ∀ m v, lookupI r.cache m = some v → v = extractI m doc

theorem openReader_ok (doc : Dom) : ReaderOk doc (openReader doc) :=
  ⟨rfl, rfl, fun m v hv => by simp [openReader, lookupI] at hv⟩

theorem getElementsI_correct (doc : Dom) (r : ReaderI) (m : Int) (h : ReaderOk doc r) :
    (getElementsI r m).1 = extractI m doc ∧ ReaderOk doc (getElementsI r m).2 := by
  unfold getElementsI
  by_cases hm : m = 0
  · subst hm; simp only [if_true]; exact ⟨h.2.1, h⟩
  · simp only [hm, if_false]
    cases hl : lookupI r.cache m with
    | some v => exact ⟨h.2.2 m v hl, h⟩
    | none =>
      refine ⟨by simp [h.1], h.1, h.2.1, ?_⟩
      intro m' v' hv
      simp only [lookupI] at hv
      by_cases e : m = m'
      · subst e; simp at hv; rw [← hv, h.1]
      · simp [e] at hv; exact h.2.2 m' v' hv

theorem call_correct (doc : Dom) (r : ReaderI) (c : Call) (h : ReaderOk doc r) :
    (call r c).1 = c.render (extractI c.mode doc) ∧ ReaderOk doc (call r c).2 := by
  have g := getElementsI_correct doc r c.mode h
  unfold call
  cases hg : getElementsI r c.mode with
  | mk els r' =>
    rw [hg] at g
    have g1 : els = extractI c.mode doc := g.1
    exact ⟨by show c.render els = _; rw [g1], g.2⟩

theorem fresh_eq (doc : Dom) (c : Call) : fresh doc c = c.render (extractI c.mode doc) :=
  (call_correct doc (openReader doc) c (openReader_ok doc)).1

theorem runCalls_correct (doc : Dom) : ∀ (cs : List Call) (r : ReaderI), ReaderOk doc r →
    runCalls r cs = cs.map (fresh doc)
  | [], _, _ => rfl
  | c :: cs, r, h => by
      have g := call_correct doc r c h
      simp only [runCalls, List.map_cons]
      rw [g.1, runCalls_correct doc cs _ g.2, fresh_eq]

/-! ### the Document view -/

/-- the texts a page element carries -/
def DocEl.texts : DocEl → List Str
  | .heading _ t => [t]
  | .para t => [t]
  | .list _ items => items.map (·.2)
  | .table rows => rows.flatten.map (·.text)

def docTexts (ds : List DocEl) : List Str := ds.flatMap DocEl.texts

/-- drop empty strings (the grid cells `model.NewTable` adds beyond a short row are empty) -/
def nonEmpty (l : List Str) : List Str := l.filter (· != [])

theorem nonEmpty_append (a b : List Str) : nonEmpty (a ++ b) = nonEmpty a ++ nonEmpty b := by
  simp [nonEmpty]

theorem nonEmpty_pad (k : Nat) : nonEmpty ((List.replicate k (⟨[], false, 1, 1⟩ : Cell)).map (·.text)) = [] := by
  induction k with
  | zero => rfl
  | succ n ih =>
    rw [List.replicate_succ, List.map_cons]
    simp [nonEmpty] at ih ⊢

theorem tableToMarkdown_nil : tableToMarkdown [] = [] := rfl

/-- the texts of a grid line: the positions without a cell are empty cells -/
theorem nonEmpty_gridLine (l : List (Option Cell)) :
    nonEmpty ((l.map gridCell).map (·.text)) = nonEmpty ((l.filterMap id).map (·.text)) := by
  induction l with
  | nil => rfl
  | cons o rest ih =>
    cases o with
    | none =>
      simp only [List.map_cons, List.filterMap_cons, id, gridCell]
      have : nonEmpty (([] : Str) :: (rest.map gridCell).map (·.text)) = nonEmpty ((rest.map gridCell).map (·.text)) := by
        simp [nonEmpty]
      rw [this, ih]
    | some c =>
      simp only [List.map_cons, List.filterMap_cons, id, gridCell]
      have h1 : ∀ (x : Str) (xs : List Str), nonEmpty (x :: xs) = nonEmpty [x] ++ nonEmpty xs := by
        intro x xs; simp [nonEmpty, List.filter_cons]; split <;> simp
      rw [h1 c.text (List.map (fun x => x.text) (List.map gridCell rest)), ih,
        ← h1 c.text (List.map (fun x => x.text) (List.filterMap id rest))]

theorem nonEmpty_gridLines (g : List (List (Option Cell))) :
    nonEmpty ((g.map (·.map gridCell)).flatten.map (·.text))
      = nonEmpty ((g.map (·.filterMap id)).flatten.map (·.text)) := by
  induction g with
  | nil => rfl
  | cons l ls ih =>
    simp only [List.map_cons, List.flatten_cons, List.map_append, nonEmpty_append, ih, nonEmpty_gridLine]

/-- the grid of a table carries the texts of its cells, in order, and empty cells besides -/
theorem nonEmpty_tableGrid (rows : List (List Cell)) :
    nonEmpty ((tableGrid rows).flatten.map (·.text)) = nonEmpty (rows.flatten.map (·.text)) := by
  unfold tableGrid
  rw [nonEmpty_gridLines]
  unfold HtmlGrid.grid
  rw [HtmlGrid.layoutGrid_cells]

theorem items_texts (items : List Item) :
    (items.map fun i => (i.level, i.text)).map (·.2) = (items.map fun i => Atom.item i.level i.text).map Atom.text := by
  induction items with
  | nil => rfl
  | cons i rest ih => simp [Atom.text]

theorem docElements_cons (e : Element) (rest : List Element) :
    docElements (e :: rest) = docElements [e] ++ docElements rest := by
  simp [docElements]

theorem docElements_one (e : Element) :
    nonEmpty (docTexts (docElements [e])) = nonEmpty (e.atoms.map Atom.text) := by
  simp only [docElements, docTexts, List.append_nil]
  cases e with
  | heading l t => simp [DocEl.texts, Element.atoms, Atom.text]
  | para t => simp [DocEl.texts, Element.atoms, Atom.text]
  | code t => simp [DocEl.texts, Element.atoms, Atom.text]
  | quote t => simp [DocEl.texts, Element.atoms, Atom.text]
  | list o items =>
    simp only [List.flatMap_cons, List.flatMap_nil, List.append_nil, DocEl.texts, Element.atoms]
    rw [items_texts]
  | table hd rows =>
    simp only [Element.atoms]
    by_cases hr : rows = []
    · simp [hr, nonEmpty]
    · simp only [hr, if_false, List.flatMap_cons, List.flatMap_nil, List.append_nil, DocEl.texts]
      rw [nonEmpty_tableGrid]
      congr 1
      simp [Atom.text, List.map_map, Function.comp_def]

/-- the Document view carries exactly the non-empty texts of the elements, in the same order -/
theorem docElements_texts : ∀ els : List Element,
    nonEmpty (docTexts (docElements els)) = nonEmpty ((flatten els).map Atom.text)
  | [] => rfl
  | e :: rest => by
      have hf : flatten (e :: rest) = e.atoms ++ flatten rest := by simp [flatten]
      rw [hf, List.map_append, nonEmpty_append, ← docElements_texts rest, docElements_cons]
      unfold docTexts
      rw [List.flatMap_append, nonEmpty_append]
      congr 1
      exact docElements_one e

/-! ### EPUB -/

theorem squeeze_joinWith (sepr : Str) (h : squeeze sepr = []) :
    ∀ parts : List Str, squeeze (joinWith sepr parts) = parts.flatMap squeeze
  | [] => rfl
  | [x] => by simp [joinWith]
  | x :: y :: rest => by
      rw [joinWith, squeeze_append, squeeze_append, h, squeeze_joinWith sepr h (y :: rest)]
      simp

/-- one step of the chapter loop -/
theorem epubParts_cons (view : Dom → Str) (d : Dom) (rest : List Dom) :
    epubParts view (d :: rest) =
      (if admitted d = true ∧ trim (view d) ≠ [] then [trim (view d)] else []) ++ epubParts view rest := by
  unfold epubParts
  rw [List.filterMap_cons, guarded_eq]
  by_cases ha : admitted d = true
  · by_cases ht : trim (view d) = []
    · simp [ha, ht]
    · simp [ha, ht]
  · simp [ha]

/-- up to white space the parts are the views of the admitted chapters (a refused chapter
contributes nothing, an empty one nothing visible) -/
theorem epubParts_squeeze (view : Dom → Str) :
    ∀ chapters : List Dom,
      (epubParts view chapters).flatMap squeeze = (chapters.filter admitted).flatMap fun d => squeeze (view d)
  | [] => rfl
  | d :: rest => by
      have ih := epubParts_squeeze view rest
      rw [epubParts_cons, List.flatMap_append, ih, List.filter_cons]
      by_cases ha : admitted d = true
      · by_cases ht : trim (view d) = []
        · simp only [ha, ht, ne_eq, not_true_eq_false, and_false, if_false, if_true, List.flatMap_nil, List.nil_append,
            List.flatMap_cons]
          rw [(trim_eq_nil_iff _).mp ht]; rfl
        · simp [ha, ht, squeeze_trim]
      · simp [ha]

/-! ### joining non-empty parts with a visible separator (EPUB Markdown) -/

theorem joinWith_cons (sepr x : Str) (rest : List Str) :
    joinWith sepr (x :: rest) = if rest = [] then x else x ++ sepr ++ joinWith sepr rest := by
  cases rest with
  | nil => simp [joinWith]
  | cons y ys => simp [joinWith]

theorem squeeze_joinWith_map (sepr : Str) : ∀ parts : List Str,
    squeeze (joinWith sepr parts) = joinWith (squeeze sepr) (parts.map squeeze)
  | [] => rfl
  | [x] => by simp [joinWith]
  | x :: y :: rest => by
      rw [joinWith, squeeze_append, squeeze_append, squeeze_joinWith_map sepr (y :: rest)]
      simp [joinWith]

/-- the parts of the chapter loop, squeezed: the non-empty squeezed views of the admitted chapters -/
theorem epubParts_map_squeeze (view : Dom → Str) : ∀ chapters : List Dom,
    (epubParts view chapters).map squeeze =
      ((chapters.filter admitted).map fun d => squeeze (view d)).filter (· != [])
  | [] => rfl
  | d :: rest => by
      have ih := epubParts_map_squeeze view rest
      rw [epubParts_cons, List.map_append, ih, List.filter_cons]
      by_cases ha : admitted d = true
      · by_cases ht : trim (view d) = []
        · have hs : squeeze (view d) = [] := (trim_eq_nil_iff _).mp ht
          simp [ha, ht, hs]
        · have hs : ¬ squeeze (view d) = [] := fun h => ht ((trim_eq_nil_iff _).mpr h)
          simp [ha, ht, hs, squeeze_trim]
      · simp [ha]

/-- the loop never looks at the view of a chapter `OpenReader` refuses -/
theorem epubParts_congr (view view' : Dom → Str) (h : ∀ d, depth d ≤ maxTreeDepth → view d = view' d) :
    ∀ chapters : List Dom, epubParts view chapters = epubParts view' chapters
  | [] => rfl
  | d :: rest => by
      rw [epubParts_cons, epubParts_cons, epubParts_congr view view' h rest]
      by_cases ha : admitted d = true
      · have : depth d ≤ maxTreeDepth := by simpa [admitted] using ha
        rw [h d this]
      · simp [ha]

theorem epubParts_length (view : Dom → Str) : ∀ chapters : List Dom,
    (epubParts view chapters).length ≤ (chapters.filter admitted).length
  | [] => Nat.le_refl _
  | d :: rest => by
      have ih := epubParts_length view rest
      rw [epubParts_cons, List.length_append, List.filter_cons]
      by_cases ha : admitted d = true
      · by_cases ht : trim (view d) = []
        · simp [ha, ht]; omega
        · simp [ha, ht]; omega
      · simp [ha]; exact ih

theorem epubParts_append (view : Dom → Str) (a b : List Dom) :
    epubParts view (a ++ b) = epubParts view a ++ epubParts view b := by
  unfold epubParts; exact List.filterMap_append

theorem joinWith_filter_sublist (sepr : Str) (f g : Dom → Str) (h : ∀ d, (g d).Sublist (f d)) :
    ∀ l : List Dom,
      (joinWith sepr ((l.map g).filter (· != []))).Sublist (joinWith sepr ((l.map f).filter (· != []))) ∧
      ((l.map g).filter (· != []) ≠ [] → (l.map f).filter (· != []) ≠ [])
  | [] => ⟨List.Sublist.refl _, fun x => x⟩
  | d :: rest => by
      obtain ⟨ih, ihne⟩ := joinWith_filter_sublist sepr f g h rest
      simp only [List.map_cons, List.filter_cons]
      by_cases hg : g d = []
      · have hgb : (g d != []) = false := by simp [hg]
        simp only [hgb, Bool.false_eq_true, if_false]
        by_cases hf : f d = []
        · have hfb : (f d != []) = false := by simp [hf]
          simp only [hfb, Bool.false_eq_true, if_false]
          exact ⟨ih, ihne⟩
        · have hfb : (f d != []) = true := by simpa using hf
          simp only [hfb, if_true]
          refine ⟨?_, fun _ => by simp⟩
          rw [joinWith_cons]
          split
          · rename_i hB
            by_cases hA : (rest.map g).filter (· != []) = []
            · rw [hA]; exact List.nil_sublist _
            · exact absurd hB (ihne hA)
          · exact ih.trans (List.sublist_append_right _ _)
      · have hgb : (g d != []) = true := by simpa using hg
        have hf : f d ≠ [] := by
          intro e
          have := h d
          rw [e] at this
          exact hg (List.sublist_nil.mp this)
        have hfb : (f d != []) = true := by simpa using hf
        simp only [hgb, hfb, if_true]
        refine ⟨?_, fun _ => by simp⟩
        rw [joinWith_cons, joinWith_cons]
        by_cases hA : (rest.map g).filter (· != []) = []
        · simp only [hA, if_true]
          split
          · exact h d
          · exact (h d).trans ((List.sublist_append_left _ _).trans (List.sublist_append_left _ _))
        · have hB := ihne hA
          simp only [hA, hB, if_false]
          exact List.Sublist.append (List.Sublist.append (h d) (List.Sublist.refl _)) ih

end Tabula.Html
