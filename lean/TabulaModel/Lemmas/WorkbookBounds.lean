import TabulaModel.Lemmas.Workbook
/-!
`findContentBounds` computes the tight bounding box of the content cells (C17).
-/
namespace Tabula.Wb
open Tabula.A1 Tabula.Sheet

/-- content positions of one row, left to right -/
def contentRow (ri : Nat) : List Cell → Nat → List (Nat × Nat)
  | [], _ => []
  | cell :: cs, ci => (if isContent cell then [(ri, ci)] else []) ++ contentRow ri cs (ci + 1)

/-- content positions of a grid, row-major -/
def contentPos : Grid → Nat → List (Nat × Nat)
  | [], _ => []
  | row :: rs, ri => contentRow ri row 0 ++ contentPos rs (ri + 1)

theorem boundsRow_eq (ri : Nat) (cs : List Cell) (ci : Nat) (b : Bounds) :
    boundsRow ri cs ci b = (contentRow ri cs ci).foldl stepPos b := by
  induction cs generalizing ci b with
  | nil => rfl
  | cons cell cs ih =>
    simp only [boundsRow, contentRow, List.foldl_append]
    rw [ih]
    split <;> rfl

theorem boundsRows_eq (g : Grid) (ri : Nat) (b : Bounds) :
    boundsRows g ri b = (contentPos g ri).foldl stepPos b := by
  induction g generalizing ri b with
  | nil => rfl
  | cons row rs ih =>
    simp only [boundsRows, contentPos, List.foldl_append]
    rw [ih, boundsRow_eq]

theorem mem_contentRow (ri : Nat) (cs : List Cell) (ci : Nat) (r c : Nat) :
    (r, c) ∈ contentRow ri cs ci ↔ r = ri ∧ ∃ j cell, cs[j]? = some cell ∧ c = ci + j ∧ isContent cell = true := by
  induction cs generalizing ci with
  | nil => simp [contentRow]
  | cons cell cs ih =>
    simp only [contentRow, List.mem_append, ih]
    constructor
    · rintro (h | ⟨h1, j, cell', h2, h3, h4⟩)
      · split at h
        · rename_i hc
          simp only [List.mem_singleton, Prod.mk.injEq] at h
          exact ⟨h.1, 0, cell, rfl, by omega, hc⟩
        · cases h
      · exact ⟨h1, j + 1, cell', by simpa using h2, by omega, h4⟩
    · rintro ⟨h1, j, cell', h2, h3, h4⟩
      cases j with
      | zero =>
        left
        simp only [List.getElem?_cons_zero, Option.some.injEq] at h2
        subst h2
        simp [h4, h1, h3]
      | succ j =>
        right
        exact ⟨h1, j, cell', by simpa using h2, by omega, h4⟩

theorem mem_contentPos (g : Grid) (ri : Nat) (r c : Nat) :
    (r, c) ∈ contentPos g ri ↔
      ∃ i row cell, g[i]? = some row ∧ r = ri + i ∧ row[c]? = some cell ∧ isContent cell = true := by
  induction g generalizing ri with
  | nil => simp [contentPos]
  | cons row rs ih =>
    simp only [contentPos, List.mem_append, ih, mem_contentRow]
    constructor
    · rintro (⟨h1, j, cell, h2, h3, h4⟩ | ⟨i, row', cell, h1, h2, h3, h4⟩)
      · exact ⟨0, row, cell, rfl, by omega, by rw [h3]; simpa using h2, h4⟩
      · exact ⟨i + 1, row', cell, by simpa using h1, by omega, h3, h4⟩
    · rintro ⟨i, row', cell, h1, h2, h3, h4⟩
      cases i with
      | zero =>
        left
        simp only [List.getElem?_cons_zero, Option.some.injEq] at h1
        subst h1
        exact ⟨by omega, c, cell, h3, by omega, h4⟩
      | succ i =>
        right
        exact ⟨i, row', cell, by simpa using h1, by omega, h3, h4⟩

/-- the content positions are the positions holding a content cell -/
theorem mem_contentPos_zero (g : Grid) (r c : Nat) :
    (r, c) ∈ contentPos g 0 ↔ ∃ cell, g.get r c = some cell ∧ isContent cell = true := by
  rw [mem_contentPos]
  unfold Grid.get
  constructor
  · rintro ⟨i, row, cell, h1, h2, h3, h4⟩
    have : i = r := by omega
    subst this
    exact ⟨cell, by simp [h1, h3], h4⟩
  · rintro ⟨cell, h1, h2⟩
    cases hr : g[r]? with
    | none => simp [hr] at h1
    | some row =>
      simp only [hr, Option.bind_some] at h1
      exact ⟨r, row, cell, hr, by omega, h1, h2⟩

/-! ## min/max folds over positions -/

theorem stepPos_mono (b : Bounds) (p : Nat × Nat) :
    (stepPos b p).minRow ≤ b.minRow ∧ b.maxRow ≤ (stepPos b p).maxRow ∧
      (stepPos b p).minCol ≤ b.minCol ∧ b.maxCol ≤ (stepPos b p).maxCol := by
  unfold stepPos
  refine ⟨?_, ?_, ?_, ?_⟩ <;> simp only <;> split <;> omega

theorem stepPos_cover (b : Bounds) (p : Nat × Nat) :
    (stepPos b p).minRow ≤ p.1 ∧ (p.1 : Int) ≤ (stepPos b p).maxRow ∧
      (stepPos b p).minCol ≤ p.2 ∧ (p.2 : Int) ≤ (stepPos b p).maxCol := by
  unfold stepPos
  refine ⟨?_, ?_, ?_, ?_⟩ <;> simp only <;> split <;> omega

theorem fold_mono (ps : List (Nat × Nat)) (b : Bounds) :
    (ps.foldl stepPos b).minRow ≤ b.minRow ∧ b.maxRow ≤ (ps.foldl stepPos b).maxRow ∧
      (ps.foldl stepPos b).minCol ≤ b.minCol ∧ b.maxCol ≤ (ps.foldl stepPos b).maxCol := by
  induction ps generalizing b with
  | nil => simp
  | cons p ps ih =>
    simp only [List.foldl_cons]
    have h1 := ih (stepPos b p)
    have h2 := stepPos_mono b p
    omega

theorem fold_cover (ps : List (Nat × Nat)) (b : Bounds) (p : Nat × Nat) (hp : p ∈ ps) :
    (ps.foldl stepPos b).minRow ≤ p.1 ∧ (p.1 : Int) ≤ (ps.foldl stepPos b).maxRow ∧
      (ps.foldl stepPos b).minCol ≤ p.2 ∧ (p.2 : Int) ≤ (ps.foldl stepPos b).maxCol := by
  induction ps generalizing b with
  | nil => cases hp
  | cons q ps ih =>
    simp only [List.foldl_cons]
    rcases List.mem_cons.mp hp with h | h
    · subst h
      have h1 := fold_mono ps (stepPos b p)
      have h2 := stepPos_cover b p
      omega
    · exact ih _ h

theorem fold_attain (ps : List (Nat × Nat)) (b : Bounds) :
    ((ps.foldl stepPos b).minRow = b.minRow ∨ ∃ p ∈ ps, (p.1 : Int) = (ps.foldl stepPos b).minRow) ∧
    ((ps.foldl stepPos b).maxRow = b.maxRow ∨ ∃ p ∈ ps, (p.1 : Int) = (ps.foldl stepPos b).maxRow) ∧
    ((ps.foldl stepPos b).minCol = b.minCol ∨ ∃ p ∈ ps, (p.2 : Int) = (ps.foldl stepPos b).minCol) ∧
    ((ps.foldl stepPos b).maxCol = b.maxCol ∨ ∃ p ∈ ps, (p.2 : Int) = (ps.foldl stepPos b).maxCol) := by
  induction ps generalizing b with
  | nil => simp
  | cons q ps ih =>
    simp only [List.foldl_cons]
    obtain ⟨h1, h2, h3, h4⟩ := ih (stepPos b q)
    refine ⟨?_, ?_, ?_, ?_⟩
    · rcases h1 with h | ⟨p, hp, h⟩
      · rw [h]
        by_cases hq : (q.1 : Int) < b.minRow
        · right; exact ⟨q, by simp, by simp [stepPos, hq]⟩
        · left; simp [stepPos, hq]
      · right; exact ⟨p, by simp [hp], h⟩
    · rcases h2 with h | ⟨p, hp, h⟩
      · rw [h]
        by_cases hq : (q.1 : Int) > b.maxRow
        · right; exact ⟨q, by simp, by simp [stepPos, hq]⟩
        · left; simp [stepPos, hq]
      · right; exact ⟨p, by simp [hp], h⟩
    · rcases h3 with h | ⟨p, hp, h⟩
      · rw [h]
        by_cases hq : (q.2 : Int) < b.minCol
        · right; exact ⟨q, by simp, by simp [stepPos, hq]⟩
        · left; simp [stepPos, hq]
      · right; exact ⟨p, by simp [hp], h⟩
    · rcases h4 with h | ⟨p, hp, h⟩
      · rw [h]
        by_cases hq : (q.2 : Int) > b.maxCol
        · right; exact ⟨q, by simp, by simp [stepPos, hq]⟩
        · left; simp [stepPos, hq]
      · right; exact ⟨p, by simp [hp], h⟩

theorem findContentBounds_eq (s : Sheet) :
    findContentBounds s = (contentPos s.rows 0).foldl stepPos (initBounds s) := by
  unfold findContentBounds; rw [boundsRows_eq]

/-! ## the box is tight -/

/-- position `(r,c)` of the grid holds a content cell -/
def HasContent (g : Grid) (r c : Nat) : Prop := ∃ cell, g.get r c = some cell ∧ isContent cell = true

theorem hasContent_lt {n : Nat} {g : Grid} (hrect : Rect n g) {r c : Nat} (h : HasContent g r c) :
    r < g.length ∧ c < n := by
  obtain ⟨cell, hc, _⟩ := h
  have := get_isSome_of_rect hrect r c
  rw [hc] at this
  simp only [Option.isSome_some] at this
  have h2 : (decide (r < g.length) && decide (c < n)) = true := this.symm
  simpa using h2

/-- every content cell lies in the box -/
theorem bounds_cover (s : Sheet) (r c : Nat) (h : HasContent s.rows r c) :
    (findContentBounds s).minRow ≤ r ∧ (r : Int) ≤ (findContentBounds s).maxRow ∧
      (findContentBounds s).minCol ≤ c ∧ (c : Int) ≤ (findContentBounds s).maxCol := by
  rw [findContentBounds_eq]
  exact fold_cover _ _ (r, c) ((mem_contentPos_zero s.rows r c).mpr h)

/-- without content the four results are the initial values, an empty box -/
theorem bounds_none (s : Sheet) (h : ¬ ∃ r c, HasContent s.rows r c) :
    findContentBounds s = initBounds s ∧ (findContentBounds s).isEmpty = true := by
  have hnil : contentPos s.rows 0 = [] := by
    cases hps : contentPos s.rows 0 with
    | nil => rfl
    | cons p ps =>
      exfalso; apply h
      refine ⟨p.1, p.2, (mem_contentPos_zero s.rows p.1 p.2).mp ?_⟩
      rw [hps]; simp
  rw [findContentBounds_eq, hnil]
  refine ⟨rfl, ?_⟩
  simp only [List.foldl_nil, Bounds.isEmpty, initBounds]
  have : ((s.rows.length : Nat) : Int) > -1 := by omega
  simp [this]

/-- with content, every side of the box touches a content cell -/
theorem bounds_attained (s : Sheet) (hrect : Rect (s.maxCol + 1) s.rows) (h : ∃ r c, HasContent s.rows r c) :
    (∃ c, HasContent s.rows (findContentBounds s).minRow.toNat c) ∧
    (∃ c, HasContent s.rows (findContentBounds s).maxRow.toNat c) ∧
    (∃ r, HasContent s.rows r (findContentBounds s).minCol.toNat) ∧
    (∃ r, HasContent s.rows r (findContentBounds s).maxCol.toNat) ∧
    0 ≤ (findContentBounds s).minRow ∧ 0 ≤ (findContentBounds s).minCol ∧
    0 ≤ (findContentBounds s).maxRow ∧ 0 ≤ (findContentBounds s).maxCol := by
  obtain ⟨r0, c0, h0⟩ := h
  obtain ⟨hr0, hc0⟩ := hasContent_lt hrect h0
  obtain ⟨k1, k2, k3, k4⟩ := bounds_cover s r0 c0 h0
  have hat := fold_attain (contentPos s.rows 0) (initBounds s)
  rw [← findContentBounds_eq] at hat
  obtain ⟨a1, a2, a3, a4⟩ := hat
  have i1 : (initBounds s).minRow = s.rows.length := rfl
  have i2 : (initBounds s).maxRow = -1 := rfl
  have i3 : (initBounds s).minCol = (s.maxCol : Int) + 1 := rfl
  have i4 : (initBounds s).maxCol = -1 := rfl
  have conv : ∀ p : Nat × Nat, p ∈ contentPos s.rows 0 → HasContent s.rows p.1 p.2 :=
    fun p hp => (mem_contentPos_zero s.rows p.1 p.2).mp hp
  refine ⟨?_, ?_, ?_, ?_, ?_, ?_, ?_, ?_⟩
  · rcases a1 with e | ⟨p, hp, e⟩
    · omega
    · exact ⟨p.2, by have := conv p hp; rwa [show (findContentBounds s).minRow.toNat = p.1 by omega]⟩
  · rcases a2 with e | ⟨p, hp, e⟩
    · omega
    · exact ⟨p.2, by have := conv p hp; rwa [show (findContentBounds s).maxRow.toNat = p.1 by omega]⟩
  · rcases a3 with e | ⟨p, hp, e⟩
    · omega
    · exact ⟨p.1, by have := conv p hp; rwa [show (findContentBounds s).minCol.toNat = p.2 by omega]⟩
  · rcases a4 with e | ⟨p, hp, e⟩
    · omega
    · exact ⟨p.1, by have := conv p hp; rwa [show (findContentBounds s).maxCol.toNat = p.2 by omega]⟩
  · rcases a1 with e | ⟨p, hp, e⟩ <;> omega
  · rcases a3 with e | ⟨p, hp, e⟩ <;> omega
  · omega
  · omega

/-- a non-empty box lies inside the grid -/
theorem bounds_in_grid (s : Sheet) (hrect : Rect (s.maxCol + 1) s.rows)
    (hne : (findContentBounds s).isEmpty = false) :
    0 ≤ (findContentBounds s).minRow ∧ (findContentBounds s).minRow ≤ (findContentBounds s).maxRow ∧
    (findContentBounds s).maxRow < s.rows.length ∧
    0 ≤ (findContentBounds s).minCol ∧ (findContentBounds s).minCol ≤ (findContentBounds s).maxCol ∧
    (findContentBounds s).maxCol < (s.maxCol : Int) + 1 := by
  have hex : ∃ r c, HasContent s.rows r c := by
    apply Classical.byContradiction
    intro hno
    have := (bounds_none s hno).2
    rw [hne] at this; cases this
  obtain ⟨_, ⟨c, hc⟩, _, ⟨r, hr⟩, p1, p2, p3, p4⟩ := bounds_attained s hrect hex
  have q1 := (hasContent_lt hrect hc).1
  have q2 := (hasContent_lt hrect hr).2
  simp only [Bounds.isEmpty, Bool.or_eq_false_iff, decide_eq_false_iff_not] at hne
  omega

end Tabula.Wb
