import TabulaModel.Model.OdtRender
import TabulaModel.Lemmas.DocRender
import TabulaModel.Lemmas.Odt
/-!
Lemmas about the ODT reader's views (`Model/OdtRender.lean`): the walk with style names
against the walk of `Model/Odt.lean`, and what each element contributes to the plain text,
to the Markdown buffer and to the page of `Document()`.
-/
namespace Tabula.Odt
open Tabula.Xml Tabula.Render

/-! ### the walk with style names is the walk of `Model/Odt.lean` with more columns -/

def eraseW (w : WalkX) : Walk := { inBody := w.inBody, done := w.done, acc := w.acc.map (·.elem) }

/-- the walk with style names, and the decoder's giving up inside it, are those of
`Model/Odt.lean` once the style names and column counts are forgotten -/
theorem walkNodeX_erase_both (defs : List StyleDef) (n : Node) :
    (∀ w : WalkX, eraseW (walkNodeX defs n w) = walkNode defs n (eraseW w)) ∧
    (∀ (ctx : Ctx) (w : WalkX), (scanNodeX defs ctx n w).map eraseW = scanNode defs ctx n (eraseW w)) := by
  induction n using Node.rec (motive_2 := fun l =>
      (∀ w : WalkX, eraseW (walkListX defs l w) = walkList defs l (eraseW w)) ∧
      (∀ (ctx : Ctx) (w : WalkX), (scanListX defs ctx l w).map eraseW = scanList defs ctx l (eraseW w))) with
  | elem tag attrs kids ih =>
    obtain ⟨ihw, ihs⟩ := ih
    constructor
    · intro w
      simp only [walkNodeX, walkNode]
      have hd : (eraseW w).done = w.done := rfl
      have hb : (eraseW w).inBody = w.inBody := rfl
      rw [hd, hb]
      split
      · rfl
      · split
        · have := ihw { w with inBody := true }
          simp only [eraseW] at this ⊢
          rw [← this]
        · split
          · exact ihw w
          · split
            · have h := ihs (.inline 0) w
              cases hx : scanListX defs (.inline 0) kids w with
              | none => rw [hx] at h; rw [← h]; simp [eraseW]
              | some w' => rw [hx] at h; rw [← h]; simp [eraseW]
            · split
              · have h := ihs (.inline 0) w
                cases hx : scanListX defs (.inline 0) kids w with
                | none => rw [hx] at h; rw [← h]; simp [eraseW]
                | some w' => rw [hx] at h; rw [← h]; simp [eraseW]
              · split
                · have h := ihs .list { w with listStyle := listStyleAfter attrs w.listStyle }
                  have he : eraseW { w with listStyle := listStyleAfter attrs w.listStyle } = eraseW w := rfl
                  rw [he] at h
                  cases hx : scanListX defs .list kids { w with listStyle := listStyleAfter attrs w.listStyle } with
                  | none => rw [hx] at h; rw [← h]; simp [eraseW, List.map_map, Function.comp_def]
                  | some w' => rw [hx] at h; rw [← h]; simp [eraseW]
                · split
                  · have h := ihs .table w
                    cases hx : scanListX defs .table kids w with
                    | none => rw [hx] at h; rw [← h]; simp [eraseW]
                    | some w' => rw [hx] at h; rw [← h]; simp [eraseW]
                  · exact ihw w
    · intro ctx w
      simp only [scanNodeX, scanNode]
      cases descend ctx (localName tag) with
      | skip => rfl
      | fail => simp only [Option.map_some]; rw [ihw w]
      | into c => exact ihs c w
  | text s => exact ⟨fun w => by simp [walkNodeX, walkNode], fun ctx w => by simp [scanNodeX, scanNode]⟩
  | nil => exact ⟨fun w => by simp [walkListX, walkList], fun ctx w => by simp [scanListX, scanList]⟩
  | cons n rest ihn ihr =>
    obtain ⟨ihnw, ihns⟩ := ihn
    obtain ⟨ihrw, ihrs⟩ := ihr
    constructor
    · intro w
      simp only [walkListX, walkList]
      rw [ihrw, ihnw]
    · intro ctx w
      simp only [scanListX, scanList]
      have h := ihns ctx w
      cases hx : scanNodeX defs ctx n w with
      | none => rw [hx] at h; rw [← h]; exact ihrs ctx w
      | some w' =>
        rw [hx] at h; rw [← h]
        cases ctx.isInline
        · simp
        · simp [ihrw]

theorem walkNodeX_erase (defs : List StyleDef) (n : Node) :
    ∀ w : WalkX, eraseW (walkNodeX defs n w) = walkNode defs n (eraseW w) :=
  (walkNodeX_erase_both defs n).1

theorem walkListX_erase (defs : List StyleDef) (l : List Node) :
    ∀ w : WalkX, eraseW (walkListX defs l w) = walkList defs l (eraseW w) := by
  induction l with
  | nil => intro w; rfl
  | cons n rest ih => intro w; simp only [walkListX, walkList]; rw [ih, walkNodeX_erase]

theorem scanListX_erase (defs : List StyleDef) (ctx : Ctx) (l : List Node) :
    ∀ w : WalkX, (scanListX defs ctx l w).map eraseW = scanList defs ctx l (eraseW w) := by
  induction l with
  | nil => intro w; rfl
  | cons n rest ih =>
    intro w
    simp only [scanListX, scanList]
    have h := (walkNodeX_erase_both defs n).2 ctx w
    cases hx : scanNodeX defs ctx n w with
    | none => rw [hx] at h; rw [← h]; exact ih w
    | some w' =>
      rw [hx] at h; rw [← h]
      cases ctx.isInline
      · simp
      · simp [walkListX_erase]

/-- a body element that is decoded to its end leaves the walk with style names alone, too -/
theorem scanX_none (defs : List StyleDef) (ctx : Ctx) (l : List Node) (w : WalkX)
    (h : (residualList ctx l).isNone = true) : scanListX defs ctx l w = none := by
  have h1 := scanListX_erase defs ctx l w
  rw [scan_none defs ctx l (eraseW w) h] at h1
  cases hx : scanListX defs ctx l w with
  | none => rfl
  | some w' => rw [hx] at h1; cases h1

/-! ### plain text -/

/-- the marker `writeParagraphText` puts between the indentation and the text of a list item -/
def textMarker (ls : List ListStyle) (style : Str) (level : Nat) (cs : Counters) : Str :=
  let r := if style ≠ [] then resolveListLevel ls style level else (true, bulletDot)
  if !r.1 then intToDec (ctrGet cs (style, level) + 1) ++ [46, 32] else r.2 ++ [32]

theorem writeParagraphText_plain (ls : List ListStyle) (p : Para) (style : Str) (cs : Counters) (h : p.list = none) :
    writeParagraphText ls p style cs = (p.text, cs) := by
  unfold writeParagraphText; rw [h]

theorem writeParagraphText_item (ls : List ListStyle) (p : Para) (style : Str) (cs : Counters) (level : Nat)
    (h : p.list = some level) :
    (writeParagraphText ls p style cs).1 = indent level ++ textMarker ls style level cs ++ p.text := by
  unfold writeParagraphText textMarker
  rw [h]
  simp only
  generalize (if style ≠ [] then resolveListLevel ls style level else (true, bulletDot)) = r
  split <;> simp [List.append_assoc]

theorem writeParagraphText_suffix (ls : List ListStyle) (p : Para) (style : Str) (cs : Counters) :
    ∃ pre, (writeParagraphText ls p style cs).1 = pre ++ p.text := by
  cases h : p.list with
  | none => exact ⟨[], by rw [writeParagraphText_plain ls p style cs h]; rfl⟩
  | some level => exact ⟨indent level ++ textMarker ls style level cs, by rw [writeParagraphText_item ls p style cs level h]⟩

/-- the texts an element shows in the plain text -/
def textTexts (rd : Reader) (opts : ExtractOptions) (e : Elem) : List Str :=
  match e with
  | .para p => if excluded opts rd.headerTexts rd.footerTexts p.text then [] else [p.text]
  | .table rows => tableTextCells (rrows rows)

theorem textPiece_inOrder (rd : Reader) (opts : ExtractOptions) (e : ElemX) (cs : Counters) :
    InOrder (textTexts rd opts e.elem) (textPiece rd opts e cs).1 := by
  obtain ⟨el, st, n⟩ := e
  cases el with
  | para p =>
    simp only [textTexts, textPiece]
    split
    · exact .nil _
    · obtain ⟨pre, hpre⟩ := writeParagraphText_suffix rd.listStyles p st cs
      rw [hpre]
      have := InOrder.single p.text pre []
      simpa using this
  | table rows =>
    simp only [textTexts, textPiece]
    exact tableToText_inOrder _

theorem textPieces_pieces (rd : Reader) (opts : ExtractOptions) : ∀ (els : List ElemX) (cs : Counters),
    Pieces (els.map fun e => textTexts rd opts e.elem) (textPieces rd opts els cs) := by
  intro els
  induction els with
  | nil => intro cs; exact .nil
  | cons e rest ih =>
    intro cs
    simp only [List.map_cons, textPieces]
    exact .cons (textPiece_inOrder rd opts e cs) (ih _)

theorem textPieces_length (rd : Reader) (opts : ExtractOptions) : ∀ (els : List ElemX) (cs : Counters),
    (textPieces rd opts els cs).length = els.length := by
  intro els
  induction els with
  | nil => intro cs; rfl
  | cons e rest ih => intro cs; simp [textPieces, ih]

/-! ### Markdown -/

theorem mdHeadingLevel_range (o : MdOptions) (l : Nat) : 1 ≤ mdHeadingLevel o l ∧ mdHeadingLevel o l ≤ 6 := by
  unfold mdHeadingLevel
  simp only
  split <;> split <;> split <;> split <;> omega

theorem mdHeadingLevel_default (l : Nat) : mdHeadingLevel {} l = min (max l 1) 6 := by
  unfold mdHeadingLevel
  simp only
  split <;> split <;> split <;> split <;> omega

/-- the marker `writeMarkdownListItem` writes: "- " or the item's number and ". " -/
def mdMarker (ls : List ListStyle) (style : Str) (level : Nat) (cs : Counters) : Str :=
  let isBullet := if style ≠ [] then (resolveListLevel ls style level).1 else true
  if !isBullet then intToDec (ctrGet cs (style, level) + 1) ++ [46, 32] else [45, 32]

theorem mdListItem_line (ls : List ListStyle) (text style : Str) (level : Nat) (cs : Counters) :
    (mdListItem ls text style level cs).1 = indent level ++ mdMarker ls style level cs ++ text ++ [10] := by
  unfold mdListItem mdMarker
  simp only
  generalize (if style ≠ [] then (resolveListLevel ls style level).1 else true) = b
  split <;> simp [List.append_assoc]

/-- the texts an element shows in Markdown -/
def mdTexts (rd : Reader) (opts : ExtractOptions) (e : Elem) : List Str :=
  match e with
  | .para p => if excluded opts rd.headerTexts rd.footerTexts p.text then [] else [p.text]
  | .table rows => if mdColCount (rrows rows) = 0 then [] else (rrows rows).flatMap fun row => (ownCells row).map mdCellText

theorem mdStep_chunk (rd : Reader) (opts : ExtractOptions) (o : MdOptions) (i : Nat) (e : ElemX) (s : MdState) :
    ∃ chunk, (mdStep rd opts o i e s).out = s.out ++ chunk ∧ InOrder (mdTexts rd opts e.elem) chunk := by
  obtain ⟨el, st, n⟩ := e
  cases el with
  | para p =>
    simp only [mdStep, mdTexts]
    by_cases hex : excluded opts rd.headerTexts rd.footerTexts p.text = true
    · simp only [hex, if_true]
      exact ⟨[], by simp, .nil _⟩
    · simp only [hex, Bool.false_eq_true, if_false]
      generalize hs' : (if (decide (i > 0) && s.out != [] && s.inList && !p.list.isSome) = true
        then { s with out := s.out ++ [10], inList := false } else s) = s'
      have hout : ∃ sep, s'.out = s.out ++ sep := by
        rw [← hs']
        split
        · exact ⟨[10], rfl⟩
        · exact ⟨[], by simp⟩
      obtain ⟨sep, hsep⟩ := hout
      cases hh : p.heading with
      | some l =>
        simp only []
        refine ⟨sep ++ (repeatStr [35] (mdHeadingLevel o l) ++ [32] ++ p.text ++ [10, 10]), ?_, ?_⟩
        · simp [hsep, List.append_assoc]
        · have := InOrder.single p.text (sep ++ (repeatStr [35] (mdHeadingLevel o l) ++ [32])) [10, 10]
          simpa [List.append_assoc] using this
      | none =>
        cases hl : p.list with
        | some level =>
          simp only []
          rw [mdListItem_line]
          refine ⟨sep ++ (indent level ++ mdMarker rd.listStyles st level s'.cs ++ p.text ++ [10]), ?_, ?_⟩
          · simp [hsep, List.append_assoc]
          · have := InOrder.single p.text (sep ++ (indent level ++ mdMarker rd.listStyles st level s'.cs)) [10]
            simpa [List.append_assoc] using this
        | none =>
          simp only []
          by_cases ht : p.text = []
          · simp only [ht, bne_self_eq_false, Bool.false_eq_true, if_false]
            refine ⟨sep, hsep, ?_⟩
            have := InOrder.single [] sep []
            simpa using this
          · have hne : (p.text != []) = true := by simpa using ht
            simp only [hne, if_true]
            refine ⟨sep ++ (p.text ++ [10, 10]), by simp [hsep, List.append_assoc], ?_⟩
            have := InOrder.single p.text sep [10, 10]
            simpa [List.append_assoc] using this
  | table rows =>
    simp only [mdStep, mdTexts]
    generalize hs' : (if s.inList = true then { s with out := s.out ++ [10], inList := false } else s) = s'
    have hout : ∃ sep, s'.out = s.out ++ sep := by
      rw [← hs']
      split
      · exact ⟨[10], rfl⟩
      · exact ⟨[], by simp⟩
    obtain ⟨sep, hsep⟩ := hout
    refine ⟨sep ++ (tableToMarkdown (rrows rows) ++ [10]), by simp [hsep, List.append_assoc], ?_⟩
    by_cases hcc : mdColCount (rrows rows) = 0
    · simp only [hcc, if_true]; exact .nil _
    · simp only [hcc, if_false]
      exact ((tableToMarkdown_inOrder _ hcc).append_right [10]).prepend sep

theorem mdLoop_chunk (rd : Reader) (opts : ExtractOptions) (o : MdOptions) : ∀ (els : List ElemX) (i : Nat) (s : MdState),
    ∃ chunk, (mdLoop rd opts o els i s).out = s.out ++ chunk ∧ InOrder (els.map fun e => mdTexts rd opts e.elem).flatten chunk := by
  intro els
  induction els with
  | nil => intro i s; exact ⟨[], by simp [mdLoop], .nil _⟩
  | cons e rest ih =>
    intro i s
    obtain ⟨c1, h1, o1⟩ := mdStep_chunk rd opts o i e s
    obtain ⟨c2, h2, o2⟩ := ih (i + 1) (mdStep rd opts o i e s)
    refine ⟨c1 ++ c2, ?_, ?_⟩
    · simp only [mdLoop]; rw [h2, h1, List.append_assoc]
    · simp only [List.map_cons, List.flatten_cons]
      exact o1.append o2

/-! ### Document() -/

inductive Entry where
  | para (text : Str)
  | heading (level : Nat) (text : Str)
  | item (level : Nat) (text : Str)
  | table (grid : List (List MCell))
deriving Repr, DecidableEq

def flattenElem : DocElem → List Entry
  | .para t => [.para t]
  | .heading l t => [.heading l t]
  | .list _ items => items.map fun it => .item it.level it.text
  | .table g => [.table g]

def flattenDoc (page : List DocElem) : List Entry := page.flatMap flattenElem

/-- what one element of the reader becomes in the document model -/
def entryOf (e : ElemX) : Option Entry :=
  match e.elem with
  | .para p =>
    if p.text = [] then none
    else match p.list with
      | some level => some (.item level p.text)
      | none => match p.heading with
        | some l => some (.heading l p.text)
        | none => some (.para p.text)
  | .table rows => if (toModelTable rows e.cols).length > 0 then some (.table (toModelTable rows e.cols)) else none

def flatState (s : DocState) : List Entry :=
  flattenDoc s.page ++ (match s.cur with
    | some l => l.2.map fun it => .item it.level it.text
    | none => [])

theorem flattenDoc_append (a b : List DocElem) : flattenDoc (a ++ b) = flattenDoc a ++ flattenDoc b := by
  simp [flattenDoc]

theorem flatState_finalize (s : DocState) : flatState (finalizeList s) = flatState s := by
  unfold finalizeList flatState
  cases hc : s.cur with
  | none => simp [hc]
  | some l =>
    obtain ⟨o, items⟩ := l
    by_cases hi : items = []
    · simp [hi, flattenDoc]
    · simp [hi, flattenDoc_append, flattenDoc, flattenElem]

theorem finalize_cur (s : DocState) : (finalizeList s).cur = none := by
  unfold finalizeList
  cases hc : s.cur with
  | none => simp [hc]
  | some l => obtain ⟨o, items⟩ := l; by_cases hi : items = [] <;> simp [hi]

theorem docStep_flat (ls : List ListStyle) (e : ElemX) (s : DocState) :
    flatState (docStep ls e s) = flatState s ++ (entryOf e).toList := by
  obtain ⟨el, st, n⟩ := e
  cases el with
  | para p =>
    simp only [docStep, entryOf]
    by_cases ht : p.text = []
    · simp [ht]
    · simp only [ht, if_false]
      cases hl : p.list with
      | some level =>
        simp only [Option.toList]
        rw [flatState, flatState]
        cases hc : s.cur with
        | none => simp
        | some l => simp [List.append_assoc]
      | none =>
        have hf := flatState_finalize s
        rw [flatState, finalize_cur] at hf
        simp only [List.append_nil] at hf
        cases hh : p.heading with
        | some lv =>
          simp only [Option.toList]
          rw [flatState]
          simp only [finalize_cur, List.append_nil, flattenDoc_append]
          rw [hf]; rfl
        | none =>
          simp only [Option.toList]
          rw [flatState]
          simp only [finalize_cur, List.append_nil, flattenDoc_append]
          rw [hf]; rfl
  | table rows =>
    simp only [docStep, entryOf]
    have hf := flatState_finalize s
    by_cases hg : (toModelTable rows n).length > 0
    · simp only [hg, if_true, Option.toList]
      rw [flatState]
      simp only [finalize_cur, List.append_nil, flattenDoc_append]
      rw [flatState, finalize_cur] at hf
      simp only [List.append_nil] at hf
      rw [hf]; rfl
    · simp only [hg, if_false, Option.toList, List.append_nil]
      exact hf

theorem docLoop_flat (ls : List ListStyle) : ∀ (els : List ElemX) (s : DocState),
    flatState (docLoop ls els s) = flatState s ++ els.filterMap entryOf := by
  intro els
  induction els with
  | nil => intro s; simp [docLoop]
  | cons e rest ih =>
    intro s
    simp only [docLoop]
    rw [ih, docStep_flat, List.filterMap_cons]
    cases entryOf e <;> simp

end Tabula.Odt
