import TabulaModel.Model.OdtRender
import TabulaModel.Lemmas.DocRender
import TabulaModel.Lemmas.Odt
/-!
Lemmas about the ODT reader's views (`Model/OdtRender.lean`): the walk with style names
against the walk of `Model/Odt.lean`, and what each element contributes to the plain text,
to the Markdown buffer and to the page of `Document()`.
-/
namespace Tabula.Odt
open Tabula.Xml Tabula.Render

/-! ### the walk with style names is the walk of `Model/Odt.lean` with more columns -/

def eraseW (w : WalkX) : Walk := { inBody := w.inBody, failed := w.failed, acc := w.acc.map (·.elem) }

/-- the walk with style names is that of `Model/Odt.lean` once the style names and column
counts are forgotten - the elements it records and whether it ends with the depth error -/
theorem walkNodeX_erase (defs : List StyleDef) (n : Node) :
    ∀ w : WalkX, eraseW (walkNodeX defs n w) = walkNode defs n (eraseW w) := by
  induction n using Node.rec (motive_2 := fun l =>
      ∀ w : WalkX, eraseW (walkListX defs l w) = walkList defs l (eraseW w)) with
  | elem tag attrs kids ih =>
    intro w
    simp only [walkNodeX, walkNode]
    have hd : (eraseW w).failed = w.failed := rfl
    have hb : (eraseW w).inBody = w.inBody := rfl
    rw [hd, hb]
    split
    · rfl
    · split
      · have := ih { w with inBody := true }
        simp only [eraseW] at this ⊢
        rw [← this]
      · split
        · exact ih w
        · split
          · split <;> simp [eraseW]
          · split
            · split <;> simp [eraseW]
            · split
              · split <;> simp [eraseW, List.map_map, Function.comp_def]
              · split
                · split <;> simp [eraseW]
                · exact ih w
  | text s => intro w; simp [walkNodeX, walkNode]
  | nil => simp [walkListX, walkList]
  | cons n rest ihn ihr =>
    simp only [walkListX, walkList]
    rw [ihr, ihn]

theorem walkListX_erase (defs : List StyleDef) (l : List Node) :
    ∀ w : WalkX, eraseW (walkListX defs l w) = walkList defs l (eraseW w) := by
  induction l with
  | nil => intro w; rfl
  | cons n rest ih => intro w; simp only [walkListX, walkList]; rw [ih, walkNodeX_erase]

/-- the two walks over content.xml -/
theorem bodyWalkX_erase (content : Node) (styles : Option Node) :
    eraseW (bodyWalkX content styles) = bodyWalk content styles := by
  unfold bodyWalkX bodyWalk
  rw [walkNodeX_erase]
  rfl

/-! ### plain text -/

/-- the marker `writeParagraphText` puts between the indentation and the text of a list item -/
def textMarker (ls : List ListStyle) (style : Str) (level : Nat) (cs : Counters) : Str :=
  let r := if style ≠ [] then resolveListLevel ls style level else (true, bulletDot)
  if !r.1 then intToDec (ctrGet cs (style, level) + 1) ++ [46, 32] else r.2 ++ [32]

theorem writeParagraphText_plain (ls : List ListStyle) (p : Para) (style : Str) (cs : Counters) (h : p.list = none) :
    writeParagraphText ls p style cs = (p.text, cs) := by
  unfold writeParagraphText; rw [h]

theorem writeParagraphText_item (ls : List ListStyle) (p : Para) (style : Str) (cs : Counters) (level : Nat)
    (h : p.list = some level) :
    (writeParagraphText ls p style cs).1 = indent level ++ textMarker ls style level cs ++ p.text := by
  unfold writeParagraphText textMarker
  rw [h]
  simp only
  generalize (if style ≠ [] then resolveListLevel ls style level else (true, bulletDot)) = r
  split <;> simp [List.append_assoc]

theorem writeParagraphText_suffix (ls : List ListStyle) (p : Para) (style : Str) (cs : Counters) :
    ∃ pre, (writeParagraphText ls p style cs).1 = pre ++ p.text := by
  cases h : p.list with
  | none => exact ⟨[], by rw [writeParagraphText_plain ls p style cs h]; rfl⟩
  | some level => exact ⟨indent level ++ textMarker ls style level cs, by rw [writeParagraphText_item ls p style cs level h]⟩

/-- the texts an element shows in the plain text -/
def textTexts (rd : Reader) (opts : ExtractOptions) (e : Elem) : List Str :=
  match e with
  | .para p => if excluded opts rd.headerTexts rd.footerTexts p.text then [] else [p.text]
  | .table rows => tableTextCells (rrows rows)

theorem textPiece_inOrder (rd : Reader) (opts : ExtractOptions) (e : ElemX) (cs : Counters) :
    InOrder (textTexts rd opts e.elem) (textPiece rd opts e cs).1 := by
  obtain ⟨el, st, n⟩ := e
  cases el with
  | para p =>
    simp only [textTexts, textPiece]
    split
    · exact .nil _
    · obtain ⟨pre, hpre⟩ := writeParagraphText_suffix rd.listStyles p st cs
      rw [hpre]
      have := InOrder.single p.text pre []
      simpa using this
  | table rows =>
    simp only [textTexts, textPiece]
    exact tableToText_inOrder _

theorem textPieces_pieces (rd : Reader) (opts : ExtractOptions) : ∀ (els : List ElemX) (cs : Counters),
    Pieces (els.map fun e => textTexts rd opts e.elem) (textPieces rd opts els cs) := by
  intro els
  induction els with
  | nil => intro cs; exact .nil
  | cons e rest ih =>
    intro cs
    simp only [List.map_cons, textPieces]
    exact .cons (textPiece_inOrder rd opts e cs) (ih _)

theorem textPieces_length (rd : Reader) (opts : ExtractOptions) : ∀ (els : List ElemX) (cs : Counters),
    (textPieces rd opts els cs).length = els.length := by
  intro els
  induction els with
  | nil => intro cs; rfl
  | cons e rest ih => intro cs; simp [textPieces, ih]

/-! ### Markdown -/

theorem mdHeadingLevel_range (o : MdOptions) (l : Nat) : 1 ≤ mdHeadingLevel o l ∧ mdHeadingLevel o l ≤ 6 := by
  unfold mdHeadingLevel
  simp only
  split <;> split <;> split <;> split <;> omega

theorem mdHeadingLevel_default (l : Nat) : mdHeadingLevel {} l = min (max l 1) 6 := by
  unfold mdHeadingLevel
  simp only
  split <;> split <;> split <;> split <;> omega

/-- the marker `writeMarkdownListItem` writes: "- " or the item's number and ". " -/
def mdMarker (ls : List ListStyle) (style : Str) (level : Nat) (cs : Counters) : Str :=
  let isBullet := if style ≠ [] then (resolveListLevel ls style level).1 else true
  if !isBullet then intToDec (ctrGet cs (style, level) + 1) ++ [46, 32] else [45, 32]

theorem mdListItem_line (ls : List ListStyle) (text style : Str) (level : Nat) (cs : Counters) :
    (mdListItem ls text style level cs).1 = indent level ++ mdMarker ls style level cs ++ text ++ [10] := by
  unfold mdListItem mdMarker
  simp only
  generalize (if style ≠ [] then (resolveListLevel ls style level).1 else true) = b
  split <;> simp [List.append_assoc]

/-- the texts an element shows in Markdown -/
def mdTexts (rd : Reader) (opts : ExtractOptions) (e : Elem) : List Str :=
  match e with
  | .para p => if excluded opts rd.headerTexts rd.footerTexts p.text then [] else [p.text]
  | .table rows => if mdColCount (rrows rows) = 0 then [] else (rrows rows).flatMap fun row => (ownCells row).map mdCellText

theorem mdStep_chunk (rd : Reader) (opts : ExtractOptions) (o : MdOptions) (i : Nat) (e : ElemX) (s : MdState) :
    ∃ chunk, (mdStep rd opts o i e s).out = s.out ++ chunk ∧ InOrder (mdTexts rd opts e.elem) chunk := by
  obtain ⟨el, st, n⟩ := e
  cases el with
  | para p =>
    simp only [mdStep, mdTexts]
    by_cases hex : excluded opts rd.headerTexts rd.footerTexts p.text = true
    · simp only [hex, if_true]
      exact ⟨[], by simp, .nil _⟩
    · simp only [hex, Bool.false_eq_true, if_false]
      generalize hs' : (if (decide (i > 0) && s.out != [] && s.inList && !p.list.isSome) = true
        then { s with out := s.out ++ [10], inList := false } else s) = s'
      have hout : ∃ sep, s'.out = s.out ++ sep := by
        rw [← hs']
        split
        · exact ⟨[10], rfl⟩
        · exact ⟨[], by simp⟩
      obtain ⟨sep, hsep⟩ := hout
      cases hh : p.heading with
      | some l =>
        simp only []
        refine ⟨sep ++ (repeatStr [35] (mdHeadingLevel o l) ++ [32] ++ p.text ++ [10, 10]), ?_, ?_⟩
        · simp [hsep, List.append_assoc]
        · have := InOrder.single p.text (sep ++ (repeatStr [35] (mdHeadingLevel o l) ++ [32])) [10, 10]
          simpa [List.append_assoc] using this
      | none =>
        cases hl : p.list with
        | some level =>
          simp only []
          rw [mdListItem_line]
          refine ⟨sep ++ (indent level ++ mdMarker rd.listStyles st level s'.cs ++ p.text ++ [10]), ?_, ?_⟩
          · simp [hsep, List.append_assoc]
          · have := InOrder.single p.text (sep ++ (indent level ++ mdMarker rd.listStyles st level s'.cs)) [10]
            simpa [List.append_assoc] using this
        | none =>
          simp only []
          by_cases ht : p.text = []
          · simp only [ht, bne_self_eq_false, Bool.false_eq_true, if_false]
            refine ⟨sep, hsep, ?_⟩
            have := InOrder.single [] sep []
            simpa using this
          · have hne : (p.text != []) = true := by simpa using ht
            simp only [hne, if_true]
            refine ⟨sep ++ (p.text ++ [10, 10]), by simp [hsep, List.append_assoc], ?_⟩
            have := InOrder.single p.text sep [10, 10]
            simpa [List.append_assoc] using this
  | table rows =>
    simp only [mdStep, mdTexts]
    generalize hs' : (if s.inList = true then { s with out := s.out ++ [10], inList := false } else s) = s'
    have hout : ∃ sep, s'.out = s.out ++ sep := by
      rw [← hs']
      split
      · exact ⟨[10], rfl⟩
      · exact ⟨[], by simp⟩
    obtain ⟨sep, hsep⟩ := hout
    refine ⟨sep ++ (tableToMarkdown (rrows rows) ++ [10]), by simp [hsep, List.append_assoc], ?_⟩
    by_cases hcc : mdColCount (rrows rows) = 0
    · simp only [hcc, if_true]; exact .nil _
    · simp only [hcc, if_false]
      exact ((tableToMarkdown_inOrder _ hcc).append_right [10]).prepend sep

theorem mdLoop_chunk (rd : Reader) (opts : ExtractOptions) (o : MdOptions) : ∀ (els : List ElemX) (i : Nat) (s : MdState),
    ∃ chunk, (mdLoop rd opts o els i s).out = s.out ++ chunk ∧ InOrder (els.map fun e => mdTexts rd opts e.elem).flatten chunk := by
  intro els
  induction els with
  | nil => intro i s; exact ⟨[], by simp [mdLoop], .nil _⟩
  | cons e rest ih =>
    intro i s
    obtain ⟨c1, h1, o1⟩ := mdStep_chunk rd opts o i e s
    obtain ⟨c2, h2, o2⟩ := ih (i + 1) (mdStep rd opts o i e s)
    refine ⟨c1 ++ c2, ?_, ?_⟩
    · simp only [mdLoop]; rw [h2, h1, List.append_assoc]
    · simp only [List.map_cons, List.flatten_cons]
      exact o1.append o2

/-! ### Document() -/

inductive Entry where
  | para (text : Str)
  | heading (level : Nat) (text : Str)
  | item (level : Nat) (text : Str)
  | table (grid : List (List MCell))
deriving Repr, DecidableEq

def flattenElem : DocElem → List Entry
  | .para t => [.para t]
  | .heading l t => [.heading l t]
  | .list _ items => items.map fun it => .item it.level it.text
  | .table g => [.table g]

def flattenDoc (page : List DocElem) : List Entry := page.flatMap flattenElem

/-- what one element of the reader becomes in the document model -/
def entryOf (e : ElemX) : Option Entry :=
  match e.elem with
  | .para p =>
    if p.text = [] then none
    else match p.list with
      | some level => some (.item level p.text)
      | none => match p.heading with
        | some l => some (.heading l p.text)
        | none => some (.para p.text)
  | .table rows => if (toModelTable rows e.cols).length > 0 then some (.table (toModelTable rows e.cols)) else none

def flatState (s : DocState) : List Entry :=
  flattenDoc s.page ++ (match s.cur with
    | some l => l.2.map fun it => .item it.level it.text
    | none => [])

theorem flattenDoc_append (a b : List DocElem) : flattenDoc (a ++ b) = flattenDoc a ++ flattenDoc b := by
  simp [flattenDoc]

theorem flatState_finalize (s : DocState) : flatState (finalizeList s) = flatState s := by
  unfold finalizeList flatState
  cases hc : s.cur with
  | none => simp [hc]
  | some l =>
    obtain ⟨o, items⟩ := l
    by_cases hi : items = []
    · simp [hi, flattenDoc]
    · simp [hi, flattenDoc_append, flattenDoc, flattenElem]

theorem finalize_cur (s : DocState) : (finalizeList s).cur = none := by
  unfold finalizeList
  cases hc : s.cur with
  | none => simp [hc]
  | some l => obtain ⟨o, items⟩ := l; by_cases hi : items = [] <;> simp [hi]

theorem docStep_flat (ls : List ListStyle) (e : ElemX) (s : DocState) :
    flatState (docStep ls e s) = flatState s ++ (entryOf e).toList := by
  obtain ⟨el, st, n⟩ := e
  cases el with
  | para p =>
    simp only [docStep, entryOf]
    by_cases ht : p.text = []
    · simp [ht]
    · simp only [ht, if_false]
      cases hl : p.list with
      | some level =>
        simp only [Option.toList]
        rw [flatState, flatState]
        cases hc : s.cur with
        | none => simp
        | some l => simp [List.append_assoc]
      | none =>
        have hf := flatState_finalize s
        rw [flatState, finalize_cur] at hf
        simp only [List.append_nil] at hf
        cases hh : p.heading with
        | some lv =>
          simp only [Option.toList]
          rw [flatState]
          simp only [finalize_cur, List.append_nil, flattenDoc_append]
          rw [hf]; rfl
        | none =>
          simp only [Option.toList]
          rw [flatState]
          simp only [finalize_cur, List.append_nil, flattenDoc_append]
          rw [hf]; rfl
  | table rows =>
    simp only [docStep, entryOf]
    have hf := flatState_finalize s
    by_cases hg : (toModelTable rows n).length > 0
    · simp only [hg, if_true, Option.toList]
      rw [flatState]
      simp only [finalize_cur, List.append_nil, flattenDoc_append]
      rw [flatState, finalize_cur] at hf
      simp only [List.append_nil] at hf
      rw [hf]; rfl
    · simp only [hg, if_false, Option.toList, List.append_nil]
      exact hf

theorem docLoop_flat (ls : List ListStyle) : ∀ (els : List ElemX) (s : DocState),
    flatState (docLoop ls els s) = flatState s ++ els.filterMap entryOf := by
  intro els
  induction els with
  | nil => intro s; simp [docLoop]
  | cons e rest ih =>
    intro s
    simp only [docLoop]
    rw [ih, docStep_flat, List.filterMap_cons]
    cases entryOf e <;> simp

/-! ### the width of the document-model grid: `processRowSpans` in grid columns -/

/-- the grid columns the cells of one parsed row take in `ToModelTable` -/
def rowGridWidth (cs : List Cell) : Nat := (cs.map gridWidth).sum

theorem rowGridWidth_append (a b : List Cell) : rowGridWidth (a ++ b) = rowGridWidth a + rowGridWidth b := by
  simp [rowGridWidth]

theorem foldl_gridWidth : ∀ (l : List Cell) (a : Nat), l.foldl (fun s c => s + gridWidth c) a = a + rowGridWidth l := by
  intro l
  induction l with
  | nil => intro a; simp [rowGridWidth]
  | cons c cs ih =>
    intro a
    simp only [List.foldl_cons]
    rw [ih]
    simp only [rowGridWidth, List.map_cons, List.sum_cons]
    omega

theorem foldl_max_le (f : List Cell → Nat) (b : Nat) : ∀ (rows : List (List Cell)) (a : Nat),
    a ≤ b → (∀ row ∈ rows, f row ≤ b) → rows.foldl (fun m row => max m (f row)) a ≤ b := by
  intro rows
  induction rows with
  | nil => intro a h _; simpa using h
  | cons r rs ih =>
    intro a ha h
    simp only [List.foldl_cons]
    apply ih
    · have := h r List.mem_cons_self; omega
    · intro row hrow; exact h row (List.mem_cons_of_mem _ hrow)

/-- the widest row is no wider than a bound every row keeps -/
theorem modelColCount_le (rows : List (List Cell)) (b : Nat) (h : ∀ row ∈ rows, rowGridWidth row ≤ b) :
    modelColCount rows ≤ b := by
  unfold modelColCount
  apply foldl_max_le _ b rows 0 (Nat.zero_le _)
  intro row hrow
  rw [foldl_gridWidth]
  have := h row hrow
  omega

theorem foldl_max_unit (rows : List (List Cell)) (h : ∀ row ∈ rows, ∀ c ∈ row, gridWidth c = 1) :
    ∀ a, rows.foldl (fun m row => max m (row.foldl (fun s c => s + gridWidth c) 0)) a = rows.foldl (fun m row => max m row.length) a := by
  induction rows with
  | nil => intro a; rfl
  | cons r rs ih =>
    intro a
    simp only [List.foldl_cons]
    have hr : r.foldl (fun s c => s + gridWidth c) 0 = r.length := by
      rw [foldl_gridWidth]
      have : ∀ l : List Cell, (∀ c ∈ l, gridWidth c = 1) → rowGridWidth l = l.length := by
        intro l
        induction l with
        | nil => intro _; rfl
        | cons c cs ihc =>
          intro hl
          have h1 := hl c List.mem_cons_self
          have h2 := ihc (fun x hx => hl x (List.mem_cons_of_mem _ hx))
          simp only [rowGridWidth, List.map_cons, List.sum_cons, List.length_cons] at h2 ⊢
          omega
      rw [this r (h r List.mem_cons_self)]
      omega
    rw [hr]
    exact ih (fun row hrow => h row (List.mem_cons_of_mem _ hrow)) _

/-- a table in which every cell takes one grid column is as wide as its longest row -/
theorem modelColCount_unit (rows : List (List Cell)) (h : ∀ row ∈ rows, ∀ c ∈ row, gridWidth c = 1) :
    modelColCount rows = widest rows := by
  unfold modelColCount widest
  exact foldl_max_unit rows h 0

/-- the placeholder loop adds one grid column per placeholder and never passes the width -/
theorem skipCovered_width (cc : Nat) : ∀ (fuel col : Nat) (rem : List Nat) (out : List Cell),
    rowGridWidth (skipCovered fuel cc col rem out).2.2 + col = rowGridWidth out + (skipCovered fuel cc col rem out).1
    ∧ (skipCovered fuel cc col rem out).1 ≤ max col cc := by
  intro fuel
  induction fuel with
  | zero => intro col rem out; simp [skipCovered]; omega
  | succ n ih =>
    intro col rem out
    simp only [skipCovered]
    split
    · rename_i h
      obtain ⟨h1, h2⟩ := ih (col + 1) (rem.set col (rem.getD col 0 - 1)) (out ++ [coveredCell])
      rw [rowGridWidth_append] at h1
      have hw : rowGridWidth [coveredCell] = 1 := by decide
      refine ⟨by omega, by omega⟩
    · simp; omega

/-- the cell loop of one row: the grid columns of the cells put out are the column index reached,
and that index stays below `cc + S` when no cell spans more than `S` columns (a cell is only
placed when it STARTS inside the width `cc`) -/
theorem spanRow_width (cc S : Nat) : ∀ (cells : List Cell) (col : Nat) (rem : List Nat) (out : List Cell),
    (∀ c ∈ cells, c.covered = false ∧ c.colSpan ≤ S) →
    rowGridWidth (spanRow cc cells col rem out).2.2 + col = rowGridWidth out + (spanRow cc cells col rem out).1
    ∧ (spanRow cc cells col rem out).1 ≤ max col (cc + S) := by
  intro cells
  induction cells with
  | nil => intro col rem out _; simp [spanRow]; omega
  | cons c rest ih =>
    intro col rem out hc
    simp only [spanRow]
    obtain ⟨hs1, hs2⟩ := skipCovered_width cc cc col rem out
    generalize skipCovered cc cc col rem out = r at hs1 hs2
    obtain ⟨col1, rem1, out1⟩ := r
    simp only at hs1 hs2 ⊢
    split
    · simp only; exact ⟨hs1, by omega⟩
    · rename_i hlt
      have hcc := hc c List.mem_cons_self
      obtain ⟨h1, h2⟩ := ih (col1 + c.colSpan) (if c.rowSpan > 1 then markSpan c.colSpan cc col1 (c.rowSpan - 1) rem1 else rem1)
        (out1 ++ [c]) (fun x hx => hc x (List.mem_cons_of_mem _ hx))
      rw [rowGridWidth_append] at h1
      have hw : rowGridWidth [c] = c.colSpan := by simp [rowGridWidth, gridWidth, hcc.1]
      refine ⟨by omega, by omega⟩

/-- every row `processRowSpans` puts out takes at most `cc + S` grid columns -/
theorem spanRows_width (cc S : Nat) : ∀ (rows : List (List Cell)) (rem : List Nat),
    (∀ row ∈ rows, ∀ c ∈ row, c.covered = false ∧ c.colSpan ≤ S) →
    ∀ row ∈ spanRows cc rows rem, rowGridWidth row ≤ cc + S := by
  intro rows
  induction rows with
  | nil => intro rem _ row hrow; simp [spanRows] at hrow
  | cons r rs ih =>
    intro rem h row hrow
    simp only [spanRows] at hrow
    obtain ⟨h1, h2⟩ := spanRow_width cc S r 0 rem [] (h r List.mem_cons_self)
    generalize spanRow cc r 0 rem [] = x at h1 h2 hrow
    obtain ⟨col1, rem1, out1⟩ := x
    simp only at h1 h2 hrow
    obtain ⟨h3, h4⟩ := skipCovered_width cc cc col1 rem1 out1
    generalize skipCovered cc cc col1 rem1 out1 = y at h3 h4 hrow
    obtain ⟨col2, rem2, out2⟩ := y
    simp only at h3 h4 hrow
    cases hrow with
    | head =>
      have : rowGridWidth ([] : List Cell) = 0 := rfl
      omega
    | tail _ hm => exact ih rem2 (fun r' hr' => h r' (List.mem_cons_of_mem _ hr')) row hm

theorem colSpan_le_rowSum : ∀ (r : List Cell) (c : Cell), c ∈ r → c.colSpan ≤ (r.map (·.colSpan)).sum := by
  intro r
  induction r with
  | nil => intro c hc; cases hc
  | cons x xs ih =>
    intro c hc
    simp only [List.map_cons, List.sum_cons]
    cases hc with
    | head => omega
    | tail _ hm => have := ih c hm; omega

/-- **processRowSpans_width**. After `processRowSpans` no row takes more than twice the width
`colCount` of the table in grid columns (placeholders pushed in front of a row can move its last
cell across the right edge; a cell is never wider than the table). -/
theorem processRowSpans_width (rows : List (List Cell)) (h : ∀ row ∈ rows, ∀ c ∈ row, c.covered = false) :
    modelColCount (processRowSpans rows) ≤ 2 * colCount rows := by
  apply modelColCount_le
  intro row hrow
  unfold processRowSpans at hrow
  have := spanRows_width (colCount rows) (colCount rows) rows _ (fun r hr c hc => ⟨h r hr c hc, by
    have h1 := rowWidth_le_colCount rows r hr
    have h2 := colSpan_le_rowSum r c hc
    omega⟩) row hrow
  omega

end Tabula.Odt
