import TabulaModel.Lemmas.CMapProgram
import TabulaModel.Lemmas.CMapSection
/-! # whole-program ToUnicode CMap round trip: definitions and proofs (restated in `Props/C07CMap.lean`)

Every ToUnicode CMap the independent writer (`Model/CMapRender.lean`) produces — bfchar,
bfrange with offset or array targets, code spaces of 1 to 4 bytes, multi-character and
supplementary-plane targets, with or without line breaks — decodes to the specified text.

Three layers:

1. `parse_program_state`: the state tabula's parser model reaches on a whole rendered program
   (`renderProgram p w secs`) — the direct map, the ranges and the width fields.
2. `emit_specified` / `cmap_roundtrip_program`: for any list of well-formed sections whose
   direct entries and offset entries are functions, looking up a string of specified codes
   yields the specified texts (a direct definition takes precedence over a range).
3. `cmap_roundtrip`: the five forms of the writer (`renderMap`), for every policy, width and
   code→text map.
-/
namespace Tabula.CMapCompose
open Tabula.UTF16 Tabula.CMap

/-! ## 1. the state of the parsed program -/

def allItems (secs : List Section) : List Item := secs.flatMap (·.items)

/-- direct entries in storage order: bfchar sections first (tabula runs the bfchar pass over the
whole program before the bfrange pass), then the arrays of the bfrange sections -/
def directEntries (secs : List Section) : List (Nat × List Nat) :=
  (allItems (secs.filter fun s => s.kind = .bfchar)).flatMap Item.chars ++
    (allItems (secs.filter fun s => s.kind = .bfrange)).flatMap Item.chars

/-- the offset ranges of the program, in program order -/
def offsetRuns (secs : List Section) : List Run :=
  (allItems secs).filterMap fun it => match it with | .offset r => some r | _ => none

def offsetEntries (secs : List Section) : List (Nat × List Nat) := (offsetRuns secs).flatMap Run.entries

/-- the run of an offset item -/
def offsetOf : Item → Option Run
  | .offset r => some r
  | _ => none

theorem offsetRuns_eq (secs : List Section) : offsetRuns secs = (allItems secs).filterMap offsetOf := by
  unfold offsetRuns
  congr 1

theorem offsetOf_char (c : Nat) (t : List Nat) : offsetOf (.char c t) = none := rfl
theorem offsetOf_offset (r : Run) : offsetOf (.offset r) = some r := rfl
theorem offsetOf_array (r : Run) : offsetOf (.array r) = none := rfl

theorem allItems_cons (s : Section) (ss : List Section) : allItems (s :: ss) = s.items ++ allItems ss := by
  simp [allItems]

theorem allItems_append (a b : List Section) : allItems (a ++ b) = allItems a ++ allItems b := by
  simp [allItems]

theorem mem_allItems (secs : List Section) (it : Item) : it ∈ allItems secs ↔ ∃ s ∈ secs, it ∈ s.items := by
  simp [allItems, List.mem_flatMap]

/-- the bfchar pass over the bfchar sections of the program -/
theorem foldl_bfchar_state (p : Policy) (w : Nat) (hw1 : 1 ≤ w) (hw4 : w ≤ 4) (ss : List Section)
    (hk : ∀ s ∈ ss, s.kind = .bfchar) (hs : ∀ s ∈ ss, SectionOK w s) (cm : CMap) (hinv : WidthInv w cm) :
    ((ss.map fun s => p.eol ++ sectionBody p w s).foldl (fun cm b => parseBfCharSection b cm) cm).chars =
        ((allItems ss).flatMap Item.chars).reverse ++ cm.chars ∧
    ((ss.map fun s => p.eol ++ sectionBody p w s).foldl (fun cm b => parseBfCharSection b cm) cm).ranges =
        cm.ranges ∧
    WidthInv w ((ss.map fun s => p.eol ++ sectionBody p w s).foldl (fun cm b => parseBfCharSection b cm) cm) := by
  induction ss generalizing cm with
  | nil => exact ⟨by simp [allItems], rfl, hinv⟩
  | cons s ss ih =>
    obtain ⟨h1, h2, h3⟩ := bfchar_section_state p w hw1 hw4 s (hk s (by simp)) (hs s (by simp)) cm hinv
    obtain ⟨i1, i2, i3⟩ := ih (fun x hx => hk x (by simp [hx])) (fun x hx => hs x (by simp [hx])) _ h3
    simp only [List.map_cons, List.foldl_cons]
    refine ⟨?_, ?_, i3⟩
    · rw [i1, h1, allItems_cons, List.flatMap_append, List.reverse_append, List.append_assoc]
    · rw [i2, h2]

/-- the bfrange pass over the bfrange sections of the program -/
theorem foldl_bfrange_state (p : Policy) (w : Nat) (hw1 : 1 ≤ w) (hw4 : w ≤ 4) (ss : List Section)
    (hk : ∀ s ∈ ss, s.kind = .bfrange) (hs : ∀ s ∈ ss, SectionOK w s) (cm : CMap) (hinv : WidthInv w cm) :
    ((ss.map fun s => p.eol ++ sectionBody p w s).foldl (fun cm b => parseBfRangeSection b cm) cm).chars =
        ((allItems ss).flatMap Item.chars).reverse ++ cm.chars ∧
    ((ss.map fun s => p.eol ++ sectionBody p w s).foldl (fun cm b => parseBfRangeSection b cm) cm).ranges =
        cm.ranges ++ (allItems ss).flatMap Item.ranges ∧
    WidthInv w ((ss.map fun s => p.eol ++ sectionBody p w s).foldl (fun cm b => parseBfRangeSection b cm) cm) := by
  induction ss generalizing cm with
  | nil => exact ⟨by simp [allItems], by simp [allItems], hinv⟩
  | cons s ss ih =>
    obtain ⟨h1, h2, h3⟩ := bfrange_section_state p w hw1 hw4 s (hk s (by simp)) (hs s (by simp)) cm hinv
    obtain ⟨i1, i2, i3⟩ := ih (fun x hx => hk x (by simp [hx])) (fun x hx => hs x (by simp [hx])) _ h3
    simp only [List.map_cons, List.foldl_cons]
    refine ⟨?_, ?_, i3⟩
    · rw [i1, h1, allItems_cons, List.flatMap_append, List.reverse_append, List.append_assoc]
    · rw [i2, h2, allItems_cons, List.flatMap_append, List.append_assoc]

/-- the ranges of a list of items are the ranges of its offset runs -/
theorem items_ranges (items : List Item) : items.flatMap Item.ranges = (items.filterMap offsetOf).map Run.range := by
  induction items with
  | nil => rfl
  | cons it items ih =>
    rw [List.flatMap_cons, ih]
    cases it <;> simp [Item.ranges, List.filterMap_cons, offsetOf_char, offsetOf_offset, offsetOf_array]

/-- a bfchar section has no offset item -/
theorem bfchar_no_offset (items : List Item) (h : ∀ it ∈ items, it.fits .bfchar) :
    items.filterMap offsetOf = [] := by
  induction items with
  | nil => rfl
  | cons it items ih =>
    have hit := h it (by simp)
    cases it with
    | char c t => rw [List.filterMap_cons, offsetOf_char]; exact ih (fun x hx => h x (by simp [hx]))
    | offset r => exact False.elim hit
    | array r => exact False.elim hit

/-- the offset runs of the program all stand in its bfrange sections -/
theorem offsetRuns_bfrange (w : Nat) (secs : List Section) (hs : ∀ s ∈ secs, SectionOK w s) :
    (allItems (secs.filter fun s => s.kind = .bfrange)).filterMap offsetOf = (allItems secs).filterMap offsetOf := by
  induction secs with
  | nil => rfl
  | cons s secs ih =>
    have ih' := ih (fun x hx => hs x (by simp [hx]))
    rw [List.filter_cons]
    cases hk : s.kind with
    | bfchar =>
      have h0 : s.items.filterMap offsetOf = [] := by
        apply bfchar_no_offset
        intro it hit
        have := (hs s (by simp) it hit).2
        rw [hk] at this
        exact this
      simp only [reduceCtorEq, decide_false, Bool.false_eq_true, if_false]
      rw [ih', allItems_cons, List.filterMap_append, h0, List.nil_append]
    | bfrange =>
      simp only [decide_true, if_true]
      rw [allItems_cons, allItems_cons, List.filterMap_append, List.filterMap_append, ih']

theorem parse_program_state' (p : Policy) (w : Nat) (hw1 : 1 ≤ w) (hw4 : w ≤ 4) (secs : List Section)
    (hs : ∀ s ∈ secs, SectionOK w s) :
    (parseCMapData (renderProgram p w secs)).chars = (directEntries secs).reverse ∧
    (parseCMapData (renderProgram p w secs)).ranges = (offsetRuns secs).map Run.range ∧
    WidthInv w (parseCMapData (renderProgram p w secs)) := by
  rw [parse_renderProgram p w secs (fun s h => bodyOK_sectionBody p w s (hs s h))]
  unfold sectionTexts
  have hkc : ∀ s ∈ secs.filter (fun s => s.kind = .bfchar), s.kind = .bfchar := by
    intro s h; simpa using (List.mem_filter.mp h).2
  have hkr : ∀ s ∈ secs.filter (fun s => s.kind = .bfrange), s.kind = .bfrange := by
    intro s h; simpa using (List.mem_filter.mp h).2
  have hsc : ∀ s ∈ secs.filter (fun s => s.kind = .bfchar), SectionOK w s :=
    fun s h => hs s (List.mem_filter.mp h).1
  have hsr : ∀ s ∈ secs.filter (fun s => s.kind = .bfrange), SectionOK w s :=
    fun s h => hs s (List.mem_filter.mp h).1
  obtain ⟨c1, c2, c3⟩ := foldl_bfchar_state p w hw1 hw4 _ hkc hsc { byteWidth := w } ⟨rfl, Or.inl rfl⟩
  obtain ⟨r1, r2, r3⟩ := foldl_bfrange_state p w hw1 hw4 _ hkr hsr _ c3
  refine ⟨?_, ?_, r3⟩
  · rw [r1, c1]
    simp [directEntries]
  · rw [r2, c2, items_ranges, offsetRuns_bfrange w secs hs, offsetRuns_eq]
    simp

/-- the state tabula's parser reaches on a whole rendered program: the direct map holds the
direct entries (newest first), the ranges are the offset runs in program order, and the width
fields are those of a width-`w` code space -/
theorem parse_program_state (p : Policy) (w : Nat) (hw1 : 1 ≤ w) (hw4 : w ≤ 4) (secs : List Section)
    (hs : ∀ s ∈ secs, SectionOK w s) :
    let cm := parseCMapData (renderProgram p w secs)
    cm.chars = (directEntries secs).reverse ∧ cm.ranges = (offsetRuns secs).map Run.range ∧ WidthInv w cm := by
  intro cm
  exact parse_program_state' p w hw1 hw4 secs hs

/-! ## 2. the round trip over any list of well-formed sections -/

/-- a list of code→text pairs is a function -/
def Functional (l : List (Nat × List Nat)) : Prop := ∀ a ∈ l, ∀ b ∈ l, a.1 = b.1 → a = b

/-- what the program specifies for a code: a direct entry, or an entry of an offset range that
no direct entry contradicts (a direct definition takes precedence over a range) -/
def Specified (secs : List Section) (e : Nat × List Nat) : Prop :=
  e ∈ directEntries secs ∨ (e ∈ offsetEntries secs ∧ ∀ d ∈ directEntries secs, d.1 = e.1 → d.2 = e.2)

/-- the entries of a run: text `i` belongs to code `lo + i` -/
theorem mem_entriesFrom (c : Nat) (ts : List (List Nat)) (e : Nat × List Nat) :
    e ∈ Run.entriesFrom c ts ↔ ∃ i, ts[i]? = some e.2 ∧ e.1 = c + i := by
  induction ts generalizing c with
  | nil => simp [Run.entriesFrom]
  | cons t ts ih =>
    simp only [Run.entriesFrom, List.mem_cons, ih]
    constructor
    · rintro (h | ⟨i, hi, hc⟩)
      · exact ⟨0, by simp [h], by simp [h]⟩
      · exact ⟨i + 1, by simpa using hi, by omega⟩
    · rintro ⟨i, hi, hc⟩
      cases i with
      | zero =>
        left
        simp only [List.getElem?_cons_zero, Option.some.injEq] at hi
        cases e
        simp only [Prod.mk.injEq]
        exact ⟨by simpa using hc, hi.symm⟩
      | succ j => right; exact ⟨j, by simpa using hi, by omega⟩

theorem mem_entries (r : Run) (e : Nat × List Nat) :
    e ∈ r.entries ↔ ∃ i, r.texts[i]? = some e.2 ∧ e.1 = r.lo + i := mem_entriesFrom r.lo r.texts e

/-- the entries of a well-formed run fit the width and have target texts -/
theorem entry_ok {w : Nat} {r : Run} (hr : RunOK w r) {e : Nat × List Nat} (he : e ∈ r.entries) :
    e.1 < 256 ^ w ∧ TextOK e.2 := by
  obtain ⟨i, hi, hc⟩ := (mem_entries r e).mp he
  have hlt : i < r.texts.length := (List.getElem?_eq_some_iff.mp hi).1
  have := hr.2.1
  exact ⟨by omega, hr.2.2 _ (List.mem_of_getElem? hi)⟩

/-- the codes of a run lie between `lo` and `hi` -/
theorem entry_between {r : Run} {e : Nat × List Nat} (he : e ∈ r.entries) : r.lo ≤ e.1 ∧ e.1 ≤ r.hi := by
  obtain ⟨i, hi, hc⟩ := (mem_entries r e).mp he
  have hlt : i < r.texts.length := (List.getElem?_eq_some_iff.mp hi).1
  unfold Run.hi
  omega

theorem range_start (r : Run) : r.range.start = r.lo := by
  unfold Run.range; split <;> rfl

theorem range_stop (r : Run) : r.range.stop = r.hi := by
  unfold Run.range; split <;> rfl

/-- `lookupRanges` over the ranges of a list of runs: nothing when no run contains the code,
else the text of the first run that contains it -/
theorem lookupRanges_runs (R : List Run) (c : Nat) :
    (∀ r ∈ R, ¬ (r.lo ≤ c ∧ c ≤ r.hi)) ∨
    ∃ r ∈ R, r.lo ≤ c ∧ c ≤ r.hi ∧ lookupRanges (R.map Run.range) c = rangeText r.range c := by
  induction R with
  | nil => left; intro r hr; simp at hr
  | cons r R ih =>
    by_cases h : r.lo ≤ c ∧ c ≤ r.hi
    · right
      refine ⟨r, by simp, h.1, h.2, ?_⟩
      simp only [List.map_cons, lookupRanges, range_start, range_stop]
      rw [if_pos h]
    · rcases ih with ih | ⟨r', hr', h1, h2, h3⟩
      · left
        intro x hx
        rcases List.mem_cons.mp hx with rfl | hx
        · exact h
        · exact ih x hx
      · right
        refine ⟨r', by simp [hr'], h1, h2, ?_⟩
        simp only [List.map_cons, lookupRanges, range_start, range_stop]
        rw [if_neg h, h3]

/-- the ranges of well-formed offset runs whose entries form a function return the entry's text -/
theorem lookupRanges_entry (w : Nat) (R : List Run) (hR : ∀ r ∈ R, RunOK w r ∧ RunOffsetOK r)
    (hf : Functional (R.flatMap Run.entries)) (e : Nat × List Nat) (he : e ∈ R.flatMap Run.entries) :
    lookupRanges (R.map Run.range) e.1 = e.2 := by
  obtain ⟨r, hr, her⟩ := List.mem_flatMap.mp he
  rcases lookupRanges_runs R e.1 with hnone | ⟨r', hr', h1, h2, h3⟩
  · exact absurd (entry_between her) (hnone r hr)
  · rw [h3]
    obtain ⟨hok, hoff⟩ := hR r' hr'
    have hne : r'.texts.length ≠ 0 := by
      intro h0
      exact hok.1 (List.length_eq_zero_iff.mp h0)
    unfold Run.hi at h2
    have hi : e.1 - r'.lo < r'.texts.length := by omega
    have hc : e.1 = r'.lo + (e.1 - r'.lo) := by omega
    have hget : r'.texts[e.1 - r'.lo]? = some (r'.texts[e.1 - r'.lo]) := List.getElem?_eq_getElem hi
    have hrt := rangeText_run w r' hok hoff (e.1 - r'.lo) _ hget
    rw [← hc] at hrt
    rw [hrt]
    have hmem : (e.1, r'.texts[e.1 - r'.lo]) ∈ R.flatMap Run.entries :=
      List.mem_flatMap.mpr ⟨r', hr', (mem_entries r' _).mpr ⟨e.1 - r'.lo, hget, hc⟩⟩
    exact congrArg Prod.snd (hf _ hmem e he rfl)

theorem getChar_of_mem (cm : CMap) (D : List (Nat × List Nat)) (hch : cm.chars = D.reverse)
    (hd : Functional D) (e : Nat × List Nat) (he : e ∈ D) : cm.getChar e.1 = some e.2 := by
  unfold CMap.getChar
  rw [hch, find_unique D.reverse e.1 e.2 (by simpa using he)
    (fun p hp h1 => hd p (by simpa using hp) e he h1)]
  rfl

theorem getChar_some_mem (cm : CMap) (c : Nat) (u : List Nat) (h : cm.getChar c = some u) :
    (c, u) ∈ cm.chars := by
  unfold CMap.getChar at h
  cases hf : cm.chars.find? (fun p => p.1 == c) with
  | none => rw [hf] at h; simp at h
  | some q =>
    rw [hf] at h
    simp only [Option.map_some, Option.some.injEq] at h
    have hm := List.mem_of_find?_eq_some hf
    have hq := List.find?_some hf
    simp only [beq_iff_eq] at hq
    have : q = (c, u) := by cases q; simp only [Prod.mk.injEq]; exact ⟨hq, h⟩
    rw [← this]; exact hm

theorem emit_of_lookup (cm : CMap) (c : Nat) (t : List Nat) (h : lookup cm c = t) (hne : t ≠ []) :
    emit cm c = t := by
  unfold emit
  simp [h, hne]

/-- every direct entry comes from an item of the program -/
theorem mem_directEntries (secs : List Section) (e : Nat × List Nat) :
    e ∈ directEntries secs ↔ ∃ it ∈ allItems secs, e ∈ it.chars := by
  unfold directEntries
  simp only [List.mem_append, List.mem_flatMap, mem_allItems, List.mem_filter, decide_eq_true_eq]
  constructor
  · rintro (⟨it, ⟨s, ⟨hs, _⟩, hit⟩, he⟩ | ⟨it, ⟨s, ⟨hs, _⟩, hit⟩, he⟩)
    · exact ⟨it, ⟨s, hs, hit⟩, he⟩
    · exact ⟨it, ⟨s, hs, hit⟩, he⟩
  · rintro ⟨it, ⟨s, hs, hit⟩, he⟩
    cases hk : s.kind with
    | bfchar => exact Or.inl ⟨it, ⟨s, ⟨hs, hk⟩, hit⟩, he⟩
    | bfrange => exact Or.inr ⟨it, ⟨s, ⟨hs, hk⟩, hit⟩, he⟩

theorem mem_offsetRuns (secs : List Section) (r : Run) : r ∈ offsetRuns secs ↔ Item.offset r ∈ allItems secs := by
  rw [offsetRuns_eq, List.mem_filterMap]
  constructor
  · rintro ⟨it, hit, h⟩
    cases it with
    | char c t => simp [offsetOf_char] at h
    | offset r' => rw [offsetOf_offset] at h; cases h; exact hit
    | array r' => simp [offsetOf_array] at h
  · intro h
    exact ⟨_, h, rfl⟩

theorem itemOK_of_mem (w : Nat) (secs : List Section) (hs : ∀ s ∈ secs, SectionOK w s) (it : Item)
    (hit : it ∈ allItems secs) : ItemOK w it := by
  obtain ⟨s, hsm, him⟩ := (mem_allItems secs it).mp hit
  exact (hs s hsm it him).1

theorem direct_ok (w : Nat) (secs : List Section) (hs : ∀ s ∈ secs, SectionOK w s) (d : Nat × List Nat)
    (hd : d ∈ directEntries secs) : d.1 < 256 ^ w ∧ TextOK d.2 := by
  obtain ⟨it, hit, hdi⟩ := (mem_directEntries secs d).mp hd
  have hok := itemOK_of_mem w secs hs it hit
  cases it with
  | char c t =>
    simp only [Item.chars, List.mem_singleton] at hdi
    subst hdi
    exact hok
  | offset r => simp [Item.chars] at hdi
  | array r => exact entry_ok hok hdi

theorem offsetRuns_ok (w : Nat) (secs : List Section) (hs : ∀ s ∈ secs, SectionOK w s) (r : Run)
    (hr : r ∈ offsetRuns secs) : RunOK w r ∧ RunOffsetOK r :=
  itemOK_of_mem w secs hs _ ((mem_offsetRuns secs r).mp hr)

theorem offset_ok (w : Nat) (secs : List Section) (hs : ∀ s ∈ secs, SectionOK w s) (e : Nat × List Nat)
    (he : e ∈ offsetEntries secs) : e.1 < 256 ^ w ∧ TextOK e.2 := by
  obtain ⟨r, hr, her⟩ := List.mem_flatMap.mp he
  exact entry_ok (offsetRuns_ok w secs hs r hr).1 her

theorem specified_ok (w : Nat) (secs : List Section) (hs : ∀ s ∈ secs, SectionOK w s) (e : Nat × List Nat)
    (he : Specified secs e) : e.1 < 256 ^ w ∧ TextOK e.2 := by
  rcases he with he | ⟨he, _⟩
  · exact direct_ok w secs hs e he
  · exact offset_ok w secs hs e he

/-- `emit` on a state that holds the program's direct entries and offset ranges -/
theorem emit_of_state (w : Nat) (secs : List Section) (hs : ∀ s ∈ secs, SectionOK w s)
    (hd : Functional (directEntries secs)) (ho : Functional (offsetEntries secs))
    (cm : CMap) (hch : cm.chars = (directEntries secs).reverse)
    (hrg : cm.ranges = (offsetRuns secs).map Run.range)
    (e : Nat × List Nat) (he : Specified secs e) : emit cm e.1 = e.2 := by
  have hne : e.2 ≠ [] := (specified_ok w secs hs e he).2.2.1
  apply emit_of_lookup _ _ _ _ hne
  unfold lookup
  rcases he with he | ⟨he, hprec⟩
  · rw [getChar_of_mem cm _ hch hd e he]
  · cases hg : cm.getChar e.1 with
    | some u =>
      have hm := getChar_some_mem cm e.1 u hg
      rw [hch, List.mem_reverse] at hm
      exact hprec _ hm rfl
    | none =>
      show lookupRanges cm.ranges e.1 = e.2
      rw [hrg]
      exact lookupRanges_entry w _ (offsetRuns_ok w secs hs) ho e he

/-- `lookupString` on such a state over the codes of a selection of specified entries -/
theorem lookupString_of_state (w : Nat) (hw1 : 1 ≤ w) (hw4 : w ≤ 4) (secs : List Section)
    (hs : ∀ s ∈ secs, SectionOK w s)
    (hd : Functional (directEntries secs)) (ho : Functional (offsetEntries secs))
    (cm : CMap) (hch : cm.chars = (directEntries secs).reverse)
    (hrg : cm.ranges = (offsetRuns secs).map Run.range) (hinv : WidthInv w cm)
    (sel : List (Nat × List Nat)) (hsel : ∀ e ∈ sel, Specified secs e) :
    lookupString cm ((sel.map (·.1)).flatMap (codeBytes w)) = sel.flatMap (·.2) := by
  unfold lookupString
  rw [effectiveWidth_of_inv w _ hinv]
  simp only [show w > 0 from hw1, if_true]
  rw [lookupWidth_codes _ w hw1 hw4 (sel.map (·.1))
    (by intro c hc
        obtain ⟨e, he, rfl⟩ := List.mem_map.mp hc
        exact (specified_ok w secs hs e (hsel e he)).1)
    _ (by rw [flatMap_codeBytes_length, List.length_map]
          have : sel.length ≤ sel.length * w := Nat.le_mul_of_pos_right _ hw1
          omega)]
  clear hinv
  induction sel with
  | nil => rfl
  | cons e t ih =>
    simp only [List.map_cons, List.flatMap_cons]
    rw [emit_of_state w secs hs hd ho cm hch hrg e (hsel e (by simp))]
    rw [ih (fun x hx => hsel x (by simp [hx]))]

/-- looking up a specified code in the parsed program returns the specified text -/
theorem emit_specified (p : Policy) (w : Nat) (hw1 : 1 ≤ w) (hw4 : w ≤ 4) (secs : List Section)
    (hs : ∀ s ∈ secs, SectionOK w s)
    (hd : Functional (directEntries secs)) (ho : Functional (offsetEntries secs))
    (e : Nat × List Nat) (he : Specified secs e) :
    emit (parseCMapData (renderProgram p w secs)) e.1 = e.2 := by
  obtain ⟨hch, hrg, _⟩ := parse_program_state' p w hw1 hw4 secs hs
  exact emit_of_state w secs hs hd ho _ hch hrg e he

/-- **Whole-program round trip**: for every policy, width 1..4 and list of well-formed sections
whose direct entries and offset entries are functions, parsing the rendered program and looking
up any string of specified codes yields the specified texts. -/
theorem cmap_roundtrip_program (p : Policy) (w : Nat) (hw1 : 1 ≤ w) (hw4 : w ≤ 4) (secs : List Section)
    (hs : ∀ s ∈ secs, SectionOK w s) (hd : Functional (directEntries secs))
    (ho : Functional (offsetEntries secs))
    (sel : List (Nat × List Nat)) (hsel : ∀ e ∈ sel, Specified secs e) :
    lookupString (parseCMapData (renderProgram p w secs)) ((sel.map (·.1)).flatMap (codeBytes w)) =
      sel.flatMap (·.2) := by
  obtain ⟨hch, hrg, hinv⟩ := parse_program_state' p w hw1 hw4 secs hs
  exact lookupString_of_state w hw1 hw4 secs hs hd ho _ hch hrg hinv sel hsel

/-! ## 3. the writer's five forms -/

/-- hypotheses on a code→text map (`lmap` of the harness): every run fits the width and has
target texts, and no code is defined twice -/
def MapOK (w : Nat) (runs : List Run) : Prop :=
  (∀ r ∈ runs, RunOK w r) ∧ ((runs.flatMap Run.entries).map (·.1)).Nodup

theorem functional_of_nodup (l : List (Nat × List Nat)) (h : (l.map (·.1)).Nodup) : Functional l := by
  induction l with
  | nil => intro a ha; simp at ha
  | cons x l ih =>
    rw [List.map_cons, List.nodup_cons] at h
    have ih' := ih h.2
    intro a ha b hb hab
    rcases List.mem_cons.mp ha with ha' | ha' <;> rcases List.mem_cons.mp hb with hb' | hb'
    · rw [ha', hb']
    · subst ha'
      exact absurd (List.mem_map.mpr ⟨b, hb', hab.symm⟩) h.1
    · subst hb'
      exact absurd (List.mem_map.mpr ⟨a, ha', hab⟩) h.1
    · exact ih' a ha' b hb' hab

/-! ### sections of at most 100 items -/

theorem chunksAux_flatten {α : Type} (n : Nat) (hn : 1 ≤ n) (fuel : Nat) :
    ∀ (l : List α), l.length ≤ fuel → (chunksAux n fuel l).flatMap id = l := by
  induction fuel with
  | zero =>
    intro l h
    have : l = [] := List.length_eq_zero_iff.mp (by omega)
    subst this; rfl
  | succ f ih =>
    intro l h
    cases l with
    | nil => rfl
    | cons a l =>
      simp only [chunksAux, List.flatMap_cons, id]
      rw [ih _ (by simp only [List.length_drop, List.length_cons] at *; omega)]
      exact List.take_append_drop n (a :: l)

theorem chunksAux_mem {α : Type} (n fuel : Nat) :
    ∀ (l : List α), ∀ c ∈ chunksAux n fuel l, ∀ x ∈ c, x ∈ l := by
  induction fuel with
  | zero => intro l c hc; simp [chunksAux] at hc
  | succ f ih =>
    intro l c hc x hx
    cases l with
    | nil => simp [chunksAux] at hc
    | cons a l =>
      simp only [chunksAux, List.mem_cons] at hc
      rcases hc with rfl | hc
      · exact List.mem_of_mem_take hx
      · exact List.mem_of_mem_drop (ih _ c hc x hx)

/-- the sections of `sectionsOfItems` re-join to the items -/
theorem allItems_sectionsOfItems (k : Kind) (items : List Item) :
    allItems (sectionsOfItems k items) = items := by
  have h : ∀ cs : List (List Item), allItems (cs.map fun c => (⟨k, c⟩ : Section)) = cs.flatMap id := by
    intro cs
    induction cs with
    | nil => rfl
    | cons c cs ih => rw [List.map_cons, allItems_cons, ih]; rfl
  unfold sectionsOfItems
  rw [h]
  exact chunksAux_flatten 100 (by decide) _ _ (Nat.le_refl _)

theorem sectionOK_sectionsOfItems (w : Nat) (k : Kind) (items : List Item)
    (h : ∀ it ∈ items, ItemOK w it ∧ it.fits k) : ∀ s ∈ sectionsOfItems k items, SectionOK w s := by
  intro s hs
  unfold sectionsOfItems at hs
  obtain ⟨c, hc, rfl⟩ := List.mem_map.mp hs
  intro it hit
  exact h it (chunksAux_mem _ _ _ c hc it hit)

/-! ### programs whose items cover a functional map -/

theorem item_chars_sub (it : Item) (e : Nat × List Nat) (h : e ∈ it.chars) : e ∈ it.entries := by
  cases it with
  | char c t => exact h
  | offset r => simp [Item.chars] at h
  | array r => exact h

/-- when the entries of the items of a program are exactly a functional map `E`, every entry of
`E` is specified -/
theorem specified_of_cover (secs : List Section) (E : List (Nat × List Nat)) (hE : Functional E)
    (H1 : ∀ it ∈ allItems secs, ∀ e ∈ it.entries, e ∈ E)
    (H2 : ∀ e ∈ E, ∃ it ∈ allItems secs, e ∈ it.entries) :
    Functional (directEntries secs) ∧ Functional (offsetEntries secs) ∧ ∀ e ∈ E, Specified secs e := by
  have hdE : ∀ e ∈ directEntries secs, e ∈ E := by
    intro e he
    obtain ⟨it, hit, h⟩ := (mem_directEntries secs e).mp he
    exact H1 it hit e (item_chars_sub it e h)
  have hoE : ∀ e ∈ offsetEntries secs, e ∈ E := by
    intro e he
    obtain ⟨r, hr, her⟩ := List.mem_flatMap.mp he
    exact H1 _ ((mem_offsetRuns secs r).mp hr) e her
  refine ⟨fun a ha b hb => hE a (hdE a ha) b (hdE b hb), fun a ha b hb => hE a (hoE a ha) b (hoE b hb), ?_⟩
  intro e he
  obtain ⟨it, hit, hei⟩ := H2 e he
  cases it with
  | char c t => left; exact (mem_directEntries secs e).mpr ⟨_, hit, hei⟩
  | array r => left; exact (mem_directEntries secs e).mpr ⟨_, hit, hei⟩
  | offset r =>
    right
    refine ⟨List.mem_flatMap.mpr ⟨r, (mem_offsetRuns secs r).mpr hit, hei⟩, ?_⟩
    intro d hd h1
    exact congrArg Prod.snd (hE d (hdE d hd) e he h1)

/-- what has to be shown of the sections of a form -/
def FormOK (w : Nat) (f : Form) (runs : List Run) : Prop :=
  (∀ s ∈ sectionsOf f runs, SectionOK w s) ∧ Functional (directEntries (sectionsOf f runs)) ∧
    Functional (offsetEntries (sectionsOf f runs)) ∧ ∀ e ∈ entriesFor f runs, Specified (sectionsOf f runs) e

theorem sectionsOfItems_nil (k : Kind) : sectionsOfItems k [] = [] := rfl

/-! ### bfchar -/

theorem form_bfchar (w : Nat) (runs : List Run) (hm : MapOK w runs) : FormOK w .bfchar runs := by
  have hE := functional_of_nodup _ hm.2
  have hall : allItems (sectionsOf .bfchar runs) =
      (runs.flatMap Run.entries).map fun e => Item.char e.1 e.2 := allItems_sectionsOfItems _ _
  obtain ⟨c1, c2, c3⟩ := specified_of_cover (sectionsOf .bfchar runs) (runs.flatMap Run.entries) hE
    (by
      rw [hall]
      intro it hit e he
      obtain ⟨e0, he0, rfl⟩ := List.mem_map.mp hit
      simp only [Item.entries, List.mem_singleton] at he
      rw [he]; exact he0)
    (by
      rw [hall]
      intro e he
      exact ⟨_, List.mem_map.mpr ⟨e, he, rfl⟩, by simp [Item.entries]⟩)
  refine ⟨?_, c1, c2, c3⟩
  apply sectionOK_sectionsOfItems
  intro it hit
  obtain ⟨e0, he0, rfl⟩ := List.mem_map.mp hit
  obtain ⟨r, hr, her⟩ := List.mem_flatMap.mp he0
  exact ⟨entry_ok (hm.1 r hr) her, trivial⟩

/-! ### bfrange with offset targets -/

theorem form_offset (w : Nat) (runs : List Run) (hm : MapOK w runs) (hoff : ∀ r ∈ runs, RunOffsetOK r) :
    FormOK w .offset runs := by
  have hE := functional_of_nodup _ hm.2
  have hall : allItems (sectionsOf .offset runs) = runs.map Item.offset := allItems_sectionsOfItems _ _
  obtain ⟨c1, c2, c3⟩ := specified_of_cover (sectionsOf .offset runs) (runs.flatMap Run.entries) hE
    (by
      rw [hall]
      intro it hit e he
      obtain ⟨r, hr, rfl⟩ := List.mem_map.mp hit
      exact List.mem_flatMap.mpr ⟨r, hr, he⟩)
    (by
      rw [hall]
      intro e he
      obtain ⟨r, hr, her⟩ := List.mem_flatMap.mp he
      exact ⟨_, List.mem_map.mpr ⟨r, hr, rfl⟩, her⟩)
  refine ⟨?_, c1, c2, c3⟩
  apply sectionOK_sectionsOfItems
  intro it hit
  obtain ⟨r, hr, rfl⟩ := List.mem_map.mp hit
  exact ⟨⟨hm.1 r hr, hoff r hr⟩, trivial⟩

/-! ### bfrange with array targets -/

theorem form_array (w : Nat) (runs : List Run) (hm : MapOK w runs) : FormOK w .array runs := by
  have hE := functional_of_nodup _ hm.2
  have hall : allItems (sectionsOf .array runs) = runs.map Item.array := allItems_sectionsOfItems _ _
  obtain ⟨c1, c2, c3⟩ := specified_of_cover (sectionsOf .array runs) (runs.flatMap Run.entries) hE
    (by
      rw [hall]
      intro it hit e he
      obtain ⟨r, hr, rfl⟩ := List.mem_map.mp hit
      exact List.mem_flatMap.mpr ⟨r, hr, he⟩)
    (by
      rw [hall]
      intro e he
      obtain ⟨r, hr, her⟩ := List.mem_flatMap.mp he
      exact ⟨_, List.mem_map.mpr ⟨r, hr, rfl⟩, her⟩)
  refine ⟨?_, c1, c2, c3⟩
  apply sectionOK_sectionsOfItems
  intro it hit
  obtain ⟨r, hr, rfl⟩ := List.mem_map.mp hit
  exact ⟨hm.1 r hr, trivial⟩

/-! ### the mixed form -/

/-- every run contributes exactly one item, of the kind of the section it goes to, and every
item comes from a run -/
theorem mixedItems_spec (w : Nat) (runs : List Run) : ∀ (i : Nat), (∀ r ∈ runs, RunOK w r ∧ RunOffsetOK r) →
    (∀ it ∈ (mixedItems i runs).1, (ItemOK w it ∧ it.fits .bfchar) ∧
      ∀ e ∈ it.entries, e ∈ runs.flatMap Run.entries) ∧
    (∀ it ∈ (mixedItems i runs).2, (ItemOK w it ∧ it.fits .bfrange) ∧
      ∀ e ∈ it.entries, e ∈ runs.flatMap Run.entries) ∧
    (∀ e ∈ runs.flatMap Run.entries,
      ∃ it, (it ∈ (mixedItems i runs).1 ∨ it ∈ (mixedItems i runs).2) ∧ e ∈ it.entries) := by
  induction runs with
  | nil => intro i _; simp [mixedItems]
  | cons r rs ih =>
    intro i h
    obtain ⟨hr, hro⟩ := h r (by simp)
    obtain ⟨a1, a2, a3⟩ := ih (i + 1) (fun x hx => h x (by simp [hx]))
    have sub : ∀ e, e ∈ rs.flatMap Run.entries → e ∈ (r :: rs).flatMap Run.entries := by
      intro e he; rw [List.flatMap_cons]; exact List.mem_append_right _ he
    have subr : ∀ e, e ∈ r.entries → e ∈ (r :: rs).flatMap Run.entries := by
      intro e he; rw [List.flatMap_cons]; exact List.mem_append_left _ he
    by_cases c1 : r.texts.length = 1 ∧ i % 2 = 0
    · have hmx : mixedItems i (r :: rs) =
          (Item.char r.lo (r.texts.headD []) :: (mixedItems (i + 1) rs).1, (mixedItems (i + 1) rs).2) := by
        simp only [mixedItems]; rw [if_pos c1]
      obtain ⟨t, ht⟩ := List.length_eq_one_iff.mp c1.1
      have hent : r.entries = [(r.lo, t)] := by simp [Run.entries, ht, Run.entriesFrom]
      have hhd : r.texts.headD [] = t := by simp [ht]
      rw [hmx, hhd]
      refine ⟨?_, ?_, ?_⟩
      · intro it hit
        rcases List.mem_cons.mp hit with rfl | hit
        · have hok := entry_ok hr (e := (r.lo, t)) (by rw [hent]; simp)
          refine ⟨⟨hok, trivial⟩, ?_⟩
          intro e he
          apply subr
          rw [hent]; exact he
        · exact ⟨(a1 it hit).1, fun e he => sub e ((a1 it hit).2 e he)⟩
      · intro it hit
        exact ⟨(a2 it hit).1, fun e he => sub e ((a2 it hit).2 e he)⟩
      · intro e he
        rw [List.flatMap_cons, List.mem_append] at he
        rcases he with he | he
        · exact ⟨_, Or.inl List.mem_cons_self, by rw [hent] at he; exact he⟩
        · obtain ⟨it, hit, hei⟩ := a3 e he
          exact ⟨it, hit.imp (List.mem_cons_of_mem _) id, hei⟩
    · obtain ⟨itm, hok, hfit, hent, hmx⟩ : ∃ itm : Item, ItemOK w itm ∧ itm.fits .bfrange ∧
          itm.entries = r.entries ∧
          mixedItems i (r :: rs) = ((mixedItems (i + 1) rs).1, itm :: (mixedItems (i + 1) rs).2) := by
        by_cases c2 : i % 3 = 0
        · refine ⟨Item.array r, hr, trivial, rfl, ?_⟩
          simp only [mixedItems]; rw [if_neg c1, if_pos c2]
        · refine ⟨Item.offset r, ⟨hr, hro⟩, trivial, rfl, ?_⟩
          simp only [mixedItems]; rw [if_neg c1, if_neg c2]
      rw [hmx]
      refine ⟨?_, ?_, ?_⟩
      · intro it hit
        exact ⟨(a1 it hit).1, fun e he => sub e ((a1 it hit).2 e he)⟩
      · intro it hit
        rcases List.mem_cons.mp hit with rfl | hit
        · exact ⟨⟨hok, hfit⟩, fun e he => subr e (by rw [← hent]; exact he)⟩
        · exact ⟨(a2 it hit).1, fun e he => sub e ((a2 it hit).2 e he)⟩
      · intro e he
        rw [List.flatMap_cons, List.mem_append] at he
        rcases he with he | he
        · exact ⟨itm, Or.inr List.mem_cons_self, by rw [hent]; exact he⟩
        · obtain ⟨it, hit, hei⟩ := a3 e he
          exact ⟨it, hit.imp id (List.mem_cons_of_mem _), hei⟩

theorem form_mixed (w : Nat) (runs : List Run) (hm : MapOK w runs) (hoff : ∀ r ∈ runs, RunOffsetOK r) :
    FormOK w .mixed runs := by
  have hE := functional_of_nodup _ hm.2
  obtain ⟨m1, m2, m3⟩ := mixedItems_spec w runs 0 (fun r hr => ⟨hm.1 r hr, hoff r hr⟩)
  have hall : allItems (sectionsOf .mixed runs) = (mixedItems 0 runs).1 ++ (mixedItems 0 runs).2 := by
    show allItems (_ ++ _) = _
    rw [allItems_append, allItems_sectionsOfItems, allItems_sectionsOfItems]
  obtain ⟨c1, c2, c3⟩ := specified_of_cover (sectionsOf .mixed runs) (runs.flatMap Run.entries) hE
    (by
      rw [hall]
      intro it hit e he
      rcases List.mem_append.mp hit with hit | hit
      · exact (m1 it hit).2 e he
      · exact (m2 it hit).2 e he)
    (by
      rw [hall]
      intro e he
      obtain ⟨it, hit, hei⟩ := m3 e he
      exact ⟨it, List.mem_append.mpr hit, hei⟩)
  refine ⟨?_, c1, c2, c3⟩
  intro s hs
  rcases List.mem_append.mp hs with hs | hs
  · exact sectionOK_sectionsOfItems w _ _ (fun it hit => (m1 it hit).1) s hs
  · exact sectionOK_sectionsOfItems w _ _ (fun it hit => (m2 it hit).1) s hs

/-! ### a range, then a bfchar entry that overrides one of its codes -/

/-- the overridden code is a code of the run; its later text is `#` followed by the run's -/
theorem overridden_spec (r : Run) (o : Nat × List Nat) (h : overridden r = some o) :
    ∃ t, o.2 = 35 :: t ∧ (o.1, t) ∈ r.entries := by
  unfold overridden at h
  split at h
  · simp at h
  · rename_i hlen
    simp only [Option.some.injEq] at h
    subst h
    refine ⟨r.texts.getD (r.texts.length / 2) [], rfl, ?_⟩
    have hlt : r.texts.length / 2 < r.texts.length := by omega
    refine (mem_entries r _).mpr ⟨r.texts.length / 2, ?_, rfl⟩
    rw [List.getD_eq_getElem?_getD, List.getElem?_eq_getElem hlt]
    rfl

theorem textOK_hash (t : List Nat) (ht : TextOK t) : TextOK (35 :: t) :=
  ⟨allScalar_cons (by unfold IsScalar; omega) ht.1, by simp, by simp⟩

/-- the bfchar items of the override form -/
def overrideItems (runs : List Run) : List Item :=
  runs.filterMap fun r => (overridden r).map fun e => Item.char e.1 e.2

theorem mem_overrideItems (runs : List Run) (it : Item) :
    it ∈ overrideItems runs ↔ ∃ o ∈ runs.filterMap overridden, it = Item.char o.1 o.2 := by
  unfold overrideItems
  simp only [List.mem_filterMap, Option.map_eq_some_iff]
  constructor
  · rintro ⟨r, hr, o, ho, rfl⟩
    exact ⟨o, ⟨r, hr, ho⟩, rfl⟩
  · rintro ⟨o, ⟨r, hr, ho⟩, rfl⟩
    exact ⟨r, hr, o, ho, rfl⟩

theorem allItems_override (runs : List Run) :
    allItems (sectionsOf .override runs) = runs.map Item.offset ++ overrideItems runs := by
  show allItems (_ ++ _) = _
  rw [allItems_append, allItems_sectionsOfItems, allItems_sectionsOfItems]
  rfl

theorem mem_direct_override (runs : List Run) (d : Nat × List Nat) :
    d ∈ directEntries (sectionsOf .override runs) ↔ d ∈ runs.filterMap overridden := by
  rw [mem_directEntries, allItems_override]
  constructor
  · rintro ⟨it, hit, hd⟩
    rcases List.mem_append.mp hit with hit | hit
    · obtain ⟨r, _, rfl⟩ := List.mem_map.mp hit
      simp [Item.chars] at hd
    · obtain ⟨o, ho, rfl⟩ := (mem_overrideItems runs it).mp hit
      simp only [Item.chars, List.mem_singleton] at hd
      rw [hd]; exact ho
  · intro hd
    exact ⟨Item.char d.1 d.2, List.mem_append_right _ ((mem_overrideItems runs _).mpr ⟨d, hd, rfl⟩),
      by simp [Item.chars]⟩

theorem mem_offsetRuns_override (runs : List Run) (r : Run) :
    r ∈ offsetRuns (sectionsOf .override runs) ↔ r ∈ runs := by
  rw [mem_offsetRuns, allItems_override]
  constructor
  · intro h
    rcases List.mem_append.mp h with h | h
    · obtain ⟨r', hr', h'⟩ := List.mem_map.mp h
      cases h'; exact hr'
    · obtain ⟨o, _, h'⟩ := (mem_overrideItems runs _).mp h
      cases h'
  · intro h
    exact List.mem_append_left _ (List.mem_map.mpr ⟨r, h, rfl⟩)

theorem mem_offsetEntries_override (runs : List Run) (e : Nat × List Nat) :
    e ∈ offsetEntries (sectionsOf .override runs) ↔ e ∈ runs.flatMap Run.entries := by
  unfold offsetEntries
  simp only [List.mem_flatMap, mem_offsetRuns_override]

theorem form_override (w : Nat) (runs : List Run) (hm : MapOK w runs) (hoff : ∀ r ∈ runs, RunOffsetOK r) :
    FormOK w .override runs := by
  have hE := functional_of_nodup _ hm.2
  -- an overridden pair: a code of the map, with `#` before its text
  have hO : ∀ o ∈ runs.filterMap overridden,
      ∃ t, o.2 = 35 :: t ∧ (o.1, t) ∈ runs.flatMap Run.entries ∧ o.1 < 256 ^ w ∧ TextOK t := by
    intro o ho
    obtain ⟨r, hr, hor⟩ := List.mem_filterMap.mp ho
    obtain ⟨t, h1, h2⟩ := overridden_spec r o hor
    have := entry_ok (hm.1 r hr) h2
    exact ⟨t, h1, List.mem_flatMap.mpr ⟨r, hr, h2⟩, this.1, this.2⟩
  refine ⟨?_, ?_, ?_, ?_⟩
  · intro s hs
    rcases List.mem_append.mp hs with hs | hs
    · refine sectionOK_sectionsOfItems w _ _ ?_ s hs
      intro it hit
      obtain ⟨r, hr, rfl⟩ := List.mem_map.mp hit
      exact ⟨⟨hm.1 r hr, hoff r hr⟩, trivial⟩
    · refine sectionOK_sectionsOfItems w _ _ ?_ s hs
      intro it hit
      obtain ⟨o, ho, rfl⟩ := (mem_overrideItems runs it).mp hit
      obtain ⟨t, h1, _, h3, h4⟩ := hO o ho
      refine ⟨⟨h3, ?_⟩, trivial⟩
      rw [h1]; exact textOK_hash t h4
  · intro a ha b hb hab
    rw [mem_direct_override] at ha hb
    obtain ⟨ta, a1, a2, _⟩ := hO a ha
    obtain ⟨tb, b1, b2, _⟩ := hO b hb
    have := congrArg Prod.snd (hE _ a2 _ b2 hab)
    simp only at this
    apply Prod.ext hab
    rw [a1, b1, this]
  · intro a ha b hb hab
    rw [mem_offsetEntries_override] at ha hb
    exact hE a ha b hb hab
  · intro e' he'
    obtain ⟨e, he, rfl⟩ := List.mem_map.mp he'
    split
    · rename_i o hfind
      left
      rw [mem_direct_override]
      have hmem := List.mem_of_find?_eq_some hfind
      have hq := List.find?_some hfind
      simp only [beq_iff_eq] at hq
      rw [← hq]
      exact hmem
    · rename_i hfind
      right
      refine ⟨(mem_offsetEntries_override runs e).mpr he, ?_⟩
      intro d hd h1
      rw [mem_direct_override] at hd
      have := List.find?_eq_none.mp hfind d hd
      simp only [beq_iff_eq] at this
      exact absurd h1 this

/-! ### all forms -/

theorem formOK (w : Nat) (f : Form) (runs : List Run) (hm : MapOK w runs)
    (hoff : f = .bfchar ∨ f = .array ∨ ∀ r ∈ runs, RunOffsetOK r) : FormOK w f runs := by
  cases f with
  | bfchar => exact form_bfchar w runs hm
  | array => exact form_array w runs hm
  | offset =>
    rcases hoff with h | h | h
    · cases h
    · cases h
    · exact form_offset w runs hm h
  | mixed =>
    rcases hoff with h | h | h
    · cases h
    · cases h
    · exact form_mixed w runs hm h
  | override =>
    rcases hoff with h | h | h
    · cases h
    · cases h
    · exact form_override w runs hm h

/-- **The ToUnicode CMap round trip.** For every formatting policy (LF / CR LF / one line, tight,
upper- or lower-case hex, any array wrapping), every form of the writer (bfchar, bfrange with
offset targets, bfrange with array targets, the mixed form, a range followed by a bfchar entry
that overrides one of its codes), every code width 1..4 and every code→text map that fits the
width: parsing the whole program with tabula's parser and looking up any string of specified
codes yields the specified texts. -/
theorem cmap_roundtrip (p : Policy) (f : Form) (w : Nat) (hw1 : 1 ≤ w) (hw4 : w ≤ 4) (runs : List Run)
    (hm : MapOK w runs)
    (hoff : f = .bfchar ∨ f = .array ∨ ∀ r ∈ runs, RunOffsetOK r)
    (sel : List (Nat × List Nat)) (hsel : ∀ e ∈ sel, e ∈ entriesFor f runs) :
    lookupString (parseCMapData (renderMap p f w runs)) ((sel.map (·.1)).flatMap (codeBytes w)) =
      sel.flatMap (·.2) := by
  obtain ⟨hs, hd, ho, hspec⟩ := formOK w f runs hm hoff
  unfold renderMap
  exact cmap_roundtrip_program p w hw1 hw4 (sectionsOf f runs) hs hd ho sel
    (fun e he => hspec e (hsel e he))


end Tabula.CMapCompose
