import TabulaModel.Model.ChunkSplit
import TabulaModel.Lemmas.Chunk
import TabulaModel.Lemmas.Split
/-!
Helper lemmas for property C12: the splitter of property C13 (`Model/Split.lean`) meets the
contract `SplitOK` that the cover theorem of the element-based chunker asks of its parameter,
on every text whose white space is ASCII — and the chunker calls it on such texts only when the
paragraphs of the document are such texts.
-/
namespace Tabula.ChunkSplit
open Tabula.Chunk
open Tabula.Split (spaceLen isAsciiSpace isSpace2 isSpace3 IsWsChar WsOnly Pieces)

/-! ### white space: C13's `WsOnly` against C12's `strip` -/

theorem isSpace_of_ascii {b : Nat} (h : isAsciiSpace b = true) : isSpace b = true := by
  simp only [isAsciiSpace, Bool.or_eq_true, Bool.and_eq_true, decide_eq_true_eq, beq_iff_eq] at h
  simp only [isSpace, Bool.or_eq_true, Bool.and_eq_true, decide_eq_true_eq, beq_iff_eq]
  omega

/-- a White_Space character at the head of a text is seen by `spaceLen` whatever follows -/
theorem spaceLen_wsChar_append (c rest : Str) (h : IsWsChar c) : spaceLen (c ++ rest) = c.length := by
  obtain ⟨hne, hl⟩ := h
  rcases c with _ | ⟨b, c1⟩
  · exact absurd rfl hne
  · by_cases hb : isAsciiSpace b = true
    · have e : spaceLen (b :: c1) = 1 := by simp [spaceLen, hb]
      rw [e] at hl
      have : c1 = [] := by
        cases c1 with
        | nil => rfl
        | cons _ _ => simp at hl
      subst this
      simp [spaceLen, hb]
    · rcases c1 with _ | ⟨c', c2⟩
      · simp [spaceLen, hb] at hl
      · by_cases hc : isSpace2 b c' = true
        · have e : spaceLen (b :: c' :: c2) = 2 := by simp [spaceLen, hb, hc]
          rw [e] at hl
          have : c2 = [] := by
            cases c2 with
            | nil => rfl
            | cons _ _ => simp at hl
          subst this
          simp [spaceLen, hb, hc]
        · rcases c2 with _ | ⟨d, c3⟩
          · simp [spaceLen, hb, hc] at hl
          · by_cases hd : isSpace3 b c' d = true
            · have e : spaceLen (b :: c' :: d :: c3) = 3 := by simp [spaceLen, hb, hc, hd]
              rw [e] at hl
              have : c3 = [] := by
                cases c3 with
                | nil => rfl
                | cons _ _ => simp at hl
              subst this
              simp [spaceLen, hb, hc, hd]
            · simp [spaceLen, hb, hc, hd] at hl

theorem noWide_suffix (a b : Str) (h : noWide (a ++ b) = true) : noWide b = true := by
  induction a with
  | nil => exact h
  | cons x xs ih =>
    simp only [List.cons_append, noWide, Bool.and_eq_true] at h
    exact ih h.2

theorem noWide_head (b : Nat) (rest : Str) (h : noWide (b :: rest) = true) : spaceLen (b :: rest) ≤ 1 := by
  simp only [noWide, Bool.and_eq_true, decide_eq_true_eq] at h
  exact h.1

/-- a white-space-only gap at the head of a text without wide white space is ASCII white space -/
theorem strip_gap (g rest : Str) (hg : WsOnly g) (hn : noWide (g ++ rest) = true) : strip g = [] := by
  induction hg with
  | nil => rfl
  | @cons c s hc _ ih =>
    rw [List.append_assoc] at hn
    have hlen := spaceLen_wsChar_append c (s ++ rest) hc
    obtain ⟨hne, hl⟩ := hc
    rcases c with _ | ⟨b, c1⟩
    · exact absurd rfl hne
    · have h1 := noWide_head b (c1 ++ (s ++ rest)) hn
      rw [List.cons_append] at hlen
      rw [hlen] at h1
      have : c1 = [] := by
        cases c1 with
        | nil => rfl
        | cons _ _ => simp at h1
      subst this
      have hb : isAsciiSpace b = true := by
        by_cases hb : isAsciiSpace b = true
        · exact hb
        · simp [spaceLen, hb] at hl
      have hrest : noWide (s ++ rest) = true := noWide_suffix [b] _ hn
      rw [strip_append, ih hrest, List.append_nil]
      simp [strip, isSpace_of_ascii hb]

/-- **C13's conservation in C12's terms**: pieces of a text without wide white space carry
the text, ASCII white space aside -/
theorem pieces_strip {t : Str} {ps : List Str} (h : Pieces t ps) (hn : noWide t = true) :
    strip ps.flatten = strip t := by
  induction h with
  | @done g hg =>
    have := strip_gap g [] hg (by simpa using hn)
    rw [this]; rfl
  | @piece g p r ps hg _ ih =>
    rw [List.append_assoc] at hn
    have h1 := strip_gap g (p ++ r) hg hn
    have h2 : noWide r = true := noWide_suffix p r (noWide_suffix g _ hn)
    rw [List.flatten_cons, strip_append, ih h2, List.append_assoc, strip_append, h1, strip_append]
    rfl

/-! ### the chunker joins paragraphs with a blank line -/

theorem spaceLen_join (x : Nat) (xs b : Str) (h : spaceLen (x :: xs) ≤ 1) :
    spaceLen (x :: (xs ++ 10 :: 10 :: b)) ≤ 1 := by
  by_cases hx : isAsciiSpace x = true
  · simp [spaceLen, hx]
  · rcases xs with _ | ⟨c, xs2⟩
    · simp [spaceLen, hx, isSpace2, isSpace3]
    · by_cases hc : isSpace2 x c = true
      · simp [spaceLen, hx, hc] at h
      · rcases xs2 with _ | ⟨d, xs3⟩
        · simp [spaceLen, hx, hc, isSpace3]
        · simpa [spaceLen, hx, hc] using h

theorem noWide_join (a b : Str) (ha : noWide a = true) (hb : noWide b = true) :
    noWide (a ++ [10, 10] ++ b) = true := by
  induction a with
  | nil =>
    simp only [List.nil_append, List.cons_append, noWide, Bool.and_eq_true, decide_eq_true_eq]
    exact ⟨by simp [spaceLen, isAsciiSpace], by simp [spaceLen, isAsciiSpace], hb⟩
  | cons x xs ih =>
    simp only [noWide, Bool.and_eq_true, decide_eq_true_eq] at ha
    simp only [List.cons_append, List.append_assoc, noWide, Bool.and_eq_true, decide_eq_true_eq]
    refine ⟨?_, by simpa [List.append_assoc] using ih ha.2⟩
    exact spaceLen_join x xs b ha.1

/-! ### guarding the splitter changes nothing on such documents -/

/-- the splitter consulted only on texts without wide white space -/
def guarded (sp : Splitter) : Splitter := fun t => if noWide t then sp t else none

theorem guarded_ok (c : Tabula.Split.SizeConfig) : SplitOK (guarded (splitterOf c)) := by
  intro t ps h
  unfold guarded splitterOf at h
  split at h
  · rename_i hn
    split at h
    · cases h
      exact pieces_strip (Tabula.Split.splitToSize_pieces c t []) hn
    · cases h
  · cases h

/-- every paragraph of the page is free of wide white space -/
def ParasNoWide (es : List Elem) : Prop := ∀ t, Elem.para t ∈ es → noWide t = true

def DocNoWide (d : Doc) : Prop := ∀ pg ∈ d, ParasNoWide pg.elems

theorem flush_guard {σ} (sp : Splitter) (page : Int) (st : St σ) (hb : noWide st.block = true) :
    flush (guarded sp) page st = flush sp page st := by
  unfold flush textBlockToChunks guarded
  rw [if_pos hb]

theorem flush_block {σ} (sp : Splitter) (page : Int) (st : St σ) (hb : noWide st.block = true) :
    noWide (flush sp page st).1.block = true := by
  unfold flush
  split
  · exact hb
  · rfl

theorem emitOne_guard {σ} (sp : Splitter) (page : Int) (st : St σ) (sec : σ) (text : Str) (path : List Str)
    (hb : noWide st.block = true) :
    emitOne (guarded sp) page st sec text path = emitOne sp page st sec text path ∧
      noWide (emitOne sp page st sec text path).1.block = true := by
  unfold emitOne
  rw [flush_guard sp page st hb]
  exact ⟨rfl, flush_block sp page st hb⟩

theorem stepElem_guard {σ} (tr : Tracker σ) (sp : Splitter) (toc : List TOCEntry) (page : Int) (st : St σ)
    (e : Elem) (hb : noWide st.block = true) (he : ∀ t, e = .para t → noWide t = true) :
    stepElem tr (guarded sp) toc page st e = stepElem tr sp toc page st e ∧
      noWide (stepElem tr sp toc page st e).1.block = true := by
  cases e with
  | para text =>
    simp only [stepElem]
    split
    · exact emitOne_guard sp page st _ _ _ hb
    · refine ⟨rfl, ?_⟩
      simp only
      split
      · exact he text rfl
      · exact noWide_join _ _ hb (he text rfl)
  | heading level text => exact emitOne_guard sp page st _ _ _ hb
  | list o items => exact emitOne_guard sp page st _ _ _ hb
  | table rows => exact emitOne_guard sp page st _ _ _ hb
  | image alt =>
    simp only [stepElem]
    split
    · exact ⟨flush_guard sp page st hb, flush_block sp page st hb⟩
    · exact emitOne_guard sp page st _ _ _ hb

theorem runElems_guard {σ} (tr : Tracker σ) (sp : Splitter) (toc : List TOCEntry) (page : Int) (st : St σ)
    (es : List Elem) (hb : noWide st.block = true) (he : ParasNoWide es) :
    runElems tr (guarded sp) toc page st es = runElems tr sp toc page st es ∧
      noWide (runElems tr sp toc page st es).1.block = true := by
  induction es generalizing st with
  | nil => exact ⟨rfl, hb⟩
  | cons e es ih =>
    obtain ⟨s1, b1⟩ := stepElem_guard tr sp toc page st e hb (fun t ht => he t (ht ▸ List.mem_cons_self ..))
    obtain ⟨s2, b2⟩ := ih (stepElem tr sp toc page st e).1 b1 (fun t ht => he t (List.mem_cons_of_mem _ ht))
    simp only [runElems]
    rw [s1, s2]
    exact ⟨rfl, b2⟩

/-- `resolveRepeatedHeadings` introduces no paragraph -/
theorem resolveElems_paras (layout : List (Int × Str)) (seen : List Str) (es : List Elem) (t : Str)
    (h : Elem.para t ∈ resolveElems layout seen es) : Elem.para t ∈ es := by
  induction es generalizing seen with
  | nil => simp [resolveElems] at h
  | cons e es ih =>
    cases e with
    | heading l t' =>
      simp only [resolveElems, List.mem_cons] at h
      rcases h with h | h
      · cases h
      · exact List.mem_cons_of_mem _ (ih _ h)
    | para t' =>
      simp only [resolveElems] at h
      split at h
      · rcases List.mem_cons.mp h with h | h
        · rw [h]; exact List.mem_cons_self ..
        · exact List.mem_cons_of_mem _ (ih _ h)
      · rcases List.mem_cons.mp h with h | h
        · split at h
          · rw [h]; exact List.mem_cons_self ..
          · cases h
        · exact List.mem_cons_of_mem _ (ih _ h)
    | list o items =>
      simp only [resolveElems, List.mem_cons] at h
      rcases h with h | h
      · cases h
      · exact List.mem_cons_of_mem _ (ih _ h)
    | table rows =>
      simp only [resolveElems, List.mem_cons] at h
      rcases h with h | h
      · cases h
      · exact List.mem_cons_of_mem _ (ih _ h)
    | image alt =>
      simp only [resolveElems, List.mem_cons] at h
      rcases h with h | h
      · cases h
      · exact List.mem_cons_of_mem _ (ih _ h)

theorem resolve_paras (pg : Page) (h : ParasNoWide pg.elems) : ParasNoWide (resolveRepeatedHeadings pg) := by
  unfold resolveRepeatedHeadings
  cases pg.layout with
  | none => exact h
  | some hs => exact fun t ht => h t (resolveElems_paras hs [] pg.elems t ht)

theorem chunkPage_guard {σ} (tr : Tracker σ) (sp : Splitter) (toc : List TOCEntry) (st : St σ) (pg : Page)
    (hb : noWide st.block = true) (he : ParasNoWide pg.elems) :
    chunkPage tr (guarded sp) toc st pg = chunkPage tr sp toc st pg ∧
      noWide (chunkPage tr sp toc st pg).1.block = true := by
  obtain ⟨s1, b1⟩ := runElems_guard tr sp toc pg.number st _ hb (resolve_paras pg he)
  simp only [chunkPage]
  rw [s1, flush_guard sp pg.number _ b1]
  exact ⟨rfl, flush_block sp pg.number _ b1⟩

theorem chunkPages_guard {σ} (tr : Tracker σ) (sp : Splitter) (toc : List TOCEntry) (st : St σ) (d : List Page)
    (hb : noWide st.block = true) (hd : ∀ pg ∈ d, ParasNoWide pg.elems) :
    chunkPages tr (guarded sp) toc st d = chunkPages tr sp toc st d := by
  induction d generalizing st with
  | nil => rfl
  | cons pg pgs ih =>
    obtain ⟨s1, b1⟩ := chunkPage_guard tr sp toc st pg hb (hd pg (List.mem_cons_self ..))
    simp only [chunkPages]
    rw [s1, ih _ b1 (fun q hq => hd q (List.mem_cons_of_mem _ hq))]

/-- on a document whose paragraphs have ASCII white space only, the chunker never shows the
splitter any other text -/
theorem chunkDocumentWith_guard {σ} (tr : Tracker σ) (sp : Splitter) (d : Doc) (hd : DocNoWide d) :
    chunkDocumentWith tr (guarded sp) d = chunkDocumentWith tr sp d := by
  unfold chunkDocumentWith pageGroups
  rw [chunkPages_guard tr sp _ _ d rfl hd]

end Tabula.ChunkSplit
