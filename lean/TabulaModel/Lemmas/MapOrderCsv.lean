import TabulaModel.Model.MapOrderCsv
import TabulaModel.Lemmas.MapOrder
import TabulaModel.Lemmas.Export
/-! `collectCSVColumns` does not depend on map iteration order or on the sorting algorithm. -/
namespace Tabula.MapOrder
open Tabula.Export
open Tabula.Csv (Str)

theorem isSort_sortStrings : IsSort strLe sortStrings where
  perm l := by
    induction l with
    | nil => exact List.Perm.refl _
    | cons x xs ih =>
      have hins : ∀ (l : List Str), (insertSorted x l).Perm (x :: l) := by
        intro l
        induction l with
        | nil => exact List.Perm.refl _
        | cons y ys ih2 =>
          simp only [insertSorted]
          split
          · exact List.Perm.refl _
          · exact (List.Perm.cons y ih2).trans (List.Perm.swap x y ys)
      exact (hins _).trans (List.Perm.cons x ih)
  sorted l := pairwise_sortStrings l

theorem mem_collectKeysVia {χ : Type} {enum : χ → List Str} {a : Str} {chunks : List χ} {keys : List Str} :
    a ∈ collectKeysVia enum chunks keys ↔
      a ∈ keys ∨ ∃ c ∈ chunks, a ∈ enum c ∧ isStandardColumn a = false := by
  induction chunks generalizing keys with
  | nil => simp [collectKeysVia]
  | cons c cs ih =>
    simp only [collectKeysVia, ih, mem_addKeys, List.mem_cons]
    constructor
    · rintro ((h | h) | ⟨d, hd, h⟩)
      · exact Or.inl h
      · exact Or.inr ⟨c, Or.inl rfl, h⟩
      · exact Or.inr ⟨d, Or.inr hd, h⟩
    · rintro (h | ⟨d, hd | hd, h⟩)
      · exact Or.inl (Or.inl h)
      · subst hd; exact Or.inl (Or.inr h)
      · exact Or.inr ⟨d, hd, h⟩

theorem nodup_collectKeysVia {χ : Type} {enum : χ → List Str} {chunks : List χ} {keys : List Str}
    (h : keys.Nodup) : (collectKeysVia enum chunks keys).Nodup := by
  induction chunks generalizing keys with
  | nil => exact h
  | cons c cs ih => exact ih (nodup_addKeys h)

/-- the collected key set is the same set whatever the per-chunk iteration orders -/
theorem collectKeysVia_perm {χ : Type} (enum₁ enum₂ : χ → List Str) (chunks : List χ)
    (h : ∀ c ∈ chunks, (enum₁ c).Perm (enum₂ c)) :
    (collectKeysVia enum₁ chunks []).Perm (collectKeysVia enum₂ chunks []) := by
  apply (List.perm_ext_iff_of_nodup (nodup_collectKeysVia List.nodup_nil) (nodup_collectKeysVia List.nodup_nil)).mpr
  intro a
  simp only [mem_collectKeysVia, List.not_mem_nil, false_or]
  constructor
  · rintro ⟨c, hc, ha, hs⟩; exact ⟨c, hc, (h c hc).subset ha, hs⟩
  · rintro ⟨c, hc, ha, hs⟩; exact ⟨c, hc, (h c hc).symm.subset ha, hs⟩

theorem collectKeysVia_chunkKeys (cfg : Config) (chunks : List Chunk) (keys : List Str) :
    collectKeysVia (chunkKeys cfg) chunks keys = collectKeys cfg chunks keys := by
  induction chunks generalizing keys with
  | nil => rfl
  | cons c cs ih => simp only [collectKeysVia, collectKeys, ih]

/-- **csv_columns_order_free**: the columns of a CSV/TSV export are the same for every order in
which Go ranges over each chunk's metadata map and over the collected key set, and for every
sorting algorithm behind `sort.Strings` -/
theorem collectCSVColumnsVia_eq (sortS : List Str → List Str) (hS : IsSort strLe sortS) (cfg : Config)
    (chunks : List Chunk) (enum : Chunk → List Str) (itKeys : List Str)
    (henum : ∀ c ∈ chunks, (enum c).Perm (chunkKeys cfg c))
    (hit : itKeys.Perm (collectKeysVia enum chunks [])) :
    collectCSVColumnsVia sortS cfg itKeys = collectCSVColumns cfg chunks := by
  unfold collectCSVColumnsVia collectCSVColumns sortedMetaKeys
  have hp : itKeys.Perm (collectKeys cfg chunks []) := by
    rw [← collectKeysVia_chunkKeys]
    exact hit.trans (collectKeysVia_perm enum (chunkKeys cfg) chunks henum)
  rw [sort_unique (fun a b h1 h2 => strLe_antisymm h1 h2) hS isSort_sortStrings hp]

end Tabula.MapOrder
