import TabulaModel.Lemmas.Chunk
import TabulaModel.Lemmas.ChunkApi
import TabulaModel.Lemmas.ChunkColl
/-!
# Helper lemmas for `Props/C12More.lean`

* the heading stack / `openSpec`: closed headings can be forgotten, depth bounds;
* the page loop: the text block is empty between pages, the table of contents is read per page
  number only.
-/
namespace Tabula.Chunk

/-! ### openSpec -/

theorem all_of_sublist {α} (p : α → Bool) {l₁ l₂ : List α} (h : l₁.Sublist l₂)
    (ha : l₂.all p = true) : l₁.all p = true := by
  rw [List.all_eq_true] at *
  intro x hx
  exact ha x (h.subset hx)

theorem openSpec_of_pairwise (hs : List H) (hp : hs.Pairwise (fun a b => a.1 < b.1)) :
    openSpec hs = hs := by
  induction hs with
  | nil => rfl
  | cons x hs ih =>
    rw [List.pairwise_cons] at hp
    have hall : (hs.all fun r => decide (x.1 < r.1)) = true := by
      rw [List.all_eq_true]
      intro r hr
      exact decide_eq_true (hp.1 r hr)
    simp only [openSpec, hall, if_true, ih hp.2]

theorem openSpec_append_forget (hs ks : List H) :
    openSpec (hs ++ ks) = openSpec (openSpec hs ++ ks) := by
  induction hs with
  | nil => rfl
  | cons x hs ih =>
    by_cases h1 : (hs.all fun r => decide (x.1 < r.1)) = true
    · have h2 : ((openSpec hs).all fun r => decide (x.1 < r.1)) = true :=
        all_of_sublist _ (openSpec_sublist hs) h1
      have e1 : openSpec (x :: hs) = x :: openSpec hs := by simp only [openSpec, h1, if_true]
      rw [e1]
      simp only [List.cons_append, openSpec, List.all_append, h1, h2, Bool.true_and, ih]
    · have e1 : openSpec (x :: hs) = openSpec hs := by simp only [openSpec, h1]; rfl
      rw [e1, ← ih]
      have h3 : ((hs ++ ks).all fun r => decide (x.1 < r.1)) ≠ true := by
        rw [List.all_append]
        intro h
        rw [Bool.and_eq_true] at h
        exact h1 h.1
      simp only [List.cons_append, openSpec, h3]
      rfl

/-- strictly increasing integer levels between `lo` and `hi`: at most `hi - lo + 1` of them -/
theorem pairwise_length_le (l : List H) (lo hi : Int)
    (hp : l.Pairwise (fun a b => a.1 < b.1))
    (hlo : ∀ x ∈ l, lo ≤ x.1) (hhi : ∀ x ∈ l, x.1 ≤ hi) :
    l.length ≤ (hi - lo + 1).toNat := by
  induction l generalizing lo with
  | nil => exact Nat.zero_le _
  | cons x l ih =>
    rw [List.pairwise_cons] at hp
    have h1 := hlo x (List.mem_cons_self ..)
    have h2 := hhi x (List.mem_cons_self ..)
    have := ih (lo + 1) hp.2
      (fun y hy => by have := hp.1 y hy; have := hlo x (List.mem_cons_self ..); omega)
      (fun y hy => hhi y (List.mem_cons_of_mem _ hy))
    simp only [List.length_cons]
    omega

/-! ### the page loop -/

theorem flush_block_nil {σ} (sp : Splitter) (page : Int) (st : St σ) :
    (flush sp page st).1.block = [] := by
  unfold flush
  by_cases h : st.block = []
  · simp [h]
  · simp [h]

theorem chunkPage_block_nil {σ} (tr : Tracker σ) (sp : Splitter) (toc : List TOCEntry)
    (st : St σ) (pg : Page) : (chunkPage tr sp toc st pg).1.block = [] := by
  unfold chunkPage
  exact flush_block_nil sp pg.number _

theorem stateAfter_block_nil {σ} (tr : Tracker σ) (sp : Splitter) (toc : List TOCEntry)
    (st : St σ) (h : st.block = []) (ps : List Page) :
    (stateAfter tr sp toc st ps).block = [] := by
  induction ps generalizing st with
  | nil => exact h
  | cons p ps ih => exact ih _ (chunkPage_block_nil tr sp toc st p)

/-- a page without elements, met with an empty text block, changes nothing -/
theorem chunkPage_empty {σ} (tr : Tracker σ) (sp : Splitter) (toc : List TOCEntry)
    (st : St σ) (h : st.block = []) (pg : Page) (he : pg.elems = []) :
    chunkPage tr sp toc st pg = (st, []) := by
  have hr : resolveRepeatedHeadings pg = [] := by
    unfold resolveRepeatedHeadings
    cases hl : pg.layout with
    | none => exact he
    | some hs => simp only [he, resolveElems]
  unfold chunkPage
  simp only [hr, runElems, flush, h, if_true, List.append_nil]

/-- two tables of contents that answer `isHeadingElement` / `getHeadingLevel` alike on `page` -/
def TocAgree (t1 t2 : List TOCEntry) (page : Int) : Prop :=
  ∀ text, isHeadingElement text t1 page = isHeadingElement text t2 page ∧
    getHeadingLevel text t1 page = getHeadingLevel text t2 page

theorem stepElem_toc {σ} (tr : Tracker σ) (sp : Splitter) (t1 t2 : List TOCEntry) (page : Int)
    (h : TocAgree t1 t2 page) (st : St σ) (e : Elem) :
    stepElem tr sp t1 page st e = stepElem tr sp t2 page st e := by
  cases e with
  | para text => simp only [stepElem, (h text).1, (h text).2]
  | heading l t => rfl
  | list o items => rfl
  | table rows => rfl
  | image alt => rfl

theorem runElems_toc {σ} (tr : Tracker σ) (sp : Splitter) (t1 t2 : List TOCEntry) (page : Int)
    (h : TocAgree t1 t2 page) (st : St σ) (es : List Elem) :
    runElems tr sp t1 page st es = runElems tr sp t2 page st es := by
  induction es generalizing st with
  | nil => rfl
  | cons e es ih => simp only [runElems, stepElem_toc tr sp t1 t2 page h, ih]

theorem chunkPage_toc {σ} (tr : Tracker σ) (sp : Splitter) (t1 t2 : List TOCEntry)
    (st : St σ) (pg : Page) (h : TocAgree t1 t2 pg.number) :
    chunkPage tr sp t1 st pg = chunkPage tr sp t2 st pg := by
  simp only [chunkPage, runElems_toc tr sp t1 t2 pg.number h]

theorem chunkPages_toc {σ} (tr : Tracker σ) (sp : Splitter) (t1 t2 : List TOCEntry)
    (st : St σ) (ps : List Page) (h : ∀ pg ∈ ps, TocAgree t1 t2 pg.number) :
    chunkPages tr sp t1 st ps = chunkPages tr sp t2 st ps := by
  induction ps generalizing st with
  | nil => rfl
  | cons p ps ih =>
    simp only [chunkPages, chunkPage_toc tr sp t1 t2 st p (h p (List.mem_cons_self ..))]
    rw [ih _ (fun pg hpg => h pg (List.mem_cons_of_mem _ hpg))]

theorem tableOfContents_append (d1 d2 : Doc) :
    tableOfContents (d1 ++ d2) = tableOfContents d1 ++ tableOfContents d2 := by
  simp only [tableOfContents, List.flatMap_append]

theorem tableOfContents_page (d : Doc) : ∀ e ∈ tableOfContents d, ∃ pg ∈ d, pg.number = e.page := by
  intro e he
  simp only [tableOfContents, List.mem_flatMap] at he
  obtain ⟨pg, hpg, hin⟩ := he
  refine ⟨pg, hpg, ?_⟩
  cases hl : pg.layout with
  | none => rw [hl] at hin; cases hin
  | some hs =>
    rw [hl] at hin
    simp only [List.mem_map] at hin
    obtain ⟨h, _, rfl⟩ := hin
    rfl

/-- entries of other pages are not read -/
theorem tocAgree_append (t1 t2 : List TOCEntry) (page : Int) (h : ∀ e ∈ t2, e.page ≠ page) :
    TocAgree (t1 ++ t2) t1 page := by
  intro text
  have hf : ∀ e ∈ t2, tocMatches text page e = false := by
    intro e he
    simp only [tocMatches, Bool.and_eq_false_iff]
    left
    simpa using h e he
  have hany : t2.any (tocMatches text page) = false := by
    rw [List.any_eq_false]
    intro e he
    simp [hf e he]
  have hfind : t2.find? (tocMatches text page) = none := by
    rw [List.find?_eq_none]
    intro e he
    simp [hf e he]
  constructor
  · simp only [isHeadingElement, List.any_append, hany, Bool.or_false]
  · simp only [getHeadingLevel, List.find?_append, hfind, Option.or_none]

end Tabula.Chunk

namespace Tabula.Chunk

/-! ### an invariant of the section tracker reaches every chunk -/

/-- `P` holds of every tracker state reached by pushing headings that satisfy `L`; `Q` holds of
the path of such a state -/
structure TrackInv {σ} (tr : Tracker σ) (L : Int → Str → Prop) (P : σ → Prop)
    (Q : List Str → Prop) : Prop where
  init : P tr.init
  push : ∀ s l t, P s → L l t → P (tr.push s l t)
  path : ∀ s, P s → Q (tr.path s)

def StI {σ} (P : σ → Prop) (Q : List Str → Prop) (st : St σ) : Prop :=
  P st.sec ∧ (st.block ≠ [] → Q st.blockPath)

structure StepP {σ} (P : σ → Prop) (Q : List Str → Prop) (r : St σ × List Chunk) : Prop where
  st : StI P Q r.1
  ok : ∀ c ∈ r.2, Q c.path

/-- the headings `stepElem` pushes for the element `e` satisfy `L` -/
def StepL (L : Int → Str → Prop) (toc : List TOCEntry) (page : Int) : Elem → Prop
  | .heading l t => L l t
  | .para text => isHeadingElement text toc page = true → L (getHeadingLevel text toc page) text
  | _ => True

theorem flush_p {σ} (P : σ → Prop) (Q : List Str → Prop) (sp : Splitter) (page : Int) (st : St σ)
    (h : StI P Q st) : StepP P Q (flush sp page st) := by
  unfold flush
  by_cases hb : st.block = []
  · rw [if_pos hb]; exact ⟨h, fun c hc => by cases hc⟩
  · rw [if_neg hb]
    refine ⟨⟨h.1, fun hne => absurd rfl hne⟩, ?_⟩
    intro c hc
    rw [(textBlockToChunks_ok _ _ _ _ _ c hc).2]
    exact h.2 hb

theorem emitOne_p {σ} (P : σ → Prop) (Q : List Str → Prop) (sp : Splitter) (page : Int) (st : St σ)
    (sec : σ) (text : Str) (path : List Str) (h : StI P Q st) (hs : P sec) (hq : Q path) :
    StepP P Q (emitOne sp page st sec text path) := by
  obtain ⟨h1, h2⟩ := flush_p P Q sp page st h
  unfold emitOne
  generalize flush sp page st = r at *
  obtain ⟨st1, cs⟩ := r
  refine ⟨⟨hs, h1.2⟩, ?_⟩
  intro c hc
  rcases List.mem_append.mp hc with hc | hc
  · exact h2 c hc
  · simp only [List.mem_singleton] at hc; subst hc; exact hq

theorem stepElem_p {σ} (tr : Tracker σ) (L : Int → Str → Prop) (P : σ → Prop) (Q : List Str → Prop)
    (hinv : TrackInv tr L P Q) (sp : Splitter) (toc : List TOCEntry) (page : Int) (st : St σ)
    (e : Elem) (h : StI P Q st) (hl : StepL L toc page e) :
    StepP P Q (stepElem tr sp toc page st e) := by
  cases e with
  | heading l t =>
    have hp := hinv.push st.sec l t h.1 hl
    exact emitOne_p P Q sp page st _ _ _ h hp (hinv.path _ hp)
  | list o items => exact emitOne_p P Q sp page st _ _ _ h h.1 (hinv.path _ h.1)
  | table rows => exact emitOne_p P Q sp page st _ _ _ h h.1 (hinv.path _ h.1)
  | image alt =>
    simp only [stepElem]
    split
    · exact flush_p P Q sp page st h
    · exact emitOne_p P Q sp page st _ _ _ h h.1 (hinv.path _ h.1)
  | para t =>
    simp only [stepElem]
    split
    · rename_i hh
      have hp := hinv.push st.sec _ t h.1 (hl hh)
      exact emitOne_p P Q sp page st _ _ _ h hp (hinv.path _ hp)
    · exact ⟨⟨h.1, fun _ => hinv.path _ h.1⟩, fun c hc => by cases hc⟩

theorem runElems_p {σ} (tr : Tracker σ) (L : Int → Str → Prop) (P : σ → Prop) (Q : List Str → Prop)
    (hinv : TrackInv tr L P Q) (sp : Splitter) (toc : List TOCEntry) (page : Int) (st : St σ)
    (es : List Elem) (h : StI P Q st) (hl : ∀ e ∈ es, StepL L toc page e) :
    StepP P Q (runElems tr sp toc page st es) := by
  induction es generalizing st with
  | nil => exact ⟨h, fun c hc => by cases hc⟩
  | cons e es ih =>
    have h1 := stepElem_p tr L P Q hinv sp toc page st e h (hl e (List.mem_cons_self ..))
    have h2 := ih (stepElem tr sp toc page st e).1 h1.st (fun x hx => hl x (List.mem_cons_of_mem _ hx))
    refine ⟨h2.st, ?_⟩
    intro c hc
    simp only [runElems] at hc
    rcases List.mem_append.mp hc with hc | hc
    · exact h1.ok c hc
    · exact h2.ok c hc

theorem chunkPage_p {σ} (tr : Tracker σ) (L : Int → Str → Prop) (P : σ → Prop) (Q : List Str → Prop)
    (hinv : TrackInv tr L P Q) (sp : Splitter) (toc : List TOCEntry) (st : St σ) (pg : Page)
    (h : StI P Q st) (hl : ∀ e ∈ resolveRepeatedHeadings pg, StepL L toc pg.number e) :
    StepP P Q (chunkPage tr sp toc st pg) := by
  have h1 := runElems_p tr L P Q hinv sp toc pg.number st _ h hl
  have h2 := flush_p P Q sp pg.number _ h1.st
  refine ⟨h2.st, ?_⟩
  intro c hc
  simp only [chunkPage] at hc
  rcases List.mem_append.mp hc with hc | hc
  · exact h1.ok c hc
  · exact h2.ok c hc

theorem chunkPages_p {σ} (tr : Tracker σ) (L : Int → Str → Prop) (P : σ → Prop) (Q : List Str → Prop)
    (hinv : TrackInv tr L P Q) (sp : Splitter) (toc : List TOCEntry) (st : St σ) (ps : List Page)
    (h : StI P Q st)
    (hl : ∀ pg ∈ ps, ∀ e ∈ resolveRepeatedHeadings pg, StepL L toc pg.number e) :
    ∀ g ∈ chunkPages tr sp toc st ps, ∀ c ∈ g, Q c.path := by
  induction ps generalizing st with
  | nil => intro g hg; cases hg
  | cons p ps ih =>
    have h1 := chunkPage_p tr L P Q hinv sp toc st p h (hl p (List.mem_cons_self ..))
    intro g hg
    simp only [chunkPages, List.mem_cons] at hg
    rcases hg with rfl | hg
    · exact h1.ok
    · exact ih _ h1.st (fun pg hpg => hl pg (List.mem_cons_of_mem _ hpg)) g hg

/-! ### where the levels come from -/

theorem nthClamped_mem (ls : List Int) (n : Nat) (d : Int) : nthClamped ls n d ∈ ls ∨ nthClamped ls n d = d := by
  induction ls generalizing n d with
  | nil => right; rfl
  | cons l ls ih =>
    cases n with
    | zero => left; simp [nthClamped]
    | succ n =>
      simp only [nthClamped]
      rcases ih n l with h | h
      · left; exact List.mem_cons_of_mem _ h
      · left; rw [h]; exact List.mem_cons_self ..

theorem levelsOf_mem (layout : List (Int × Str)) (key : Str) :
    ∀ l ∈ levelsOf layout key, ∃ h ∈ layout, h.1 = l := by
  intro l hl
  simp only [levelsOf, List.mem_map, List.mem_filter] at hl
  obtain ⟨h, ⟨hm, _⟩, rfl⟩ := hl
  exact ⟨h, hm, rfl⟩

/-- a heading among the resolved elements is a heading of the page, or a paragraph of the page
with a level of the page's layout headings (or 1) -/
theorem resolveElems_heading (layout : List (Int × Str)) (seen : List Str) (es : List Elem)
    (l : Int) (t : Str) (h : Elem.heading l t ∈ resolveElems layout seen es) :
    Elem.heading l t ∈ es ∨ (Elem.para t ∈ es ∧ ((∃ x ∈ layout, x.1 = l) ∨ l = 1)) := by
  induction es generalizing seen with
  | nil => simp [resolveElems] at h
  | cons e es ih =>
    cases e with
    | heading l' t' =>
      simp only [resolveElems, List.mem_cons] at h
      rcases h with h | h
      · left; rw [h]; exact List.mem_cons_self ..
      · rcases ih _ h with h | h
        · left; exact List.mem_cons_of_mem _ h
        · right; exact ⟨List.mem_cons_of_mem _ h.1, h.2⟩
    | para t' =>
      simp only [resolveElems] at h
      split at h
      · simp only [List.mem_cons, reduceCtorEq, false_or] at h
        rcases ih _ h with h | h
        · left; exact List.mem_cons_of_mem _ h
        · right; exact ⟨List.mem_cons_of_mem _ h.1, h.2⟩
      · simp only [List.mem_cons] at h
        rcases h with h | h
        · split at h
          · cases h
          · injection h with h1 h2
            right
            refine ⟨by rw [h2]; exact List.mem_cons_self .., ?_⟩
            rcases nthClamped_mem (levelsOf layout (trim t')) (seen.count (trim t')) 1 with hm | hm
            · left; rw [h1]; exact levelsOf_mem layout _ _ hm
            · right; rw [h1]; exact hm
        · rcases ih _ h with h | h
          · left; exact List.mem_cons_of_mem _ h
          · right; exact ⟨List.mem_cons_of_mem _ h.1, h.2⟩
    | list o items =>
      simp only [resolveElems, List.mem_cons, reduceCtorEq, false_or] at h
      rcases ih _ h with h | h
      · left; exact List.mem_cons_of_mem _ h
      · right; exact ⟨List.mem_cons_of_mem _ h.1, h.2⟩
    | table rows =>
      simp only [resolveElems, List.mem_cons, reduceCtorEq, false_or] at h
      rcases ih _ h with h | h
      · left; exact List.mem_cons_of_mem _ h
      · right; exact ⟨List.mem_cons_of_mem _ h.1, h.2⟩
    | image alt =>
      simp only [resolveElems, List.mem_cons, reduceCtorEq, false_or] at h
      rcases ih _ h with h | h
      · left; exact List.mem_cons_of_mem _ h
      · right; exact ⟨List.mem_cons_of_mem _ h.1, h.2⟩

theorem resolveElems_para (layout : List (Int × Str)) (seen : List Str) (es : List Elem)
    (t : Str) (h : Elem.para t ∈ resolveElems layout seen es) : Elem.para t ∈ es := by
  induction es generalizing seen with
  | nil => simp [resolveElems] at h
  | cons e es ih =>
    cases e with
    | heading l' t' =>
      simp only [resolveElems, List.mem_cons, reduceCtorEq, false_or] at h
      exact List.mem_cons_of_mem _ (ih _ h)
    | para t' =>
      simp only [resolveElems] at h
      split at h
      · simp only [List.mem_cons] at h
        rcases h with h | h
        · rw [h]; exact List.mem_cons_self ..
        · exact List.mem_cons_of_mem _ (ih _ h)
      · simp only [List.mem_cons] at h
        rcases h with h | h
        · split at h
          · rw [h]; exact List.mem_cons_self ..
          · cases h
        · exact List.mem_cons_of_mem _ (ih _ h)
    | list o items =>
      simp only [resolveElems, List.mem_cons, reduceCtorEq, false_or] at h
      exact List.mem_cons_of_mem _ (ih _ h)
    | table rows =>
      simp only [resolveElems, List.mem_cons, reduceCtorEq, false_or] at h
      exact List.mem_cons_of_mem _ (ih _ h)
    | image alt =>
      simp only [resolveElems, List.mem_cons, reduceCtorEq, false_or] at h
      exact List.mem_cons_of_mem _ (ih _ h)

theorem getHeadingLevel_mem (text : Str) (toc : List TOCEntry) (page : Int) :
    (∃ e ∈ toc, e.level = getHeadingLevel text toc page) ∨ getHeadingLevel text toc page = 1 := by
  unfold getHeadingLevel
  cases hf : toc.find? (tocMatches text page) with
  | none => right; rfl
  | some e => left; exact ⟨e, List.mem_of_find?_eq_some hf, rfl⟩

theorem tableOfContents_level (d : Doc) :
    ∀ e ∈ tableOfContents d, ∃ pg ∈ d, ∃ hs, pg.layout = some hs ∧ ∃ h ∈ hs, h.1 = e.level := by
  intro e he
  simp only [tableOfContents, List.mem_flatMap] at he
  obtain ⟨pg, hpg, hin⟩ := he
  refine ⟨pg, hpg, ?_⟩
  cases hl : pg.layout with
  | none => rw [hl] at hin; cases hin
  | some hs =>
    rw [hl] at hin
    simp only [List.mem_map] at hin
    obtain ⟨h, hh, rfl⟩ := hin
    exact ⟨hs, rfl, h, hh, rfl⟩

end Tabula.Chunk

namespace Tabula.ChunkApi
open Tabula.Chunk

/-! ### `updateSectionPath` on every input -/

theorem assumed_map (l : List Str) (c : Int) : (assumedStack l c).map (·.2) = l := by
  induction l generalizing c with
  | nil => rfl
  | cons t r ih => simp only [assumedStack, List.map_cons, ih]

/-- what the `dropWhile` of `pushSection` does on the assumed levels: it drops `cur - lvl + 1`
entries (none when that is negative) -/
theorem assumed_dropWhile (l : List Str) (cur lvl : Int) :
    (assumedStack l cur).dropWhile (fun e => decide (lvl ≤ e.1)) =
      assumedStack (l.drop (cur - lvl + 1).toNat) (cur - ((cur - lvl + 1).toNat : Int)) := by
  induction l generalizing cur with
  | nil => simp [assumedStack]
  | cons t r ih =>
    simp only [assumedStack, List.dropWhile_cons]
    by_cases h : lvl ≤ cur
    · have hk : (cur - lvl + 1).toNat = (cur - 1 - lvl + 1).toNat + 1 := by omega
      simp only [h, decide_true, if_true]
      rw [ih (cur - 1), hk, List.drop_succ_cons]
      congr 1
      omega
    · have hk : (cur - lvl + 1).toNat = 0 := by omega
      simp only [h, decide_false, hk, List.drop_zero, assumedStack]
      simp

theorem update_formula (path : List Str) (cur lvl : Int) (text : Str) :
    updateSectionPath path cur lvl text =
      ((path.reverse.drop (cur - lvl + 1).toNat).reverse ++ [trim text], lvl) := by
  unfold updateSectionPath pushSection
  rw [assumed_dropWhile]
  simp only [List.reverse_cons, List.map_append, List.map_cons, List.map_nil, List.map_reverse,
    assumed_map]

/-- the assumed levels (`c`, `c - 1`, …, innermost first) are at least the true ones -/
def Dom : Int → List H → Prop
  | _, [] => True
  | c, x :: rest => x.1 ≤ c ∧ Dom (c - 1) rest

theorem dom_mono (st : List H) (c c' : Int) (h : c ≤ c') (hd : Dom c st) : Dom c' st := by
  induction st generalizing c c' with
  | nil => trivial
  | cons x r ih => exact ⟨Int.le_trans hd.1 h, ih (c - 1) (c' - 1) (by omega) hd.2⟩

theorem dom_all (st : List H) (c : Int) (hd : Dom c st) : ∀ x ∈ st, x.1 ≤ c := by
  induction st generalizing c with
  | nil => intro x hx; cases hx
  | cons y r ih =>
    intro x hx
    rcases List.mem_cons.mp hx with rfl | hx
    · exact hd.1
    · have := ih (c - 1) hd.2 x hx; omega

theorem dom_drop (st : List H) (c : Int) (k : Nat) (hd : Dom c st) : Dom (c - k) (st.drop k) := by
  induction k generalizing st c with
  | zero => simpa using hd
  | succ k ih =>
    cases st with
    | nil => trivial
    | cons x r =>
      rw [List.drop_succ_cons]
      have := ih r (c - 1) hd.2
      have e : c - 1 - (k : Int) = c - ((k + 1 : Nat) : Int) := by omega
      rwa [e] at this

/-- the invariant of a history of `updateSectionPath` calls, for EVERY history: the path is a
sub-sequence of the chain of enclosing headings -/
theorem runUpdate_sublist (st hist : List H) (cur : Int) (hs : List (Int × Str)) (path : List Str)
    (hpath : path = (st.map (·.2)).reverse) (hd : Dom cur st)
    (hsub : st.reverse.Sublist (openSpec hist)) :
    ((runUpdate path cur hs).1).Sublist ((openSpec (hist ++ trimmed hs)).map (·.2)) := by
  induction hs generalizing st hist cur path with
  | nil =>
    simp only [runUpdate, trimmed, List.map_nil, List.append_nil]
    rw [hpath, ← List.map_reverse]
    exact hsub.map _
  | cons h hs ih =>
    obtain ⟨l, t⟩ := h
    simp only [runUpdate]
    rw [update_formula]
    have hh : hist ++ trimmed ((l, t) :: hs) = (hist ++ [(l, trim t)]) ++ trimmed hs := by
      simp [trimmed]
    rw [hh]
    let k := (cur - l + 1).toNat
    have hdk : Dom (l - 1) (st.drop k) := by
      have := dom_drop st cur k hd
      exact dom_mono _ _ _ (by omega) this
    apply ih ((l, trim t) :: st.drop k) (hist ++ [(l, trim t)]) l
    · rw [hpath, List.reverse_reverse, List.map_cons, List.reverse_cons, List.map_drop]
    · exact ⟨Int.le_refl _, hdk⟩
    · rw [List.reverse_cons, openSpec_snoc]
      apply List.Sublist.append _ (List.Sublist.refl _)
      have hall : ∀ x ∈ (st.drop k).reverse, decide (x.1 < l) = true := by
        intro x hx
        have := dom_all _ _ hdk x (List.mem_reverse.mp hx)
        exact decide_eq_true (by omega)
      rw [← List.filter_eq_self.mpr hall]
      exact (((List.drop_sublist k st).reverse).trans hsub).filter _

end Tabula.ChunkApi

namespace Tabula.Chunk

theorem pagesM_mem (d : List Page) (gs : List (List Chunk)) (h : PagesM d gs) :
    ∀ g ∈ gs, ∀ c ∈ g, ∃ pg ∈ d, c.pageStart = pg.number ∧ c.pageEnd = pg.number := by
  induction d generalizing gs with
  | nil =>
    cases gs with
    | nil => intro g hg; cases hg
    | cons g gs => exact absurd h (by simp [PagesM])
  | cons pg pgs ih =>
    cases gs with
    | nil => exact absurd h (by simp [PagesM])
    | cons g0 gs =>
      obtain ⟨h1, h2⟩ := h
      intro g hg c hc
      rcases List.mem_cons.mp hg with rfl | hg
      · exact ⟨pg, List.mem_cons_self .., h1 c hc⟩
      · obtain ⟨p, hp, e⟩ := ih gs h2 g hg c hc
        exact ⟨p, List.mem_cons_of_mem _ hp, e⟩

end Tabula.Chunk

namespace Tabula.ChunkColl
open Tabula.Chunk Tabula.ChunkMeta

/-! ### `GetPageRange`, `GetTotalTokens`, `GetAllSections` -/

theorem pageRangeLoop_spec (cs : List QChunk) (lo hi : Int) :
    (pageRangeLoop cs lo hi).1 ≤ lo ∧ hi ≤ (pageRangeLoop cs lo hi).2 ∧
    (∀ q ∈ cs, (pageRangeLoop cs lo hi).1 ≤ q.c.pageStart ∧ q.c.pageEnd ≤ (pageRangeLoop cs lo hi).2) ∧
    ((pageRangeLoop cs lo hi).1 = lo ∨ ∃ q ∈ cs, q.c.pageStart = (pageRangeLoop cs lo hi).1) ∧
    ((pageRangeLoop cs lo hi).2 = hi ∨ ∃ q ∈ cs, q.c.pageEnd = (pageRangeLoop cs lo hi).2) := by
  induction cs generalizing lo hi with
  | nil => simp [pageRangeLoop]
  | cons c rest ih =>
    simp only [pageRangeLoop]
    generalize hlo : (if c.c.pageStart < lo then c.c.pageStart else lo) = lo'
    generalize hhi : (if c.c.pageEnd > hi then c.c.pageEnd else hi) = hi'
    have h1 : lo' ≤ lo ∧ lo' ≤ c.c.pageStart ∧ (lo' = lo ∨ lo' = c.c.pageStart) := by
      rw [← hlo]; split <;> omega
    have h2 : hi ≤ hi' ∧ c.c.pageEnd ≤ hi' ∧ (hi' = hi ∨ hi' = c.c.pageEnd) := by
      rw [← hhi]; split <;> omega
    obtain ⟨a1, a2, a3, a4, a5⟩ := ih lo' hi'
    refine ⟨by omega, by omega, ?_, ?_, ?_⟩
    · intro q hq
      rcases List.mem_cons.mp hq with rfl | hq
      · constructor <;> omega
      · exact a3 q hq
    · rcases a4 with a4 | ⟨q, hq, e⟩
      · rcases h1.2.2 with e | e
        · left; omega
        · right; exact ⟨c, List.mem_cons_self .., by omega⟩
      · right; exact ⟨q, List.mem_cons_of_mem _ hq, e⟩
    · rcases a5 with a5 | ⟨q, hq, e⟩
      · rcases h2.2.2 with e | e
        · left; omega
        · right; exact ⟨c, List.mem_cons_self .., by omega⟩
      · right; exact ⟨q, List.mem_cons_of_mem _ hq, e⟩

theorem totalTokens_eq (cs : List QChunk) (t : Int) :
    totalTokens cs t = t + (cs.map (·.tokens)).sum := by
  induction cs generalizing t with
  | nil => simp [totalTokens]
  | cons c rest ih => simp only [totalTokens, ih, List.map_cons, List.sum_cons]; omega

theorem sectionsLoop_mem (cs : List QChunk) (seen acc : List Str) (t : Str) :
    t ∈ sectionsLoop cs seen acc ↔ t ∈ acc ∨ (t ≠ [] ∧ t ∉ seen ∧ ∃ q ∈ cs, q.title = t) := by
  induction cs generalizing seen acc with
  | nil => simp [sectionsLoop]
  | cons c rest ih =>
    simp only [sectionsLoop]
    split
    · rename_i hc
      rw [ih]
      constructor
      · rintro (h | ⟨h1, h2, q, hq, e⟩)
        · rcases List.mem_append.mp h with h | h
          · exact Or.inl h
          · rw [List.mem_singleton] at h
            rw [h]
            exact Or.inr ⟨hc.1, hc.2, c, List.mem_cons_self .., rfl⟩
        · exact Or.inr ⟨h1, fun hs => h2 (List.mem_cons_of_mem _ hs), q, List.mem_cons_of_mem _ hq, e⟩
      · rintro (h | ⟨h1, h2, q, hq, e⟩)
        · exact Or.inl (List.mem_append_left _ h)
        · by_cases ht : t = c.title
          · left; rw [ht]; exact List.mem_append_right _ (List.mem_singleton.mpr rfl)
          · rcases List.mem_cons.mp hq with rfl | hq
            · exact absurd e.symm ht
            · right
              refine ⟨h1, ?_, q, hq, e⟩
              intro hs
              rcases List.mem_cons.mp hs with hs | hs
              · exact ht hs
              · exact h2 hs
    · rename_i hc
      rw [ih]
      constructor
      · rintro (h | ⟨h1, h2, q, hq, e⟩)
        · exact Or.inl h
        · exact Or.inr ⟨h1, h2, q, List.mem_cons_of_mem _ hq, e⟩
      · rintro (h | ⟨h1, h2, q, hq, e⟩)
        · exact Or.inl h
        · rcases List.mem_cons.mp hq with rfl | hq
          · exfalso; apply hc; rw [e]; exact ⟨h1, h2⟩
          · exact Or.inr ⟨h1, h2, q, hq, e⟩

theorem sectionsLoop_nodup (cs : List QChunk) (seen acc : List Str) (h1 : acc.Nodup)
    (h2 : ∀ t ∈ acc, t ∈ seen) : (sectionsLoop cs seen acc).Nodup := by
  induction cs generalizing seen acc with
  | nil => exact h1
  | cons c rest ih =>
    simp only [sectionsLoop]
    split
    · rename_i hc
      apply ih
      · rw [List.nodup_append]
        refine ⟨h1, by simp, ?_⟩
        intro a ha b hb
        rw [List.mem_singleton] at hb
        rw [hb]
        intro e
        exact hc.2 (e ▸ h2 a ha)
      · intro t ht
        rcases List.mem_append.mp ht with ht | ht
        · exact List.mem_cons_of_mem _ (h2 t ht)
        · rw [List.mem_singleton] at ht; rw [ht]; exact List.mem_cons_self ..
    · exact ih _ _ h1 h2

end Tabula.ChunkColl

namespace Tabula.ChunkLayout
open Tabula.Chunk

/-! ### depth of the section paths of the layout-based chunker -/

theorem foldl_inv {α β} (f : β → α → β) (I : β → Prop) (l : List α) (b : β) (hb : I b)
    (hf : ∀ b a, a ∈ l → I b → I (f b a)) : I (l.foldl f b) := by
  induction l generalizing b with
  | nil => exact hb
  | cons a l ih =>
    exact ih (f b a) (hf b a (List.mem_cons_self ..) hb)
      (fun b' a' ha' hb' => hf b' a' (List.mem_cons_of_mem _ ha') hb')

theorem chain_length_le (hist : List H) (m : Int) (h : ∀ x ∈ hist, 1 ≤ x.1 ∧ x.1 ≤ m) :
    (chain hist).length ≤ m.toNat := by
  simp only [chain, List.length_map]
  have hmem : ∀ x ∈ openSpec hist, 1 ≤ x.1 ∧ x.1 ≤ m :=
    fun x hx => h x ((openSpec_sublist hist).subset hx)
  have := pairwise_length_le _ 1 m (openSpec_pairwise hist) (fun x hx => (hmem x hx).1)
    (fun x hx => (hmem x hx).2)
  omega

def LabInv (m : Int) (s : LabSt) : Prop :=
  (∀ x ∈ s.hist, 1 ≤ x.1 ∧ x.1 ≤ m) ∧ ∀ x ∈ s.out, x.2.length ≤ m.toNat

theorem labHeading_inv (cfg : Cfg) (page : Int) (s : LabSt) (h : LHeading) (h1 : 1 ≤ h.level)
    (hi : LabInv cfg.minHeadingLevel s) : LabInv cfg.minHeadingLevel (labHeading cfg page s h) := by
  unfold labHeading
  split
  · rename_i hle
    refine ⟨?_, hi.2⟩
    intro x hx
    simp only [List.mem_append, List.mem_singleton] at hx
    rcases hx with hx | rfl
    · exact hi.1 x hx
    · exact ⟨h1, hle⟩
  · refine ⟨hi.1, ?_⟩
    intro x hx
    simp only [List.mem_append, List.mem_singleton] at hx
    rcases hx with hx | rfl
    · exact hi.2 x hx
    · exact chain_length_le _ _ hi.1

theorem labContent_inv (m : Int) (s : LabSt) (ces : List CE) (hi : LabInv m s) :
    LabInv m (labContent s ces) := by
  refine ⟨hi.1, ?_⟩
  intro x hx
  simp only [labContent, List.mem_append, List.mem_map] at hx
  rcases hx with hx | ⟨ce, _, rfl⟩
  · exact hi.2 x hx
  · exact chain_length_le _ _ hi.1

theorem labPage_inv (cfg : Cfg) (s : LabSt) (pg : LPage)
    (h : ∀ lay, pg.layout = some lay → ∀ hd ∈ lay.headings, 1 ≤ hd.level)
    (hi : LabInv cfg.minHeadingLevel s) : LabInv cfg.minHeadingLevel (labPage cfg s pg) := by
  unfold labPage
  cases hl : pg.layout with
  | none => exact hi
  | some lay =>
    simp only
    apply labContent_inv
    apply labContent_inv
    exact foldl_inv _ _ _ _ hi (fun b a ha hb => labHeading_inv cfg pg.number b a (h lay hl a ha) hb)

theorem labelled_depth (cfg : Cfg) (d : LDoc)
    (h : ∀ pg ∈ d, ∀ lay, pg.layout = some lay → ∀ hd ∈ lay.headings, 1 ≤ hd.level) :
    ∀ x ∈ labelled cfg d, x.2.length ≤ cfg.minHeadingLevel.toNat := by
  have : LabInv cfg.minHeadingLevel (d.foldl (labPage cfg) ⟨[], []⟩) :=
    foldl_inv (labPage cfg) (LabInv cfg.minHeadingLevel) d ⟨[], []⟩
      (And.intro (fun x hx => by cases hx) (fun x hx => by cases hx))
      (fun b a ha hb => labPage_inv cfg b a (h a ha) hb)
  exact this.2

end Tabula.ChunkLayout
