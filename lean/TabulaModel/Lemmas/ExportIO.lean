import TabulaModel.Model.ExportIO
import TabulaModel.Lemmas.ExportApi
/-!
Lemmas about `Model/ExportIO.lean`: the abstract file system, batch numbers of the partition.
-/
set_option linter.unusedSimpArgs false
namespace Tabula.Export
open Tabula.Csv (Str)

/-! ### files -/

theorem fsRead_fsWrite_self (fs : FS) (name data : Str) : fsRead (fsWrite fs name data) name = some data := by
  induction fs with
  | nil => simp [fsWrite, fsRead]
  | cons e rest ih =>
    obtain ⟨n, d⟩ := e
    by_cases h : n = name
    · simp [fsWrite, fsRead, h]
    · simp [fsWrite, fsRead, h, ih]

theorem fsRead_fsWrite_other (fs : FS) (name data n' : Str) (h : n' ≠ name) :
    fsRead (fsWrite fs name data) n' = fsRead fs n' := by
  induction fs with
  | nil =>
    have : ¬ name = n' := fun e => h e.symm
    simp [fsWrite, fsRead, this]
  | cons e rest ih =>
    obtain ⟨n, d⟩ := e
    by_cases hn : n = name
    · subst hn
      have : ¬ n = n' := fun e => h e.symm
      simp [fsWrite, fsRead, this]
    · by_cases hn' : n = n'
      · subst hn'
        simp [fsWrite, fsRead, hn]
      · simp [fsWrite, fsRead, hn, hn', ih]

/-- a sequence of writes under pairwise different names: every file holds what was written to it,
every other name is untouched -/
theorem fsRead_foldl_writes (kvs : List (Str × Str)) (hn : (kvs.map (·.1)).Nodup) (fs : FS) :
    (∀ kv ∈ kvs, fsRead (kvs.foldl (fun f kv => fsWrite f kv.1 kv.2) fs) kv.1 = some kv.2) ∧
    (∀ name, name ∉ kvs.map (·.1) → fsRead (kvs.foldl (fun f kv => fsWrite f kv.1 kv.2) fs) name = fsRead fs name) := by
  induction kvs generalizing fs with
  | nil => simp
  | cons kv rest ih =>
    simp only [List.map_cons, List.nodup_cons] at hn
    obtain ⟨ih1, ih2⟩ := ih hn.2 (fsWrite fs kv.1 kv.2)
    constructor
    · intro x hx
      simp only [List.foldl_cons]
      rcases List.mem_cons.mp hx with e | e
      · subst e
        rw [ih2 x.1 hn.1, fsRead_fsWrite_self]
      · exact ih1 x e
    · intro name hname
      simp only [List.map_cons, List.mem_cons, not_or] at hname
      simp only [List.foldl_cons]
      rw [ih2 name hname.2, fsRead_fsWrite_other _ _ _ _ hname.1]

/-! ### batch numbers -/

/-- batch `k` of the loop started at `i` has number `i / size + k` -/
theorem batchLoop_number {α : Type} (size : Nat) (hs : 0 < size) (chunks : List α) (i k : Nat) (b : Batch α)
    (h : (batchLoop size hs chunks i)[k]? = some b) : b.batchNumber = i / size + k := by
  induction k generalizing i with
  | zero =>
    rw [batchLoop.eq_1] at h
    by_cases hi : i < chunks.length
    · simp only [hi, dite_true, List.getElem?_cons_zero, Option.some.injEq] at h
      rw [← h]; simp
    · simp [hi] at h
  | succ k ih =>
    rw [batchLoop.eq_1] at h
    by_cases hi : i < chunks.length
    · simp only [hi, dite_true, List.getElem?_cons_succ] at h
      have := ih (i + size) h
      rw [this]
      have e : (i + size) / size = i / size + 1 := by
        rw [Nat.add_div_right _ hs]
      omega
    · simp [hi] at h

theorem nodup_map_inj {α β : Type} (f : α → β) (hf : ∀ a b, f a = f b → a = b) :
    ∀ l : List α, l.Nodup → (l.map f).Nodup
  | [], _ => by simp
  | x :: xs, h => by
    simp only [List.nodup_cons] at h
    simp only [List.map_cons, List.nodup_cons, List.mem_map, not_exists, not_and]
    refine ⟨?_, nodup_map_inj f hf xs h.2⟩
    intro y hy e
    have := hf y x e
    subst this
    exact h.1 hy

theorem toI_ok (r : BatchResult) : r.toI = .ok ↔ r = .ok := by
  cases r <;> simp [BatchResult.toI]

end Tabula.Export
