import TabulaModel.Model.XrefResolve
/-!
# The deep value of an object by the file alone: `expand`

`expand g streams b o`: every reference in `o` replaced by the deep value of the object it
names (`g` = the lookup of a fresh reader), `b` levels allowed - a reference and the object it
leads to, a container and its elements are one level apart. No memory of any kind: no shared
results, no set of objects on the way. A reference cycle uses the budget up (`expand_cycle`).
`streams`: whether the dictionary of a stream is resolved too (the resolver package does,
`Reader.ResolveDeep` hands a stream back as it is).

This is the specification the two `ResolveDeep` implementations are measured against
(`Lemmas/XrefDeepReader.lean`, `Lemmas/XrefDeepResolver.lean`).
-/
namespace Tabula.XrefR
open Tabula.Reader (PVal)
open Tabula.XrefFile (Str)

/-- all elements, or nothing -/
def mapOpt (f : DObj → Option DObj) : List DObj → Option (List DObj)
  | [] => some []
  | e :: es =>
    match f e with
    | none => none
    | some e' => (mapOpt f es).map (e' :: ·)

/-- the deep value with `b` levels allowed; a resolved dictionary has its entries in key order -/
def expand (g : Int → Option PVal) (streams : Bool) : Nat → DObj → Option DObj
  | 0, _ => none
  | b + 1, .ref n _ =>
    match g n with
    | none => none
    | some t => expand g streams b (ofPVal t)
  | b + 1, .arr xs => (mapOpt (expand g streams b) xs).map .arr
  | b + 1, .dict kv =>
    (mapOpt (expand g streams b) (kv.map Prod.snd)).map fun ys => .dict (sortKV ((kv.map Prod.fst).zip ys))
  | b + 1, .stream kv data =>
    if streams then
      match expand g streams b (.dict kv) with
      | some (.dict kv') => some (.stream kv' data)
      | _ => none
    else some (.stream kv data)
  | _ + 1, o => some o

theorem expand_stream (g : Int → Option PVal) (streams : Bool) (b : Nat) (kv : List (Str × DObj)) (data : Str) :
    expand g streams (b + 1) (.stream kv data) =
      if streams then
        match expand g streams b (.dict kv) with
        | some (.dict kv') => some (.stream kv' data)
        | _ => none
      else some (.stream kv data) := by
  cases b <;> simp only [expand]

/-- `o'` stands one level below `o` -/
inductive Child (g : Int → Option PVal) (streams : Bool) : DObj → DObj → Prop
  | arr {xs : List DObj} {e : DObj} : e ∈ xs → Child g streams (.arr xs) e
  | dict {kv : List (Str × DObj)} {e : DObj} : e ∈ kv.map Prod.snd → Child g streams (.dict kv) e
  | ref {n gen : Int} {t : PVal} : g n = some t → Child g streams (.ref n gen) (ofPVal t)
  | stream {kv : List (Str × DObj)} {data : Str} : streams = true → Child g streams (.stream kv data) (.dict kv)

/-- `o'` stands one or more levels below `o` -/
inductive Below (g : Int → Option PVal) (streams : Bool) : DObj → DObj → Prop
  | one {o o' : DObj} : Child g streams o o' → Below g streams o o'
  | cons {o o' o'' : DObj} : Child g streams o o' → Below g streams o' o'' → Below g streams o o''

theorem mapOpt_mem {f : DObj → Option DObj} {xs ys : List DObj} (h : mapOpt f xs = some ys) {e : DObj}
    (he : e ∈ xs) : ∃ v, f e = some v := by
  induction xs generalizing ys with
  | nil => cases he
  | cons x xs ih =>
    simp only [mapOpt] at h
    cases hx : f x with
    | none => rw [hx] at h; cases h
    | some x' =>
      rw [hx] at h
      cases hr : mapOpt f xs with
      | none => rw [hr] at h; cases h
      | some r =>
        cases he with
        | head => exact ⟨x', hx⟩
        | tail _ he' => exact ih hr he'

theorem mapOpt_congr {f g : DObj → Option DObj} {xs ys : List DObj} (h : mapOpt f xs = some ys)
    (hfg : ∀ e ∈ xs, ∀ v, f e = some v → g e = some v) : mapOpt g xs = some ys := by
  induction xs generalizing ys with
  | nil => exact h
  | cons x xs ih =>
    simp only [mapOpt] at h ⊢
    cases hx : f x with
    | none => rw [hx] at h; cases h
    | some x' =>
      rw [hx] at h
      rw [hfg x (List.mem_cons_self ..) x' hx]
      cases hr : mapOpt f xs with
      | none => rw [hr] at h; cases h
      | some r =>
        rw [hr] at h
        rw [ih hr (fun e he v hv => hfg e (List.mem_cons_of_mem _ he) v hv)]
        exact h

/-- more levels never change a deep value -/
theorem expand_mono (g : Int → Option PVal) (streams : Bool) :
    ∀ (b : Nat) (o v : DObj), expand g streams b o = some v → expand g streams (b + 1) o = some v := by
  intro b
  induction b using Nat.strongRecOn with
  | _ b ih =>
    intro o v h
    cases b with
    | zero => cases h
    | succ b =>
      cases o with
      | ref n gen =>
        simp only [expand] at h ⊢
        cases hg : g n with
        | none => rw [hg] at h; cases h
        | some t => rw [hg] at h; exact ih b (Nat.lt_succ_self _) _ _ h
      | arr xs =>
        simp only [expand] at h ⊢
        cases hm : mapOpt (expand g streams b) xs with
        | none => rw [hm] at h; cases h
        | some ys =>
          rw [hm] at h
          rw [mapOpt_congr hm (fun e _ v hv => ih b (Nat.lt_succ_self _) e v hv)]
          exact h
      | dict kv =>
        simp only [expand] at h ⊢
        cases hm : mapOpt (expand g streams b) (kv.map Prod.snd) with
        | none => rw [hm] at h; cases h
        | some ys =>
          rw [hm] at h
          rw [mapOpt_congr hm (fun e _ v hv => ih b (Nat.lt_succ_self _) e v hv)]
          exact h
      | stream kv data =>
        rw [expand_stream] at h ⊢
        cases streams with
        | false => exact h
        | true =>
          simp only [if_true] at h ⊢
          cases hd : expand g true b (.dict kv) with
          | none => rw [hd] at h; cases h
          | some d =>
            rw [hd] at h
            rw [ih b (Nat.lt_succ_self _) _ _ hd]
            exact h
      | null => exact h
      | bool _ => exact h
      | int _ => exact h
      | real _ _ _ => exact h
      | str _ => exact h
      | name _ => exact h

theorem expand_mono_le (g : Int → Option PVal) (streams : Bool) (b b' : Nat) (hb : b ≤ b') (o v : DObj)
    (h : expand g streams b o = some v) : expand g streams b' o = some v := by
  induction hb with
  | refl => exact h
  | step _ ih => exact expand_mono g streams _ o v ih

/-- the deep value does not depend on the levels allowed, once they suffice -/
theorem expand_unique (g : Int → Option PVal) (streams : Bool) (b b' : Nat) (o v v' : DObj)
    (h : expand g streams b o = some v) (h' : expand g streams b' o = some v') : v = v' := by
  have h1 := expand_mono_le g streams b (max b b') (Nat.le_max_left _ _) o v h
  have h2 := expand_mono_le g streams b' (max b b') (Nat.le_max_right _ _) o v' h'
  rw [h1] at h2
  exact Option.some.inj h2

/-- what stands one level below a value that expands, expands with one level less -/
theorem expand_child (g : Int → Option PVal) (streams : Bool) (b : Nat) (o o' v : DObj)
    (h : expand g streams (b + 1) o = some v) (hc : Child g streams o o') :
    ∃ v', expand g streams b o' = some v' := by
  cases hc with
  | arr he =>
    simp only [expand] at h
    cases hm : mapOpt (expand g streams b) _ with
    | none => rw [hm] at h; cases h
    | some ys => exact mapOpt_mem hm he
  | dict he =>
    simp only [expand] at h
    cases hm : mapOpt (expand g streams b) _ with
    | none => rw [hm] at h; cases h
    | some ys => exact mapOpt_mem hm he
  | ref hg =>
    simp only [expand, hg] at h
    exact ⟨v, h⟩
  | stream hs =>
    subst hs
    rename_i kv data
    rw [expand_stream] at h
    simp only [if_true] at h
    cases hd : expand g true b (.dict kv) with
    | none => rw [hd] at h; cases h
    | some d => exact ⟨d, rfl⟩

theorem expand_below (g : Int → Option PVal) (streams : Bool) (o o' : DObj) (hb : Below g streams o o') :
    ∀ (b : Nat) (v : DObj), expand g streams b o = some v → ∃ b' v', b' < b ∧ expand g streams b' o' = some v' := by
  induction hb with
  | one hc =>
    intro b v h
    cases b with
    | zero => cases h
    | succ b =>
      obtain ⟨v', hv'⟩ := expand_child g streams b _ _ v h hc
      exact ⟨b, v', Nat.lt_succ_self _, hv'⟩
  | cons hc _ ih =>
    intro b v h
    cases b with
    | zero => cases h
    | succ b =>
      obtain ⟨v', hv'⟩ := expand_child g streams b _ _ v h hc
      obtain ⟨b', v'', hlt, hv''⟩ := ih b v' hv'
      exact ⟨b', v'', by omega, hv''⟩

/-- an object that stands below itself has no deep value, whatever the levels allowed -/
theorem expand_cycle (g : Int → Option PVal) (streams : Bool) (o : DObj) (hc : Below g streams o o) :
    ∀ b, expand g streams b o = none := by
  intro b
  induction b using Nat.strongRecOn with
  | _ b ih =>
    cases h : expand g streams b o with
    | none => rfl
    | some v =>
      obtain ⟨b', v', hlt, hv'⟩ := expand_below g streams o o hc b v h
      rw [ih b' hlt] at hv'
      cases hv'

theorem Below.snoc {g : Int → Option PVal} {streams : Bool} {o o' o'' : DObj} (h : Below g streams o o')
    (hc : Child g streams o' o'') : Below g streams o o'' := by
  induction h with
  | one h1 => exact .cons h1 (.one hc)
  | cons h1 _ ih => exact .cons h1 (ih hc)

end Tabula.XrefR
