import TabulaModel.Lemmas.Layout
/-!
Lemmas about `preserveLayoutGo` (`extractPreserveLayout` after daef69b): what its padding does
not touch (the non-space characters) and how much of it there can be (the two clamps).
-/
namespace Tabula.Layout
open List

/-! ## the clamps -/

theorem plTargetCol_le (cw : Rat) (f : Frag) : plTargetCol cw f ≤ maxCharsPerLine := by
  unfold plTargetCol maxCharsPerLine
  simp only
  split
  · omega
  · split
    · omega
    · omega

theorem gapClamp_bounds (g : Int) :
    1 ≤ (if g < 1 then 1 else if g > ((100 : Nat) : Int) then 100 else g.toNat) ∧
    (if g < 1 then 1 else if g > ((100 : Nat) : Int) then 100 else g.toNat) ≤ 100 := by
  split
  · omega
  · split
    · omega
    · omega

theorem plGapLines_le (lh0 ly : Rat) (ln : List Frag) : plGapLines lh0 ly ln ≤ maxGapLines := by
  unfold plGapLines maxGapLines
  exact (gapClamp_bounds _).2

theorem plGapLines_pos (lh0 ly : Rat) (ln : List Frag) : 1 ≤ plGapLines lh0 ly ln := by
  unfold plGapLines maxGapLines
  exact (gapClamp_bounds _).1

/-! ## the padding is white space -/

theorem nonspace_plLineText (cw : Rat) (col : Nat) (l : List Frag) :
    nonspace (plLineText cw col l) = nonspace (textsOf l) := by
  induction l generalizing col with
  | nil => rfl
  | cons f fs ih =>
    simp only [plLineText]
    split
    · simp only [textsOf_cons, nonspace_append, nonspace_replicate_sp, List.nil_append, ih]
    · simp only [textsOf_cons, nonspace_append, ih]

theorem nonspace_plEmitLines (cw lh0 ly : Rat) (L : List (List Frag)) :
    nonspace (plEmitLines cw lh0 ly L) = nonspace (textsOf L.flatten) := by
  induction L generalizing ly with
  | nil => rfl
  | cons ln rest ih =>
    simp only [plEmitLines, List.flatten_cons, textsOf_append, nonspace_append, nonspace_replicate_nl,
      List.nil_append, nonspace_plLineText, ih]

theorem nonspace_preserveLayoutGo (cw lh0 : Rat) (fs : List Frag) :
    nonspace (preserveLayoutGo cw lh0 fs) = nonspace (textsOf (stableSort plLess fs)) := by
  unfold preserveLayoutGo preserveLayoutSorted
  have hf : (plLines (stableSort plLess fs)).flatten = stableSort plLess fs := by
    unfold plLines
    rw [segment_flatten]
    rfl
  cases hL : plLines (stableSort plLess fs) with
  | nil =>
    rw [hL] at hf
    simp only [List.flatten_nil] at hf
    rw [← hf]
    rfl
  | cons ln rest =>
    rw [hL] at hf
    simp only [nonspace_append, nonspace_plLineText, nonspace_plEmitLines]
    rw [← hf, List.flatten_cons, textsOf_append, nonspace_append]

/-! ## how much padding -/

/-- one line: the blanks written never carry the column counter beyond 200, so a line gets at
most `200 - currentCol` of them (none once the counter has passed 200) -/
theorem plLineText_length (cw : Rat) (col : Nat) (l : List Frag) :
    (plLineText cw col l).length + min col maxCharsPerLine ≤ (textsOf l).length + maxCharsPerLine := by
  induction l generalizing col with
  | nil => simp only [plLineText, textsOf, List.flatMap_nil, List.length_nil]; omega
  | cons f fs ih =>
    have ht := plTargetCol_le cw f
    simp only [plLineText]
    split
    · have := ih (plTargetCol cw f + f.text.length)
      simp only [textsOf_cons, List.length_append, List.length_replicate]
      unfold maxCharsPerLine at *
      omega
    · have := ih (col + f.text.length)
      simp only [textsOf_cons, List.length_append]
      unfold maxCharsPerLine at *
      omega

theorem plLineText_length0 (cw : Rat) (l : List Frag) :
    (plLineText cw 0 l).length ≤ (textsOf l).length + maxCharsPerLine := by
  have := plLineText_length cw 0 l
  omega

theorem plEmitLines_length (cw lh0 ly : Rat) (L : List (List Frag)) :
    (plEmitLines cw lh0 ly L).length ≤
      (textsOf L.flatten).length + (maxGapLines + maxCharsPerLine) * L.length := by
  induction L generalizing ly with
  | nil => simp [plEmitLines, textsOf]
  | cons ln rest ih =>
    have h1 := plGapLines_le lh0 ly ln
    have h2 := plLineText_length0 cw ln
    have h3 := ih (plLineY ln)
    simp only [plEmitLines, List.flatten_cons, textsOf_append, List.length_append, List.length_replicate,
      List.length_cons]
    rw [Nat.mul_succ]
    omega

theorem textsOf_length_perm {a b : List Frag} (h : a.Perm b) : (textsOf a).length = (textsOf b).length := by
  unfold textsOf
  exact (h.flatMap_right _).length_eq

/-- groups of a sweep are non-empty, so there are at most as many as elements -/
theorem length_le_of_nonempty {α : Type} (L : List (List α)) (h : ∀ g ∈ L, g ≠ []) :
    L.length ≤ L.flatten.length := by
  induction L with
  | nil => simp
  | cons g rest ih =>
    have hg : g ≠ [] := h g (by simp)
    have hr := ih (fun g' hg' => h g' (by simp [hg']))
    have : 1 ≤ g.length := by
      cases g with
      | nil => exact absurd rfl hg
      | cons _ _ => simp
    simp only [List.length_cons, List.flatten_cons, List.length_append]
    omega

theorem plLines_flatten (s : List Frag) : (plLines s).flatten = s := by
  unfold plLines
  rw [segment_flatten]
  rfl

theorem plLines_length_le (s : List Frag) : (plLines s).length ≤ s.length := by
  have := length_le_of_nonempty (plLines s) (segment_nonempty plBreak s [])
  rw [plLines_flatten] at this
  exact this

end Tabula.Layout
