import TabulaModel.Lemmas.CMapRoundtrip
/-!
Well-formedness of the items of a rendered CMap program (the hypotheses of the whole-program
round trip) and what each item specifies. Shared by `Lemmas/CMapProgram.lean` (locating the
sections), `Lemmas/CMapSection.lean` (what a section does to the state) and
`Props/C07CMap.lean`.
-/
namespace Tabula.CMap
open Tabula.UTF16

/-- a target text the writer may be given: a non-empty string of Unicode scalar values that
does not start with U+FEFF (tabula takes a leading U+FEFF of a target for a byte-order mark) -/
def TextOK (t : List Nat) : Prop := AllScalar t ∧ t ≠ [] ∧ t.head? ≠ some 0xFEFF

/-- "the last UTF-16 code unit advanced by `k`", at the level of the specification -/
def bumpUnits (us : List Nat) (k : Nat) : List Nat := us.dropLast ++ [us.getLast?.getD 0 + k]

/-- a run fits the code width and every text is a target text -/
def RunOK (w : Nat) (r : Run) : Prop :=
  r.texts ≠ [] ∧ r.lo + r.texts.length ≤ 256 ^ w ∧ ∀ t ∈ r.texts, TextOK t

/-- the texts of a run written as `<lo> <hi> <text0>`: text `i` is text 0 with its last
UTF-16 code unit advanced by `i` (the CMap rule for bfrange with a string target) -/
def RunOffsetOK (r : Run) : Prop :=
  ∀ i t, r.texts[i]? = some t → encodeUnits t = bumpUnits (encodeUnits (r.texts.headD [])) i

def ItemOK (w : Nat) : Item → Prop
  | .char c t => c < 256 ^ w ∧ TextOK t
  | .offset r => RunOK w r ∧ RunOffsetOK r
  | .array r => RunOK w r

/-- the item belongs in a section of the kind -/
def Item.fits : Kind → Item → Prop
  | .bfchar, .char _ _ => True
  | .bfrange, .offset _ => True
  | .bfrange, .array _ => True
  | _, _ => False

/-- a section whose items are well formed and of its kind -/
def SectionOK (w : Nat) (s : Section) : Prop := ∀ it ∈ s.items, ItemOK w it ∧ it.fits s.kind

/-- the direct (`charMappings`) entries an item defines, in the order they are stored -/
def Item.chars : Item → List (Nat × List Nat)
  | .char c t => [(c, t)]
  | .offset _ => []
  | .array r => r.entries

/-- the `CMapRange` a `<lo> <hi> <text0>` item becomes: a one-unit target is kept as a
number, a longer one as its UTF-16 code units -/
def Run.range (r : Run) : Range :=
  match encodeUnits (r.texts.headD []) with
  | [u] => ⟨r.lo, r.hi, u, []⟩
  | us => ⟨r.lo, r.hi, 0, us⟩

/-- the ranges an item appends -/
def Item.ranges : Item → List Range
  | .offset r => [r.range]
  | _ => []

/-- the code→text entries an item specifies -/
def Item.entries : Item → List (Nat × List Nat)
  | .char c t => [(c, t)]
  | .offset r => r.entries
  | .array r => r.entries

example : ItemOK 1 (.offset ⟨0x41, [[0x66, 0x61], [0x66, 0x62], [0x66, 0x63]]⟩) ∧
    ItemOK 2 (.array ⟨0xFFFE, [[0x1D400], [0x65, 0x301]]⟩) ∧ ItemOK 1 (.char 0xFF [0x1D400]) := by
  refine ⟨⟨⟨by simp, by simp, ?_⟩, ?_⟩, ⟨by simp, by simp, ?_⟩, by simp, ?_⟩
  · intro t ht
    simp only [List.mem_cons, List.mem_nil_iff, or_false] at ht
    rcases ht with rfl | rfl | rfl <;>
      exact ⟨by intro x hx; simp at hx; rcases hx with rfl | rfl <;> (unfold IsScalar; omega), by simp, by simp⟩
  · intro i t hi
    match i, hi with
    | 0, hi => simp at hi; subst hi; decide
    | 1, hi => simp at hi; subst hi; decide
    | 2, hi => simp at hi; subst hi; decide
    | n + 3, hi => simp at hi
  · intro t ht
    simp only [List.mem_cons, List.mem_nil_iff, or_false] at ht
    rcases ht with rfl | rfl
    · exact ⟨by intro x hx; simp at hx; subst hx; unfold IsScalar; omega, by simp, by simp⟩
    · exact ⟨by intro x hx; simp at hx; rcases hx with rfl | rfl <;> (unfold IsScalar; omega), by simp, by simp⟩
  · exact ⟨by intro x hx; simp at hx; subst hx; unfold IsScalar; omega, by simp, by simp⟩

end Tabula.CMap
