import TabulaModel.Lemmas.MarkdownDoc
/-!
The preamble of `MarkdownWithRAGOptions` (YAML front matter, generated table of contents) as
blocks of lines the reading spec skips.
-/
namespace Tabula.MarkdownDoc
open Tabula.A1 (Str dec decInt)
open Tabula.Markdown

/-- what the theorems need of the external functions: `%q` output has no raw newline (strconv
escapes it), `strings.ToLower` does not introduce one -/
structure ExtOK (ext : Ext) : Prop where
  quoteNl : ∀ s, 10 ∉ ext.quote s
  lowerNl : ∀ s, 10 ∉ s → 10 ∉ ext.lower s

/-- `"keywords:"` -/
def sKeywordsLine : Str := [107, 101, 121, 119, 111, 114, 100, 115, 58]

def kvLines (ext : Ext) (key val : Str) : List Str := if val.isEmpty then [] else [key ++ ext.quote val]

theorem kvLine_lines (ext : Ext) (key val : Str) : kvLine ext key val = joinLines (kvLines ext key val) := by
  unfold kvLine kvLines
  split <;> simp [joinLines]

/-- the lines between the two `---` of the docx / odt front matter -/
def fmLinesDoc (ext : Ext) (m : Meta) : List Str :=
  kvLines ext sTitle m.title ++ kvLines ext sAuthor m.author ++ kvLines ext sSubject m.subject
    ++ (if m.keywords.isEmpty then [] else sKeywordsLine :: m.keywords.map fun k => [32, 32, 45, 32] ++ ext.quote k)
    ++ kvLines ext sGenerator m.creator

theorem frontMatterDoc_lines (ext : Ext) (m : Meta) :
    frontMatterDoc ext m = joinLines (fmBlock (fmLinesDoc ext m)) := by
  unfold frontMatterDoc fmBlock fmLinesDoc
  simp only [kvLine_lines, joinLines_cons, joinLines_append]
  have hk : (if m.keywords.isEmpty = true then ([] : Str) else
        sKeywordsNl ++ m.keywords.flatMap fun k => [32, 32, 45, 32] ++ ext.quote k ++ [10])
      = joinLines (if m.keywords.isEmpty = true then [] else
          sKeywordsLine :: m.keywords.map fun k => [32, 32, 45, 32] ++ ext.quote k) := by
    split
    · rfl
    · rw [joinLines_cons]
      have : (m.keywords.flatMap fun k => [32, 32, 45, 32] ++ ext.quote k ++ [10])
          = joinLines (m.keywords.map fun k => [32, 32, 45, 32] ++ ext.quote k) := by
        unfold joinLines
        exact flatMap_lines _ _
      rw [this]
      simp [sKeywordsNl, sKeywordsLine]
  rw [hk]
  simp [sFmOpen, sFmClose, hrLine, joinLines]

theorem kvLines_props (ext : Ext) (hext : ExtOK ext) (key val : Str) (hk : 10 ∉ key)
    (hk2 : ∃ c r, key = c :: r ∧ c ≠ 45) :
    ∀ l ∈ kvLines ext key val, 10 ∉ l ∧ l ≠ hrLine := by
  intro l hl
  unfold kvLines at hl
  split at hl
  · simp at hl
  · simp only [List.mem_singleton] at hl
    subst hl
    obtain ⟨c, r, hcr, hc⟩ := hk2
    refine ⟨?_, ?_⟩
    · intro h
      rcases List.mem_append.mp h with h | h
      · exact hk h
      · exact hext.quoteNl _ h
    · rw [hcr]
      intro e
      simp only [hrLine, List.cons_append, List.cons.injEq] at e
      exact hc e.1

theorem fmLinesDoc_props (ext : Ext) (hext : ExtOK ext) (m : Meta) :
    ∀ l ∈ fmLinesDoc ext m, 10 ∉ l ∧ l ≠ hrLine := by
  intro l hl
  unfold fmLinesDoc at hl
  simp only [List.mem_append] at hl
  rcases hl with (((hl | hl) | hl) | hl) | hl
  · exact kvLines_props ext hext sTitle _ (by decide) ⟨116, _, rfl, by decide⟩ l hl
  · exact kvLines_props ext hext sAuthor _ (by decide) ⟨97, _, rfl, by decide⟩ l hl
  · exact kvLines_props ext hext sSubject _ (by decide) ⟨115, _, rfl, by decide⟩ l hl
  · split at hl
    · simp at hl
    · rcases List.mem_cons.mp hl with rfl | hl
      · exact ⟨by decide, by decide⟩
      · rcases List.mem_map.mp hl with ⟨k, _, rfl⟩
        refine ⟨?_, by simp [hrLine]⟩
        intro h
        rcases List.mem_append.mp h with h | h
        · simp at h
        · exact hext.quoteNl _ h
  · exact kvLines_props ext hext sGenerator _ (by decide) ⟨103, _, rfl, by decide⟩ l hl

/-! ### the bullet TOC of docx / odt / rag -/

/-- a TOC entry line without its `\n` -/
def tocBulletLine (level : Int) (text anchor : Str) : Str :=
  List.replicate (2 * (level - 1).toNat) 32 ++ [45, 32, 91] ++ text ++ [93, 40, 35] ++ anchor ++ [41]

theorem tocBullet_line (level : Int) (text anchor : Str) :
    tocBullet level text anchor = tocBulletLine level text anchor ++ [10] := by
  simp [tocBullet, tocBulletLine]

def tocLinesOfHeadings (ext : Ext) (hs : List (Int × Str)) : List Str :=
  [] :: (hs.map fun h => tocBulletLine h.1 h.2 (anchorLowerFirst ext h.2)) ++ [[]]

theorem tocOfHeadings_lines (ext : Ext) (hs : List (Int × Str)) (hne : hs ≠ []) :
    tocOfHeadings ext hs = joinLines (tocBlock (tocLinesOfHeadings ext hs)) := by
  unfold tocOfHeadings tocBlock tocLinesOfHeadings
  have : hs.isEmpty = false := by
    cases hs with
    | nil => exact absurd rfl hne
    | cons a b => rfl
  simp only [this, Bool.false_eq_true, if_false]
  have e : (hs.flatMap fun h => tocBullet h.1 h.2 (anchorLowerFirst ext h.2))
      = joinLines (hs.map fun h => tocBulletLine h.1 h.2 (anchorLowerFirst ext h.2)) := by
    unfold joinLines
    rw [← flatMap_lines]
    congr 1
    funext h
    exact tocBullet_line _ _ _
  rw [e]
  simp [sTocHead, sTocEnd, hrLine, joinLines]

theorem replaceByte_noNl (o : Nat) (n s : Str) (hn : 10 ∉ n) (hs : 10 ∉ s) : 10 ∉ replaceByte o n s := by
  intro h
  rcases mem_replaceByte _ _ _ _ h with h1 | h1
  · exact hn h1
  · exact hs h1.1

theorem tocBulletLine_props (level : Int) (text anchor : Str) (ht : 10 ∉ text) (ha : 10 ∉ anchor) :
    10 ∉ tocBulletLine level text anchor ∧ tocBulletLine level text anchor ≠ hrLine := by
  refine ⟨?_, ?_⟩
  · unfold tocBulletLine
    intro h
    simp only [List.mem_append] at h
    rcases h with ((((h | h) | h) | h) | h) | h
    · have := List.eq_of_mem_replicate h; omega
    · simp at h
    · exact ht h
    · simp at h
    · exact ha h
    · simp at h
  · unfold tocBulletLine
    cases hk : 2 * (level - 1).toNat with
    | zero => simp [hrLine]
    | succ k => simp [hrLine, List.replicate_succ]

theorem tocLinesOfHeadings_props (ext : Ext) (hext : ExtOK ext) (hs : List (Int × Str))
    (hnl : ∀ h ∈ hs, 10 ∉ h.2) :
    ∀ l ∈ tocLinesOfHeadings ext hs, 10 ∉ l ∧ l ≠ hrLine := by
  intro l hl
  unfold tocLinesOfHeadings at hl
  rcases List.mem_cons.mp hl with rfl | hl
  · simp [hrLine]
  · rcases List.mem_append.mp hl with hl | hl
    · rcases List.mem_map.mp hl with ⟨h, hh, rfl⟩
      exact tocBulletLine_props _ _ _ (hnl h hh)
        (replaceByte_noNl _ _ _ (by simp) (hext.lowerNl _ (hnl h hh)))
    · simp only [List.mem_singleton] at hl
      subst hl; simp [hrLine]

/-- the preamble of docx / odt as the two optional blocks -/
def docPreambleLines (ext : Ext) (o : MdOpts) (m : Meta) (hs : List (Int × Str)) : List Str :=
  optBlock fmBlock (if o.meta then some (fmLinesDoc ext m) else none) ++
  optBlock tocBlock (if o.toc && !hs.isEmpty then some (tocLinesOfHeadings ext hs) else none)

theorem docPreamble_lines (ext : Ext) (o : MdOpts) (m : Meta) (hs : List (Int × Str)) :
    docPreamble ext o m hs = joinLines (docPreambleLines ext o m hs) := by
  unfold docPreamble docPreambleLines
  rw [joinLines_append]
  congr 1
  · cases o.meta
    · rfl
    · simp only [if_true, optBlock]; exact frontMatterDoc_lines ext m
  · cases o.toc
    · rfl
    · cases hs with
      | nil => rfl
      | cons a b =>
        simp only [Bool.true_and, List.isEmpty_cons, Bool.not_false, if_true, optBlock]
        exact tocOfHeadings_lines ext (a :: b) (by simp)

theorem fmBlock_props (fm : List Str) (h : ∀ l ∈ fm, 10 ∉ l) : ∀ l ∈ fmBlock fm, 10 ∉ l := by
  intro l hl
  unfold fmBlock at hl
  rcases List.mem_cons.mp hl with rfl | hl
  · decide
  · rcases List.mem_append.mp hl with hl | hl
    · exact h l hl
    · simp only [List.mem_cons, List.not_mem_nil, or_false] at hl
      rcases hl with rfl | rfl <;> decide

theorem tocBlock_props (toc : List Str) (h : ∀ l ∈ toc, 10 ∉ l) : ∀ l ∈ tocBlock toc, 10 ∉ l := by
  intro l hl
  unfold tocBlock at hl
  rcases List.mem_cons.mp hl with rfl | hl
  · decide
  · rcases List.mem_append.mp hl with hl | hl
    · exact h l hl
    · simp only [List.mem_cons, List.not_mem_nil, or_false] at hl
      rcases hl with rfl | rfl <;> decide

theorem docPreambleLines_noNl (ext : Ext) (hext : ExtOK ext) (o : MdOpts) (m : Meta) (hs : List (Int × Str))
    (hnl : ∀ h ∈ hs, 10 ∉ h.2) : ∀ l ∈ docPreambleLines ext o m hs, 10 ∉ l := by
  intro l hl
  unfold docPreambleLines at hl
  rcases List.mem_append.mp hl with hl | hl
  · cases hm : o.meta
    · simp [hm, optBlock] at hl
    · simp only [hm, if_true, optBlock] at hl
      exact fmBlock_props _ (fun x hx => (fmLinesDoc_props ext hext m x hx).1) l hl
  · cases hc : (o.toc && !hs.isEmpty)
    · simp [hc, optBlock] at hl
    · simp only [hc, if_true, optBlock] at hl
      exact tocBlock_props _ (fun x hx => (tocLinesOfHeadings_props ext hext hs hnl x hx).1) l hl

theorem docPreambleLines_head (ext : Ext) (o : MdOpts) (m : Meta) (hs : List (Int × Str)) (L : List Str) :
    (docPreambleLines ext o m hs ++ L).head? = some [] → docPreambleLines ext o m hs = [] := by
  unfold docPreambleLines
  cases hm : o.meta
  · cases hc : (o.toc && !hs.isEmpty)
    · simp [optBlock]
    · simp [optBlock, tocBlock, tocTitle]
  · simp [optBlock, fmBlock, hrLine]

/-- a builder holding the docx / odt preamble and then body lines, trimmed, reads as the body -/
theorem readMd_docPreamble (ext : Ext) (hext : ExtOK ext) (o : MdOpts) (m : Meta) (hs : List (Int × Str))
    (hnl : ∀ h ∈ hs, 10 ∉ h.2) (L : List Str) (hL : ∀ l ∈ L, 10 ∉ l) (hhr : hrLine ∉ L) (htt : tocTitle ∉ L) :
    readMd (trimNl (docPreamble ext o m hs ++ joinLines L)) = readLines L := by
  rw [docPreamble_lines, ← joinLines_append]
  rw [readMd_trimNl_joinLines]
  · unfold docPreambleLines
    rw [List.append_assoc]
    apply readLines_preamble
    · intro f hf
      cases hm : o.meta
      · simp [hm] at hf
      · simp only [hm, if_true, Option.some.injEq] at hf
        subst hf
        exact fun h => (fmLinesDoc_props ext hext m _ h).2 rfl
    · intro t ht
      cases hc : (o.toc && !hs.isEmpty)
      · simp [hc] at ht
      · simp only [hc, if_true, Option.some.injEq] at ht
        subst ht
        exact fun h => (tocLinesOfHeadings_props ext hext hs hnl _ h).2 rfl
    · intro h
      cases hLL : L with
      | nil => rw [hLL] at h; simp at h
      | cons a b =>
        rw [hLL] at h
        simp only [List.head?_cons, Option.some.injEq] at h
        exact hhr (by rw [hLL, h]; simp)
    · exact htt
  · intro l hl
    rcases List.mem_append.mp hl with hl | hl
    · exact docPreambleLines_noNl ext hext o m hs hnl l hl
    · exact hL l hl
  · intro hh
    have := docPreambleLines_head ext o m hs L hh
    rw [this]
    simpa using hhr

/-! ### htmldoc: front matter and numbered TOC -/

def kvOptLines (ext : Ext) (key : Str) : Option Str → List Str
  | some v => [key ++ ext.quote v]
  | none => []

theorem kvOpt_lines (ext : Ext) (key : Str) (v : Option Str) : kvOpt ext key v = joinLines (kvOptLines ext key v) := by
  cases v <;> simp [kvOpt, kvOptLines, joinLines]

def fmLinesHtml (ext : Ext) (m : HMeta) : List Str :=
  kvLines ext sTitle m.title ++ kvOptLines ext sAuthor m.author ++ kvOptLines ext sDescription m.description
    ++ kvOptLines ext sKeywords m.keywords

theorem htmlFrontMatter_lines (ext : Ext) (m : HMeta) :
    htmlFrontMatter ext m = joinLines (fmBlock (fmLinesHtml ext m)) := by
  unfold htmlFrontMatter fmBlock fmLinesHtml
  simp only [kvLine_lines, kvOpt_lines, joinLines_cons, joinLines_append]
  simp [sFmOpen, sFmClose, hrLine, joinLines]

theorem kvOptLines_props (ext : Ext) (hext : ExtOK ext) (key : Str) (v : Option Str) (hk : 10 ∉ key)
    (hk2 : ∃ c r, key = c :: r ∧ c ≠ 45) :
    ∀ l ∈ kvOptLines ext key v, 10 ∉ l ∧ l ≠ hrLine := by
  intro l hl
  cases v with
  | none => simp [kvOptLines] at hl
  | some x =>
    simp only [kvOptLines, List.mem_singleton] at hl
    subst hl
    obtain ⟨c, r, hcr, hc⟩ := hk2
    refine ⟨?_, ?_⟩
    · intro h
      rcases List.mem_append.mp h with h | h
      · exact hk h
      · exact hext.quoteNl _ h
    · rw [hcr]
      intro e
      simp only [hrLine, List.cons_append, List.cons.injEq] at e
      exact hc e.1

theorem fmLinesHtml_props (ext : Ext) (hext : ExtOK ext) (m : HMeta) :
    ∀ l ∈ fmLinesHtml ext m, 10 ∉ l ∧ l ≠ hrLine := by
  intro l hl
  unfold fmLinesHtml at hl
  simp only [List.mem_append] at hl
  rcases hl with ((hl | hl) | hl) | hl
  · exact kvLines_props ext hext sTitle _ (by decide) ⟨116, _, rfl, by decide⟩ l hl
  · exact kvOptLines_props ext hext sAuthor _ (by decide) ⟨97, _, rfl, by decide⟩ l hl
  · exact kvOptLines_props ext hext sDescription _ (by decide) ⟨100, _, rfl, by decide⟩ l hl
  · exact kvOptLines_props ext hext sKeywords _ (by decide) ⟨107, _, rfl, by decide⟩ l hl

def tocNumberedLine (n : Nat) (text anchor : Str) : Str :=
  dec n ++ [46, 32, 91] ++ text ++ [93, 40, 35] ++ anchor ++ [41]

theorem tocNumbered_line (n : Nat) (text anchor : Str) :
    tocNumbered n text anchor = tocNumberedLine n text anchor ++ [10] := by
  simp [tocNumbered, tocNumberedLine]

def tocNumberedLinesFrom (ext : Ext) : Nat → List Str → List Str
  | _, [] => []
  | k, t :: ts => tocNumberedLine (k + 1) t (anchorReplaceFirst ext t) :: tocNumberedLinesFrom ext (k + 1) ts

theorem tocNumberedFrom_lines (ext : Ext) (ts : List Str) :
    ∀ k, tocNumberedFrom ext k ts = joinLines (tocNumberedLinesFrom ext k ts) := by
  induction ts with
  | nil => intro k; rfl
  | cons t ts ih =>
    intro k
    simp only [tocNumberedFrom, tocNumberedLinesFrom, joinLines_cons, ih, tocNumbered_line]
    simp

theorem tocNumberedLine_props (n : Nat) (text anchor : Str) (ht : 10 ∉ text) (ha : 10 ∉ anchor) :
    10 ∉ tocNumberedLine n text anchor ∧ tocNumberedLine n text anchor ≠ hrLine := by
  obtain ⟨d, ds, hdec, hd1, hd2⟩ := Tabula.A1.dec_head n
  refine ⟨?_, ?_⟩
  · unfold tocNumberedLine
    intro h
    simp only [List.mem_append] at h
    rcases h with ((((h | h) | h) | h) | h) | h
    · have := dec_digits n 10 h; simp [isDigit] at this
    · simp at h
    · exact ht h
    · simp at h
    · exact ha h
    · simp at h
  · unfold tocNumberedLine
    rw [hdec]
    simp only [hrLine, List.cons_append, ne_eq, List.cons.injEq, not_and]
    intro e; omega

theorem tocNumberedLinesFrom_props (ext : Ext) (hext : ExtOK ext) (ts : List Str) (hnl : ∀ t ∈ ts, 10 ∉ t) :
    ∀ k, ∀ l ∈ tocNumberedLinesFrom ext k ts, 10 ∉ l ∧ l ≠ hrLine := by
  induction ts with
  | nil => intro k l hl; simp [tocNumberedLinesFrom] at hl
  | cons t ts ih =>
    intro k l hl
    simp only [tocNumberedLinesFrom, List.mem_cons] at hl
    rcases hl with rfl | hl
    · exact tocNumberedLine_props _ _ _ (hnl t (by simp))
        (hext.lowerNl _ (replaceByte_noNl _ _ _ (by simp) (hnl t (by simp))))
    · exact ih (fun x hx => hnl x (List.mem_cons_of_mem _ hx)) (k + 1) l hl

/-- the preamble of htmldoc as the two optional blocks -/
def htmlPreambleLines (ext : Ext) (o : MdOpts) (m : HMeta) (els : List HElem) : List Str :=
  optBlock fmBlock (if o.meta then some (fmLinesHtml ext m) else none) ++
  optBlock tocBlock (if o.toc && decide ((htmlHeadingTexts els).length > 1) then
    some ([] :: tocNumberedLinesFrom ext 0 (htmlHeadingTexts els) ++ [[]]) else none)

theorem htmlPreamble_lines (ext : Ext) (o : MdOpts) (m : HMeta) (els : List HElem) :
    (if o.meta then htmlFrontMatter ext m else []) ++ (if o.toc then htmlToc ext els else [])
      = joinLines (htmlPreambleLines ext o m els) := by
  unfold htmlPreambleLines
  rw [joinLines_append]
  congr 1
  · cases o.meta
    · rfl
    · simp only [if_true, optBlock]; exact htmlFrontMatter_lines ext m
  · cases o.toc
    · rfl
    · simp only [if_true, Bool.true_and, htmlToc]
      by_cases hlen : (htmlHeadingTexts els).length > 1
      · simp only [hlen, if_true, decide_true, optBlock, tocBlock, tocNumberedFrom_lines]
        simp [sTocHead, sTocEnd, hrLine, joinLines]
      · simp [hlen, optBlock, joinLines]

end Tabula.MarkdownDoc
