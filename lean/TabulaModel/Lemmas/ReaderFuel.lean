import TabulaModel.Lemmas.ReaderBounds
/-!
# The fuel of the page-tree walk does not matter

`Reader.buildNode` / `buildKids` carry a fuel argument only to make the recursion structural.
Here: an answer other than `fuel` stays the same under any larger fuel (`build_mono`), hence two
fuels that are both enough give the same answer (`readWith_fuel_irrelevant`). With
`ReaderBounds.build_fuel` (enough fuel = twice the number of object numbers the resolver knows,
plus two) this removes every "same fuel" side condition between two files that store the same
objects under different layouts (their cross-reference tables have different largest keys).
-/
namespace Tabula.Reader
open Tabula.Pdf (Obj)

theorem build_mono_step (res : Res) : ∀ fuel,
    (∀ dep vis d, buildNode res fuel dep vis d ≠ .error .fuel →
      buildNode res (fuel + 1) dep vis d = buildNode res fuel dep vis d) ∧
    (∀ dep vis ks, buildKids res fuel dep vis ks ≠ .error .fuel →
      buildKids res (fuel + 1) dep vis ks = buildKids res fuel dep vis ks) := by
  intro fuel
  induction fuel with
  | zero =>
    constructor
    · intro dep vis d h; exact absurd (by simp [buildNode]) h
    · intro dep vis ks h; exact absurd (by simp [buildKids]) h
  | succ fuel ih =>
    constructor
    · intro dep vis d
      simp only [buildNode]
      repeat' first
        | (intro _; rfl)
        | (intro hne; rw [ih.2 _ _ _ (fun hc => by rw [hc] at hne; exact hne rfl)])
        | split
    · intro dep vis ks
      cases ks with
      | nil => intro _; simp [buildKids]
      | cons k ks =>
        simp only [buildKids]
        repeat' first
          | (intro _; rfl)
          | (intro hne
             rw [ih.1 _ _ _ (fun hc => by rw [hc] at hne; exact hne rfl)]
             revert hne
             split
             · intro _; rfl
             · intro hne; rw [ih.2 _ _ _ (fun hc => by rw [hc] at hne; exact hne rfl)])
          | split

/-- an answer of `buildNode` other than `fuel` is the answer under every larger fuel -/
theorem buildNode_mono (res : Res) (fuel k dep : Nat) (vis : List Nat) (d : Dict)
    (h : buildNode res fuel dep vis d ≠ .error .fuel) :
    buildNode res (fuel + k) dep vis d = buildNode res fuel dep vis d := by
  induction k with
  | zero => rfl
  | succ k ih =>
    have h2 : buildNode res (fuel + k) dep vis d ≠ .error .fuel := by rw [ih]; exact h
    rw [← Nat.add_assoc, (build_mono_step res (fuel + k)).1 _ _ _ h2, ih]

/-- an answer of the page-tree walk other than `fuel` is the answer under every larger fuel -/
theorem pageTree_mono (res : Res) (fuel k : Nat) (root : Option Nat)
    (h : pageTree res fuel root ≠ .error .fuel) :
    pageTree res (fuel + k) root = pageTree res fuel root := by
  revert h
  unfold pageTree
  repeat' first
    | (intro _; rfl)
    | (intro hne; rw [buildNode_mono res fuel k _ _ _ (fun hc => by rw [hc] at hne; exact hne rfl)])
    | split

theorem readWith_mono (res : Res) (ext : Ext) (fuel k : Nat) (root : Option Nat)
    (h : readWith res ext fuel root ≠ .error .fuel) :
    readWith res ext (fuel + k) root = readWith res ext fuel root := by
  unfold readWith at h ⊢
  rw [pageTree_mono res fuel k root (fun hc => by rw [hc] at h; exact h rfl)]

/-- **the fuel is irrelevant**: two fuels under which the reader does not answer `fuel` give the
same answer -/
theorem readWith_fuel_irrelevant (res : Res) (ext : Ext) (fuel fuel' : Nat) (root : Option Nat)
    (h : readWith res ext fuel root ≠ .error .fuel) (h' : readWith res ext fuel' root ≠ .error .fuel) :
    readWith res ext fuel root = readWith res ext fuel' root := by
  by_cases hle : fuel ≤ fuel'
  · obtain ⟨k, rfl⟩ := Nat.exists_eq_add_of_le hle
    exact (readWith_mono res ext fuel k root h).symm
  · obtain ⟨k, rfl⟩ := Nat.exists_eq_add_of_le (Nat.le_of_not_le hle)
    exact readWith_mono res ext fuel' k root h'

/-- enough fuel for any resolver that knows no object number above `K` and never answers
`fuel` itself: `2 * (K + 1) + 2` (generalises `pageTree_fuel_enough`) -/
theorem pageTree_enough (res : Res) (K : Nat) (hK : ∀ n v, res n = .ok v → n ≤ K) (hE : NoFuel res)
    (fuel : Nat) (hf : fuel ≥ 2 * (K + 1) + 2) (root : Option Nat) :
    pageTree res fuel root ≠ .error .fuel := by
  intro h
  unfold pageTree at h
  repeat' split at h
  all_goals first
    | (cases h; done)
    | skip
  · next he => cases h; exact hE _ he
  · next k _ _ e he =>
    cases h
    exact resolve_noFuel res hE _ he
  · next e he =>
    cases h
    refine (build_fuel res K hK hE fuel).1 0 [] _ ?_ he
    rw [unvisited_nil]
    omega

theorem readWith_enough (res : Res) (ext : Ext) (K : Nat) (hK : ∀ n v, res n = .ok v → n ≤ K) (hE : NoFuel res)
    (fuel : Nat) (hf : fuel ≥ 2 * (K + 1) + 2) (root : Option Nat) :
    readWith res ext fuel root ≠ .error .fuel := by
  intro h
  unfold readWith at h
  split at h
  · next e he => cases h; exact pageTree_enough res K hK hE fuel hf root he
  · exact pagesOfSpecs_noFuel _ ext hE _ h

/-- **two sufficient fuels, one answer**: for a resolver that knows no number above `K` and no
number above `K'` (two bounds, e.g. the largest keys of two cross-reference tables that store
the same objects), the reader's answer under `fuel ≥ 2 (K + 1) + 2` and under
`fuel' ≥ 2 (K' + 1) + 2` is the same -/
theorem readWith_two_bounds (res : Res) (ext : Ext) (K K' : Nat)
    (hK : ∀ n v, res n = .ok v → n ≤ K) (hK' : ∀ n v, res n = .ok v → n ≤ K') (hE : NoFuel res)
    (fuel fuel' : Nat) (hf : fuel ≥ 2 * (K + 1) + 2) (hf' : fuel' ≥ 2 * (K' + 1) + 2) (root : Option Nat) :
    readWith res ext fuel root = readWith res ext fuel' root :=
  readWith_fuel_irrelevant res ext fuel fuel' root
    (readWith_enough res ext K hK hE fuel hf root) (readWith_enough res ext K' hK' hE fuel' hf' root)

end Tabula.Reader
