import TabulaModel.Model.HeaderFooter
/-!
Helper lemmas for C11 (`Props/C11.lean`) about `Model/HeaderFooter.lean`.
-/
namespace Tabula.HF

/-! ## `strings.TrimSpace` is idempotent -/

theorem dropPrefix?_eq_some {p s r : Str} : dropPrefix? p s = some r ↔ s = p ++ r := by
  induction p generalizing s with
  | nil => simp [dropPrefix?, eq_comm]
  | cons a p ih =>
    cases s with
    | nil => simp [dropPrefix?]
    | cons b s =>
      simp only [dropPrefix?]
      by_cases h : a = b
      · subst h; simp [ih]
      · simp [h]; intro h'; exact absurd h'.symm h

theorem stripOne_eq_some {tbl : List Str} {s r : Str} (h : stripOne tbl s = some r) :
    ∃ q ∈ tbl, s = q ++ r := by
  induction tbl with
  | nil => simp [stripOne] at h
  | cons q qs ih =>
    simp only [stripOne] at h
    split at h
    · rename_i r' hr
      cases h
      exact ⟨q, by simp, dropPrefix?_eq_some.mp hr⟩
    · obtain ⟨q', hq', e⟩ := ih h
      exact ⟨q', by simp [hq'], e⟩

theorem stripOne_eq_none {tbl : List Str} {s : Str} :
    stripOne tbl s = none ↔ ∀ q ∈ tbl, ∀ r, s ≠ q ++ r := by
  induction tbl with
  | nil => simp [stripOne]
  | cons q qs ih =>
    simp only [stripOne]
    constructor
    · intro h
      split at h
      · cases h
      · rename_i hn
        intro q' hq' r e
        rcases List.mem_cons.mp hq' with rfl | hq'
        · have := dropPrefix?_eq_some.mpr e
          rw [hn] at this; cases this
        · exact ih.mp h q' hq' r e
    · intro h
      split
      · rename_i r hr
        exact absurd (dropPrefix?_eq_some.mp hr) (h q (by simp) r)
      · exact ih.mpr fun q' hq' => h q' (by simp [hq'])

/-- every entry of the table is non-empty -/
def NonEmptyTbl (tbl : List Str) : Prop := ∀ q ∈ tbl, q ≠ []

theorem stripOne_length {tbl : List Str} (ht : NonEmptyTbl tbl) {s r : Str}
    (h : stripOne tbl s = some r) : r.length < s.length := by
  obtain ⟨q, hq, e⟩ := stripOne_eq_some h
  have := ht q hq
  subst e
  cases q with
  | nil => exact absurd rfl this
  | cons a q => simp; omega

theorem stripMany_of_none {tbl : List Str} {s : Str} (h : stripOne tbl s = none) (n : Nat) :
    stripMany tbl n s = s := by
  cases n with
  | zero => rfl
  | succ n => simp [stripMany, h]

theorem stripMany_fix {tbl : List Str} (ht : NonEmptyTbl tbl) :
    ∀ (n : Nat) (s : Str), s.length ≤ n → stripOne tbl (stripMany tbl n s) = none := by
  intro n
  induction n with
  | zero =>
    intro s hs
    have : s = [] := by cases s with | nil => rfl | cons a s => simp at hs
    subst this
    simp only [stripMany]
    apply stripOne_eq_none.mpr
    intro q hq r e
    have := ht q hq
    cases q with
    | nil => exact this rfl
    | cons a q => simp at e
  | succ n ih =>
    intro s hs
    simp only [stripMany]
    split
    · rename_i r hr
      have := stripOne_length ht hr
      exact ih r (by omega)
    · rename_i hn; exact hn

theorem stripMany_suffix {tbl : List Str} : ∀ (n : Nat) (s : Str), ∃ pre, s = pre ++ stripMany tbl n s := by
  intro n
  induction n with
  | zero => intro s; exact ⟨[], rfl⟩
  | succ n ih =>
    intro s
    simp only [stripMany]
    split
    · rename_i r hr
      obtain ⟨q, _, e⟩ := stripOne_eq_some hr
      obtain ⟨pre, e'⟩ := ih r
      exact ⟨q ++ pre, by rw [e, List.append_assoc, ← e']⟩
    · exact ⟨[], rfl⟩

theorem spaceSeqs_nonEmpty : NonEmptyTbl spaceSeqs := by
  intro q hq
  simp only [spaceSeqs, List.mem_cons, List.mem_nil_iff, or_false] at hq
  rcases hq with h | h | h | h | h | h | h | h | h | h | h | h | h | h | h | h | h | h | h | h | h | h | h | h | h <;>
    (subst h; simp)

theorem spaceSeqsRev_nonEmpty : NonEmptyTbl (spaceSeqs.map List.reverse) := by
  intro q hq
  obtain ⟨q', hq', rfl⟩ := List.mem_map.mp hq
  have := spaceSeqs_nonEmpty q' hq'
  simpa using this

theorem stripOne_trimLeft (s : Str) : stripOne spaceSeqs (trimLeft s) = none :=
  stripMany_fix spaceSeqs_nonEmpty s.length s (Nat.le_refl _)

theorem trimLeft_of_none {s : Str} (h : stripOne spaceSeqs s = none) : trimLeft s = s :=
  stripMany_of_none h _

/-- `trimRight s` is a prefix of `s` -/
theorem trimRight_prefix (s : Str) : ∃ suf, s = trimRight s ++ suf := by
  obtain ⟨pre, e⟩ := stripMany_suffix (tbl := spaceSeqs.map List.reverse) s.length s.reverse
  refine ⟨pre.reverse, ?_⟩
  have := congrArg List.reverse e
  simpa [trimRight] using this

theorem trimRight_idem (s : Str) : trimRight (trimRight s) = trimRight s := by
  have h := stripMany_fix spaceSeqsRev_nonEmpty s.length s.reverse (by simp)
  unfold trimRight
  rw [List.reverse_reverse, stripMany_of_none h]

/-- a prefix of a string without a leading space rune has no leading space rune -/
theorem stripOne_none_of_prefix {tbl : List Str} {s p suf : Str} (h : stripOne tbl s = none)
    (e : s = p ++ suf) : stripOne tbl p = none := by
  apply stripOne_eq_none.mpr
  intro q hq r e'
  exact stripOne_eq_none.mp h q hq (r ++ suf) (by rw [e, e', List.append_assoc])

/-- `strings.TrimSpace` is idempotent (candidates carry trimmed text and `textsMatch` trims again). -/
theorem trimSpace_idem (s : Str) : trimSpace (trimSpace s) = trimSpace s := by
  unfold trimSpace
  obtain ⟨suf, e⟩ := trimRight_prefix (trimLeft s)
  have h := stripOne_none_of_prefix (stripOne_trimLeft s) e
  rw [trimLeft_of_none h, trimRight_idem]

/-! ## Filtering -/

/-- `FilterFragments` keeps exactly the fragments that fail `isRemoved` -/
theorem filterFragments_eq (res : Result) (idx : Int) (fs : List Frag) (ph : Rat) :
    filterFragments res idx fs ph = fs.filter (fun f => !isRemoved res idx fs ph f) := by
  unfold filterFragments isRemoved
  split <;> rfl

theorem isRemoved_wordLevel {res : Result} {idx : Int} {fs : List Frag} {ph : Rat}
    (h : isCharacterLevel fs = false) (f : Frag) :
    isRemoved res idx fs ph f = isInHeaderFooter res idx (bands res.cfg fs ph) f := by
  simp [isRemoved, h]

theorem isRemoved_charLevel {res : Result} {idx : Int} {fs : List Frag} {ph : Rat}
    (h : isCharacterLevel fs = true) (f : Frag) :
    isRemoved res idx fs ph f = (removedLines res idx fs ph).any fun g => g.contains f := by
  simp [isRemoved, h]

theorem mem_filterFragments {res : Result} {idx : Int} {fs : List Frag} {ph : Rat} {f : Frag} :
    f ∈ filterFragments res idx fs ph ↔ f ∈ fs ∧ isRemoved res idx fs ph f = false := by
  simp [filterFragments_eq, List.mem_filter]

/-- on a word-level page every fragment is judged by itself -/
theorem mem_filterFragments_wordLevel {res : Result} {idx : Int} {fs : List Frag} {ph : Rat} {f : Frag}
    (h : isCharacterLevel fs = false) :
    f ∈ filterFragments res idx fs ph ↔
      f ∈ fs ∧ isInHeaderFooter res idx (bands res.cfg fs ph) f = false := by
  rw [mem_filterFragments, isRemoved_wordLevel h]

/-- regions of one kind in a detection result -/
def Result.regions (res : Result) : Kind → List Region
  | .header => res.headers
  | .footer => res.footers

theorem isInHeaderFooter_eq_true {res : Result} {idx : Int} {b : Bands} {f : Frag} :
    isInHeaderFooter res idx b f = true ↔
      ∃ k r, r ∈ res.regions k ∧ idx ∈ r.pages ∧ inRegion k b f = true ∧
        regionMatches r f.text = true := by
  simp only [isInHeaderFooter, Bool.or_eq_true, List.any_eq_true, regionHits, Bool.and_eq_true,
    List.contains_iff_mem]
  constructor
  · rintro (⟨r, hr, ⟨hp, hb⟩, hm⟩ | ⟨r, hr, ⟨hp, hb⟩, hm⟩)
    · exact ⟨.header, r, hr, hp, hb, hm⟩
    · exact ⟨.footer, r, hr, hp, hb, hm⟩
  · rintro ⟨k, r, hr, hp, hb, hm⟩
    cases k with
    | header => exact Or.inl ⟨r, hr, ⟨hp, hb⟩, hm⟩
    | footer => exact Or.inr ⟨r, hr, ⟨hp, hb⟩, hm⟩

theorem isInHeaderFooter_false_of_outside {res : Result} {idx : Int} {b : Bands} {f : Frag}
    (ht : inTop b f = false) (hb : inBottom b f = false) : isInHeaderFooter res idx b f = false := by
  cases h : isInHeaderFooter res idx b f with
  | false => rfl
  | true =>
    obtain ⟨k, r, _, _, hin, _⟩ := isInHeaderFooter_eq_true.mp h
    cases k <;> simp [inRegion, ht, hb] at hin

theorem isInHeaderFooter_no_regions {res : Result} (hh : res.headers = []) (hf : res.footers = [])
    (idx : Int) (b : Bands) (f : Frag) : isInHeaderFooter res idx b f = false := by
  simp [isInHeaderFooter, hh, hf]

/-- a glyph is removed from a character-level page exactly if it occurs in a line group whose
assembled line is judged a header or footer -/
theorem isRemoved_charLevel_eq_true {res : Result} {idx : Int} {fs : List Frag} {ph : Rat} {f : Frag}
    (h : isCharacterLevel fs = true) :
    isRemoved res idx fs ph f = true ↔
      ∃ g ∈ charLines fs, f ∈ g ∧ ∃ l, assembleLine g = some l ∧
        isInHeaderFooter res idx (bands res.cfg (assembleFragmentsIntoLines fs) ph) l = true := by
  rw [isRemoved_charLevel h]
  simp only [List.any_eq_true, removedLines, List.mem_filter, List.contains_iff_mem, lineRemoved]
  constructor
  · rintro ⟨g, ⟨hg, hl⟩, hf⟩
    refine ⟨g, hg, hf, ?_⟩
    cases ha : assembleLine g with
    | none => rw [ha] at hl; cases hl
    | some l => rw [ha] at hl; exact ⟨l, rfl, hl⟩
  · rintro ⟨g, hg, hf, l, ha, hl⟩
    exact ⟨g, ⟨hg, by rw [ha]; exact hl⟩, hf⟩

theorem isRemoved_no_regions {res : Result} (hh : res.headers = []) (hf : res.footers = [])
    (idx : Int) (fs : List Frag) (ph : Rat) (f : Frag) : isRemoved res idx fs ph f = false := by
  unfold isRemoved
  split
  · simp [removedLines, lineRemoved, isInHeaderFooter_no_regions hh hf]
    intro g _ hl
    cases ha : assembleLine g <;> simp [ha] at hl
  · exact isInHeaderFooter_no_regions hh hf _ _ _

theorem filterFragments_no_regions {res : Result} (hh : res.headers = []) (hf : res.footers = [])
    (idx : Int) (fs : List Frag) (ph : Rat) : filterFragments res idx fs ph = fs := by
  simp [filterFragments_eq, isRemoved_no_regions hh hf]

/-! ## Detection -/

theorem detect_cfg (cfg : Config) (pages : List Page) : (detect cfg pages).cfg = cfg := by
  unfold detect; split <;> rfl

theorem mem_insertInt {a b : Int} {l : List Int} : a ∈ insertInt b l ↔ a = b ∨ a ∈ l := by
  induction l with
  | nil => simp [insertInt]
  | cons c l ih =>
    simp only [insertInt]
    split
    · simp
    · simp [ih]; constructor
      · rintro (h | h | h) <;> simp [h]
      · rintro (h | h | h) <;> simp [h]

theorem mem_sortInts {a : Int} {l : List Int} : a ∈ sortInts l ↔ a ∈ l := by
  induction l with
  | nil => simp [sortInts]
  | cons b l ih =>
    have : sortInts (b :: l) = insertInt b (sortInts l) := rfl
    rw [this, mem_insertInt, ih]; simp

theorem mem_distinctPages {i : Int} {g : List Cand} : i ∈ distinctPages g ↔ ∃ c ∈ g, c.page = i := by
  simp [distinctPages, List.mem_eraseDups]

theorem regionOf_eq_some {cfg : Config} {k : Kind} {n : Nat} {cands : List Cand} {key : Str} {r : Region}
    (h : regionOf cfg k n cands key = some r) :
    (2 < key.length ∨ isPageNumberPattern key = true) ∧
    minOccurrences cfg n ≤ (distinctPages (groupOf cands key)).length ∧
    hasConsistentPosition cfg (groupOf cands key) = true ∧
    r.kind = k ∧ r.pattern = key ∧ r.pages = sortInts (distinctPages (groupOf cands key)) ∧
    r.isPageNumber = (isPageNumberPattern key || containsPageNumberPattern (groupOf cands key)) ∧
    (r.isPageNumber = false → ∃ c rest, groupOf cands key = c :: rest ∧ r.text = c.text) ∧
    (r.isPageNumber = true → r.text = pageNumberLabel) := by
  unfold regionOf at h
  simp only at h
  split at h
  · cases h
  · rename_i h1
    split at h
    · cases h
    · rename_i h2
      split at h
      · cases h
      · rename_i h3
        cases h
        refine ⟨?_, by omega, by simpa using h3, rfl, rfl, rfl, rfl, ?_, ?_⟩
        · simp only [Bool.and_eq_true, Bool.not_eq_true', decide_eq_true_eq, not_and, Bool.not_eq_false] at h1
          by_cases hl : key.length ≤ 2
          · exact Or.inr (h1 hl)
          · exact Or.inl (by omega)
        · intro hpn
          simp only at hpn
          cases hg : groupOf cands key with
          | nil => simp [hg, hasConsistentPosition] at h3
          | cons c rest =>
            refine ⟨c, rest, rfl, ?_⟩
            rw [hg] at hpn
            simp [hpn]
        · intro hpn
          simp only at hpn
          simp [hpn]

theorem mem_findRepeatingPatterns {cfg : Config} {k : Kind} {n : Nat} {cands : List Cand} {r : Region} :
    r ∈ findRepeatingPatterns cfg k n cands ↔
      ∃ key, (∃ c ∈ cands, normalize c.text = key) ∧ regionOf cfg k n cands key = some r := by
  simp [findRepeatingPatterns, List.mem_filterMap, List.mem_eraseDups]

theorem mem_pageCandidates {cfg : Config} {k : Kind} {p : Page} {c : Cand} :
    c ∈ pageCandidates cfg k p ↔
      ∃ f ∈ p.frags, inRegion k (bands cfg p.frags p.height) f = true ∧
        c = { text := trimSpace f.text, x := f.x, y := regionDist k (bands cfg p.frags p.height) f,
              w := f.w, h := f.h, page := p.index } := by
  simp only [pageCandidates, List.mem_filterMap]
  constructor
  · rintro ⟨f, hf, h⟩
    split at h
    · rename_i hin; cases h; exact ⟨f, hf, hin, rfl⟩
    · cases h
  · rintro ⟨f, hf, hin, rfl⟩
    exact ⟨f, hf, by simp [hin]⟩

theorem mem_extractCandidates {cfg : Config} {k : Kind} {pages : List Page} {c : Cand} :
    c ∈ extractCandidates cfg k pages ↔ ∃ p ∈ pages, c ∈ pageCandidates cfg k p := by
  simp [extractCandidates, List.mem_flatMap]

/-- candidate texts are trimmed, and trimming them again changes nothing -/
theorem cand_text_trimmed {cfg : Config} {k : Kind} {pages : List Page} {c : Cand}
    (h : c ∈ extractCandidates cfg k pages) : trimSpace c.text = c.text := by
  obtain ⟨p, _, hc⟩ := mem_extractCandidates.mp h
  obtain ⟨f, _, _, rfl⟩ := mem_pageCandidates.mp hc
  exact trimSpace_idem f.text

/-! ## Counting pages -/

theorem nodup_eraseDups_aux : ∀ (n : Nat) (l : List Int), l.length ≤ n → l.eraseDups.Nodup := by
  intro n
  induction n with
  | zero =>
    intro l hl
    have : l = [] := by cases l with | nil => rfl | cons a l => simp at hl
    subst this; simp
  | succ n ih =>
    intro l hl
    cases l with
    | nil => simp
    | cons a as =>
      rw [List.eraseDups_cons, List.nodup_cons]
      constructor
      · intro h
        have := (List.mem_filter.mp (List.mem_eraseDups.mp h)).2
        simp at this
      · apply ih
        have := List.length_filter_le (fun b => !b == a) as
        simp at hl; omega

theorem nodup_eraseDups (l : List Int) : l.eraseDups.Nodup := nodup_eraseDups_aux l.length l (Nat.le_refl _)

theorem length_eraseDups_le_aux : ∀ (n : Nat) (l : List Int), l.length ≤ n → l.eraseDups.length ≤ l.length := by
  intro n
  induction n with
  | zero =>
    intro l hl
    have : l = [] := by cases l with | nil => rfl | cons a l => simp at hl
    subst this; simp
  | succ n ih =>
    intro l hl
    cases l with
    | nil => simp
    | cons a as =>
      rw [List.eraseDups_cons]
      have h1 := List.length_filter_le (fun b => !b == a) as
      have h2 := ih (List.filter (fun b => !b == a) as) (by simp at hl; omega)
      simp only [List.length_cons]
      omega

theorem length_eraseDups_le (l : List Int) : l.eraseDups.length ≤ l.length :=
  length_eraseDups_le_aux l.length l (Nat.le_refl _)

theorem distinctPages_length_le_group (g : List Cand) : (distinctPages g).length ≤ g.length := by
  have := length_eraseDups_le (g.map (·.page))
  simpa [distinctPages] using this

theorem preprocessPage_index (p : Page) : (preprocessPage p).index = p.index := by
  unfold preprocessPage; split <;> rfl

/-- every candidate comes from one of the pages -/
theorem cand_page_mem {cfg : Config} {k : Kind} {pages : List Page} {c : Cand}
    (h : c ∈ extractCandidates cfg k (preprocessPages pages)) : c.page ∈ pages.map (·.index) := by
  obtain ⟨p, hp, hc⟩ := mem_extractCandidates.mp h
  obtain ⟨f, _, _, rfl⟩ := mem_pageCandidates.mp hc
  obtain ⟨q, hq, rfl⟩ := List.mem_map.mp hp
  exact List.mem_map.mpr ⟨q, hq, (preprocessPage_index q).symm⟩

/-- a group cannot occur on more distinct pages than the document has -/
theorem distinctPages_length_le {cfg : Config} {k : Kind} {pages : List Page} (key : Str) :
    (distinctPages (groupOf (extractCandidates cfg k (preprocessPages pages)) key)).length ≤ pages.length := by
  have hsub : distinctPages (groupOf (extractCandidates cfg k (preprocessPages pages)) key) ⊆ pages.map (·.index) := by
    intro i hi
    obtain ⟨c, hc, rfl⟩ := mem_distinctPages.mp hi
    exact cand_page_mem (List.mem_filter.mp hc).1
  have := List.Nodup.length_le_of_subset (nodup_eraseDups _) hsub
  simpa [distinctPages] using this

/-! ## Liveness of the detector on the ideal case -/

theorem preprocessPages_wordLevel {pages : List Page}
    (h : ∀ p ∈ pages, isCharacterLevel p.frags = false) : preprocessPages pages = pages := by
  unfold preprocessPages
  induction pages with
  | nil => rfl
  | cons p ps ih =>
    have hp : preprocessPage p = p := by simp [preprocessPage, h p (by simp)]
    rw [List.map_cons, hp, ih (fun q hq => h q (by simp [hq]))]

theorem absR_zero : absR 0 = 0 := by decide +kernel

/-- a group whose members all sit at the same position, with at least two members, is consistent -/
theorem hasConsistentPosition_of_same {cfg : Config} (h1 : 0 ≤ cfg.positionTolerance)
    (h2 : 0 ≤ cfg.xPositionTolerance) {x0 d0 : Rat} :
    ∀ (g : List Cand), (∀ c ∈ g, c.x = x0 ∧ c.y = d0) → 2 ≤ g.length → hasConsistentPosition cfg g = true := by
  intro g hg hlen
  match g, hg, hlen with
  | c0 :: c1 :: rest, hg, _ =>
    simp only [hasConsistentPosition, List.all_eq_true, Bool.and_eq_true, Bool.not_eq_true', decide_eq_false_iff_not]
    intro c hc
    have e0 := hg c0 (by simp)
    have e := hg c (by simp at hc ⊢; rcases hc with h | h <;> simp [h])
    rw [e.1, e.2, e0.1, e0.2, Rat.sub_self, Rat.sub_self, absR_zero]
    constructor <;> grind

theorem isPageNumberPattern_nil : isPageNumberPattern [] = false := by decide +kernel

theorem minOccurrences_default_le (n : Nat) (h : 2 ≤ n) : minOccurrences defaultConfig n ≤ n := by
  unfold minOccurrences
  have e : defaultConfig.minOccurrenceRatio = 1 / 2 := rfl
  rw [e]
  have h1 := Rat.floor_le ((n : Rat) * (1 / 2))
  have h0 : (0 : Rat) ≤ (n : Rat) := by exact_mod_cast Nat.zero_le n
  have h2 : ((((n : Rat) * (1 / 2)).floor : Int) : Rat) ≤ ((n : Int) : Rat) := by
    have : ((n : Int) : Rat) = (n : Rat) := by norm_cast
    rw [this]; grind
  have := Rat.intCast_le_intCast.mp h2
  omega

end Tabula.HF
