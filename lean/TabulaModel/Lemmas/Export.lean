import TabulaModel.Model.Export
import TabulaModel.Lemmas.Csv
/-!
Helper lemmas for `Props/C14.lean` about `Model/Export.lean`.
-/
namespace Tabula.Export
open Tabula.Csv (Str)

/-! ### bytewise order -/

theorem strLe_refl (a : Str) : strLe a a = true := by
  induction a with
  | nil => rfl
  | cons x xs ih => simp [strLe, ih]

theorem strLe_total (a b : Str) : strLe a b = true ∨ strLe b a = true := by
  induction a generalizing b with
  | nil => left; rfl
  | cons x xs ih =>
    cases b with
    | nil => right; rfl
    | cons y ys =>
      simp only [strLe]
      by_cases h1 : x < y
      · left; simp [h1]
      · by_cases h2 : y < x
        · right; simp [h2]
        · have e : x = y := by omega
          subst e
          simp only [Nat.lt_irrefl, if_false, if_true]
          exact ih ys

theorem strLe_trans {a b c : Str} (h1 : strLe a b = true) (h2 : strLe b c = true) : strLe a c = true := by
  induction a generalizing b c with
  | nil => rfl
  | cons x xs ih =>
    cases b with
    | nil => simp [strLe] at h1
    | cons y ys =>
      cases c with
      | nil => simp [strLe] at h2
      | cons z zs =>
        simp only [strLe] at h1 h2 ⊢
        by_cases hxy : x < y
        · by_cases hyz : y < z
          · have : x < z := by omega
            simp [this]
          · by_cases hyz' : y = z
            · subst hyz'; simp [hxy]
            · simp [hyz, hyz'] at h2
        · by_cases hxy' : x = y
          · subst hxy'
            simp only [Nat.lt_irrefl, if_false, if_true] at h1
            by_cases hyz : x < z
            · simp [hyz]
            · by_cases hyz' : x = z
              · subst hyz'
                simp only [Nat.lt_irrefl, if_false, if_true] at h2 ⊢
                exact ih h1 h2
              · simp [hyz, hyz'] at h2
          · simp [hxy, hxy'] at h1

theorem strLe_antisymm {a b : Str} (h1 : strLe a b = true) (h2 : strLe b a = true) : a = b := by
  induction a generalizing b with
  | nil =>
    cases b with
    | nil => rfl
    | cons y ys => simp [strLe] at h2
  | cons x xs ih =>
    cases b with
    | nil => simp [strLe] at h1
    | cons y ys =>
      simp only [strLe] at h1 h2
      by_cases hxy : x < y
      · have h3 : ¬ y < x := by omega
        have h4 : ¬ y = x := by omega
        simp [h3, h4] at h2
      · by_cases hxy' : x = y
        · subst hxy'
          simp only [Nat.lt_irrefl, if_false, if_true] at h1 h2
          rw [ih h1 h2]
        · simp [hxy, hxy'] at h1

/-- strict bytewise order -/
def strLt (a b : Str) : Prop := strLe a b = true ∧ a ≠ b

/-! ### insertion sort -/

theorem mem_insertSorted {a x : Str} {l : List Str} : a ∈ insertSorted x l ↔ a = x ∨ a ∈ l := by
  induction l with
  | nil => simp [insertSorted]
  | cons y ys ih =>
    simp only [insertSorted]
    split
    · simp
    · simp only [List.mem_cons, ih]
      constructor
      · rintro (h | h | h)
        · exact Or.inr (Or.inl h)
        · exact Or.inl h
        · exact Or.inr (Or.inr h)
      · rintro (h | h | h)
        · exact Or.inr (Or.inl h)
        · exact Or.inl h
        · exact Or.inr (Or.inr h)

theorem mem_sortStrings {a : Str} {l : List Str} : a ∈ sortStrings l ↔ a ∈ l := by
  induction l with
  | nil => simp [sortStrings]
  | cons x xs ih => simp [sortStrings, mem_insertSorted, ih]

theorem pairwise_insertSorted {x : Str} {l : List Str} (h : l.Pairwise (fun a b => strLe a b = true)) :
    (insertSorted x l).Pairwise (fun a b => strLe a b = true) := by
  induction l with
  | nil => simp [insertSorted]
  | cons y ys ih =>
    simp only [insertSorted]
    rw [List.pairwise_cons] at h
    split
    · rename_i hxy
      rw [List.pairwise_cons]
      refine ⟨?_, List.pairwise_cons.mpr h⟩
      intro a ha
      rcases List.mem_cons.mp ha with e | e
      · rw [e]; exact hxy
      · exact strLe_trans hxy (h.1 a e)
    · rename_i hxy
      have hyx : strLe y x = true := by
        rcases strLe_total x y with h' | h'
        · exact absurd h' hxy
        · exact h'
      rw [List.pairwise_cons]
      refine ⟨?_, ih h.2⟩
      intro a ha
      rcases mem_insertSorted.mp ha with e | e
      · rw [e]; exact hyx
      · exact h.1 a e

theorem pairwise_sortStrings (l : List Str) : (sortStrings l).Pairwise (fun a b => strLe a b = true) := by
  induction l with
  | nil => simp [sortStrings]
  | cons x xs ih => exact pairwise_insertSorted ih

theorem nodup_insertSorted {x : Str} {l : List Str} (hx : x ∉ l) (h : l.Nodup) : (insertSorted x l).Nodup := by
  induction l with
  | nil => simp [insertSorted]
  | cons y ys ih =>
    simp only [insertSorted]
    rw [List.nodup_cons] at h
    split
    · exact List.nodup_cons.mpr ⟨hx, List.nodup_cons.mpr h⟩
    · rw [List.nodup_cons]
      refine ⟨?_, ih (fun hm => hx (List.mem_cons_of_mem _ hm)) h.2⟩
      intro hm
      rcases mem_insertSorted.mp hm with e | e
      · exact hx (by rw [e]; exact List.mem_cons_self)
      · exact h.1 e

theorem nodup_sortStrings {l : List Str} (h : l.Nodup) : (sortStrings l).Nodup := by
  induction l with
  | nil => simp [sortStrings]
  | cons x xs ih =>
    rw [List.nodup_cons] at h
    exact nodup_insertSorted (fun hm => h.1 (mem_sortStrings.mp hm)) (ih h.2)

/-- sorted + duplicate-free = strictly ascending -/
theorem strict_of_sorted_nodup {l : List Str} (h1 : l.Pairwise (fun a b => strLe a b = true)) (h2 : l.Nodup) :
    l.Pairwise strLt := by
  induction l with
  | nil => exact List.Pairwise.nil
  | cons x xs ih =>
    rw [List.pairwise_cons] at h1 ⊢
    rw [List.nodup_cons] at h2
    refine ⟨fun a ha => ⟨h1.1 a ha, fun e => h2.1 (e ▸ ha)⟩, ih h1.2 h2.2⟩

/-! ### key collection -/

theorem mem_setInsert {a k : Str} {s : List Str} : a ∈ setInsert s k ↔ a ∈ s ∨ a = k := by
  unfold setInsert
  split
  · rename_i h
    constructor
    · exact Or.inl
    · rintro (h' | h')
      · exact h'
      · rw [h']; exact h
  · simp

theorem nodup_setInsert {k : Str} {s : List Str} (h : s.Nodup) : (setInsert s k).Nodup := by
  unfold setInsert
  split
  · exact h
  · rename_i hk
    rw [List.nodup_append]
    refine ⟨h, by simp, ?_⟩
    intro a ha b hb
    simp only [List.mem_singleton] at hb
    intro e
    exact hk (hb ▸ e ▸ ha)

theorem mem_addKeys {a : Str} {ks keys : List Str} :
    a ∈ addKeys ks keys ↔ a ∈ keys ∨ (a ∈ ks ∧ isStandardColumn a = false) := by
  induction ks generalizing keys with
  | nil => simp [addKeys]
  | cons k rest ih =>
    simp only [addKeys, ih, List.mem_cons]
    by_cases hk : isStandardColumn k = true
    · simp only [hk, if_true]
      constructor
      · rintro (h | ⟨h, h'⟩)
        · exact Or.inl h
        · exact Or.inr ⟨Or.inr h, h'⟩
      · rintro (h | ⟨h | h, h'⟩)
        · exact Or.inl h
        · rw [h] at h'; rw [hk] at h'; exact absurd h' (by simp)
        · exact Or.inr ⟨h, h'⟩
    · have hk' : isStandardColumn k = false := by simpa using hk
      simp only [hk', Bool.false_eq_true, if_false, mem_setInsert]
      constructor
      · rintro ((h | h) | ⟨h, h'⟩)
        · exact Or.inl h
        · exact Or.inr ⟨Or.inl h, h ▸ hk'⟩
        · exact Or.inr ⟨Or.inr h, h'⟩
      · rintro (h | ⟨h | h, h'⟩)
        · exact Or.inl (Or.inl h)
        · exact Or.inl (Or.inr h)
        · exact Or.inr ⟨h, h'⟩

theorem nodup_addKeys {ks keys : List Str} (h : keys.Nodup) : (addKeys ks keys).Nodup := by
  induction ks generalizing keys with
  | nil => exact h
  | cons k rest ih =>
    simp only [addKeys]
    split
    · exact ih h
    · exact ih (nodup_setInsert h)

theorem mem_collectKeys {cfg : Config} {a : Str} {chunks : List Chunk} {keys : List Str} :
    a ∈ collectKeys cfg chunks keys ↔
      a ∈ keys ∨ ∃ c ∈ chunks, a ∈ chunkKeys cfg c ∧ isStandardColumn a = false := by
  induction chunks generalizing keys with
  | nil => simp [collectKeys]
  | cons c cs ih =>
    simp only [collectKeys, ih, mem_addKeys, List.mem_cons]
    constructor
    · rintro ((h | h) | ⟨c', hc', h⟩)
      · exact Or.inl h
      · exact Or.inr ⟨c, Or.inl rfl, h⟩
      · exact Or.inr ⟨c', Or.inr hc', h⟩
    · rintro (h | ⟨c', hc' | hc', h⟩)
      · exact Or.inl (Or.inl h)
      · subst hc'; exact Or.inl (Or.inr h)
      · exact Or.inr ⟨c', hc', h⟩

theorem nodup_collectKeys {cfg : Config} {chunks : List Chunk} {keys : List Str} (h : keys.Nodup) :
    (collectKeys cfg chunks keys).Nodup := by
  induction chunks generalizing keys with
  | nil => exact h
  | cons c cs ih => exact ih (nodup_addKeys h)

/-! ### rows -/

theorem chunkToCSVRow_eq_map (marshal : MapSV → Str) (cfg : Config) (ec : Exported) (cols : List Str) :
    chunkToCSVRow marshal cfg ec cols = cols.map (getColumnValue marshal cfg ec) := by
  induction cols with
  | nil => rfl
  | cons c cs ih => simp [chunkToCSVRow, ih]

theorem csvDataRows_eq_map (marshal : MapSV → Str) (cfg : Config) (cols : List Str) (chunks : List Chunk) :
    csvDataRows marshal cfg cols chunks =
      chunks.map (fun c => chunkToCSVRow marshal cfg (prepareChunkForExport cfg c) cols) := by
  induction chunks with
  | nil => rfl
  | cons c cs ih => simp [csvDataRows, ih]

theorem exportRecords_eq_map (cfg : Config) (chunks : List Chunk) :
    exportRecords cfg chunks = chunks.map (prepareChunkForExport cfg) := by
  induction chunks with
  | nil => rfl
  | cons c cs ih => simp [exportRecords, ih]

theorem fixedColumns_ne_nil (cfg : Config) : fixedColumns cfg ≠ [] := by
  simp [fixedColumns]

theorem collectCSVColumns_ne_nil (cfg : Config) (chunks : List Chunk) : collectCSVColumns cfg chunks ≠ [] := by
  simp [collectCSVColumns, fixedColumns]

/-! ### filters -/

theorem filterLoop_eq (p : Chunk → Bool) (cs acc : List Chunk) :
    filterLoop p cs acc = acc ++ cs.filter p := by
  induction cs generalizing acc with
  | nil => simp [filterLoop]
  | cons c rest ih =>
    simp only [filterLoop, ih, List.filter_cons]
    by_cases h : p c = true <;> simp [h]

theorem filterC_eq (p : Chunk → Bool) (cs : List Chunk) : filterC p cs = cs.filter p := by
  simp [filterC, filterLoop_eq]

theorem pathHas_iff (t : Str) (l : List Str) : pathHas t l = true ↔ t ∈ l := by
  induction l with
  | nil => simp [pathHas]
  | cons s rest ih =>
    simp only [pathHas, List.mem_cons]
    by_cases h : s = t
    · simp [h]
    · simp only [h, if_false, ih]
      constructor
      · exact Or.inr
      · rintro (e | e)
        · exact absurd e.symm h
        · exact e

theorem containsElementType_iff (eqFold : Str → Str → Bool) (t : Str) (l : List Str) :
    containsElementType eqFold t l = true ↔ ∃ et ∈ l, eqFold et t = true := by
  induction l with
  | nil => simp [containsElementType]
  | cons s rest ih =>
    cases h : eqFold s t with
    | true =>
      simp only [containsElementType, h, if_true, true_iff]
      exact ⟨s, List.mem_cons_self, h⟩
    | false =>
      simp only [containsElementType, h, Bool.false_eq_true, if_false, ih]
      constructor
      · rintro ⟨et, he, hf⟩; exact ⟨et, List.mem_cons_of_mem _ he, hf⟩
      · rintro ⟨et, he, hf⟩
        rcases List.mem_cons.mp he with he | he
        · subst he; rw [h] at hf; exact absurd hf (by simp)
        · exact ⟨et, he, hf⟩

theorem hasPrefixB_iff (p s : Str) : hasPrefixB p s = true ↔ ∃ t, s = p ++ t := by
  induction p generalizing s with
  | nil => simp [hasPrefixB]
  | cons a as ih =>
    cases s with
    | nil => simp [hasPrefixB]
    | cons b bs =>
      simp only [hasPrefixB, Bool.and_eq_true, beq_iff_eq, ih, List.cons_append, List.cons.injEq]
      constructor
      · rintro ⟨e, t, ht⟩; exact ⟨t, e.symm, ht⟩
      · rintro ⟨t, e, ht⟩; exact ⟨e.symm, t, ht⟩

/-- `strings.Contains(s, sub)`: `sub` occurs as a contiguous block of `s` -/
theorem containsB_iff (sub s : Str) : containsB sub s = true ↔ ∃ u v, s = u ++ sub ++ v := by
  induction s with
  | nil =>
    simp only [containsB, List.isEmpty_iff]
    constructor
    · intro h; subst h; exact ⟨[], [], rfl⟩
    · rintro ⟨u, v, h⟩
      have := congrArg List.length h
      simp at this
      exact List.eq_nil_of_length_eq_zero (by omega)
  | cons c cs ih =>
    simp only [containsB, Bool.or_eq_true, hasPrefixB_iff, ih]
    constructor
    · rintro (⟨t, ht⟩ | ⟨u, v, h⟩)
      · exact ⟨[], t, by simpa using ht⟩
      · exact ⟨c :: u, v, by simp [h]⟩
    · rintro ⟨u, v, h⟩
      cases u with
      | nil => exact Or.inl ⟨v, by simpa using h⟩
      | cons x xs =>
        simp only [List.cons_append, List.cons.injEq] at h
        exact Or.inr ⟨xs, v, h.2⟩

/-! ### batches -/

theorem batchLoop_items {α : Type} (size : Nat) (hs : 0 < size) (chunks : List α) (i : Nat) :
    (batchLoop size hs chunks i).flatMap (·.items) = chunks.drop i := by
  induction hn : chunks.length - i using Nat.strongRecOn generalizing i with
  | _ n ih =>
    rw [batchLoop.eq_1]
    by_cases h : i < chunks.length
    · simp only [h, dite_true, List.flatMap_cons]
      rw [ih (chunks.length - (i + size)) (by omega) (i + size) rfl]
      by_cases h2 : i + size > chunks.length
      · simp only [h2, if_true]
        have e1 : chunks.drop (i + size) = [] := List.drop_eq_nil_of_le (by omega)
        rw [e1, List.append_nil]
        apply List.take_of_length_le
        simp
      · simp only [h2, if_false]
        have e : i + size - i = size := by omega
        rw [e, ← List.drop_drop]
        exact List.take_append_drop size (chunks.drop i)
    · simp only [h, dite_false, List.flatMap_nil]
      exact (List.drop_eq_nil_of_le (by omega)).symm

theorem batchLoop_sizes {α : Type} (size : Nat) (hs : 0 < size) (chunks : List α) (i : Nat) :
    ∀ b ∈ batchLoop size hs chunks i,
      1 ≤ b.items.length ∧ b.items.length ≤ size ∧ b.chunkCount = b.items.length ∧
      b.endIndex = b.startIndex + b.chunkCount ∧ b.startIndex = b.batchNumber * size + i % size ∧
      b.items = (chunks.drop b.startIndex).take b.chunkCount ∧ b.endIndex ≤ chunks.length ∧
      (b.endIndex < chunks.length → b.chunkCount = size) := by
  induction hn : chunks.length - i using Nat.strongRecOn generalizing i with
  | _ n ih =>
    rw [batchLoop.eq_1]
    by_cases h : i < chunks.length
    · simp only [h, dite_true, List.mem_cons]
      intro b hb
      rcases hb with hb | hb
      · subst hb
        have hdm : i / size * size + i % size = i := by
          rw [Nat.mul_comm]; exact Nat.div_add_mod i size
        by_cases h2 : i + size > chunks.length
        · simp only [h2, if_true, List.length_take, List.length_drop]
          refine ⟨by omega, by omega, by omega, by omega, by omega, by first | rfl | trivial, by omega, by omega⟩
        · simp only [h2, if_false, List.length_take, List.length_drop]
          refine ⟨by omega, by omega, by omega, by omega, by omega, by first | rfl | trivial, by omega, by omega⟩
      · have := ih (chunks.length - (i + size)) (by omega) (i + size) rfl b hb
        have e : (i + size) % size = i % size := by simp
        rw [e] at this
        exact this
    · simp [h]

/-! ### reading cells back (the textual conventions a consumer of the CSV applies) -/

/-- decimal digits to a number -/
def valDigits (s : Str) : Nat := s.foldl (fun a c => a * 10 + (c - 48)) 0

/-- reader of an integer cell: optional `-`, decimal digits -/
def readIntCell : Str → Int
  | [] => 0
  | c :: r => if c = 45 then -((valDigits r : Nat) : Int) else ((valDigits (c :: r) : Nat) : Int)

/-- reader of a boolean cell -/
def readBoolCell (s : Str) : Option Bool :=
  if s = kTrue then some true else if s = kFalse then some false else none

/-- split at commas -/
def splitAcc : Str → Str → List Str
  | [], cur => [cur]
  | c :: cs, cur => if c = 44 then cur :: splitAcc cs [] else splitAcc cs (cur ++ [c])

/-- reader of a list cell `[a,b,c]`: strip the brackets, split at commas -/
def readListCell : Str → Option (List Str)
  | 91 :: rest => if rest.getLast? = some 93 then some (splitAcc rest.dropLast []) else none
  | _ => none

theorem decAux_append (n : Nat) (acc : Str) : decAux n acc = decAux n [] ++ acc := by
  induction n using Nat.strongRecOn generalizing acc with
  | _ n ih =>
    rw [decAux.eq_1 n acc, decAux.eq_1 n []]
    by_cases h : n < 10
    · simp [h]
    · simp only [h, if_false]
      rw [ih (n / 10) (by omega) ((48 + n % 10) :: acc), ih (n / 10) (by omega) [48 + n % 10]]
      simp

theorem dec_step (n : Nat) (h : ¬ n < 10) : dec n = dec (n / 10) ++ [48 + n % 10] := by
  unfold dec
  rw [decAux.eq_1 n []]
  simp only [h, if_false]
  exact decAux_append _ _

theorem dec_small (n : Nat) (h : n < 10) : dec n = [48 + n] := by
  unfold dec
  rw [decAux.eq_1 n []]
  simp [h]

theorem valDigits_dec (n : Nat) : valDigits (dec n) = n := by
  induction n using Nat.strongRecOn with
  | _ n ih =>
    by_cases h : n < 10
    · rw [dec_small n h]; simp [valDigits]
    · rw [dec_step n h]
      have := ih (n / 10) (by omega)
      unfold valDigits at this ⊢
      rw [List.foldl_append, this]
      simp only [List.foldl_cons, List.foldl_nil]
      omega

theorem dec_head (n : Nat) : ∃ d ds, dec n = d :: ds ∧ 48 ≤ d ∧ d ≤ 57 := by
  induction n using Nat.strongRecOn with
  | _ n ih =>
    by_cases h : n < 10
    · exact ⟨48 + n, [], dec_small n h, by omega, by omega⟩
    · obtain ⟨d, ds, e, h1, h2⟩ := ih (n / 10) (by omega)
      exact ⟨d, ds ++ [48 + n % 10], by rw [dec_step n h, e]; rfl, h1, h2⟩

theorem readIntCell_decInt (i : Int) : readIntCell (decInt i) = i := by
  unfold decInt
  by_cases h : i < 0
  · simp only [h, if_true, readIntCell, valDigits_dec]
    omega
  · simp only [h, if_false]
    obtain ⟨d, ds, e, h1, _⟩ := dec_head i.natAbs
    have hv := valDigits_dec i.natAbs
    rw [e] at hv ⊢
    have hd : d ≠ 45 := by omega
    simp only [readIntCell, hd, if_false, hv]
    omega

theorem splitAcc_plain (s rest cur : Str) (hs : 44 ∉ s) :
    splitAcc (s ++ rest) cur = splitAcc rest (cur ++ s) := by
  induction s generalizing cur with
  | nil => simp
  | cons c cs ih =>
    have hc : c ≠ 44 := fun e => hs (by simp [e])
    have hcs : 44 ∉ cs := fun h => hs (List.mem_cons_of_mem _ h)
    simp only [List.cons_append, splitAcc, hc, if_false]
    rw [ih _ hcs]
    simp

theorem splitAcc_joinComma (l : List Str) (hne : l ≠ []) (h : ∀ s ∈ l, 44 ∉ s) :
    splitAcc (joinComma l) [] = l := by
  induction l with
  | nil => exact absurd rfl hne
  | cons s rest ih =>
    cases rest with
    | nil =>
      have := splitAcc_plain s [] [] (h s (by simp))
      simp only [List.append_nil, List.nil_append] at this
      simp [joinComma, this, splitAcc]
    | cons t more =>
      simp only [joinComma]
      rw [splitAcc_plain s _ [] (h s (by simp))]
      simp only [List.nil_append, splitAcc, if_true]
      rw [ih (by simp) (fun x hx => h x (List.mem_cons_of_mem _ hx))]

/-! ### flattening is the identity on chunk metadata (no nested maps, distinct keys) -/

def isFlat : Val → Prop
  | .obj _ => False
  | _ => True

theorem mapInsert_fresh (acc : MapSV) (k : Str) (v : Val) (h : k ∉ mapKeys acc) :
    mapInsert acc k v = acc ++ [(k, v)] := by
  induction acc with
  | nil => rfl
  | cons e rest ih =>
    obtain ⟨k', v'⟩ := e
    simp only [mapKeys, List.map_cons, List.mem_cons, not_or] at h
    have hne : ¬ k' = k := fun e => h.1 e.symm
    simp only [mapInsert, hne, if_false, List.cons_append]
    rw [ih h.2]

theorem flattenGo_flat (m acc : MapSV) (hf : ∀ e ∈ m, isFlat e.2) (hn : (mapKeys acc ++ mapKeys m).Nodup) :
    flattenGo m [] acc = acc ++ m := by
  induction m generalizing acc with
  | nil => simp [flattenGo]
  | cons e rest ih =>
    obtain ⟨k, v⟩ := e
    have hk : k ∉ mapKeys acc := by
      intro hm
      simp only [mapKeys, List.map_cons] at hn hm
      rw [List.nodup_append] at hn
      exact hn.2.2 k hm k (by simp) rfl
    have hn' : (mapKeys (acc ++ [(k, v)]) ++ mapKeys rest).Nodup := by
      simpa [mapKeys, List.append_assoc] using hn
    have hrest : ∀ e ∈ rest, isFlat e.2 := fun e he => hf e (List.mem_cons_of_mem _ he)
    have hv : isFlat v := hf (k, v) (by simp)
    cases v with
    | obj kvs => exact absurd hv (by simp [isFlat])
    | str s => simp only [flattenGo, fullKeyOf, if_true]; rw [mapInsert_fresh _ _ _ hk, ih _ hrest hn']; simp
    | int s => simp only [flattenGo, fullKeyOf, if_true]; rw [mapInsert_fresh _ _ _ hk, ih _ hrest hn']; simp
    | bool s => simp only [flattenGo, fullKeyOf, if_true]; rw [mapInsert_fresh _ _ _ hk, ih _ hrest hn']; simp
    | strs s => simp only [flattenGo, fullKeyOf, if_true]; rw [mapInsert_fresh _ _ _ hk, ih _ hrest hn']; simp

def allKeysApp : List Str :=
  [kDocumentTitle] ++ [kSectionPath] ++ [kSectionTitle] ++ [kHeadingLevel] ++ [kPageStart] ++ [kPageEnd] ++
  [kChunkIndex] ++ [kTotalChunks] ++ [kLevel] ++ [kParentId] ++ [kChildIds] ++ [kElementTypes] ++
  [kHasTable] ++ [kHasList] ++ [kHasImage] ++ [kCharCount] ++ [kWordCount] ++ [kEstimatedTokens]

def keyHash (k : Str) : Nat := k.foldl (fun a c => a * 31 + c) 0

theorem nodup_of_map {α β : Type} (f : α → β) : ∀ l : List α, (l.map f).Nodup → l.Nodup
  | [], _ => List.nodup_nil
  | a :: l, h => by
    rw [List.map_cons, List.nodup_cons] at h
    rw [List.nodup_cons]
    exact ⟨fun hm => h.1 (List.mem_map_of_mem hm), nodup_of_map f l h.2⟩

theorem allKeysApp_nodup : allKeysApp.Nodup := by
  have h : (allKeysApp.map keyHash).Nodup := by decide +kernel
  exact nodup_of_map keyHash _ h

theorem sub_if (c : Prop) [Decidable c] (k : Str) (v : Val) :
    List.Sublist (mapKeys (if c then [(k, v)] else [])) [k] := by
  split <;> simp [mapKeys]

theorem mapKeys_append (a b : MapSV) : mapKeys (a ++ b) = mapKeys a ++ mapKeys b := by
  simp [mapKeys]

theorem keys_sublist (m : Meta) : List.Sublist (mapKeys (chunkMetadataToMap m)) allKeysApp := by
  unfold chunkMetadataToMap allKeysApp
  simp only [mapKeys_append]
  repeat (first | apply List.Sublist.append | exact sub_if _ _ _ | exact List.Sublist.refl _)

theorem flat_append {a b : MapSV} (ha : ∀ e ∈ a, isFlat e.2) (hb : ∀ e ∈ b, isFlat e.2) :
    ∀ e ∈ a ++ b, isFlat e.2 := by
  intro e he
  rcases List.mem_append.mp he with h | h
  · exact ha e h
  · exact hb e h

theorem flat_single (k : Str) (v : Val) (hv : isFlat v) : ∀ e ∈ [(k, v)], isFlat e.2 := by
  intro e he
  simp only [List.mem_singleton] at he
  rw [he]; exact hv

theorem flat_if (c : Prop) [Decidable c] (k : Str) (v : Val) (hv : isFlat v) :
    ∀ e ∈ (if c then [(k, v)] else []), isFlat e.2 := by
  split
  · exact flat_single k v hv
  · intro e he; simp at he

theorem values_flat (m : Meta) : ∀ e ∈ chunkMetadataToMap m, isFlat e.2 := by
  unfold chunkMetadataToMap
  repeat (first | apply flat_append | exact flat_if _ _ _ trivial | exact flat_single _ _ trivial)

theorem flatten_chunk_metadata (m : Meta) : flattenMetadata (chunkMetadataToMap m) [] = chunkMetadataToMap m := by
  unfold flattenMetadata
  rw [flattenGo_flat _ [] (values_flat m)]
  · simp
  · simpa [mapKeys] using (keys_sublist m).nodup allKeysApp_nodup

end Tabula.Export
