import TabulaModel.Lemmas.CMapArrangeDefs
/-!
What tabula's `Lookup` / `LookupString` compute on a parsed ToUnicode program, for EVERY code and
EVERY byte string (not only the defined codes), against the specification `specText` /
`specEmit` / `specDecode` of `Lemmas/CMapArrangeDefs.lean`; arrangement independence.
-/
namespace Tabula.CMapArrange
open Tabula.UTF16 Tabula.CMap
open Tabula.CMapCompose (allItems directEntries offsetRuns offsetEntries Functional Specified)

/-- `lookupRanges` over the ranges of well-formed offset runs = the text, by position, of the first run that contains the code -/
theorem lookupRanges_total (w : Nat) (R : List Run) (hR : ∀ r ∈ R, RunOK w r ∧ RunOffsetOK r) (c : Nat) :
    lookupRanges (R.map Run.range) c =
      match R.find? (fun r => decide (r.lo ≤ c ∧ c ≤ r.hi)) with
      | some r => r.texts.getD (c - r.lo) []
      | none => [] := by
  induction R with
  | nil => simp [lookupRanges]
  | cons r R ih =>
    by_cases h : r.lo ≤ c ∧ c ≤ r.hi
    · simp only [List.map_cons, lookupRanges, Tabula.CMapCompose.range_start, Tabula.CMapCompose.range_stop]
      rw [if_pos h, List.find?_cons_of_pos (by simpa using h)]
      show rangeText r.range c = r.texts.getD (c - r.lo) []
      obtain ⟨hok, hoff⟩ := hR r (by simp)
      have hne : r.texts.length ≠ 0 := by
        intro h0
        exact hok.1 (List.length_eq_zero_iff.mp h0)
      have h2 := h.2
      unfold Run.hi at h2
      have hi : c - r.lo < r.texts.length := by omega
      have hc : c = r.lo + (c - r.lo) := by omega
      have hget : r.texts[c - r.lo]? = some (r.texts[c - r.lo]) := List.getElem?_eq_getElem hi
      have hrt := rangeText_run w r hok hoff (c - r.lo) _ hget
      rw [← hc] at hrt
      rw [hrt, List.getD_eq_getElem?_getD, hget]
      rfl
    · simp only [List.map_cons, lookupRanges, Tabula.CMapCompose.range_start, Tabula.CMapCompose.range_stop]
      rw [if_neg h, List.find?_cons_of_neg (by simpa using h)]
      exact ih (fun x hx => hR x (by simp [hx]))

/-- `Lookup` on a state that holds the program's direct entries and offset ranges, for EVERY code -/
theorem lookup_of_state_total (w : Nat) (secs : List Section) (hs : ∀ s ∈ secs, SectionOK w s)
    (cm : CMap) (hch : cm.chars = (directEntries secs).reverse)
    (hrg : cm.ranges = (offsetRuns secs).map Run.range) (c : Nat) :
    lookup cm c = specText secs c := by
  unfold lookup specText CMap.getChar
  rw [hch, hrg]
  cases hf : (directEntries secs).reverse.find? (fun p => p.1 == c) with
  | some e => rfl
  | none =>
    show lookupRanges ((offsetRuns secs).map Run.range) c = _
    exact lookupRanges_total w (offsetRuns secs) (fun r hr => Tabula.CMapCompose.offsetRuns_ok w secs hs r hr) c

theorem emit_of_state_total (w : Nat) (secs : List Section) (hs : ∀ s ∈ secs, SectionOK w s)
    (cm : CMap) (hch : cm.chars = (directEntries secs).reverse)
    (hrg : cm.ranges = (offsetRuns secs).map Run.range) (c : Nat) :
    emit cm c = specEmit secs c := by
  unfold emit specEmit
  rw [lookup_of_state_total w secs hs cm hch hrg c]

theorem beVal_snoc (bs : List Nat) (b : Nat) : beVal (bs ++ [b]) = beVal bs * 256 + b := by
  unfold beVal; rw [List.foldl_append]; rfl

theorem codeOf_beVal_rev (bs : List Nat) (hb : AllBytes bs) (hl : bs.length ≤ 4) :
    codeOf bs.reverse = beVal bs.reverse ∧ beVal bs.reverse < 256 ^ bs.length := by
  induction bs with
  | nil => exact ⟨rfl, by simp [beVal]⟩
  | cons b t ih =>
    have hlt : t.length ≤ 4 := by simp at hl; omega
    obtain ⟨h1, h2⟩ := ih (allBytes_tail hb) hlt
    have hb256 : b < 256 := hb b (by simp)
    have hP := pow256_le (t.length + 1) (by simpa using hl)
    rw [List.reverse_cons, codeOf_snoc, beVal_snoc, h1, or_low _ _ hb256, List.length_cons]
    rw [Nat.pow_succ] at hP ⊢
    generalize 256 ^ t.length = P at h2 hP
    generalize beVal t.reverse = X at h2
    rw [Nat.mod_eq_of_lt (by omega)]
    exact ⟨rfl, by omega⟩

/-- the shift-or code assembly of `lookupStringWithWidth` is the big-endian number for up to four bytes -/
theorem codeOf_beVal (bs : List Nat) (hb : AllBytes bs) (hl : bs.length ≤ 4) : codeOf bs = beVal bs := by
  have h := (codeOf_beVal_rev bs.reverse (by intro x hx; exact hb x (by simpa using hx)) (by simpa using hl)).1
  rwa [List.reverse_reverse] at h

theorem allBytes_take {l : List Nat} (h : AllBytes l) (n : Nat) : AllBytes (l.take n) :=
  fun b hb => h b (List.mem_of_mem_take hb)

theorem lookupWidth_spec (secs : List Section) (cm : CMap) (hem : ∀ c, emit cm c = specEmit secs c)
    (w : Nat) (hw4 : w ≤ 4) (fuel : Nat) (data : List Nat) (hb : AllBytes data) :
    lookupWidth cm w fuel data = specDecode secs w fuel data := by
  have hfun : (fun x => emit cm x) = specEmit secs := funext hem
  induction fuel generalizing data with
  | zero => simp [lookupWidth, specDecode]
  | succ f ih =>
    cases data with
    | nil => simp [lookupWidth, specDecode]
    | cons b rest =>
      simp only [lookupWidth, specDecode]
      rw [hfun, hem, ih _ (allBytes_drop hb w)]
      rw [codeOf_beVal _ (allBytes_take hb w) (by rw [List.length_take]; exact Nat.le_trans (Nat.min_le_left _ _) hw4)]

/-- **LookupString of a parsed program, for every byte string** -/
theorem lookupString_total (p : Policy) (w : Nat) (hw1 : 1 ≤ w) (hw4 : w ≤ 4) (secs : List Section)
    (hs : ∀ s ∈ secs, SectionOK w s) (data : List Nat) (hb : AllBytes data) :
    lookupString (parseCMapData (renderProgram p w secs)) data = specDecode secs w (data.length + 1) data := by
  obtain ⟨hch, hrg, hinv⟩ := Tabula.CMapCompose.parse_program_state' p w hw1 hw4 secs hs
  unfold lookupString
  rw [effectiveWidth_of_inv w _ hinv, if_pos (by omega)]
  exact lookupWidth_spec secs _ (emit_of_state_total w secs hs _ hch hrg) w hw4 _ data hb

/-- one code, for every code -/
theorem lookup_total (p : Policy) (w : Nat) (hw1 : 1 ≤ w) (hw4 : w ≤ 4) (secs : List Section)
    (hs : ∀ s ∈ secs, SectionOK w s) (c : Nat) :
    lookup (parseCMapData (renderProgram p w secs)) c = specText secs c := by
  obtain ⟨hch, hrg, _⟩ := Tabula.CMapCompose.parse_program_state' p w hw1 hw4 secs hs
  exact lookup_of_state_total w secs hs _ hch hrg c

theorem specEmit_congr (s1 s2 : List Section) (h : ∀ c, specText s1 c = specText s2 c) :
    specEmit s1 = specEmit s2 := by
  funext c
  unfold specEmit
  rw [h c]

theorem specDecode_congr (s1 s2 : List Section) (h : ∀ c, specText s1 c = specText s2 c) (w fuel : Nat) (data : List Nat) :
    specDecode s1 w fuel data = specDecode s2 w fuel data := by
  have he := specEmit_congr s1 s2 h
  induction fuel generalizing data with
  | zero => simp [specDecode]
  | succ f ih =>
    cases data with
    | nil => simp [specDecode]
    | cons b rest =>
      simp only [specDecode]
      rw [he, ih]

/-- **arrangement independence**: two programs (any policies, any arrangement of entries into items and sections) that specify the same text for every code decode EVERY byte string alike -/
theorem arrangement_free (p1 p2 : Policy) (w : Nat) (hw1 : 1 ≤ w) (hw4 : w ≤ 4) (s1 s2 : List Section)
    (h1 : ∀ s ∈ s1, SectionOK w s) (h2 : ∀ s ∈ s2, SectionOK w s)
    (h : ∀ c, specText s1 c = specText s2 c) (data : List Nat) (hb : AllBytes data) :
    lookupString (parseCMapData (renderProgram p1 w s1)) data = lookupString (parseCMapData (renderProgram p2 w s2)) data := by
  rw [lookupString_total p1 w hw1 hw4 s1 h1 data hb, lookupString_total p2 w hw1 hw4 s2 h2 data hb]
  exact specDecode_congr s1 s2 h w _ data

/-- the decoded text of whole codes followed by a short remainder: the shape of every byte string -/
theorem specDecode_codes (secs : List Section) (w : Nat) (hw1 : 1 ≤ w) (hw4 : w ≤ 4) (codes : List Nat) (hc : ∀ c ∈ codes, c < 256 ^ w)
    (tail : List Nat) (ht : tail.length < w) (fuel : Nat) (hf : codes.length < fuel) :
    specDecode secs w fuel (codes.flatMap (codeBytes w) ++ tail) = codes.flatMap (specEmit secs) ++ tail.flatMap (specEmit secs) := by
  induction codes generalizing fuel with
  | nil =>
    cases fuel with
    | zero => omega
    | succ f =>
      cases tail with
      | nil => simp [specDecode]
      | cons b tl =>
        simp only [List.flatMap_nil, List.nil_append, specDecode]
        rw [if_pos ht]
  | cons c cs ih =>
    cases fuel with
    | zero => omega
    | succ f =>
      simp only [List.flatMap_cons]
      rw [List.append_assoc, List.append_assoc]
      have hlen := codeBytes_length w c
      obtain ⟨b, tl, hbt⟩ : ∃ b tl, codeBytes w c = b :: tl := by
        cases h : codeBytes w c with
        | nil => rw [h] at hlen; simp at hlen; omega
        | cons b tl => exact ⟨b, tl, rfl⟩
      have hshape : codeBytes w c ++ (cs.flatMap (codeBytes w) ++ tail) = b :: (tl ++ (cs.flatMap (codeBytes w) ++ tail)) := by
        rw [hbt]; rfl
      rw [hshape]
      simp only [specDecode]
      rw [← hshape]
      have hnot : ¬ (codeBytes w c ++ (cs.flatMap (codeBytes w) ++ tail)).length < w := by
        rw [List.length_append, hlen]; omega
      rw [if_neg hnot, List.take_left' hlen, List.drop_left' hlen]
      have hval : beVal (codeBytes w c) = c := by
        unfold beVal
        rw [codeBytes_val w c, Nat.mod_eq_of_lt (hc c (by simp))]
      rw [hval]
      rw [ih (fun x hx => hc x (by simp [hx])) f (by simp at hf; omega)]

end Tabula.CMapArrange
