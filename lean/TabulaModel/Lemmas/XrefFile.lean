import TabulaModel.Model.XrefFile
import TabulaModel.Lemmas.XrefBytes
/-!
Lemmas for the byte-level cross-reference model (Model/XrefFile.lean): int64 wrap,
binary entries and the entry loops of a cross-reference stream.
-/
namespace Tabula.XrefFile
open Tabula.XrefBytes Tabula.A1

theorem wrap64_id (x : Int) (h1 : -9223372036854775808 ≤ x) (h2 : x < 9223372036854775808) :
    wrap64 x = x := by
  unfold wrap64; omega

theorem toInt64_small (v : Nat) (h : v < 9223372036854775808) : toInt64 v = (v : Int) := by
  unfold toInt64; exact wrap64_id _ (by omega) (by omega)

/-- the faithful binary entry: written with widths `w0 w1 w2` (each at most 8 bytes, the
fields fitting their widths and the int64 range), whatever follows, it reads back as written -/
theorem streamEntry_encode (k : Kind) (f1 f2 w0 w1 w2 : Nat) (rest : List Nat)
    (h0 : w0 ≤ 8) (h1 : w1 ≤ 8) (h2 : w2 ≤ 8) (hf1 : f1 < 256 ^ w1) (hf2 : f2 < 256 ^ w2)
    (hb1 : f1 < 9223372036854775808) (hb2 : f2 < 9223372036854775808)
    (hk : 0 < w0 ∨ k = .inUse) :
    streamEntry (encodeStreamEntry k f1 f2 w0 w1 w2 ++ rest) w0 w1 w2 =
      some { kind := k, f1 := (f1 : Int), f2 := (f2 : Int) } := by
  unfold streamEntry encodeStreamEntry
  have hlen : ¬ ((beBytes (kindCode k) w0 ++ beBytes f1 w1 ++ beBytes f2 w2 ++ rest).length < w0 + w1 + w2) := by
    simp [beBytes_length]; omega
  simp only [hlen, if_false]
  have hd1 : (beBytes (kindCode k) w0 ++ beBytes f1 w1 ++ beBytes f2 w2 ++ rest).drop w0 =
      beBytes f1 w1 ++ (beBytes f2 w2 ++ rest) := by
    rw [List.append_assoc, List.append_assoc, List.drop_append_of_le_length (by simp [beBytes_length])]
    simp [beBytes_length]
  have hd2 : (beBytes (kindCode k) w0 ++ beBytes f1 w1 ++ beBytes f2 w2 ++ rest).drop (w0 + w1) =
      beBytes f2 w2 ++ rest := by
    rw [← List.drop_drop, hd1, List.drop_append_of_le_length (by simp [beBytes_length])]
    simp [beBytes_length]
  rw [hd1, hd2, readBE_beBytes f1 w1 _ h1 hf1, readBE_beBytes f2 w2 _ h2 hf2,
    toInt64_small f1 hb1, toInt64_small f2 hb2]
  by_cases hw : w0 > 0
  · have hkc : kindCode k < 256 ^ w0 := by
      have : kindCode k ≤ 2 := by cases k <;> simp [kindCode]
      have : 256 ^ 1 ≤ 256 ^ w0 := Nat.pow_le_pow_right (by omega) hw
      omega
    have := readBE_beBytes (kindCode k) w0 (beBytes f1 w1 ++ (beBytes f2 w2 ++ rest)) h0 hkc
    simp only [List.append_assoc] at this ⊢
    simp only [hw, if_true, this]
    cases k <;> simp [kindCode, toInt64, wrap64]
  · have hk' : k = .inUse := by
      rcases hk with h | h
      · exact absurd h hw
      · exact h
    subst hk'
    simp [hw]

end Tabula.XrefFile

/-! ### cross-reference streams: the writer's side (ISO 32000-1 7.5.8) and the entry loops -/
namespace Tabula.XrefFile
open Tabula.XrefBytes Tabula.A1 Tabula.Pdf

/-- an entry as authored: type and the two fields -/
structure SEnt where
  kind : Kind
  f1 : Nat
  f2 : Nat
  deriving Repr, DecidableEq

def SEnt.raw (e : SEnt) : RawEntry := { kind := e.kind, f1 := (e.f1 : Int), f2 := (e.f2 : Int) }

/-- the entry fits the widths (a type field of width 0 can only mean "in use") and the int64
range tabula keeps offsets in -/
def SEnt.Ok (w0 w1 w2 : Nat) (e : SEnt) : Prop :=
  e.f1 < 256 ^ w1 ∧ e.f2 < 256 ^ w2 ∧ e.f1 < 9223372036854775808 ∧ e.f2 < 9223372036854775808 ∧
    (0 < w0 ∨ e.kind = .inUse)

/-- the binary records of a run of entries -/
def encodeRun (w0 w1 w2 : Nat) : List SEnt → Str
  | [] => []
  | e :: es => encodeStreamEntry e.kind e.f1 e.f2 w0 w1 w2 ++ encodeRun w0 w1 w2 es

/-- consecutive object numbers from `n` on -/
def numberFrom : Int → List RawEntry → RawSection
  | _, [] => []
  | n, e :: es => (n, e) :: numberFrom (n + 1) es

theorem encodeStreamEntry_length (k : Kind) (f1 f2 w0 w1 w2 : Nat) :
    (encodeStreamEntry k f1 f2 w0 w1 w2).length = w0 + w1 + w2 := by
  simp [encodeStreamEntry, beBytes_length]; omega

theorem encodeRun_length (w0 w1 w2 : Nat) (es : List SEnt) :
    (encodeRun w0 w1 w2 es).length = (w0 + w1 + w2) * es.length := by
  induction es with
  | nil => simp [encodeRun]
  | cons e es ih =>
    simp only [encodeRun, List.length_append, encodeStreamEntry_length, ih, List.length_cons]
    rw [Nat.mul_succ]; omega

theorem streamRun_encode (w0 w1 w2 : Nat) (h0 : w0 ≤ 8) (h1 : w1 ≤ 8) (h2 : w2 ≤ 8)
    (es : List SEnt) (hes : ∀ e ∈ es, e.Ok w0 w1 w2) :
    ∀ (first : Int) (rest : Str) (acc : RawSection), 0 ≤ first →
      first + es.length < 9223372036854775808 →
      streamRun w0 w1 w2 es.length first (encodeRun w0 w1 w2 es ++ rest) acc =
        some (acc ++ numberFrom first (es.map SEnt.raw), rest) := by
  induction es with
  | nil => intro first rest acc _ _; simp [streamRun, encodeRun, numberFrom]
  | cons e es ih =>
    intro first rest acc hf hb
    obtain ⟨a1, a2, a3, a4, a5⟩ := hes e (by simp)
    simp only [List.length_cons, streamRun, encodeRun, List.append_assoc]
    rw [streamEntry_encode e.kind e.f1 e.f2 w0 w1 w2 _ h0 h1 h2 a1 a2 a3 a4 a5]
    simp only
    have hdrop : (encodeStreamEntry e.kind e.f1 e.f2 w0 w1 w2 ++ (encodeRun w0 w1 w2 es ++ rest)).drop (w0 + w1 + w2)
        = encodeRun w0 w1 w2 es ++ rest := by
      rw [List.drop_append_of_le_length (by simp [encodeStreamEntry_length])]
      simp [encodeStreamEntry_length]
    simp only [List.length_cons] at hb
    rw [hdrop, wrap64_id (first + 1) (by omega) (by omega),
      ih (fun x hx => hes x (by simp [hx])) (first + 1) rest _ (by omega) (by omega)]
    simp [numberFrom, SEnt.raw]

/-- a subsection as authored: first object number and its entries -/
abbrev Sub := Nat × List SEnt

def encodeSubs (w0 w1 w2 : Nat) : List Sub → Str
  | [] => []
  | s :: ss => encodeRun w0 w1 w2 s.2 ++ encodeSubs w0 w1 w2 ss

/-- the entries of a section in the order they are assigned -/
def sectionOf : List Sub → RawSection
  | [] => []
  | s :: ss => numberFrom (s.1 : Int) (s.2.map SEnt.raw) ++ sectionOf ss

def pairsOf (subs : List Sub) : List (Int × Nat) := subs.map fun s => ((s.1 : Int), s.2.length)

def totalOf : List Sub → Nat
  | [] => 0
  | s :: ss => s.2.length + totalOf ss

theorem encodeSubs_length (w0 w1 w2 : Nat) (subs : List Sub) :
    (encodeSubs w0 w1 w2 subs).length = (w0 + w1 + w2) * totalOf subs := by
  induction subs with
  | nil => simp [encodeSubs, totalOf]
  | cons s ss ih =>
    simp only [encodeSubs, List.length_append, encodeRun_length, ih, totalOf, Nat.mul_add]

theorem streamRuns_encode (w0 w1 w2 : Nat) (h0 : w0 ≤ 8) (h1 : w1 ≤ 8) (h2 : w2 ≤ 8)
    (subs : List Sub) (hok : ∀ s ∈ subs, ∀ e ∈ s.2, e.Ok w0 w1 w2)
    (hb : ∀ s ∈ subs, s.1 + s.2.length < 9223372036854775808) :
    ∀ (rest : Str) (acc : RawSection),
      streamRuns w0 w1 w2 (pairsOf subs) (encodeSubs w0 w1 w2 subs ++ rest) acc =
        some (acc ++ sectionOf subs) := by
  induction subs with
  | nil => intro rest acc; simp [streamRuns, pairsOf, sectionOf]
  | cons s ss ih =>
    intro rest acc
    obtain ⟨first, es⟩ := s
    simp only [pairsOf, List.map_cons, streamRuns, encodeSubs, List.append_assoc]
    have hb' := hb (first, es) (by simp)
    rw [streamRun_encode w0 w1 w2 h0 h1 h2 es (hok (first, es) (by simp)) (first : Int) _ acc
      (by omega) (by simp only at hb'; omega)]
    simp only
    have := ih (fun s hs => hok s (by simp [hs])) (fun s hs => hb s (by simp [hs])) rest
      (acc ++ numberFrom (first : Int) (es.map SEnt.raw))
    simp only [pairsOf] at this
    rw [this]
    simp [sectionOf]

/-- the `/Index` array as written -/
def indexInts : List Sub → List Int
  | [] => []
  | s :: ss => (s.1 : Int) :: (s.2.length : Int) :: indexInts ss

def indexObjs (subs : List Sub) : List Obj := (indexInts subs).map Obj.int

theorem intsOf_map_int (xs : List Int) : intsOf (xs.map Obj.int) = some xs := by
  induction xs with
  | nil => rfl
  | cons x xs ih => simp [intsOf, ih]

theorem indexInts_length (subs : List Sub) : (indexInts subs).length = 2 * subs.length := by
  induction subs with
  | nil => rfl
  | cons s ss ih => simp [indexInts, ih]; omega

theorem indexPairs_of (avail : Nat) (subs : List Sub) :
    ∀ total, total + totalOf subs ≤ avail →
      indexPairs avail (indexInts subs) total = some (pairsOf subs) := by
  induction subs with
  | nil => intro total _; simp [indexInts, indexPairs, pairsOf]
  | cons s ss ih =>
    intro total h
    simp only [totalOf] at h
    simp only [indexInts, indexPairs]
    have h1 : ¬ ((s.1 : Int) < 0 ∨ (s.2.length : Int) < 0) := by omega
    have h2 : ¬ (s.2.length > avail - total) := by omega
    simp only [Int.toNat_natCast, h1, h2, if_false]
    rw [ih (total + s.2.length) (by omega)]
    simp [pairsOf]

end Tabula.XrefFile
