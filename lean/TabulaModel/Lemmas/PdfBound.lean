import TabulaModel.Model.ParserTrace
/-!
Property C06 / C02: the instrumented parsers of Model/ParserTrace.lean compute the parsers of
Model/Parser.lean and Model/CSParser.lean, and the peak of `p.depth` they report never exceeds
`maxNestingDepth` - for EVERY input, well-formed or not.  Core Lean only.
-/
namespace Tabula.Pdf

theorem core_trace (f : Nat) :
    (∀ d s, (parseObjectT f d s).1 = parseObject f d s ∧
      (d ≤ maxNestingDepth → (parseObjectT f d s).2 ≤ maxNestingDepth)) ∧
    (∀ d s acc, (parseArrayT f d s acc).1 = parseArray f d s acc ∧
      (d ≤ maxNestingDepth → (parseArrayT f d s acc).2 ≤ maxNestingDepth)) ∧
    (∀ d s acc, (parseDictT f d s acc).1 = parseDict f d s acc ∧
      (d ≤ maxNestingDepth → (parseDictT f d s acc).2 ≤ maxNestingDepth)) := by
  induction f with
  | zero =>
    refine ⟨?_, ?_, ?_⟩
    · intro d s; rw [parseObjectT, parseObject]; exact ⟨rfl, id⟩
    · intro d s acc; rw [parseArrayT, parseArray]; exact ⟨rfl, id⟩
    · intro d s acc; rw [parseDictT, parseDict]; exact ⟨rfl, id⟩
  | succ f ih =>
    obtain ⟨ihO, ihA, ihD⟩ := ih
    refine ⟨?_, ?_, ?_⟩
    · intro d s
      rw [parseObjectT, parseObject]
      cases hc : s.cur with
      | none => exact ⟨rfl, id⟩
      | some t =>
        cases t <;> dsimp only <;> first
          | exact ⟨rfl, id⟩
          | (split
             · exact ⟨rfl, id⟩
             · first
               | exact ⟨(ihA (d + 1) s.next []).1, fun _ => (ihA (d + 1) s.next []).2 (by omega)⟩
               | exact ⟨(ihD (d + 1) s.next []).1, fun _ => (ihD (d + 1) s.next []).2 (by omega)⟩)
    · intro d s acc
      rw [parseArrayT, parseArray]
      cases hc : s.cur with
      | none => exact ⟨rfl, id⟩
      | some t =>
        obtain ⟨h1, h2⟩ := ihO d s
        cases t <;> dsimp only <;> first
          | exact ⟨rfl, id⟩
          | (rw [← h1]
             revert h2
             generalize parseObjectT f d s = R
             intro h2
             rcases R with ⟨_ | ⟨o, s'⟩, p⟩
             · exact ⟨rfl, h2⟩
             · dsimp only at h2 ⊢
               exact ⟨(ihA d s' (acc ++ [o])).1, fun hd => Nat.max_le.2 ⟨h2 hd, (ihA d s' (acc ++ [o])).2 hd⟩⟩)
    · intro d s acc
      rw [parseDictT, parseDict]
      cases hc : s.cur with
      | none => exact ⟨rfl, id⟩
      | some t =>
        obtain ⟨h1, h2⟩ := ihO d s.next
        cases t <;> dsimp only <;> first
          | exact ⟨rfl, id⟩
          | (rw [← h1]
             revert h2
             generalize parseObjectT f d s.next = R
             intro h2
             rcases R with ⟨_ | ⟨o, s'⟩, p⟩
             · exact ⟨rfl, h2⟩
             · dsimp only at h2 ⊢
               exact ⟨(ihD d s' _).1, fun hd => Nat.max_le.2 ⟨h2 hd, (ihD d s' _).2 hd⟩⟩)

theorem cs_trace (f : Nat) :
    (∀ d inp, (CS.parseOperandT f d inp).1 = CS.parseOperand f d inp ∧
      (d ≤ maxNestingDepth → (CS.parseOperandT f d inp).2 ≤ maxNestingDepth)) ∧
    (∀ d inp acc, (CS.parseArrayT f d inp acc).1 = CS.parseArray f d inp acc ∧
      (d ≤ maxNestingDepth → (CS.parseArrayT f d inp acc).2 ≤ maxNestingDepth)) ∧
    (∀ d inp acc, (CS.parseDictT f d inp acc).1 = CS.parseDict f d inp acc ∧
      (d ≤ maxNestingDepth → (CS.parseDictT f d inp acc).2 ≤ maxNestingDepth)) := by
  induction f with
  | zero =>
    refine ⟨?_, ?_, ?_⟩
    · intro d s; rw [CS.parseOperandT, CS.parseOperand]; exact ⟨rfl, id⟩
    · intro d s acc; rw [CS.parseArrayT, CS.parseArray]; exact ⟨rfl, id⟩
    · intro d s acc; rw [CS.parseDictT, CS.parseDict]; exact ⟨rfl, id⟩
  | succ f ih =>
    obtain ⟨ihO, ihA, ihD⟩ := ih
    refine ⟨?_, ?_, ?_⟩
    · intro d inp
      rw [CS.parseOperandT, CS.parseOperand]
      cases hs : CS.skipSpace inp with
      | nil => exact ⟨rfl, id⟩
      | cons c r =>
        dsimp only
        by_cases h1 : c = 45 ∨ c = 43 ∨ c = 46 ∨ isDigit c = true
        · rw [if_pos h1, if_pos h1]; exact ⟨rfl, id⟩
        simp only [if_neg h1]
        by_cases h2 : c = 40
        · rw [if_pos h2, if_pos h2]; exact ⟨rfl, id⟩
        simp only [if_neg h2]
        by_cases h3 : c = 60 ∧ r ≠ [] ∧ r.head? ≠ some 60
        · rw [if_pos h3, if_pos h3]; exact ⟨rfl, id⟩
        simp only [if_neg h3]
        by_cases h4 : c = 47
        · rw [if_pos h4, if_pos h4]; exact ⟨rfl, id⟩
        simp only [if_neg h4]
        by_cases h5 : c = 91
        · simp only [if_pos h5]
          split
          · exact ⟨rfl, id⟩
          · exact ⟨(ihA (d + 1) r []).1, fun _ => (ihA (d + 1) r []).2 (by omega)⟩
        simp only [if_neg h5]
        by_cases h6 : c = 60 ∧ r.head? = some 60
        · simp only [if_pos h6]
          split
          · exact ⟨rfl, id⟩
          · exact ⟨(ihD (d + 1) _ []).1, fun _ => (ihD (d + 1) _ []).2 (by omega)⟩
        simp only [if_neg h6]
        by_cases h7 : c = 116 ∨ c = 102 ∨ c = 110
        · rw [if_pos h7, if_pos h7]; exact ⟨rfl, id⟩
        rw [if_neg h7, if_neg h7]; exact ⟨rfl, id⟩
    · intro d inp acc
      rw [CS.parseArrayT, CS.parseArray]
      by_cases h0 : inp = []
      · rw [if_pos h0, if_pos h0]; exact ⟨rfl, id⟩
      simp only [if_neg h0]
      cases hs : CS.skipSpace inp with
      | nil => exact ⟨rfl, id⟩
      | cons c r =>
        dsimp only
        by_cases h1 : c = 93
        · rw [if_pos h1, if_pos h1]; exact ⟨rfl, id⟩
        simp only [if_neg h1]
        obtain ⟨h1, h2⟩ := ihO d (c :: r)
        rw [← h1]
        revert h2
        generalize CS.parseOperandT f d (c :: r) = R
        intro h2
        rcases R with ⟨_ | ⟨o, r'⟩, p⟩
        · exact ⟨rfl, h2⟩
        · exact ⟨(ihA d r' (acc ++ [o])).1, fun hd => Nat.max_le.2 ⟨h2 hd, (ihA d r' (acc ++ [o])).2 hd⟩⟩
    · intro d inp acc
      rw [CS.parseDictT, CS.parseDict]
      by_cases h0 : inp = []
      · rw [if_pos h0, if_pos h0]; exact ⟨rfl, id⟩
      simp only [if_neg h0]
      cases hs : CS.skipSpace inp with
      | nil => exact ⟨rfl, id⟩
      | cons c r =>
        dsimp only
        by_cases h1 : c = 62 ∧ r.head? = some 62
        · rw [if_pos h1, if_pos h1]; exact ⟨rfl, id⟩
        simp only [if_neg h1]
        by_cases h2 : c ≠ 47
        · rw [if_pos h2, if_pos h2]; exact ⟨rfl, id⟩
        simp only [if_neg h2]
        obtain ⟨h1, h2⟩ := ihO d (CS.nameLoop r).2
        rw [← h1]
        revert h2
        generalize CS.parseOperandT f d (CS.nameLoop r).2 = R
        intro h2
        rcases R with ⟨_ | ⟨o, r'⟩, p⟩
        · exact ⟨rfl, h2⟩
        · exact ⟨(ihD d r' _).1, fun hd => Nat.max_le.2 ⟨h2 hd, (ihD d r' _).2 hd⟩⟩

theorem cs_loop_trace (n fuel : Nat) (inp : Str) (stack : List Obj) (ops : List CS.Operation) (pk : Nat)
    (hpk : pk ≤ maxNestingDepth) :
    (CS.parseLoopT n fuel inp stack ops pk).1 = CS.parseLoop n fuel inp stack ops ∧
      (CS.parseLoopT n fuel inp stack ops pk).2 ≤ maxNestingDepth := by
  induction n generalizing inp stack ops pk with
  | zero => rw [CS.parseLoopT, CS.parseLoop]; exact ⟨rfl, hpk⟩
  | succ n ih =>
    rw [CS.parseLoopT, CS.parseLoop]
    cases hs : CS.skipSpace inp with
    | nil => exact ⟨rfl, hpk⟩
    | cons c r =>
      dsimp only
      split
      · split
        · exact ⟨rfl, hpk⟩
        · exact ih _ _ _ pk hpk
      · obtain ⟨h1, h2⟩ := (cs_trace fuel).1 0 (c :: r)
        rw [← h1]
        have h2 := h2 (Nat.zero_le _)
        revert h2
        generalize CS.parseOperandT fuel 0 (c :: r) = R
        intro h2
        rcases R with ⟨_ | ⟨o, r'⟩, p⟩
        · exact ⟨rfl, Nat.max_le.2 ⟨hpk, h2⟩⟩
        · exact ih r' (stack ++ [o]) ops (max pk p) (Nat.max_le.2 ⟨hpk, h2⟩)

/-- the document-level parser never has more than `maxNestingDepth` arrays and dictionaries open,
whatever the input -/
theorem core_peak_bounded (inp : Str) :
    (coreParseT inp).1 = coreParse inp ∧ (coreParseT inp).2 ≤ maxNestingDepth :=
  ⟨((core_trace _).1 0 _).1, ((core_trace _).1 0 _).2 (Nat.zero_le _)⟩

/-- the content-stream parser never has more than `maxNestingDepth` arrays and dictionaries open,
whatever the input -/
theorem cs_peak_bounded (inp : Str) :
    (CS.csParseT inp).1 = CS.csParse inp ∧ (CS.csParseT inp).2 ≤ maxNestingDepth :=
  cs_loop_trace _ _ inp [] [] 0 (Nat.zero_le _)

/-! ### what the parsers accept is never deeper than the limit -/

theorem depthList_append (a b : List Obj) :
    Obj.depthList (a ++ b) = max (Obj.depthList a) (Obj.depthList b) := by
  induction a with
  | nil => simp [Obj.depthList]
  | cons x xs ih => simp only [List.cons_append, Obj.depthList, ih]; omega

theorem depthKV_dictSet (acc : List (Str × Obj)) (k : Str) (o : Obj) :
    Obj.depthKV (dictSet acc k o) ≤ max (Obj.depthKV acc) o.depth := by
  induction acc with
  | nil => simp [dictSet, Obj.depthKV]
  | cons a r ih =>
    obtain ⟨k', v'⟩ := a
    simp only [dictSet]
    split
    · simp only [Obj.depthKV]; omega
    · simp only [Obj.depthKV]; omega

theorem parseReal_depth (v : Str) (o : Obj) (h : parseReal v = some o) : o.depth = 0 := by
  unfold parseReal at h
  dsimp only at h
  repeat' split at h
  all_goals (cases h <;> rfl)

theorem parseNumber_depth (s : PState) (v : Str) (o : Obj) (s' : PState)
    (h : parseNumber s v = .ok (o, s')) : o.depth = 0 := by
  unfold parseNumber at h
  repeat' (first | split at h | (dsimp only at h; split at h))
  all_goals (cases h <;> first | rfl | exact parseReal_depth _ _ (by assumption))

theorem core_accept (f : Nat) :
    (∀ d s o s', parseObject f d s = .ok (o, s') → d ≤ maxNestingDepth → d + o.depth ≤ maxNestingDepth) ∧
    (∀ d s acc o s', parseArray f d s acc = .ok (o, s') → d + Obj.depthList acc ≤ maxNestingDepth →
      o.depth + d ≤ maxNestingDepth + 1) ∧
    (∀ d s acc o s', parseDict f d s acc = .ok (o, s') → d + Obj.depthKV acc ≤ maxNestingDepth →
      o.depth + d ≤ maxNestingDepth + 1) := by
  induction f with
  | zero =>
    refine ⟨?_, ?_, ?_⟩
    · intro d s o s' h; rw [parseObject] at h; cases h
    · intro d s acc o s' h; rw [parseArray] at h; cases h
    · intro d s acc o s' h; rw [parseDict] at h; cases h
  | succ f ih =>
    obtain ⟨ihO, ihA, ihD⟩ := ih
    refine ⟨?_, ?_, ?_⟩
    · intro d s o s' h hd
      rw [parseObject] at h
      cases hc : s.cur with
      | none => rw [hc] at h; cases h
      | some t =>
        rw [hc] at h
        cases t with
        | eof => dsimp only at h; split at h <;> cases h
        | comment v => cases h
        | keyword v =>
          dsimp only at h
          repeat' split at h
          all_goals (cases h <;> (simp only [Obj.depth]; omega))
        | integer v => have := parseNumber_depth s v o s' h; omega
        | real v =>
          dsimp only at h
          split at h
          · cases h
          · next o' ho => cases h; have := parseReal_depth v _ ho; omega
        | str v => cases h; simp only [Obj.depth]; omega
        | hexstr v => cases h; simp only [Obj.depth]; omega
        | name v => cases h; simp only [Obj.depth]; omega
        | arrStart =>
          dsimp only at h
          split at h
          · cases h
          · have := ihA (d + 1) s.next [] o s' h (by simp only [Obj.depthList]; omega); omega
        | arrEnd => cases h
        | dictStart =>
          dsimp only at h
          split at h
          · cases h
          · have := ihD (d + 1) s.next [] o s' h (by simp only [Obj.depthKV]; omega); omega
        | dictEnd => cases h
        | ref => cases h
    · intro d s acc o s' h hd
      rw [parseArray] at h
      cases hc : s.cur with
      | none => rw [hc] at h; cases h
      | some t =>
        rw [hc] at h
        have step : (match parseObject f d s with
            | .error _ => (.error .err : Except PErr (Obj × PState))
            | .ok (o, s') => parseArray f d s' (acc ++ [o])) = .ok (o, s') →
            o.depth + d ≤ maxNestingDepth + 1 := by
          intro h
          split at h
          · cases h
          · next o1 s1 h1 =>
            have a := ihO d s o1 s1 h1 (by omega)
            refine ihA d s1 (acc ++ [o1]) o s' h ?_
            rw [depthList_append]
            simp only [Obj.depthList]; omega
        cases t with
        | arrEnd => cases h; simp only [Obj.depth]; omega
        | eof => cases h
        | _ => exact step h
    · intro d s acc o s' h hd
      rw [parseDict] at h
      cases hc : s.cur with
      | none => rw [hc] at h; cases h
      | some t =>
        rw [hc] at h
        cases t with
        | dictEnd => cases h; simp only [Obj.depth]; omega
        | name k =>
          dsimp only at h
          split at h
          · cases h
          · next o1 s1 h1 =>
            have a := ihO d s.next o1 s1 h1 (by omega)
            refine ihD d s1 _ o s' h ?_
            have := depthKV_dictSet acc k o1
            omega
        | _ => cases h

theorem cs_parseNumber_depth (inp : Str) (o : Obj) (r : Str) (h : CS.parseNumber inp = some (o, r)) :
    o.depth = 0 := by
  unfold CS.parseNumber at h
  dsimp only at h
  repeat' split at h
  all_goals (cases h <;> first | rfl | exact parseReal_depth _ _ (by assumption))

theorem cs_accept (f : Nat) :
    (∀ d inp o r, CS.parseOperand f d inp = some (o, r) → d ≤ maxNestingDepth →
      d + o.depth ≤ maxNestingDepth) ∧
    (∀ d inp acc o r, CS.parseArray f d inp acc = some (o, r) → d + Obj.depthList acc ≤ maxNestingDepth →
      o.depth + d ≤ maxNestingDepth + 1) ∧
    (∀ d inp acc o r, CS.parseDict f d inp acc = some (o, r) → d + Obj.depthKV acc ≤ maxNestingDepth →
      o.depth + d ≤ maxNestingDepth + 1) := by
  induction f with
  | zero =>
    refine ⟨?_, ?_, ?_⟩
    · intro d s o s' h; rw [CS.parseOperand] at h; cases h
    · intro d s acc o s' h; rw [CS.parseArray] at h; cases h
    · intro d s acc o s' h; rw [CS.parseDict] at h; cases h
  | succ f ih =>
    obtain ⟨ihO, ihA, ihD⟩ := ih
    refine ⟨?_, ?_, ?_⟩
    · intro d inp o r0 h hd
      rw [CS.parseOperand] at h
      cases hs : CS.skipSpace inp with
      | nil => rw [hs] at h; cases h
      | cons c r =>
        rw [hs] at h
        dsimp only at h
        by_cases h1 : c = 45 ∨ c = 43 ∨ c = 46 ∨ isDigit c = true
        · rw [if_pos h1] at h; have := cs_parseNumber_depth _ _ _ h; omega
        rw [if_neg h1] at h
        by_cases h2 : c = 40
        · rw [if_pos h2] at h
          split at h
          · cases h
          · cases h; simp only [Obj.depth]; omega
        rw [if_neg h2] at h
        by_cases h3 : c = 60 ∧ r ≠ [] ∧ r.head? ≠ some 60
        · rw [if_pos h3] at h
          split at h
          · cases h
          · cases h; simp only [Obj.depth]; omega
        rw [if_neg h3] at h
        by_cases h4 : c = 47
        · rw [if_pos h4] at h; cases h; simp only [Obj.depth]; omega
        rw [if_neg h4] at h
        by_cases h5 : c = 91
        · rw [if_pos h5] at h
          split at h
          · cases h
          · have := ihA (d + 1) r [] o r0 h (by simp only [Obj.depthList]; omega); omega
        rw [if_neg h5] at h
        by_cases h6 : c = 60 ∧ r.head? = some 60
        · rw [if_pos h6] at h
          split at h
          · cases h
          · have := ihD (d + 1) _ [] o r0 h (by simp only [Obj.depthKV]; omega); omega
        rw [if_neg h6] at h
        by_cases h7 : c = 116 ∨ c = 102 ∨ c = 110
        · rw [if_pos h7] at h
          repeat' split at h
          all_goals (cases h <;> (simp only [Obj.depth]; omega))
        rw [if_neg h7] at h; cases h
    · intro d inp acc o r0 h hd
      rw [CS.parseArray] at h
      by_cases h0 : inp = []
      · rw [if_pos h0] at h; cases h; simp only [Obj.depth]; omega
      rw [if_neg h0] at h
      cases hs : CS.skipSpace inp with
      | nil => rw [hs] at h; cases h
      | cons c r =>
        rw [hs] at h
        dsimp only at h
        by_cases h1 : c = 93
        · rw [if_pos h1] at h; cases h; simp only [Obj.depth]; omega
        rw [if_neg h1] at h
        split at h
        · cases h
        · next o1 r1 hp =>
          have a := ihO d (c :: r) o1 r1 hp (by omega)
          refine ihA d r1 (acc ++ [o1]) o r0 h ?_
          rw [depthList_append]
          simp only [Obj.depthList]; omega
    · intro d inp acc o r0 h hd
      rw [CS.parseDict] at h
      by_cases h0 : inp = []
      · rw [if_pos h0] at h; cases h; simp only [Obj.depth]; omega
      rw [if_neg h0] at h
      cases hs : CS.skipSpace inp with
      | nil => rw [hs] at h; cases h
      | cons c r =>
        rw [hs] at h
        dsimp only at h
        by_cases h1 : c = 62 ∧ r.head? = some 62
        · rw [if_pos h1] at h; cases h; simp only [Obj.depth]; omega
        rw [if_neg h1] at h
        by_cases h2 : c ≠ 47
        · rw [if_pos h2] at h; cases h
        rw [if_neg h2] at h
        split at h
        · cases h
        · next o1 r1 hp =>
          have a := ihO d _ o1 r1 hp (by omega)
          refine ihD d r1 _ o r0 h ?_
          have := depthKV_dictSet acc (CS.nameLoop r).1 o1
          omega

theorem cs_loop_accept (n fuel : Nat) (inp : Str) (stack : List Obj) (ops res : List CS.Operation)
    (h : CS.parseLoop n fuel inp stack ops = some res)
    (hst : ∀ x ∈ stack, x.depth ≤ maxNestingDepth)
    (hops : ∀ op ∈ ops, ∀ x ∈ op.operands, x.depth ≤ maxNestingDepth) :
    ∀ op ∈ res, ∀ x ∈ op.operands, x.depth ≤ maxNestingDepth := by
  induction n generalizing inp stack ops with
  | zero => rw [CS.parseLoop] at h; cases h
  | succ n ih =>
    rw [CS.parseLoop] at h
    cases hs : CS.skipSpace inp with
    | nil => rw [hs] at h; cases h; exact hops
    | cons c r =>
      rw [hs] at h
      dsimp only at h
      split at h
      · split at h
        · cases h
        · refine ih _ _ _ h (by intro x hx; cases hx) ?_
          intro op hop x hx
          rcases List.mem_append.1 hop with hop | hop
          · exact hops op hop x hx
          · simp only [List.mem_singleton] at hop
            subst hop
            exact hst x hx
      · split at h
        · cases h
        · next o r' hp =>
          have a := (cs_accept fuel).1 0 (c :: r) o r' hp (Nat.zero_le _)
          refine ih _ _ _ h ?_ hops
          intro x hx
          rcases List.mem_append.1 hx with hx | hx
          · exact hst x hx
          · simp only [List.mem_singleton] at hx
            subst hx; omega

/-- whatever the document-level parser accepts is nested at most `maxNestingDepth` deep -/
theorem core_accepts_shallow (inp : Str) (o : Obj) (s : PState) (h : coreParse inp = .ok (o, s)) :
    o.depth ≤ maxNestingDepth := by
  have := (core_accept _).1 0 _ o s h (Nat.zero_le _)
  omega

/-- whatever the content-stream parser accepts has operands nested at most `maxNestingDepth` deep -/
theorem cs_accepts_shallow (inp : Str) (ops : List CS.Operation) (h : CS.csParse inp = some ops) :
    ∀ op ∈ ops, ∀ x ∈ op.operands, x.depth ≤ maxNestingDepth :=
  cs_loop_accept _ _ inp [] [] ops h (by intro x hx; cases hx) (by intro op hop; cases hop)

end Tabula.Pdf
