import TabulaModel.Lemmas.HeaderFooter
/-!
Helper lemmas for `Props/C11Exact.lean`: digit runs, 64-bit wrap-around, insertion sorts,
line grouping.
-/
namespace Tabula.HF

/-- no byte of the string is an ASCII digit -/
def NoDigits (s : Str) : Prop := ∀ c ∈ s, isDigit c = false

/-- every byte of the string is an ASCII digit -/
def AllDigits (s : Str) : Prop := ∀ c ∈ s, isDigit c = true

/-- the string does not begin with a digit (it may be empty) -/
def NoDigitHead : Str → Prop
  | [] => True
  | c :: _ => isDigit c = false

theorem normAux_noDigitHead : ∀ (b : Bool) (s : Str), NoDigitHead s → normAux b s = normAux false s
  | _, [], _ => by simp [normAux]
  | b, c :: cs, h => by
    have h : isDigit c = false := h
    simp [normAux, h]

theorem normAux_true_digits : ∀ (ds rest : Str), AllDigits ds → normAux true (ds ++ rest) = normAux true rest
  | [], _, _ => rfl
  | d :: ds, rest, h => by
    have hd : isDigit d = true := h d (by simp)
    have ih := normAux_true_digits ds rest (fun c hc => h c (by simp [hc]))
    simp [normAux, hd, ih]

theorem normAux_cons_nondigit (b : Bool) (c : Nat) (cs : Str) (hc : isDigit c = false) :
    normAux b (c :: cs) = c :: normAux false cs := by
  simp [normAux, hc]

theorem normAux_pre : ∀ (b : Bool) (pre rest : Str), NoDigits pre → pre ≠ [] →
    normAux b (pre ++ rest) = pre ++ normAux false rest
  | _, [], _, _, hne => absurd rfl hne
  | b, [c], rest, h, _ => by
    have hc : isDigit c = false := h c (by simp)
    exact normAux_cons_nondigit b c rest hc
  | b, c :: c' :: pre, rest, h, _ => by
    have hc : isDigit c = false := h c (by simp)
    have ih := normAux_pre false (c' :: pre) rest (fun x hx => h x (by simp [hx])) (by simp)
    rw [List.cons_append, normAux_cons_nondigit b c _ hc, ih]; simp

theorem normAux_no_digit : ∀ (b : Bool) (s : Str), ∀ c ∈ normAux b s, isDigit c = false
  | _, [], c, hc => by simp [normAux] at hc
  | b, d :: ds, c, hc => by
    unfold normAux at hc
    split at hc
    · split at hc
      · exact normAux_no_digit true ds c hc
      · rcases List.mem_cons.mp hc with rfl | hc
        · decide
        · exact normAux_no_digit true ds c hc
    · rename_i hd
      rcases List.mem_cons.mp hc with rfl | hc
      · simpa using hd
      · exact normAux_no_digit false ds c hc

theorem normAux_of_noDigits : ∀ (b : Bool) (s : Str), NoDigits s → normAux b s = s
  | _, [], _ => by simp [normAux]
  | b, c :: cs, h => by
    have hc : isDigit c = false := h c (by simp)
    have ih := normAux_of_noDigits false cs (fun x hx => h x (by simp [hx]))
    simp [normAux, hc, ih]

/-! ### digit runs -/

theorem digitRunsAux_digits : ∀ (ds rest cur : Str), AllDigits ds →
    digitRunsAux (ds ++ rest) cur = digitRunsAux rest (ds.reverse ++ cur)
  | [], _, _, _ => rfl
  | d :: ds, rest, cur, h => by
    have hd : isDigit d = true := h d (by simp)
    have ih := digitRunsAux_digits ds rest (d :: cur) (fun c hc => h c (by simp [hc]))
    simp [digitRunsAux, hd, ih]

theorem digitRunsAux_noDigits : ∀ (pre rest : Str), NoDigits pre →
    digitRunsAux (pre ++ rest) [] = digitRunsAux rest []
  | [], _, _ => rfl
  | c :: pre, rest, h => by
    have hc : isDigit c = false := h c (by simp)
    have ih := digitRunsAux_noDigits pre rest (fun x hx => h x (by simp [hx]))
    simp [digitRunsAux, hc, ih]

theorem digitRunsAux_close : ∀ (rest cur : Str), NoDigitHead rest → cur ≠ [] →
    digitRunsAux rest cur = cur.reverse :: digitRunsAux rest []
  | [], cur, _, hne => by
    cases cur with
    | nil => exact absurd rfl hne
    | cons a l => simp [digitRunsAux]
  | c :: cs, cur, h, hne => by
    have hc : isDigit c = false := h
    cases cur with
    | nil => exact absurd rfl hne
    | cons a l => simp [digitRunsAux, hc]

/-! ### 64-bit wrap-around -/

theorem wrap64_step (a d : Int) : wrap64 (wrap64 a * 10 + d) = wrap64 (a * 10 + d) := by
  unfold wrap64; omega

theorem wrap64_id {x : Int} (h1 : -9223372036854775808 ≤ x) (h2 : x < 9223372036854775808) : wrap64 x = x := by
  unfold wrap64; omega

/-- the decimal value of a digit string, in unbounded arithmetic -/
def decVal (s : Str) : Int := s.foldl (fun (num : Int) (c : Nat) => num * 10 + ((c : Int) - 48)) 0

theorem parseDigits_foldl : ∀ (s : Str) (a : Int),
    s.foldl (fun (num : Int) (c : Nat) => wrap64 (num * 10 + ((c : Int) - 48))) (wrap64 a) =
      wrap64 (s.foldl (fun (num : Int) (c : Nat) => num * 10 + ((c : Int) - 48)) a)
  | [], _ => rfl
  | c :: s, a => by
    simp only [List.foldl_cons]
    rw [wrap64_step, parseDigits_foldl s]

/-! ### insertion sorts -/

theorem insertInt_perm (a : Int) : ∀ l : List Int, (insertInt a l).Perm (a :: l)
  | [] => List.Perm.refl _
  | b :: l => by
    unfold insertInt
    split
    · exact List.Perm.refl _
    · exact ((insertInt_perm a l).cons b).trans (List.Perm.swap a b l)

theorem sortInts_perm : ∀ l : List Int, (sortInts l).Perm l
  | [] => List.Perm.refl _
  | a :: l => by
    have : sortInts (a :: l) = insertInt a (sortInts l) := rfl
    rw [this]
    exact (insertInt_perm a _).trans ((sortInts_perm l).cons a)

theorem insertInt_sorted (a : Int) : ∀ l : List Int, l.Pairwise (· ≤ ·) → (insertInt a l).Pairwise (· ≤ ·)
  | [], _ => by simp [insertInt]
  | b :: l, h => by
    unfold insertInt
    split
    · rename_i hab
      refine List.Pairwise.cons ?_ h
      intro x hx
      rcases List.mem_cons.mp hx with rfl | hx
      · exact hab
      · exact Int.le_trans hab (List.rel_of_pairwise_cons h hx)
    · rename_i hab
      refine List.Pairwise.cons ?_ (insertInt_sorted a l (List.Pairwise.of_cons h))
      intro x hx
      rcases mem_insertInt.mp hx with rfl | hx
      · omega
      · exact List.rel_of_pairwise_cons h hx

theorem sortInts_sorted : ∀ l : List Int, (sortInts l).Pairwise (· ≤ ·)
  | [] => List.Pairwise.nil
  | a :: l => insertInt_sorted a _ (sortInts_sorted l)

/-- two sorted lists with the same elements (with multiplicity) are equal -/
theorem sorted_perm_unique : ∀ (l₁ l₂ : List Int), l₁.Pairwise (· ≤ ·) → l₂.Pairwise (· ≤ ·) → l₁.Perm l₂ → l₁ = l₂
  | [], l₂, _, _, hp => (List.Perm.nil_eq hp)
  | a :: l₁, [], _, _, hp => by simp at hp
  | a :: l₁, b :: l₂, h₁, h₂, hp => by
    have hab : a = b := by
      have ha : a ∈ b :: l₂ := hp.subset (by simp)
      have hb : b ∈ a :: l₁ := hp.symm.subset (by simp)
      rcases List.mem_cons.mp ha with h | ha
      · exact h
      · rcases List.mem_cons.mp hb with h | hb
        · exact h.symm
        · have := List.rel_of_pairwise_cons h₁ hb
          have := List.rel_of_pairwise_cons h₂ ha
          omega
    subst hab
    rw [sorted_perm_unique l₁ l₂ (List.Pairwise.of_cons h₁) (List.Pairwise.of_cons h₂) (List.Perm.cons_inv hp)]

theorem insertBy_perm {α : Type} (lt : α → α → Bool) (a : α) : ∀ l : List α, (insertBy lt a l).Perm (a :: l)
  | [] => List.Perm.refl _
  | b :: l => by
    unfold insertBy
    split
    · exact ((insertBy_perm lt a l).cons b).trans (List.Perm.swap a b l)
    · exact List.Perm.refl _

theorem sortBy_perm {α : Type} (lt : α → α → Bool) : ∀ l : List α, (sortBy lt l).Perm l
  | [] => List.Perm.refl _
  | a :: l => by
    have : sortBy lt (a :: l) = insertBy lt a (sortBy lt l) := rfl
    rw [this]
    exact (insertBy_perm lt a _).trans ((sortBy_perm lt l).cons a)

/-! ### line grouping -/

theorem groupLines_flatten : ∀ (l cur : List Frag), (groupLines l cur).flatten = cur.reverse ++ l
  | [], cur => by
    unfold groupLines
    cases cur <;> simp
  | f :: rest, [] => by
    unfold groupLines
    rw [groupLines_flatten rest [f]]; simp
  | f :: rest, last :: cur => by
    unfold groupLines
    split
    · rw [groupLines_flatten rest (f :: last :: cur)]; simp
    · rw [List.flatten_cons, groupLines_flatten rest [f]]; simp

theorem groupLines_nonempty : ∀ (l cur : List Frag), ∀ g ∈ groupLines l cur, g ≠ []
  | [], cur, g, hg => by
    unfold groupLines at hg
    cases cur with
    | nil => simp at hg
    | cons a c =>
      simp at hg
      subst hg; simp
  | f :: rest, [], g, hg => by
    unfold groupLines at hg
    exact groupLines_nonempty rest [f] g hg
  | f :: rest, last :: cur, g, hg => by
    unfold groupLines at hg
    split at hg
    · exact groupLines_nonempty rest _ g hg
    · rcases List.mem_cons.mp hg with rfl | hg
      · simp
      · exact groupLines_nonempty rest [f] g hg

theorem lineText_nonblank : ∀ (l : List Frag) (o : Option Rat),
    (lineText l o).filter (fun c => c != 32) = (l.flatMap (·.text)).filter (fun c => c != 32)
  | [], _ => by simp [lineText]
  | f :: rest, none => by
    simp [lineText, lineText_nonblank rest]
  | f :: rest, some e => by
    unfold lineText
    split <;> simp [lineText_nonblank rest]

end Tabula.HF
