import TabulaModel.Model.Matrix
/-!
Algebra of `model.Matrix` over any commutative ring: the product is associative with
identity, `Transform` is a right action of the product (row-vector convention), and the
determinant is multiplicative.  All by `grind`'s commutative-ring normaliser (core Lean).
-/
namespace Tabula.Matrix
variable {α : Type} [Lean.Grind.CommRing α]

omit [Lean.Grind.CommRing α] in
theorem ext' {m o : Matrix α} (ha : m.a = o.a) (hb : m.b = o.b) (hc : m.c = o.c) (hd : m.d = o.d)
    (he : m.e = o.e) (hf : m.f = o.f) : m = o := by
  cases m; cases o; simp_all

theorem mul_assoc (x y z : Matrix α) : (x.mul y).mul z = x.mul (y.mul z) := by
  apply ext' <;> simp only [mul] <;> grind

theorem identity_mul (x : Matrix α) : identity.mul x = x := by
  apply ext' <;> simp only [mul, identity] <;> grind

theorem mul_identity (x : Matrix α) : x.mul identity = x := by
  apply ext' <;> simp only [mul, identity] <;> grind

/-- `Transform` by a product = transform by the left factor, then by the right one -/
theorem transformPoint_mul (x y : Matrix α) (p : α × α) :
    (x.mul y).transformPoint p = y.transformPoint (x.transformPoint p) := by
  simp only [mul, transformPoint, Prod.mk.injEq]
  constructor <;> grind

theorem transformPoint_identity (p : α × α) : (identity : Matrix α).transformPoint p = p := by
  obtain ⟨x, y⟩ := p
  simp only [identity, transformPoint, Prod.mk.injEq]
  constructor <;> grind

/-- a translation moves a point by `(tx,ty)` -/
theorem transformPoint_translate (tx ty : α) (p : α × α) :
    (translate tx ty).transformPoint p = (p.1 + tx, p.2 + ty) := by
  simp only [translate, transformPoint, Prod.mk.injEq]
  constructor <;> grind

/-- the image of the origin is the translation part -/
theorem transformPoint_zero (m : Matrix α) : m.transformPoint (0, 0) = (m.e, m.f) := by
  simp only [transformPoint, Prod.mk.injEq]
  constructor <;> grind

theorem det_mul (x y : Matrix α) : (x.mul y).det = x.det * y.det := by
  simp only [mul, det]; grind

/-- the matrix with its translation part dropped -/
def linear (m : Matrix α) : Matrix α := { m with e := 0, f := 0 }

theorem linear_translate_mul (tx ty : α) (m : Matrix α) :
    ((translate tx ty).mul m).linear = m.linear := by
  apply ext' <;> simp only [mul, translate, linear] <;> grind

theorem translate_mul_e (tx ty : α) (m : Matrix α) :
    ((translate tx ty).mul m).transformPoint (0, 0) = m.transformPoint (tx, ty) := by
  simp only [mul, translate, transformPoint, Prod.mk.injEq]
  constructor <;> grind

/-- the origin through a product is the translation part of the left factor through the
right factor -/
theorem origin_eq (tm ctm : Matrix α) :
    (tm.mul ctm).transformPoint (0, 0) = ctm.transformPoint (tm.e, tm.f) := by
  rw [transformPoint_mul, transformPoint_zero]

/-- a similarity: uniform scale ∘ rotation ∘ optional reflection (∘ translation): the images
of the two unit vectors have equal length and are orthogonal -/
def IsSimilarity (m : Matrix α) : Prop :=
  m.hScale2 = m.vScale2 ∧ m.a * m.c + m.b * m.d = 0

instance [DecidableEq α] (m : Matrix α) : Decidable (IsSimilarity m) := by
  unfold IsSimilarity; infer_instance

/-- for a similarity the squared scale factor squares to the squared determinant -/
theorem similarity_scale_det (m : Matrix α) (h : IsSimilarity m) :
    m.vScale2 * m.vScale2 = m.det * m.det := by
  obtain ⟨h1, h2⟩ := h
  simp only [hScale2, vScale2, det] at *
  grind

end Tabula.Matrix
