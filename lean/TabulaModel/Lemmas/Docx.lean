import TabulaModel.Model.Docx
/-!
Helper lemmas for C16 (DOCX model): the token walk of the second pass, the
inheritance chain, the vertical-merge pass.
-/
namespace Tabula.Docx
open Tabula.Xml

/-! ### the second pass as it was before block containers were looked through (HISTORY) -/

/-- below a direct child of the body (depth ≥ 1) the walk changes nothing: whatever is
nested there - paragraphs of table cells, nested tables, text boxes - is not counted -/
theorem walk_nested_node_old (paras tbls : List Node) (n : Node) :
    ∀ w : WalkOld, w.inBody = true → w.depth ≥ 1 → walkNodeOld paras tbls n w = w := by
  induction n using Node.rec (motive_2 := fun l => ∀ w : WalkOld, w.inBody = true → w.depth ≥ 1 → walkListOld paras tbls l w = w) with
  | elem tag attrs kids ih =>
    intro w hb hd
    simp only [walkNodeOld]
    have hs : startTokOld paras tbls (localName tag) w = { w with depth := w.depth + 1 } := by
      unfold startTokOld
      have : (w.depth + 1 != 1) = true := by
        simp only [bne_iff_ne, ne_eq]; omega
      simp [hb, this]
    rw [hs, ih _ (by simpa using hb) (by simp)]
    unfold endTokOld
    have h0 : (w.depth + 1 == 0) = false := by simp
    cases w with
    | mk ib d p t a =>
      simp only at hb
      subst hb
      simp [h0]
  | text s => intro w _ _; simp [walkNodeOld]
  | nil => simp [walkListOld]
  | cons n rest ihn ihr =>
    rename_i w hb hd
    simp only [walkListOld]
    rw [ihn w hb hd, ihr w hb hd]

theorem walk_nested_list_old (paras tbls : List Node) (l : List Node) :
    ∀ w : WalkOld, w.inBody = true → w.depth ≥ 1 → walkListOld paras tbls l w = w := by
  induction l with
  | nil => intro w _ _; simp [walkListOld]
  | cons n rest ih =>
    intro w hb hd
    simp only [walkListOld]
    rw [walk_nested_node_old paras tbls n w hb hd, ih w hb hd]


mutual
/-- no element named `body` anywhere in the subtree -/
def noBodyNode : Node → Bool
  | .text _ => true
  | .elem tag _ kids => localName tag != sBody && noBodyList kids
def noBodyList : List Node → Bool
  | [] => true
  | n :: rest => noBodyNode n && noBodyList rest
end

/-- outside the body the walk only looks for the `body` start tag -/
theorem walk_outside_node_old (paras tbls : List Node) (n : Node) :
    ∀ w : WalkOld, w.inBody = false → noBodyNode n = true → walkNodeOld paras tbls n w = w := by
  induction n using Node.rec (motive_2 := fun l => ∀ w : WalkOld, w.inBody = false → noBodyList l = true → walkListOld paras tbls l w = w) with
  | elem tag attrs kids ih =>
    intro w hb hn
    simp only [noBodyNode, Bool.and_eq_true, bne_iff_ne, ne_eq] at hn
    have hne : (localName tag == sBody) = false := by
      cases h : localName tag == sBody
      · rfl
      · exact absurd (by simpa using h) hn.1
    simp only [walkNodeOld]
    have hs : startTokOld paras tbls (localName tag) w = w := by
      unfold startTokOld; simp [hb, hne]
    rw [hs, ih w hb hn.2]
    unfold endTokOld; simp [hb]
  | text s => intro w _ _; simp [walkNodeOld]
  | nil => simp [walkListOld]
  | cons n rest ihn ihr =>
    rename_i w hb hn
    simp only [noBodyList, Bool.and_eq_true] at hn
    simp only [walkListOld]
    rw [ihn w hb hn.1, ihr w hb hn.2]

theorem walk_outside_list_old (paras tbls : List Node) (l : List Node) :
    ∀ w : WalkOld, w.inBody = false → noBodyList l = true → walkListOld paras tbls l w = w := by
  induction l with
  | nil => intro w _ _; simp [walkListOld]
  | cons n rest ih =>
    intro w hb hn
    simp only [noBodyList, Bool.and_eq_true] at hn
    simp only [walkListOld]
    rw [walk_outside_node_old paras tbls n w hb hn.1, ih w hb hn.2]

theorem walkListOld_append (paras tbls : List Node) (a b : List Node) (w : WalkOld) :
    walkListOld paras tbls (a ++ b) w = walkListOld paras tbls b (walkListOld paras tbls a w) := by
  induction a generalizing w with
  | nil => simp [walkListOld]
  | cons n rest ih => simp only [List.cons_append, walkListOld]; rw [ih]

theorem endTokOld_body_end (w : WalkOld) (hb : w.inBody = true) (hd : w.depth = 0) :
    endTokOld w = { w with inBody := false } := by
  unfold endTokOld
  simp [hb, hd]

/-- is a direct body child that the pass records -/
def isBodyElem (n : Node) : Bool := n.named sP || n.named sTbl

theorem drop_cons_getElem? {α : Type} {l : List α} {i : Nat} {x : α} {tl : List α}
    (h : l.drop i = x :: tl) : l[i]? = some x ∧ l.drop (i + 1) = tl := by
  constructor
  · have := List.getElem?_drop (xs := l) (i := i) (j := 0)
    rw [h] at this
    simpa using this.symm
  · have : (l.drop i).tail = l.drop (i + 1) := by simp [List.tail_drop]
    rw [← this, h]; rfl

/-- one direct child of the body (walk at depth 0 inside the body) -/
theorem walk_body_child_old (paras tbls : List Node) (tag : Str) (attrs : List (Str × Str)) (ks : List Node)
    (w : WalkOld) (hb : w.inBody = true) (hd : w.depth = 0) :
    walkNodeOld paras tbls (.elem tag attrs ks) w =
      if localName tag == sP then
        (match paras[w.pi]? with
         | some p => { w with pi := w.pi + 1, acc := w.acc ++ [p] }
         | none => w)
      else if localName tag == sTbl then
        (match tbls[w.ti]? with
         | some t => { w with ti := w.ti + 1, acc := w.acc ++ [t] }
         | none => w)
      else w := by
  cases w with
  | mk ib d pi ti acc =>
    simp only at hb hd
    subst hb; subst hd
    simp only [walkNodeOld]
    have back : ∀ w' : WalkOld, w'.inBody = true → w'.depth = 1 →
        endTokOld (walkListOld paras tbls ks w') = { w' with depth := 0 } := by
      intro w' h1 h2
      rw [walk_nested_list_old paras tbls ks w' h1 (by omega)]
      unfold endTokOld
      cases w' with
      | mk ib' d' p' t' a' =>
        simp only at h1 h2
        subst h1; subst h2
        simp
    by_cases hp : (localName tag == sP) = true
    · simp only [hp, if_true]
      unfold startTokOld
      simp only [Bool.not_true, Bool.false_eq_true, if_false, Nat.zero_add, bne_self_eq_false, hp, if_true]
      cases hq : paras[pi]? with
      | none => simp only []; rw [back _ rfl rfl]
      | some p => simp only []; rw [back _ rfl rfl]
    · have hp' : (localName tag == sP) = false := by simpa using hp
      by_cases ht : (localName tag == sTbl) = true
      · simp only [hp', ht, if_true, Bool.false_eq_true, if_false]
        unfold startTokOld
        simp only [Bool.not_true, Bool.false_eq_true, if_false, Nat.zero_add, bne_self_eq_false, hp', ht, if_true]
        cases hq : tbls[ti]? with
        | none => simp only []; rw [back _ rfl rfl]
        | some p => simp only []; rw [back _ rfl rfl]
      · have ht' : (localName tag == sTbl) = false := by simpa using ht
        simp only [hp', ht', Bool.false_eq_true, if_false]
        unfold startTokOld
        simp only [Bool.not_true, Bool.false_eq_true, if_false, Nat.zero_add, bne_self_eq_false, hp', ht']
        rw [back _ rfl rfl]


@[simp] theorem named_elem (tag : Str) (attrs : List (Str × Str)) (ks : List Node) (l : Str) :
    (Node.elem tag attrs ks).named l = (localName tag == l) := by
  simp [Node.named, Node.isElem, Node.loc, Node.tag]

@[simp] theorem named_text (s : Str) (l : Str) : (Node.text s).named l = false := by
  simp [Node.named, Node.isElem]

theorem childrenNamed_cons (n : Node) (rest : List Node) (l : Str) :
    childrenNamed (n :: rest) l = if n.named l then n :: childrenNamed rest l else childrenNamed rest l := by
  simp [childrenNamed, List.filter_cons]

/-- the walk over the direct children of the body: the k-th `p` (`tbl`) token is paired with
the k-th unmarshalled paragraph (table), which is that very child; nothing else is recorded -/
theorem walk_body_kids_old (paras tbls : List Node) :
    ∀ (kids : List Node) (w : WalkOld), w.inBody = true → w.depth = 0 →
      childrenNamed kids sP = paras.drop w.pi → childrenNamed kids sTbl = tbls.drop w.ti →
      walkListOld paras tbls kids w =
        { inBody := true, depth := 0, pi := w.pi + (childrenNamed kids sP).length,
          ti := w.ti + (childrenNamed kids sTbl).length, acc := w.acc ++ kids.filter isBodyElem } := by
  intro kids
  induction kids with
  | nil =>
    intro w hb hd _ _
    cases w with
    | mk ib d pi ti acc =>
      simp only at hb hd
      subst hb; subst hd
      simp [walkListOld, childrenNamed]
  | cons n rest ih =>
    intro w hb hd hp ht
    simp only [walkListOld]
    cases n with
    | text s =>
      simp only [walkNodeOld]
      rw [childrenNamed_cons] at hp ht
      simp only [named_text, Bool.false_eq_true, if_false] at hp ht
      rw [ih w hb hd hp ht]
      simp [childrenNamed_cons, isBodyElem, List.filter_cons]
    | elem tag attrs ks =>
      rw [walk_body_child_old paras tbls tag attrs ks w hb hd]
      rw [childrenNamed_cons] at hp ht
      simp only [named_elem] at hp ht
      by_cases h1 : (localName tag == sP) = true
      · have h2 : (localName tag == sTbl) = false := by
          have : localName tag = sP := by simpa using h1
          rw [this]; decide
        simp only [h1, h2, if_true, Bool.false_eq_true, if_false] at hp ht ⊢
        obtain ⟨hget, hdrop⟩ := drop_cons_getElem? hp.symm
        rw [hget]
        simp only []
        rw [ih { w with pi := w.pi + 1, acc := w.acc ++ [Node.elem tag attrs ks] } hb hd (by simpa using hdrop.symm) (by simpa using ht)]
        simp [childrenNamed_cons, isBodyElem, List.filter_cons, h1, h2]
        omega
      · have h1' : (localName tag == sP) = false := by simpa using h1
        by_cases h2 : (localName tag == sTbl) = true
        · simp only [h1', h2, if_true, Bool.false_eq_true, if_false] at hp ht ⊢
          obtain ⟨hget, hdrop⟩ := drop_cons_getElem? ht.symm
          rw [hget]
          simp only []
          rw [ih { w with ti := w.ti + 1, acc := w.acc ++ [Node.elem tag attrs ks] } hb hd (by simpa using hp) (by simpa using hdrop.symm)]
          simp [childrenNamed_cons, isBodyElem, List.filter_cons, h1', h2]
          omega
        · have h2' : (localName tag == sTbl) = false := by simpa using h2
          simp only [h1', h2', Bool.false_eq_true, if_false] at hp ht ⊢
          rw [ih w hb hd hp ht]
          simp [childrenNamed_cons, isBodyElem, List.filter_cons, h1', h2']


/-! ### the second pass -/

theorem drop_append_len {α : Type} {l a b : List α} {i : Nat} (h : l.drop i = a ++ b) :
    l.drop (i + a.length) = b := by
  have h2 : l.drop (i + a.length) = (l.drop i).drop a.length := by
    rw [List.drop_drop]
  rw [h2, h]
  simp

theorem childrenNamed_append (a b : List Node) (l : Str) :
    childrenNamed (a ++ b) l = childrenNamed a l ++ childrenNamed b l := by
  simp [childrenNamed, List.filter_append]

theorem blocksOfList_append (a b : List Node) : blocksOfList (a ++ b) = blocksOfList a ++ blocksOfList b := by
  induction a with
  | nil => simp [blocksOfList]
  | cons n rest ih => simp [blocksOfList, ih]

/-- below an element that is not at block level (an element that is no block container is
open between the body and here: `depth > containers`) the walk changes nothing: whatever is
nested there - paragraphs of table cells, nested tables, text boxes, the properties of a
content control - is not counted -/
theorem walk_nested_node (paras tbls : List Node) (n : Node) :
    ∀ w : Walk, w.inBody = true → w.depth > w.boxes → walkNode paras tbls n w = w := by
  induction n using Node.rec (motive_2 := fun l => ∀ w : Walk, w.inBody = true → w.depth > w.boxes → walkList paras tbls l w = w) with
  | elem tag attrs kids ih =>
    intro w hb hd
    cases w with
    | mk ib d bx p t a =>
      simp only at hb hd
      subst hb
      simp only [walkNode]
      have hs : startTok paras tbls (localName tag) ⟨true, d, bx, p, t, a⟩ = ⟨true, d + 1, bx, p, t, a⟩ := by
        unfold startTok
        have : (d + 1 != bx + 1) = true := by
          simp only [bne_iff_ne, ne_eq]; omega
        simp [this]
      rw [hs, ih ⟨true, d + 1, bx, p, t, a⟩ rfl (by show d + 1 > bx; omega)]
      unfold endTok
      have h0 : (d + 1 == 0) = false := by simp
      have h1 : (d + 1 == bx) = false := by
        simp only [beq_eq_false_iff_ne, ne_eq]; omega
      simp [h0, h1]
  | text s => intro w _ _; simp [walkNode]
  | nil => simp [walkList]
  | cons n rest ihn ihr =>
    rename_i w hb hd
    simp only [walkList]
    rw [ihn w hb hd, ihr w hb hd]

theorem walk_nested_list (paras tbls : List Node) (l : List Node) :
    ∀ w : Walk, w.inBody = true → w.depth > w.boxes → walkList paras tbls l w = w := by
  induction l with
  | nil => intro w _ _; simp [walkList]
  | cons n rest ih =>
    intro w hb hd
    simp only [walkList]
    rw [walk_nested_node paras tbls n w hb hd, ih w hb hd]

/-- outside the body the walk only looks for the `body` start tag -/
theorem walk_outside_node (paras tbls : List Node) (n : Node) :
    ∀ w : Walk, w.inBody = false → noBodyNode n = true → walkNode paras tbls n w = w := by
  induction n using Node.rec (motive_2 := fun l => ∀ w : Walk, w.inBody = false → noBodyList l = true → walkList paras tbls l w = w) with
  | elem tag attrs kids ih =>
    intro w hb hn
    simp only [noBodyNode, Bool.and_eq_true, bne_iff_ne, ne_eq] at hn
    have hne : (localName tag == sBody) = false := by
      cases h : localName tag == sBody
      · rfl
      · exact absurd (by simpa using h) hn.1
    simp only [walkNode]
    have hs : startTok paras tbls (localName tag) w = w := by
      unfold startTok; simp [hb, hne]
    rw [hs, ih w hb hn.2]
    unfold endTok; simp [hb]
  | text s => intro w _ _; simp [walkNode]
  | nil => simp [walkList]
  | cons n rest ihn ihr =>
    rename_i w hb hn
    simp only [noBodyList, Bool.and_eq_true] at hn
    simp only [walkList]
    rw [ihn w hb hn.1, ihr w hb hn.2]

theorem walk_outside_list (paras tbls : List Node) (l : List Node) :
    ∀ w : Walk, w.inBody = false → noBodyList l = true → walkList paras tbls l w = w := by
  induction l with
  | nil => intro w _ _; simp [walkList]
  | cons n rest ih =>
    intro w hb hn
    simp only [noBodyList, Bool.and_eq_true] at hn
    simp only [walkList]
    rw [walk_outside_node paras tbls n w hb hn.1, ih w hb hn.2]

theorem walkList_append (paras tbls : List Node) (a b : List Node) (w : Walk) :
    walkList paras tbls (a ++ b) w = walkList paras tbls b (walkList paras tbls a w) := by
  induction a generalizing w with
  | nil => simp [walkList]
  | cons n rest ih => simp only [List.cons_append, walkList]; rw [ih]

theorem endTok_body_end (w : Walk) (hb : w.inBody = true) (hd : w.depth = 0) :
    endTok w = { w with inBody := false } := by
  unfold endTok
  simp [hb, hd]

/-- the walk at block level (inside the body, every element open below the body a block
container: `depth = containers`): over a subtree it pairs the `p` / `tbl` elements of the
subtree's block level - the subtree itself, or, if it is a block container, the block level of
its content - with the next unmarshalled paragraphs / tables, which are those very elements
when the unmarshalled slices continue with them; it records them in document order and nothing
else, and comes back at the same level. -/
theorem walk_block_node (paras tbls : List Node) (n : Node) :
    ∀ (w : Walk) (rp rt : List Node), w.inBody = true → w.depth = w.boxes →
      paras.drop w.pi = childrenNamed (blocksOfNode n) sP ++ rp →
      tbls.drop w.ti = childrenNamed (blocksOfNode n) sTbl ++ rt →
      walkNode paras tbls n w =
        { w with pi := w.pi + (childrenNamed (blocksOfNode n) sP).length,
                 ti := w.ti + (childrenNamed (blocksOfNode n) sTbl).length,
                 acc := w.acc ++ (blocksOfNode n).filter isBodyElem } := by
  induction n using Node.rec (motive_2 := fun l =>
      ∀ (w : Walk) (rp rt : List Node), w.inBody = true → w.depth = w.boxes →
        paras.drop w.pi = childrenNamed (blocksOfList l) sP ++ rp →
        tbls.drop w.ti = childrenNamed (blocksOfList l) sTbl ++ rt →
        walkList paras tbls l w =
          { w with pi := w.pi + (childrenNamed (blocksOfList l) sP).length,
                   ti := w.ti + (childrenNamed (blocksOfList l) sTbl).length,
                   acc := w.acc ++ (blocksOfList l).filter isBodyElem }) with
  | elem tag attrs kids ih =>
    intro w rp rt hb hd hp ht
    cases w with
    | mk ib d bx p t a =>
      simp only at hb hd hp ht
      subst hb; subst hd
      simp only [walkNode]
      by_cases hc : blockContainers.contains (localName tag) = true
      · -- a block container at block level: looked through
        simp only [blocksOfNode, hc, if_true] at hp ht ⊢
        have hs : startTok paras tbls (localName tag) ⟨true, d, d, p, t, a⟩ = ⟨true, d + 1, d + 1, p, t, a⟩ := by
          unfold startTok
          have hm : localName tag ∈ blockContainers := by simpa using hc
          simp [hm]
        rw [hs, ih ⟨true, d + 1, d + 1, p, t, a⟩ rp rt rfl rfl hp ht]
        unfold endTok
        simp
      · have hc' : blockContainers.contains (localName tag) = false := by simpa using hc
        simp only [blocksOfNode, hc', Bool.false_eq_true, if_false] at hp ht ⊢
        have back : ∀ w' : Walk, w'.inBody = true → w'.depth = d + 1 → w'.boxes = d →
            endTok (walkList paras tbls kids w') = { w' with depth := d } := by
          intro w' h1 h2 h3
          rw [walk_nested_list paras tbls kids w' h1 (by omega)]
          unfold endTok
          cases w' with
          | mk ib' d' bx' p' t' a' =>
            simp only at h1 h2 h3
            subst h1; subst h2; subst h3
            simp
        have hm : ¬ (localName tag ∈ blockContainers) := by simpa using hc'
        rw [childrenNamed_cons] at hp ht
        simp only [named_elem, childrenNamed, List.filter_nil] at hp ht
        by_cases h1 : (localName tag == sP) = true
        · have h2 : (localName tag == sTbl) = false := by
            have : localName tag = sP := by simpa using h1
            rw [this]; decide
          simp only [h1, h2, if_true, Bool.false_eq_true, if_false, List.nil_append, List.cons_append] at hp ht
          obtain ⟨hget, _⟩ := drop_cons_getElem? hp
          have hs : startTok paras tbls (localName tag) ⟨true, d, d, p, t, a⟩ =
              ⟨true, d + 1, d, p + 1, t, a ++ [Node.elem tag attrs kids]⟩ := by
            unfold startTok
            simp [hm, h1, hget]
          rw [hs, back _ rfl rfl rfl]
          simp [childrenNamed_cons, childrenNamed, isBodyElem, List.filter_cons, h1, h2]
        · have h1' : (localName tag == sP) = false := by simpa using h1
          by_cases h2 : (localName tag == sTbl) = true
          · simp only [h1', h2, if_true, Bool.false_eq_true, if_false, List.nil_append, List.cons_append] at hp ht
            obtain ⟨hget, _⟩ := drop_cons_getElem? ht
            have hs : startTok paras tbls (localName tag) ⟨true, d, d, p, t, a⟩ =
                ⟨true, d + 1, d, p, t + 1, a ++ [Node.elem tag attrs kids]⟩ := by
              unfold startTok
              simp [hm, h1', h2, hget]
            rw [hs, back _ rfl rfl rfl]
            simp [childrenNamed_cons, childrenNamed, isBodyElem, List.filter_cons, h1', h2]
          · have h2' : (localName tag == sTbl) = false := by simpa using h2
            have hs : startTok paras tbls (localName tag) ⟨true, d, d, p, t, a⟩ = ⟨true, d + 1, d, p, t, a⟩ := by
              unfold startTok
              simp [hm, h1', h2']
            rw [hs, back _ rfl rfl rfl]
            simp [childrenNamed_cons, childrenNamed, isBodyElem, List.filter_cons, h1', h2']
  | text s =>
    intro w rp rt _ _ _ _
    cases w
    simp [walkNode, blocksOfNode, childrenNamed]
  | nil =>
    rename_i w rp rt hb hd hp ht
    cases w
    simp [walkList, blocksOfList, childrenNamed]
  | cons n rest ihn ihr =>
    rename_i w rp rt hb hd hp ht
    simp only [blocksOfList, childrenNamed_append, List.append_assoc] at hp ht
    simp only [walkList]
    rw [ihn w _ _ hb hd hp ht]
    rw [ihr ⟨w.inBody, w.depth, w.boxes, w.pi + (childrenNamed (blocksOfNode n) sP).length,
      w.ti + (childrenNamed (blocksOfNode n) sTbl).length, w.acc ++ (blocksOfNode n).filter isBodyElem⟩ rp rt hb hd (drop_append_len hp) (drop_append_len ht)]
    cases w
    simp [blocksOfList, childrenNamed_append, List.filter_append, Nat.add_assoc]

theorem walk_block_list (paras tbls : List Node) (l : List Node) :
    ∀ (w : Walk) (rp rt : List Node), w.inBody = true → w.depth = w.boxes →
      paras.drop w.pi = childrenNamed (blocksOfList l) sP ++ rp →
      tbls.drop w.ti = childrenNamed (blocksOfList l) sTbl ++ rt →
      walkList paras tbls l w =
        { w with pi := w.pi + (childrenNamed (blocksOfList l) sP).length,
                 ti := w.ti + (childrenNamed (blocksOfList l) sTbl).length,
                 acc := w.acc ++ (blocksOfList l).filter isBodyElem } := by
  induction l with
  | nil =>
    intro w rp rt _ _ _ _
    cases w
    simp [walkList, blocksOfList, childrenNamed]
  | cons n rest ih =>
    intro w rp rt hb hd hp ht
    simp only [blocksOfList, childrenNamed_append, List.append_assoc] at hp ht
    simp only [walkList]
    rw [walk_block_node paras tbls n w _ _ hb hd hp ht]
    rw [ih ⟨w.inBody, w.depth, w.boxes, w.pi + (childrenNamed (blocksOfNode n) sP).length,
      w.ti + (childrenNamed (blocksOfNode n) sTbl).length, w.acc ++ (blocksOfNode n).filter isBodyElem⟩ rp rt hb hd (drop_append_len hp) (drop_append_len ht)]
    cases w
    simp [blocksOfList, childrenNamed_append, List.filter_append, Nat.add_assoc]

/-- the block level of children none of which is a block container is the element children -/
theorem blocksOfList_plain (l : List Node)
    (h : ∀ n ∈ l, blockContainers.contains n.loc = false) : blocksOfList l = l.filter (·.isElem) := by
  induction l with
  | nil => simp [blocksOfList]
  | cons n rest ih =>
    have hr := ih (fun m hm => h m (List.mem_cons_of_mem _ hm))
    cases n with
    | text s => simp [blocksOfList, blocksOfNode, hr, Node.isElem, List.filter_cons]
    | elem tag attrs kids =>
      have hn := h (.elem tag attrs kids) (List.mem_cons_self ..)
      simp only [Node.loc, Node.tag] at hn
      have hm : ¬ (localName tag ∈ blockContainers) := by simpa using hn
      simp [blocksOfList, blocksOfNode, hm, hr, Node.isElem, List.filter_cons]

theorem childrenNamed_filter_isElem (l : List Node) (x : Str) :
    childrenNamed (l.filter (·.isElem)) x = childrenNamed l x := by
  simp only [childrenNamed, List.filter_filter]
  apply List.filter_congr
  intro n _
  cases n <;> simp [Node.named, Node.isElem]

theorem childNamed_filter_isElem (l : List Node) (x : Str) :
    childNamed (l.filter (·.isElem)) x = childNamed l x := by
  unfold childNamed
  induction l with
  | nil => rfl
  | cons n rest ih =>
    cases n with
    | text s =>
      simp only [List.filter_cons, Node.isElem, Bool.false_eq_true, if_false, List.find?_cons, named_text]
      exact ih
    | elem t a k =>
      simp only [List.filter_cons, Node.isElem, if_true, List.find?_cons]
      split
      · rfl
      · exact ih

/-- … so `p` / `tbl` are looked for among the direct children, as before the repair -/
theorem blocks_plain_bodyElems (l : List Node)
    (h : ∀ n ∈ l, blockContainers.contains n.loc = false) :
    (blocksOfList l).filter isBodyElem = l.filter isBodyElem := by
  rw [blocksOfList_plain l h, List.filter_filter]
  apply List.filter_congr
  intro n _
  cases n with
  | text s => simp [isBodyElem, Node.isElem]
  | elem tag attrs kids => simp [Node.isElem]

/-! ### the inheritance chain -/

theorem unvisited_nil (defs : List StyleDef) : unvisited defs [] = defs.length := by
  simp [unvisited]

theorem chainFrom_empty (defs : List StyleDef) (visited : List Str) : chainFrom defs visited [] = [] := by
  rw [chainFrom]; simp

theorem chainFrom_seen (defs : List StyleDef) (visited : List Str) (cur : Str)
    (hv : visited.contains cur = true) : chainFrom defs visited cur = [] := by
  rw [chainFrom]; simp only [hv, dite_true]; split <;> rfl

theorem chainFrom_undefined (defs : List StyleDef) (visited : List Str) (cur : Str) (hne : cur ≠ [])
    (hv : visited.contains cur = false) (hl : lookup defs cur = none) : chainFrom defs visited cur = [cur] := by
  rw [chainFrom]
  simp only [hne, if_false, hv, Bool.false_eq_true, dite_false]
  split
  · rfl
  · rename_i d h; rw [hl] at h; cases h

theorem chainFrom_defined (defs : List StyleDef) (visited : List Str) (cur : Str) (d : StyleDef) (hne : cur ≠ [])
    (hv : visited.contains cur = false) (hl : lookup defs cur = some d) :
    chainFrom defs visited cur = cur :: chainFrom defs (cur :: visited) d.basedOn := by
  rw [chainFrom]
  simp only [hne, if_false, hv, Bool.false_eq_true, dite_false]
  split
  · rename_i h; rw [hl] at h; cases h
  · rename_i d' h; rw [hl] at h; cases h; rfl


/-- induction principle following the loop of `buildInheritanceChain` -/
theorem chainFrom_ind (defs : List StyleDef) (P : List Str → Str → List Str → Prop)
    (h1 : ∀ v, P v [] [])
    (h2 : ∀ v c, v.contains c = true → P v c [])
    (h3 : ∀ v c, c ≠ [] → v.contains c = false → lookup defs c = none → P v c [c])
    (h4 : ∀ v c d, c ≠ [] → v.contains c = false → lookup defs c = some d →
      P (c :: v) d.basedOn (chainFrom defs (c :: v) d.basedOn) →
      P v c (c :: chainFrom defs (c :: v) d.basedOn)) :
    ∀ v c, P v c (chainFrom defs v c) := by
  have main : ∀ n v c, unvisited defs v = n → P v c (chainFrom defs v c) := by
    intro n
    induction n using Nat.strongRecOn with
    | _ n ih =>
      intro v c hn
      by_cases hc : c = []
      · subst hc; rw [chainFrom_empty]; exact h1 v
      · cases hv : v.contains c
        · cases hl : lookup defs c with
          | none => rw [chainFrom_undefined defs v c hc hv hl]; exact h3 v c hc hv hl
          | some d =>
            rw [chainFrom_defined defs v c d hc hv hl]
            apply h4 v c d hc hv hl
            have hlt := unvisited_lt hv hl
            exact ih (unvisited defs (c :: v)) (by omega) (c :: v) d.basedOn rfl
        · rw [chainFrom_seen defs v c hv]; exact h2 v c hv
  intro v c
  exact main _ v c rfl

/-- every id of the chain is new (not visited before) -/
theorem chainFrom_fresh (defs : List StyleDef) :
    ∀ v c, ∀ x ∈ chainFrom defs v c, v.contains x = false := by
  apply chainFrom_ind defs (fun v _ ch => ∀ x ∈ ch, v.contains x = false)
  · intro v x hx; cases hx
  · intro v c _ x hx; cases hx
  · intro v c _ hv _ x hx
    simp only [List.mem_singleton] at hx; subst hx; exact hv
  · intro v c d _ hv _ ih x hx
    simp only [List.mem_cons] at hx
    cases hx with
    | inl h => subst h; exact hv
    | inr h =>
      have := ih x h
      rw [List.contains_cons] at this
      cases hh : v.contains x
      · rfl
      · rw [hh, Bool.or_true] at this; cases this

/-- the cycle guard: no style id occurs twice in the chain -/
theorem chainFrom_nodup (defs : List StyleDef) : ∀ v c, (chainFrom defs v c).Nodup := by
  apply chainFrom_ind defs (fun _ _ ch => ch.Nodup)
  · intro _; exact List.nodup_nil
  · intro _ _ _; exact List.nodup_nil
  · intro _ c _ _ _; simp
  · intro v c d _ _ _ ih
    rw [List.nodup_cons]
    refine ⟨?_, ih⟩
    intro hmem
    have := chainFrom_fresh defs (c :: v) d.basedOn c hmem
    simp [List.contains_cons] at this

/-- the loop runs at most once per defined style, plus once for a dangling reference -/
theorem chainFrom_length (defs : List StyleDef) :
    ∀ v c, (chainFrom defs v c).length ≤ unvisited defs v + 1 := by
  apply chainFrom_ind defs (fun v _ ch => ch.length ≤ unvisited defs v + 1)
  · intro _; simp
  · intro _ _ _; simp
  · intro _ _ _ _ _; simp
  · intro v c d _ hv hl ih
    have := unvisited_lt hv hl
    simp only [List.length_cons]
    omega

/-- consecutive ids of the chain are linked by basedOn -/
def Linked (defs : List StyleDef) : List Str → Prop
  | a :: b :: rest => (∃ d, lookup defs a = some d ∧ d.basedOn = b) ∧ Linked defs (b :: rest)
  | _ => True

theorem chainFrom_head (defs : List StyleDef) (v : List Str) (c : Str) :
    ∀ x rest, chainFrom defs v c = x :: rest → x = c := by
  intro x rest h
  by_cases hc : c = []
  · subst hc; rw [chainFrom_empty] at h; cases h
  · cases hv : v.contains c
    · cases hl : lookup defs c with
      | none => rw [chainFrom_undefined defs v c hc hv hl] at h; cases h; rfl
      | some d => rw [chainFrom_defined defs v c d hc hv hl] at h; cases h; rfl
    · rw [chainFrom_seen defs v c hv] at h; cases h

theorem chainFrom_linked (defs : List StyleDef) : ∀ v c, Linked defs (chainFrom defs v c) := by
  apply chainFrom_ind defs (fun _ _ ch => Linked defs ch)
  · intro _; trivial
  · intro _ _ _; trivial
  · intro _ _ _ _ _; trivial
  · intro v c d _ _ hl ih
    cases hch : chainFrom defs (c :: v) d.basedOn with
    | nil => trivial
    | cons b rest =>
      have hb := chainFrom_head defs (c :: v) d.basedOn b rest hch
      rw [hch] at ih
      exact ⟨⟨d, hl, hb.symm⟩, ih⟩


/-! ### the vertical-merge pass changes row spans only -/

/-- what the author wrote in a cell: text, gridSpan, continuation flag -/
def strip (c : Cell) : Str × Nat × Bool := (c.text, c.colSpan, c.cont)

def stripRows (rows : List (List Cell)) : List (List (Str × Nat × Bool)) := rows.map (·.map strip)

theorem map_modify_of_inv {α β : Type} (g : α → β) (f : α → α) (h : ∀ x, g (f x) = g x) :
    ∀ (l : List α) (i : Nat), (l.modify i f).map g = l.map g := by
  intro l
  induction l with
  | nil => intro i; simp
  | cons a rest ih =>
    intro i
    cases i with
    | zero => simp [List.modify_zero_cons, h]
    | succ j => simp [List.modify_succ_cons, ih j]

theorem stripRows_bump (rows : List (List Cell)) (r i : Nat) :
    stripRows (bumpRowSpan rows r i) = stripRows rows := by
  unfold stripRows bumpRowSpan
  apply map_modify_of_inv
  intro row
  apply map_modify_of_inv
  intro c; rfl

theorem stripRows_mergeRow (rowIdx : Nat) (cells : List Cell) :
    ∀ (colIdx : Nat) (st : List (Option Nat) × List (List Cell)),
      stripRows (mergeRow rowIdx cells colIdx st).2 = stripRows st.2 := by
  induction cells with
  | nil => intro colIdx st; simp [mergeRow]
  | cons c rest ih =>
    intro colIdx st
    obtain ⟨starts, rows⟩ := st
    simp only [mergeRow]
    rw [ih]
    split
    · rfl
    · split
      · split
        · simp [stripRows_bump]
        · rfl
      · rfl

theorem stripRows_mergeRows (rows : List (List Cell)) :
    ∀ (rowIdx : Nat) (st : List (Option Nat) × List (List Cell)),
      stripRows (mergeRows rows rowIdx st).2 = stripRows st.2 := by
  induction rows with
  | nil => intro rowIdx st; simp [mergeRows]
  | cons row rest ih =>
    intro rowIdx st
    simp only [mergeRows]
    rw [ih, stripRows_mergeRow]

theorem stripRows_processVerticalMerges (rows : List (List Cell)) :
    stripRows (processVerticalMerges rows) = stripRows rows := by
  unfold processVerticalMerges
  rw [stripRows_mergeRows]

/-! ### inline content in order -/

theorem runsOfList_append (a b : List Node) : runsOfList (a ++ b) = runsOfList a ++ runsOfList b := by
  induction a with
  | nil => simp [runsOfList]
  | cons n rest ih => simp [runsOfList, ih]

/-! ### the depth limit of `decodeContent` -/

/-- `decodeContent` entered with `d ≤ maxInlineDepth`: it succeeds exactly when the containers
below nest no deeper than the limit allows, and then it yields `runsOfList` -/
theorem decodeNode_eq (n : Node) : ∀ d, d ≤ maxInlineDepth →
    decodeNode d n = if d + nestNode n ≤ maxInlineDepth then some (runsOfNode n) else none := by
  induction n using Node.rec (motive_2 := fun l => ∀ d, d ≤ maxInlineDepth →
      decodeList d l = if d + nestList l ≤ maxInlineDepth then some (runsOfList l) else none) with
  | elem tag attrs kids ih =>
    intro d hd
    simp only [decodeNode, nestNode, runsOfNode]
    split
    · simp [hd]
    · split
      · by_cases h : d + 1 > maxInlineDepth
        · have h2 : ¬ (d + (nestList kids + 1) ≤ maxInlineDepth) := by omega
          simp [h, h2]
        · have h1 : d + 1 ≤ maxInlineDepth := by omega
          simp only [h, if_false]
          rw [ih (d + 1) h1]
          have : (d + 1 + nestList kids ≤ maxInlineDepth) ↔ (d + (nestList kids + 1) ≤ maxInlineDepth) := by omega
          simp only [this]
      · simp [hd]
  | text s => intro d hd; simp [decodeNode, nestNode, runsOfNode, hd]
  | nil => rename_i d hd; simp [decodeList, nestList, runsOfList, hd]
  | cons n rest ihn ihr =>
    rename_i d hd
    simp only [decodeList, nestList, runsOfList]
    rw [ihn d hd, ihr d hd]
    by_cases h1 : d + nestNode n ≤ maxInlineDepth
    · by_cases h2 : d + nestList rest ≤ maxInlineDepth
      · have : d + max (nestNode n) (nestList rest) ≤ maxInlineDepth := by omega
        simp [h1, h2, this]
      · have : ¬ (d + max (nestNode n) (nestList rest) ≤ maxInlineDepth) := by omega
        simp [h1, h2, this]
    · have : ¬ (d + max (nestNode n) (nestList rest) ≤ maxInlineDepth) := by omega
      simp [h1, this]

theorem decodeList_eq (l : List Node) : ∀ d, d ≤ maxInlineDepth →
    decodeList d l = if d + nestList l ≤ maxInlineDepth then some (runsOfList l) else none := by
  induction l with
  | nil => intro d hd; simp [decodeList, nestList, runsOfList, hd]
  | cons n rest ih =>
    intro d hd
    simp only [decodeList, nestList, runsOfList]
    rw [decodeNode_eq n d hd, ih d hd]
    by_cases h1 : d + nestNode n ≤ maxInlineDepth
    · by_cases h2 : d + nestList rest ≤ maxInlineDepth
      · have : d + max (nestNode n) (nestList rest) ≤ maxInlineDepth := by omega
        simp [h1, h2, this]
      · have : ¬ (d + max (nestNode n) (nestList rest) ≤ maxInlineDepth) := by omega
        simp [h1, h2, this]
    · have : ¬ (d + max (nestNode n) (nestList rest) ≤ maxInlineDepth) := by omega
      simp [h1, this]

/-! ### the depth limit of `decodeBlocks` -/

/-- `decodeBlocks` entered with `d ≤ maxInlineDepth`: it reaches the end tag exactly when the
block containers below nest no deeper than the limit allows, and then it has offered the
block level `blocksOfList` to its callback, in document order -/
theorem decodeBlocksNode_eq (n : Node) : ∀ d, d ≤ maxInlineDepth →
    decodeBlocksNode d n = if d + blockNestNode n ≤ maxInlineDepth then some (blocksOfNode n) else none := by
  induction n using Node.rec (motive_2 := fun l => ∀ d, d ≤ maxInlineDepth →
      decodeBlocksList d l = if d + blockNestList l ≤ maxInlineDepth then some (blocksOfList l) else none) with
  | elem tag attrs kids ih =>
    intro d hd
    simp only [decodeBlocksNode, blockNestNode, blocksOfNode]
    split
    · by_cases h : d + 1 > maxInlineDepth
      · have h2 : ¬ (d + (blockNestList kids + 1) ≤ maxInlineDepth) := by omega
        simp [h, h2]
      · have h1 : d + 1 ≤ maxInlineDepth := by omega
        simp only [h, if_false]
        rw [ih (d + 1) h1]
        have : (d + 1 + blockNestList kids ≤ maxInlineDepth) ↔ (d + (blockNestList kids + 1) ≤ maxInlineDepth) := by omega
        simp only [this]
    · simp [hd]
  | text s => intro d hd; simp [decodeBlocksNode, blockNestNode, blocksOfNode, hd]
  | nil => rename_i d hd; simp [decodeBlocksList, blockNestList, blocksOfList, hd]
  | cons n rest ihn ihr =>
    rename_i d hd
    simp only [decodeBlocksList, blockNestList, blocksOfList]
    rw [ihn d hd, ihr d hd]
    by_cases h1 : d + blockNestNode n ≤ maxInlineDepth
    · by_cases h2 : d + blockNestList rest ≤ maxInlineDepth
      · have : d + max (blockNestNode n) (blockNestList rest) ≤ maxInlineDepth := by omega
        simp [h1, h2, this]
      · have : ¬ (d + max (blockNestNode n) (blockNestList rest) ≤ maxInlineDepth) := by omega
        simp [h1, h2, this]
    · have : ¬ (d + max (blockNestNode n) (blockNestList rest) ≤ maxInlineDepth) := by omega
      simp [h1, this]

theorem decodeBlocksList_eq (l : List Node) : ∀ d, d ≤ maxInlineDepth →
    decodeBlocksList d l = if d + blockNestList l ≤ maxInlineDepth then some (blocksOfList l) else none := by
  induction l with
  | nil => intro d hd; simp [decodeBlocksList, blockNestList, blocksOfList, hd]
  | cons n rest ih =>
    intro d hd
    simp only [decodeBlocksList, blockNestList, blocksOfList]
    rw [decodeBlocksNode_eq n d hd, ih d hd]
    by_cases h1 : d + blockNestNode n ≤ maxInlineDepth
    · by_cases h2 : d + blockNestList rest ≤ maxInlineDepth
      · have : d + max (blockNestNode n) (blockNestList rest) ≤ maxInlineDepth := by omega
        simp [h1, h2, this]
      · have : ¬ (d + max (blockNestNode n) (blockNestList rest) ≤ maxInlineDepth) := by omega
        simp [h1, h2, this]
    · have : ¬ (d + max (blockNestNode n) (blockNestList rest) ≤ maxInlineDepth) := by omega
      simp [h1, this]

/-- `blocksDecode` says: block containers nest at most `maxInlineDepth` deep -/
theorem blocksDecode_iff (kids : List Node) : blocksDecode kids = true ↔ blockNestList kids ≤ maxInlineDepth := by
  unfold blocksDecode
  rw [decodeBlocksList_eq kids 0 (Nat.zero_le _)]
  by_cases h : 0 + blockNestList kids ≤ maxInlineDepth
  · simp only [h, if_true, Option.isSome_some, true_iff]; omega
  · simp only [h, if_false, Option.isSome_none, Bool.false_eq_true, false_iff]; omega

/-- the recursion of `decodeContent` never goes deeper than `maxInlineDepth + 1` (the last
level being the call that is refused at once) -/
theorem reachNode_le (n : Node) : ∀ d, d ≤ maxInlineDepth → reachNode d n ≤ maxInlineDepth + 1 := by
  induction n using Node.rec (motive_2 := fun l => ∀ d, d ≤ maxInlineDepth → reachList d l ≤ maxInlineDepth + 1) with
  | elem tag attrs kids ih =>
    intro d hd
    simp only [reachNode]
    split
    · omega
    · split
      · split
        · omega
        · apply ih; omega
      · omega
  | text s => intro d hd; simp only [reachNode]; omega
  | nil => rename_i d hd; simp only [reachList]; omega
  | cons n rest ihn ihr =>
    rename_i d hd
    simp only [reachList]
    have := ihn d hd
    have := ihr d hd
    omega

theorem reachList_le (l : List Node) : ∀ d, d ≤ maxInlineDepth → reachList d l ≤ maxInlineDepth + 1 := by
  induction l with
  | nil => intro d hd; simp only [reachList]; omega
  | cons n rest ih =>
    intro d hd
    simp only [reachList]
    have := reachNode_le n d hd
    have := ih d hd
    omega

/-- `k` inline containers `ctag` around `inner` -/
def wrapN (ctag : Str) : Nat → List Node → List Node
  | 0, inner => inner
  | k + 1, inner => [.elem ctag [] (wrapN ctag k inner)]

theorem nest_wrapN (ctag : Str) (hc : containers.contains (localName ctag) = true) (hr : (localName ctag == sR) = false)
    (inner : List Node) : ∀ k, nestList (wrapN ctag k inner) = k + nestList inner := by
  intro k
  induction k with
  | zero => simp [wrapN]
  | succ k ih =>
    simp only [wrapN, nestList, nestNode, hr, hc, Bool.false_eq_true, if_false, if_true]
    rw [ih]; omega

theorem runs_wrapN (ctag : Str) (hc : containers.contains (localName ctag) = true) (hr : (localName ctag == sR) = false)
    (inner : List Node) : ∀ k, runsOfList (wrapN ctag k inner) = runsOfList inner := by
  intro k
  induction k with
  | zero => simp [wrapN]
  | succ k ih =>
    simp only [wrapN, runsOfList, runsOfNode, hr, hc, Bool.false_eq_true, if_false, if_true, List.append_nil]
    exact ih

theorem blockNest_wrapN (ctag : Str) (hc : blockContainers.contains (localName ctag) = true)
    (inner : List Node) : ∀ k, blockNestList (wrapN ctag k inner) = k + blockNestList inner := by
  intro k
  induction k with
  | zero => simp [wrapN]
  | succ k ih =>
    simp only [wrapN, blockNestList, blockNestNode, hc, if_true]
    rw [ih]; omega

theorem blocks_wrapN (ctag : Str) (hc : blockContainers.contains (localName ctag) = true)
    (inner : List Node) : ∀ k, blocksOfList (wrapN ctag k inner) = blocksOfList inner := by
  intro k
  induction k with
  | zero => simp [wrapN]
  | succ k ih =>
    simp only [wrapN, blocksOfList, blocksOfNode, hc, if_true, List.append_nil]
    exact ih

/-! ### `limitTableGrid` -/

/-- every span of the table set to 1 (what `limitTableGrid` does beyond the limit) -/
def resetSpans (rows : List (List Cell)) : List (List Cell) :=
  rows.map fun row => row.map fun c => { c with colSpan := 1, rowSpan := 1 }

/-- the widest row counted in cells -/
def widest (rows : List (List Cell)) : Nat := rows.foldl (fun m row => max m row.length) 0

theorem limit_cases (rows : List (List Cell)) : limitTableGrid rows = rows ∨ limitTableGrid rows = resetSpans rows := by
  unfold limitTableGrid resetSpans
  split
  · exact Or.inl rfl
  · exact Or.inr rfl

/-- within the limit (rows x spanned columns ≤ 2^20) the table is left as it is -/
theorem limit_within (rows : List (List Cell)) (h : rows.length * colCount rows ≤ maxTableGridCells) :
    limitTableGrid rows = rows := by
  unfold limitTableGrid
  by_cases hc : colCount rows = 0
  · simp [hc]
  · have hpos : 0 < colCount rows := Nat.pos_of_ne_zero hc
    have : rows.length ≤ maxTableGridCells / colCount rows := (Nat.le_div_iff_mul_le hpos).mpr h
    simp [this]

/-- a table without spans is left as it is, whatever its size -/
theorem limit_nospans (rows : List (List Cell)) (h : hasSpans rows = false) : limitTableGrid rows = rows := by
  unfold limitTableGrid
  simp [h]

/-- beyond the limit a table that has spans loses all of them -/
theorem limit_beyond (rows : List (List Cell)) (hs : hasSpans rows = true)
    (h : rows.length * colCount rows > maxTableGridCells) : limitTableGrid rows = resetSpans rows := by
  unfold limitTableGrid resetSpans
  have hc : colCount rows ≠ 0 := by
    intro h0; rw [h0] at h; simp at h
  have hpos : 0 < colCount rows := Nat.pos_of_ne_zero hc
  have : ¬ rows.length ≤ maxTableGridCells / colCount rows := by
    intro hle
    have := (Nat.le_div_iff_mul_le hpos).mp hle
    omega
  simp [hs, hc, this]

/-- the limit touches spans only: texts, continuation flags, the number of rows and of cells
in every row stay -/
theorem limit_content (rows : List (List Cell)) :
    (limitTableGrid rows).map (·.map fun c => (c.text, c.cont)) = rows.map (·.map fun c => (c.text, c.cont)) := by
  cases limit_cases rows with
  | inl h => rw [h]
  | inr h => rw [h]; simp [resetSpans, List.map_map, Function.comp_def]

theorem limit_length (rows : List (List Cell)) : (limitTableGrid rows).length = rows.length := by
  cases limit_cases rows with
  | inl h => rw [h]
  | inr h => rw [h]; simp [resetSpans]

theorem foldl_add_const (f : Cell → Nat) : ∀ (l : List Cell) (a : Nat), l.foldl (fun s c => s + f c) a = a + (l.map f).sum := by
  intro l
  induction l with
  | nil => intro a; simp
  | cons c cs ih => intro a; simp only [List.foldl_cons, List.map_cons, List.sum_cons]; rw [ih]; omega

theorem foldl_max_mono (f g : List Cell → Nat) (h : ∀ r, f r ≤ g r) : ∀ (rows : List (List Cell)) (a b : Nat), a ≤ b →
    rows.foldl (fun m row => max m (f row)) a ≤ rows.foldl (fun m row => max m (g row)) b := by
  intro rows
  induction rows with
  | nil => intro a b hab; simpa using hab
  | cons r rs ih =>
    intro a b hab
    simp only [List.foldl_cons]
    apply ih
    have := h r
    omega

/-- a table none of whose cells spans more than one column is as wide as its widest row in cells -/
theorem colCount_le_widest (rows : List (List Cell)) (h : ∀ row ∈ rows, ∀ c ∈ row, c.colSpan ≤ 1) :
    colCount rows ≤ widest rows := by
  unfold colCount widest
  have key : ∀ (rows : List (List Cell)), (∀ row ∈ rows, ∀ c ∈ row, c.colSpan ≤ 1) → ∀ a b : Nat, a ≤ b →
      rows.foldl (fun m row => max m (row.foldl (fun s c => s + c.colSpan) 0)) a ≤ rows.foldl (fun m row => max m row.length) b := by
    intro rows
    induction rows with
    | nil => intro _ a b hab; simpa using hab
    | cons r rs ih =>
      intro hr a b hab
      simp only [List.foldl_cons]
      apply ih (fun row hrow => hr row (List.mem_cons_of_mem _ hrow))
      have h1 : r.foldl (fun s c => s + c.colSpan) 0 ≤ r.length := by
        rw [foldl_add_const (fun c => c.colSpan) r 0]
        have hr' := hr r List.mem_cons_self
        clear ih hr
        induction r with
        | nil => simp
        | cons c cs ihc =>
          simp only [List.map_cons, List.sum_cons, List.length_cons]
          have := hr' c List.mem_cons_self
          have := ihc (fun x hx => hr' x (List.mem_cons_of_mem _ hx))
          omega
      omega
  exact key rows h 0 0 (Nat.le_refl 0)

theorem hasSpans_false (rows : List (List Cell)) (h : hasSpans rows = false) :
    ∀ row ∈ rows, ∀ c ∈ row, c.colSpan ≤ 1 ∧ c.rowSpan ≤ 1 := by
  intro row hrow c hc
  unfold hasSpans at h
  rw [List.any_eq_false] at h
  have h1 := h row hrow
  have h1' : (row.any fun c => decide (c.colSpan > 1) || decide (c.rowSpan > 1)) = false := by simpa using h1
  rw [List.any_eq_false] at h1'
  have h2 := h1' c hc
  simp only [Bool.or_eq_true, decide_eq_true_eq, not_or, Nat.not_lt] at h2
  exact h2

theorem widest_resetSpans (rows : List (List Cell)) : widest (resetSpans rows) = widest rows := by
  unfold widest resetSpans
  rw [List.foldl_map]
  simp

/-- **the grid after `limitTableGrid`** (rows x spanned columns) holds at most 2^20 cells, or
no more cells than rows x the widest row counted in cells - no span multiplies it -/
theorem limit_grid_bound (rows : List (List Cell)) :
    rows.length * colCount (limitTableGrid rows) ≤ max maxTableGridCells (rows.length * widest rows) := by
  have hreset : rows.length * colCount (resetSpans rows) ≤ rows.length * widest rows := by
    apply Nat.mul_le_mul_left
    rw [← widest_resetSpans]
    apply colCount_le_widest
    intro row hrow c hc
    simp only [resetSpans, List.mem_map] at hrow
    obtain ⟨r0, _, rfl⟩ := hrow
    simp only [List.mem_map] at hc
    obtain ⟨c0, _, rfl⟩ := hc
    exact Nat.le_refl 1
  by_cases hs : hasSpans rows = true
  · by_cases hw : rows.length * colCount rows ≤ maxTableGridCells
    · rw [limit_within rows hw]; omega
    · rw [limit_beyond rows hs (by omega)]; omega
  · have hs' : hasSpans rows = false := by simpa using hs
    rw [limit_nospans rows hs']
    have := colCount_le_widest rows (fun row hrow c hc => (hasSpans_false rows hs' row hrow c hc).1)
    have := Nat.mul_le_mul_left rows.length this
    omega

/-- the width of a table depends on the column spans only -/
theorem colCount_strip (a b : List (List Cell)) (h : stripRows a = stripRows b) : colCount a = colCount b := by
  have key : ∀ rows : List (List Cell), colCount rows =
      (stripRows rows).foldl (fun m row => max m (row.foldl (fun s c => s + c.2.1) 0)) 0 := by
    intro rows
    unfold colCount stripRows
    rw [List.foldl_map]
    congr 1
    funext m row
    rw [List.foldl_map]
    rfl
  rw [key a, key b, h]

end Tabula.Docx
