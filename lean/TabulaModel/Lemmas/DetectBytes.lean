import TabulaModel.Model.DetectBytes
import TabulaModel.Lemmas.Codec
import TabulaModel.Lemmas.Admit
import TabulaModel.Lemmas.EncXml
/-!
Helper lemmas for `Props/C20Bytes.lean`: how `strings.Map` (`mapRunes`) acts on the ASCII
and the non-ASCII stretches of an arbitrary byte string, and why prefix, suffix and
equality tests against ASCII patterns cannot tell it from the byte-wise ASCII case map.
-/
set_option autoImplicit false
namespace Tabula.DetectB
open Tabula.Detect Tabula.Drm Tabula.Admit Tabula.EncXml
open Tabula.Split (charLen runeLen isCont ok2 ok3 ok4)
open Tabula.Overlap (codePoint encodeRune)

/-! ### `mapRunes`, one step at a time -/

theorem mapRunes_skip (f : Nat → Nat) (k : Nat) (s : Str) : mapRunes f k s = mapRunes f 0 (s.drop k) := by
  induction k generalizing s with
  | zero => rfl
  | succ k ih =>
    cases s with
    | nil => rfl
    | cons a rest => rw [mapRunes, List.drop_succ_cons, ih]

theorem mapRunes_cons (f : Nat → Nat) (a : Nat) (rest : Str) :
    mapRunes f 0 (a :: rest) =
      encodeRune (f (codePoint (a :: rest))) ++ mapRunes f 0 ((a :: rest).drop (runeLen (a :: rest))) := by
  rw [mapRunes, mapRunes_skip]
  have : 0 < runeLen (a :: rest) := Split.runeLen_pos _
  obtain ⟨m, hm⟩ : ∃ m, runeLen (a :: rest) = m + 1 := ⟨runeLen (a :: rest) - 1, by omega⟩
  rw [hm, List.drop_succ_cons]
  rfl

theorem runeLen_one {a : Nat} {r : Str} (h : a < 128) : runeLen (a :: r) = 1 := by
  simp [runeLen, Split.charLen_one h]

theorem encodeRune_ascii {c : Nat} (h : c < 128) : encodeRune c = [c] := by
  simp [encodeRune, h]

/-- an ASCII byte is a rune of its own -/
theorem mapRunes_ascii (f : Nat → Nat) {a : Nat} (ha : a < 128) (hf : f a < 128) (rest : Str) :
    mapRunes f 0 (a :: rest) = f a :: mapRunes f 0 rest := by
  rw [mapRunes_cons, Overlap.codePoint_one ha, runeLen_one ha, encodeRune_ascii hf]
  rfl

theorem codePoint_zero (s : Str) (h : charLen s = 0) : codePoint s = 0xFFFD := by
  unfold codePoint
  rw [h]
  cases s <;> rfl

/-- the code point decoded at a non-ASCII byte is not ASCII -/
theorem codePoint_ge {a : Nat} (r : Str) (ha : 128 ≤ a) : 128 ≤ codePoint (a :: r) := by
  rcases Split.charLen_cases (a :: r) with h0 | ⟨a', r', he, h1⟩ | ⟨a', b, r', he, h2⟩ | ⟨a', b, c, r', he, h3⟩
    | ⟨a', b, c, d, r', he, h4⟩
  · rw [codePoint_zero _ h0]; omega
  · injection he with h _; omega
  · rw [he, Overlap.codePoint_two h2]
    have := Split.ok2_spec h2
    omega
  · rw [he, Overlap.codePoint_three h3]
    simp only [ok3, isCont, Bool.and_eq_true, Bool.or_eq_true, decide_eq_true_eq, beq_iff_eq] at h3
    omega
  · rw [he, Overlap.codePoint_four h4]
    simp only [ok4, isCont, Bool.and_eq_true, Bool.or_eq_true, decide_eq_true_eq, beq_iff_eq] at h4
    omega

/-- every byte of the encoding of a non-ASCII rune is a non-ASCII byte -/
theorem encodeRune_high {c : Nat} (h : 128 ≤ c) : ∀ b ∈ encodeRune c, 128 ≤ b := by
  intro b hb
  unfold encodeRune at hb
  split at hb
  · omega
  · split at hb
    · simp only [List.mem_cons, List.not_mem_nil, or_false] at hb; omega
    · split at hb
      · simp only [List.mem_cons, List.not_mem_nil, or_false] at hb; omega
      · split at hb
        · simp only [List.mem_cons, List.not_mem_nil, or_false] at hb; omega
        · simp only [List.mem_cons, List.not_mem_nil, or_false] at hb; omega

theorem encodeRune_ne_nil (c : Nat) : encodeRune c ≠ [] := by
  unfold encodeRune
  repeat' split
  all_goals simp


/-! ### inert bytes -/

/-- a byte no pattern of the code contains: a non-ASCII byte, or one of the two ASCII
letters a non-ASCII rune can be mapped to -/
def Inert (x1 x2 b : Nat) : Prop := 128 ≤ b ∨ b = x1 ∨ b = x2

/-- empty, or led by an inert byte -/
def InertHead (x1 x2 : Nat) (t : Str) : Prop := t = [] ∨ ∃ b t', t = b :: t' ∧ Inert x1 x2 b

/-- empty, or ended by an inert byte -/
def InertLast (x1 x2 : Nat) (h : Str) : Prop := h = [] ∨ ∃ h' b, h = h' ++ [b] ∧ Inert x1 x2 b

/-- an ASCII pattern without the two letters -/
def NonInert (x1 x2 : Nat) (p : Str) : Prop := ∀ c ∈ p, c < 128 ∧ c ≠ x1 ∧ c ≠ x2

/-- what the proofs need of a case map `f` (on runes) beside its byte-wise ASCII part `g` -/
structure CaseMapOK (x1 x2 : Nat) (g f : Nat → Nat) : Prop where
  x1lt : x1 < 128
  x2lt : x2 < 128
  ascii : ∀ a, a < 128 → f a = g a ∧ g a < 128
  high : ∀ r, 128 ≤ r → 128 ≤ f r ∨ f r = x1 ∨ f r = x2
  ghigh : ∀ b, 128 ≤ b → g b = b
  gx1 : g x1 = x1
  gx2 : g x2 = x2

theorem inert_not_nonInert {x1 x2 b : Nat} {p : Str} (hb : Inert x1 x2 b) (hp : NonInert x1 x2 p) : b ∉ p := by
  intro hm
  have := hp b hm
  rcases hb with h | h | h <;> omega

theorem nonInert_tail {x1 x2 c : Nat} {p : Str} (h : NonInert x1 x2 (c :: p)) : NonInert x1 x2 p :=
  fun d hd => h d (List.mem_cons_of_mem _ hd)

theorem nonInert_reverse {x1 x2 : Nat} {p : Str} (h : NonInert x1 x2 p) : NonInert x1 x2 p.reverse :=
  fun d hd => h d (List.mem_reverse.1 hd)

theorem inertHead_nil (x1 x2 : Nat) : InertHead x1 x2 [] := Or.inl rfl

theorem inertLast_reverse {x1 x2 : Nat} {h : Str} (hh : InertLast x1 x2 h) : InertHead x1 x2 h.reverse := by
  rcases hh with rfl | ⟨h', b, rfl, hb⟩
  · exact Or.inl rfl
  · exact Or.inr ⟨b, h'.reverse, by simp, hb⟩

/-- a prefix test against an ASCII pattern does not see an inert tail -/
theorem isPrefixOf_inert {x1 x2 : Nat} {p : Str} (hp : NonInert x1 x2 p) (u : Str) {t : Str}
    (ht : InertHead x1 x2 t) : p.isPrefixOf (u ++ t) = p.isPrefixOf u := by
  induction p generalizing u with
  | nil => simp
  | cons c p ih =>
    cases u with
    | nil =>
      rcases ht with rfl | ⟨b, t', rfl, hb⟩
      · rfl
      · have hne : c ≠ b := by
          intro h
          exact inert_not_nonInert hb hp (h ▸ List.mem_cons_self)
        simp [List.isPrefixOf, hne]
    | cons a u =>
      simp only [List.cons_append, List.isPrefixOf, ih (nonInert_tail hp)]

/-- … nor does a suffix test see an inert front -/
theorem hasSuffix_inert {x1 x2 : Nat} {sfx : Str} (hp : NonInert x1 x2 sfx) {h : Str} (l : Str)
    (hh : InertLast x1 x2 h) : hasSuffix (h ++ l) sfx = hasSuffix l sfx := by
  unfold hasSuffix
  rw [List.reverse_append]
  exact isPrefixOf_inert (nonInert_reverse hp) _ (inertLast_reverse hh)

/-- … nor an equality test, as long as both tails are empty or both are not -/
theorem eq_inert {x1 x2 : Nat} {z : Str} (hz : NonInert x1 x2 z) (u : Str) {t1 t2 : Str}
    (h1 : InertHead x1 x2 t1) (h2 : InertHead x1 x2 t2) (he : t1 = [] ↔ t2 = []) :
    u ++ t1 = z ↔ u ++ t2 = z := by
  rcases h1 with rfl | ⟨b1, t1', rfl, hb1⟩
  · rw [he.1 rfl]
  · rcases h2 with rfl | ⟨b2, t2', rfl, hb2⟩
    · exact absurd (he.2 rfl) (by simp)
    · constructor
      · intro h
        exact absurd (h ▸ (by simp : b1 ∈ u ++ b1 :: t1')) (inert_not_nonInert hb1 hz)
      · intro h
        exact absurd (h ▸ (by simp : b2 ∈ u ++ b2 :: t2')) (inert_not_nonInert hb2 hz)

/-! ### the ASCII front of a string -/

/-- every string is an ASCII stretch followed by nothing or by a non-ASCII byte -/
theorem split_ascii_front (s : Str) :
    ∃ a t, s = a ++ t ∧ (∀ c ∈ a, c < 128) ∧ (t = [] ∨ ∃ b t', t = b :: t' ∧ 128 ≤ b) := by
  induction s with
  | nil => exact ⟨[], [], rfl, by simp, Or.inl rfl⟩
  | cons x s ih =>
    by_cases hx : x < 128
    · obtain ⟨a, t, rfl, ha, ht⟩ := ih
      refine ⟨x :: a, t, rfl, ?_, ht⟩
      intro c hc
      rcases List.mem_cons.1 hc with rfl | hc
      · exact hx
      · exact ha c hc
    · exact ⟨[], x :: s, rfl, by simp, Or.inr ⟨x, s, rfl, by omega⟩⟩

section
variable {x1 x2 : Nat} {g f : Nat → Nat} (ok : CaseMapOK x1 x2 g f)
include ok

/-- the ASCII front is mapped byte by byte -/
theorem mapRunes_ascii_front (a t : Str) (ha : ∀ c ∈ a, c < 128) :
    mapRunes f 0 (a ++ t) = a.map g ++ mapRunes f 0 t := by
  induction a with
  | nil => rfl
  | cons x a ih =>
    have hx : x < 128 := ha x List.mem_cons_self
    have := ok.ascii x hx
    rw [List.cons_append, mapRunes_ascii f hx (by omega), ih (fun c hc => ha c (List.mem_cons_of_mem _ hc)),
      this.1]
    rfl

/-- at a non-ASCII byte the output starts with an inert byte -/
theorem mapRunes_high_head {b : Nat} (t : Str) (hb : 128 ≤ b) : ∃ c r, mapRunes f 0 (b :: t) = c :: r ∧ Inert x1 x2 c := by
  rw [mapRunes_cons]
  have hcp := codePoint_ge t hb
  rcases ok.high _ hcp with h | h | h
  · have hne := encodeRune_ne_nil (f (codePoint (b :: t)))
    have hall := encodeRune_high h
    cases he : encodeRune (f (codePoint (b :: t))) with
    | nil => exact absurd he hne
    | cons c r =>
      refine ⟨c, _, rfl, Or.inl (hall c ?_)⟩
      rw [he]; exact List.mem_cons_self
  · rw [h, encodeRune_ascii ok.x1lt]
    exact ⟨x1, _, rfl, Or.inr (Or.inl rfl)⟩
  · rw [h, encodeRune_ascii ok.x2lt]
    exact ⟨x2, _, rfl, Or.inr (Or.inr rfl)⟩

/-- the two case maps of a string: a common ASCII front, then tails that are both empty
or both led by an inert byte -/
theorem front_forms (s : Str) :
    ∃ u t1 t2, mapRunes f 0 s = u ++ t1 ∧ s.map g = u ++ t2 ∧ InertHead x1 x2 t1 ∧ InertHead x1 x2 t2 ∧
      (t1 = [] ↔ t2 = []) ∧ ∃ a, u = a.map g ∧ (∀ c ∈ a, c < 128) ∧ (t2 = [] → s = a) ∧ a.length ≤ s.length := by
  obtain ⟨a, t, rfl, ha, ht⟩ := split_ascii_front s
  refine ⟨a.map g, mapRunes f 0 t, t.map g, mapRunes_ascii_front ok a t ha, by simp, ?_, ?_, ?_, a, rfl, ha, ?_, by simp⟩
  · rcases ht with rfl | ⟨b, t', rfl, hb⟩
    · exact Or.inl rfl
    · obtain ⟨c, r, h, hc⟩ := mapRunes_high_head ok t' hb
      exact Or.inr ⟨c, r, h, hc⟩
  · rcases ht with rfl | ⟨b, t', rfl, hb⟩
    · exact Or.inl rfl
    · exact Or.inr ⟨g b, t'.map g, rfl, Or.inl (by rw [ok.ghigh b hb]; exact hb)⟩
  · rcases ht with rfl | ⟨b, t', rfl, hb⟩
    · simp [mapRunes]
    · obtain ⟨c, r, h, _⟩ := mapRunes_high_head ok t' hb
      simp [h]
  · intro h
    have : t = [] := by simpa using h
    simp [this]

/-- prefix tests against ASCII patterns cannot tell `strings.Map` from the byte-wise map -/
theorem isPrefixOf_mapRunes {p : Str} (hp : NonInert x1 x2 p) (s : Str) :
    p.isPrefixOf (mapRunes f 0 s) = p.isPrefixOf (s.map g) := by
  obtain ⟨u, t1, t2, h1, h2, i1, i2, _, _⟩ := front_forms ok s
  rw [h1, h2, isPrefixOf_inert hp u i1, isPrefixOf_inert hp u i2]

/-- … nor can equality tests -/
theorem eq_mapRunes {z : Str} (hz : NonInert x1 x2 z) (s : Str) : mapRunes f 0 s = z ↔ s.map g = z := by
  obtain ⟨u, t1, t2, h1, h2, i1, i2, he, _⟩ := front_forms ok s
  rw [h1, h2]
  exact eq_inert hz u i1 i2 he

end


/-! ### the HTML front tests on an inert tail -/

theorem magicWS_not_inert {b : Nat} (hb : Inert 73 83 b) : isMagicWS b = false := by
  rcases hb with h | h | h <;> simp [isMagicWS] <;> omega

theorem dropWhile_ws_inert (y : Str) {t : Str} (ht : InertHead 73 83 t) :
    (y ++ t).dropWhile isMagicWS = y.dropWhile isMagicWS ++ t := by
  induction y with
  | nil =>
    rcases ht with rfl | ⟨b, t', rfl, hb⟩
    · rfl
    · simp [List.dropWhile, magicWS_not_inert hb]
  | cons a y ih =>
    cases ha : isMagicWS a
    · simp [List.dropWhile, ha]
    · simp [List.dropWhile, ha, ih]

theorem nonInert_doctype : NonInert 73 83 sDoctype := by unfold NonInert; decide
theorem nonInert_htmlName : NonInert 73 83 sHtmlName := by unfold NonInert; decide
theorem nonInert_htmlTag : NonInert 73 83 sHtmlTag := by unfold NonInert; decide
theorem nonInert_xmlDecl : NonInert 73 83 sXmlDecl := by unfold NonInert; decide

/-- `isHTMLDoctype` does not see an inert tail -/
theorem isHTMLDoctype_inert (u : Str) {t : Str} (ht : InertHead 73 83 t) :
    isHTMLDoctype (u ++ t) = isHTMLDoctype u := by
  unfold isHTMLDoctype
  rw [isPrefixOf_inert nonInert_doctype u ht]
  cases hp : sDoctype.isPrefixOf u with
  | false => rfl
  | true =>
    have hl : sDoctype.length ≤ u.length := isPrefixOf_length hp
    simp only [Bool.true_and]
    rw [List.drop_append_of_le_length hl, dropWhile_ws_inert _ ht,
      isPrefixOf_inert nonInert_htmlName _ ht]
    congr 1
    simp only [List.length_append, decide_eq_decide]
    omega

section
variable {up : CaseTable}

/-- the one fact about `unicode.ToUpper` the theorems use: outside ASCII it yields no ASCII
letter other than `I` (from U+0131) and `S` (from U+017F) -/
def UpperOK (up : CaseTable) : Prop := ∀ r, 128 ≤ r → 128 ≤ up r ∨ up r = 73 ∨ up r = 83

/-- the same for `unicode.ToLower`: `i` (from U+0130) and `k` (from U+212A) -/
def LowerOK (lo : CaseTable) : Prop := ∀ r, 128 ≤ r → 128 ≤ lo r ∨ lo r = 105 ∨ lo r = 107

theorem caseMapOK_upper (h : UpperOK up) : CaseMapOK 73 83 upperB (upperR up) where
  x1lt := by decide
  x2lt := by decide
  ascii := by
    intro a ha
    refine ⟨by simp [upperR, ha], ?_⟩
    unfold upperB; split <;> omega
  high := by
    intro r hr
    have : ¬ r < 128 := by omega
    simp only [upperR, this, if_false]
    exact h r hr
  ghigh := by
    intro b hb
    unfold upperB; rw [if_neg]; omega
  gx1 := by decide
  gx2 := by decide

theorem caseMapOK_lower {lo : CaseTable} (h : LowerOK lo) : CaseMapOK 105 107 lowerB (lowerR lo) where
  x1lt := by decide
  x2lt := by decide
  ascii := by
    intro a ha
    refine ⟨by simp [lowerR, ha], ?_⟩
    unfold lowerB; split <;> omega
  high := by
    intro r hr
    have : ¬ r < 128 := by omega
    simp only [lowerR, this, if_false]
    exact h r hr
  ghigh := by
    intro b hb
    unfold lowerB; rw [if_neg]; omega
  gx1 := by decide
  gx2 := by decide

theorem isHTMLDoctype_goUpper (h : UpperOK up) (d : Str) :
    isHTMLDoctype (goUpper up d) = isHTMLDoctype (upper d) := by
  obtain ⟨u, t1, t2, h1, h2, i1, i2, _, _⟩ := front_forms (caseMapOK_upper h) d
  unfold goUpper upper
  rw [h1, h2, isHTMLDoctype_inert u i1, isHTMLDoctype_inert u i2]

/-- where the first 500 bytes are ASCII, the upper-cased window is that of the byte-wise map -/
theorem goUpper_window (h : UpperOK up) (d : Str) (ha : ∀ c ∈ d.take 500, c < 128) :
    (goUpper up d).take 500 = (upper d).take 500 := by
  have hd : d = d.take 500 ++ d.drop 500 := (List.take_append_drop 500 d).symm
  unfold goUpper upper
  rw [hd, mapRunes_ascii_front (caseMapOK_upper h) _ _ ha, List.map_append]
  by_cases hl : d.length ≤ 500
  · have : d.drop 500 = [] := List.drop_eq_nil_of_le hl
    simp [this, mapRunes]
  · have hlen : ((d.take 500).map upperB).length = 500 := by
      rw [List.length_map, List.length_take]; omega
    rw [List.take_append_of_le_length (by omega), List.take_append_of_le_length (by omega)]

end


/-! ### an ASCII byte behind a string -/

/-- an ASCII byte behind a non-empty string does not change the rune at its head -/
theorem rune_snoc (h : Str) (hne : h ≠ []) {a : Nat} (ha : a < 128) :
    runeLen (h ++ [a]) = runeLen h ∧ codePoint (h ++ [a]) = codePoint h := by
  by_cases hc : charLen h = 0
  · have hc' : charLen (h ++ [a]) = 0 := by
      apply Classical.byContradiction
      intro hk
      have hlen : charLen (h ++ [a]) ≤ h.length + 1 := by
        have := Split.charLen_le_length (h ++ [a]); simpa using this
      have hpos : 0 < h.length := List.length_pos_iff.mpr hne
      by_cases hle : charLen (h ++ [a]) ≤ h.length
      · have := Split.charLen_take (h ++ [a]) h.length hk hle
        rw [List.take_left'] at this
        · omega
        · rfl
      · obtain ⟨b, hb, hcont⟩ := Split.charLen_cont (h ++ [a]) h.length hpos (by omega)
        rw [List.getElem?_append_right (Nat.le_refl _)] at hb
        simp only [Nat.sub_self, List.getElem?_cons_zero, Option.some.injEq] at hb
        subst hb
        simp only [isCont, Bool.and_eq_true, decide_eq_true_eq] at hcont
        omega
    exact ⟨by simp [runeLen, hc, hc'], by rw [codePoint_zero _ hc, codePoint_zero _ hc']⟩
  · have hc' := Split.charLen_append h [a] hc
    refine ⟨by simp [runeLen, hc'], ?_⟩
    rcases Split.charLen_cases h with h0 | ⟨x, r, rfl, h1⟩ | ⟨x, y, r, rfl, h2⟩ | ⟨x, y, z, r, rfl, h3⟩
      | ⟨x, y, z, w, r, rfl, h4⟩
    · exact absurd h0 hc
    · rw [List.cons_append, Overlap.codePoint_one h1, Overlap.codePoint_one h1]
    · rw [List.cons_append, List.cons_append, Overlap.codePoint_two h2, Overlap.codePoint_two h2]
    · rw [List.cons_append, List.cons_append, List.cons_append, Overlap.codePoint_three h3,
        Overlap.codePoint_three h3]
    · rw [List.cons_append, List.cons_append, List.cons_append, List.cons_append, Overlap.codePoint_four h4,
        Overlap.codePoint_four h4]

theorem runeLen_le (s : Str) (hs : s ≠ []) : runeLen s ≤ s.length := by
  unfold runeLen
  split
  · exact List.length_pos_iff.mpr hs
  · exact Split.charLen_le_length s

/-- `strings.Map` maps an ASCII byte behind a string on its own -/
theorem mapRunes_snoc (f : Nat → Nat) {a : Nat} (ha : a < 128) (hf : f a < 128) (h : Str) (k : Nat)
    (hk : k ≤ h.length) : mapRunes f k (h ++ [a]) = mapRunes f k h ++ [f a] := by
  induction h generalizing k with
  | nil =>
    have : k = 0 := by simpa using hk
    subst this
    rw [List.nil_append, mapRunes_ascii f ha hf]
    rfl
  | cons x h ih =>
    cases k with
    | succ k =>
      rw [List.cons_append, mapRunes, mapRunes]
      exact ih k (by simpa using hk)
    | zero =>
      have hr := rune_snoc (x :: h) (by simp) ha
      rw [List.cons_append] at hr
      rw [List.cons_append, mapRunes, mapRunes, hr.1, hr.2, List.append_assoc]
      congr 1
      apply ih
      have := runeLen_le (x :: h) (by simp)
      simp only [List.length_cons] at this
      omega

section
variable {x1 x2 : Nat} {g f : Nat → Nat} (ok : CaseMapOK x1 x2 g f)
include ok

/-- an ASCII stretch behind a string is mapped byte by byte -/
theorem mapRunes_ascii_back (h a : Str) (ha : ∀ c ∈ a, c < 128) :
    mapRunes f 0 (h ++ a) = mapRunes f 0 h ++ a.map g := by
  induction a generalizing h with
  | nil => simp
  | cons x a ih =>
    have hx : x < 128 := ha x List.mem_cons_self
    have hfx := ok.ascii x hx
    have : h ++ x :: a = (h ++ [x]) ++ a := by simp
    rw [this, ih _ (fun c hc => ha c (List.mem_cons_of_mem _ hc)),
      mapRunes_snoc f hx (by omega) h 0 (Nat.zero_le _), hfx.1]
    simp

/-- a string that ends in a non-ASCII byte is mapped to one that ends in an inert byte -/
theorem mapRunes_high_last (n : Nat) : ∀ h : Str, h.length = n →
    (∃ b, h.getLast? = some b ∧ 128 ≤ b) → ∃ p c, mapRunes f 0 h = p ++ [c] ∧ Inert x1 x2 c := by
  induction n using Nat.strongRecOn with
  | _ n ih =>
    intro h hn ⟨b, hb, hb128⟩
    cases h with
    | nil => simp at hb
    | cons x h' =>
      by_cases hx : x < 128
      · have hne : h' ≠ [] := by
          rintro rfl
          simp at hb; omega
        have hfx := ok.ascii x hx
        rw [mapRunes_ascii f hx (by omega)]
        have hl : h'.getLast? = some b := by
          rw [List.getLast?_cons_of_ne_nil hne] at hb; exact hb
        obtain ⟨p, c, hp, hc⟩ := ih h'.length (by simp at hn; omega) h' rfl ⟨b, hl, hb128⟩
        exact ⟨f x :: p, c, by rw [hp]; rfl, hc⟩
      · rw [mapRunes_cons]
        have hk := runeLen_le (x :: h') (by simp)
        have hpos := Split.runeLen_pos (x :: h')
        have hcp := codePoint_ge h' (by omega : 128 ≤ x)
        by_cases hd : (x :: h').drop (runeLen (x :: h')) = []
        · rw [hd]
          simp only [mapRunes, List.append_nil]
          rcases ok.high _ hcp with h1 | h1 | h1
          · have hne := encodeRune_ne_nil (f (codePoint (x :: h')))
            have hall := encodeRune_high h1
            obtain ⟨p, c, hpc⟩ : ∃ p c, encodeRune (f (codePoint (x :: h'))) = p ++ [c] := by
              rcases List.eq_nil_or_concat (encodeRune (f (codePoint (x :: h')))) with h0 | ⟨p, c, h0⟩
              · exact absurd h0 hne
              · exact ⟨p, c, by rw [h0]; simp⟩
            exact ⟨p, c, hpc, Or.inl (hall c (by rw [hpc]; simp))⟩
          · rw [h1, encodeRune_ascii ok.x1lt]
            exact ⟨[], x1, rfl, Or.inr (Or.inl rfl)⟩
          · rw [h1, encodeRune_ascii ok.x2lt]
            exact ⟨[], x2, rfl, Or.inr (Or.inr rfl)⟩
        · have hlt : runeLen (x :: h') < (x :: h').length := by
            apply Classical.byContradiction
            intro hge
            exact hd (List.drop_eq_nil_of_le (by omega))
          have hl : ((x :: h').drop (runeLen (x :: h'))).getLast? = some b := by
            rw [List.getLast?_drop, if_neg (by omega)]; exact hb
          obtain ⟨p, c, hp, hc⟩ := ih _ (by rw [List.length_drop]; omega) _ rfl ⟨b, hl, hb128⟩
          exact ⟨encodeRune (f (codePoint (x :: h'))) ++ p, c, by rw [hp, List.append_assoc], hc⟩

/-- `strings.Map` keeps an inert end inert -/
theorem mapRunes_inertLast {h : Str} (hh : InertLast x1 x2 h) : InertLast x1 x2 (mapRunes f 0 h) := by
  rcases hh with rfl | ⟨h', b, rfl, hb⟩
  · exact Or.inl rfl
  · rcases hb with hb | hb | hb
    · obtain ⟨p, c, hp, hc⟩ := mapRunes_high_last ok _ (h' ++ [b]) rfl ⟨b, by simp, hb⟩
      exact Or.inr ⟨p, c, hp, hc⟩
    · have := ok.ascii x1 ok.x1lt
      rw [hb, mapRunes_snoc f ok.x1lt (by omega) h' 0 (Nat.zero_le _), this.1, ok.gx1]
      exact Or.inr ⟨_, x1, rfl, Or.inr (Or.inl rfl)⟩
    · have := ok.ascii x2 ok.x2lt
      rw [hb, mapRunes_snoc f ok.x2lt (by omega) h' 0 (Nat.zero_le _), this.1, ok.gx2]
      exact Or.inr ⟨_, x2, rfl, Or.inr (Or.inr rfl)⟩

/-- … and so does the byte-wise map -/
theorem map_inertLast {h : Str} (hh : InertLast x1 x2 h) : InertLast x1 x2 (h.map g) := by
  rcases hh with rfl | ⟨h', b, rfl, hb⟩
  · exact Or.inl rfl
  · refine Or.inr ⟨h'.map g, g b, by simp, ?_⟩
    rcases hb with hb | hb | hb
    · rw [ok.ghigh b hb]; exact Or.inl hb
    · rw [hb, ok.gx1]; exact Or.inr (Or.inl rfl)
    · rw [hb, ok.gx2]; exact Or.inr (Or.inr rfl)

end

/-- every string is nothing or a stretch ending in a non-ASCII byte, followed by an ASCII stretch -/
theorem split_ascii_back (s : Str) :
    ∃ h a, s = h ++ a ∧ (∀ c ∈ a, c < 128) ∧ (h = [] ∨ ∃ h' b, h = h' ++ [b] ∧ 128 ≤ b) := by
  induction s with
  | nil => exact ⟨[], [], rfl, by simp, Or.inl rfl⟩
  | cons x s ih =>
    obtain ⟨h, a, rfl, ha, hh⟩ := ih
    rcases hh with rfl | ⟨h', b, rfl, hb⟩
    · by_cases hx : x < 128
      · refine ⟨[], x :: a, rfl, ?_, Or.inl rfl⟩
        intro c hc
        rcases List.mem_cons.1 hc with rfl | hc
        · exact hx
        · exact ha c hc
      · exact ⟨[x], a, rfl, ha, Or.inr ⟨[], x, rfl, by omega⟩⟩
    · exact ⟨x :: (h' ++ [b]), a, rfl, ha, Or.inr ⟨x :: h', b, rfl, hb⟩⟩

/-- `u` is an inert-ended front followed by `l` -/
def TailOf (x1 x2 : Nat) (l u : Str) : Prop := ∃ h, u = h ++ l ∧ InertLast x1 x2 h

theorem hasSuffix_tailOf {x1 x2 : Nat} {sfx l u : Str} (hp : NonInert x1 x2 sfx) (h : TailOf x1 x2 l u) :
    hasSuffix u sfx = hasSuffix l sfx := by
  obtain ⟨h', rfl, hh⟩ := h
  exact hasSuffix_inert hp l hh

section
variable {x1 x2 : Nat} {g f : Nat → Nat} (ok : CaseMapOK x1 x2 g f)
include ok

/-- both case maps of a string end in the byte-wise map of its ASCII tail -/
theorem tail_forms (s : Str) : ∃ a : Str, (∀ c ∈ a, c < 128) ∧ TailOf x1 x2 (a.map g) (mapRunes f 0 s) ∧
    TailOf x1 x2 (a.map g) (s.map g) := by
  obtain ⟨h, a, rfl, ha, hh⟩ := split_ascii_back s
  have hi : InertLast x1 x2 h := by
    rcases hh with rfl | ⟨h', b, rfl, hb⟩
    · exact Or.inl rfl
    · exact Or.inr ⟨h', b, rfl, Or.inl hb⟩
  exact ⟨a, ha, ⟨mapRunes f 0 h, mapRunes_ascii_back ok h a ha, mapRunes_inertLast ok hi⟩,
    ⟨h.map g, by simp, map_inertLast ok hi⟩⟩

theorem tailOf_mapRunes {l u : Str} (hl : ∀ c ∈ l, c < 128) (h : TailOf x1 x2 l u) :
    TailOf x1 x2 (l.map g) (mapRunes f 0 u) := by
  obtain ⟨h', rfl, hh⟩ := h
  exact ⟨mapRunes f 0 h', mapRunes_ascii_back ok h' l hl, mapRunes_inertLast ok hh⟩

theorem tailOf_map {l u : Str} (h : TailOf x1 x2 l u) : TailOf x1 x2 (l.map g) (u.map g) := by
  obtain ⟨h', rfl, hh⟩ := h
  exact ⟨h'.map g, by simp, map_inertLast ok hh⟩

/-- suffix tests against ASCII patterns cannot tell `strings.Map` from the byte-wise map -/
theorem hasSuffix_mapRunes {sfx : Str} (hp : NonInert x1 x2 sfx) (s : Str) :
    hasSuffix (mapRunes f 0 s) sfx = hasSuffix (s.map g) sfx := by
  obtain ⟨a, _, h1, h2⟩ := tail_forms ok s
  rw [hasSuffix_tailOf hp h1, hasSuffix_tailOf hp h2]

end


/-! ### the functions of the code -/

theorem nonInert_exts : ∀ z ∈ [dotPdf, dotDocx, dotOdt, dotXlsx, dotPptx, dotHtml, dotHtm, dotEpub],
    NonInert 105 107 z := by unfold NonInert; decide

theorem nonInert_sfx : ∀ z ∈ [sfxXhtml, sfxHtml, sfxHtm, sfxXml, sfxCss], NonInert 105 107 z := by
  unfold NonInert; decide

theorem goLower_eq_iff {lo : CaseTable} (h : LowerOK lo) (e z : Str)
    (hz : z ∈ [dotPdf, dotDocx, dotOdt, dotXlsx, dotPptx, dotHtml, dotHtm, dotEpub]) :
    (goLower lo e = z) = (lower e = z) :=
  propext (eq_mapRunes (caseMapOK_lower h) (nonInert_exts z hz) e)

/-- `format.Detect` on any bytes is the ASCII table look-up -/
theorem detectB_eq {lo : CaseTable} (h : LowerOK lo) (name : Str) : detectB lo name = detect name := by
  unfold detectB detect extTable
  simp only [goLower_eq_iff h _ _ (by decide : dotPdf ∈ _), goLower_eq_iff h _ _ (by decide : dotDocx ∈ _),
    goLower_eq_iff h _ _ (by decide : dotOdt ∈ _), goLower_eq_iff h _ _ (by decide : dotXlsx ∈ _),
    goLower_eq_iff h _ _ (by decide : dotPptx ∈ _), goLower_eq_iff h _ _ (by decide : dotHtml ∈ _),
    goLower_eq_iff h _ _ (by decide : dotHtm ∈ _), goLower_eq_iff h _ _ (by decide : dotEpub ∈ _)]

theorem hasSuffix_goLower {lo : CaseTable} (h : LowerOK lo) (u z : Str)
    (hz : z ∈ [sfxXhtml, sfxHtml, sfxHtm, sfxXml, sfxCss]) :
    hasSuffix (goLower lo u) z = hasSuffix (lower u) z :=
  hasSuffix_mapRunes (caseMapOK_lower h) (nonInert_sfx z hz) u

/-- `epubdoc.isContentFile` on any bytes is the ASCII suffix test -/
theorem isContentFileB_eq {lo : CaseTable} (h : LowerOK lo) (uri : Str) :
    isContentFileB lo uri = isContentFile uri := by
  unfold isContentFileB isContentFile
  simp only [hasSuffix_goLower h _ _ (by decide : sfxXhtml ∈ _), hasSuffix_goLower h _ _ (by decide : sfxHtml ∈ _),
    hasSuffix_goLower h _ _ (by decide : sfxHtm ∈ _), hasSuffix_goLower h _ _ (by decide : sfxXml ∈ _),
    hasSuffix_goLower h _ _ (by decide : sfxCss ∈ _)]

theorem hasSuffix_lower_goLower {lo : CaseTable} (h : LowerOK lo) (u z : Str)
    (hz : z ∈ [sfxXhtml, sfxHtml, sfxHtm, sfxXml, sfxCss]) :
    hasSuffix (lower (goLower lo u)) z = hasSuffix (lower (lower u)) z := by
  obtain ⟨a, _, h1, h2⟩ := tail_forms (caseMapOK_lower h) u
  have t1 := tailOf_map (caseMapOK_lower h) h1
  have t2 := tailOf_map (caseMapOK_lower h) h2
  unfold goLower lower
  rw [hasSuffix_tailOf (nonInert_sfx z hz) t1, hasSuffix_tailOf (nonInert_sfx z hz) t2]

/-- lower-casing the reference first (as `hasEncryptedContent` does) changes nothing -/
theorem isContentFile_goLower {lo : CaseTable} (h : LowerOK lo) (uri : Str) :
    isContentFile (goLower lo uri) = isContentFile (lower uri) := by
  unfold isContentFile
  simp only [hasSuffix_lower_goLower h _ _ (by decide : sfxXhtml ∈ _),
    hasSuffix_lower_goLower h _ _ (by decide : sfxHtml ∈ _), hasSuffix_lower_goLower h _ _ (by decide : sfxHtm ∈ _),
    hasSuffix_lower_goLower h _ _ (by decide : sfxXml ∈ _), hasSuffix_lower_goLower h _ _ (by decide : sfxCss ∈ _)]

theorem hasEncryptedContentB_eq {lo : CaseTable} (h : LowerOK lo) (es : List Entry) :
    hasEncryptedContentB lo es = hasEncryptedContent es := by
  induction es with
  | nil => rfl
  | cons e rest ih =>
    simp only [hasEncryptedContentB, hasEncryptedContent, ih, isContentFileB_eq h, isContentFile_goLower h]

theorem checkForDRMB_eq {lo : CaseTable} (h : LowerOK lo) (ms : List XMember) :
    checkForDRMB lo ms = archiveDRMX ms := by
  unfold archiveDRMX archiveDRM
  induction ms with
  | nil => rfl
  | cons m rest ih =>
    simp only [checkForDRMB, List.map_cons, classify, XMember.toAMember]
    by_cases h1 : m.name = nRights
    · simp [h1, checkForDRM]
    · by_cases h2 : m.name = nEncryption
      · have h3 : ¬ (nEncryption = nRights) := fun h => nRights_ne_nEncryption h.symm
        simp only [h2, h3, if_false, if_true]
        cases he : encEntries m.doc with
        | none => simp [checkForDRM]
        | some es => simp only [checkForDRM, hasEncryptedContentB_eq h, ih]
      · simp only [h1, h2, if_false, checkForDRM, ih]

/-! ### the mimetype member -/

/-- the member with its mimetype content replaced by the canonical content of its class -/
def normMember (m : Member) : Member := { name := m.name, data := m.data.map fun d => repMime (mimeClassB d) }

theorem mimeClassB_range (d : Str) : mimeClassB d = some .odt ∨ mimeClassB d = some .epub ∨ mimeClassB d = none := by
  unfold mimeClassB
  simp only
  split
  · exact Or.inl rfl
  · split
    · exact Or.inr (Or.inl rfl)
    · exact Or.inr (Or.inr rfl)

theorem mimeVerdict_norm (m : Member) : mimeVerdict (normMember m) = mimeVerdictB m := by
  unfold mimeVerdict mimeVerdictB normMember
  by_cases hn : m.name = nMimetype
  · simp only [hn, if_true]
    cases m.data with
    | none => rfl
    | some d =>
      simp only [Option.map_some]
      rcases mimeClassB_range d with h | h | h <;> rw [h] <;> decide
  · simp only [hn, if_false]

theorem firstMime_norm (ms : List Member) : firstMime (ms.map normMember) = firstMimeB ms := by
  induction ms with
  | nil => rfl
  | cons m rest ih =>
    simp only [List.map_cons, firstMime, firstMimeB, mimeVerdict_norm, ih]
    cases mimeVerdictB m <;> rfl

theorem hasMember_norm (n : Str) (ms : List Member) : hasMember n (ms.map normMember) = hasMember n ms := by
  simp only [hasMember, List.any_map, normMember, Function.comp_def]
  rfl

theorem hasDir_norm (p : Str) (ms : List Member) : hasDir p (ms.map normMember) = hasDir p ms := by
  simp only [hasDir, List.any_map, normMember, Function.comp_def]

/-- `detectZIPFormat` with the real `strings.TrimSpace` is the ASCII model on the archive
with canonical mimetype contents -/
theorem detectZipB_eq (ms : List Member) : detectZipB ms = detectZip (ms.map normMember) := by
  unfold detectZipB detectZip
  simp only [firstMime_norm, hasMember_norm, hasDir_norm]
  cases firstMimeB ms <;> rfl


/-! ### the HTML front test, byte-exact -/

/-- `detectHTMLMagic` on any bytes: the three prefix tests are those of the ASCII model;
only the 500-byte window of the `<?xml` branch is cut from the string `strings.ToUpper`
really returns -/
theorem detectHTMLMagicB_eq {up : CaseTable} (h : UpperOK up) (data : Str) :
    detectHTMLMagicB up data =
      (let d := data.dropWhile isMagicWS
       if d.isEmpty then false
       else if isHTMLDoctype (upper d) then true
       else if sHtmlTag.isPrefixOf (upper d) then true
       else if sXmlDecl.isPrefixOf (upper d) && hasSub sHtmlTag ((goUpper up d).take 500) then true
       else false) := by
  have ok := caseMapOK_upper h
  unfold detectHTMLMagicB
  simp only [isHTMLDoctype_goUpper h]
  have e1 : ∀ d, sHtmlTag.isPrefixOf (goUpper up d) = sHtmlTag.isPrefixOf (upper d) :=
    fun d => isPrefixOf_mapRunes ok nonInert_htmlTag d
  have e2 : ∀ d, sXmlDecl.isPrefixOf (goUpper up d) = sXmlDecl.isPrefixOf (upper d) :=
    fun d => isPrefixOf_mapRunes ok nonInert_xmlDecl d
  simp only [e1, e2]

/-- where the first 500 bytes behind the leading white space are ASCII, the byte-exact test
is the ASCII model's -/
theorem detectHTMLMagicB_ascii {up : CaseTable} (h : UpperOK up) (data : Str)
    (ha : ∀ c ∈ (data.dropWhile isMagicWS).take 500, c < 128) :
    detectHTMLMagicB up data = detectHTMLMagic data := by
  rw [detectHTMLMagicB_eq h]
  unfold detectHTMLMagic
  simp only [goUpper_window h _ ha]

/-! ### `strings.TrimSpace` on ASCII -/

theorem isSpaceB_eq (c : Nat) : isSpaceB c = Split.isAsciiSpace c := by
  unfold isSpaceB Split.isAsciiSpace
  rw [Bool.or_comm]

theorem spaceLen_ascii {b : Nat} (rest : Str) (hb : b < 128) :
    Split.spaceLen (b :: rest) = if Split.isAsciiSpace b then 1 else 0 := by
  unfold Split.spaceLen
  by_cases h : Split.isAsciiSpace b = true
  · simp [h]
  · have h2 : ∀ c, Split.isSpace2 b c = false := by
      intro c; simp [Split.isSpace2]; omega
    have h3 : ∀ c d, Split.isSpace3 b c d = false := by
      intro c d; simp [Split.isSpace3]; omega
    simp only [h, Bool.false_eq_true, if_false]
    cases rest with
    | nil => rfl
    | cons c r2 =>
      simp only [h2]
      cases r2 with
      | nil => rfl
      | cons d r3 => simp [h3]

theorem spaceLenRev_ascii {d : Nat} (rest : Str) (hd : d < 128) :
    Split.spaceLenRev (d :: rest) = if Split.isAsciiSpace d then 1 else 0 := by
  unfold Split.spaceLenRev
  by_cases h : Split.isAsciiSpace d = true
  · simp [h]
  · have h2 : ∀ c, Split.isSpace2 c d = false := by
      intro c; simp [Split.isSpace2]; omega
    have h3 : ∀ b c, Split.isSpace3 b c d = false := by
      intro b c; simp [Split.isSpace3]; omega
    simp only [h, Bool.false_eq_true, if_false]
    cases rest with
    | nil => rfl
    | cons c r2 =>
      simp only [h2]
      cases r2 with
      | nil => rfl
      | cons b r3 => simp [h3]

theorem trimLeft_ascii (s : Str) (ha : ∀ c ∈ s, c < 128) : Split.trimLeft s = s.dropWhile isSpaceB := by
  induction s with
  | nil => rw [Split.trimLeft]; simp [Split.spaceLen]
  | cons b rest ih =>
    have hb := ha b List.mem_cons_self
    rw [Split.trimLeft, spaceLen_ascii rest hb, List.dropWhile_cons, isSpaceB_eq]
    by_cases h : Split.isAsciiSpace b = true
    · simp only [h, if_true]
      rw [dif_neg (by omega), List.drop_one, List.tail_cons]
      exact ih (fun c hc => ha c (List.mem_cons_of_mem _ hc))
    · simp [h]

theorem trimLeftRev_ascii (s : Str) (ha : ∀ c ∈ s, c < 128) : Split.trimLeftRev s = s.dropWhile isSpaceB := by
  induction s with
  | nil => rw [Split.trimLeftRev]; simp [Split.spaceLenRev]
  | cons b rest ih =>
    have hb := ha b List.mem_cons_self
    rw [Split.trimLeftRev, spaceLenRev_ascii rest hb, List.dropWhile_cons, isSpaceB_eq]
    by_cases h : Split.isAsciiSpace b = true
    · simp only [h, if_true]
      rw [dif_neg (by omega), List.drop_one, List.tail_cons]
      exact ih (fun c hc => ha c (List.mem_cons_of_mem _ hc))
    · simp [h]

/-- on ASCII the real `strings.TrimSpace` is the ASCII model's -/
theorem trimSpace_ascii (s : Str) (ha : ∀ c ∈ s, c < 128) : Split.trimSpace s = Detect.trimSpace s := by
  unfold Split.trimSpace Split.trimRight Detect.trimSpace
  rw [trimLeft_ascii s ha, trimLeftRev_ascii]
  intro c hc
  exact ha c ((List.dropWhile_sublist _).subset (List.mem_reverse.1 hc))

theorem mimeVerdictB_ascii (m : Member) (ha : ∀ d, m.data = some d → ∀ c ∈ d.take 256, c < 128) :
    mimeVerdictB m = mimeVerdict m := by
  unfold mimeVerdictB mimeVerdict mimeClassB
  cases hd : m.data with
  | none => rfl
  | some d => simp only [trimSpace_ascii _ (ha d hd)]

/-! ### the abstraction: the ASCII model sees what the byte-exact functions compute -/

theorem toMember_abs (ms : List XMember) :
    (ms.map absMember).map AMember.toMember = (ms.map XMember.toMember).map normMember := by
  simp only [List.map_map]
  rfl

theorem detectFromReader_repHtml (z : Option (List Member)) : detectFromReader repHtml z = some .html := by
  unfold detectFromReader
  rfl

theorem detectFromReader_nil (z : Option (List Member)) : detectFromReader [] z = some .unknown := by
  unfold detectFromReader
  rfl

/-- the sniffer of the ASCII model on the abstraction answers what `DetectFromReader`
answers on the bytes -/
theorem detectFile_abs {up : CaseTable} (head : Str) (zip : Option (List XMember)) :
    detectFile (absHead up head) (zip.map (·.map absMember)) =
      detectFromReaderB up head (zip.map (·.map XMember.toMember)) := by
  unfold detectFile detectFromReaderB absHead
  by_cases hp : sPdfMagic.isPrefixOf (head.take 512) = true
  · simp [hp, detectFromReader]
  · by_cases hz : sZipMagic.isPrefixOf (head.take 512) = true
    · simp only [hp, hz, Bool.or_true, if_true, detectFromReader, Bool.false_eq_true, if_false]
      cases zip with
      | none => rfl
      | some ms =>
        simp only [Option.map_some, toMember_abs, detectZipB_eq]
    · simp only [hp, hz, Bool.or_self, Bool.false_eq_true, if_false]
      cases detectHTMLMagicB up (head.take 512) with
      | true => simp only [if_true]; exact detectFromReader_repHtml _
      | false => simp only [Bool.false_eq_true, if_false]; exact detectFromReader_nil _

theorem archiveDRM_abs (ms : List XMember) : archiveDRM (ms.map absMember) = archiveDRMX ms := by
  unfold archiveDRMX archiveDRM
  simp only [List.map_map]
  rfl

theorem epubOpen_abs {lo : CaseTable} (h : LowerOK lo) (zip : Option (List XMember)) (rest : Bool) :
    epubOpen (zip.map (·.map absMember)) rest = epubOpenB lo zip rest := by
  cases zip with
  | none => rfl
  | some ms =>
    simp only [Option.map_some, epubOpen_some, epubInit_eq, archiveDRM_abs, epubOpenB, checkForDRMB_eq h]


/-! ### an ASCII front decides -/

theorem isPrefixOf_mono {p u : Str} (t : Str) (h : p.isPrefixOf u = true) : p.isPrefixOf (u ++ t) = true := by
  rw [List.isPrefixOf_iff_prefix] at h ⊢
  exact h.trans (List.prefix_append u t)

theorem hasSub_mono (p : Str) {u : Str} (t : Str) (h : hasSub p u = true) : hasSub p (u ++ t) = true := by
  induction u with
  | nil =>
    have hp : p = [] := by simpa [hasSub] using h
    subst hp
    cases t <;> simp [hasSub]
  | cons c u ih =>
    simp only [hasSub, List.cons_append, Bool.or_eq_true] at h ⊢
    rcases h with h | h
    · exact Or.inl (isPrefixOf_mono t h)
    · exact Or.inr (ih h)

theorem dropWhile_append_ne {q : Nat → Bool} {y : Str} (t : Str) (h : y.dropWhile q ≠ []) :
    (y ++ t).dropWhile q = y.dropWhile q ++ t := by
  induction y with
  | nil => exact absurd rfl h
  | cons a y ih =>
    cases ha : q a
    · simp [List.dropWhile, ha]
    · simp only [List.cons_append, List.dropWhile_cons, ha, if_true] at h ⊢
      exact ih h

theorem isHTMLDoctype_mono {u : Str} (t : Str) (h : isHTMLDoctype u = true) : isHTMLDoctype (u ++ t) = true := by
  unfold isHTMLDoctype at h ⊢
  simp only [Bool.and_eq_true, decide_eq_true_eq] at h ⊢
  obtain ⟨hp, hlt, hn⟩ := h
  have hl : sDoctype.length ≤ u.length := isPrefixOf_length hp
  have hne : (u.drop sDoctype.length).dropWhile isMagicWS ≠ [] := by
    intro h0
    rw [h0] at hn
    simp [sHtmlName] at hn
  rw [List.drop_append_of_le_length hl, dropWhile_append_ne t hne]
  refine ⟨isPrefixOf_mono t hp, ?_, isPrefixOf_mono t hn⟩
  simp only [List.length_append]
  omega

/-- a front of ASCII bytes that the ASCII model accepts is accepted whatever bytes follow -/
theorem detectHTMLMagicB_mono {up : CaseTable} (h : UpperOK up) (a t : Str) (ha : ∀ c ∈ a, c < 128)
    (hm : detectHTMLMagic a = true) : detectHTMLMagicB up (a ++ t) = true := by
  unfold detectHTMLMagic at hm
  have hne : a.dropWhile isMagicWS ≠ [] := by
    intro h0
    simp [h0] at hm
  have hda : ∀ c ∈ a.dropWhile isMagicWS, c < 128 := fun c hc => ha c ((List.dropWhile_sublist _).subset hc)
  rw [detectHTMLMagicB_eq h]
  simp only [dropWhile_append_ne t hne]
  have hemp : (a.dropWhile isMagicWS ++ t).isEmpty = false := by
    cases hd : a.dropWhile isMagicWS with
    | nil => exact absurd hd hne
    | cons c r => rfl
  have hemp' : (a.dropWhile isMagicWS).isEmpty = false := by
    cases hd : a.dropWhile isMagicWS with
    | nil => exact absurd hd hne
    | cons c r => rfl
  simp only [hemp', Bool.false_eq_true, if_false] at hm
  simp only [hemp, Bool.false_eq_true, if_false]
  have hup : upper (a.dropWhile isMagicWS ++ t) = upper (a.dropWhile isMagicWS) ++ upper t := upper_append _ _
  by_cases h1 : isHTMLDoctype (upper (a.dropWhile isMagicWS)) = true
  · rw [hup, isHTMLDoctype_mono _ h1]; rfl
  · by_cases h2 : sHtmlTag.isPrefixOf (upper (a.dropWhile isMagicWS)) = true
    · rw [hup, isPrefixOf_mono _ h2]; split <;> rfl
    · simp only [h1, h2, Bool.false_eq_true, if_false] at hm
      have h3 : (sXmlDecl.isPrefixOf (upper (a.dropWhile isMagicWS)) &&
          hasSub sHtmlTag ((upper (a.dropWhile isMagicWS)).take 500)) = true := by
        apply Classical.byContradiction
        intro hc
        rw [if_neg hc] at hm
        cases hm
      rw [Bool.and_eq_true] at h3
      have hw : hasSub sHtmlTag ((goUpper up (a.dropWhile isMagicWS ++ t)).take 500) = true := by
        unfold goUpper
        rw [mapRunes_ascii_front (caseMapOK_upper h) _ _ hda, List.take_append]
        exact hasSub_mono _ _ h3.2
      rw [hup, isPrefixOf_mono _ h3.1, hw]
      split
      · rfl
      · split <;> rfl

theorem ascii_of_upper_eq {s z : Str} (h : upper s = z) (hz : ∀ c ∈ z, c < 128) : ∀ c ∈ s, c < 128 := by
  intro c hc
  have : upperB c ∈ z := by rw [← h]; exact List.mem_map.2 ⟨c, hc, rfl⟩
  have := hz _ this
  unfold upperB at this
  split at this <;> omega

theorem ascii_of_ws {s : Str} (h : ∀ c ∈ s, isMagicWS c = true) : ∀ c ∈ s, c < 128 := by
  intro c hc
  have := h c hc
  simp [isMagicWS] at this
  omega


/-! ### white space of every kind around a core -/

theorem spaceLen_append' (s t : Str) (h : Split.spaceLen s ≠ 0) : Split.spaceLen (s ++ t) = Split.spaceLen s := by
  match s with
  | [] => exact absurd rfl h
  | b :: rest =>
    by_cases h1 : Split.isAsciiSpace b = true
    · simp [Split.spaceLen, h1]
    · match rest with
      | [] => simp [Split.spaceLen, h1] at h
      | c :: rest2 =>
        by_cases h2 : Split.isSpace2 b c = true
        · simp [Split.spaceLen, h1, h2]
        · match rest2 with
          | [] => simp [Split.spaceLen, h1, h2] at h
          | d :: rest3 =>
            by_cases h3 : Split.isSpace3 b c d = true
            · simp [Split.spaceLen, h1, h2, h3]
            · simp [Split.spaceLen, h1, h2, h3] at h

theorem spaceLenRev_append' (s t : Str) (h : Split.spaceLenRev s ≠ 0) :
    Split.spaceLenRev (s ++ t) = Split.spaceLenRev s := by
  match s with
  | [] => exact absurd rfl h
  | d :: rest =>
    by_cases h1 : Split.isAsciiSpace d = true
    · simp [Split.spaceLenRev, h1]
    · match rest with
      | [] => simp [Split.spaceLenRev, h1] at h
      | c :: rest2 =>
        by_cases h2 : Split.isSpace2 c d = true
        · simp [Split.spaceLenRev, h1, h2]
        · match rest2 with
          | [] => simp [Split.spaceLenRev, h1, h2] at h
          | b :: rest3 =>
            by_cases h3 : Split.isSpace3 b c d = true
            · simp [Split.spaceLenRev, h1, h2, h3]
            · simp [Split.spaceLenRev, h1, h2, h3] at h

/-- a run of white-space characters in front is stripped whatever follows -/
theorem trimLeft_run (l y : Str) (hl : Split.trimLeft l = []) : Split.trimLeft (l ++ y) = Split.trimLeft y := by
  induction l using Split.trimLeft.induct with
  | case1 s h =>
    rw [Split.trimLeft, dif_pos h] at hl
    subst hl; rfl
  | case2 s h ih =>
    rw [Split.trimLeft, dif_neg h] at hl
    have hn := Split.spaceLen_le_length s
    rw [Split.trimLeft, dif_neg (by rw [spaceLen_append' s y h]; exact h), spaceLen_append' s y h,
      List.drop_append_of_le_length hn]
    exact ih hl

theorem trimLeftRev_run (l y : Str) (hl : Split.trimLeftRev l = []) :
    Split.trimLeftRev (l ++ y) = Split.trimLeftRev y := by
  induction l using Split.trimLeftRev.induct with
  | case1 s h =>
    rw [Split.trimLeftRev, dif_pos h] at hl
    subst hl; rfl
  | case2 s h ih =>
    rw [Split.trimLeftRev, dif_neg h] at hl
    have hn := Split.spaceLenRev_le_length s
    rw [Split.trimLeftRev, dif_neg (by rw [spaceLenRev_append' s y h]; exact h), spaceLenRev_append' s y h,
      List.drop_append_of_le_length hn]
    exact ih hl

/-- `strings.TrimSpace` strips a run of white space of any kind (all of `unicode.IsSpace`)
in front of and behind a core that starts and ends with ASCII characters other than white
space, and nothing else -/
theorem trimSpace_strips_runs (l core r : Str) (hl : Split.trimLeft l = []) (hr : Split.trimLeftRev r.reverse = [])
    (hh : ∃ a t, core = a :: t ∧ a < 128 ∧ Split.isAsciiSpace a = false)
    (ht : ∃ t z, core = t ++ [z] ∧ z < 128 ∧ Split.isAsciiSpace z = false) :
    Split.trimSpace (l ++ (core ++ r)) = core := by
  obtain ⟨a, t, hc, ha, hsa⟩ := hh
  obtain ⟨t', z, hc', hz, hsz⟩ := ht
  unfold Split.trimSpace Split.trimRight
  rw [trimLeft_run l _ hl]
  have h1 : Split.trimLeft (core ++ r) = core ++ r := by
    rw [Split.trimLeft, dif_pos]
    rw [hc, List.cons_append, spaceLen_ascii _ ha, hsa]; rfl
  rw [h1, List.reverse_append, trimLeftRev_run _ _ hr]
  have h2 : Split.trimLeftRev core.reverse = core.reverse := by
    rw [Split.trimLeftRev, dif_pos]
    rw [hc', List.reverse_append, List.reverse_singleton, List.singleton_append, spaceLenRev_ascii _ hz, hsz]; rfl
  rw [h2, List.reverse_reverse]

/-! ### small facts moved out of `Props/C20Bytes.lean` -/

theorem split_ws (data : Str) : ∃ ws, data = ws ++ data.dropWhile isMagicWS ∧ ∀ c ∈ ws, isMagicWS c = true := by
  induction data with
  | nil => exact ⟨[], rfl, by simp⟩
  | cons a data ih =>
    cases ha : isMagicWS a
    · exact ⟨[], by simp [List.dropWhile, ha], by simp⟩
    · obtain ⟨ws, h1, h2⟩ := ih
      refine ⟨a :: ws, ?_, ?_⟩
      · simp only [List.dropWhile_cons, ha, if_true, List.cons_append]
        rw [← h1]
      · intro c hc
        rcases List.mem_cons.1 hc with rfl | hc
        · exact ha
        · exact h2 c hc

theorem absHead_pdf (up : CaseTable) (rest : Str) : absHead up (sPdfMagic ++ rest) = sPdfMagic ++ rest := by
  unfold absHead
  have : sPdfMagic.isPrefixOf ((sPdfMagic ++ rest).take 512) = true := by
    rw [take_append_short _ _ _ (by decide)]; exact isPrefixOf_append_self _ _
  simp [this]

theorem absHead_zip (up : CaseTable) (rest : Str) : absHead up (sZipMagic ++ rest) = sZipMagic ++ rest := by
  unfold absHead
  have : sZipMagic.isPrefixOf ((sZipMagic ++ rest).take 512) = true := by
    rw [take_append_short _ _ _ (by decide)]; exact isPrefixOf_append_self _ _
  simp [this]

/-- an HTML front: not PDF, not ZIP, accepted by the byte-exact front test ⇒ the
abstraction's front is the canonical `<html` -/
theorem absHead_html (up : CaseTable) (head : Str) (hp : sPdfMagic.isPrefixOf (head.take 512) = false)
    (hz : sZipMagic.isPrefixOf (head.take 512) = false) (hm : detectHTMLMagicB up (head.take 512) = true) :
    absHead up head = repHtml := by
  unfold absHead
  simp [hp, hz, hm]

theorem names_abs (ms : List XMember) : (ms.map absMember).map (·.name) = ms.map (·.name) := by
  simp [List.map_map, absMember, Function.comp_def]


end Tabula.DetectB
