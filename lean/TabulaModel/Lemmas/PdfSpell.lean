import TabulaModel.Model.WF
import TabulaModel.Lemmas.A1
import TabulaModel.Lemmas.PdfName
import TabulaModel.Lemmas.PdfStr
import TabulaModel.Lemmas.PdfReal
namespace Tabula.Pdf
open Tabula.A1 (dec)
/-
Every well-formed object is the value of some valid spelled tree: a canonical
speller and its correctness.  Core Lean only.
-/

namespace Spl

/-- the `k` low decimal digits of `v`, most significant first (leading zeros kept) -/
def padDigits : Nat → Nat → Str
  | 0, _ => []
  | k + 1, v => padDigits k (v / 10) ++ [48 + v % 10]

theorem padDigits_length (k v : Nat) : (padDigits k v).length = k := by
  induction k generalizing v with
  | zero => rfl
  | succ k ih => simp [padDigits, ih]

theorem padDigits_digits (k v : Nat) : DigitStr (padDigits k v) := by
  induction k generalizing v with
  | zero => intro c hc; simp [padDigits] at hc
  | succ k ih =>
    intro c hc
    simp only [padDigits, List.mem_append, List.mem_singleton] at hc
    rcases hc with hc | hc
    · exact ih _ c hc
    · subst hc
      have h1 : 48 ≤ 48 + v % 10 := by omega
      have h2 : 48 + v % 10 ≤ 57 := by omega
      simp [isDigit, h1, h2]

theorem digitsVal_snoc (s : Str) (c : Nat) : digitsVal (s ++ [c]) = digitsVal s * 10 + (c - 48) := by
  simp [digitsVal, List.foldl_append]

theorem digitsVal_pad (ip : Str) (k v : Nat) :
    digitsVal (ip ++ padDigits k v) = digitsVal ip * 10 ^ k + v % 10 ^ k := by
  induction k generalizing v with
  | zero => simp [padDigits, Nat.mod_one]
  | succ k ih =>
    rw [padDigits, ← List.append_assoc, digitsVal_snoc, ih]
    have e1 : (10 : Nat) ^ (k + 1) = 10 * 10 ^ k := by rw [Nat.pow_succ, Nat.mul_comm]
    rw [e1, Nat.mod_mul, ← Nat.mul_assoc, Nat.mul_right_comm]
    generalize digitsVal ip * 10 ^ k = X
    generalize v / 10 % 10 ^ k = Q
    omega

theorem dec_digitStr (n : Nat) : DigitStr (dec n) := by
  intro c hc
  have h := Tok.dec_digits n c hc
  simp [isDigit, h.1, h.2]

theorem digitsVal_dec (n : Nat) : digitsVal (dec n) = n := by
  have h1 := Rl.digitsAcc_val (dec n) (dec_digitStr n)
  rw [Tabula.A1.digitsAcc_dec] at h1
  exact (Option.some.inj h1).symm

theorem normReal_nf (m s : Nat) (h : s = 0 ∨ m % 10 ≠ 0) : normReal m s = (m, s) := by
  cases s with
  | zero => rfl
  | succ s =>
    have h0 : m % 10 ≠ 0 := by
      rcases h with h | h
      · omega
      · exact h
    simp [normReal, h0]

end Spl

/-- the canonical spelling of a real: integer part in decimal, exactly `s` fraction digits -/
def spellReal (neg : Bool) (m s : Nat) : RealSp :=
  { neg := neg, plus := false, ip := dec (m / 10 ^ s), fp := Spl.padDigits s (m % 10 ^ s) }

theorem spellReal_ok (neg : Bool) (m s : Nat) (h1 : s = 0 ∨ m % 10 ≠ 0) (h2 : neg = true → m ≠ 0) :
    (spellReal neg m s).Ok ∧ (spellReal neg m s).value = .real neg m s := by
  constructor
  · refine ⟨Spl.dec_digitStr _, Spl.padDigits_digits _ _, Or.inl ?_⟩
    obtain ⟨d, ds, h, _⟩ := Tabula.A1.dec_head (m / 10 ^ s)
    simp only [spellReal]
    rw [h]; simp
  · have hp : 0 < 10 ^ s := Nat.pow_pos (by decide)
    have hv : digitsVal (dec (m / 10 ^ s) ++ Spl.padDigits s (m % 10 ^ s)) = m := by
      rw [Spl.digitsVal_pad, Spl.digitsVal_dec, Nat.mod_mod, Nat.mul_comm]
      exact Nat.div_add_mod m (10 ^ s)
    simp only [RealSp.value, spellReal, hv, Spl.padDigits_length, Spl.normReal_nf m s h1]
    cases neg with
    | false => simp
    | true => simp [h2 rfl]

mutual
/-- a canonical spelling: one space in front of every token, strings as \ddd, names via canonNPiece -/
def spell : Obj → SObj
  | .null => .null [.ws 32]
  | .bool b => .bool [.ws 32] b
  | .int i => .int [.ws 32] false 0 i
  | .real neg m s => .real [.ws 32] (spellReal neg m s)
  | .str s => .lit [.ws 32] (s.map fun b => SPiece.octal b 3)
  | .name s => .name [.ws 32] (s.map canonNPiece)
  | .arr xs => .arr [.ws 32] (spellList xs) []
  | .dict kv => .dict [.ws 32] (spellKV kv) []
  | .ref n g => .ref [.ws 32] n.toNat g.toNat [.ws 32] [.ws 32]
def spellList : List Obj → List SObj
  | [] => []
  | x :: xs => spell x :: spellList xs
def spellKV : List (Str × Obj) → List SObj
  | [] => []
  | (k, v) :: r => .name [.ws 32] (k.map canonNPiece) :: spell v :: spellKV r
end

namespace Spl

theorem sepOk_sp : SepOk [SepUnit.ws 32] := by
  intro u hu
  simp only [List.mem_singleton] at hu
  subst hu
  show isWs 32 = true
  decide

theorem sepOk_nil : SepOk [] := by
  intro u hu; simp at hu

theorem sp_ne (need : Bool) : need = true → [SepUnit.ws 32] ≠ [] := by
  intro _; simp

end Spl

mutual
/-- main result -/
theorem spell_valid_value (o : Obj) (h : o.WF) (need : Bool) :
    (spell o).Valid need ∧ (spell o).value = o := by
  cases o with
  | null => simp only [spell, SObj.Valid, SObj.value]; exact ⟨⟨Spl.sepOk_sp, Spl.sp_ne need⟩, trivial⟩
  | bool b => simp only [spell, SObj.Valid, SObj.value]; exact ⟨⟨Spl.sepOk_sp, Spl.sp_ne need⟩, trivial⟩
  | int i =>
    simp only [Obj.WF] at h
    simp only [spell, SObj.Valid, SObj.value]
    exact ⟨⟨Spl.sepOk_sp, Spl.sp_ne need, h.1, h.2⟩, trivial⟩
  | real neg m s =>
    simp only [Obj.WF] at h
    obtain ⟨a, b⟩ := spellReal_ok neg m s h.1 h.2
    simp only [spell, SObj.Valid, SObj.value]
    exact ⟨⟨Spl.sepOk_sp, Spl.sp_ne need, a⟩, b⟩
  | str s =>
    simp only [Obj.WF] at h
    obtain ⟨a, b⟩ := validStr_octal3 s h
    simp only [spell, SObj.Valid, SObj.value]
    exact ⟨⟨Spl.sepOk_sp, a⟩, by rw [b]⟩
  | name s =>
    simp only [Obj.WF] at h
    obtain ⟨a, b⟩ := canonNPiece_ok s h
    simp only [spell, SObj.Valid, SObj.value]
    exact ⟨⟨Spl.sepOk_sp, a⟩, by rw [b]⟩
  | arr xs =>
    simp only [Obj.WF] at h
    obtain ⟨a, b⟩ := spellList_valid_value xs h false
    simp only [spell, SObj.Valid, SObj.value]
    exact ⟨⟨Spl.sepOk_sp, Spl.sepOk_nil, a⟩, by rw [b]⟩
  | dict kv =>
    simp only [Obj.WF] at h
    obtain ⟨a, b, c⟩ := spellKV_valid_value kv h.1
    simp only [spell, SObj.Valid, SObj.value]
    exact ⟨⟨Spl.sepOk_sp, Spl.sepOk_nil, a, by rw [c]; exact h.2⟩, by rw [b]⟩
  | ref n g =>
    simp only [Obj.WF] at h
    obtain ⟨h1, h2, h3, h4⟩ := h
    simp only [spell, SObj.Valid, SObj.value]
    refine ⟨⟨Spl.sepOk_sp, Spl.sp_ne need, Spl.sepOk_sp, by simp, Spl.sepOk_sp, by simp, ?_, ?_⟩, ?_⟩
    · omega
    · omega
    · rw [Int.toNat_of_nonneg h1, Int.toNat_of_nonneg h3]
theorem spellList_valid_value (xs : List Obj) (h : WFList xs) (need : Bool) :
    ValidList need (spellList xs) ∧ valueList (spellList xs) = xs := by
  cases xs with
  | nil => simp only [spellList, ValidList, valueList]; exact ⟨trivial, trivial⟩
  | cons x xs =>
    simp only [WFList] at h
    obtain ⟨a, b⟩ := spell_valid_value x h.1 need
    obtain ⟨c, d⟩ := spellList_valid_value xs h.2 (spell x).endsRegular
    simp only [spellList, ValidList, valueList]
    exact ⟨⟨a, c⟩, by rw [b, d]⟩
theorem spellKV_valid_value (kv : List (Str × Obj)) (h : WFKV kv) :
    ValidKVs (spellKV kv) ∧ valueKVs (spellKV kv) = kv ∧ keysOf (spellKV kv) = keysKV kv := by
  match kv, h with
  | [], _ => simp only [spellKV, ValidKVs, valueKVs, keysOf, keysKV]; exact ⟨trivial, trivial, trivial⟩
  | (k, v) :: r, h =>
    simp only [WFKV] at h
    obtain ⟨hk, hv, hr⟩ := h
    obtain ⟨k1, k2⟩ := canonNPiece_ok k hk
    obtain ⟨a, b⟩ := spell_valid_value v hv true
    obtain ⟨c, d, e⟩ := spellKV_valid_value r hr
    simp only [spellKV, ValidKVs, valueKVs, keysOf, keysKV, SObj.keyBytes, SObj.isName, SObj.Valid]
    exact ⟨⟨trivial, ⟨Spl.sepOk_sp, k1⟩, a, c⟩, by rw [k2, b, d], by rw [k2, e]⟩
end

end Tabula.Pdf
