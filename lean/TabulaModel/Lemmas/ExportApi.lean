import TabulaModel.Model.ExportApi
import TabulaModel.Lemmas.ExportMeta
/-!
Lemmas about `Model/ExportApi.lean` (batch runs, stream call sequences, vector-database
records) for `Props/C14Api.lean`.
-/
set_option linter.unusedSimpArgs false
namespace Tabula.Export
open Tabula.Csv (Str)

/-! ### BatchExporter -/

/-- the loop of `(*BatchExporter).Export` = the specification run over the partition of `batchLoop` -/
theorem batchLoopRun_eq {α β : Type} (size : Nat) (hs : 0 < size) (exportFn : List α → Option β)
    (cb : Batch α → β → Bool) (chunks : List α) (i : Nat) :
    batchLoopRun size hs exportFn cb chunks i = batchRun exportFn cb (batchLoop size hs chunks i) := by
  induction hn : chunks.length - i using Nat.strongRecOn generalizing i with
  | _ n ih =>
    rw [batchLoopRun.eq_1, batchLoop.eq_1]
    by_cases h : i < chunks.length
    · simp only [h, dite_true, batchRun]
      cases hx : exportFn (List.take ((if i + size > chunks.length then chunks.length else i + size) - i) (List.drop i chunks)) with
      | none => rfl
      | some d =>
        simp only
        rw [ih (chunks.length - (i + size)) (by omega) (i + size) rfl]
    · simp [h, batchRun]

/-- what a run over a list of batches delivers -/
theorem batchRun_history {α β : Type} (exportFn : List α → Option β) (cb : Batch α → β → Bool)
    (bs : List (Batch α)) :
    let r := batchRun exportFn cb bs
    -- the callback saw a prefix of the batches, in order, each with the export of its own items
    (r.1.map (·.1) = bs.take r.1.length) ∧
    (∀ p ∈ r.1, exportFn p.1.items = some p.2) ∧
    -- all callbacks but possibly the last succeeded
    (∀ p ∈ r.1.dropLast, cb p.1 p.2 = true) ∧
    (r.2 = .ok → r.1.length = bs.length ∧ ∀ p ∈ r.1, cb p.1 p.2 = true) ∧
    (∀ n, r.2 = .callbackErr n → ∃ p, r.1.getLast? = some p ∧ p.1.batchNumber = n ∧ cb p.1 p.2 = false) ∧
    (∀ s, r.2 = .exportErr s → ∃ b, bs[r.1.length]? = some b ∧ b.startIndex = s ∧ exportFn b.items = none ∧
      ∀ p ∈ r.1, cb p.1 p.2 = true) := by
  induction bs with
  | nil => simp [batchRun]
  | cons b rest ih =>
    simp only [batchRun]
    cases hx : exportFn b.items with
    | none => simp [hx]
    | some d =>
      by_cases hc : cb b d = true
      · simp only [hc, if_true]
        obtain ⟨h1, h2, h3, h4, h5, h6⟩ := ih
        refine ⟨?_, ?_, ?_, ?_, ?_, ?_⟩
        · simp only [List.map_cons, List.length_cons, List.take_succ_cons, h1]
        · intro p hp
          rcases List.mem_cons.mp hp with e | e
          · rw [e]; exact hx
          · exact h2 p e
        · intro p hp
          cases hr : (batchRun exportFn cb rest).1 with
          | nil => rw [hr] at hp; simp at hp
          | cons q qs =>
            rw [hr] at hp h3
            rw [List.dropLast_cons_cons] at hp
            rcases List.mem_cons.mp hp with e | e
            · rw [e]; exact hc
            · exact h3 p e
        · intro hr
          obtain ⟨a, b'⟩ := h4 hr
          refine ⟨by simp [a], ?_⟩
          intro p hp
          rcases List.mem_cons.mp hp with e | e
          · rw [e]; exact hc
          · exact b' p e
        · intro n hr
          obtain ⟨p, hp, e1, e2⟩ := h5 n hr
          refine ⟨p, ?_, e1, e2⟩
          cases hq : (batchRun exportFn cb rest).1 with
          | nil => rw [hq] at hp; simp at hp
          | cons q qs => rw [hq] at hp; rw [List.getLast?_cons_cons]; exact hp
        · intro s hr
          obtain ⟨b', hb, e1, e2, e3⟩ := h6 s hr
          refine ⟨b', by simpa using hb, e1, e2, ?_⟩
          intro p hp
          rcases List.mem_cons.mp hp with e | e
          · rw [e]; exact hc
          · exact e3 p e
      · simp only [hc, Bool.false_eq_true, if_false]
        refine ⟨by simp, ?_, by simp, by simp, ?_, by simp⟩
        · intro p hp
          simp only [List.mem_singleton] at hp
          rw [hp]; exact hx
        · intro n hn
          injection hn with hn
          exact ⟨(b, d), rfl, hn, by simpa using hc⟩

theorem batchRun_all {α β : Type} (exportFn : List α → Option β) (cb : Batch α → β → Bool)
    (bs : List (Batch α)) (he : ∀ b ∈ bs, (exportFn b.items).isSome = true)
    (hc : ∀ b ∈ bs, ∀ d, cb b d = true) :
    (batchRun exportFn cb bs).2 = .ok ∧ (batchRun exportFn cb bs).1.map (·.1) = bs := by
  induction bs with
  | nil => simp [batchRun]
  | cons b rest ih =>
    simp only [batchRun]
    have h1 := he b (by simp)
    cases hx : exportFn b.items with
    | none => rw [hx] at h1; simp at h1
    | some d =>
      have ih' := ih (fun b' hb => he b' (List.mem_cons_of_mem _ hb)) (fun b' hb => hc b' (List.mem_cons_of_mem _ hb))
      simp [hc b (by simp) d, ih'.1, ih'.2]

/-! ### StreamExporter -/

theorem streamRun_json (cfg : Config) (hf : cfg.format = .jsonl ∨ cfg.format = .json)
    (calls : List StreamCall) (st : StreamState) :
    (streamRun cfg calls st).written = st.written ++ (writtenChunks calls).map (prepareChunkForExport cfg) ∧
    (streamRun cfg calls st).results = st.results ++ calls.map (fun _ => true) := by
  induction calls generalizing st with
  | nil => simp [streamRun, writtenChunks]
  | cons call rest ih =>
    cases call with
    | write c idx =>
      have hw : writeChunk cfg st.written c = some (st.written ++ [prepareChunkForExport cfg c]) := by
        unfold writeChunk
        rcases hf with h | h <;> simp [h]
      simp only [streamRun, streamCall, hw, writtenChunks, List.map_cons]
      obtain ⟨h1, h2⟩ := ih { written := st.written ++ [prepareChunkForExport cfg c], results := st.results ++ [true] }
      rw [h1, h2]
      simp
    | close =>
      simp only [streamRun, streamCall, writtenChunks, List.map_cons]
      obtain ⟨h1, h2⟩ := ih { st with results := st.results ++ [true] }
      rw [h1, h2]
      simp

def isWrite : StreamCall → Bool
  | .write _ _ => true
  | .close => false

theorem streamRun_csv (cfg : Config) (h1 : cfg.format ≠ .jsonl) (h2 : cfg.format ≠ .json)
    (calls : List StreamCall) (st : StreamState) :
    (streamRun cfg calls st).written = st.written ∧
    (streamRun cfg calls st).results = st.results ++ calls.map (fun c => !isWrite c) := by
  induction calls generalizing st with
  | nil => simp [streamRun]
  | cons call rest ih =>
    cases call with
    | write c idx =>
      have hw : writeChunk cfg st.written c = none := by
        unfold writeChunk
        cases hfm : cfg.format <;> simp_all
      simp only [streamRun, streamCall, hw, List.map_cons]
      obtain ⟨e1, e2⟩ := ih { st with results := st.results ++ [false] }
      rw [e1, e2]
      refine ⟨rfl, ?_⟩
      simp only [List.append_assoc, List.singleton_append]
      rfl
    | close =>
      simp only [streamRun, streamCall, List.map_cons]
      obtain ⟨e1, e2⟩ := ih { st with results := st.results ++ [true] }
      rw [e1, e2]
      refine ⟨rfl, ?_⟩
      simp only [List.append_assoc, List.singleton_append]
      rfl

/-! ### vector-database records -/

/-- the Pinecone record of chunk `c` at position `i`, if it has a vector -/
def pineconeOf {F : Type} (embs : List (Emb F)) (p : Chunk × Nat) : Option (PineconeRecord F) :=
  match embAt embs p.2 with
  | [] => none
  | v :: vs => some { id := p.1.id, values := v :: vs, metadata := pineconeMetadata p.1 }

theorem pineconeLoop_eq {F : Type} (embs : List (Emb F)) (cs : List Chunk) (i : Nat) :
    pineconeLoop embs cs i = (cs.zipIdx i).filterMap (pineconeOf embs) := by
  induction cs generalizing i with
  | nil => simp [pineconeLoop]
  | cons c rest ih =>
    simp only [pineconeLoop, List.zipIdx_cons, List.filterMap_cons, pineconeOf]
    cases embAt embs i with
    | nil => simp only; exact ih (i + 1)
    | cons v vs => simp only; rw [ih (i + 1)]

def weaviateOf {F : Type} (cls : Str) (embs : List (Emb F)) (p : Chunk × Nat) : WeaviateObject F :=
  { cls := cls, id := p.1.id, properties := weaviateProps p.1, vector := embAt embs p.2 }

theorem weaviateLoop_eq {F : Type} (cls : Str) (embs : List (Emb F)) (cs : List Chunk) (i : Nat) :
    weaviateLoop cls embs cs i = (cs.zipIdx i).map (weaviateOf cls embs) := by
  induction cs generalizing i with
  | nil => simp [weaviateLoop]
  | cons c rest ih =>
    simp only [weaviateLoop, List.zipIdx_cons, List.map_cons, weaviateOf]
    rw [ih (i + 1)]

theorem chromaLoop_eq (cs : List Chunk) :
    chromaLoop cs = (cs.map (·.id), cs.map (·.text), cs.map (fun c => chromaMetadata c.md)) := by
  induction cs with
  | nil => rfl
  | cons c rest ih => simp [chromaLoop, ih]

theorem prepareForVectorDB_eq (cs : List Chunk) :
    prepareForVectorDB cs = cs.map (fun c => { id := c.id, text := c.text, metadata := vdbMetadata c.md }) := by
  induction cs with
  | nil => rfl
  | cons c rest ih => simp [prepareForVectorDB, ih]

theorem filterMap_map_sublist {α β γ : Type} (f : α → Option β) (g : β → γ) (h : α → γ)
    (hfg : ∀ a b, f a = some b → g b = h a) (l : List α) :
    ((l.filterMap f).map g).Sublist (l.map h) := by
  induction l with
  | nil => simp
  | cons a rest ih =>
    simp only [List.filterMap_cons, List.map_cons]
    cases hf : f a with
    | none => exact List.Sublist.cons _ ih
    | some b =>
      simp only [List.map_cons]
      rw [hfg a b hf]
      exact List.Sublist.cons_cons _ ih

theorem zipIdx_map_fst_comp {α β : Type} (f : α → β) (l : List α) (i : Nat) :
    (l.zipIdx i).map (fun p => f p.1) = l.map f := by
  induction l generalizing i with
  | nil => rfl
  | cons a rest ih => simp only [List.zipIdx_cons, List.map_cons, ih]

end Tabula.Export
