import TabulaModel.Lemmas.PdfParse
import TabulaModel.Lemmas.PdfDepth
import TabulaModel.Lemmas.PdfErrors
/-!
A whole SEQUENCE of objects at top level, each in any legal spelling, is read back by a run of
`ParseObject` calls, which then ends with `io.EOF` (what the correspondence op `c06.obj` observes).
Composition of the single-object round trip (`Lemmas/PdfParse.lean`) with the progress results
(`Lemmas/PdfCoreProgress.lean`), which remove the bounds of `coreParseAll`.  Core Lean only.
-/
namespace Tabula.Pdf
namespace Seq
open Prog Prs

/-- the window at the end of the input (behind trailing white space and comments): clean end of input -/
theorem eof_state (trail : Sep) (ht : SepOk trail) :
    (stateAt (renderSep trail)).cur = some .eof ∧ (stateAt (renderSep trail)).err = false := by
  have hE := starts_eof trail ht
  refine ⟨hE.cur, ?_⟩
  exact stateAt_err_false _ _ _ .eof [] hE.lex hE.ns (by decide)

theorem seq_rt (xs : List SObj) : ∀ (need : Bool) (trail : Sep) (F n : Nat) (acc : List Obj),
    ValidList need xs → SepOk trail → sizeList xs + 1 ≤ F → xs.length + 1 ≤ n →
    sdepthList xs ≤ maxNestingDepth →
    parseSeq F n (stateAt (renderList xs ++ renderSep trail)) acc = (acc ++ valueList xs, some .eof) := by
  induction xs with
  | nil =>
    intro need trail F n acc _ ht hF hn _
    obtain ⟨n, rfl⟩ : ∃ m, n = m + 1 := ⟨n - 1, by simp at hn; omega⟩
    obtain ⟨F, rfl⟩ : ∃ m, F = m + 1 := ⟨F - 1, by omega⟩
    simp only [renderList, List.nil_append, valueList, List.append_nil]
    rw [parseSeq, (Errs.parseObject_eof_iff F 0 _).2 (eof_state trail ht)]
  | cons x xs ih =>
    intro need trail F n acc hv ht hF hn hd
    obtain ⟨n, rfl⟩ : ∃ m, n = m + 1 := ⟨n - 1, by simp at hn; omega⟩
    simp only [ValidList] at hv
    simp only [sizeList] at hF
    simp only [sdepthList] at hd
    simp only [List.length_cons] at hn
    simp only [renderList, List.append_assoc, valueList]
    have hE := starts_eof trail ht
    have hT : Terminated (renderSep trail) := by
      have := term_sep trail ht [] (Or.inl rfl)
      simpa using this
    have hT1 : FirstNotR (renderSep trail) := firstNotR_of_starts hE (by simp)
    have hT2 : NoRefAhead (renderSep trail) := noRefAhead_of_starts hE (by intro v h; cases h)
    have hterm : x.endsRegular = true → Terminated (renderList xs ++ renderSep trail) := by
      intro he
      have hv2 := hv.2
      rw [he] at hv2
      exact term_list xs hv2 _ hT
    have hx := obj_rt x need (renderList xs ++ renderSep trail) F 0 hv.1 (by omega) (by omega) hterm
      (noRefAhead_list xs _ hv.2 _ hT hT1 hT2)
    rw [parseSeq, hx]
    dsimp only
    rw [ih x.endsRegular trail F n (acc ++ [x.value]) hv.2 ht (by omega) (by omega) (by omega)]
    simp

theorem length_le_sizeList (xs : List SObj) : xs.length ≤ sizeList xs := by
  induction xs with
  | nil => simp [sizeList]
  | cons x xs ih => simp only [List.length_cons, sizeList]; omega

/-- `core.NewParser(r)`, then `ParseObject()` until it fails, on a sequence of legally spelled objects: exactly
the objects written, then `io.EOF` -/
theorem core_sequence_roundtrip (xs : List SObj) (trail : Sep) (hv : ValidList false xs) (ht : SepOk trail)
    (hd : sdepthList xs ≤ maxNestingDepth) :
    coreParseAll (renderList xs ++ renderSep trail) = (valueList xs, .eof) := by
  have hsz := sizeList_le xs
  have hlen := length_le_sizeList xs
  have key := seq_rt xs false trail
    (fuelFor (renderList xs ++ renderSep trail) + sizeList xs + 1)
    ((renderList xs ++ renderSep trail).length + 2 + xs.length) [] hv ht (by omega) (by omega) hd
  have hst := coreParseAll_stable (renderList xs ++ renderSep trail)
    (fuelFor (renderList xs ++ renderSep trail) + sizeList xs + 1)
    ((renderList xs ++ renderSep trail).length + 2 + xs.length) (by omega) (by omega)
  unfold coreParseAll
  rw [← hst]
  have : newParser (renderList xs ++ renderSep trail) = stateAt (renderList xs ++ renderSep trail) := rfl
  rw [this, key]
  simp

end Seq
end Tabula.Pdf
