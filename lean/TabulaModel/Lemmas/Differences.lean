import TabulaModel.Model.Reader
import TabulaModel.Lemmas.UTF16
/-!
# `/Differences` of a simple font's `/Encoding` dictionary (fix b3a0e07)

Lemmas about `FontDecode.diffLookup` / `decodeWith` (the `CustomEncoding` `DecodeString`
goes through) and about `Reader.parseDifferences` (`parseEncodingDifferences` of
font/type1.go) against a specification written from ISO 32000-1 9.6.6.1: a Differences array
is a list of *runs* `code /name … /name`; a run gives consecutive codes to its names; of two
runs naming the same code the later one decides.
-/
namespace Tabula.Differences
open Tabula.Pdf (Obj)
open Tabula.Reader (Str Dict dget parseDiffsLoop parseDifferences)
open Tabula.FontDecode Tabula.UTF16 Tabula.GlyphNames

/-! ### the custom encoding -/

theorem filterMap_congr_mem {α β : Type} (f g : α → Option β) (l : List α) (h : ∀ a ∈ l, f a = g a) :
    l.filterMap f = l.filterMap g := by
  induction l with
  | nil => rfl
  | cons a l ih =>
    simp only [List.filterMap_cons, h a (by simp)]
    rw [ih (fun x hx => h x (by simp [hx]))]

theorem diffLookup_nil (b : Nat) : diffLookup [] b = none := rfl

theorem customDecodeByte_nil (t : Array Nat) (b : Nat) : customDecodeByte [] t b = t[b]? := rfl

/-- a font without `/Differences` decodes through the base table alone: what `DecodeString`
did for every font before b3a0e07 -/
theorem decodeWith_nil (t : Array Nat) (data : List Nat) : decodeWith [] t data = Encoding.decodeString t data := rfl

theorem diffLookup_cons (c : Nat) (r : Option Nat) (ds : Diffs) (b : Nat) :
    diffLookup ((c, r) :: ds) b = if c = b then r else diffLookup ds b := by
  unfold diffLookup
  by_cases h : c = b
  · simp [List.find?_cons, h]
  · have : (c == b) = false := by simpa using h
    simp [List.find?_cons, this, h]

/-- one code at a time -/
theorem decodeWith_cons (ds : Diffs) (t : Array Nat) (b : Nat) (rest : List Nat) :
    decodeWith ds t (b :: rest) =
      (match customDecodeByte ds t b with
       | some r => if r ≠ 0 then [toRune r] else []
       | none => []) ++ decodeWith ds t rest := by
  unfold decodeWith
  simp only [List.filterMap_cons]
  cases customDecodeByte ds t b with
  | none => rfl
  | some r =>
    by_cases h : r = 0
    · simp [h]
    · simp [h]

/-- every element `decodeWith` emits is a Unicode scalar value -/
theorem decodeWith_isScalar (ds : Diffs) (t : Array Nat) (data : List Nat) :
    ∀ x ∈ decodeWith ds t data, IsScalar x := by
  intro x hx
  unfold decodeWith at hx
  obtain ⟨b, _, hb⟩ := List.mem_filterMap.mp hx
  split at hb
  · split at hb
    · simp only [Option.some.injEq] at hb; subst hb; exact toRune_isScalar _
    · simp at hb
  · simp at hb

/-! ### the specification of a Differences array -/

/-- one run of a Differences array: `code /name₀ /name₁ …` -/
structure Run where
  code : Nat
  names : List Str

/-- the array as written: for each run the integer, then the names -/
def renderRuns : List Run → List Obj
  | [] => []
  | r :: rs => .int r.code :: (r.names.map .name ++ renderRuns rs)

/-- the name a run gives code `b`: the `(b - code)`-th, when the run reaches that far -/
def runName (r : Run) (b : Nat) : Option Str :=
  if r.code ≤ b then r.names[b - r.code]? else none

/-- the name the whole array gives code `b`: that of the last run naming `b` -/
def specName : List Run → Nat → Option Str
  | [], _ => none
  | r :: rs, b =>
    match specName rs b with
    | some n => some n
    | none => runName r b

/-- what the font specifies for code `b`: the Unicode of the glyph name the array gives it, as
far as the package's glyph list knows the name; `none` = the base encoding decides -/
def specRune (rs : List Run) (b : Nat) : Option Nat := (specName rs b).bind glyphRune

/-! ### `parseEncodingDifferences` meets the specification -/

/-- the names of a run pushed onto the map, first name at code `c` -/
def pushNames : List Str → Nat → Diffs → Diffs
  | [], _, acc => acc
  | n :: ns, c, acc => pushNames ns (c + 1) (if c ≤ 255 then (c, glyphRune n) :: acc else acc)

theorem loop_names (ns : List Str) (c : Nat) (acc : Diffs) (rest : List Obj) :
    parseDiffsLoop (ns.map .name ++ rest) (c : Int) acc = parseDiffsLoop rest ((c + ns.length : Nat) : Int) (pushNames ns c acc) := by
  induction ns generalizing c acc with
  | nil => simp [pushNames]
  | cons n ns ih =>
    simp only [List.map_cons, List.cons_append, parseDiffsLoop, pushNames, List.length_cons]
    have h1 : ((c : Int) + 1) = ((c + 1 : Nat) : Int) := by omega
    rw [h1, ih (c + 1)]
    have h3 : c + 1 + ns.length = c + (ns.length + 1) := by omega
    rw [h3]
    congr 1
    by_cases hc : c ≤ 255
    · have hi : (c : Int) ≤ 255 := by omega
      simp [hc, hi]
    · have hi : ¬ (c : Int) ≤ 255 := by omega
      simp [hc, hi]

theorem pushNames_lookup (ns : List Str) (c : Nat) (acc : Diffs) (b : Nat) (hb : b ≤ 255) :
    diffLookup (pushNames ns c acc) b =
      match runName ⟨c, ns⟩ b with
      | some n => glyphRune n
      | none => diffLookup acc b := by
  induction ns generalizing c acc with
  | nil => simp [pushNames, runName]
  | cons n ns ih =>
    simp only [pushNames]
    rw [ih (c + 1)]
    unfold runName
    simp only
    by_cases h1 : c + 1 ≤ b
    · have h2 : c ≤ b := by omega
      have h3 : b - c = (b - (c + 1)) + 1 := by omega
      simp only [h1, h2, if_true, h3, List.getElem?_cons_succ]
      cases hn : ns[b - (c + 1)]? with
      | some m => rfl
      | none =>
        simp only
        by_cases hc : c ≤ 255
        · have : c ≠ b := by omega
          simp [hc, diffLookup_cons, this]
        · simp [hc]
    · simp only [h1, if_false]
      by_cases h2 : c ≤ b
      · have h3 : c = b := by omega
        subst h3
        have hc : c ≤ 255 := hb
        simp [hc, diffLookup_cons]
      · have : c ≠ b := by omega
        simp only [h2, if_false]
        by_cases hc : c ≤ 255
        · simp [hc, diffLookup_cons, this]
        · simp [hc]

/-- the loop on a rendered list of runs: it never fails, and the map it returns holds, for
every byte, the glyph of the last run naming that byte (nothing - a deleted or never written
key - when the package's glyph list does not know the name), and what the map held before
for the bytes no run names -/
theorem loop_runs (rs : List Run) (code : Int) (acc : Diffs) :
    ∃ ds, parseDiffsLoop (renderRuns rs) code acc = some ds ∧
      ∀ b, b ≤ 255 → diffLookup ds b =
        match specName rs b with
        | some n => glyphRune n
        | none => diffLookup acc b := by
  induction rs generalizing code acc with
  | nil => exact ⟨acc, rfl, fun b _ => rfl⟩
  | cons r rs ih =>
    simp only [renderRuns, parseDiffsLoop]
    rw [loop_names]
    obtain ⟨ds, hds, hl⟩ := ih ((r.code + r.names.length : Nat) : Int) (pushNames r.names r.code acc)
    refine ⟨ds, hds, fun b hb => ?_⟩
    rw [hl b hb]
    simp only [specName]
    cases specName rs b with
    | some n => rfl
    | none => exact pushNames_lookup r.names r.code acc b hb

/-- **`parseEncodingDifferences` against ISO 32000-1 9.6.6.1**, for every list of runs -/
theorem parseDifferences_spec (rs : List Run) :
    ∃ ds, parseDifferences (renderRuns rs) = some ds ∧ ∀ b, b ≤ 255 → diffLookup ds b = specRune rs b := by
  obtain ⟨ds, hds, hl⟩ := loop_runs rs 0 []
  refine ⟨ds, hds, fun b hb => ?_⟩
  rw [hl b hb]
  unfold specRune
  cases specName rs b with
  | some n => rfl
  | none => rfl

/-! ### the font dictionary -/

/-- `parseEncoding` of `NewType1Font` (`strict`) and of `NewTrueTypeFont` on an `/Encoding`
dictionary with a `/Differences` array of runs: the base encoding's name and the specified map -/
theorem simpleEncoding_differences (res : Reader.Res) (fd ed : Dict) (std : Str) (strict : Bool)
    (rs : List Run)
    (he : dget fd Reader.kEncoding = some (.dict ed))
    (hd : dget ed Reader.kDifferences = some (.arr (renderRuns rs))) :
    ∃ ds, Reader.simpleEncoding res fd std strict = some (Reader.baseEncoding ed std, ds) ∧
      ∀ b, b ≤ 255 → diffLookup ds b = specRune rs b := by
  obtain ⟨ds, hds, hl⟩ := parseDifferences_spec rs
  refine ⟨ds, ?_, hl⟩
  unfold Reader.simpleEncoding
  simp only [he, Reader.resolve, hd, hds]

/-- the font `RegisterFontsFromResources` stores for a Type1 / TrueType dictionary without
`/ToUnicode` whose `/Encoding` dictionary carries `/Differences` -/
theorem parseFont_differences (res : Reader.Res) (fd ed : Dict) (st std : Str)
    (hst : dget fd Reader.kSubtype = some (.name st))
    (hkind : (st = Reader.kType1 ∧ std = Reader.kStandardEncoding) ∨ (st = Reader.kTrueType ∧ std = Reader.kWinAnsiEncoding))
    (rs : List Run)
    (he : dget fd Reader.kEncoding = some (.dict ed))
    (hd : dget ed Reader.kDifferences = some (.arr (renderRuns rs)))
    (hw : Reader.widthsOk res fd = true) (htu : dget fd Reader.kToUnicode = none) :
    ∃ ds, Reader.parseFont res (.dict fd) = some ⟨none, Reader.baseEncoding ed std, ds⟩ ∧
      ∀ b, b ≤ 255 → diffLookup ds b = specRune rs b := by
  have htu' : Reader.toUnicodeOf res fd = none := by
    unfold Reader.toUnicodeOf
    simp only [htu]
  rcases hkind with ⟨h1, h2⟩ | ⟨h1, h2⟩
  · subst h1 h2
    obtain ⟨ds, hds, hl⟩ := simpleEncoding_differences res fd ed Reader.kStandardEncoding true rs he hd
    refine ⟨ds, ?_, hl⟩
    unfold Reader.parseFont
    simp only [Reader.resolve, hst, if_true, hds, hw, htu']
  · subst h1 h2
    obtain ⟨ds, hds, hl⟩ := simpleEncoding_differences res fd ed Reader.kWinAnsiEncoding false rs he hd
    refine ⟨ds, ?_, hl⟩
    have hne : Reader.kTrueType ≠ Reader.kType1 := by decide
    unfold Reader.parseFont
    simp only [Reader.resolve, hst, hne, if_false, if_true, hds, hw, htu']

/-- anything but an integer or a name ends the loop with an error -/
theorem parseDiffsLoop_bad (pre : List Obj) (x : Obj) (post : List Obj) (code : Int) (acc : Diffs)
    (hpre : ∀ o ∈ pre, (∃ v, o = .int v) ∨ (∃ n, o = .name n))
    (hx : (∀ v, x ≠ .int v) ∧ (∀ n, x ≠ .name n)) :
    parseDiffsLoop (pre ++ x :: post) code acc = none := by
  induction pre generalizing code acc with
  | nil =>
    cases x with
    | int v => exact absurd rfl (hx.1 v)
    | name n => exact absurd rfl (hx.2 n)
    | _ => rfl
  | cons o pre ih =>
    have ho := hpre o (by simp)
    have hrest : ∀ o ∈ pre, (∃ v, o = .int v) ∨ (∃ n, o = .name n) := fun o' h' => hpre o' (by simp [h'])
    rcases ho with ⟨v, rfl⟩ | ⟨n, rfl⟩
    · simp only [List.cons_append, parseDiffsLoop]; exact ih _ _ hrest
    · simp only [List.cons_append, parseDiffsLoop]; exact ih _ _ hrest

end Tabula.Differences
