import TabulaModel.Model.BuilderMem
import TabulaModel.Lemmas.BuilderHist
/-!
Helper lemmas for `Props/C10Mem.lean`: the invariant of the families grown from
`FromHTMLReader` / `FromHTMLString` and the one-step correspondence between the record model
(`mstep`) and its description from the calls alone (`mlStep`).
-/
namespace Tabula.BuilderMem
open Tabula.PageSel Tabula.Builder

/-- what every record of such a family satisfies: no file name, and the three life-cycle
fields move together -/
def MemInv (X : List Ext) : Prop :=
  ∀ (i : Nat) (e : Ext), X[i]? = some e →
    e.hasFile = false ∧ e.owns = e.opened ∧ e.reader.isSome = e.opened

theorem memInv_base : MemInv [htmlBase] ∧ MemInv [htmlBaseErr] := by
  constructor <;> intro i e he <;> cases i <;> simp at he <;> subst he <;> exact ⟨rfl, rfl, rfl⟩

theorem mClose_static (e : Ext) : (mClose e).static = e.static := by
  unfold mClose
  split
  · split <;> rfl
  · rfl

theorem mClose_spent (e : Ext) (h : e.owns = e.opened ∧ e.reader.isSome = e.opened) :
    (mClose e).opened = false ∧ (mClose e).owns = false ∧ (mClose e).reader = none := by
  unfold mClose
  cases ho : e.opened with
  | false =>
    rw [ho] at h
    cases hr : e.reader with
    | some r => rw [hr] at h; simp at h
    | none => simp [h.1, ho, hr]
  | true =>
    rw [ho] at h
    cases hr : e.reader with
    | none => rw [hr] at h; simp at h
    | some r => simp [h.1]

theorem mClose_hasFile (e : Ext) : (mClose e).hasFile = e.hasFile := by
  have := mClose_static e
  simp only [Ext.static, Prod.mk.injEq] at this
  exact this.2.2.2

/-- a configuration method on a record without file name: the copy has the receiver's reader and
flags -/
theorem derive_mem (e : Ext) (c : BCall) (h : e.hasFile = false ∧ e.owns = e.opened ∧ e.reader.isSome = e.opened) :
    (e.derive c).hasFile = false ∧ (e.derive c).owns = (e.derive c).opened ∧
    (e.derive c).reader.isSome = (e.derive c).opened ∧ (e.derive c).opened = e.opened := by
  obtain ⟨hf, hw, hr⟩ := h
  unfold Ext.derive
  rw [applyCall_hasFile, applyCall_owns, applyCall_opened, applyCall_reader, clone_hasFile]
  unfold Ext.clone
  cases ho : e.opened with
  | true => rw [ho] at hw hr; simp [hf, hw, hr, ho]
  | false => simp [hf]

theorem getElem?_set' {α : Type} (l : List α) (i j : Nat) (a : α) :
    (l.set i a)[j]? = if i = j ∧ i < l.length then some a else l[j]? := by
  by_cases h : i = j
  · subst h
    by_cases hi : i < l.length
    · simp [hi, List.getElem?_set_self hi]
    · simp [hi]
  · simp [h, List.getElem?_set_ne h]

theorem memInv_set {X : List Ext} (h : MemInv X) (i : Nat) (e' : Ext)
    (he' : e'.hasFile = false ∧ e'.owns = e'.opened ∧ e'.reader.isSome = e'.opened) :
    MemInv (X.set i e') := by
  intro j e hj
  rw [getElem?_set'] at hj
  split at hj
  · cases hj; exact he'
  · exact h j e hj

theorem memInv_step (w : World) {X : List Ext} (h : MemInv X) (op : Op) : MemInv (mstep w X op).1 := by
  cases op with
  | derive i c =>
    simp only [mstep, mDeriveOp]
    cases he : X[i]? with
    | none => exact h
    | some e =>
      intro j ej hj
      rcases getElem?_concat _ _ _ _ hj with hj | ⟨_, rfl⟩
      · exact h j ej hj
      · obtain ⟨a, b, c', _⟩ := derive_mem e c (h i e he)
        exact ⟨a, b, c'⟩
  | term i k =>
    simp only [mstep, mTerminal]
    cases he : X[i]? with
    | none => exact h
    | some e =>
      simp only
      split
      · exact h
      · split
        · exact h
        · split
          · exact h
          · obtain ⟨hf, hrest⟩ := h i e he
            obtain ⟨a, b, c⟩ := mClose_spent e hrest
            exact memInv_set h i _ ⟨by rw [mClose_hasFile, hf], by rw [a, b], by rw [a, c]; rfl⟩
  | nonTerm i k =>
    simp only [mstep, mNonTerminal]
    cases he : X[i]? with
    | none => exact h
    | some e =>
      simp only
      split
      · exact h
      · split
        · exact h
        · split <;> exact h
  | close i =>
    simp only [mstep, mCloseOp]
    cases he : X[i]? with
    | none => exact h
    | some e =>
      obtain ⟨hf, hrest⟩ := h i e he
      obtain ⟨a, b, c⟩ := mClose_spent e hrest
      exact memInv_set h i _ ⟨by rw [mClose_hasFile, hf], by rw [a, b], by rw [a, c]; rfl⟩

theorem memInv_exec (w : World) (ops : List Op) : ∀ {X : List Ext}, MemInv X → MemInv (mexec w X ops) := by
  induction ops with
  | nil => intro X h; exact h
  | cons op ops ih => intro X h; exact ih (memInv_step w h op)

/-- an operation reads and writes the record of its receiver only -/
theorem mstep_other (w : World) (X : List Ext) (op : Op) (j : Nat) (hj : j < X.length)
    (h : op.mutates = false ∨ op.target ≠ j) : (mstep w X op).1[j]? = X[j]? := by
  cases op with
  | derive i c =>
    simp only [mstep, mDeriveOp]
    cases X[i]? with
    | none => rfl
    | some e => exact List.getElem?_append_left hj
  | term i k =>
    have hne : i ≠ j := by rcases h with h | h; · cases h
                           · exact h
    simp only [mstep, mTerminal]
    cases X[i]? with
    | none => rfl
    | some e =>
      simp only
      split
      · rfl
      · split
        · rfl
        · split
          · rfl
          · exact List.getElem?_set_ne hne
  | nonTerm i k =>
    simp only [mstep, mNonTerminal]
    cases X[i]? with
    | none => rfl
    | some e =>
      simp only
      split
      · rfl
      · split
        · rfl
        · split <;> rfl
  | close i =>
    have hne : i ≠ j := by rcases h with h | h; · cases h
                           · exact h
    simp only [mstep, mCloseOp]
    cases X[i]? with
    | none => rfl
    | some e => exact List.getElem?_set_ne hne

theorem mstep_length_le (w : World) (X : List Ext) (op : Op) : X.length ≤ (mstep w X op).1.length := by
  cases op with
  | derive i c =>
    simp only [mstep, mDeriveOp]
    cases X[i]? <;> simp
  | term i k =>
    simp only [mstep, mTerminal]
    cases X[i]? with
    | none => exact Nat.le_refl _
    | some e =>
      simp only
      split
      · exact Nat.le_refl _
      · split
        · exact Nat.le_refl _
        · split <;> simp
  | nonTerm i k =>
    simp only [mstep, mNonTerminal]
    cases X[i]? with
    | none => exact Nat.le_refl _
    | some e =>
      simp only
      split
      · exact Nat.le_refl _
      · split
        · exact Nat.le_refl _
        · split <;> exact Nat.le_refl _
  | close i =>
    simp only [mstep, mCloseOp]
    cases X[i]? <;> simp

/-- the answer of an operation depends on the record of its receiver only -/
theorem mstep_res_local (w : World) (X Y : List Ext) (op : Op) (h : X[op.target]? = Y[op.target]?) :
    (mstep w X op).2 = (mstep w Y op).2 := by
  cases op with
  | derive i c =>
    simp only [Op.target] at h
    simp only [mstep, mDeriveOp, h]
    cases Y[i]? <;> rfl
  | term i k =>
    simp only [Op.target] at h
    simp only [mstep, mTerminal, h]
    cases Y[i]? with
    | none => rfl
    | some e => simp only; split <;> (try rfl); split <;> (try rfl); split <;> rfl
  | nonTerm i k =>
    simp only [Op.target] at h
    simp only [mstep, mNonTerminal, h]
    cases Y[i]? with
    | none => rfl
    | some e => simp only; split <;> (try rfl); split <;> (try rfl); split <;> rfl
  | close i =>
    simp only [Op.target] at h
    simp only [mstep, mCloseOp, h]
    cases Y[i]? <;> rfl

/-! ### records against calls -/

/-- the records `X` are described by the chains `L` and the liveness flags `V` -/
def MRel (e0 : Ext) (L : List (List BCall)) (V : List Bool) (X : List Ext) : Prop :=
  L.length = X.length ∧ V.length = X.length ∧
  ∀ (i : Nat) (e : Ext), X[i]? = some e →
    ∃ cs, L[i]? = some cs ∧ e.static = (chainFrom e0 cs).static ∧ V[i]? = some e.opened

theorem mrel_base (e0 : Ext) : MRel e0 [[]] [e0.opened] [e0] := by
  refine ⟨rfl, rfl, ?_⟩
  intro i e he
  cases i with
  | zero => simp only [List.getElem?_cons_zero, Option.some.injEq] at he; subst he; exact ⟨[], rfl, rfl, rfl⟩
  | succ k => simp at he

theorem mTermStatic_congr (w : World) (k : Term) (e e' : Ext) (v : Bool) (h : e.static = e'.static) :
    mTermStatic w k e v = mTermStatic w k e' v := by
  have hb := termBodyF_static w k e e' h
  simp only [Ext.static, Prod.mk.injEq] at h
  unfold mTermStatic
  rw [h.2.1, h.2.2.1, hb]

theorem mNonTermStatic_congr (w : World) (k : NonTerm) (e e' : Ext) (v : Bool) (h : e.static = e'.static) :
    mNonTermStatic w k e v = mNonTermStatic w k e' v := by
  simp only [Ext.static, Prod.mk.injEq] at h
  unfold mNonTermStatic
  rw [h.2.1, h.2.2.1]

theorem consumes_congr (k : Term) (e e' : Ext) (h : e.static = e'.static) : consumes k e = consumes k e' := by
  simp only [Ext.static, Prod.mk.injEq] at h
  unfold consumes
  rw [h.2.1, h.2.2.1]

theorem mrel_set {e0 : Ext} {L : List (List BCall)} {V : List Bool} {X : List Ext} (h : MRel e0 L V X)
    {i : Nat} {e e' : Ext} (he : X[i]? = some e) (hst : e'.static = e.static) :
    MRel e0 L (V.set i e'.opened) (X.set i e') := by
  obtain ⟨h1, h2, h3⟩ := h
  have hi := lt_of_getElem? he
  refine ⟨by simp [h1], by simp [h2], ?_⟩
  intro j ej hj
  rw [getElem?_set'] at hj
  split at hj
  · rename_i hc
    cases hj
    obtain ⟨cs, hcs, hs, _⟩ := h3 i e he
    obtain ⟨rfl, _⟩ := hc
    refine ⟨cs, hcs, by rw [hst]; exact hs, ?_⟩
    rw [List.getElem?_set_self (by omega)]
  · rename_i hc
    obtain ⟨cs, hcs, hs, hv⟩ := h3 j ej hj
    refine ⟨cs, hcs, hs, ?_⟩
    have hne : i ≠ j := by
      intro hij; apply hc; exact ⟨hij, hi⟩
    rw [List.getElem?_set_ne hne]; exact hv

/-- **one step**: the record model and the description from the calls give the same answer and
stay related -/
theorem mstep_mlStep (w : World) (e0 : Ext) {L : List (List BCall)} {V : List Bool} {X : List Ext}
    (hinv : MemInv X) (h : MRel e0 L V X) (op : Op) :
    (mstep w X op).2 = (mlStep w (L.map (chainFrom e0)) V op).2 ∧
    MRel e0 (lineage L [op]) (mlStep w (L.map (chainFrom e0)) V op).1 (mstep w X op).1 := by
  obtain ⟨h1, h2, h3⟩ := h
  have hnone : ∀ i : Nat, X[i]? = none → V[i]? = none := by
    intro i hi
    rw [List.getElem?_eq_none_iff] at hi ⊢
    omega
  cases op with
  | derive i c =>
    simp only [mstep, mDeriveOp, mlStep, lineage]
    cases he : X[i]? with
    | none =>
      rw [hnone i he]
      have : L[i]? = none := by rw [List.getElem?_eq_none_iff] at he ⊢; omega
      rw [this]
      exact ⟨rfl, h1, h2, h3⟩
    | some e =>
      obtain ⟨cs, hcs, hs, hv⟩ := h3 i e he
      rw [hv, hcs]
      refine ⟨rfl, by simp [h1], by simp [h2], ?_⟩
      intro j ej hj
      rcases getElem?_concat _ _ _ _ hj with hj | ⟨hjl, rfl⟩
      · obtain ⟨cs', hcs', hs', hv'⟩ := h3 j ej hj
        have hjlt := lt_of_getElem? hj
        refine ⟨cs', ?_, hs', ?_⟩
        · rw [List.getElem?_append_left (by omega)]; exact hcs'
        · rw [List.getElem?_append_left (by omega)]; exact hv'
      · refine ⟨cs ++ [c], ?_, ?_, ?_⟩
        · rw [List.getElem?_append_right (by omega)]; simp [h1, hjl]
        · rw [chainFrom_snoc]; exact derive_static_congr _ _ c hs
        · rw [List.getElem?_append_right (by omega)]
          have := (derive_mem e c (hinv i e he)).2.2.2
          simp [h2, hjl, this]
  | term i k =>
    simp only [mstep, mTerminal, mlStep, lineage]
    cases he : X[i]? with
    | none => rw [hnone i he]; exact ⟨rfl, h1, h2, h3⟩
    | some e =>
      obtain ⟨cs, hcs, hs, hv⟩ := h3 i e he
      have hC : (L.map (chainFrom e0))[i]? = some (chainFrom e0 cs) := by simp [hcs]
      rw [hv, hC]
      simp only
      rw [← mTermStatic_congr w k e _ _ hs, ← consumes_congr k e _ hs]
      unfold mTermStatic consumes
      cases hc : (k.checksErr e.format && e.err) with
      | true =>
        simp only [if_true, Bool.not_true, Bool.false_and, Bool.false_eq_true, if_false]
        exact ⟨by first | rfl | trivial, h1, h2, h3⟩
      | false =>
        cases hm : (k.pdfOnly && e.format != .pdf) with
        | true =>
          simp only [Bool.false_eq_true, if_false, if_true, Bool.not_true, Bool.and_false, Bool.false_and]
          exact ⟨by first | rfl | trivial, h1, h2, h3⟩
        | false =>
          cases ho : e.opened with
          | false =>
            simp only [Bool.false_eq_true, if_false, Bool.not_false, if_true, Bool.and_false]
            exact ⟨by first | rfl | trivial, h1, h2, h3⟩
          | true =>
            simp only [Bool.false_eq_true, if_false, Bool.not_false, Bool.not_true, Bool.and_self, if_true]
            refine ⟨by first | rfl | trivial, ?_⟩
            have hsp := (mClose_spent e (hinv i e he).2).1
            have := mrel_set ⟨h1, h2, h3⟩ he (mClose_static e)
            rw [hsp] at this
            exact this
  | nonTerm i k =>
    simp only [mstep, mNonTerminal, mlStep, lineage]
    cases he : X[i]? with
    | none => rw [hnone i he]; exact ⟨rfl, h1, h2, h3⟩
    | some e =>
      obtain ⟨cs, hcs, hs, hv⟩ := h3 i e he
      have hC : (L.map (chainFrom e0))[i]? = some (chainFrom e0 cs) := by simp [hcs]
      rw [hv, hC]
      simp only
      rw [← mNonTermStatic_congr w k e _ _ hs]
      unfold mNonTermStatic
      cases hc : e.err with
      | true => simp only [if_true]; exact ⟨by first | rfl | trivial, h1, h2, h3⟩
      | false =>
        cases hm : (k.pdfOnly && e.format != .pdf) with
        | true => simp only [Bool.false_eq_true, if_false, if_true]; exact ⟨by first | rfl | trivial, h1, h2, h3⟩
        | false =>
          cases ho : e.opened with
          | false =>
            simp only [Bool.false_eq_true, if_false, Bool.not_false, if_true]
            exact ⟨by first | rfl | trivial, h1, h2, h3⟩
          | true =>
            simp only [Bool.false_eq_true, if_false, Bool.not_true]
            exact ⟨by first | rfl | trivial, h1, h2, h3⟩
  | close i =>
    simp only [mstep, mCloseOp, mlStep, lineage]
    cases he : X[i]? with
    | none => rw [hnone i he]; exact ⟨rfl, h1, h2, h3⟩
    | some e =>
      obtain ⟨cs, hcs, hs, hv⟩ := h3 i e he
      rw [hv]
      refine ⟨by first | rfl | trivial, ?_⟩
      have hsp := (mClose_spent e (hinv i e he).2).1
      have := mrel_set ⟨h1, h2, h3⟩ he (mClose_static e)
      rw [hsp] at this
      exact this

end Tabula.BuilderMem
