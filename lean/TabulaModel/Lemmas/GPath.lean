import TabulaModel.Model.GPath
import TabulaModel.Lemmas.Matrix
/-!
Helper lemmas about the path machinery of the graphics extractor (`Model/GPath.lean`).
-/
namespace Tabula.GPath
open Tabula Tabula.Matrix

variable {α : Type}

section
variable [Lean.Grind.CommRing α] [DecidableEq α] [LT α] [DecidableLT α]

/-- the user-space segments `extractLineSegments` walks over (independent of the CTM) -/
def userSegments : List (Seg α) → Pt α → Pt α → List (Pt α × Pt α)
  | [], _, _ => []
  | .move p :: rest, _, _ => userSegments rest p p
  | .line p :: rest, cur, start => (cur, p) :: userSegments rest p start
  | .curve _ _ p3 :: rest, cur, start => (cur, p3) :: userSegments rest p3 start
  | .close :: rest, cur, start =>
    if pointsEqual cur start then userSegments rest start start
    else (cur, start) :: userSegments rest start start

theorem lineSegments_eq_map (ctm : Matrix α) (lw : α) (segs : List (Seg α)) (cur start : Pt α) :
    lineSegments ctm lw segs cur start =
      (userSegments segs cur start).map fun pq => createLine ctm lw pq.1 pq.2 := by
  induction segs generalizing cur start with
  | nil => rfl
  | cons sg rest ih =>
    cases sg with
    | move p => simp only [lineSegments, userSegments, ih]
    | line p => simp only [lineSegments, userSegments, ih, List.map_cons]
    | curve p1 p2 p3 => simp only [lineSegments, userSegments, ih, List.map_cons]
    | close =>
      simp only [lineSegments, userSegments]
      split <;> simp [ih]

theorem createLine_mul (M C : Matrix α) (lw : α) (a b : Pt α) :
    createLine (M.mul C) lw a b = createLine C lw (M.transformPoint a) (M.transformPoint b) := by
  simp only [createLine, transformPoint_mul]

end

section
variable [Lean.Grind.CommRing α] [DecidableEq α] [LE α] [LT α] [DecidableLT α]
  [Std.IsLinearOrder α] [Std.LawfulOrderLT α] [Lean.Grind.OrderedRing α]

theorem sumsq_nonneg (a b : α) : 0 ≤ a * a + b * b := by
  have h1 : 0 ≤ a ^ 2 := Lean.Grind.OrderedRing.sq_nonneg
  have h2 : 0 ≤ b ^ 2 := Lean.Grind.OrderedRing.sq_nonneg
  rw [Lean.Grind.Semiring.pow_two] at h1 h2
  grind

/-- a right angle (dot product 0) passes the corner test, whatever the side lengths -/
theorem cornerOk_of_dot_zero (p0 p1 p2 : Pt α)
    (h : (p1.1 - p0.1) * (p2.1 - p1.1) + (p1.2 - p0.2) * (p2.2 - p1.2) = 0) : cornerOk p0 p1 p2 = true := by
  simp only [cornerOk, h]
  split
  · rfl
  · have h1 := sumsq_nonneg (p1.1 - p0.1) (p1.2 - p0.2)
    have h2 := sumsq_nonneg (p2.1 - p1.1) (p2.2 - p1.2)
    have h3 := Lean.Grind.OrderedRing.mul_nonneg h1 h2
    have h0 : (100 : α) * (0 * 0) = 0 := by grind
    rw [h0]
    simp only [Bool.not_eq_eq_eq_not, Bool.not_true, decide_eq_false_iff_not]
    grind

/-- every axis-parallel rectangle — any corner, any width and height, negative and zero
included — passes `isRectangle` -/
theorem isRectangle_axis (x y w h : α) :
    isRectangle (x, y) (x + w, y) (x + w, y + h) (x, y + h) = true := by
  simp only [isRectangle, Bool.and_eq_true]
  refine ⟨⟨⟨?_, ?_⟩, ?_⟩, ?_⟩ <;> apply cornerOk_of_dot_zero <;> simp only <;> grind

/-- every rectangle — a corner `p` and two orthogonal side vectors `u`, `v` of any length,
in any orientation — passes `isRectangle` -/
theorem isRectangle_of_orthogonal (p u v : Pt α) (h : u.1 * v.1 + u.2 * v.2 = 0) :
    isRectangle p (p.1 + u.1, p.2 + u.2) (p.1 + u.1 + v.1, p.2 + u.2 + v.2) (p.1 + v.1, p.2 + v.2) = true := by
  simp only [isRectangle, Bool.and_eq_true]
  refine ⟨⟨⟨?_, ?_⟩, ?_⟩, ?_⟩ <;> apply cornerOk_of_dot_zero <;> simp only <;> grind

theorem min2_le (a b : α) : min2 a b ≤ a ∧ min2 a b ≤ b ∧ (min2 a b = a ∨ min2 a b = b) := by
  simp only [min2]; split <;> grind

theorem le_max2 (a b : α) : a ≤ max2 a b ∧ b ≤ max2 a b ∧ (max2 a b = a ∨ max2 a b = b) := by
  simp only [max2]; split <;> grind

/-- running minimum / maximum, as the loop of `boundingBoxFromPoints` keeps them -/
def minL : List α → α → α
  | [], m => m
  | x :: rest, m => minL rest (if x < m then x else m)

def maxL : List α → α → α
  | [], m => m
  | x :: rest, m => maxL rest (if m < x then x else m)

omit [DecidableEq α] [LE α] [Std.IsLinearOrder α] [Std.LawfulOrderLT α] [Lean.Grind.OrderedRing α] in
theorem bboxLoop_eq (pts : List (Pt α)) (a b c d : α) :
    bboxLoop pts a b c d =
      (minL (pts.map (·.1)) a, maxL (pts.map (·.1)) b, minL (pts.map (·.2)) c, maxL (pts.map (·.2)) d) := by
  induction pts generalizing a b c d with
  | nil => rfl
  | cons p rest ih => simp only [bboxLoop, List.map_cons, minL, maxL, ih]

omit [DecidableEq α] in
theorem minL_spec (xs : List α) (m : α) :
    minL xs m ≤ m ∧ (∀ x ∈ xs, minL xs m ≤ x) ∧ (minL xs m = m ∨ minL xs m ∈ xs) := by
  induction xs generalizing m with
  | nil => simp only [minL]; grind
  | cons x rest ih =>
    obtain ⟨h1, h2, h3⟩ := ih (if x < m then x else m)
    simp only [minL]
    refine ⟨?_, ?_, ?_⟩
    · split at h1 <;> grind
    · intro y hy
      rcases List.mem_cons.mp hy with rfl | hm
      · split at h1 <;> grind
      · exact h2 y hm
    · rcases h3 with h | h
      · by_cases hx : x < m
        · rw [if_pos hx] at h ⊢; exact Or.inr (by rw [h]; exact List.mem_cons_self)
        · rw [if_neg hx] at h ⊢; exact Or.inl h
      · exact Or.inr (List.mem_cons_of_mem _ h)

omit [DecidableEq α] in
theorem maxL_spec (xs : List α) (m : α) :
    m ≤ maxL xs m ∧ (∀ x ∈ xs, x ≤ maxL xs m) ∧ (maxL xs m = m ∨ maxL xs m ∈ xs) := by
  induction xs generalizing m with
  | nil => simp only [maxL]; grind
  | cons x rest ih =>
    obtain ⟨h1, h2, h3⟩ := ih (if m < x then x else m)
    simp only [maxL]
    refine ⟨?_, ?_, ?_⟩
    · split at h1 <;> grind
    · intro y hy
      rcases List.mem_cons.mp hy with rfl | hm
      · split at h1 <;> grind
      · exact h2 y hm
    · rcases h3 with h | h
      · by_cases hx : m < x
        · rw [if_pos hx] at h ⊢; exact Or.inr (by rw [h]; exact List.mem_cons_self)
        · rw [if_neg hx] at h ⊢; exact Or.inl h
      · exact Or.inr (List.mem_cons_of_mem _ h)

end
end Tabula.GPath
