import TabulaModel.Model.Print
import TabulaModel.Model.CSParser
/-! Names: `#`-escaping round trip for both parsers, and their agreement. -/
namespace Tabula.Pdf
namespace Nm

theorem hexDigitChar_facts (u : Bool) (v : Nat) (hv : v < 16) :
    isHexDigit (hexDigitChar u v) = true ∧ hexValue (hexDigitChar u v) = v := by
  have : v = 0 ∨ v = 1 ∨ v = 2 ∨ v = 3 ∨ v = 4 ∨ v = 5 ∨ v = 6 ∨ v = 7 ∨ v = 8 ∨ v = 9 ∨ v = 10 ∨
      v = 11 ∨ v = 12 ∨ v = 13 ∨ v = 14 ∨ v = 15 := by omega
  cases u <;> rcases this with h | h | h | h | h | h | h | h | h | h | h | h | h | h | h | h <;> subst h <;> decide

theorem nameLoop_raw (b : Nat) (r : Str) (h1 : isWs b = false) (h2 : isDelim b = false) (h3 : b ≠ 35) :
    nameLoop (b :: r) = pre [b] (nameLoop r) := by
  rw [nameLoop.eq_def]
  simp [h1, h2, h3]

theorem nameLoop_term (c : Nat) (r : Str) (h : (isWs c || isDelim c) = true) :
    nameLoop (c :: r) = some ([], c :: r) := by
  rw [nameLoop.eq_def]
  simp [h]

theorem nameLoop_hash (h1 h2 : Nat) (r : Str) :
    nameLoop (35 :: h1 :: h2 :: r) =
      if (isHexDigit h1 && isHexDigit h2) = true then pre [hexValue h1 * 16 + hexValue h2] (nameLoop r) else none := by
  rw [nameLoop.eq_def]
  have hw : isWs 35 = false := by decide
  have hd : isDelim 35 = false := by decide
  simp [hw, hd]

theorem nameLoop_hash1 (a : Nat) : nameLoop [35, a] = none := by
  rw [nameLoop.eq_def]
  have hw : isWs 35 = false := by decide
  have hd : isDelim 35 = false := by decide
  simp [hw, hd]

theorem nameLoop_hash0 : nameLoop [35] = none := by
  rw [nameLoop.eq_def]
  have hw : isWs 35 = false := by decide
  have hd : isDelim 35 = false := by decide
  simp [hw, hd]

theorem cs_nameLoop_raw (b : Nat) (r : Str) (h1 : isWs b = false) (h2 : isDelim b = false) (h3 : b ≠ 35) :
    CS.nameLoop (b :: r) = (b :: (CS.nameLoop r).1, (CS.nameLoop r).2) := by
  rw [CS.nameLoop.eq_def]
  simp [h1, h2, h3]

theorem cs_nameLoop_term (c : Nat) (r : Str) (h : (isWs c || isDelim c) = true) :
    CS.nameLoop (c :: r) = ([], c :: r) := by
  rw [CS.nameLoop.eq_def]
  simp [h]

theorem cs_nameLoop_hash (h1 h2 : Nat) (r : Str) (h : (isHexDigit h1 && isHexDigit h2) = true) :
    CS.nameLoop (35 :: h1 :: h2 :: r) =
      ((hexValue h1 * 16 + hexValue h2) :: (CS.nameLoop r).1, (CS.nameLoop r).2) := by
  rw [CS.nameLoop.eq_def]
  have hw : isWs 35 = false := by decide
  have hd : isDelim 35 = false := by decide
  simp [hw, hd, h]

theorem nameLoop_esc (b : Nat) (u1 u2 : Bool) (r : Str) (hb : b < 256) :
    nameLoop (35 :: hexDigitChar u1 (b / 16) :: hexDigitChar u2 (b % 16) :: r) = pre [b] (nameLoop r) := by
  have f1 := hexDigitChar_facts u1 (b / 16) (by omega)
  have f2 := hexDigitChar_facts u2 (b % 16) (by omega)
  rw [nameLoop_hash]
  simp only [f1.1, f2.1, Bool.and_self, if_true, f1.2, f2.2]
  have : b / 16 * 16 + b % 16 = b := by omega
  rw [this]

theorem nameLoop_end (tail : Str) (h : Terminated tail) : nameLoop tail = some ([], tail) := by
  rcases h with h | ⟨c, r, h, hc⟩
  · subst h; rfl
  · subst h; exact nameLoop_term c r hc

end Nm

/-- the document-level lexer reads every legal spelling of a name back as the bytes meant -/
theorem nameLoop_roundtrip (ps : List NPiece) (tail : Str) (hok : ∀ p ∈ ps, p.Ok) (ht : Terminated tail) :
    nameLoop (renderName ps ++ tail) = some (ps.map NPiece.byte, tail) := by
  induction ps with
  | nil => simpa [renderName] using Nm.nameLoop_end tail ht
  | cons p ps ih =>
    have hp := hok p (by simp)
    have ih' := ih (fun q hq => hok q (by simp [hq]))
    simp only [renderName] at ih'
    cases p with
    | raw b =>
      obtain ⟨h1, h2, h3⟩ := hp
      simp only [renderName, List.flatMap_cons, NPiece.render, List.cons_append, List.nil_append, List.map_cons,
        NPiece.byte]
      rw [Nm.nameLoop_raw b _ h1 h2 h3, ih']; rfl
    | esc b u1 u2 =>
      simp only [renderName, List.flatMap_cons, NPiece.render, List.cons_append, List.nil_append, List.map_cons,
        NPiece.byte]
      rw [Nm.nameLoop_esc b u1 u2 _ hp, ih']; rfl

/-- whenever the document-level lexer accepts a name, the content-stream reader gives the same
bytes and stops at the same place -/
theorem cs_nameLoop_agree (inp v r : Str) (h : nameLoop inp = some (v, r)) : CS.nameLoop inp = (v, r) := by
  generalize hn : inp.length = n
  induction n using Nat.strongRecOn generalizing inp v with
  | _ n ih =>
    cases inp with
    | nil =>
      simp [nameLoop] at h
      obtain ⟨rfl, rfl⟩ := h
      rw [CS.nameLoop.eq_def]
    | cons c r0 =>
      cases hterm : (isWs c || isDelim c) with
      | true =>
        rw [Nm.nameLoop_term c r0 hterm] at h
        cases h
        exact Nm.cs_nameLoop_term c r0 hterm
      | false =>
        have h1 : isWs c = false := by cases hh : isWs c <;> simp_all
        have h2 : isDelim c = false := by cases hh : isDelim c <;> simp_all
        by_cases h35 : c = 35
        · subst h35
          match r0, h with
          | [], h => rw [Nm.nameLoop_hash0] at h; cases h
          | [a], h => rw [Nm.nameLoop_hash1] at h; cases h
          | a :: b :: r', h =>
            rw [Nm.nameLoop_hash] at h
            split at h
            · rename_i hhex
              cases hr : nameLoop r' with
              | none => simp [hr, pre] at h
              | some p =>
                obtain ⟨v', r''⟩ := p
                simp only [hr, pre, Option.some.injEq, Prod.mk.injEq] at h
                obtain ⟨rfl, rfl⟩ := h
                have := ih r'.length (by simp only [List.length_cons] at hn; omega) r' v' hr rfl
                rw [Nm.cs_nameLoop_hash a b r' hhex, this]; rfl
            · cases h
        · rw [Nm.nameLoop_raw c r0 h1 h2 h35] at h
          cases hr : nameLoop r0 with
          | none => simp [hr, pre] at h
          | some p =>
            obtain ⟨v', r''⟩ := p
            simp only [hr, pre, Option.some.injEq, Prod.mk.injEq] at h
            obtain ⟨rfl, rfl⟩ := h
            have := ih r0.length (by simp only [List.length_cons] at hn; omega) r0 v' hr rfl
            rw [Nm.cs_nameLoop_raw c r0 h1 h2 h35, this]; rfl

/-- so the content-stream reader has the same round trip -/
theorem cs_nameLoop_roundtrip (ps : List NPiece) (tail : Str) (hok : ∀ p ∈ ps, p.Ok) (ht : Terminated tail) :
    CS.nameLoop (renderName ps ++ tail) = (ps.map NPiece.byte, tail) :=
  cs_nameLoop_agree _ _ _ (nameLoop_roundtrip ps tail hok ht)

/-- every byte string has a legal spelling as a name -/
theorem canonNPiece_ok (bs : Str) (h : ∀ b ∈ bs, b < 256) :
    (∀ p ∈ bs.map canonNPiece, p.Ok) ∧ (bs.map canonNPiece).map NPiece.byte = bs := by
  constructor
  · intro p hp
    simp only [List.mem_map] at hp
    obtain ⟨b, hb, rfl⟩ := hp
    unfold canonNPiece
    split
    · rename_i hc; exact ⟨hc.1, hc.2.1, hc.2.2.1⟩
    · exact h b hb
  · induction bs with
    | nil => rfl
    | cons b bs ih =>
      simp only [List.map_cons, List.map_map] at ih ⊢
      rw [ih (fun x hx => h x (by simp [hx]))]
      congr 1
      unfold canonNPiece; split <;> rfl

end Tabula.Pdf
