import TabulaModel.Lemmas.CMapCompose
/-!
The SPECIFICATION of what a ToUnicode CMap program (any list of bfchar / bfrange sections, any
arrangement of entries) says about every code and every byte string - not only about the codes
it defines. Shared by `Lemmas/CMapArrange.lean`, `Lemmas/CMapArrangeSet.lean`,
`Lemmas/CMapArrangeState.lean`, `Props/C07Arrange.lean` and the handler of op `c07.spec`.

A code may be defined several times (the hypotheses `Functional …` of
`C07CMap.cmap_roundtrip_program` are NOT needed here): a direct definition (bfchar entry or
element of an array target) takes precedence over every offset range; among direct definitions
of the same kind of section the LAST in program order counts, and every array element comes
after every bfchar entry (tabula reads all bfchar sections before all bfrange sections); among
offset ranges the FIRST in program order that contains the code counts.
-/
namespace Tabula.CMapArrange
open Tabula.UTF16 Tabula.CMap
open Tabula.CMapCompose (allItems directEntries offsetRuns offsetEntries Functional Specified)

/-- the text a program specifies for code `c`; `[]` = the program does not define `c` -/
def specText (secs : List Section) (c : Nat) : List Nat :=
  match (directEntries secs).reverse.find? (fun e => e.1 == c) with
  | some e => e.2
  | none =>
    match (offsetRuns secs).find? (fun r => decide (r.lo ≤ c ∧ c ≤ r.hi)) with
    | some r => r.texts.getD (c - r.lo) []
    | none => []

/-- one code of a shown string: the specified text; a code the program does not define is taken
for the character of that number when there is one (tabula's fallback; the property does not
speak about undefined codes) -/
def specEmit (secs : List Section) (c : Nat) : List Nat :=
  if specText secs c ≠ [] then specText secs c else if c < 0x110000 then [toRune c] else []

/-- the number a string of bytes denotes, big-endian -/
def beVal (bs : List Nat) : Nat := bs.foldl (fun a b => a * 256 + b) 0

/-- every byte string under a code space of `w` bytes: whole codes of `w` bytes each, most
significant byte first; a remainder of fewer than `w` bytes is read byte by byte (`fuel` ≥
length) -/
def specDecode (secs : List Section) (w : Nat) : Nat → List Nat → List Nat
  | 0, _ => []
  | _, [] => []
  | fuel + 1, b :: rest =>
    if (b :: rest).length < w then (b :: rest).flatMap (specEmit secs)
    else specEmit secs (beVal ((b :: rest).take w)) ++ specDecode secs w fuel ((b :: rest).drop w)

/-- all code→text entries the items of a program write, whatever their form -/
def allEntries (secs : List Section) : List (Nat × List Nat) := (allItems secs).flatMap Item.entries

/-- two ranges share no code -/
def RangesDisjoint (a b : Range) : Prop := ∀ c, ¬ ((a.start ≤ c ∧ c ≤ a.stop) ∧ (b.start ≤ c ∧ c ≤ b.stop))

example :
    let secs : List Section :=
      [⟨.bfrange, [.offset ⟨0x41, [[0x61], [0x62], [0x63]]⟩, .array ⟨0x42, [[0x58, 0x59]]⟩]⟩,
       ⟨.bfchar, [.char 0x43 [0x1D400], .char 0x43 [0x7A]]⟩, ⟨.bfrange, [.offset ⟨0x40, [[0x30], [0x31]]⟩]⟩]
    (specText secs 0x40, specText secs 0x41, specText secs 0x42, specText secs 0x43, specText secs 0x44) =
      ([0x30], [0x61], [0x58, 0x59], [0x7A], []) ∧
    specDecode secs 2 6 [0, 0x41, 0, 0x44, 0xD8, 0x00, 0x42] = [0x61, 0x44, 0xFFFD, 0x58, 0x59] := by
  decide

end Tabula.CMapArrange
