import TabulaModel.Model.ChunkMeta
import TabulaModel.Lemmas.Chunk
/-!
Lemmas for `Props/C12Meta.lean`: the labelled walk of `Model/ChunkMeta.lean` projects to the
walk of `Model/Chunk.lean`; the chunks that are not text chunks are the solo elements.
-/
namespace Tabula.ChunkMeta
open Tabula.Chunk

/-! ### forgetting the origin -/

theorem piecesX_c (path : List Str) (page : Int) (ps : List Str) (idx : Nat) :
    (piecesX path page ps idx).map (·.c) = piecesToChunks path page ps idx := by
  induction ps generalizing idx with
  | nil => rfl
  | cons t ts ih => simp only [piecesX, piecesToChunks, List.map_cons, ih]

theorem textBlockX_c (sp : Splitter) (text : Str) (path : List Str) (page : Int) (idx : Nat) :
    (textBlockX sp text path page idx).map (·.c) = textBlockToChunks sp text path page idx := by
  unfold textBlockX textBlockToChunks
  cases sp text <;> exact piecesX_c _ _ _ _

theorem flushX_c {σ} (sp : Splitter) (page : Int) (st : St σ) :
    (flushX sp page st).1 = (flush sp page st).1 ∧ (flushX sp page st).2.map (·.c) = (flush sp page st).2 := by
  unfold flushX flush
  split
  · exact ⟨rfl, rfl⟩
  · have h := textBlockX_c sp st.block st.blockPath page st.idx
    have hl : (textBlockX sp st.block st.blockPath page st.idx).length =
        (textBlockToChunks sp st.block st.blockPath page st.idx).length := by
      rw [← h, List.length_map]
    exact ⟨by simp only [hl], h⟩

theorem emitOneX_c {σ} (sp : Splitter) (page : Int) (st : St σ) (sec : σ) (text : Str) (path : List Str) (o : Origin) :
    (emitOneX sp page st sec text path o).1 = (emitOne sp page st sec text path).1 ∧
    (emitOneX sp page st sec text path o).2.map (·.c) = (emitOne sp page st sec text path).2 := by
  obtain ⟨h1, h2⟩ := flushX_c sp page st
  unfold emitOneX emitOne
  generalize flushX sp page st = rx at h1 h2
  generalize flush sp page st = r at h1 h2
  obtain ⟨sx, cx⟩ := rx
  obtain ⟨s, c⟩ := r
  simp only at h1 h2
  subst h1
  subst h2
  simp

theorem stepElemX_c {σ} (tr : Tracker σ) (sp : Splitter) (toc : List TOCEntry) (page : Int) (st : St σ) (e : Elem) :
    (stepElemX tr sp toc page st e).1 = (stepElem tr sp toc page st e).1 ∧
    (stepElemX tr sp toc page st e).2.map (·.c) = (stepElem tr sp toc page st e).2 := by
  cases e with
  | para text =>
    simp only [stepElemX, stepElem]
    split
    · exact emitOneX_c _ _ _ _ _ _ _
    · exact ⟨rfl, rfl⟩
  | heading level text => exact emitOneX_c _ _ _ _ _ _ _
  | list ordered items => exact emitOneX_c _ _ _ _ _ _ _
  | table rows => exact emitOneX_c _ _ _ _ _ _ _
  | image alt =>
    simp only [stepElemX, stepElem]
    split
    · exact flushX_c _ _ _
    · exact emitOneX_c _ _ _ _ _ _ _

theorem runElemsX_c {σ} (tr : Tracker σ) (sp : Splitter) (toc : List TOCEntry) (page : Int) (st : St σ) (es : List Elem) :
    (runElemsX tr sp toc page st es).1 = (runElems tr sp toc page st es).1 ∧
    (runElemsX tr sp toc page st es).2.map (·.c) = (runElems tr sp toc page st es).2 := by
  induction es generalizing st with
  | nil => exact ⟨rfl, rfl⟩
  | cons e es ih =>
    obtain ⟨h1, h2⟩ := stepElemX_c tr sp toc page st e
    simp only [runElemsX, runElems]
    rw [h1]
    obtain ⟨i1, i2⟩ := ih (stepElem tr sp toc page st e).1
    exact ⟨i1, by rw [List.map_append, h2, i2]⟩

theorem chunkPageX_c {σ} (tr : Tracker σ) (sp : Splitter) (toc : List TOCEntry) (st : St σ) (pg : Page) :
    (chunkPageX tr sp toc st pg).1 = (chunkPage tr sp toc st pg).1 ∧
    (chunkPageX tr sp toc st pg).2.map (·.c) = (chunkPage tr sp toc st pg).2 := by
  obtain ⟨h1, h2⟩ := runElemsX_c tr sp toc pg.number st (resolveRepeatedHeadings pg)
  simp only [chunkPageX, chunkPage]
  rw [h1]
  obtain ⟨f1, f2⟩ := flushX_c sp pg.number (runElems tr sp toc pg.number st (resolveRepeatedHeadings pg)).1
  exact ⟨f1, by rw [List.map_append, h2, f2]⟩

theorem chunkPagesX_c {σ} (tr : Tracker σ) (sp : Splitter) (toc : List TOCEntry) (st : St σ) (d : List Page) :
    (chunkPagesX tr sp toc st d).map (fun g => g.map (·.c)) = chunkPages tr sp toc st d := by
  induction d generalizing st with
  | nil => rfl
  | cons pg pgs ih =>
    obtain ⟨h1, h2⟩ := chunkPageX_c tr sp toc st pg
    simp only [chunkPagesX, chunkPages, List.map_cons]
    rw [h1, h2, ih]

theorem setTotalX_c (xs : List XChunk) : (setTotalX xs).map (·.c) = setTotal (xs.map (·.c)) := by
  simp [setTotalX, setTotal, List.map_map, Function.comp_def]

theorem chunkDocumentX_c (sp : Splitter) (d : Doc) : (chunkDocumentX sp d).map (·.c) = chunkDocument sp d := by
  unfold chunkDocumentX chunkDocument chunkDocumentWith pageGroupsX pageGroups
  rw [setTotalX_c, List.map_flatten, chunkPagesX_c]

/-! ### the chunks that are not text chunks -/

/-- origin, text and page of the chunks that no text block made -/
def solos (xs : List XChunk) : List (Origin × Str × Int) :=
  (xs.filter fun x => !x.o.isText).map fun x => (x.o, x.c.text, x.c.pageStart)

theorem solos_append (a b : List XChunk) : solos (a ++ b) = solos a ++ solos b := by
  simp [solos, List.filter_append]

theorem solos_nil : solos [] = [] := rfl

theorem solos_piecesX (path : List Str) (page : Int) (ps : List Str) (idx : Nat) :
    solos (piecesX path page ps idx) = [] := by
  induction ps generalizing idx with
  | nil => rfl
  | cons t ts ih =>
    have := ih (idx + 1)
    simp only [solos, piecesX, List.filter_cons, Origin.isText, Bool.not_true, Bool.false_eq_true, if_false] at this ⊢
    exact this

theorem solos_flushX {σ} (sp : Splitter) (page : Int) (st : St σ) : solos (flushX sp page st).2 = [] := by
  unfold flushX
  split
  · rfl
  · simp only [textBlockX]
    split <;> exact solos_piecesX _ _ _ _

theorem solos_emitOneX {σ} (sp : Splitter) (page : Int) (st : St σ) (sec : σ) (text : Str) (path : List Str)
    (o : Origin) (ho : o.isText = false) :
    solos (emitOneX sp page st sec text path o).2 = [(o, text, page)] := by
  have hf := solos_flushX sp page st
  unfold emitOneX
  generalize flushX sp page st = r at hf
  obtain ⟨s, c⟩ := r
  simp only at hf ⊢
  rw [solos_append, hf]
  simp [solos, mkChunk, ho]

theorem solos_stepElemX {σ} (tr : Tracker σ) (sp : Splitter) (toc : List TOCEntry) (page : Int) (st : St σ) (e : Elem) :
    solos (stepElemX tr sp toc page st e).2 = ((solo toc page e).map fun r => (r.1, r.2, page)).toList := by
  cases e with
  | para text =>
    simp only [stepElemX, solo]
    split
    · rw [solos_emitOneX _ _ _ _ _ _ _ rfl]; rfl
    · rfl
  | heading level text => simp only [stepElemX, solo]; rw [solos_emitOneX _ _ _ _ _ _ _ rfl]; rfl
  | list ordered items => simp only [stepElemX, solo]; rw [solos_emitOneX _ _ _ _ _ _ _ rfl]; rfl
  | table rows => simp only [stepElemX, solo]; rw [solos_emitOneX _ _ _ _ _ _ _ rfl]; rfl
  | image alt =>
    simp only [stepElemX, solo]
    split
    · rw [solos_flushX]; rfl
    · rw [solos_emitOneX _ _ _ _ _ _ _ rfl]; rfl

theorem solos_runElemsX {σ} (tr : Tracker σ) (sp : Splitter) (toc : List TOCEntry) (page : Int) (st : St σ) (es : List Elem) :
    solos (runElemsX tr sp toc page st es).2 =
      es.filterMap fun e => (solo toc page e).map fun r => (r.1, r.2, page) := by
  induction es generalizing st with
  | nil => rfl
  | cons e es ih =>
    simp only [runElemsX, solos_append, solos_stepElemX, ih, List.filterMap_cons]
    cases solo toc page e <;> rfl

theorem solos_chunkPageX {σ} (tr : Tracker σ) (sp : Splitter) (toc : List TOCEntry) (st : St σ) (pg : Page) :
    solos (chunkPageX tr sp toc st pg).2 =
      (resolveRepeatedHeadings pg).filterMap fun e => (solo toc pg.number e).map fun r => (r.1, r.2, pg.number) := by
  simp only [chunkPageX, solos_append, solos_runElemsX, solos_flushX, List.append_nil]

theorem solos_chunkPagesX {σ} (tr : Tracker σ) (sp : Splitter) (toc : List TOCEntry) (st : St σ) (d : List Page) :
    solos (chunkPagesX tr sp toc st d).flatten =
      d.flatMap fun pg => (resolveRepeatedHeadings pg).filterMap fun e =>
        (solo toc pg.number e).map fun r => (r.1, r.2, pg.number) := by
  induction d generalizing st with
  | nil => rfl
  | cons pg pgs ih =>
    simp only [chunkPagesX, List.flatten_cons, solos_append, solos_chunkPageX, ih, List.flatMap_cons]

theorem solos_setTotalX (xs : List XChunk) : solos (setTotalX xs) = solos xs := by
  simp [solos, setTotalX, List.filter_map, List.map_map, Function.comp_def]

/-! ### chunks of one origin -/

theorem filter_origin (xs : List XChunk) (o : Origin) (ho : o.isText = false) :
    (xs.filter fun x => x.o == o).map (fun x => (x.c.text, x.c.pageStart)) =
      ((solos xs).filter fun r => r.1 == o).map (·.2) := by
  induction xs with
  | nil => rfl
  | cons x xs ih =>
    simp only [solos] at ih ⊢
    by_cases h1 : x.o == o
    · have : x.o.isText = false := by rw [eq_of_beq h1]; exact ho
      simp only [List.filter_cons, h1, if_true, this, Bool.not_false, List.map_cons]
      rw [ih]
    · by_cases h2 : x.o.isText
      · simp only [List.filter_cons, h1, h2, Bool.not_true, Bool.false_eq_true, if_false]
        exact ih
      · simp only [List.filter_cons, h1, h2, Bool.not_false, Bool.false_eq_true, if_false, if_true, List.map_cons]
        exact ih

/-- `resolveRepeatedHeadings` touches paragraphs only -/
theorem resolveElems_filterMap {α} (f : Elem → Option α) (hp : ∀ t, f (.para t) = none) (hh : ∀ l t, f (.heading l t) = none)
    (layout : List (Int × Str)) (seen : List Str) (es : List Elem) :
    (resolveElems layout seen es).filterMap f = es.filterMap f := by
  induction es generalizing seen with
  | nil => rfl
  | cons e es ih =>
    cases e with
    | heading l t => simp only [resolveElems, List.filterMap_cons, hh, ih]
    | para t =>
      simp only [resolveElems]
      split
      · simp only [List.filterMap_cons, hp, ih]
      · split <;> simp only [List.filterMap_cons, hp, hh, ih]
    | list o items => simp only [resolveElems, List.filterMap_cons, ih]
    | table rows => simp only [resolveElems, List.filterMap_cons, ih]
    | image alt => simp only [resolveElems, List.filterMap_cons, ih]

theorem resolve_filterMap {α} (f : Elem → Option α) (hp : ∀ t, f (.para t) = none) (hh : ∀ l t, f (.heading l t) = none)
    (pg : Page) : (resolveRepeatedHeadings pg).filterMap f = pg.elems.filterMap f := by
  unfold resolveRepeatedHeadings
  split
  · rfl
  · exact resolveElems_filterMap f hp hh _ _ _

theorem filterMap_filter_map {α β γ} (g : α → Option β) (p : β → Bool) (h : β → γ) (l : List α) :
    ((l.filterMap g).filter p).map h = l.filterMap fun e => (g e).bind fun r => if p r then some (h r) else none := by
  induction l with
  | nil => rfl
  | cons e es ih =>
    simp only [List.filterMap_cons]
    cases hg : g e with
    | none => simpa using ih
    | some r =>
      simp only [List.filter_cons, Option.bind_some]
      by_cases hp : p r = true
      · simp only [hp, if_true, List.map_cons, ih]
      · simp only [hp, Bool.false_eq_true, if_false, ih]

/-- the chunks of one origin (not a text block) are what the elements yield through `f`, when `f`
is `solo` restricted to that origin -/
theorem origin_exact (xs : List XChunk) (d : Doc) (toc : List TOCEntry) (o : Origin) (ho : o.isText = false)
    (hx : solos xs = d.flatMap fun pg => (resolveRepeatedHeadings pg).filterMap fun e =>
      (solo toc pg.number e).map fun r => (r.1, r.2, pg.number))
    (f : Int → Elem → Option (Str × Int))
    (hp : ∀ n t, f n (.para t) = none) (hh : ∀ n l t, f n (.heading l t) = none)
    (hf : ∀ page e, ((solo toc page e).map fun r => (r.1, r.2, page)).bind
        (fun r => if r.1 == o then some r.2 else none) = f page e) :
    (xs.filter fun x => x.o == o).map (fun x => (x.c.text, x.c.pageStart)) =
      d.flatMap fun pg => pg.elems.filterMap (f pg.number) := by
  rw [filter_origin _ o ho, hx]
  clear hx
  induction d with
  | nil => rfl
  | cons pg pgs ih =>
    simp only [List.flatMap_cons, List.filter_append, List.map_append, ih]
    congr 1
    rw [filterMap_filter_map, ← resolve_filterMap (f pg.number) (hp pg.number) (hh pg.number) pg]
    congr 1
    funext e
    exact hf pg.number e

/-! ### a heading chunk closes its own section path -/

def HeadOK (x : XChunk) : Prop := ∀ l, x.o = .heading l → x.c.path.getLast? = some (trim x.c.text)

def TextOK (x : XChunk) : Prop := ∀ raw, x.o = .text raw → x.c.text = trim raw

/-- the tracker's path ends with the heading just pushed -/
def TrackerLast {σ} (tr : Tracker σ) : Prop := ∀ s l t, (tr.path (tr.push s l t)).getLast? = some (trim t)

theorem stackTracker_last : TrackerLast stackTracker := by
  intro s l t
  simp [stackTracker, pushSection, List.getLast?_append]

theorem ok_piecesX (path : List Str) (page : Int) (ps : List Str) (idx : Nat) :
    ∀ x ∈ piecesX path page ps idx, HeadOK x ∧ TextOK x := by
  induction ps generalizing idx with
  | nil => intro x hx; cases hx
  | cons t ts ih =>
    intro x hx
    simp only [piecesX, List.mem_cons] at hx
    rcases hx with rfl | hx
    · refine ⟨fun l h => ?_, fun raw h => ?_⟩
      · cases h
      · cases h; rfl
    · exact ih _ x hx

theorem ok_flushX {σ} (sp : Splitter) (page : Int) (st : St σ) : ∀ x ∈ (flushX sp page st).2, HeadOK x ∧ TextOK x := by
  unfold flushX
  split
  · intro x hx; cases hx
  · simp only [textBlockX]
    cases sp st.block <;> exact ok_piecesX _ _ _ _

theorem ok_emitOneX {σ} (sp : Splitter) (page : Int) (st : St σ) (sec : σ) (text : Str) (path : List Str) (o : Origin)
    (ho : o.isText = false) (hh : ∀ l, o = .heading l → path.getLast? = some (trim text)) :
    ∀ x ∈ (emitOneX sp page st sec text path o).2, HeadOK x ∧ TextOK x := by
  have hf := ok_flushX sp page st
  unfold emitOneX
  generalize flushX sp page st = r at hf
  obtain ⟨s, c⟩ := r
  simp only at hf ⊢
  intro x hx
  rcases List.mem_append.mp hx with hx | hx
  · exact hf x hx
  · simp only [List.mem_singleton] at hx
    subst hx
    refine ⟨fun l h => hh l h, fun raw h => ?_⟩
    simp only at h
    subst h
    cases ho

theorem ok_stepElemX {σ} (tr : Tracker σ) (htr : TrackerLast tr) (sp : Splitter) (toc : List TOCEntry) (page : Int)
    (st : St σ) (e : Elem) : ∀ x ∈ (stepElemX tr sp toc page st e).2, HeadOK x ∧ TextOK x := by
  cases e with
  | para text =>
    simp only [stepElemX]
    split
    · exact ok_emitOneX _ _ _ _ _ _ _ rfl (fun l _ => htr _ _ _)
    · intro x hx; cases hx
  | heading level text => exact ok_emitOneX _ _ _ _ _ _ _ rfl (fun l _ => htr _ _ _)
  | list ordered items => exact ok_emitOneX _ _ _ _ _ _ _ rfl (fun l h => by cases h)
  | table rows => exact ok_emitOneX _ _ _ _ _ _ _ rfl (fun l h => by cases h)
  | image alt =>
    simp only [stepElemX]
    split
    · exact ok_flushX _ _ _
    · exact ok_emitOneX _ _ _ _ _ _ _ rfl (fun l h => by cases h)

theorem ok_runElemsX {σ} (tr : Tracker σ) (htr : TrackerLast tr) (sp : Splitter) (toc : List TOCEntry) (page : Int)
    (st : St σ) (es : List Elem) : ∀ x ∈ (runElemsX tr sp toc page st es).2, HeadOK x ∧ TextOK x := by
  induction es generalizing st with
  | nil => intro x hx; cases hx
  | cons e es ih =>
    intro x hx
    simp only [runElemsX] at hx
    rcases List.mem_append.mp hx with hx | hx
    · exact ok_stepElemX tr htr sp toc page st e x hx
    · exact ih _ x hx

theorem ok_chunkPagesX {σ} (tr : Tracker σ) (htr : TrackerLast tr) (sp : Splitter) (toc : List TOCEntry)
    (st : St σ) (d : List Page) : ∀ x ∈ (chunkPagesX tr sp toc st d).flatten, HeadOK x ∧ TextOK x := by
  induction d generalizing st with
  | nil => intro x hx; cases hx
  | cons pg pgs ih =>
    intro x hx
    simp only [chunkPagesX, List.flatten_cons] at hx
    rcases List.mem_append.mp hx with hx | hx
    · simp only [chunkPageX] at hx
      rcases List.mem_append.mp hx with hx | hx
      · exact ok_runElemsX tr htr sp toc _ st _ x hx
      · exact ok_flushX _ _ _ x hx
    · exact ih _ x hx

theorem ok_chunkDocumentX (sp : Splitter) (d : Doc) : ∀ x ∈ chunkDocumentX sp d, HeadOK x ∧ TextOK x := by
  intro x hx
  simp only [chunkDocumentX, setTotalX, List.mem_map] at hx
  obtain ⟨y, hy, rfl⟩ := hx
  exact ok_chunkPagesX stackTracker stackTracker_last sp _ _ d y hy

end Tabula.ChunkMeta
