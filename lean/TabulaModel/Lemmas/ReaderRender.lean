import TabulaModel.Lemmas.Reader
/-!
A logical document (pages × lines) laid out as an object store in the simplest way — catalog,
one `/Pages` node that carries the `/Resources` for all its leaves, one Type1/WinAnsi font,
one content stream per page — and what the reader model reports for it
(Props/C01Reader.lean, `read_render_partial`).
-/
namespace Tabula.Reader
open Tabula.Pdf (Obj)

/-- a logical document: for every page, the byte strings its lines show -/
abbrev LDoc := List (List Str)

/-- `Catalog` -/
def kCatalog : Str := [67, 97, 116, 97, 108, 111, 103]
/-- `F1` -/
def kF1 : Str := [70, 49]
/-- `BT` -/
def opBT : Str := [66, 84]
/-- `ET` -/
def opET : Str := [69, 84]

def leafNum (i : Nat) : Nat := 4 + 2 * i
def contNum (i : Nat) : Nat := 5 + 2 * i

def catObj : Obj := .dict [(kType, .name kCatalog), (kPages, .ref 2 0)]
def fontObj : Obj := .dict [(kType, .name kFont), (kSubtype, .name kType1), (kEncoding, .name kWinAnsiEncoding)]
def resDict : Dict := [(kFont, .dict [(kF1, .ref 3 0)])]
def kidsOf (k m : Nat) : List Obj := (List.range' k m).map fun i => .ref (leafNum i) 0
def pagesDict (n : Nat) : Dict :=
  [(kType, .name kPages), (kKids, .arr (kidsOf 0 n)), (kCount, .int n), (kResources, .dict resDict)]
def leafDict (i : Nat) : Dict := [(kType, .name kPage), (kContents, .ref (contNum i) 0)]

/-- the operations of a page: `BT /F1 12 Tf (line) Tj … ET` -/
def pageOps (lines : List Str) : List Pdf.CS.Operation :=
  [⟨opBT, []⟩, ⟨opTf, [.name kF1, .int 12]⟩] ++ lines.map (fun b => ⟨opTj, [.str b]⟩) ++ [⟨opET, []⟩]

/-- the text a line shows: its bytes through WinAnsiEncoding, then NFC -/
def shown (ext : Ext) (b : Str) : Str := (FontDecode.decodeString ext.nfc defaultFont b).getD []

/-- an object store that holds the document in the base layout; `cont i` is the decoded
content stream of page `i` -/
structure BaseStore (res : Res) (d : LDoc) (cont : Nat → Str) : Prop where
  cat : res 1 = .ok (.obj catObj)
  pages : res 2 = .ok (.obj (.dict (pagesDict d.length)))
  font : res 3 = .ok (.obj fontObj)
  leaf : ∀ i, i < d.length → res (leafNum i) = .ok (.obj (.dict (leafDict i)))
  cont : ∀ i (h : i < d.length), res (contNum i) = .ok (.stream (some (cont i))) ∧
    Pdf.CS.csParse (PdfDoc.joinContents [cont i]) = some (pageOps d[i])

mutual
def leavesTree : List Dict → List RTree
  | [] => []
  | d :: ds => .leaf d :: leavesTree ds
end

theorem buildKids_leaves (res : Res) (n : Nat) (hleaf : ∀ i, i < n → res (leafNum i) = .ok (.obj (.dict (leafDict i))))
    (dep : Nat) (hdep : dep < PdfDoc.maxPageTreeDepth) :
    ∀ (m k fuel : Nat) (vis : List Nat), k + m ≤ n → fuel ≥ 2 * m + 1 →
      (∀ v ∈ vis, ∀ j, k ≤ j → v ≠ leafNum j) →
      ∃ vis', buildKids res fuel dep vis (kidsOf k m) =
        .ok (leavesTree ((List.range' k m).map leafDict), vis') := by
  intro m
  induction m with
  | zero =>
    intro k fuel vis _ hf _
    obtain ⟨f, rfl⟩ : ∃ f, fuel = f + 1 := ⟨fuel - 1, by omega⟩
    exact ⟨vis, rfl⟩
  | succ m ih =>
    intro k fuel vis hk hf hvis
    obtain ⟨f, rfl⟩ : ∃ f, fuel = f + 2 := ⟨fuel - 2, by omega⟩
    have hnot : vis.contains (leafNum k) = false := by
      cases hc : vis.contains (leafNum k) with
      | false => rfl
      | true =>
        have : leafNum k ∈ vis := by simpa using hc
        exact absurd rfl (hvis _ this k (Nat.le_refl k))
    obtain ⟨vis', h2⟩ := ih (k + 1) (f + 1) (leafNum k :: vis) (by omega) (by omega) (by
      intro v hv j hj
      simp only [List.mem_cons] at hv
      rcases hv with rfl | hv
      · unfold leafNum; omega
      · exact hvis v hv j (by omega))
    refine ⟨vis', ?_⟩
    have e1 : kidsOf k (m + 1) = .ref (leafNum k) 0 :: kidsOf (k + 1) m := by
      simp [kidsOf, List.range'_succ]
    have e2 : (List.range' k (m + 1)).map leafDict = leafDict k :: (List.range' (k + 1) m).map leafDict := by
      simp [List.range'_succ]
    have hneg : ¬ ((leafNum k : Nat) : Int) < 0 := by omega
    rw [e1, e2]
    simp only [buildKids, hneg, if_false, Int.toNat_natCast, hnot, Bool.false_eq_true, hleaf k (by omega)]
    have hb : buildNode res (f + 1) dep (leafNum k :: vis) (leafDict k) = .ok (.leaf (leafDict k), leafNum k :: vis) := by
      have : ¬ dep ≥ PdfDoc.maxPageTreeDepth := by omega
      simp [buildNode, this, leafDict, dget, kType, kPages, kPage, kContents]
    rw [hb]
    simp only [h2, leavesTree]

theorem depthList_kidsOf (k m : Nat) : Pdf.Obj.depthList (kidsOf k m) = 0 := by
  induction m generalizing k with
  | zero => rfl
  | succ m ih => simp [kidsOf, List.range'_succ, Pdf.Obj.depthList, Pdf.Obj.depth] at ih ⊢; exact ih (k + 1)

theorem depth_pagesDict (n : Nat) : (Obj.dict (pagesDict n)).depth = 3 := by
  simp [pagesDict, resDict, Pdf.Obj.depth, Pdf.Obj.depthKV, depthList_kidsOf]

/-- the page tree of the base layout -/
def baseTree (n : Nat) : RTree := .node (pagesDict n) (leavesTree ((List.range' 0 n).map leafDict))

theorem pageTree_base (res : Res) (d : LDoc) (cont : Nat → Str) (hs : BaseStore res d cont) (fuel : Nat)
    (hf : fuel ≥ 2 * d.length + 3) :
    pageTree res fuel (some 1) = .ok (baseTree d.length) := by
  obtain ⟨f, rfl⟩ : ∃ f, fuel = f + 1 := ⟨fuel - 1, by omega⟩
  obtain ⟨vis', hk⟩ := buildKids_leaves res d.length hs.leaf 1 (by decide) d.length 0 f [] (by omega) (by omega)
    (fun v hv => by cases hv)
  have hres2 : resolve res (.ref 2 0) = .ok (.obj (.dict (pagesDict d.length))) := by
    simp [resolve, hs.pages]
  simp only [pageTree, hs.cat, catObj]
  have e1 : dget [(kType, Obj.name kCatalog), (kPages, Obj.ref 2 0)] kPages = some (.ref 2 0) := by
    simp [dget, kType, kPages]
  rw [e1]
  simp only [hres2]
  have e2 : dget (pagesDict d.length) kCount = some (.int d.length) := by
    simp [dget, pagesDict, kType, kKids, kCount]
  rw [e2]
  simp only
  have e3 : dget (pagesDict d.length) kType = some (.name kPages) := by simp [dget, pagesDict]
  have e4 : dget (pagesDict d.length) kKids = some (.arr (kidsOf 0 d.length)) := by
    simp [dget, pagesDict, kType, kKids]
  have e5 : ¬ (0 ≥ PdfDoc.maxPageTreeDepth) := by decide
  simp only [buildNode, e5, if_false, e3, e4, if_true, visitKidsRef, resolve, hk, baseTree]

theorem leafDicts_leaves (ds : List Dict) : leafDictsList (leavesTree ds) = ds := by
  induction ds with
  | nil => rfl
  | cons d ds ih => simp [leavesTree, leafDictsList, leafDicts, ih]

theorem flatten_leaves (a : PdfDoc.AttrsOf Obj) (ds : List Dict) (hno : ∀ d ∈ ds, dget d kResources = none) :
    PdfDoc.flattenList (toPTreeList (leavesTree ds)) a = ds.map fun _ => a := by
  induction ds with
  | nil => rfl
  | cons d ds ih =>
    have h1 : attrsOf d = {} := by simp [attrsOf, hno d (by simp)]
    have h2 : (({} : PdfDoc.AttrsOf Obj).over a) = a := by
      cases a; simp [PdfDoc.AttrsOf.over]
    simp only [leavesTree, toPTreeList, toPTree, PdfDoc.flattenList, PdfDoc.flatten, h1, h2, List.map_cons,
      List.singleton_append]
    rw [ih (fun d' hd => hno d' (by simp [hd]))]

theorem pageSpecs_base (n : Nat) :
    pageSpecs (baseTree n) =
      (List.range' 0 n).map fun i => (some (Obj.ref (contNum i) 0), some (Obj.dict resDict)) := by
  unfold pageSpecs baseTree
  simp only [leafDicts, leafDicts_leaves, toPTree, PdfDoc.flatten]
  have ha : (attrsOf (pagesDict n)).over {} = { res := some (Obj.dict resDict) } := by
    simp [attrsOf, pagesDict, dget, kType, kKids, kCount, kResources, PdfDoc.AttrsOf.over]
  rw [ha, flatten_leaves _ _ (by
    intro d hd
    obtain ⟨i, _, rfl⟩ := List.mem_map.mp hd
    simp [leafDict, dget, kType, kContents, kResources])]
  simp only [List.map_map]
  rw [List.zip_map]
  have : ∀ l : List Nat, l.zip l = l.map fun i => (i, i) := by
    intro l; induction l with
    | nil => rfl
    | cons a l ih => simp [ih]
  rw [this, List.map_map]
  apply List.map_congr_left
  intro i _
  simp [Prod.map, leafDict, dget, kType, kContents]

/-! ### one page -/

theorem registered_F1 (res : Res) (hfont : res 3 = .ok (.obj fontObj)) :
    registered res [(kF1, .ref 3 0)] (47 :: kF1) = some defaultFont := by
  have hp : parseFont res (.ref 3 0) = some defaultFont := by
    simp [parseFont, resolve, hfont, fontObj, dget, kType, kSubtype, kEncoding, kType1, simpleEncoding,
      widthsOk, kWidths, toUnicodeOf, kToUnicode, defaultFont]
  simp [registered, dget, kF1, hp]

/-- the environment of every page of the base layout -/
def baseEnv (res : Res) (ext : Ext) : Env :=
  { res := res, ext := ext, rdict := some resDict, fonts := some [(kF1, .ref 3 0)] }

theorem run_tjs (res : Res) (ext : Ext) (hfont : res 3 = .ok (.obj fontObj))
    (hdec : ∀ b, (FontDecode.decodeString ext.nfc defaultFont b).isSome = true) (lines : List Str) (out : List Str) :
    run (baseEnv res ext) { cur := 47 :: kF1, stack := [], out := out }
        (lines.map (fun b => ⟨opTj, [.str b]⟩) ++ [⟨opET, []⟩]) =
      .ok { cur := 47 :: kF1, stack := [], out := out ++ lines.map (shown ext) } := by
  induction lines generalizing out with
  | nil => simp [run, step, opET, opq, opQ, opTf, opTj, opQuote, opTJ, opDQuote, opDo]
  | cons b bs ih =>
    have hsome := hdec b
    obtain ⟨s, hs⟩ := Option.isSome_iff_exists.mp hsome
    have hstep : step (baseEnv res ext) { cur := 47 :: kF1, stack := [], out := out } ⟨opTj, [.str b]⟩ =
        .ok { cur := 47 :: kF1, stack := [], out := out ++ [shown ext b] } := by
      simp [step, opTj, opq, opQ, opTf, showOne, decodeShown, baseEnv, registered_F1 res hfont, hs, shown]
    simp only [List.map_cons, List.cons_append, run, hstep]
    rw [ih]
    simp

theorem run_pageOps (res : Res) (ext : Ext) (hfont : res 3 = .ok (.obj fontObj))
    (hdec : ∀ b, (FontDecode.decodeString ext.nfc defaultFont b).isSome = true) (lines : List Str) :
    run (baseEnv res ext) {} (pageOps lines) =
      .ok { cur := 47 :: kF1, stack := [], out := lines.map (shown ext) } := by
  have h1 : step (baseEnv res ext) {} ⟨opBT, []⟩ = .ok {} := by
    simp [step, opBT, opq, opQ, opTf, opTj, opQuote, opTJ, opDQuote, opDo]
  have h2 : step (baseEnv res ext) {} ⟨opTf, [.name kF1, .int 12]⟩ = .ok { cur := 47 :: kF1, stack := [], out := [] } := by
    simp [step, opq, opQ, opTf, isNum, kF1]
  unfold pageOps
  simp only [List.cons_append, List.nil_append, run, h1, h2]
  have := run_tjs res ext hfont hdec lines []
  simpa using this

/-- the content of a page whose single stream fits the limit of 64 MiB -/
theorem contentBytes_one (res : Res) (n : Nat) (c : Str) (hc : res n = .ok (.stream (some c)))
    (hsize : c.length ≤ PdfDoc.maxPageContentBytes) :
    contentBytes res (some (.ref n 0)) = .ok (some (PdfDoc.joinContents [c])) := by
  have hneg : ¬ ((n : Nat) : Int) < 0 := by omega
  have hnot : ¬ (PdfDoc.maxPageContentBytes < c.length) := by omega
  simp [contentBytes, resolve, hneg, hc, decodedParts, joinParts, PdfDoc.joinBounded, PdfDoc.joinLoop, hnot,
    PdfDoc.joinContents, PdfDoc.joinPiece]

/-- … and of a page whose single stream exceeds it: `extractTextWithFragments` returns an error -/
theorem contentBytes_one_beyond (res : Res) (n : Nat) (c : Str) (hc : res n = .ok (.stream (some c)))
    (hsize : c.length > PdfDoc.maxPageContentBytes) :
    contentBytes res (some (.ref n 0)) = .error .err := by
  have hneg : ¬ ((n : Nat) : Int) < 0 := by omega
  have hnot : PdfDoc.maxPageContentBytes < c.length := by omega
  simp [contentBytes, resolve, hneg, hc, decodedParts, joinParts, PdfDoc.joinBounded, PdfDoc.joinLoop, hnot]

theorem pageStrings_base (res : Res) (ext : Ext) (d : LDoc) (cont : Nat → Str) (hs : BaseStore res d cont)
    (hdec : ∀ b, (FontDecode.decodeString ext.nfc defaultFont b).isSome = true) (i : Nat) (hi : i < d.length)
    (hsize : (cont i).length ≤ PdfDoc.maxPageContentBytes) :
    pageStrings res ext (some (.ref (contNum i) 0)) (some (.dict resDict)) = .ok (d[i].map (shown ext)) := by
  obtain ⟨hc, hp⟩ := hs.cont i hi
  have hcb := contentBytes_one res (contNum i) (cont i) hc hsize
  have hrd : resourcesDict res (some (.dict resDict)) = some resDict := by simp [resourcesDict, resolve]
  have hfo : fontsOf res (some resDict) = some [(kF1, .ref 3 0)] := by
    simp [fontsOf, resDict, dget, resolve]
  unfold pageStrings
  rw [hcb]
  simp only
  have hrun := run_pageOps res ext hs.font hdec d[i]
  have hshow : showStrings res ext (some (.dict resDict)) (PdfDoc.joinContents [cont i]) = .ok (d[i].map (shown ext)) := by
    unfold showStrings
    rw [hp]
    simp only [hrd, hfo]
    unfold baseEnv at hrun
    rw [hrun]
  split
  · next h0 =>
    -- an empty content parses to no operation, but a page's program starts with `BT`
    have hnil : Pdf.CS.csParse [] = some [] := by
      have := Tabula.Pdf.cs_roundtrip [] [] trivial (fun _ h => by cases h)
      simpa [Tabula.Pdf.renderOps, Tabula.Pdf.renderSep] using this
    rw [h0, hnil] at hp
    simp [pageOps] at hp
  · exact hshow

theorem pageStrings_base_beyond (res : Res) (ext : Ext) (d : LDoc) (cont : Nat → Str) (hs : BaseStore res d cont)
    (i : Nat) (hi : i < d.length) (hsize : (cont i).length > PdfDoc.maxPageContentBytes) :
    pageStrings res ext (some (.ref (contNum i) 0)) (some (.dict resDict)) = .error .err := by
  unfold pageStrings
  rw [contentBytes_one_beyond res (contNum i) (cont i) (hs.cont i hi).1 hsize]

theorem pagesOfSpecs_base (res : Res) (ext : Ext) (d : LDoc) (cont : Nat → Str) (hs : BaseStore res d cont)
    (hdec : ∀ b, (FontDecode.decodeString ext.nfc defaultFont b).isSome = true)
    (hsize : ∀ i, i < d.length → (cont i).length ≤ PdfDoc.maxPageContentBytes) :
    ∀ (m k : Nat), k + m = d.length →
      pagesOfSpecs res ext ((List.range' k m).map fun i => (some (Obj.ref (contNum i) 0), some (Obj.dict resDict))) =
        .ok ((d.drop k).map fun ls => ls.map (shown ext)) := by
  intro m
  induction m with
  | zero =>
    intro k hk
    have : d.drop k = [] := List.drop_eq_nil_of_le (by omega)
    simp [pagesOfSpecs, this]
  | succ m ih =>
    intro k hk
    have hi : k < d.length := by omega
    have hd : d.drop k = d[k] :: d.drop (k + 1) := (List.drop_eq_getElem_cons hi)
    simp only [List.range'_succ, List.map_cons, pagesOfSpecs, pageStrings_base res ext d cont hs hdec k hi (hsize k hi),
      ih (k + 1) (by omega), hd]

/-- one page beyond the limit makes the whole read an error (`Fragments()` of that page fails;
the model reports the first failure of any page as the result) -/
theorem pagesOfSpecs_base_beyond (res : Res) (ext : Ext) (d : LDoc) (cont : Nat → Str) (hs : BaseStore res d cont)
    (hdec : ∀ b, (FontDecode.decodeString ext.nfc defaultFont b).isSome = true) :
    ∀ (m k : Nat), k + m = d.length →
      (∃ i, k ≤ i ∧ i < d.length ∧ (cont i).length > PdfDoc.maxPageContentBytes) →
      pagesOfSpecs res ext ((List.range' k m).map fun i => (some (Obj.ref (contNum i) 0), some (Obj.dict resDict))) =
        .error .err := by
  intro m
  induction m with
  | zero =>
    intro k hk ⟨i, h1, h2, _⟩
    omega
  | succ m ih =>
    intro k hk ⟨i, h1, h2, h3⟩
    have hi : k < d.length := by omega
    simp only [List.range'_succ, List.map_cons, pagesOfSpecs]
    by_cases hk' : (cont k).length > PdfDoc.maxPageContentBytes
    · rw [pageStrings_base_beyond res ext d cont hs k hi hk']
    · rw [pageStrings_base res ext d cont hs hdec k hi (by omega)]
      have hne : i ≠ k := fun e => hk' (e ▸ h3)
      rw [ih (k + 1) (by omega) ⟨i, by omega, h2, h3⟩]

/-- the reader model above the object layer on the base layout -/
theorem readWith_base (res : Res) (ext : Ext) (d : LDoc) (cont : Nat → Str) (hs : BaseStore res d cont)
    (hdec : ∀ b, (FontDecode.decodeString ext.nfc defaultFont b).isSome = true)
    (hsize : ∀ i, i < d.length → (cont i).length ≤ PdfDoc.maxPageContentBytes) (fuel : Nat)
    (hf : fuel ≥ 2 * d.length + 3) :
    readWith res ext fuel (some 1) = .ok (d.map fun ls => ls.map (shown ext)) := by
  unfold readWith
  rw [pageTree_base res d cont hs fuel hf]
  simp only [pagesOfTree, pageSpecs_base]
  have := pagesOfSpecs_base res ext d cont hs hdec hsize d.length 0 (by omega)
  simpa using this

/-- … and when the content of some page exceeds 64 MiB -/
theorem readWith_base_beyond (res : Res) (ext : Ext) (d : LDoc) (cont : Nat → Str) (hs : BaseStore res d cont)
    (hdec : ∀ b, (FontDecode.decodeString ext.nfc defaultFont b).isSome = true)
    (hbig : ∃ i, i < d.length ∧ (cont i).length > PdfDoc.maxPageContentBytes) (fuel : Nat)
    (hf : fuel ≥ 2 * d.length + 3) :
    readWith res ext fuel (some 1) = .error .err := by
  unfold readWith
  rw [pageTree_base res d cont hs fuel hf]
  simp only [pagesOfTree, pageSpecs_base]
  obtain ⟨i, h1, h2⟩ := hbig
  exact pagesOfSpecs_base_beyond res ext d cont hs hdec d.length 0 (by omega) ⟨i, by omega, h1, h2⟩

/-! ### writing a store as an abstract file -/

/-- one object as written: its number and what stands between `obj` and `endobj` -/
structure Printed where
  num : Nat
  body : RawBody

/-- the one-revision file that holds the objects: every object at an offset of its own
(here: its number), one cross-reference section listing them, `/Root root` -/
def fileOf (root : Nat) (ps : List Printed) : AbsFile :=
  { objs := ps.map fun p => (p.num, (p.num, p.body)),
    secs := [(0, { entries := ps.map fun p => (p.num, Xref.Entry.at p.num), prev := none, root := some root })],
    start := 0 }

theorem getLast_map_mem {α : Type} (ps : List Printed) (g : Printed → α) (hnd : (ps.map (·.num)).Nodup)
    (p : Printed) (hp : p ∈ ps) : Xref.getLast (ps.map fun q => (q.num, g q)) p.num = some (g p) := by
  induction ps with
  | nil => cases hp
  | cons q qs ih =>
    simp only [List.map_cons, List.nodup_cons] at hnd
    simp only [List.map_cons, Xref.getLast]
    rcases List.mem_cons.mp hp with rfl | hq
    · have : Xref.getLast (qs.map fun q => (q.num, g q)) p.num = none := by
        cases hg : Xref.getLast (qs.map fun q => (q.num, g q)) p.num with
        | none => rfl
        | some v =>
          have := Xref.getLast_mem_keys _ _ _ hg
          simp only [List.map_map] at this
          exact absurd (by simpa [Function.comp] using this) hnd.1
      simp [this]
    · rw [ih hnd.2 hq]

theorem xref_fileOf (root : Nat) (ps : List Printed) :
    xref (fileOf root ps) = ps.map fun p => (p.num, Xref.Entry.at p.num) := by
  simp [xref, sections, fileOf, Xref.parseAllXRefs, Xref.chainFrom, Xref.getLast, Xref.mergeTables]

theorem getObject_fileOf (root : Nat) (ps : List Printed) (ext : Ext) (hnd : (ps.map (·.num)).Nodup)
    (p : Printed) (hp : p ∈ ps) :
    getObject (fileOf root ps) ext p.num = (parseBody p.body).map (toSVal ext) := by
  have he : entry (fileOf root ps) p.num = some (.at p.num) := by
    unfold entry
    rw [xref_fileOf]
    exact getLast_map_mem ps (fun q => Xref.Entry.at q.num) hnd p hp
  have ho : Xref.getLast (fileOf root ps).objs p.num = some (p.num, p.body) :=
    getLast_map_mem ps (fun q => (q.num, q.body)) hnd p hp
  simp only [getObject, he, objectAt, ho, if_true]
  cases parseBody p.body <;> rfl

theorem rootOf_fileOf (root : Nat) (ps : List Printed) : rootOf (fileOf root ps) = some root := by
  simp [rootOf, fileOf, Xref.getLast]

theorem prevDangling_fileOf (root : Nat) (ps : List Printed) : prevDangling (fileOf root ps) = false := by
  simp [prevDangling, fileOf]

theorem fuelOf_fileOf_ge (root : Nat) (ps : List Printed) (p : Printed) (hp : p ∈ ps) :
    fuelOf (fileOf root ps) ≥ 4 * (p.num + 2) := by
  unfold fuelOf
  rw [xref_fileOf]
  have : p.num ≤ maxKey (ps.map fun p => (p.num, Xref.Entry.at p.num)) := by
    apply le_maxKey
    simp only [List.map_map]
    exact List.mem_map.mpr ⟨p, hp, rfl⟩
  omega

/-! ### the base layout as a file -/
open Tabula.Pdf in
/-- one legal spelling of every object and of every page's program -/
structure Spelling where
  cat : SObj
  pages : SObj
  font : SObj
  leaf : Nat → SObj
  cdict : Nat → SObj
  prog : Nat → List SOp
  trail : Nat → Sep

open Tabula.Pdf in
/-- the spelling denotes the base layout of `d` -/
structure Spelling.Ok (sp : Spelling) (d : LDoc) : Prop where
  cat : sp.cat.Valid false ∧ sp.cat.value = catObj
  pages : sp.pages.Valid false ∧ sp.pages.value = .dict (pagesDict d.length)
  font : sp.font.Valid false ∧ sp.font.value = fontObj
  leaf : ∀ i, i < d.length → (sp.leaf i).Valid false ∧ (sp.leaf i).value = .dict (leafDict i)
  cdict : ∀ i, i < d.length → (sp.cdict i).Valid false ∧ (sp.cdict i).value.depth ≤ maxNestingDepth ∧
    ∃ kv, (sp.cdict i).value = .dict kv ∧ dget kv kFilter = none
  prog : ∀ i (h : i < d.length), ValidOps false (sp.prog i) ∧ SepOk (sp.trail i) ∧ (sp.prog i).map opVal = pageOps d[i]

open Tabula.Pdf in
def pagePrinted (sp : Spelling) (i : Nat) : List Printed :=
  [⟨leafNum i, .plain (sp.leaf i).render⟩,
   ⟨contNum i, .stream (sp.cdict i).render (renderOps (sp.prog i) ++ renderSep (sp.trail i))⟩]

open Tabula.Pdf in
def renderBaseList (d : LDoc) (sp : Spelling) : List Printed :=
  [⟨1, .plain sp.cat.render⟩, ⟨2, .plain sp.pages.render⟩, ⟨3, .plain sp.font.render⟩] ++
    (List.range' 0 d.length).flatMap (pagePrinted sp)

/-- **render** (base layout): the document as an abstract file -/
def renderBase (d : LDoc) (sp : Spelling) : AbsFile := fileOf 1 (renderBaseList d sp)

theorem nums_pages (sp : Spelling) (m k : Nat) :
    (((List.range' k m).flatMap (pagePrinted sp)).map (·.num)) = List.range' (4 + 2 * k) (2 * m) := by
  induction m generalizing k with
  | zero => rfl
  | succ m ih =>
    have e : 2 * (m + 1) = (2 * m + 1) + 1 := by omega
    rw [List.range'_succ, List.flatMap_cons, List.map_append, ih (k + 1), e, List.range'_succ, List.range'_succ]
    have e2 : 4 + 2 * (k + 1) = 4 + 2 * k + 1 + 1 := by omega
    simp [pagePrinted, leafNum, contNum, e2]
    omega

theorem nodup_renderBase (d : LDoc) (sp : Spelling) : ((renderBaseList d sp).map (·.num)).Nodup := by
  unfold renderBaseList
  rw [List.map_append, nums_pages]
  simp only [List.map_cons, List.map_nil]
  rw [List.nodup_append]
  refine ⟨by decide, List.nodup_range', ?_⟩
  intro a ha b hb
  have hb' := List.mem_range'_1.mp hb
  simp only [List.mem_cons, List.not_mem_nil, or_false] at ha
  omega

theorem mem_page (d : LDoc) (sp : Spelling) (i : Nat) (hi : i < d.length) (p : Printed) (hp : p ∈ pagePrinted sp i) :
    p ∈ renderBaseList d sp := by
  unfold renderBaseList
  apply List.mem_append_right
  exact List.mem_flatMap.mpr ⟨i, List.mem_range'_1.mpr ⟨by omega, by omega⟩, hp⟩

end Tabula.Reader
