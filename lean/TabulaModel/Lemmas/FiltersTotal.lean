import TabulaModel.Lemmas.FiltersSound
/-!
Helper lemmas for C05, the *rejection* side at full strength: the decoders of `Model/Filters.lean`
fail on exactly the inputs the specifications exclude and on no others.

* predictors: a row whose filter-type byte is at most 4 always decodes (no index of
  `decodePNGRow` / `applyTIFFPredictor2` can fall outside the buffers: the `none` of a list
  lookup, which stands for a Go index panic, is unreachable), so `applyPNGPredictor` fails iff
  BitsPerComponent ≠ 8, the geometry is refused, the data is no whole number of rows, or some row
  starts with a filter-type byte above 4; `applyTIFFPredictor2` fails iff one of the first three.
* ASCII85: the group reading `a85Groups` as a relation (`A85Reads`) and its failures as a
  relation (`A85Bad`); exactly one of them holds of every cleaned body.
-/
namespace Tabula.Filters

/-! ### rows always decode -/

/-- a row loop whose predictor is defined on every proper prefix of the row never fails and
returns a row of the same length -/
theorem decRow_total (P : Str → Option Nat) (n : Nat)
    (hP : ∀ done : Str, done.length < n → ∃ p, P done = some p) :
    ∀ (f done : Str), done.length + f.length = n →
      ∃ out, decRow P f done = some out ∧ out.length = n := by
  intro f
  induction f with
  | nil =>
    intro done hlen
    exact ⟨done, rfl, by simpa using hlen⟩
  | cons b bs ih =>
    intro done hlen
    simp only [List.length_cons] at hlen
    obtain ⟨p, hp⟩ := hP done (by omega)
    simp only [decRow, hp]
    exact ih (done ++ [(b + p) % 256]) (by simp; omega)

/-- `decodePNGRow` with a filter-type byte 0..4: never an error (in Go: never an index panic),
whatever the data -/
theorem decodePNGRow_total (tag bpp : Nat) (prev : Option Str) (prior f : Str) (htag : tag ≤ 4)
    (hb : 1 ≤ bpp) (hrel : PriorRel prev prior f.length) :
    ∃ row, decodePNGRow f tag bpp prev = some row ∧ row.length = f.length := by
  unfold decodePNGRow
  exact decRow_total (pngPredicted tag bpp prev) f.length
    (fun done hd => ⟨_, pngPredicted_eq_spec tag bpp prev prior done f.length htag hb hrel hd⟩) f [] (by simp)

/-- the row loop of `applyPNGPredictor` succeeds when every row starts with a byte ≤ 4 -/
theorem pngRows_total (bpp rowLen : Nat) (hb : 1 ≤ bpp) :
    ∀ (n : Nat) (data prior : Str) (prev : Option Str) (acc : List Str),
      data.length = n * (rowLen + 1) → PriorRel prev prior rowLen →
      (∀ k, k < n → ∃ t, data[k * (rowLen + 1)]? = some t ∧ t ≤ 4) →
      ∃ out, pngRows n rowLen bpp data prev acc = some out := by
  intro n
  induction n with
  | zero => intro data prior prev acc _ _ _; exact ⟨_, rfl⟩
  | succ n ih =>
    intro data prior prev acc hlen hrel htags
    cases data with
    | nil => simp [Nat.add_mul] at hlen
    | cons tag body =>
      have hbl : body.length = n * (rowLen + 1) + rowLen := by
        simp only [List.length_cons] at hlen
        rw [Nat.add_mul] at hlen
        omega
      have htl : (body.take rowLen).length = rowLen := by simp; omega
      obtain ⟨t, ht, ht4⟩ := htags 0 (by omega)
      simp only [Nat.zero_mul, List.getElem?_cons_zero, Option.some.injEq] at ht
      subst ht
      obtain ⟨row, hrow, hrl⟩ := decodePNGRow_total tag bpp prev prior (body.take rowLen) ht4 hb
        (by rw [htl]; exact hrel)
      rw [htl] at hrl
      simp only [pngRows, hrow]
      apply ih (body.drop rowLen) row (some row) (row :: acc) (by simp [hbl]) (Or.inr ⟨rfl, hrl⟩)
      intro k hk
      obtain ⟨t, ht, ht4⟩ := htags (k + 1) (by omega)
      refine ⟨t, ?_, ht4⟩
      have e : (k + 1) * (rowLen + 1) = (k * (rowLen + 1) + rowLen) + 1 := by rw [Nat.add_mul]; omega
      rw [e, List.getElem?_cons_succ] at ht
      rw [List.getElem?_drop]
      have e2 : rowLen + k * (rowLen + 1) = k * (rowLen + 1) + rowLen := by omega
      rw [e2]
      exact ht

/-- the position of a filter-type byte above 4 splits the data as `pngRows_bad_tag` wants it -/
theorem split_at_tag (data : Str) (i t : Nat) (h : data[i]? = some t) :
    ∃ pre rest, data = pre ++ t :: rest ∧ pre.length = i ∧ rest.length = data.length - i - 1 := by
  have hi : i < data.length := by
    apply Classical.byContradiction
    intro hn
    rw [List.getElem?_eq_none (by omega)] at h
    exact absurd h (by simp)
  refine ⟨data.take i, data.drop (i + 1), ?_, by simp; omega, by simp; omega⟩
  have h1 : data[i] = t := by
    rw [List.getElem?_eq_getElem hi] at h
    exact Option.some.inj h
  rw [← h1]
  have := List.take_append_drop i data
  rw [List.drop_eq_getElem_cons hi] at this
  exact this.symm

/-- **PNG predictor: the errors, exactly.** For every data string and all parameters. -/
theorem applyPNGPredictor_none_iff (data : Str) (p : Params) :
    applyPNGPredictor data p = none ↔
      (p.bpc.getD 8 ≠ 8 ∨ predictorRowBytes (p.columns.getD 1) (p.colors.getD 1) = none ∨
       ∃ rb, predictorRowBytes (p.columns.getD 1) (p.colors.getD 1) = some rb ∧
         (data.length % (rb + 1) ≠ 0 ∨
          ∃ k t, k < data.length / (rb + 1) ∧ data[k * (rb + 1)]? = some t ∧ t > 4)) := by
  unfold applyPNGPredictor
  simp only
  by_cases hbpc : p.bpc.getD 8 ≠ 8
  · simp [hbpc]
  · simp only [hbpc, if_false, false_or]
    cases hrb : predictorRowBytes (p.columns.getD 1) (p.colors.getD 1) with
    | none => simp
    | some rb =>
      simp only [Option.some.injEq, exists_eq_left', reduceCtorEq, false_or]
      by_cases hmod : data.length % (rb + 1) ≠ 0
      · simp [hmod]
      · simp only [hmod, if_false, false_or]
        obtain ⟨h1, h2, hcap, hrbe⟩ := predictorRowBytes_some _ _ rb hrb
        have hrb1 : 1 ≤ rb := by
          rw [hrbe]
          have : (1 : Int) ≤ p.columns.getD 1 * p.colors.getD 1 := by
            have := Int.mul_le_mul h1 h2 (by omega) (by omega)
            simpa using this
          omega
        have hbpp : 1 ≤ (p.colors.getD 1).toNat := by omega
        have hmod' : data.length % (rb + 1) = 0 := by
          apply Classical.byContradiction
          intro hne; exact hmod hne
        have hlen : data.length = data.length / (rb + 1) * (rb + 1) := by
          have := Nat.div_add_mod data.length (rb + 1)
          rw [hmod', Nat.add_zero, Nat.mul_comm] at this
          exact this.symm
        constructor
        · intro hnone
          apply Classical.byContradiction
          intro hno
          have hall : ∀ k, k < data.length / (rb + 1) → ∃ t, data[k * (rb + 1)]? = some t ∧ t ≤ 4 := by
            intro k hk
            have hlt : k * (rb + 1) < data.length := by
              have hmul : (k + 1) * (rb + 1) ≤ data.length / (rb + 1) * (rb + 1) := Nat.mul_le_mul_right _ hk
              rw [Nat.add_mul] at hmul
              omega
            refine ⟨data[k * (rb + 1)], List.getElem?_eq_getElem hlt, ?_⟩
            apply Nat.le_of_not_gt
            intro hgt
            exact hno ⟨k, _, hk, List.getElem?_eq_getElem hlt, hgt⟩
          obtain ⟨out, hout⟩ := pngRows_total (p.colors.getD 1).toNat rb hbpp (data.length / (rb + 1)) data
            (List.replicate rb 0) none [] hlen (Or.inl ⟨rfl, rfl⟩) hall
          rw [hout] at hnone
          exact absurd hnone (by simp)
        · rintro ⟨k, t, hk, ht, ht4⟩
          obtain ⟨pre, rest, hsplit, hpl, hrl⟩ := split_at_tag data _ t ht
          have hrne : rest ≠ [] := by
            intro hnil
            rw [hnil] at hrl
            simp only [List.length_nil] at hrl
            have hmul : (k + 1) * (rb + 1) ≤ data.length / (rb + 1) * (rb + 1) := Nat.mul_le_mul_right _ hk
            rw [Nat.add_mul] at hmul
            omega
          rw [hsplit]
          have := pngRows_bad_tag rb (p.colors.getD 1).toNat hrb1 t ht4 rest hrne k
            (data.length / (rb + 1)) pre none [] hk hpl
          rw [hsplit] at this
          exact this

/-- the row loop of `applyTIFFPredictor2` never fails (in Go: `result[idx-colors]` is always
inside the buffer) -/
theorem tiffRows_total (colors rowLen : Nat) (hc : 1 ≤ colors) :
    ∀ (n : Nat) (data : Str) (acc : List Str), data.length = n * rowLen →
      ∃ out, tiffRows n rowLen colors data acc = some out := by
  intro n
  induction n with
  | zero => intro data acc _; exact ⟨_, rfl⟩
  | succ n ih =>
    intro data acc hlen
    have hdl : data.length = n * rowLen + rowLen := by rw [hlen, Nat.add_mul]; omega
    obtain ⟨row, hrow, _⟩ := decRow_total (tiffPredicted colors) (data.take rowLen).length
      (fun done _ => ⟨_, tiffPredicted_eq_spec colors hc done⟩) (data.take rowLen) [] (by simp)
    simp only [tiffRows, hrow]
    exact ih (data.drop rowLen) (row :: acc) (by simp [hdl])

/-- **TIFF predictor: the errors, exactly.** -/
theorem applyTIFFPredictor2_none_iff (data : Str) (p : Params) :
    applyTIFFPredictor2 data p = none ↔
      (p.bpc.getD 8 ≠ 8 ∨ predictorRowBytes (p.columns.getD 1) (p.colors.getD 1) = none ∨
       ∃ rb, predictorRowBytes (p.columns.getD 1) (p.colors.getD 1) = some rb ∧ data.length % rb ≠ 0) := by
  unfold applyTIFFPredictor2
  simp only
  by_cases hbpc : p.bpc.getD 8 ≠ 8
  · simp [hbpc]
  · simp only [hbpc, if_false, false_or]
    cases hrb : predictorRowBytes (p.columns.getD 1) (p.colors.getD 1) with
    | none => simp
    | some rb =>
      simp only [Option.some.injEq, exists_eq_left', reduceCtorEq, false_or]
      by_cases hmod : data.length % rb ≠ 0
      · simp [hmod]
      · simp only [hmod, if_false, iff_false]
        obtain ⟨h1, h2, hcap, hrbe⟩ := predictorRowBytes_some _ _ rb hrb
        have hmod' : data.length % rb = 0 := by
          apply Classical.byContradiction
          intro hne; exact hmod hne
        have hlen : data.length = data.length / rb * rb := by
          have := Nat.div_add_mod data.length rb
          rw [hmod', Nat.add_zero, Nat.mul_comm] at this
          exact this.symm
        obtain ⟨out, hout⟩ := tiffRows_total (p.colors.getD 1).toNat rb (by omega) (data.length / rb) data [] hlen
        rw [hout]
        simp

/-! ### ASCII85: the group reading as a relation, and its failures as a relation -/

/-- `A85Reads body y`: the cleaned data `body` (EOD cut, white space removed) reads as the bytes
`y` by §7.4.3: `z` is four zero bytes, five digits `!`..`u` whose base-85 value fits 32 bits are its
four bytes, a final group of 2..4 digits padded with `u` gives 1..3 bytes when the padded value
fits 32 bits (a final single digit gives nothing), the empty body gives nothing. -/
inductive A85Reads : Str → Str → Prop
  | nil : A85Reads [] []
  | z (body y : Str) : A85Reads body y → A85Reads (122 :: body) (0 :: 0 :: 0 :: 0 :: y)
  | full (d0 d1 d2 d3 d4 : Nat) (body y : Str) : d0 < 85 → d1 < 85 → d2 < 85 → d3 < 85 → d4 < 85 →
      (((d0 * 85 + d1) * 85 + d2) * 85 + d3) * 85 + d4 ≤ 4294967295 → A85Reads body y →
      A85Reads ((d0 + 33) :: (d1 + 33) :: (d2 + 33) :: (d3 + 33) :: (d4 + 33) :: body)
        (bytes4 ((((d0 * 85 + d1) * 85 + d2) * 85 + d3) * 85 + d4) ++ y)
  | part (ds : List Nat) : 1 ≤ ds.length → ds.length ≤ 4 → (∀ d ∈ ds, d < 85) →
      a85Value (ds ++ List.replicate (5 - ds.length) 84) ≤ 4294967295 →
      A85Reads (a85Chars ds)
        ((bytes4 (a85Value (ds ++ List.replicate (5 - ds.length) 84))).take (ds.length - 1))

/-- `A85Bad body`: what §7.4.3 excludes. At a group boundary: a group that does not start with `z`
and has a character outside `!`..`u` (a `z` among them) among its first five; five digits whose
value exceeds 2^32-1; a final partial group whose `u`-padded value exceeds 2^32-1; or a good `z` /
a good full group followed by a bad rest. -/
inductive A85Bad : Str → Prop
  | char (cs : Str) (i c : Nat) : i < 5 → cs[i]? = some c → a85Digit c = false → cs.head? ≠ some 122 → A85Bad cs
  | overflow (d0 d1 d2 d3 d4 : Nat) (body : Str) : d0 < 85 → d1 < 85 → d2 < 85 → d3 < 85 → d4 < 85 →
      (((d0 * 85 + d1) * 85 + d2) * 85 + d3) * 85 + d4 > 4294967295 →
      A85Bad ((d0 + 33) :: (d1 + 33) :: (d2 + 33) :: (d3 + 33) :: (d4 + 33) :: body)
  | partOverflow (ds : List Nat) : 1 ≤ ds.length → ds.length ≤ 4 → (∀ d ∈ ds, d < 85) →
      a85Value (ds ++ List.replicate (5 - ds.length) 84) > 4294967295 → A85Bad (a85Chars ds)
  | afterZ (body : Str) : A85Bad body → A85Bad (122 :: body)
  | afterFull (d0 d1 d2 d3 d4 : Nat) (body : Str) : d0 < 85 → d1 < 85 → d2 < 85 → d3 < 85 → d4 < 85 →
      A85Bad body → A85Bad ((d0 + 33) :: (d1 + 33) :: (d2 + 33) :: (d3 + 33) :: (d4 + 33) :: body)

theorem a85Flush_part (ds : List Nat) (h1 : 1 ≤ ds.length) :
    a85Flush ds = if a85Value (ds ++ List.replicate (5 - ds.length) 84) > 4294967295 then none
      else some ((bytes4 (a85Value (ds ++ List.replicate (5 - ds.length) 84))).take (ds.length - 1)) := by
  unfold a85Flush
  have : ds ≠ [] := by
    intro h; rw [h] at h1; simp at h1
  simp [this]

theorem a85Groups_five (d0 d1 d2 d3 d4 : Nat) (h0 : d0 < 85) (h1 : d1 < 85) (h2 : d2 < 85) (h3 : d3 < 85)
    (h4 : d4 < 85) (body : Str) :
    a85Groups ((d0 + 33) :: (d1 + 33) :: (d2 + 33) :: (d3 + 33) :: (d4 + 33) :: body) =
      if (((d0 * 85 + d1) * 85 + d2) * 85 + d3) * 85 + d4 > 4294967295 then none
      else (a85Groups body).map (fun t => bytes4 ((((d0 * 85 + d1) * 85 + d2) * 85 + d3) * 85 + d4) ++ t) := by
  have h := a85Groups_full d0 d1 d2 d3 h0 h1 h2 h3 (d4 + 33) (a85Digit_char d4 h4) body
  simp only [a85Chars, List.map_cons, List.map_nil, List.cons_append, List.nil_append, Nat.add_sub_cancel] at h
  rw [h, a85Flush_5]
  by_cases hv : (((d0 * 85 + d1) * 85 + d2) * 85 + d3) * 85 + d4 > 4294967295
  · simp only [hv, if_true]
  · simp only [hv, if_false]

/-- a digit character is `d + 33` for a digit `d < 85` -/
theorem a85Digit_exists (c : Nat) (h : a85Digit c = true) : ∃ d, d < 85 ∧ c = d + 33 := by
  simp only [a85Digit, Bool.and_eq_true, decide_eq_true_eq] at h
  exact ⟨c - 33, by omega, by omega⟩

theorem all_digits_chars : ∀ (cs : Str), cs.all a85Digit = true → ∃ ds, (∀ d ∈ ds, d < 85) ∧ cs = a85Chars ds := by
  intro cs
  induction cs with
  | nil => intro _; exact ⟨[], by simp, rfl⟩
  | cons c cs ih =>
    intro h
    simp only [List.all_cons, Bool.and_eq_true] at h
    obtain ⟨d, hd, hc⟩ := a85Digit_exists c h.1
    obtain ⟨ds, hds, hcs⟩ := ih h.2
    refine ⟨d :: ds, ?_, by simp [a85Chars, hc, hcs]⟩
    intro x hx
    simp only [List.mem_cons] at hx
    rcases hx with hx | hx
    · omega
    · exact hds x hx

theorem not_all_digits (cs : Str) (h : cs.all a85Digit = false) :
    ∃ i c, i < cs.length ∧ cs[i]? = some c ∧ a85Digit c = false := by
  rw [List.all_eq_false] at h
  obtain ⟨c, hc, hbad⟩ := h
  obtain ⟨i, hi, hci⟩ := List.getElem_of_mem hc
  exact ⟨i, c, hi, by rw [List.getElem?_eq_getElem hi, hci], by simpa using hbad⟩

/-- every cleaned body either reads as bytes or is bad, and `a85Groups` says which -/
theorem a85Groups_cases_strong : ∀ (n : Nat) (body : Str), body.length = n →
    (∀ y, a85Groups body = some y → A85Reads body y) ∧ (a85Groups body = none → A85Bad body) := by
  intro n
  induction n using Nat.strongRecOn with
  | _ n ih =>
    intro body hlen
    cases body with
    | nil =>
      refine ⟨?_, ?_⟩
      · intro y h
        simp only [a85Groups, Option.some.injEq] at h
        subst h; exact .nil
      · intro h; simp [a85Groups] at h
    | cons c0 r0 =>
      by_cases hz : c0 = 122
      · subst hz
        have ihr := ih r0.length (by simp at hlen; omega) r0 rfl
        rw [a85Groups_z]
        refine ⟨?_, ?_⟩
        · intro y h
          cases hg : a85Groups r0 with
          | none => rw [hg] at h; simp at h
          | some t =>
            rw [hg] at h
            simp only [Option.map_some, Option.some.injEq] at h
            subst h
            exact .z r0 t (ihr.1 t hg)
        · intro h
          cases hg : a85Groups r0 with
          | none => exact .afterZ r0 (ihr.2 hg)
          | some t => rw [hg] at h; simp at h
      · have hhead : (c0 :: r0).head? ≠ some 122 := by simpa using hz
        -- is the group (the first five characters, or all of a shorter body) made of digits?
        by_cases hall : ((c0 :: r0).take 5).all a85Digit = true
        · obtain ⟨ds, hds, hcs⟩ := all_digits_chars _ hall
          have hdl : ds.length = ((c0 :: r0).take 5).length := by rw [hcs]; simp [a85Chars]
          by_cases hfull : 5 ≤ (c0 :: r0).length
          · -- a full group
            have h5 : ds.length = 5 := by rw [hdl, List.length_take]; omega
            match ds, h5, hds with
            | [d0, d1, d2, d3, d4], _, hds =>
              have e0 := hds d0 (by simp); have e1 := hds d1 (by simp); have e2 := hds d2 (by simp)
              have e3 := hds d3 (by simp); have e4 := hds d4 (by simp)
              have hbody : c0 :: r0 = (d0 + 33) :: (d1 + 33) :: (d2 + 33) :: (d3 + 33) :: (d4 + 33) :: (c0 :: r0).drop 5 := by
                have := List.take_append_drop 5 (c0 :: r0)
                rw [hcs] at this
                simpa [a85Chars] using this.symm
              have ihr := ih ((c0 :: r0).drop 5).length (by
                have : ((c0 :: r0).drop 5).length = (c0 :: r0).length - 5 := by simp
                rw [this, hlen]; omega) _ rfl
              rw [hbody, a85Groups_five d0 d1 d2 d3 d4 e0 e1 e2 e3 e4]
              by_cases hv : (((d0 * 85 + d1) * 85 + d2) * 85 + d3) * 85 + d4 > 4294967295
              · simp only [hv, if_true]
                refine ⟨fun y h => by simp at h, fun _ => ?_⟩
                exact .overflow d0 d1 d2 d3 d4 _ e0 e1 e2 e3 e4 hv
              · simp only [hv, if_false]
                refine ⟨?_, ?_⟩
                · intro y h
                  cases hg : a85Groups ((c0 :: r0).drop 5) with
                  | none => rw [hg] at h; simp at h
                  | some t =>
                    rw [hg] at h
                    simp only [Option.map_some, Option.some.injEq] at h
                    subst h
                    exact .full d0 d1 d2 d3 d4 _ t e0 e1 e2 e3 e4 (by omega) (ihr.1 t hg)
                · intro h
                  cases hg : a85Groups ((c0 :: r0).drop 5) with
                  | none => exact .afterFull d0 d1 d2 d3 d4 _ e0 e1 e2 e3 e4 (ihr.2 hg)
                  | some t => rw [hg] at h; simp at h
          · -- the final partial group: the whole body
            have htake : (c0 :: r0).take 5 = c0 :: r0 := List.take_of_length_le (by omega)
            rw [htake] at hcs hdl
            have hl1 : 1 ≤ ds.length := by rw [hdl]; simp
            have hl4 : ds.length ≤ 4 := by rw [hdl]; omega
            rw [hcs, a85Groups_partial ds (by omega) hds, a85Flush_part ds hl1]
            by_cases hv : a85Value (ds ++ List.replicate (5 - ds.length) 84) > 4294967295
            · simp only [hv, if_true]
              exact ⟨fun y h => by simp at h, fun _ => .partOverflow ds hl1 hl4 hds hv⟩
            · simp only [hv, if_false]
              refine ⟨?_, fun h => by simp at h⟩
              intro y h
              simp only [Option.some.injEq] at h
              subst h
              exact .part ds hl1 hl4 hds (by omega)
        · -- a character that is no digit among the first five
          have hall' : ((c0 :: r0).take 5).all a85Digit = false := by simpa using hall
          obtain ⟨i, c, hi, hci, hbad⟩ := not_all_digits _ hall'
          have hi5 : i < 5 := by
            have : ((c0 :: r0).take 5).length ≤ 5 := by simp; omega
            omega
          have hci' : (c0 :: r0)[i]? = some c := by
            rw [List.getElem?_take] at hci
            simpa [hi5] using hci
          rw [a85Groups_bad (c0 :: r0) i hi5 c hci' hbad hhead]
          exact ⟨fun y h => by simp at h, fun _ => .char _ i c hi5 hci' hbad hhead⟩

/-- a reading is what `a85Groups` computes -/
theorem a85Reads_groups (body y : Str) (h : A85Reads body y) : a85Groups body = some y := by
  induction h with
  | nil => rfl
  | z body y _ ih => rw [a85Groups_z, ih]; rfl
  | full d0 d1 d2 d3 d4 body y h0 h1 h2 h3 h4 hv _ ih =>
    rw [a85Groups_five d0 d1 d2 d3 d4 h0 h1 h2 h3 h4, ih]
    have : ¬ ((((d0 * 85 + d1) * 85 + d2) * 85 + d3) * 85 + d4 > 4294967295) := by omega
    simp only [this, if_false, Option.map_some]
  | part ds h1 h4 hds hv =>
    rw [a85Groups_partial ds (by omega) hds, a85Flush_part ds h1]
    have : ¬ (a85Value (ds ++ List.replicate (5 - ds.length) 84) > 4294967295) := by omega
    simp only [this, if_false]

/-- a bad body is refused -/
theorem a85Bad_groups (body : Str) (h : A85Bad body) : a85Groups body = none := by
  induction h with
  | char cs i c hi hc hbad h0 => exact a85Groups_bad cs i hi c hc hbad h0
  | overflow d0 d1 d2 d3 d4 body h0 h1 h2 h3 h4 hv =>
    rw [a85Groups_five d0 d1 d2 d3 d4 h0 h1 h2 h3 h4]
    simp only [hv, if_true]
  | partOverflow ds h1 h4 hds hv =>
    rw [a85Groups_partial ds (by omega) hds, a85Flush_part ds h1]
    simp only [hv, if_true]
  | afterZ body _ ih => rw [a85Groups_z, ih]; rfl
  | afterFull d0 d1 d2 d3 d4 body h0 h1 h2 h3 h4 _ ih =>
    rw [a85Groups_five d0 d1 d2 d3 d4 h0 h1 h2 h3 h4, ih]
    split <;> rfl

end Tabula.Filters
