import TabulaModel.Model.OptHeap
/-!
The heap-level configuration methods (`Model/OptHeap.lean`) refine the value-level ones of
`Model/Builder.lean`: with `ExtractOptions.clone` copying the page list into a backing array of
its own, every write of a later `append` goes to an array allocated after the clone, so no
Extractor that existed before sees it — for every growth policy of `append`.
-/
namespace Tabula.OptHeap
open Tabula.Builder

/-- the slice is within a live backing array of the heap -/
def SlOk (H : Heap) (s : Slice) : Prop :=
  s.arr < H.next ∧ s.len ≤ s.cap ∧ (H.arr s.arr).length = s.cap

def OptOk (H : Heap) : Option Slice → Prop
  | none => True
  | some s => SlOk H s

/-- the slice (if any) lives in an array allocated at `n` or later -/
def FreshFrom (n : Nat) : Option Slice → Prop
  | none => True
  | some s => n ≤ s.arr

/-- `H'` has everything `H` had, unchanged below `n` -/
def Keeps (n : Nat) (H H' : Heap) : Prop := H.next ≤ H'.next ∧ ∀ i, i < n → H'.arr i = H.arr i

theorem Keeps.refl (n : Nat) (H : Heap) : Keeps n H H := ⟨Nat.le_refl _, fun _ _ => rfl⟩

theorem Keeps.trans {n : Nat} {H1 H2 H3 : Heap} (a : Keeps n H1 H2) (b : Keeps n H2 H3) : Keeps n H1 H3 :=
  ⟨Nat.le_trans a.1 b.1, fun i hi => (b.2 i hi).trans (a.2 i hi)⟩

theorem Keeps.mono {n m : Nat} {H H' : Heap} (h : Keeps n H H') (hm : m ≤ n) : Keeps m H H' :=
  ⟨h.1, fun i hi => h.2 i (Nat.lt_of_lt_of_le hi hm)⟩

theorem alloc_keeps (H : Heap) (a : List Int) : Keeps H.next H (H.alloc a).1 := by
  refine ⟨by simp [Heap.alloc], ?_⟩
  intro i hi
  have : i ≠ H.next := by omega
  simp [Heap.alloc, this]

theorem alloc_get (H : Heap) (a : List Int) : (H.alloc a).1.arr H.next = a := by simp [Heap.alloc]

theorem alloc_id (H : Heap) (a : List Int) : (H.alloc a).2 = H.next := rfl

theorem alloc_next (H : Heap) (a : List Int) : (H.alloc a).1.next = H.next + 1 := rfl

theorem readSlice_keeps {H H' : Heap} (h : Keeps H.next H H') {s : Slice} (hs : SlOk H s) :
    readSlice H' s = readSlice H s ∧ SlOk H' s := by
  have := h.2 s.arr hs.1
  refine ⟨by simp [readSlice, this], ?_, hs.2.1, by rw [this]; exact hs.2.2⟩
  exact Nat.lt_of_lt_of_le hs.1 h.1

theorem readOpt_keeps {H H' : Heap} (h : Keeps H.next H H') {s : Option Slice} (hs : OptOk H s) :
    readOpt H' s = readOpt H s ∧ OptOk H' s := by
  cases s with
  | none => exact ⟨rfl, trivial⟩
  | some s => exact readSlice_keeps h hs

theorem readSlice_length {H : Heap} {s : Slice} (hs : SlOk H s) : (readSlice H s).length = s.len := by
  simp only [readSlice, List.length_take]
  have := hs.2.1; have := hs.2.2; omega

/-- **clone_copies**: `ExtractOptions.clone` leaves every array in use as it was, and the copy
shows the same pages from an array of its own -/
theorem cloneDeep_spec (H : Heap) (s : Option Slice) (hs : OptOk H s) :
    Keeps H.next H (cloneDeep H s).1 ∧ readOpt (cloneDeep H s).1 (cloneDeep H s).2 = readOpt H s ∧
    OptOk (cloneDeep H s).1 (cloneDeep H s).2 ∧ FreshFrom H.next (cloneDeep H s).2 := by
  cases s with
  | none => exact ⟨Keeps.refl _ _, rfl, trivial, trivial⟩
  | some s =>
    have hl := readSlice_length hs
    simp only [cloneDeep]
    refine ⟨alloc_keeps _ _, ?_, ?_, ?_⟩
    · simp only [readOpt, readSlice, alloc_id, alloc_get]
      rw [List.take_of_length_le]
      simp only [List.length_take]
      have := hs.2.1; have := hs.2.2; omega
    · refine ⟨by simp [alloc_id, alloc_next], Nat.le_refl _, ?_⟩
      simp only [alloc_id, alloc_get]
      exact hl
    · simp [FreshFrom, alloc_id]

theorem writeAt_length (a : List Int) (pos : Nat) (xs : List Int) (h : pos + xs.length ≤ a.length) :
    (writeAt a pos xs).length = a.length := by
  simp only [writeAt, List.length_append, List.length_take, List.length_drop]
  omega

theorem writeAt_take (a : List Int) (pos : Nat) (xs : List Int) (h : pos + xs.length ≤ a.length) :
    (writeAt a pos xs).take (pos + xs.length) = a.take pos ++ xs := by
  simp only [writeAt]
  rw [List.take_append_of_le_length]
  · rw [List.take_of_length_le]
    simp only [List.length_append, List.length_take]
    omega
  · simp only [List.length_append, List.length_take]
    omega

/-- **append_spec**: `append` on a slice that lives in an array allocated at `n` or later shows
the old elements followed by the new ones, and writes nothing below `n` — whatever capacity the
runtime chooses when it reallocates -/
theorem appendSlice_spec (grow : Nat → Nat → Nat) (n : Nat) (H : Heap) (s : Option Slice) (xs : List Int)
    (hs : OptOk H s) (hf : FreshFrom n s) (hn : n ≤ H.next) :
    readOpt (appendSlice grow H s xs).1 (appendSlice grow H s xs).2 = readOpt H s ++ xs ∧
    OptOk (appendSlice grow H s xs).1 (appendSlice grow H s xs).2 ∧
    FreshFrom n (appendSlice grow H s xs).2 ∧ Keeps n H (appendSlice grow H s xs).1 := by
  cases s with
  | none =>
    simp only [appendSlice]
    by_cases hx : xs.isEmpty = true
    · simp only [hx, if_true]
      have : xs = [] := by simpa using hx
      subst this
      exact ⟨rfl, trivial, trivial, Keeps.refl _ _⟩
    · simp only [hx]
      refine ⟨?_, ?_, ?_, (alloc_keeps _ _).mono hn⟩
      · simp only [readOpt, readSlice, alloc_id, alloc_get, Bool.false_eq_true, if_false, List.nil_append]
        rw [List.take_append_of_le_length (Nat.le_refl _), List.take_length]
      · simp only [Bool.false_eq_true, if_false]
        refine ⟨by simp [alloc_id, alloc_next], ?_, ?_⟩
        · exact Nat.le_max_right _ _
        · simp only [alloc_id, alloc_get, List.length_append, List.length_replicate]
          have := Nat.le_max_right (grow 0 xs.length) xs.length
          omega
      · simp only [Bool.false_eq_true, if_false, FreshFrom, alloc_id]
        exact hn
  | some s =>
    have hl := readSlice_length hs
    simp only [appendSlice]
    by_cases hc : s.len + xs.length ≤ s.cap
    · simp only [hc, if_true]
      have hlen : s.len + xs.length ≤ (H.arr s.arr).length := by rw [hs.2.2]; exact hc
      refine ⟨?_, ?_, hf, ?_⟩
      · simp only [readOpt, readSlice, if_true]
        exact writeAt_take _ _ _ hlen
      · refine ⟨hs.1, hc, ?_⟩
        simp only [if_true]
        rw [writeAt_length _ _ _ hlen]
        exact hs.2.2
      · refine ⟨Nat.le_refl _, ?_⟩
        intro i hi
        have : i ≠ s.arr := by
          have : n ≤ s.arr := hf
          omega
        simp [this]
    · simp only [hc, if_false]
      refine ⟨?_, ?_, ?_, (alloc_keeps _ _).mono hn⟩
      · have key : ∀ (A : List Int) (need cap : Nat),
            readSlice (H.alloc A).1 ⟨H.next, need, cap⟩ = A.take need := by
          intro A need cap; simp [readSlice, Heap.alloc]
        simp only [readOpt, alloc_id]
        rw [key]
        have hlen : (readSlice H s ++ xs).length = s.len + xs.length := by simp [hl]
        rw [List.take_append_of_le_length (by omega), List.take_of_length_le (by omega)]
      · refine ⟨by simp [alloc_id, alloc_next], Nat.le_max_right _ _, ?_⟩
        simp only [alloc_id, alloc_get, List.length_append, List.length_replicate, hl]
        have := Nat.le_max_right (grow s.cap (s.len + xs.length)) (s.len + xs.length)
        omega
      · simp only [FreshFrom, alloc_id]
        exact hn

theorem appendEach_spec (grow : Nat → Nat → Nat) (n : Nat) (xs : List Int) :
    ∀ (H : Heap) (s : Option Slice), OptOk H s → FreshFrom n s → n ≤ H.next →
    readOpt (appendEach grow H s xs).1 (appendEach grow H s xs).2 = readOpt H s ++ xs ∧
    OptOk (appendEach grow H s xs).1 (appendEach grow H s xs).2 ∧
    FreshFrom n (appendEach grow H s xs).2 ∧ Keeps n H (appendEach grow H s xs).1 := by
  induction xs with
  | nil => intro H s hs hf _; exact ⟨by simp [appendEach], hs, hf, Keeps.refl _ _⟩
  | cons x xs ih =>
    intro H s hs hf hn
    obtain ⟨h1, h2, h3, h4⟩ := appendSlice_spec grow n H s [x] hs hf hn
    have := ih (appendSlice grow H s [x]).1 (appendSlice grow H s [x]).2 h2 h3 (Nat.le_trans hn h4.1)
    simp only [appendEach]
    obtain ⟨g1, g2, g3, g4⟩ := this
    refine ⟨?_, g2, g3, h4.trans g4⟩
    rw [g1, h1]
    simp

/-! ### the Extractor as a value -/

/-- replace the page list of an Extractor value -/
def withPages (e : Ext) (ps : List Int) : Ext := { e with opts := { e.opts with pages := ps } }

theorem absExt_eq (H : Heap) (x : HExt) : absExt H x = withPages x.e (readOpt H x.sl) := rfl

theorem withPages_withPages (e : Ext) (a b : List Int) : withPages (withPages e a) b = withPages e b := rfl

theorem clone_withPages (e : Ext) (ps : List Int) : (withPages e ps).clone = withPages e.clone ps := by
  unfold Ext.clone
  have hc : ((withPages e ps).opened && !((withPages e ps).owns && (withPages e ps).hasFile))
      = (e.opened && !(e.owns && e.hasFile)) := rfl
  rw [hc]
  cases (e.opened && !(e.owns && e.hasFile)) <;> rfl

/-- the page list a configuration method leaves, from the one it found -/
def newPages (c : BCall) (ps : List Int) : List Int :=
  match c with
  | .pages qs => ps ++ qs
  | .pageRange a b => if a > b then ps else ps ++ rangeList a b
  | _ => ps

theorem applyCall_withPages (c : BCall) (e : Ext) (ps : List Int) :
    applyCall c (withPages e ps) = withPages (applyCall c e) (newPages c ps) := by
  cases c <;> simp only [applyCall, withPages, newPages]
  split <;> rfl

/-- **derive_refines**: a configuration method on the heap (deep-copying `clone`, any growth
policy) produces the Extractor the value-level model produces, keeps every array that was in
use unchanged, and leaves the new Extractor's page list in arrays of its own -/
theorem hderive_spec (grow : Nat → Nat → Nat) (H : Heap) (x : HExt) (c : BCall) (hx : OptOk H x.sl) :
    absExt (hderive grow H x c).1 (hderive grow H x c).2 = (absExt H x).derive c ∧
    OptOk (hderive grow H x c).1 (hderive grow H x c).2.sl ∧
    Keeps H.next H (hderive grow H x c).1 := by
  obtain ⟨k1, k2, k3, k4⟩ := cloneDeep_spec H x.sl hx
  have hnext : H.next ≤ (cloneDeep H x.sl).1.next := k1.1
  have hval : (absExt H x).derive c = withPages (applyCall c x.e.clone) (newPages c (readOpt H x.sl)) := by
    rw [Ext.derive, absExt_eq, clone_withPages, applyCall_withPages]
  rw [hval]
  cases c with
  | pages ps =>
    obtain ⟨a1, a2, _, a4⟩ := appendSlice_spec grow H.next _ _ ps k3 k4 hnext
    simp only [hderive, hderiveWith, absExt_eq, newPages]
    exact ⟨by rw [a1, k2], a2, k1.trans a4⟩
  | pageRange a b =>
    simp only [hderive, hderiveWith, newPages]
    by_cases hab : a > b
    · simp only [hab, if_true, absExt_eq]
      exact ⟨by rw [k2], k3, k1⟩
    · simp only [hab, if_false, absExt_eq]
      obtain ⟨a1, a2, _, a4⟩ := appendEach_spec grow H.next (rangeList a b) _ _ k3 k4 hnext
      exact ⟨by rw [a1, k2], a2, k1.trans a4⟩
  | excludeHeaders => exact ⟨by simp only [hderive, hderiveWith, absExt_eq, newPages, k2], k3, k1⟩
  | excludeFooters => exact ⟨by simp only [hderive, hderiveWith, absExt_eq, newPages, k2], k3, k1⟩
  | excludeHeadersAndFooters => exact ⟨by simp only [hderive, hderiveWith, absExt_eq, newPages, k2], k3, k1⟩
  | joinParagraphs => exact ⟨by simp only [hderive, hderiveWith, absExt_eq, newPages, k2], k3, k1⟩
  | byColumn => exact ⟨by simp only [hderive, hderiveWith, absExt_eq, newPages, k2], k3, k1⟩
  | preserveLayout => exact ⟨by simp only [hderive, hderiveWith, absExt_eq, newPages, k2], k3, k1⟩

/-! ### families -/

/-- every Extractor's page list is within a live array -/
def FamOk (F : HFam) : Prop := ∀ x ∈ F.xs, OptOk F.H x.sl

theorem famOk_base (e : Ext) : FamOk (hbase e) := by
  intro x hx
  simp only [hbase, List.mem_singleton] at hx
  subst hx
  trivial

/-- **siblings_untouched**: a configuration method adds one Extractor and leaves the value of
every Extractor that existed before as it was -/
theorem derive_abs (grow : Nat → Nat → Nat) (F : HFam) (i : Nat) (c : BCall) (hF : FamOk F) :
    (F.derive grow i c).abs = runValues F.abs [(i, c)] ∧
    FamOk (F.derive grow i c) := by
  simp only [HFam.derive, HFam.abs, List.getElem?_map, runValues]
  cases hx : F.xs[i]? with
  | none => exact ⟨by simp, hF⟩
  | some x =>
    have hxm : x ∈ F.xs := List.mem_of_getElem? hx
    obtain ⟨h1, h2, h3⟩ := hderive_spec grow F.H x c (hF x hxm)
    simp only [Option.map_some, List.map_append, List.map_cons, List.map_nil]
    refine ⟨?_, ?_⟩
    · rw [h1]
      congr 1
      apply List.map_congr_left
      intro y hy
      simp only [absExt, (readOpt_keeps h3 (hF y hy)).1]
    · intro y hy
      rcases List.mem_append.mp hy with hy | hy
      · exact (readOpt_keeps h3 (hF y hy)).2
      · simp only [List.mem_singleton] at hy
        subst hy
        exact h2

/-- **options_copy_on_configure**: after ANY history of configuration calls on the Extractors of
a family — siblings derived from one base in any order, chains of any depth — and for ANY growth
policy of `append`, every Extractor holds exactly the options the value-level model gives it -/
theorem run_abs (grow : Nat → Nat → Nat) (ops : List (Nat × BCall)) :
    ∀ (F : HFam), FamOk F → (F.run grow ops).abs = runValues F.abs ops ∧ FamOk (F.run grow ops) := by
  induction ops with
  | nil => intro F hF; exact ⟨rfl, hF⟩
  | cons op ops ih =>
    intro F hF
    obtain ⟨i, c⟩ := op
    obtain ⟨h1, h2⟩ := derive_abs grow F i c hF
    obtain ⟨g1, g2⟩ := ih (F.derive grow i c) h2
    simp only [HFam.run]
    exact ⟨by rw [g1, h1]; rfl, g2⟩

end Tabula.OptHeap
