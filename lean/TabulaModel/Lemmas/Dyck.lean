import TabulaModel.Lemmas.Expand
/-!
A checkable criterion for `Balanced`: counting `q` and `Q`.

`depthAfter d ops` is the q/Q depth after `ops` started at depth `d` (`none` when a `Q`
meets depth 0); forms do not count.  A program that returns from 0 to 0 and whose forms
have balanced content is `Balanced` (`balanced_of_depth`, the Dyck-word parsing argument:
split at the `Q` that matches the first `q`).  On documents: when every form object's
content stream counts from 0 to 0 (`DocBalanced`, on the RAW operations), every form node
of every unfolding has balanced content (`expandForm_balanced`, `expandPage_formsBalanced`).
-/
namespace Tabula.XDoc
open Tabula Tabula.GState

variable {α : Type}

/-- q/Q depth after the program; `none`: a `Q` at depth 0 -/
def depthAfter : Nat → List (Op α) → Option Nat
  | d, [] => some d
  | d, op :: rest =>
    match op with
    | .q => depthAfter (d + 1) rest
    | .Q => match d with
      | 0 => none
      | d' + 1 => depthAfter d' rest
    | _ => depthAfter d rest

theorem depthAfter_q (d : Nat) (rest : List (Op α)) : depthAfter d (Op.q :: rest) = depthAfter (d + 1) rest := rfl
theorem depthAfter_Q_zero (rest : List (Op α)) : depthAfter 0 (Op.Q :: rest) = none := rfl
theorem depthAfter_Q_succ (d : Nat) (rest : List (Op α)) : depthAfter (d + 1) (Op.Q :: rest) = depthAfter d rest := rfl

theorem depthAfter_other (d : Nat) (op : Op α) (rest : List (Op α)) (hq : op ≠ Op.q) (hQ : op ≠ Op.Q) :
    depthAfter d (op :: rest) = depthAfter d rest := by
  cases op <;> first | rfl | exact absurd rfl hq | exact absurd rfl hQ

theorem depthAfter_append (d : Nat) (a b : List (Op α)) :
    depthAfter d (a ++ b) = (depthAfter d a).bind fun d' => depthAfter d' b := by
  induction a generalizing d with
  | nil => simp [depthAfter]
  | cons op rest ih =>
    by_cases hq : op = Op.q
    · subst hq; simp only [List.cons_append, depthAfter_q, ih]
    · by_cases hQ : op = Op.Q
      · subst hQ
        cases d with
        | zero => simp [depthAfter_Q_zero]
        | succ d => simp only [List.cons_append, depthAfter_Q_succ, ih]
      · simp only [List.cons_append, depthAfter_other _ _ _ hq hQ, ih]

/-- the `Q` that brings the depth from `d+1+k` down to `d` for the first time -/
theorem split_at_matching_Q (ops : List (Op α)) :
    ∀ (k d e : Nat), depthAfter (d + 1 + k) ops = some e → e ≤ d →
      ∃ body rest, ops = body ++ Op.Q :: rest ∧ depthAfter k body = some 0 ∧ depthAfter d rest = some e := by
  induction ops with
  | nil =>
    intro k d e h he
    simp only [depthAfter, Option.some.injEq] at h
    omega
  | cons op t ih =>
    intro k d e h he
    by_cases hq : op = Op.q
    · subst hq
      rw [depthAfter_q] at h
      obtain ⟨body, rest, h1, h2, h3⟩ := ih (k + 1) d e h he
      exact ⟨Op.q :: body, rest, by rw [h1]; rfl, by rw [depthAfter_q]; exact h2, h3⟩
    · by_cases hQ : op = Op.Q
      · subst hQ
        cases k with
        | zero =>
          rw [Nat.add_zero, depthAfter_Q_succ] at h
          exact ⟨[], t, rfl, rfl, h⟩
        | succ k =>
          have : d + 1 + (k + 1) = (d + 1 + k) + 1 := by omega
          rw [this, depthAfter_Q_succ] at h
          obtain ⟨body, rest, h1, h2, h3⟩ := ih k d e h he
          exact ⟨Op.Q :: body, rest, by rw [h1]; rfl, by rw [depthAfter_Q_succ]; exact h2, h3⟩
      · rw [depthAfter_other _ _ _ hq hQ] at h
        obtain ⟨body, rest, h1, h2, h3⟩ := ih k d e h he
        exact ⟨op :: body, rest, by rw [h1]; rfl, by rw [depthAfter_other _ _ _ hq hQ]; exact h2, h3⟩

theorem formsBalanced_append_left {a b : List (Op α)} (h : FormsBalanced (a ++ b)) : FormsBalanced a :=
  fun m body hm => h m body (List.mem_append_left _ hm)

theorem formsBalanced_append_right {a b : List (Op α)} (h : FormsBalanced (a ++ b)) : FormsBalanced b :=
  fun m body hm => h m body (List.mem_append_right _ hm)

/-- **counting suffices**: a program that takes the q/Q depth from 0 back to 0 without
going below, and whose forms have balanced content, is `Balanced` -/
theorem balanced_of_depth (n : Nat) :
    ∀ ops : List (Op α), ops.length ≤ n → FormsBalanced ops → depthAfter 0 ops = some 0 → Balanced ops := by
  induction n with
  | zero =>
    intro ops hl _ _
    have : ops = [] := List.length_eq_zero_iff.mp (by omega)
    subst this; exact Balanced.nil
  | succ n ih =>
    intro ops hl hfb hd
    cases ops with
    | nil => exact Balanced.nil
    | cons op t =>
      simp only [List.length_cons] at hl
      by_cases hq : op = Op.q
      · subst hq
        rw [depthAfter_q] at hd
        obtain ⟨body, rest, h1, h2, h3⟩ := split_at_matching_Q t 0 0 0 hd (Nat.le_refl 0)
        subst h1
        have hlen : (body ++ Op.Q :: rest).length = body.length + rest.length + 1 := by
          simp [List.length_append]; omega
        have hfb' : FormsBalanced (body ++ Op.Q :: rest) := hfb.tail
        have hb : Balanced body := ih body (by omega) (formsBalanced_append_left hfb') h2
        have hr : Balanced rest := ih rest (by omega) (FormsBalanced.tail (formsBalanced_append_right hfb')) h3
        exact Balanced.qQ body rest hb hr
      · by_cases hQ : op = Op.Q
        · subst hQ; rw [depthAfter_Q_zero] at hd; cases hd
        · rw [depthAfter_other _ _ _ hq hQ] at hd
          have ht : Balanced t := ih t (by omega) hfb.tail hd
          by_cases hf : ∃ m body, op = Op.form m body
          · obtain ⟨m, body, rfl⟩ := hf
            exact Balanced.form m body t (hfb m body List.mem_cons_self) ht
          · have hp : op.plain = true := by
              cases op <;> first | rfl | exact absurd rfl hq | exact absurd rfl hQ | exact absurd ⟨_, _, rfl⟩ hf
            exact Balanced.plain op t hp ht

section
variable [Lean.Grind.CommRing α]

/-- q/Q depth after a content stream as the parser delivers it: what its operations decode
to is counted, `Do` is not -/
def rawDepthAfter : Nat → List (RawOp α) → Option Nat
  | d, [] => some d
  | d, op :: rest =>
    match decodeOp op with
    | .ops l => (depthAfter d l).bind fun d' => rawDepthAfter d' rest
    | .xobj _ => rawDepthAfter d rest

/-- every form object of the document has a content stream balanced in q/Q
(ISO 32000-1 8.10.1), counted on the raw operations; nothing is asked of objects that are
not forms, of names, of resources, or of the shape of the form graph -/
def DocBalanced (doc : Doc α) : Prop :=
  ∀ n f, doc n = some (Obj.form f) → rawDepthAfter 0 (formBody f) = some 0

omit [Lean.Grind.CommRing α] in
theorem depthAfter_node (d : Nat) (n : Node α) : depthAfter d n.toOps = some d := by
  cases n with
  | none => rfl
  | some p => obtain ⟨m, body⟩ := p; rfl

theorem depthAfter_expandOps (inv : Name → Acct → Node α × Acct) (ops : List (RawOp α)) :
    ∀ (a : Acct) (d : Nat), depthAfter d (expandOps inv ops a).1 = rawDepthAfter d ops := by
  induction ops with
  | nil => intro a d; rfl
  | cons op rest ih =>
    intro a d
    cases hdec : decodeOp op with
    | ops l =>
      simp only [expandOps, rawDepthAfter, hdec, depthAfter_append]
      cases depthAfter d l with
      | none => rfl
      | some d' => simp only [Option.bind_some, ih]
    | xobj name =>
      simp only [expandOps, rawDepthAfter, hdec, depthAfter_append, depthAfter_node, Option.bind_some, ih]

omit [Lean.Grind.CommRing α] in
theorem lookupForm_mem (doc : Doc α) (res : Res) (name : Name) (f : FormObj α)
    (h : lookupForm doc res name = some f) : ∃ n, doc n = some (Obj.form f) := by
  unfold lookupForm at h
  cases h1 : resolveXDict doc res.xobject with
  | none => simp [h1] at h
  | some d =>
    cases h2 : lookupName d name with
    | none => simp [h1, h2] at h
    | some id =>
      cases h3 : doc id with
      | none => simp [h1, h2, h3] at h
      | some o =>
        cases o with
        | form g =>
          simp only [h1, h2, h3, Option.some.injEq] at h
          subst h; exact ⟨id, h3⟩
        | xdict _ => simp [h1, h2, h3] at h
        | res _ => simp [h1, h2, h3] at h
        | other => simp [h1, h2, h3] at h

/-- the content of an unfolded node is balanced -/
def NodeBalanced (n : Node α) : Prop :=
  match n with
  | none => True
  | some p => Balanced p.2

theorem expandOps_formsBalanced (inv : Name → Acct → Node α × Acct)
    (h : ∀ name a, NodeBalanced (inv name a).1) (ops : List (RawOp α)) :
    ∀ a : Acct, FormsBalanced (expandOps inv ops a).1 := by
  induction ops with
  | nil => intro a m body hm; simp [expandOps] at hm
  | cons op rest ih =>
    intro a m body hm
    have hff := decodeOp_formFree op
    cases hdec : decodeOp op with
    | ops l =>
      rw [hdec] at hff
      simp only [expandOps, hdec, List.mem_append] at hm
      rcases hm with hm | hm
      · exact absurd rfl (hff _ hm m body)
      · exact ih a m body hm
    | xobj name =>
      simp only [expandOps, hdec, List.mem_append] at hm
      rcases hm with hm | hm
      · have hn := h name a
        cases hnode : (inv name a).1 with
        | none => rw [hnode] at hm; simp [Node.toOps] at hm
        | some p =>
          rw [hnode] at hm hn
          obtain ⟨m', body'⟩ := p
          simp only [Node.toOps, List.mem_cons, Op.form.injEq, List.not_mem_nil, or_false] at hm
          obtain ⟨_, rfl⟩ := hm
          exact hn
      · exact ih _ m body hm

/-- the shape of one unfolded `Do` -/
theorem expandForm_cases (doc : Doc α) (fuel depth : Nat) (res : Res) (name : Name) (a : Acct) :
    (expandForm doc fuel depth res name a).1 = none ∨
    ∃ (fuel' : Nat) (f : FormObj α), fuel = fuel' + 1 ∧ lookupForm doc res name = some f ∧
      (expandForm doc fuel depth res name a).1 =
        some (formMatrix f.matrix,
          (expandOps (expandForm doc fuel' (depth + 1) (formResources doc res f)) (formBody f) (a.charge f.len)).1) := by
  cases fuel with
  | zero => left; rfl
  | succ fuel =>
    rw [expandForm]
    by_cases hdeep : depth ≥ maxXObjectDepth
    · left; rw [if_pos hdeep]
    · rw [if_neg hdeep]
      cases hf : lookupForm doc res name with
      | none => left; rfl
      | some f =>
        simp only
        by_cases hl : f.len = 0
        · left; rw [if_pos hl]
        · rw [if_neg hl]
          by_cases hb : a.bytes + f.len + xobjectCallCost > maxXObjectBytes
          · left; rw [if_pos hb]
          · right; rw [if_neg hb]; exact ⟨fuel, f, rfl, rfl, rfl⟩
/-- **in a balanced document every unfolded form has balanced content**, whatever the
names, scopes, sharing and recursion: by induction on the recursion bound, each level by
the counting criterion -/
theorem expandForm_balanced (doc : Doc α) (hdoc : DocBalanced doc) (fuel : Nat) :
    ∀ (depth : Nat) (res : Res) (name : Name) (a : Acct),
      NodeBalanced (expandForm doc fuel depth res name a).1 := by
  induction fuel with
  | zero => intro depth res name a; simp [expandForm, NodeBalanced]
  | succ fuel ih =>
    intro depth res name a
    rcases expandForm_cases doc (fuel + 1) depth res name a with h | ⟨fuel', f, hfu, hf, h⟩
    · rw [h]; trivial
    · rw [h]
      have hfu' : fuel' = fuel := by omega
      subst hfu'
      show Balanced _
      obtain ⟨n, hn⟩ := lookupForm_mem doc res name f hf
      have hcount := hdoc n f hn
      have hfb := expandOps_formsBalanced (expandForm doc fuel' (depth + 1) (formResources doc res f))
        (ih (depth + 1) (formResources doc res f)) (formBody f) (a.charge f.len)
      have hd := depthAfter_expandOps (expandForm doc fuel' (depth + 1) (formResources doc res f))
        (formBody f) (a.charge f.len) 0
      rw [hcount] at hd
      exact balanced_of_depth _ _ (Nat.le_refl _) hfb hd

omit [Lean.Grind.CommRing α] in
theorem expandNone_balanced (name : Name) (a : Acct) : NodeBalanced (expandNone (α := α) name a).1 := trivial

/-- the unfolding of any page of a balanced document has forms with balanced content -/
theorem expandPage_formsBalanced (doc : Doc α) (hdoc : DocBalanced doc) (resources : Option Res)
    (depth : Nat) (ops : List (RawOp α)) (a : Acct) : FormsBalanced (expandPage doc resources depth ops a).1 := by
  unfold expandPage
  cases resources with
  | none => exact expandOps_formsBalanced _ (fun n b => expandNone_balanced n b) ops a
  | some res => exact expandOps_formsBalanced _ (expandForm_balanced doc hdoc maxXObjectDepth depth res) ops a

end
end Tabula.XDoc
