import TabulaModel.Lemmas.Traverse
import TabulaModel.Model.HtmlSpec
/-!
A finer specification than `atoms` for the views that show more than cell texts (Markdown,
Document): `blocks` keeps a table whole (its rows, header flag) and records for every list item
the kind (ordered or not) of the list it was met in.  The stateful traversal refines it exactly
as it refines `atoms` (same proof, one more component of the list context), and it is monotone
in the exclusion predicate.  Used by Props/C19Md.lean.
-/
namespace Tabula.Html

/-! ### monotone in the predicate -/

mutual
theorem blocks_mono (p q : Pos → Dom → Bool) (h : ∀ pos n, p pos n = true → q pos n = true) (w : Bool) :
    ∀ (t : Dom) (pos : Pos) (lc : LCB), (blocks q w pos lc t).Sublist (blocks p w pos lc t)
  | .text _, pos, lc => by simp [blocks]
  | .other kids, pos, lc => by
      simp only [blocks]
      exact blocksL_mono p q h w kids _ lc
  | .elem tag attrs kids, pos, lc => by
      unfold blocks
      by_cases hs : isSkip tag = true
      · simp [hs]
      · by_cases hq : q pos (.elem tag attrs kids) = true
        · simp [hs, hq]
        · have hp : ¬ p pos (.elem tag attrs kids) = true := fun hp => hq (h _ _ hp)
          simp only [hs, hq, hp, if_false, Bool.false_eq_true]
          split
          · exact List.Sublist.refl _
          · split
            · exact List.Sublist.refl _
            · exact blocksM_mono p q h w kids _ lc []
          · exact blocksL_mono p q h w kids _ _
          · exact List.Sublist.append (List.Sublist.refl _) (blocksLi_mono p q h w kids _ _)
          · exact List.Sublist.refl _
          · exact List.Sublist.refl _
          · exact List.Sublist.refl _
          · exact List.Sublist.refl _
          · exact blocksL_mono p q h w kids _ lc
theorem blocksL_mono (p q : Pos → Dom → Bool) (h : ∀ pos n, p pos n = true → q pos n = true) (w : Bool) :
    ∀ (ts : List Dom) (kp : Pos) (lc : LCB), (blocksL q w kp lc ts).Sublist (blocksL p w kp lc ts)
  | [], kp, lc => by simp [blocksL]
  | k :: ks, kp, lc => by
      simp only [blocksL]
      exact List.Sublist.append (blocks_mono p q h w k kp lc) (blocksL_mono p q h w ks kp lc)
theorem blocksLi_mono (p q : Pos → Dom → Bool) (h : ∀ pos n, p pos n = true → q pos n = true) (w : Bool) :
    ∀ (ts : List Dom) (kp : Pos) (lc : LCB), (blocksLi q w kp lc ts).Sublist (blocksLi p w kp lc ts)
  | [], kp, lc => by simp [blocksLi]
  | k :: ks, kp, lc => by
      simp only [blocksLi]
      refine List.Sublist.append ?_ (blocksLi_mono p q h w ks kp lc)
      split
      · exact blocks_mono p q h w k kp lc
      · exact List.Sublist.refl _
theorem blocksM_mono (p q : Pos → Dom → Bool) (h : ∀ pos n, p pos n = true → q pos n = true) (w : Bool) :
    ∀ (ts : List Dom) (kp : Pos) (lc : LCB) (run : Str),
      (blocksM q w kp lc ts run).Sublist (blocksM p w kp lc ts run)
  | [], kp, lc, run => by simp [blocksM]
  | k :: ks, kp, lc, run => by
      simp only [blocksM]
      split
      · exact blocksM_mono p q h w ks kp lc _
      · exact List.Sublist.append (List.Sublist.append (List.Sublist.refl _) (blocks_mono p q h w k kp lc))
          (blocksM_mono p q h w ks kp lc [])
end

/-! ### the traversal refines `blocks` -/

def St.flatB (s : St) : List Block := flattenB s.out ++ s.items.map itemBlock

def St.lcB (s : St) : LCB := ⟨s.inList, s.level, s.inList && s.ordered⟩

theorem flattenB_append (a b : List Element) : flattenB (a ++ b) = flattenB a ++ flattenB b := by
  simp [flattenB]

theorem flattenB_single (e : Element) : flattenB [e] = e.blocks := by
  simp [flattenB]

theorem flushList_flatB (s : St) : (flushList s).flatB = s.flatB := by
  unfold flushList St.flatB
  split
  · simp [flattenB_append, flattenB_single, Element.blocks]
  · rfl

theorem flushList_ordered (s : St) : (flushList s).ordered = s.ordered := by
  unfold flushList; split <;> rfl

theorem emit_flatB (s : St) (e : Element) (h : s.items = []) : (s.emit e).flatB = s.flatB ++ e.blocks := by
  simp [St.emit, St.flatB, h, flattenB_append, flattenB_single]

/-- `s'` continues `s` by exactly the blocks `bs`, in the same list context -/
structure RefinesB (s s' : St) (bs : List Block) : Prop where
  flat : s'.flatB = s.flatB ++ bs
  inList : s'.inList = s.inList
  level : s'.level = s.level
  ordered : s.inList = true → s'.ordered = s.ordered
  ok : s'.ok

theorem RefinesB.rfl' (s : St) (h : s.ok) : RefinesB s s [] := ⟨by simp, rfl, rfl, fun _ => rfl, h⟩

theorem RefinesB.trans {s s1 s2 : St} {a b : List Block} (h1 : RefinesB s s1 a) (h2 : RefinesB s1 s2 b) :
    RefinesB s s2 (a ++ b) :=
  ⟨by rw [h2.flat, h1.flat, List.append_assoc], h2.inList.trans h1.inList, h2.level.trans h1.level,
   fun hi => (h2.ordered (h1.inList.trans hi)).trans (h1.ordered hi), h2.ok⟩

theorem RefinesB.lc {s s' : St} {a : List Block} (h : RefinesB s s' a) : s'.lcB = s.lcB := by
  cases hi : s.inList with
  | true => simp [St.lcB, h.inList, h.level, hi, h.ordered hi]
  | false => simp [St.lcB, h.inList, h.level, hi]

theorem refinesB_flush (s : St) (h : s.ok) : RefinesB s (flushList s) [] :=
  ⟨by simp [flushList_flatB], flushList_inList s, flushList_level s, fun _ => flushList_ordered s,
   flushList_ok s h⟩

theorem refinesB_flush_emit (s : St) (h : s.ok) (e : Element) : RefinesB s ((flushList s).emit e) e.blocks :=
  ⟨by rw [emit_flatB _ _ (flushList_items s h), flushList_flatB],
   by simp [St.emit, flushList_inList], by simp [St.emit, flushList_level],
   fun _ => by simp [St.emit, flushList_ordered],
   by
     intro hi
     have := flushList_ok s h
     simp only [St.emit] at hi ⊢
     exact this hi⟩

theorem emitRun_refinesB (run : Str) (s : St) (h : s.ok) : RefinesB s (emitRun run s) (runBlocks run) := by
  unfold emitRun runBlocks
  split
  · have := refinesB_flush_emit s h (.para (trim run))
    simpa [Element.blocks] using this
  · exact RefinesB.rfl' s h

theorem liHead_refinesB (kids : List Dom) (s : St) (hin : s.inList = true) :
    (liHead kids s).flatB = s.flatB ++
      (if getDirectTextContent kids != [] then [Block.item s.level (getDirectTextContent kids) s.ordered] else []) ∧
    (liHead kids s).inList = true ∧ (liHead kids s).level = s.level + 1 ∧ (liHead kids s).ordered = s.ordered := by
  unfold liHead
  by_cases ht : (getDirectTextContent kids != []) = true
  · simp [ht, St.flatB, itemBlock, hin]
  · simp [ht, St.flatB, hin]

theorem listEnter_factsB (ord : Bool) (s : St) (h : s.ok) :
    (listEnter ord s).flatB = s.flatB ∧ (listEnter ord s).inList = true ∧
    (listEnter ord s).lcB = s.lcB.enter ord ∧ (listEnter ord s).ok := by
  have h1 : RefinesB s (if (s.level == 0) = true then flushList s else s) [] := by
    split
    · exact refinesB_flush s h
    · exact RefinesB.rfl' s h
  unfold listEnter
  generalize (if (s.level == 0) = true then flushList s else s) = s1 at h1
  have hf := h1.flat
  have hi := h1.inList
  have hl := h1.level
  have hok := h1.ok
  simp only [List.append_nil] at hf
  cases hin : s1.inList with
  | true =>
    refine ⟨?_, rfl, ?_, ?_⟩
    · simp [St.flatB, hin] at hf ⊢; exact hf
    · simp [St.lcB, LCB.enter, hin, ← hi, ← hl]
    · intro hc; cases hc
  | false =>
    have := hok hin
    refine ⟨?_, rfl, ?_, ?_⟩
    · simp [St.flatB, hin, this.1] at hf ⊢; exact hf
    · simp [St.lcB, LCB.enter, hin, ← hi]
    · intro hc; cases hc

theorem listExit_refinesB (ord : Bool) (s s3 : St) (bs : List Block) (h : s.ok)
    (hf : (listEnter ord s).flatB = s.flatB) (hin : (listEnter ord s).inList = true)
    (h2 : RefinesB (listEnter ord s) s3 bs) : RefinesB s (listExit s s3) bs := by
  have h3f := h2.flat
  have h3i := h2.inList
  rw [hf] at h3f
  rw [hin] at h3i
  unfold listExit
  cases hsi : s.inList with
  | true =>
    simp only [if_true]
    refine ⟨?_, ?_, rfl, fun _ => rfl, ?_⟩
    · simpa [St.flatB] using h3f
    · exact h3i.trans hsi.symm
    · intro hc
      have : s3.inList = false := hc
      rw [h3i] at this; cases this
  | false =>
    simp only [Bool.false_eq_true, if_false]
    have hs0 := h hsi
    refine ⟨?_, hsi.symm, rfl, fun _ => rfl, ?_⟩
    · by_cases hit : (s3.items != []) = true
      · simp only [hit, if_true]
        simp only [St.flatB, St.emit, List.map_nil, List.append_nil] at h3f ⊢
        rw [flattenB_append, flattenB_single]
        simpa [Element.blocks] using h3f
      · simp only [hit, if_false, Bool.false_eq_true]
        have : s3.items = [] := by simpa using hit
        simp only [St.flatB, this, List.map_nil, List.append_nil] at h3f ⊢
        exact h3f
    · intro _; exact ⟨rfl, hs0.2⟩

mutual
theorem trav_refinesB (p : Pos → Dom → Bool) (w : Bool) :
    ∀ (t : Dom) (pos : Pos) (s : St), s.ok → RefinesB s (trav p w pos t s) (blocks p w pos s.lcB t)
  | .text _, pos, s, h => by
      simp only [trav, blocks]; exact RefinesB.rfl' s h
  | .other kids, pos, s, h => by
      simp only [trav, blocks]; exact travL_refinesB p w kids _ s h
  | .elem tag attrs kids, pos, s, h => by
      unfold trav blocks
      by_cases hs : isSkip tag = true
      · simp only [hs, if_true]; exact RefinesB.rfl' s h
      · by_cases hp : p pos (.elem tag attrs kids) = true
        · simp only [hs, hp, if_true, if_false, Bool.false_eq_true]; exact RefinesB.rfl' s h
        · simp only [hs, hp, if_false, Bool.false_eq_true]
          cases hc : classify tag with
          | heading lvl =>
            simp only []
            split
            · exact refinesB_flush_emit s h _
            · exact refinesB_flush s h
          | pdiv isP =>
            simp only []
            have h1 : RefinesB s (if isP = true then flushList s else s) [] := by
              split
              · exact refinesB_flush s h
              · exact RefinesB.rfl' s h
            by_cases hcnd : (trim (getTextContent (.elem tag attrs kids)) != [] && !isBlockContainer kids) = true
            · simp only [hcnd, if_true]
              have := h1.trans (refinesB_flush_emit _ h1.ok (.para (trim (getTextContent (.elem tag attrs kids)))))
              simpa [Element.blocks] using this
            · simp only [hcnd, if_false, Bool.false_eq_true]
              have h2 := travM_refinesB p w kids (pos.kid w tag) [] _ h1.ok
              rw [h1.lc] at h2
              simpa using h1.trans h2
          | list ord =>
            simp only []
            have he := listEnter_factsB ord s h
            have h2 := travL_refinesB p w kids (pos.kid w tag) _ he.2.2.2
            rw [he.2.2.1] at h2
            exact listExit_refinesB ord s _ _ h he.1 he.2.1 h2
          | li =>
            simp only []
            by_cases hin : s.inList = true
            · simp only [hin, if_true]
              have hh := liHead_refinesB kids s hin
              have hok : (liHead kids s).ok := by intro hi; rw [hh.2.1] at hi; cases hi
              have h2 := travLi_refinesB p w kids (pos.kid w tag) _ hok
              have hfi : s.lcB.forItem = ⟨true, s.level, s.ordered⟩ := by
                simp [St.lcB, LCB.forItem, hin]
              have hlc : (liHead kids s).lcB = ⟨true, s.lcB.forItem.level + 1, s.lcB.forItem.ordered⟩ := by
                rw [hfi]; simp [St.lcB, hh.2.1, hh.2.2.1, hh.2.2.2]
              rw [hlc] at h2
              rw [hfi] at h2 ⊢
              refine ⟨?_, ?_, ?_, ?_, ?_⟩
              · show (liExit _).flatB = _
                have : ∀ x : St, (liExit x).flatB = x.flatB := fun x => rfl
                rw [this, h2.flat, hh.1, List.append_assoc]
              · show (liExit _).inList = _
                have : ∀ x : St, (liExit x).inList = x.inList := fun x => rfl
                rw [this, h2.inList, hh.2.1, hin]
              · show (liExit _).level = _
                have : ∀ x : St, (liExit x).level = x.level - 1 := fun x => rfl
                rw [this, h2.level, hh.2.2.1]; omega
              · intro _
                show (liExit _).ordered = _
                have : ∀ x : St, (liExit x).ordered = x.ordered := fun x => rfl
                rw [this, h2.ordered hh.2.1, hh.2.2.2]
              · intro hi
                have : ∀ x : St, (liExit x).inList = x.inList := fun x => rfl
                rw [this, h2.inList, hh.2.1] at hi; cases hi
            · have hin' : s.inList = false := by simpa using hin
              simp only [hin', Bool.false_eq_true, if_false]
              have hs0 := h hin'
              have hin0 : (strayEnter s).inList = true := rfl
              have hh := liHead_refinesB kids (strayEnter s) hin0
              have hok : (liHead kids (strayEnter s)).ok := by intro hi; rw [hh.2.1] at hi; cases hi
              have h2 := travLi_refinesB p w kids (pos.kid w tag) _ hok
              have hfi : s.lcB.forItem = ⟨true, 0, false⟩ := by
                simp [St.lcB, LCB.forItem, hin']
              have hlvl0 : (strayEnter s).level = 0 := rfl
              have hord0 : (strayEnter s).ordered = false := rfl
              have hlc : (liHead kids (strayEnter s)).lcB = ⟨true, s.lcB.forItem.level + 1, s.lcB.forItem.ordered⟩ := by
                rw [hfi]; simp [St.lcB, hh.2.1, hh.2.2.1, hh.2.2.2, hlvl0, hord0]
              rw [hlc] at h2
              rw [hfi] at h2 ⊢
              have hflat0 : (strayEnter s).flatB = s.flatB := by simp [strayEnter, St.flatB, hs0.1]
              rw [hlvl0, hord0] at hh
              have hx_in : (liExit (travLi p w (pos.kid w tag) kids (liHead kids (strayEnter s)))).inList = true := by
                show (travLi p w (pos.kid w tag) kids (liHead kids (strayEnter s))).inList = true
                rw [h2.inList, hh.2.1]
              have hx_ok : (liExit (travLi p w (pos.kid w tag) kids (liHead kids (strayEnter s)))).ok := by
                intro hi; rw [hx_in] at hi; cases hi
              refine ⟨?_, ?_, ?_, ?_, ?_⟩
              · have e1 : ∀ x : St, x.ok → (strayExit x).flatB = x.flatB := by
                  intro x hx
                  have := flushList_flatB x
                  have hi := flushList_items x hx
                  simp only [strayExit, St.flatB] at this ⊢
                  rw [hi] at this
                  simpa using this
                rw [e1 _ hx_ok]
                show (travLi p w (pos.kid w tag) kids (liHead kids (strayEnter s))).flatB = _
                rw [h2.flat, hh.1, hflat0, List.append_assoc]
              · show false = s.inList
                exact hin'.symm
              · show (flushList (liExit (travLi p w (pos.kid w tag) kids (liHead kids (strayEnter s))))).level = s.level
                rw [flushList_level]
                show (travLi p w (pos.kid w tag) kids (liHead kids (strayEnter s))).level - 1 = s.level
                rw [h2.level, hh.2.2.1, hs0.2]
              · intro hi; rw [hin'] at hi; cases hi
              · intro _
                refine ⟨rfl, ?_⟩
                show (flushList (liExit (travLi p w (pos.kid w tag) kids (liHead kids (strayEnter s))))).level = 0
                rw [flushList_level]
                show (travLi p w (pos.kid w tag) kids (liHead kids (strayEnter s))).level - 1 = 0
                rw [h2.level, hh.2.2.1]
          | table =>
            simp only []
            by_cases hr : ((parseTable kids).1 != []) = true
            · simp only [hr, if_true]
              have := refinesB_flush_emit s h (.table (parseTable kids).2 (parseTable kids).1)
              simpa [Element.blocks] using this
            · simp only [hr, if_false, Bool.false_eq_true]
              exact refinesB_flush s h
          | code =>
            simp only []
            split
            · have := refinesB_flush_emit s h (.code (getTextContent (.elem tag attrs kids)))
              simpa [Element.blocks] using this
            · exact RefinesB.rfl' s h
          | quote =>
            simp only []
            split
            · have := refinesB_flush_emit s h (.quote (trim (getTextContent (.elem tag attrs kids))))
              simpa [Element.blocks] using this
            · exact RefinesB.rfl' s h
          | void => simp only []; exact RefinesB.rfl' s h
          | other => simp only []; exact travL_refinesB p w kids _ s h
theorem travL_refinesB (p : Pos → Dom → Bool) (w : Bool) :
    ∀ (ts : List Dom) (kp : Pos) (s : St), s.ok → RefinesB s (travL p w kp ts s) (blocksL p w kp s.lcB ts)
  | [], kp, s, h => by simp only [travL, blocksL]; exact RefinesB.rfl' s h
  | k :: ks, kp, s, h => by
      simp only [travL, blocksL]
      have h1 := trav_refinesB p w k kp s h
      have h2 := travL_refinesB p w ks kp _ h1.ok
      rw [h1.lc] at h2
      exact h1.trans h2
theorem travLi_refinesB (p : Pos → Dom → Bool) (w : Bool) :
    ∀ (ts : List Dom) (kp : Pos) (s : St), s.ok → RefinesB s (travLi p w kp ts s) (blocksLi p w kp s.lcB ts)
  | [], kp, s, h => by simp only [travLi, blocksLi]; exact RefinesB.rfl' s h
  | k :: ks, kp, s, h => by
      simp only [travLi, blocksLi]
      by_cases hk : isListElem k = true
      · simp only [hk, if_true]
        have h1 := trav_refinesB p w k kp s h
        have h2 := travLi_refinesB p w ks kp _ h1.ok
        rw [h1.lc] at h2
        exact h1.trans h2
      · simp only [hk, if_false, Bool.false_eq_true, List.nil_append]
        exact travLi_refinesB p w ks kp s h
theorem travM_refinesB (p : Pos → Dom → Bool) (w : Bool) :
    ∀ (ts : List Dom) (kp : Pos) (run : Str) (s : St), s.ok →
      RefinesB s (travM p w kp ts run s) (blocksM p w kp s.lcB ts run)
  | [], kp, run, s, h => by simp only [travM, blocksM]; exact emitRun_refinesB run s h
  | k :: ks, kp, run, s, h => by
      simp only [travM, blocksM]
      by_cases hk : isInline k = true
      · simp only [hk, if_true]
        exact travM_refinesB p w ks kp _ s h
      · simp only [hk, if_false, Bool.false_eq_true]
        have h0 := emitRun_refinesB run s h
        have h1 := trav_refinesB p w k kp _ h0.ok
        rw [h0.lc] at h1
        have h2 := travM_refinesB p w ks kp [] _ h1.ok
        rw [h1.lc, h0.lc] at h2
        exact (h0.trans h1).trans h2
end

/-- the element list of a document, with tables whole and item kinds kept, is `blocksOf` -/
theorem extract_blocks (p : Pos → Dom → Bool) (body : Dom) :
    flattenB (extractWith p body) = blocksOf p body := by
  unfold extractWith blocksOf
  have h0 : ({} : St).ok := fun _ => ⟨rfl, rfl⟩
  have h := trav_refinesB p (hasWrapper body) body .root {} h0
  have hf := flushList_flatB (trav p (hasWrapper body) .root body {})
  have hi := flushList_items _ h.ok
  have e : (flushList (trav p (hasWrapper body) .root body {})).flatB =
      flattenB (flushList (trav p (hasWrapper body) .root body {})).out := by
    simp [St.flatB, hi]
  rw [← e, hf, h.flat]
  simp [St.flatB, St.lcB, flattenB]

/-! ### `atoms` is `blocks` with tables opened and item kinds forgotten -/

def LCB.toLC (lc : LCB) : LC := ⟨lc.inList, lc.level⟩

theorem LCB.toLC_enter (lc : LCB) (ord : Bool) : (lc.enter ord).toLC = lc.toLC.enter := by
  cases h : lc.inList <;> simp [LCB.enter, LCB.toLC, LC.enter, h]

theorem LCB.forItem_level (lc : LCB) : lc.forItem.level = lc.toLC.enter.level := by
  cases h : lc.inList <;> simp [LCB.forItem, LCB.toLC, LC.enter, h]

theorem runBlocks_atoms (run : Str) : (runBlocks run).flatMap Block.atoms = runAtoms run := by
  unfold runBlocks runAtoms
  split <;> simp [Block.atoms]

mutual
theorem blocks_atoms (p : Pos → Dom → Bool) (w : Bool) :
    ∀ (t : Dom) (pos : Pos) (lc : LCB),
      (blocks p w pos lc t).flatMap Block.atoms = atoms p w pos lc.toLC t
  | .text _, pos, lc => by simp [blocks, atoms]
  | .other kids, pos, lc => by
      simp only [blocks, atoms]; exact blocksL_atoms p w kids _ lc
  | .elem tag attrs kids, pos, lc => by
      unfold blocks atoms
      by_cases hs : isSkip tag = true
      · simp [hs]
      · by_cases hp : p pos (.elem tag attrs kids) = true
        · simp [hs, hp]
        · simp only [hs, hp, if_false, Bool.false_eq_true]
          cases hc : classify tag with
          | heading lvl => simp only []; split <;> simp [Block.atoms]
          | pdiv isP =>
            simp only []
            split
            · simp [Block.atoms]
            · exact blocksM_atoms p w kids _ lc []
          | list ord =>
            simp only []
            rw [blocksL_atoms p w kids _ _, LCB.toLC_enter]
          | li =>
            simp only []
            rw [List.flatMap_append, blocksLi_atoms p w kids _ _, LCB.forItem_level]
            congr 1
            split <;> simp [Block.atoms, LCB.forItem_level]
          | table =>
            simp only []
            by_cases hr : ((parseTable kids).1 != []) = true
            · simp [hr, Block.atoms]
            · have he : (parseTable kids).1 = [] := by simpa using hr
              simp [he]
          | code => simp only []; split <;> simp [Block.atoms]
          | quote => simp only []; split <;> simp [Block.atoms]
          | void => simp
          | other => simp only []; exact blocksL_atoms p w kids _ lc
theorem blocksL_atoms (p : Pos → Dom → Bool) (w : Bool) :
    ∀ (ts : List Dom) (kp : Pos) (lc : LCB),
      (blocksL p w kp lc ts).flatMap Block.atoms = atomsL p w kp lc.toLC ts
  | [], kp, lc => by simp [blocksL, atomsL]
  | k :: ks, kp, lc => by
      simp only [blocksL, atomsL, List.flatMap_append, blocks_atoms p w k kp lc, blocksL_atoms p w ks kp lc]
theorem blocksLi_atoms (p : Pos → Dom → Bool) (w : Bool) :
    ∀ (ts : List Dom) (kp : Pos) (lc : LCB),
      (blocksLi p w kp lc ts).flatMap Block.atoms = atomsLi p w kp lc.toLC ts
  | [], kp, lc => by simp [blocksLi, atomsLi]
  | k :: ks, kp, lc => by
      simp only [blocksLi, atomsLi, List.flatMap_append, blocksLi_atoms p w ks kp lc]
      congr 1
      split
      · exact blocks_atoms p w k kp lc
      · rfl
theorem blocksM_atoms (p : Pos → Dom → Bool) (w : Bool) :
    ∀ (ts : List Dom) (kp : Pos) (lc : LCB) (run : Str),
      (blocksM p w kp lc ts run).flatMap Block.atoms = atomsM p w kp lc.toLC ts run
  | [], kp, lc, run => by simp only [blocksM, atomsM]; exact runBlocks_atoms run
  | k :: ks, kp, lc, run => by
      simp only [blocksM, atomsM]
      split
      · exact blocksM_atoms p w ks kp lc _
      · rw [List.flatMap_append, List.flatMap_append, runBlocks_atoms, blocks_atoms p w k kp lc,
          blocksM_atoms p w ks kp lc []]
end

end Tabula.Html
