import TabulaModel.Lemmas.ChunkLayoutFull
/-!
Helper lemmas for property C12, layout-based chunker: indices, ids, total and the metadata of
every chunk. Every chunk `chunkSection` produces for a section — whole, split by paragraphs,
split by sentences, merged with an orphan, atomic list block — carries the section's path and
page range, the next free index and the id made from it.
-/
namespace Tabula.ChunkLayout
open Tabula.Chunk

def layoutId (cfg : Cfg) (i : Nat) : Str := cfg.idPrefix ++ [95] ++ Tabula.A1.dec i

/-- what `createChunk` stamps on a chunk of the section `info` -/
def MetaOK (cfg : Cfg) (info : SecInfo) (c : Chunk) : Prop :=
  c.id = layoutId cfg c.idx ∧ c.path = info.path ∧ c.pageStart = info.pageStart ∧ c.pageEnd = info.pageEnd

/-- the loop state is consistent: indices run from `i0`, `chunkIndex` is the next free one -/
structure LSOK (cfg : Cfg) (info : SecInfo) (i0 : Nat) (s : LS) : Prop where
  seq : Chunk.Seq i0 s.chunks
  next : s.idx = i0 + s.chunks.length
  stamped : ∀ c ∈ s.chunks, MetaOK cfg info c

theorem LSOK.push {cfg : Cfg} {info : SecInfo} {i0 : Nat} {s : LS} (h : LSOK cfg info i0 s) (t cur : Str) :
    LSOK cfg info i0 ⟨s.chunks ++ [createChunk cfg info t s.idx], cur, s.idx + 1⟩ where
  seq := by
    refine Seq_append h.seq ?_
    unfold Chunk.Seq
    simp only [List.map_cons, List.map_nil, List.length_cons, List.length_nil, createChunk, h.next]
    rfl
  next := by simp only [List.length_append, List.length_cons, List.length_nil, h.next]; omega
  stamped := by
    intro c hc
    rcases List.mem_append.mp hc with hc | hc
    · exact h.stamped c hc
    · simp only [List.mem_singleton] at hc
      subst hc
      exact ⟨rfl, rfl, rfl, rfl⟩

theorem LSOK.setCur {cfg : Cfg} {info : SecInfo} {i0 : Nat} {s : LS} (h : LSOK cfg info i0 s) (cur : Str) :
    LSOK cfg info i0 { s with cur := cur } := ⟨h.seq, h.next, h.stamped⟩

theorem setLastText_length (cs : List Chunk) (t : Str) : (setLastText cs t).length = cs.length := by
  induction cs with
  | nil => rfl
  | cons c cs ih =>
    cases cs with
    | nil => rfl
    | cons c2 cs => simp only [setLastText, List.length_cons] at ih ⊢; rw [ih]

theorem setLastText_idx (cs : List Chunk) (t : Str) : (setLastText cs t).map (·.idx) = cs.map (·.idx) := by
  induction cs with
  | nil => rfl
  | cons c cs ih =>
    cases cs with
    | nil => rfl
    | cons c2 cs => simp only [setLastText, List.map_cons] at ih ⊢; rw [ih]

theorem setLastText_mem (cs : List Chunk) (t : Str) :
    ∀ c' ∈ setLastText cs t, ∃ c ∈ cs, ∃ t', c' = { c with text := t' } := by
  induction cs with
  | nil => intro c' hc; cases hc
  | cons c cs ih =>
    cases cs with
    | nil =>
      intro c' hc
      simp only [setLastText, List.mem_singleton] at hc
      exact ⟨c, List.mem_cons_self .., t, hc⟩
    | cons c2 cs =>
      intro c' hc
      simp only [setLastText, List.mem_cons] at hc
      rcases hc with rfl | hc
      · exact ⟨c', List.mem_cons_self .., c'.text, rfl⟩
      · obtain ⟨c0, h0, t', e⟩ := ih c' (by simpa [setLastText] using hc)
        exact ⟨c0, List.mem_cons_of_mem _ h0, t', e⟩

theorem LSOK.merge {cfg : Cfg} {info : SecInfo} {i0 : Nat} {s : LS} (h : LSOK cfg info i0 s) (t cur : Str) :
    LSOK cfg info i0 ⟨setLastText s.chunks t, cur, s.idx⟩ where
  seq := by
    have := h.seq
    unfold Chunk.Seq at *
    simp only [setLastText_idx, setLastText_length, this]
  next := by simp only [setLastText_length, h.next]
  stamped := by
    intro c' hc
    obtain ⟨c, hc0, t', rfl⟩ := setLastText_mem _ _ c' hc
    exact h.stamped c hc0

variable {cfg : Cfg} {info : SecInfo} {i0 : Nat}

theorem LSOK_ite (c : Prop) [Decidable c] {a b : LS} (ha : LSOK cfg info i0 a) (hb : LSOK cfg info i0 b) :
    LSOK cfg info i0 (if c then a else b) := by
  split <;> assumption

theorem sentEmit_ok (t : Str) {s : LS} (h : LSOK cfg info i0 s) : LSOK cfg info i0 (sentEmit cfg info t s) := by
  unfold sentEmit
  exact LSOK_ite _ (h.push _ _) h

theorem sentAdd_ok (t : Str) {s : LS} (h : LSOK cfg info i0 s) : LSOK cfg info i0 (sentAdd t s) :=
  h.setCur _

theorem sentLoop_ok (ts : List Str) {s : LS} (h : LSOK cfg info i0 s) :
    LSOK cfg info i0 (sentLoop cfg info ts s) := by
  induction ts generalizing s with
  | nil =>
    simp only [sentLoop]
    split
    · exact h
    · exact h.push _ _
  | cons t ts ih => exact ih (sentAdd_ok t (sentEmit_ok t h))

theorem splitBySentences_ok (sents : List Str) {s : LS} (h : LSOK cfg info i0 s) :
    LSOK cfg info i0 (splitBySentences cfg info sents s) := by
  have := sentLoop_ok sents (h.setCur [])
  exact ⟨this.seq, this.next, this.stamped⟩

theorem flushChunk_ok {s : LS} (h : LSOK cfg info i0 s) : LSOK cfg info i0 (flushChunk cfg info s) := by
  unfold flushChunk
  split
  · exact h
  · split
    · split
      · exact h.merge _ _
      · exact h.push _ _
    · exact h.push _ _

theorem flushIfPending_ok {s : LS} (h : LSOK cfg info i0 s) : LSOK cfg info i0 (flushIfPending cfg info s) := by
  unfold flushIfPending
  split
  · exact h
  · exact flushChunk_ok h

theorem flushIfOver_ok (added : Int) {s : LS} (h : LSOK cfg info i0 s) :
    LSOK cfg info i0 (flushIfOver cfg info added s) := by
  unfold flushIfOver
  split
  · exact flushChunk_ok h
  · exact h

theorem atomicOversize_ok (es : List CE) {s : LS} (h : LSOK cfg info i0 s) :
    LSOK cfg info i0 (atomicOversize cfg info es s) := by
  induction es generalizing s with
  | nil => exact h
  | cons e es ih =>
    simp only [atomicOversize]
    split
    · exact ih (splitBySentences_ok _ h)
    · exact ih (h.setCur _)

theorem atomicBlock_ok (es : List CE) {s : LS} (h : LSOK cfg info i0 s) :
    LSOK cfg info i0 (atomicBlock cfg info es s) := by
  simp only [atomicBlock]
  split
  · exact atomicOversize_ok es (flushIfPending_ok h)
  · exact (flushIfPending_ok h).push _ _

theorem plainElem_ok (e : CE) {s : LS} (h : LSOK cfg info i0 s) : LSOK cfg info i0 (plainElem cfg info e s) := by
  simp only [plainElem]
  split
  · exact splitBySentences_ok _ (flushIfPending_ok (flushIfOver_ok _ h))
  · exact (flushIfOver_ok _ h).setCur _

theorem paraLoop_ok (es : List CE) {s : LS} (h : LSOK cfg info i0 s) :
    LSOK cfg info i0 (paraLoop cfg info es s) := by
  fun_induction paraLoop cfg info es s with
  | case1 s => exact h
  | case2 e s _ => exact atomicBlock_ok _ h
  | case3 e s _ => exact plainElem_ok e h
  | case4 e n rest s _ ih => exact ih (atomicBlock_ok _ h)
  | case5 e n rest s _ _ _ ih => exact ih (atomicBlock_ok _ h)
  | case6 e n rest s _ _ _ s1 ih => exact ih ((flushIfOver_ok _ h).setCur _)
  | case7 e n rest s _ _ ih => exact ih (plainElem_ok e h)

/-- the chunks of one section: indices from `idx` on, each stamped with the section's metadata -/
def SecChunksOK (cfg : Cfg) (info : SecInfo) (idx : Nat) (cs : List Chunk) : Prop :=
  Chunk.Seq idx cs ∧ ∀ c ∈ cs, MetaOK cfg info c

theorem splitSection_ok (cfg : Cfg) (info : SecInfo) (content : List CE) (idx : Nat) :
    SecChunksOK cfg info idx (splitSectionByParagraphs cfg info content idx) := by
  have h0 : LSOK cfg info idx ⟨[], [], idx⟩ := ⟨Seq_nil idx, rfl, fun c hc => by cases hc⟩
  have := flushChunk_ok (paraLoop_ok content h0)
  exact ⟨this.seq, this.stamped⟩

theorem chunkSection_ok (cfg : Cfg) (info : SecInfo) (content : List CE) (idx : Nat) :
    SecChunksOK cfg info idx (chunkSection cfg info content idx) := by
  simp only [chunkSection]
  split
  · exact ⟨Seq_nil idx, fun c hc => by cases hc⟩
  · split
    · refine ⟨rfl, ?_⟩
      intro c hc
      simp only [List.mem_singleton] at hc
      subst hc
      exact ⟨rfl, rfl, rfl, rfl⟩
    · exact splitSection_ok cfg info content idx

/-! ### one group of chunks per section -/

/-- the chunks of `Chunk`, section by section (pre-order of the section tree) -/
def secGroups (cfg : Cfg) : List (SecInfo × List CE) → Nat → List (List Chunk)
  | [], _ => []
  | (info, content) :: rest, idx =>
    let own := chunkSection cfg info content idx
    own :: secGroups cfg rest (idx + own.length)

theorem chunkFlat_groups (cfg : Cfg) (l : List (SecInfo × List CE)) (idx : Nat) :
    chunkFlat cfg l idx = (secGroups cfg l idx).flatten := by
  induction l generalizing idx with
  | nil => rfl
  | cons x xs ih =>
    obtain ⟨info, content⟩ := x
    simp only [chunkFlat, secGroups, List.flatten_cons, ih]

theorem secGroups_length (cfg : Cfg) (l : List (SecInfo × List CE)) (idx : Nat) :
    (secGroups cfg l idx).length = l.length := by
  induction l generalizing idx with
  | nil => rfl
  | cons x xs ih =>
    obtain ⟨info, content⟩ := x
    simp only [secGroups, List.length_cons, ih]

theorem chunkFlat_seq (cfg : Cfg) (l : List (SecInfo × List CE)) (idx : Nat) :
    Chunk.Seq idx (chunkFlat cfg l idx) ∧ ∀ c ∈ chunkFlat cfg l idx, c.id = layoutId cfg c.idx := by
  induction l generalizing idx with
  | nil => exact ⟨Seq_nil idx, fun c hc => by cases hc⟩
  | cons x xs ih =>
    obtain ⟨info, content⟩ := x
    obtain ⟨s1, m1⟩ := chunkSection_ok cfg info content idx
    obtain ⟨s2, m2⟩ := ih (idx + (chunkSection cfg info content idx).length)
    simp only [chunkFlat]
    refine ⟨Seq_append s1 s2, ?_⟩
    intro c hc
    rcases List.mem_append.mp hc with hc | hc
    · exact (m1 c hc).1
    · exact m2 c hc

theorem layoutId_injective (cfg : Cfg) {a b : Nat} (h : layoutId cfg a = layoutId cfg b) : a = b := by
  unfold layoutId at h
  exact dec_injective (List.append_cancel_left h)

/-- `chunk` before the total is stamped -/
def chunkRaw (cfg : Cfg) (title : Str) (d : LDoc) : List Chunk :=
  let cs := chunkForest cfg (buildSections cfg d) 0
  if cs.isEmpty then chunkByParagraphs cfg title d else cs

theorem chunk_eq_raw (cfg : Cfg) (title : Str) (d : LDoc) : chunk cfg title d = setTotal (chunkRaw cfg title d) := rfl

theorem chunkRaw_seq (cfg : Cfg) (title : Str) (d : LDoc) :
    Chunk.Seq 0 (chunkRaw cfg title d) ∧ ∀ c ∈ chunkRaw cfg title d, c.id = layoutId cfg c.idx := by
  unfold chunkRaw
  simp only
  split
  · rcases chunkByParagraphs_eq cfg title d with h0 | ⟨info, h1⟩
    · rw [h0]; exact ⟨Seq_nil 0, fun c hc => by cases hc⟩
    · rw [h1]
      obtain ⟨s, m⟩ := splitSection_ok cfg info (fallbackContent d) 0
      exact ⟨s, fun c hc => (m c hc).1⟩
  · rw [chunkForest_flat]; exact chunkFlat_seq cfg _ 0

end Tabula.ChunkLayout
