import TabulaModel.Model.PackageApi
import TabulaModel.Lemmas.Package
/-!
Helper lemmas for the reader-API model of C18: the selection loop as a `filterMap`,
`joinWith` (write a separator before every element but the first) split at an element,
the skip loops of the EPUB views, call histories.
-/
namespace Tabula.PackageApi
open Tabula.Package

/-! ### selection -/

/-- what one selection index contributes -/
def pick {α : Type} (all : List α) (i : Int) : Option α :=
  if 0 ≤ i ∧ i < all.length then all[i.toNat]? else none

theorem selectLoop_eq_filterMap {α : Type} (all : List α) (sel : List Int) :
    selectLoop all sel = sel.filterMap (pick all) := by
  induction sel with
  | nil => rfl
  | cons i rest ih =>
    simp only [selectLoop, List.filterMap_cons, pick]
    split
    · cases all[i.toNat]? with
      | none => simpa using ih
      | some v => simpa using ih
    · simpa using ih

theorem pick_mem {α : Type} {all : List α} {i : Int} {v : α} (h : pick all i = some v) : v ∈ all := by
  unfold pick at h
  split at h
  · exact List.mem_of_getElem? h
  · cases h

/-- an index inside the range picks the element at that position -/
theorem pick_ofNat {α : Type} (all : List α) (k : Nat) (h : k < all.length) :
    pick all (k : Int) = some all[k] := by
  unfold pick
  have h1 : (0 : Int) ≤ (k : Int) ∧ (k : Int) < (all.length : Int) := ⟨by omega, by omega⟩
  simp only [h1, and_self, if_true, Int.toNat_natCast]
  exact List.getElem?_eq_getElem h

theorem pick_neg {α : Type} (all : List α) (i : Int) (h : i < 0) : pick all i = none := by
  unfold pick
  have : ¬ (0 ≤ i ∧ i < (all.length : Int)) := by omega
  simp only [this, if_false]

theorem pick_big {α : Type} (all : List α) (i : Int) (h : (all.length : Int) ≤ i) : pick all i = none := by
  unfold pick
  have : ¬ (0 ≤ i ∧ i < (all.length : Int)) := by omega
  simp only [this, if_false]

/-! ### joinWith -/

theorem joinWith_cons (sep v : Str) (l : List Str) :
    joinWith sep (v :: l) = if l = [] then v else v ++ sep ++ joinWith sep l := by
  cases l with
  | nil => rfl
  | cons w rest => simp [joinWith]

/-- the text of one element stands between the joined text of the elements before it
and the joined text of the elements after it -/
theorem joinWith_split (sep : Str) (l1 : List Str) (v : Str) (l2 : List Str) :
    joinWith sep (l1 ++ v :: l2) =
      (if l1 = [] then [] else joinWith sep l1 ++ sep) ++ v ++
      (if l2 = [] then [] else sep ++ joinWith sep l2) := by
  induction l1 with
  | nil =>
    simp only [List.nil_append, if_true, joinWith_cons]
    split <;> simp
  | cons w rest ih =>
    have hne : rest ++ v :: l2 ≠ [] := by simp
    rw [List.cons_append, joinWith_cons, if_neg hne, ih]
    simp only [reduceCtorEq, if_false, joinWith_cons]
    by_cases hr : rest = []
    · subst hr
      simp
    · simp [hr, List.append_assoc]

theorem joinWith_map_congr {α : Type} (sep : Str) (f g : α → Str) (l : List α)
    (h : ∀ a ∈ l, f a = g a) : joinWith sep (l.map f) = joinWith sep (l.map g) := by
  rw [List.map_congr_left h]

/-! ### the skip loop with the part's own path -/

theorem loopIdx_pptxPartN_forget (look : Str → Option Nat) (x : Docs) (i : Nat) (l : List Str) :
    (loopIdx (pptxPartN look x) i l).map (fun p => (p.1, p.2.1)) = loopIdx (pptxPart look x) i l := by
  induction l generalizing i with
  | nil => rfl
  | cons p rest ih =>
    simp only [loopIdx, pptxPartN]
    cases h : pptxPart look x i p with
    | none => simpa using ih (i + 1)
    | some v =>
      obtain ⟨j, c⟩ := v
      simp [ih (i + 1)]

theorem loopIdx_pptxPartN_nil (look : Str → Option Nat) (x : Docs) (i : Nat) (l : List Str) :
    loopIdx (pptxPartN look x) i l = [] ↔ loopIdx (pptxPart look x) i l = [] := by
  rw [← loopIdx_pptxPartN_forget]
  simp

/-! ### EPUB views -/

theorem keepTexts_eq_filterMap (view : Nat → Option Str) (r : EReader) :
    keepTexts view r = r.filterMap (fun c => match view c.cid with
      | none => none
      | some t => if t = [] then none else some t) := by
  induction r with
  | nil => rfl
  | cons c rest ih =>
    simp only [keepTexts, List.filterMap_cons]
    cases view c.cid with
    | none => simpa using ih
    | some t =>
      by_cases ht : t = []
      · simp [ht, ih]
      · simp [ht, ih]

/-- every page of the EPUB document stems from the chapter at position `Number - 1`
of the loaded chapter list -/
theorem epubDocLoop_page (h : HtmlViews) (i : Nat) (r : EReader) (pg : EPage)
    (hm : pg ∈ epubDocLoop h i r) :
    ∃ k c, r[k]? = some c ∧ pg.number = i + k + 1 ∧ pg.cid = c.cid := by
  induction r generalizing i with
  | nil => simp [epubDocLoop] at hm
  | cons c rest ih =>
    simp only [epubDocLoop] at hm
    cases hp : h.pages c.cid with
    | none =>
      rw [hp] at hm
      obtain ⟨k, c', hk, hn, hc⟩ := ih (i + 1) hm
      exact ⟨k + 1, c', by simpa using hk, by omega, hc⟩
    | some n =>
      rw [hp] at hm
      rcases List.mem_append.mp hm with hm | hm
      · have := List.eq_of_mem_replicate hm
        subst this
        exact ⟨0, c, by simp, by simp, rfl⟩
      · obtain ⟨k, c', hk, hn, hc⟩ := ih (i + 1) hm
        exact ⟨k + 1, c', by simpa using hk, by omega, hc⟩

/-- the page numbers never decrease -/
theorem epubDocLoop_sorted (h : HtmlViews) (i : Nat) (r : EReader) :
    (epubDocLoop h i r).Pairwise (fun p q => p.number ≤ q.number) ∧
      ∀ p ∈ epubDocLoop h i r, i + 1 ≤ p.number := by
  induction r generalizing i with
  | nil => simp [epubDocLoop]
  | cons c rest ih =>
    obtain ⟨ihs, ihb⟩ := ih (i + 1)
    simp only [epubDocLoop]
    cases h.pages c.cid with
    | none =>
      exact ⟨ihs, fun p hp => by have := ihb p hp; omega⟩
    | some n =>
      refine ⟨?_, ?_⟩
      · rw [List.pairwise_append]
        refine ⟨?_, ihs, ?_⟩
        · rw [List.pairwise_replicate]
          exact Or.inr (Nat.le_refl _)
        · intro p hp q hq
          have := List.eq_of_mem_replicate hp
          subst this
          have := ihb q hq
          simp only
          omega
      · intro p hp
        rcases List.mem_append.mp hp with hp | hp
        · have := List.eq_of_mem_replicate hp
          subst this
          simp
        · have := ihb p hp
          omega

/-- the skip loop over two lists of the same length whose entries yield the same result
position by position -/
theorem loopIdx_pointwise {α α' β : Type} (f : Nat → α → Option β) (g : Nat → α' → Option β)
    (l : List α) (l' : List α') (i : Nat) (hl : l.length = l'.length)
    (h : ∀ (k : Nat) (e : α) (e' : α'), l[k]? = some e → l'[k]? = some e' → f (i + k) e = g (i + k) e') :
    loopIdx f i l = loopIdx g i l' := by
  induction l generalizing l' i with
  | nil =>
    cases l' with
    | nil => rfl
    | cons _ _ => simp at hl
  | cons e rest ih =>
    cases l' with
    | nil => simp at hl
    | cons e' rest' =>
      have h0 : f i e = g i e' := by simpa using h 0 e e' (by simp) (by simp)
      have hrest : loopIdx f (i + 1) rest = loopIdx g (i + 1) rest' := by
        apply ih rest' (i + 1) (by simpa using hl)
        intro k a b ha hb
        have := h (k + 1) a b (by simpa using ha) (by simpa using hb)
        simpa [Nat.add_assoc, Nat.add_comm 1 k] using this
      simp only [loopIdx, h0, hrest]

/-! ### call histories -/

theorem xlsxStep_state (r : XReader) (c : XCall) : (xlsxStep r c).2 = r := by
  cases c <;> rfl

theorem xlsxRun_spec (r : XReader) (cs : List XCall) :
    xlsxRun r cs = (cs.map fun c => (xlsxStep r c).1, r) := by
  induction cs with
  | nil => rfl
  | cons c rest ih =>
    have hs := xlsxStep_state r c
    simp only [xlsxRun, List.map_cons]
    rw [show xlsxStep r c = ((xlsxStep r c).1, r) from Prod.ext rfl hs]
    simp only [ih]

theorem pptxStep_state (r : PReader) (c : PCall) : (pptxStep r c).2 = r := by
  cases c <;> rfl

theorem pptxRun_spec (r : PReader) (cs : List PCall) :
    pptxRun r cs = (cs.map fun c => (pptxStep r c).1, r) := by
  induction cs with
  | nil => rfl
  | cons c rest ih =>
    have hs := pptxStep_state r c
    simp only [pptxRun, List.map_cons]
    rw [show pptxStep r c = ((pptxStep r c).1, r) from Prod.ext rfl hs]
    simp only [ih]

theorem epubStep_state (h : HtmlViews) (r : EReader) (c : ECall) : (epubStep h r c).2 = r := by
  cases c <;> rfl

theorem epubRun_spec (h : HtmlViews) (r : EReader) (cs : List ECall) :
    epubRun h r cs = (cs.map fun c => (epubStep h r c).1, r) := by
  induction cs with
  | nil => rfl
  | cons c rest ih =>
    have hs := epubStep_state h r c
    simp only [epubRun, List.map_cons]
    rw [show epubStep h r c = ((epubStep h r c).1, r) from Prod.ext rfl hs]
    simp only [ih]

end Tabula.PackageApi
