import TabulaModel.Lemmas.Builder
/-!
Helper lemmas for the history theorems of C10 (`Props/C10Hist.lean`):

* `owners` / `FdInv`: at every point of a history the number of open readers is the number
  of extractors that own one (plus the readers the caller lent);
* `FamInv`: what is true of every extractor of a family grown from `Open(f)` or
  `FromReader(r)` and makes the result of an operation a function of the extractor's
  configuration alone (`termStatic`, `nonTermStatic`);
* `lineage` / `LinInv`: the configuration of every extractor is the chain of calls that
  built it.
-/
namespace Tabula.Builder
open Tabula.PageSel

/-! ### list helpers -/

theorem countP_set {α : Type} (p : α → Bool) (l : List α) (i : Nat) (a b : α)
    (h : l[i]? = some a) :
    (l.set i b).countP p + (if p a then 1 else 0) = l.countP p + (if p b then 1 else 0) := by
  induction l generalizing i with
  | nil => simp at h
  | cons x xs ih =>
    cases i with
    | zero =>
      simp only [List.getElem?_cons_zero, Option.some.injEq] at h
      subst h
      simp only [List.set_cons_zero, List.countP_cons]
      omega
    | succ k =>
      simp only [List.getElem?_cons_succ] at h
      have := ih k h
      simp only [List.set_cons_succ, List.countP_cons]
      omega

theorem map_set_same {α β : Type} (f : α → β) (l : List α) (i : Nat) (a b : α)
    (h : l[i]? = some b) (hf : f a = f b) : (l.set i a).map f = l.map f := by
  induction l generalizing i with
  | nil => rfl
  | cons x xs ih =>
    cases i with
    | zero =>
      simp only [List.getElem?_cons_zero, Option.some.injEq] at h
      subst h
      simp [hf]
    | succ k =>
      simp only [List.getElem?_cons_succ] at h
      simp [ih k h]

/-! ### what the life cycle never touches -/

/-- the configuration of an extractor: options, builder error, format, file name present -/
def Ext.static (e : Ext) : Options × Bool × Fmt × Bool := (e.opts, e.err, e.format, e.hasFile)

theorem closeExt_static (s : Store) (i : Nat) (e : Ext) (he : s.exts[i]? = some e) :
    (closeExt s i e).exts.map Ext.static = s.exts.map Ext.static := by
  unfold closeExt
  split
  · split
    · exact map_set_same _ _ _ _ _ he rfl
    · rfl
  · rfl

theorem openNew_static (s : Store) (i : Nat) (e : Ext) (he : s.exts[i]? = some e) :
    (openNew s i e).1.exts.map Ext.static = s.exts.map Ext.static := by
  simp only [openNew]
  exact map_set_same _ _ _ _ _ he rfl

theorem termStore_static (w : World) (s : Store) (i : Nat) (e : Ext) (he : s.exts[i]? = some e) :
    (termStore w s i e).exts.map Ext.static = s.exts.map Ext.static := by
  rcases termStore_cases w s i e with ⟨_, hr⟩ | ⟨_, _, hr⟩ | ⟨_, _, _, hr⟩
  · rw [hr]; exact closeExt_static s i e he
  · rw [hr]
  · rw [hr, closeExt_static _ _ _ (set_self_getElem? he), openNew_static s i e he]

theorem ntStore_static (w : World) (s : Store) (i : Nat) (e : Ext) (he : s.exts[i]? = some e) :
    (ntStore w s i e).exts.map Ext.static = s.exts.map Ext.static := by
  rcases ntStore_cases w s i e with ⟨_, hr⟩ | ⟨_, _, hr⟩ | ⟨_, _, _, hr⟩
  · rw [hr]
  · rw [hr]
  · rw [hr, openNew_static s i e he]

theorem mismatchStore_static (w : World) (s : Store) (i : Nat) (e : Ext) (he : s.exts[i]? = some e) :
    (mismatchStore w s i e).exts.map Ext.static = s.exts.map Ext.static := by
  unfold mismatchStore
  rcases ensureReader_cases w s i e with ⟨_, hr⟩ | ⟨_, _, x, hr⟩ | ⟨_, hf, _, hr⟩
  · simp only [hr]; split
    · exact closeExt_static s i e he
    · rfl
  · simp only [hr]; split
    · exact closeExt_static s i e he
    · rfl
  · simp only [hr, hf, if_true]
    rw [closeExt_static _ _ _ (set_self_getElem? he), openNew_static s i e he]

/-- an operation that is not a configuration method changes no configuration -/
theorem step_static (w : World) (s : Store) (op : Op) (hop : op.mutates = true) :
    (step w s op).1.exts.map Ext.static = s.exts.map Ext.static := by
  cases op with
  | derive i c => cases hop
  | term i k =>
    simp only [step]
    cases he : s.exts[i]? with
    | none => simp only [terminal, he]
    | some e =>
      rw [terminal_fst w k s i e he]
      split
      · rfl
      · split
        · exact mismatchStore_static w s i e he
        · exact termStore_static w s i e he
  | nonTerm i k =>
    simp only [step]
    cases he : s.exts[i]? with
    | none => simp only [nonTerminal, he]
    | some e =>
      rw [nonTerminal_fst w k s i e he]
      split
      · rfl
      · split
        · exact mismatchStore_static w s i e he
        · exact ntStore_static w s i e he
  | close i =>
    simp only [step, closeOp]
    cases he : s.exts[i]? with
    | none => rfl
    | some e => exact closeExt_static s i e he

theorem static_of_map {s t : Store} (h : t.exts.map Ext.static = s.exts.map Ext.static)
    {j : Nat} {e' : Ext} (he' : t.exts[j]? = some e') :
    ∃ e, s.exts[j]? = some e ∧ e'.static = e.static := by
  have h1 : (t.exts.map Ext.static)[j]? = some e'.static := by
    rw [List.getElem?_map, he']; rfl
  rw [h, List.getElem?_map] at h1
  cases hs : s.exts[j]? with
  | none => rw [hs] at h1; cases h1
  | some e =>
    rw [hs] at h1
    simp only [Option.map_some, Option.some.injEq] at h1
    exact ⟨e, rfl, h1.symm⟩

/-! ### open readers = owners -/

/-- the number of extractors that own a reader -/
def owners (s : Store) : Nat := s.exts.countP (·.owns)

/-- `b` = readers opened by the caller and lent to `FromReader` -/
def FdInv (b : Nat) (s : Store) : Prop := s.fdCount = b + owners s

theorem fd_closeExt {b : Nat} {s : Store} (h : StoreInv s) (hf : FdInv b s) {i : Nat} {e : Ext}
    (he : s.exts[i]? = some e) : FdInv b (closeExt s i e) := by
  unfold FdInv owners at *
  obtain ⟨e', he', hown', hfd⟩ := closeExt_releases h he
  cases hown : e.owns with
  | false =>
    have : closeExt s i e = s := by unfold closeExt; simp [hown]
    rw [this]; exact hf
  | true =>
    obtain ⟨r, hr, hl⟩ := h.live i e he (h.owns_opened he hown)
    have hcp := countP_set (·.owns) s.exts i e { e with reader := none, owns := false, opened := false } he
    simp only [hown, if_true] at hcp hfd
    have hex : (closeExt s i e).exts = s.exts.set i { e with reader := none, owns := false, opened := false } := by
      unfold closeExt; simp [hown, hr]
    rw [hex]
    simp only [Bool.false_eq_true, if_false, Nat.add_zero] at hcp
    omega

theorem fd_openNew {b : Nat} {s : Store} (h : StoreInv s) (hf : FdInv b s) {i : Nat} {e : Ext}
    (he : s.exts[i]? = some e) (ho : e.opened = false) : FdInv b (openNew s i e).1 := by
  unfold FdInv owners at *
  have hown := (h.unopened i e he ho).1
  have hcp := countP_set (·.owns) s.exts i e { e with reader := some s.readers.length, owns := true, opened := true } he
  simp only [hown, Bool.false_eq_true, if_false, Nat.add_zero, if_true] at hcp
  have hfd : (openNew s i e).1.fdCount = s.fdCount + 1 := by
    simp [openNew, Store.fdCount, List.count_append]
  rw [hfd]
  simp only [openNew]
  omega

theorem fd_deadReader {b : Nat} {s : Store} (hf : FdInv b s) :
    FdInv b { s with readers := s.readers ++ [false] } := by
  unfold FdInv owners Store.fdCount at *
  simp [List.count_append, hf]

theorem fd_termStore (w : World) {b : Nat} {s : Store} (h : StoreInv s) (hf : FdInv b s) {i : Nat}
    {e : Ext} (he : s.exts[i]? = some e) : FdInv b (termStore w s i e) := by
  rcases termStore_cases w s i e with ⟨_, hr⟩ | ⟨_, _, hr⟩ | ⟨ho, _, _, hr⟩
  · rw [hr]; exact fd_closeExt h hf he
  · rw [hr]; exact hf
  · rw [hr, close_openNew h he ho]; exact fd_deadReader hf

theorem fd_ntStore (w : World) {b : Nat} {s : Store} (h : StoreInv s) (hf : FdInv b s) {i : Nat}
    {e : Ext} (he : s.exts[i]? = some e) : FdInv b (ntStore w s i e) := by
  rcases ntStore_cases w s i e with ⟨_, hr⟩ | ⟨_, _, hr⟩ | ⟨ho, _, _, hr⟩
  · rw [hr]; exact hf
  · rw [hr]; exact hf
  · rw [hr]; exact fd_openNew h hf he ho

theorem fd_mismatch (w : World) {b : Nat} {s : Store} (h : StoreInv s) (hf : FdInv b s) {i : Nat}
    {e : Ext} (he : s.exts[i]? = some e) : FdInv b (mismatchStore w s i e) := by
  rw [mismatchStore_eq w h he]
  split
  · exact fd_termStore w h hf he
  · exact hf

/-- a derived extractor never owns a reader -/
theorem derive_owns {s : Store} (h : StoreInv s) {i : Nat} {e : Ext} (he : s.exts[i]? = some e)
    (c : BCall) : (e.derive c).owns = false := by
  rcases derive_life e c with ⟨_, hnot, _, hw, _⟩ | ⟨_, hw, _⟩
  · rw [hw]
    cases hown : e.owns with
    | false => rfl
    | true =>
      have := h.ownsFile i e he hown
      simp [hown, this] at hnot
  · exact hw

theorem fd_step (w : World) {b : Nat} {s : Store} (h : StoreInv s) (hf : FdInv b s) (op : Op) :
    FdInv b (step w s op).1 := by
  cases op with
  | derive i c =>
    simp only [step, deriveOp]
    cases he : s.exts[i]? with
    | none => exact hf
    | some e =>
      unfold FdInv owners Store.fdCount at *
      simp only [List.countP_append, List.countP_cons, List.countP_nil, derive_owns h he c]
      simpa using hf
  | term i k =>
    simp only [step]
    cases he : s.exts[i]? with
    | none => simp only [terminal, he]; exact hf
    | some e =>
      rw [terminal_fst w k s i e he]
      split
      · exact hf
      · split
        · exact fd_mismatch w h hf he
        · exact fd_termStore w h hf he
  | nonTerm i k =>
    simp only [step]
    cases he : s.exts[i]? with
    | none => simp only [nonTerminal, he]; exact hf
    | some e =>
      rw [nonTerminal_fst w k s i e he]
      split
      · exact hf
      · split
        · exact fd_mismatch w h hf he
        · exact fd_ntStore w h hf he
  | close i =>
    simp only [step, closeOp]
    cases he : s.exts[i]? with
    | none => exact hf
    | some e => exact fd_closeExt h hf he

theorem fd_exec (w : World) (b : Nat) (ops : List Op) :
    ∀ {s : Store}, StoreInv s → FdInv b s → FdInv b (exec w s ops) := by
  induction ops with
  | nil => intro s _ hf; exact hf
  | cons op ops ih => intro s h hf; exact ih (inv_step w h op) (fd_step w h hf op)

/-! ### closing every extractor -/

/-- `Close` on extractor `i` changes at most entry `i` -/
theorem closeOp_other (s : Store) (i j : Nat) (hij : i ≠ j) :
    (closeOp s i).1.exts[j]? = s.exts[j]? := by
  unfold closeOp
  cases he : s.exts[i]? with
  | none => rfl
  | some e =>
    simp only
    unfold closeExt
    split
    · split
      · simp only [List.getElem?_set_ne hij]
      · rfl
    · rfl

theorem closeOp_self_unowned (s : Store) (i : Nat) (e' : Ext)
    (h : (closeOp s i).1.exts[i]? = some e') (hkeep : ∀ e, s.exts[i]? = some e → e.owns = true → e.reader ≠ none) :
    e'.owns = false := by
  unfold closeOp at h
  cases he : s.exts[i]? with
  | none => rw [he] at h; simp only at h; rw [he] at h; cases h
  | some e =>
    rw [he] at h
    simp only at h
    unfold closeExt at h
    cases hown : e.owns with
    | false =>
      simp only [hown, Bool.false_eq_true, if_false] at h
      rw [he] at h; cases h; exact hown
    | true =>
      simp only [hown, if_true] at h
      cases hr : e.reader with
      | none => exact absurd hr (hkeep e he hown)
      | some r =>
        simp only [hr] at h
        rw [List.getElem?_set_self (lt_of_getElem? he)] at h
        cases h; rfl

theorem unowned_after_closes (w : World) (idx : List Nat) :
    ∀ {s : Store}, StoreInv s → ∀ (j : Nat) (e : Ext), s.exts[j]? = some e → e.owns = false →
      ∀ e' : Ext, (exec w s (closeAll idx)).exts[j]? = some e' → e'.owns = false := by
  induction idx with
  | nil => intro s _ j e he ho e' he'; simp only [closeAll, List.map_nil, exec] at he'; rw [he] at he'; cases he'; exact ho
  | cons i idx ih =>
    intro s h j e he ho e' he'
    simp only [closeAll, List.map_cons, exec, step] at he'
    by_cases hij : i = j
    · subst hij
      have hc : (closeOp s i).1.exts[i]? = some e := by
        unfold closeOp; simp only [he]; unfold closeExt; simp [ho, he]
      exact ih (by simpa [step] using inv_step w h (.close i)) i e hc ho e' he'
    · have hc : (closeOp s i).1.exts[j]? = some e := by rw [closeOp_other s i j hij]; exact he
      exact ih (by simpa [step] using inv_step w h (.close i)) j e hc ho e' he'

theorem closed_after_closeAll (w : World) (idx : List Nat) :
    ∀ {s : Store}, StoreInv s → ∀ j ∈ idx, ∀ e' : Ext, (exec w s (closeAll idx)).exts[j]? = some e' →
      e'.owns = false := by
  induction idx with
  | nil => intro s _ j hj; cases hj
  | cons i idx ih =>
    intro s h j hj e' he'
    have h1 : StoreInv (closeOp s i).1 := by simpa [step] using inv_step w h (.close i)
    by_cases hji : j = i
    · subst hji
      simp only [closeAll, List.map_cons, exec, step] at he'
      cases hc : (closeOp s j).1.exts[j]? with
      | none =>
        -- no such extractor: nothing appears later either
        have hlen : ∀ (l : List Nat) (t : Store), t.exts[j]? = none → (exec w t (closeAll l)).exts[j]? = none := by
          intro l
          induction l with
          | nil => intro t ht; exact ht
          | cons a l ihl =>
            intro t ht
            simp only [closeAll, List.map_cons, exec, step]
            apply ihl
            by_cases haj : a = j
            · subst haj
              unfold closeOp; rw [ht]; exact ht
            · rw [closeOp_other t a j haj]; exact ht
        have := hlen idx _ hc
        rw [show exec w (closeOp s j).1 (List.map Op.close idx) = exec w (closeOp s j).1 (closeAll idx) from rfl] at he'
        rw [this] at he'; cases he'
      | some e1 =>
        have ho1 : e1.owns = false := by
          apply closeOp_self_unowned s j e1 hc
          intro e he hown
          obtain ⟨r, hr, _⟩ := h.live j e he (h.owns_opened he hown)
          rw [hr]; simp
        exact unowned_after_closes w idx h1 j e1 hc ho1 e' he'
    · have hj' : j ∈ idx := by
        cases hj with
        | head => exact absurd rfl hji
        | tail _ h => exact h
      simp only [closeAll, List.map_cons, exec, step] at he'
      exact ih h1 j hj' e' he'

theorem exec_closeAll_length (w : World) (idx : List Nat) :
    ∀ (s : Store), (exec w s (closeAll idx)).exts.length = s.exts.length := by
  induction idx with
  | nil => intro s; rfl
  | cons i idx ih =>
    intro s
    simp only [closeAll, List.map_cons, exec, step]
    rw [show exec w (closeOp s i).1 (List.map Op.close idx) = exec w (closeOp s i).1 (closeAll idx) from rfl, ih]
    unfold closeOp
    split
    · rfl
    · exact closeExt_length _ _ _

/-! ### families -/

/-- what every extractor grown from `Open(f)` (file name, no reader of its own yet) or
`FromReader(r)` (no file name, the caller's reader) satisfies -/
structure FamInv (w : World) (s : Store) : Prop where
  /-- a file that some extractor has open can be opened -/
  fileOpen : ∀ (i : Nat) (e : Ext), s.exts[i]? = some e → e.hasFile = true → e.opened = true → w.openOk = true
  /-- an extractor without a file name keeps the reader it was given -/
  noFile : ∀ (i : Nat) (e : Ext), s.exts[i]? = some e → e.hasFile = false → e.opened = true

theorem fam_closeExt {w : World} {s : Store} (h : StoreInv s) (hf : FamInv w s) {i : Nat} {e : Ext}
    (he : s.exts[i]? = some e) : FamInv w (closeExt s i e) := by
  have hi := lt_of_getElem? he
  unfold closeExt
  cases hown : e.owns with
  | false => simpa using hf
  | true =>
    cases hr : e.reader with
    | none => simpa [hown] using hf
    | some r =>
      simp only [if_true]
      constructor
      · intro j ej hj hfj hoj
        by_cases hij : i = j
        · subst hij
          simp only [List.getElem?_set_self hi] at hj
          cases hj; cases hoj
        · simp only [List.getElem?_set_ne hij] at hj
          exact hf.fileOpen j ej hj hfj hoj
      · intro j ej hj hfj
        by_cases hij : i = j
        · subst hij
          simp only [List.getElem?_set_self hi] at hj
          cases hj
          have := h.ownsFile i e he hown
          simp only at hfj
          rw [this] at hfj; cases hfj
        · simp only [List.getElem?_set_ne hij] at hj
          exact hf.noFile j ej hj hfj

theorem fam_openNew {w : World} {s : Store} (hf : FamInv w s) {i : Nat} {e : Ext}
    (he : s.exts[i]? = some e) (hw : w.openOk = true) : FamInv w (openNew s i e).1 := by
  have hi := lt_of_getElem? he
  constructor
  · intro j ej hj hfj hoj
    exact hw
  · intro j ej hj hfj
    by_cases hij : i = j
    · subst hij
      simp only [openNew, List.getElem?_set_self hi] at hj
      cases hj; rfl
    · simp only [openNew, List.getElem?_set_ne hij] at hj
      exact hf.noFile j ej hj hfj

theorem fam_deadReader {w : World} {s : Store} (hf : FamInv w s) :
    FamInv w { s with readers := s.readers ++ [false] } := ⟨hf.fileOpen, hf.noFile⟩

theorem fam_termStore (w : World) {s : Store} (h : StoreInv s) (hf : FamInv w s) {i : Nat}
    {e : Ext} (he : s.exts[i]? = some e) : FamInv w (termStore w s i e) := by
  rcases termStore_cases w s i e with ⟨_, hr⟩ | ⟨_, _, hr⟩ | ⟨ho, _, _, hr⟩
  · rw [hr]; exact fam_closeExt h hf he
  · rw [hr]; exact hf
  · rw [hr, close_openNew h he ho]; exact fam_deadReader hf

theorem fam_ntStore (w : World) {s : Store} (hf : FamInv w s) {i : Nat}
    {e : Ext} (he : s.exts[i]? = some e) : FamInv w (ntStore w s i e) := by
  rcases ntStore_cases w s i e with ⟨_, hr⟩ | ⟨_, _, hr⟩ | ⟨_, _, hw, hr⟩
  · rw [hr]; exact hf
  · rw [hr]; exact hf
  · rw [hr]; exact fam_openNew hf he hw

theorem fam_mismatch (w : World) {s : Store} (h : StoreInv s) (hf : FamInv w s) {i : Nat}
    {e : Ext} (he : s.exts[i]? = some e) : FamInv w (mismatchStore w s i e) := by
  rw [mismatchStore_eq w h he]
  split
  · exact fam_termStore w h hf he
  · exact hf

theorem fam_append {w : World} {s : Store} (hf : FamInv w s) {i : Nat} {e : Ext} (c : BCall)
    (he : s.exts[i]? = some e) : FamInv w { s with exts := s.exts ++ [e.derive c] } := by
  have hfile : (e.derive c).hasFile = e.hasFile := by
    unfold Ext.derive; rw [applyCall_hasFile, clone_hasFile]
  constructor
  · intro j ej hj hfj hoj
    rcases getElem?_concat _ _ _ _ hj with hj | ⟨_, rfl⟩
    · exact hf.fileOpen j ej hj hfj hoj
    · rcases derive_life e c with ⟨ho, _, _, _, _⟩ | ⟨_, _, ho⟩
      · exact hf.fileOpen i e he (by rw [← hfile]; exact hfj) ho
      · rw [ho] at hoj; cases hoj
  · intro j ej hj hfj
    rcases getElem?_concat _ _ _ _ hj with hj | ⟨_, rfl⟩
    · exact hf.noFile j ej hj hfj
    · have hfe : e.hasFile = false := by rw [← hfile]; exact hfj
      have hoe := hf.noFile i e he hfe
      rcases derive_life e c with ⟨_, _, _, _, ho⟩ | ⟨_, _, ho⟩
      · exact ho
      · -- the clone shares whenever the parent is opened and has no file
        exfalso
        have : (e.derive c).opened = true := by
          unfold Ext.derive
          rw [applyCall_opened]
          unfold Ext.clone
          simp [hoe, hfe]
        rw [ho] at this; cases this

theorem fam_step (w : World) {s : Store} (h : StoreInv s) (hf : FamInv w s) (op : Op) :
    FamInv w (step w s op).1 := by
  cases op with
  | derive i c =>
    simp only [step, deriveOp]
    cases he : s.exts[i]? with
    | none => exact hf
    | some e => exact fam_append hf c he
  | term i k =>
    simp only [step]
    cases he : s.exts[i]? with
    | none => simp only [terminal, he]; exact hf
    | some e =>
      rw [terminal_fst w k s i e he]
      split
      · exact hf
      · split
        · exact fam_mismatch w h hf he
        · exact fam_termStore w h hf he
  | nonTerm i k =>
    simp only [step]
    cases he : s.exts[i]? with
    | none => simp only [nonTerminal, he]; exact hf
    | some e =>
      rw [nonTerminal_fst w k s i e he]
      split
      · exact hf
      · split
        · exact fam_mismatch w h hf he
        · exact fam_ntStore w hf he
  | close i =>
    simp only [step, closeOp]
    cases he : s.exts[i]? with
    | none => exact hf
    | some e => exact fam_closeExt h hf he

theorem fam_exec (w : World) (ops : List Op) :
    ∀ {s : Store}, StoreInv s → FamInv w s → FamInv w (exec w s ops) := by
  induction ops with
  | nil => intro s _ hf; exact hf
  | cons op ops ih => intro s h hf; exact ih (inv_step w h op) (fam_step w h hf op)

theorem fam_openBaseF (w : World) (f : Fmt) : FamInv w (openBaseF f) := by
  have key : ∀ (i : Nat) (e : Ext), (openBaseF f).exts[i]? = some e → e = ({ format := f } : Ext) := by
    intro i e he
    cases i with
    | zero => simp [openBaseF] at he; exact he.symm
    | succ k => simp [openBaseF] at he
  constructor
  · intro i e he _ ho; rw [key i e he] at ho; cases ho
  · intro i e he hfl; rw [key i e he] at hfl; cases hfl

theorem fam_readerBase (w : World) : FamInv w readerBase := by
  have key : ∀ (i : Nat) (e : Ext), readerBase.exts[i]? = some e →
      e = ({ hasFile := false, reader := some 0, owns := false, opened := true } : Ext) := by
    intro i e he
    cases i with
    | zero => simp [readerBase] at he; exact he.symm
    | succ k => simp [readerBase] at he
  constructor
  · intro i e he hfl; rw [key i e he] at hfl; cases hfl
  · intro i e he _; rw [key i e he]

/-! ### results as functions of the configuration -/

theorem termBodyF_static (w : World) (k : Term) (e e' : Ext) (h : e.static = e'.static) :
    termBodyF w k e = termBodyF w k e' := by
  simp only [Ext.static, Prod.mk.injEq] at h
  unfold termBodyF
  rw [h.1, h.2.2.1]

theorem termStatic_congr (w : World) (k : Term) (e e' : Ext) (h : e.static = e'.static) :
    termStatic w k e = termStatic w k e' := by
  have hb := termBodyF_static w k e e' h
  simp only [Ext.static, Prod.mk.injEq] at h
  unfold termStatic
  rw [h.2.1, h.2.2.1, h.2.2.2, hb]

theorem nonTermStatic_congr (w : World) (k : NonTerm) (e e' : Ext) (h : e.static = e'.static) :
    nonTermStatic w k e = nonTermStatic w k e' := by
  simp only [Ext.static, Prod.mk.injEq] at h
  unfold nonTermStatic
  rw [h.2.1, h.2.2.1, h.2.2.2]

/-- in a reachable state the reader of an opened extractor is live, so the view is the record -/
theorem view_reachable {s : Store} (h : StoreInv s) {i : Nat} {e : Ext} (he : s.exts[i]? = some e) :
    view s i = some (e, e.opened) := by
  unfold view
  simp only [he, Option.map_some, Option.some.injEq, Prod.mk.injEq, true_and]
  cases ho : e.opened with
  | true =>
    obtain ⟨r, hr, hl⟩ := h.live i e he ho
    simp [readerLive, hr, hl]
  | false =>
    have := (h.unopened i e he ho).2
    simp [readerLive, this]

theorem terminal_static (w : World) (k : Term) {s : Store} (h : StoreInv s) (hf : FamInv w s)
    {i : Nat} {e : Ext} (he : s.exts[i]? = some e) : (terminal w k s i).2 = termStatic w k e := by
  rw [terminal_res, view_reachable h he]
  unfold termRes termStatic
  simp only
  split
  · rfl
  · split
    · rfl
    · cases ho : e.opened with
      | true =>
        cases hfl : e.hasFile with
        | true => simp [hf.fileOpen i e he hfl ho]
        | false => simp
      | false =>
        cases hfl : e.hasFile with
        | true => cases hw : w.openOk <;> simp
        | false => have := hf.noFile i e he hfl; rw [ho] at this; cases this

theorem nonTerminal_static (w : World) (k : NonTerm) {s : Store} (h : StoreInv s) (hf : FamInv w s)
    {i : Nat} {e : Ext} (he : s.exts[i]? = some e) :
    (nonTerminal w k s i).2 = nonTermStatic w k e := by
  rw [nonTerminal_res, view_reachable h he]
  unfold nonTermRes nonTermStatic
  simp only
  split
  · rfl
  · split
    · rfl
    · cases ho : e.opened with
      | true =>
        cases hfl : e.hasFile with
        | true => simp [hf.fileOpen i e he hfl ho]
        | false => simp
      | false =>
        cases hfl : e.hasFile with
        | true => cases hw : w.openOk <;> simp
        | false => have := hf.noFile i e he hfl; rw [ho] at this; cases this

/-! ### lineage: the calls that built each extractor -/

theorem chainFrom_snoc (e0 : Ext) (cs : List BCall) (c : BCall) :
    chainFrom e0 (cs ++ [c]) = (chainFrom e0 cs).derive c := by
  simp [chainFrom, List.foldl_append]

theorem derive_static_congr (e e' : Ext) (c : BCall) (h : e.static = e'.static) :
    (e.derive c).static = (e'.derive c).static := by
  simp only [Ext.static, Prod.mk.injEq] at h
  obtain ⟨h1, h2, h3, h4⟩ := h
  have hc : e.clone.opts = e'.clone.opts ∧ e.clone.err = e'.clone.err ∧
      e.clone.format = e'.clone.format ∧ e.clone.hasFile = e'.clone.hasFile := by
    refine ⟨by rw [clone_opts, clone_opts, h1], by rw [clone_err, clone_err, h2], ?_, by rw [clone_hasFile, clone_hasFile, h4]⟩
    unfold Ext.clone; split <;> split <;> exact h3
  obtain ⟨c1, c2, c3, c4⟩ := hc
  unfold Ext.derive Ext.static
  cases c <;> simp only [applyCall, c1, c2, c3, c4] <;> (try split) <;> simp [c1, c2, c3, c4]

/-- every extractor's configuration is that of the chain of calls that built it -/
def LinInv (e0 : Ext) (L : List (List BCall)) (s : Store) : Prop :=
  L.length = s.exts.length ∧
  ∀ (i : Nat) (cs : List BCall) (e : Ext), L[i]? = some cs → s.exts[i]? = some e →
    e.static = (chainFrom e0 cs).static

theorem lin_of_static {e0 : Ext} {L : List (List BCall)} {s t : Store} (hl : LinInv e0 L s)
    (h : t.exts.map Ext.static = s.exts.map Ext.static) : LinInv e0 L t := by
  constructor
  · have := congrArg List.length h
    simp only [List.length_map] at this
    rw [hl.1, this]
  · intro i cs e' hcs he'
    obtain ⟨e, he, hst⟩ := static_of_map h he'
    rw [hst]
    exact hl.2 i cs e hcs he

theorem lin_exec (w : World) (e0 : Ext) (ops : List Op) :
    ∀ {L : List (List BCall)} {s : Store}, LinInv e0 L s → LinInv e0 (lineage L ops) (exec w s ops) := by
  induction ops with
  | nil => intro L s h; exact h
  | cons op ops ih =>
    intro L s h
    cases op with
    | derive i c =>
      simp only [lineage, exec, step, deriveOp]
      apply ih
      cases hL : L[i]? with
      | none =>
        have : s.exts[i]? = none := by
          rw [List.getElem?_eq_none_iff] at hL ⊢
          rw [← h.1]; exact hL
        simp only [this]
        exact h
      | some cs =>
        have hi : i < s.exts.length := by rw [← h.1]; exact lt_of_getElem? hL
        have he : s.exts[i]? = some s.exts[i] := List.getElem?_eq_getElem hi
        simp only [he]
        constructor
        · simp [h.1]
        · intro j cs' e' hcs' he'
          rcases getElem?_concat _ _ _ _ he' with he' | ⟨hj, rfl⟩
          · have hj : j < L.length := by rw [h.1]; exact lt_of_getElem? he'
            rw [List.getElem?_append_left hj] at hcs'
            exact h.2 j cs' e' hcs' he'
          · rw [← h.1] at hj
            subst hj
            rw [List.getElem?_append_right (Nat.le_refl _)] at hcs'
            simp only [Nat.sub_self, List.getElem?_cons_zero, Option.some.injEq] at hcs'
            subst hcs'
            rw [chainFrom_snoc]
            exact derive_static_congr _ _ c (h.2 i cs _ hL he)
    | term i k =>
      simp only [lineage, exec]
      exact ih (lin_of_static h (step_static w s (.term i k) rfl))
    | nonTerm i k =>
      simp only [lineage, exec]
      exact ih (lin_of_static h (step_static w s (.nonTerm i k) rfl))
    | close i =>
      simp only [lineage, exec]
      exact ih (lin_of_static h (step_static w s (.close i) rfl))

theorem lin_base (e0 : Ext) (r : List Bool) : LinInv e0 [[]] { readers := r, exts := [e0] } := by
  constructor
  · rfl
  · intro i cs e hcs he
    cases i with
    | zero =>
      simp only [List.getElem?_cons_zero, Option.some.injEq] at hcs he
      subst hcs; subst he; rfl
    | succ k => simp at hcs

end Tabula.Builder
