import TabulaModel.Model.OverlapApi
import TabulaModel.Lemmas.OverlapFull
import TabulaModel.Lemmas.Aligned
/-!
C13, round 6: `strings.Index`, `GetOriginalText` on what `ApplyOverlapToChunks` builds.
-/
set_option linter.unusedVariables false
namespace Tabula.OverlapApi
open Tabula.Split Tabula.Overlap

theorem indexOf_prefix (p r : Str) : indexOf (p ++ r) p = some 0 := by
  cases h : p ++ r with
  | nil =>
    have : p = [] := (List.append_eq_nil_iff.mp h).1
    simp [indexOf, this]
  | cons c t =>
    unfold indexOf
    have : p.isPrefixOf (c :: t) = true := by
      rw [← h, List.isPrefixOf_iff_prefix]
      exact List.prefix_append p r
    rw [if_pos this]

/-- `strings.Index` returns a position at which the needle occurs -/
theorem indexOf_some (s sub : Str) (k : Nat) (h : indexOf s sub = some k) :
    ∃ a b, s = a ++ sub ++ b ∧ a.length = k := by
  induction s generalizing k with
  | nil =>
    unfold indexOf at h
    split at h
    · rename_i hs; cases h; exact ⟨[], [], by simp [hs], rfl⟩
    · cases h
  | cons c t ih =>
    unfold indexOf at h
    split at h
    · rename_i hp
      cases h
      obtain ⟨b, hb⟩ := List.isPrefixOf_iff_prefix.mp hp
      exact ⟨[], b, by simpa using hb.symm, rfl⟩
    · cases hi : indexOf t sub with
      | none => rw [hi] at h; cases h
      | some j =>
        rw [hi] at h
        cases h
        obtain ⟨a, b, e, hl⟩ := ih j hi
        exact ⟨c :: a, b, by rw [e]; rfl, by simp [hl]⟩

/-- … and no earlier position does -/
theorem indexOf_first (s sub : Str) (k : Nat) (h : indexOf s sub = some k) :
    ∀ j, j < k → ¬ sub <+: s.drop j := by
  induction s generalizing k with
  | nil =>
    unfold indexOf at h
    split at h
    · cases h; intro j hj; omega
    · cases h
  | cons c t ih =>
    unfold indexOf at h
    split at h
    · cases h; intro j hj; omega
    · rename_i hp
      cases hi : indexOf t sub with
      | none => rw [hi] at h; cases h
      | some j0 =>
        rw [hi] at h
        cases h
        intro j hj
        cases j with
        | zero =>
          intro hpre
          exact hp (List.isPrefixOf_iff_prefix.mpr (by simpa using hpre))
        | succ j' =>
          have hj' : j' < j0 := by simp only at hj; omega
          simpa using ih j0 hi j' hj'

theorem trimLeft_nl (x : Str) : trimLeft (10 :: x) = trimLeft x := by
  have h1 : spaceLen (10 :: x) = 1 := by simp [spaceLen, isAsciiSpace]
  rw [trimLeft, dif_neg (by rw [h1]; decide), h1]
  rfl

theorem trimSpace_nlnl (x : Str) : trimSpace ([10, 10] ++ x) = trimSpace x := by
  unfold trimSpace
  show trimRight (trimLeft (10 :: 10 :: x)) = _
  rw [trimLeft_nl, trimLeft_nl]

/-- `GetOriginalText` on a chunk as `ApplyOverlapToChunks` leaves it, when the first
occurrence of the overlap in the rewritten text is the overlap itself -/
theorem getOriginalText_of_first_occurrence (c : OverlapConfig) (ov text title : Str)
    (h : ov ≠ [] → indexOf (applyOverlap text ov title c.includeHeadingContext) ov
      = some (if c.includeHeadingContext ∧ title ≠ [] then title.length + 4 else 0)) :
    getOriginalText (outOf c ov text title) = if ov = [] then text else trimSpace text := by
  unfold outOf
  by_cases he : ov = []
  · rw [if_pos he, if_pos he]; rfl
  · rw [if_neg he, if_neg he]
    unfold getOriginalText
    simp only [Bool.not_true, Bool.false_or, decide_eq_true_eq]
    rw [if_neg he, h he]
    simp only
    unfold applyOverlap
    rw [if_neg he]
    by_cases hc : c.includeHeadingContext = true ∧ title ≠ []
    · rw [if_pos hc, if_pos hc]
      have e : [91] ++ title ++ [93, 10, 10] ++ ov ++ [10, 10] ++ text
          = ([91] ++ title ++ [93, 10, 10] ++ ov) ++ ([10, 10] ++ text) := by simp [List.append_assoc]
      have hl : ([91] ++ title ++ [93, 10, 10] ++ ov).length = title.length + 4 + ov.length := by
        simp; omega
      rw [e, ← hl, List.drop_left, trimSpace_nlnl]
    · rw [if_neg hc, if_neg hc]
      have e : ([] : Str) ++ ov ++ [10, 10] ++ text = ov ++ ([10, 10] ++ text) := by simp
      rw [e, Nat.zero_add, List.drop_left, trimSpace_nlnl]

/-- without a bracketed title in front, the overlap is the head of the rewritten text -/
theorem getOriginalText_outOf (c : OverlapConfig) (ov text title : Str)
    (h : c.includeHeadingContext = false ∨ title = []) :
    getOriginalText (outOf c ov text title) = if ov = [] then text else trimSpace text := by
  apply getOriginalText_of_first_occurrence
  intro he
  have hc : ¬ (c.includeHeadingContext = true ∧ title ≠ []) := by
    rcases h with h | h
    · simp [h]
    · simp [h]
  rw [if_neg hc]
  unfold applyOverlap
  rw [if_neg he, if_neg hc]
  have e : ([] : Str) ++ ov ++ [10, 10] ++ text = ov ++ ([10, 10] ++ text) := by simp
  rw [e]
  exact indexOf_prefix ov _

theorem stripWs_getOriginalText_outOf (c : OverlapConfig) (ov text title : Str)
    (h : c.includeHeadingContext = false ∨ title = []) :
    stripWs (getOriginalText (outOf c ov text title)) = stripWs text := by
  rw [getOriginalText_outOf c ov text title h]
  split
  · rfl
  · exact stripWs_trimSpace_any text

theorem applyOverlapAux_cons (cl : Classes) (c : OverlapConfig) (prev : Option Str) (text title : Str)
    (rest : List (Str × Str)) :
    applyOverlapAux cl c prev ((text, title) :: rest)
      = outOf c (overlapFrom cl c prev) text title :: applyOverlapAux cl c (some text) rest := by
  cases prev <;> rfl

/-- stripping the overlaps recovers the chunks' own non-whitespace characters, chunk by chunk -/
theorem applyOverlapAux_original_content (cl : Classes) (c : OverlapConfig) (prev : Option Str)
    (items : List (Str × Str)) (h : ∀ it ∈ items, c.includeHeadingContext = false ∨ it.2 = []) :
    (applyOverlapAux cl c prev items).map (fun o => stripWs (getOriginalText o))
      = items.map (fun it => stripWs it.1) := by
  induction items generalizing prev with
  | nil => rfl
  | cons it rest ih =>
    obtain ⟨text, title⟩ := it
    rw [applyOverlapAux_cons, List.map_cons, List.map_cons,
      stripWs_getOriginalText_outOf c _ text title (h (text, title) (List.mem_cons_self ..)),
      ih (some text) (fun x hx => h x (List.mem_cons_of_mem _ hx))]

/-- `strings.Index` finds an occurrence whenever there is one, at or before it -/
theorem indexOf_of_occurs (a sub b : Str) : ∃ k, indexOf (a ++ sub ++ b) sub = some k ∧ k ≤ a.length := by
  induction a with
  | nil =>
    refine ⟨0, ?_, Nat.le_refl _⟩
    rw [List.nil_append]
    exact indexOf_prefix sub b
  | cons c a' ih =>
    obtain ⟨k, hk, hle⟩ := ih
    show ∃ k, indexOf (c :: (a' ++ sub ++ b)) sub = some k ∧ k ≤ (c :: a').length
    unfold indexOf
    split
    · exact ⟨0, rfl, Nat.zero_le _⟩
    · rw [hk]
      exact ⟨k + 1, rfl, by simp; omega⟩

theorem stripWs_before_nl (A rest : Str) : stripWs (A ++ 10 :: rest) = stripWs A ++ stripWs (10 :: rest) := by
  have hn : NotCovered (A ++ 10 :: rest) A.length :=
    notCovered_of_runeStart _ _ 10 (by rw [List.getElem?_append_right (Nat.le_refl _)]; simp) (by decide)
  have := stripWs_cut _ _ hn
  rwa [List.take_left, List.drop_left] at this

/-- whatever the title, `GetOriginalText` never loses own content: the non-whitespace characters
of the chunk's own text are a suffix of those of what it returns -/
theorem getOriginalText_keeps_own (c : OverlapConfig) (ov text title : Str) :
    ∃ x, stripWs (getOriginalText (outOf c ov text title)) = x ++ stripWs text := by
  unfold outOf
  by_cases he : ov = []
  · rw [if_pos he]
    exact ⟨[], rfl⟩
  · rw [if_neg he]
    unfold getOriginalText
    simp only [Bool.not_true, Bool.false_or, decide_eq_true_eq]
    rw [if_neg he]
    unfold applyOverlap
    rw [if_neg he]
    generalize (if c.includeHeadingContext = true ∧ title ≠ [] then [91] ++ title ++ [93, 10, 10] else []) = head
    have e : head ++ ov ++ [10, 10] ++ text = head ++ ov ++ ([10, 10] ++ text) := by simp [List.append_assoc]
    obtain ⟨k, hk, hle⟩ := indexOf_of_occurs head ov ([10, 10] ++ text)
    rw [e, hk]
    simp only
    have hlen : k + ov.length ≤ (head ++ ov).length := by simp; omega
    rw [List.drop_append_of_le_length hlen, stripWs_trimSpace_any]
    refine ⟨stripWs ((head ++ ov).drop (k + ov.length)), ?_⟩
    show stripWs (_ ++ 10 :: 10 :: text) = _
    rw [stripWs_before_nl]
    congr 1
    exact stripWs_wsOnly_append wsOnly_nlnl text

end Tabula.OverlapApi
