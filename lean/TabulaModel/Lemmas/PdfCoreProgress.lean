import TabulaModel.Lemmas.PdfLexProgress
import TabulaModel.Model.LexPos
/-!
Progress of the parser of core/parser.go, for EVERY parser state (no well-formedness hypotheses):
every successful call of `ParseObject` / `parseArray` / `parseDict` consumes input (measured by the
unread bytes plus the tokens held in the two-token window), so the fuel of the model is never the
reason for an error, and a sequence of `ParseObject` calls terminates.  Core Lean only.
-/
namespace Tabula.Pdf
namespace Prog

/-- a window slot holds a token still to be parsed -/
def weight : Option Token → Nat
  | none => 0
  | some .eof => 0
  | some _ => 1

/-- what is left to parse: unread bytes plus the tokens in the window -/
def measure (s : PState) : Nat := s.inp.length + weight s.cur + weight s.peek

theorem weight_none : weight none = 0 := rfl

theorem weight_eof : weight (some .eof) = 0 := rfl

theorem weight_le_one (o : Option Token) : weight o ≤ 1 := by
  cases o with
  | none => exact Nat.zero_le _
  | some t => cases t <;> first | exact Nat.zero_le _ | exact Nat.le_refl _

theorem weight_some {t : Token} (h : t ≠ .eof) : weight (some t) = 1 := by
  cases t <;> first | rfl | exact absurd rfl h

/-- `(*Parser).nextToken` never increases the measure and pays for the token it drops -/
theorem next_measure (s : PState) : measure s.next + weight s.cur ≤ measure s := by
  have h0 := weight_none
  have he := weight_eof
  unfold PState.next
  split
  · simp only [measure]; omega
  · split
    · simp only [measure]; omega
    · split
      · simp only [measure]; omega
      · next t r h =>
        have hp := lexSkip_progress _ _ _ _ h
        have hl := hp.1.length_le
        have : r.length + weight (some t) ≤ s.inp.length := by
          by_cases ht : t = .eof
          · subst ht; omega
          · rw [weight_some ht]; have := hp.2.1 ht; omega
        simp only [measure]; omega

theorem next_le (s : PState) : measure s.next ≤ measure s := by
  have := next_measure s; omega

/-- dropping a real token costs one unit -/
theorem next_lt (s : PState) (t : Token) (hc : s.cur = some t) (ht : t ≠ .eof) :
    measure s.next + 1 ≤ measure s := by
  have := next_measure s
  rw [hc, weight_some ht] at this
  exact this

theorem parseNumber_progress (s : PState) (v : Str) (o : Obj) (s' : PState)
    (h : parseNumber s v = .ok (o, s')) : measure s' ≤ measure s.next := by
  have h1 := next_le s.next
  have h2 := next_le s.next.next
  unfold parseNumber at h
  repeat' (first | split at h | (dsimp only at h; split at h))
  all_goals (cases h <;> omega)

/-- every successful call of ParseObject / parseArray / parseDict strictly decreases the measure -/
theorem parse_progress (f : Nat) :
    (∀ d s o s', parseObject f d s = .ok (o, s') → measure s' < measure s) ∧
    (∀ d s acc o s', parseArray f d s acc = .ok (o, s') → measure s' < measure s) ∧
    (∀ d s acc o s', parseDict f d s acc = .ok (o, s') → measure s' < measure s) := by
  induction f with
  | zero =>
    refine ⟨?_, ?_, ?_⟩
    · intro d s o s' h; rw [parseObject] at h; cases h
    · intro d s acc o s' h; rw [parseArray] at h; cases h
    · intro d s acc o s' h; rw [parseDict] at h; cases h
  | succ f ih =>
    obtain ⟨ihO, ihA, ihD⟩ := ih
    refine ⟨?_, ?_, ?_⟩
    · intro d s o s' h
      rw [parseObject] at h
      cases hc : s.cur with
      | none => rw [hc] at h; cases h
      | some t =>
        rw [hc] at h
        cases t with
        | eof => dsimp only at h; split at h <;> cases h
        | comment v => cases h
        | keyword v =>
          have nl := next_lt s _ hc (by simp)
          dsimp only at h
          repeat' split at h
          all_goals (cases h <;> omega)
        | integer v =>
          have nl := next_lt s _ hc (by simp)
          have := parseNumber_progress s v o s' h; omega
        | real v =>
          have nl := next_lt s _ hc (by simp)
          dsimp only at h
          split at h
          · cases h
          · cases h; omega
        | str v => have nl := next_lt s _ hc (by simp); cases h; omega
        | hexstr v => have nl := next_lt s _ hc (by simp); cases h; omega
        | name v => have nl := next_lt s _ hc (by simp); cases h; omega
        | arrStart =>
          have nl := next_lt s _ hc (by simp)
          dsimp only at h
          split at h
          · cases h
          · have := ihA (d + 1) s.next [] o s' h; omega
        | arrEnd => cases h
        | dictStart =>
          have nl := next_lt s _ hc (by simp)
          dsimp only at h
          split at h
          · cases h
          · have := ihD (d + 1) s.next [] o s' h; omega
        | dictEnd => cases h
        | ref => cases h
    · intro d s acc o s' h
      rw [parseArray] at h
      cases hc : s.cur with
      | none => rw [hc] at h; cases h
      | some t =>
        rw [hc] at h
        have step : (match parseObject f d s with
            | .error _ => (.error .err : Except PErr (Obj × PState))
            | .ok (o, s') => parseArray f d s' (acc ++ [o])) = .ok (o, s') →
            measure s' < measure s := by
          intro h
          split at h
          · cases h
          · next o1 s1 h1 =>
            have a := ihO d s o1 s1 h1
            have b := ihA d s1 (acc ++ [o1]) o s' h
            omega
        cases t with
        | arrEnd => have nl := next_lt s _ hc (by simp); cases h; omega
        | eof => cases h
        | _ => exact step h
    · intro d s acc o s' h
      rw [parseDict] at h
      cases hc : s.cur with
      | none => rw [hc] at h; cases h
      | some t =>
        rw [hc] at h
        cases t with
        | dictEnd => have nl := next_lt s _ hc (by simp); cases h; omega
        | name k =>
          have nl := next_lt s _ hc (by simp)
          dsimp only at h
          split at h
          · cases h
          · next o1 s1 h1 =>
            have a := ihO d s.next o1 s1 h1
            have b := ihD d s1 _ o s' h
            omega
        | _ => cases h

/-- fuel above 2·measure+1 (objects) / 2·measure+2 (the container loops) is never used up: any two
such amounts give the same result -/
theorem fuel_stable (f1 : Nat) :
    (∀ f2 d s, 2 * measure s + 1 ≤ f1 → 2 * measure s + 1 ≤ f2 → parseObject f1 d s = parseObject f2 d s) ∧
    (∀ f2 d s acc, 2 * measure s + 2 ≤ f1 → 2 * measure s + 2 ≤ f2 → parseArray f1 d s acc = parseArray f2 d s acc) ∧
    (∀ f2 d s acc, 2 * measure s + 2 ≤ f1 → 2 * measure s + 2 ≤ f2 → parseDict f1 d s acc = parseDict f2 d s acc) := by
  induction f1 with
  | zero =>
    refine ⟨?_, ?_, ?_⟩
    · intro f2 d s h; omega
    · intro f2 d s acc h; omega
    · intro f2 d s acc h; omega
  | succ g1 ih =>
    obtain ⟨ihO, ihA, ihD⟩ := ih
    refine ⟨?_, ?_, ?_⟩
    · intro f2 d s h1 h2
      obtain ⟨g2, rfl⟩ : ∃ g, f2 = g + 1 := ⟨f2 - 1, by omega⟩
      rw [parseObject, parseObject]
      cases hc : s.cur with
      | none => rfl
      | some t =>
        cases t with
        | arrStart =>
          have nl := next_lt s _ hc (by simp)
          dsimp only
          rw [ihA g2 (d + 1) s.next [] (by omega) (by omega)]
        | dictStart =>
          have nl := next_lt s _ hc (by simp)
          dsimp only
          rw [ihD g2 (d + 1) s.next [] (by omega) (by omega)]
        | _ => rfl
    · intro f2 d s acc h1 h2
      obtain ⟨g2, rfl⟩ : ∃ g, f2 = g + 1 := ⟨f2 - 1, by omega⟩
      rw [parseArray, parseArray]
      have step : (match parseObject g1 d s with
            | .error _ => (.error .err : Except PErr (Obj × PState))
            | .ok (o, s') => parseArray g1 d s' (acc ++ [o])) =
          (match parseObject g2 d s with
            | .error _ => (.error .err : Except PErr (Obj × PState))
            | .ok (o, s') => parseArray g2 d s' (acc ++ [o])) := by
        rw [ihO g2 d s (by omega) (by omega)]
        cases hres : parseObject g2 d s with
        | error e => rfl
        | ok p =>
          obtain ⟨o, s'⟩ := p
          have := (parse_progress g2).1 d s o s' hres
          dsimp only
          exact ihA g2 d s' _ (by omega) (by omega)
      cases hc : s.cur with
      | none => rfl
      | some t => cases t <;> first | rfl | exact step
    · intro f2 d s acc h1 h2
      obtain ⟨g2, rfl⟩ : ∃ g, f2 = g + 1 := ⟨f2 - 1, by omega⟩
      rw [parseDict, parseDict]
      cases hc : s.cur with
      | none => rfl
      | some t =>
        cases t with
        | name k =>
          have nl := next_lt s _ hc (by simp)
          dsimp only
          rw [ihO g2 d s.next (by omega) (by omega)]
          cases hres : parseObject g2 d s.next with
          | error e => rfl
          | ok p =>
            obtain ⟨o, s'⟩ := p
            have := (parse_progress g2).1 d s.next o s' hres
            dsimp only
            exact ihD g2 d s' _ (by omega) (by omega)
        | _ => rfl

theorem measure_newParser (inp : Str) : measure (newParser inp) ≤ inp.length := by
  unfold newParser
  have h1 := next_le (PState.next { cur := none, peek := none, inp := inp, err := false })
  have h2 := next_le { cur := none, peek := none, inp := inp, err := false }
  have h3 : measure { cur := none, peek := none, inp := inp, err := false } = inp.length := by
    simp only [measure, weight_none]; omega
  omega

/-- the fuel `coreParse` is given is irrelevant: any larger amount gives the same result -/
theorem coreParse_fuel_irrelevant (inp : Str) (f : Nat) (h : 2 * inp.length + 1 ≤ f) :
    parseObject f 0 (newParser inp) = coreParse inp := by
  have hm := measure_newParser inp
  unfold coreParse fuelFor
  exact (fuel_stable f).1 _ 0 _ (by omega) (by omega)

/-- `ParseObject` called until it fails, `F` units of fuel per call, at most `n` calls -/
def parseSeq (F : Nat) : Nat → PState → List Obj → List Obj × Option PErr
  | 0, _, acc => (acc, none)
  | n + 1, s, acc =>
    match parseObject F 0 s with
    | .error e => (acc, some e)
    | .ok (o, s') => parseSeq F n s' (acc ++ [o])

theorem coreParseAll_go_eq (inp : Str) (n : Nat) (s : PState) (acc : List Obj) :
    coreParseAll.go inp n s acc = parseSeq (fuelFor inp) n s acc := by
  induction n generalizing s acc with
  | zero => rw [coreParseAll.go, parseSeq]
  | succ n ih =>
    rw [coreParseAll.go, parseSeq]
    cases hres : parseObject (fuelFor inp) 0 s with
    | error e => rfl
    | ok p => obtain ⟨o, s'⟩ := p; dsimp only; exact ih s' _

/-- a sequence of ParseObject calls ends with an error or the end of input before the bound on the
number of calls is reached (whatever the per-call fuel) -/
theorem parseSeq_terminates (F : Nat) : ∀ (n : Nat) (s : PState) (acc : List Obj), measure s < n →
    ∃ os e, parseSeq F n s acc = (os, some e) := by
  intro n
  induction n with
  | zero => intro s acc h; omega
  | succ n ih =>
    intro s acc h
    rw [parseSeq]
    cases hres : parseObject F 0 s with
    | error e => exact ⟨acc, e, rfl⟩
    | ok p =>
      obtain ⟨o, s'⟩ := p
      have := (parse_progress F).1 0 s o s' hres
      dsimp only
      exact ih s' _ (by omega)

/-- ... and its result does not depend on the two bounds once they are large enough -/
theorem parseSeq_stable (F1 F2 : Nat) : ∀ (n1 n2 : Nat) (s : PState) (acc : List Obj),
    2 * measure s + 1 ≤ F1 → 2 * measure s + 1 ≤ F2 → measure s < n1 → measure s < n2 →
    parseSeq F1 n1 s acc = parseSeq F2 n2 s acc := by
  intro n1
  induction n1 with
  | zero => intro n2 s acc _ _ h; omega
  | succ n1 ih =>
    intro n2 s acc hF1 hF2 h1 h2
    obtain ⟨m2, rfl⟩ : ∃ m, n2 = m + 1 := ⟨n2 - 1, by omega⟩
    rw [parseSeq, parseSeq, (fuel_stable F1).1 F2 0 s hF1 hF2]
    cases hres : parseObject F2 0 s with
    | error e => rfl
    | ok p =>
      obtain ⟨o, s'⟩ := p
      have := (parse_progress F2).1 0 s o s' hres
      dsimp only
      exact ih m2 s' _ (by omega) (by omega) (by omega) (by omega)

/-- at most one object per unit of measure -/
theorem parseSeq_count (F : Nat) : ∀ (n : Nat) (s : PState) (acc : List Obj),
    (parseSeq F n s acc).1.length ≤ acc.length + measure s := by
  intro n
  induction n with
  | zero => intro s acc; rw [parseSeq]; exact Nat.le_add_right _ _
  | succ n ih =>
    intro s acc
    rw [parseSeq]
    cases hres : parseObject F 0 s with
    | error e => exact Nat.le_add_right _ _
    | ok p =>
      obtain ⟨o, s'⟩ := p
      have := (parse_progress F).1 0 s o s' hres
      have h := ih s' (acc ++ [o])
      rw [List.length_append, List.length_singleton] at h
      dsimp only
      omega

theorem coreParseAll_never_out_of_fuel (inp : Str) :
    ∃ os e, coreParseAll.go inp (inp.length + 2) (newParser inp) [] = (os, some e) := by
  rw [coreParseAll_go_eq]
  have := measure_newParser inp
  exact parseSeq_terminates _ _ _ _ (by omega)

/-- `coreParseAll` is the un-fuelled sequence: any larger bounds give the same objects and the same
end -/
theorem coreParseAll_stable (inp : Str) (F n : Nat) (hF : fuelFor inp ≤ F) (hn : inp.length + 2 ≤ n) :
    parseSeq F n (newParser inp) [] = coreParseAll.go inp (inp.length + 2) (newParser inp) [] := by
  rw [coreParseAll_go_eq]
  have := measure_newParser inp
  unfold fuelFor at hF ⊢
  exact parseSeq_stable _ _ _ _ _ _ (by omega) (by omega) (by omega) (by omega)

theorem coreParseAll_count (inp : Str) : (coreParseAll inp).1.length ≤ inp.length := by
  have hm := measure_newParser inp
  have hc := parseSeq_count (fuelFor inp) (inp.length + 2) (newParser inp) []
  rw [← coreParseAll_go_eq] at hc
  unfold coreParseAll
  revert hc
  generalize coreParseAll.go inp (inp.length + 2) (newParser inp) [] = X
  intro hc
  rcases X with ⟨os, _ | e⟩
  · simp only [List.length_nil] at hc ⊢; omega
  · simp only [List.length_nil] at hc ⊢; omega

theorem windowTrace_go_terminates (inp : Str) : ∀ (n : Nat) (s : PState) (acc : List Window),
    measure s < n → ∃ e, (windowTrace.go inp n s acc).2 = some e := by
  intro n
  induction n with
  | zero => intro s acc h; omega
  | succ n ih =>
    intro s acc h
    rw [windowTrace.go]
    cases hres : parseObject (fuelFor inp) 0 s with
    | error e => exact ⟨e, rfl⟩
    | ok p =>
      obtain ⟨o, s'⟩ := p
      have := (parse_progress (fuelFor inp)).1 0 s o s' hres
      dsimp only
      exact ih s' _ (by omega)

/-- the same for the window trace of Model/LexPos.lean: its `go` never returns `none` as the end -/
theorem windowTrace_never_out_of_fuel (inp : Str) : ∃ e, (windowTrace inp).2 = some e := by
  have := measure_newParser inp
  unfold windowTrace
  exact windowTrace_go_terminates inp _ _ _ (by omega)

end Prog
end Tabula.Pdf
