import TabulaModel.Model.ChunkLayoutX
import TabulaModel.Lemmas.ChunkLayoutMeta
/-!
Lemmas for `Props/C12LayoutMeta.lean`: the loops of `Model/ChunkLayoutX.lean` (with the bookkeeping of
element types, `HasList` and `Level`) project to the loops of `Model/ChunkLayout.lean`, and every
chunk carries the section it was made for.
-/
namespace Tabula.ChunkLayoutX
open Tabula.Chunk Tabula.ChunkLayout

/-- forgetting the bookkeeping -/
def proj (s : LSX) : LS := ⟨s.chunks.map (·.c), s.cur, s.idx⟩

theorem proj_ite (c : Prop) [Decidable c] (a b : LSX) : proj (if c then a else b) = if c then proj a else proj b := by
  split <;> rfl

theorem ite_eq {α} (c : Prop) [Decidable c] {a a' b b' : α} (h1 : a = a') (h2 : b = b') :
    (if c then a else b) = if c then a' else b' := by rw [h1, h2]

theorem sentEmitX_proj (cfg : Cfg) (info : SecInfo) (k : Kind) (t : Str) (s : LSX) :
    proj (sentEmitX cfg info k t s) = sentEmit cfg info t (proj s) := by
  unfold sentEmitX sentEmit
  have hc : (proj s).cur = s.cur := rfl
  rw [hc, proj_ite]
  exact ite_eq _ (by simp [proj, createX]) rfl

theorem sentAddX_proj (t : Str) (s : LSX) : proj (sentAddX t s) = sentAdd t (proj s) := rfl

theorem sentLoopX_proj (cfg : Cfg) (info : SecInfo) (k : Kind) (ts : List Str) (s : LSX) :
    proj (sentLoopX cfg info k ts s) = sentLoop cfg info ts (proj s) := by
  induction ts generalizing s with
  | nil =>
    simp only [sentLoopX, sentLoop]
    have hc : (proj s).cur = s.cur := rfl
    rw [hc, proj_ite]
    exact ite_eq _ rfl (by simp [proj, createX])
  | cons t ts ih =>
    simp only [sentLoopX, sentLoop, ih, sentAddX_proj, sentEmitX_proj]

theorem splitBySentencesX_proj (cfg : Cfg) (info : SecInfo) (k : Kind) (sents : List Str) (s : LSX) :
    proj (splitBySentencesX cfg info k sents s) = splitBySentences cfg info sents (proj s) := by
  have h := sentLoopX_proj cfg info k sents { s with cur := [] }
  unfold splitBySentencesX splitBySentences
  unfold proj at h ⊢
  simp only at h ⊢
  rw [← h]

theorem setLastTextX_map (xs : List LX) (t : Str) : (setLastTextX xs t).map (·.c) = setLastText (xs.map (·.c)) t := by
  induction xs with
  | nil => rfl
  | cons x xs ih =>
    cases xs with
    | nil => rfl
    | cons y ys => simp only [setLastTextX, List.map_cons, setLastText] at ih ⊢; rw [ih]

theorem getLast?_map_c (xs : List LX) : (xs.map (·.c)).getLast? = xs.getLast?.map (·.c) := by
  simp [List.getLast?_map]

theorem flushChunkX_proj (cfg : Cfg) (info : SecInfo) (s : LSX) :
    proj (flushChunkX cfg info s) = flushChunk cfg info (proj s) := by
  unfold flushChunkX flushChunk
  have hc : (proj s).cur = s.cur := rfl
  have hg : (proj s).chunks.getLast? = s.chunks.getLast?.map (·.c) := getLast?_map_c s.chunks
  rw [hc, hg]
  by_cases h : (trim s.cur).isEmpty = true
  · rw [if_pos h, if_pos h]
  · rw [if_neg h, if_neg h]
    cases hl : s.chunks.getLast? with
    | none => simp [proj, createX]
    | some prev =>
      simp only [Option.map_some]
      split
      · simp [proj, setLastTextX_map]
      · simp [proj, createX]

theorem flushIfPendingX_proj (cfg : Cfg) (info : SecInfo) (s : LSX) :
    proj (flushIfPendingX cfg info s) = flushIfPending cfg info (proj s) := by
  unfold flushIfPendingX flushIfPending
  have : (proj s).cur = s.cur := rfl
  rw [this]
  split
  · rfl
  · exact flushChunkX_proj cfg info s

theorem atomicOversizeX_proj (cfg : Cfg) (info : SecInfo) (es : List CE) (s : LSX) :
    proj (atomicOversizeX cfg info es s) = atomicOversize cfg info es (proj s) := by
  induction es generalizing s with
  | nil => rfl
  | cons e es ih =>
    simp only [atomicOversizeX, atomicOversize]
    split
    · rw [ih, splitBySentencesX_proj]
    · rw [ih]; rfl

theorem atomicBlockX_proj (cfg : Cfg) (info : SecInfo) (es : List CE) (s : LSX) :
    proj (atomicBlockX cfg info es s) = atomicBlock cfg info es (proj s) := by
  unfold atomicBlockX atomicBlock
  simp only
  rw [← flushIfPendingX_proj]
  split
  · exact atomicOversizeX_proj cfg info es _
  · simp [proj, createX]

theorem flushIfOverX_proj (cfg : Cfg) (info : SecInfo) (added : Int) (s : LSX) :
    proj (flushIfOverX cfg info added s) = flushIfOver cfg info added (proj s) := by
  unfold flushIfOverX flushIfOver
  have : (proj s).cur = s.cur := rfl
  rw [this]
  split
  · exact flushChunkX_proj cfg info s
  · rfl

theorem plainElemX_proj (cfg : Cfg) (info : SecInfo) (e : CE) (s : LSX) :
    proj (plainElemX cfg info e s) = plainElem cfg info e (proj s) := by
  unfold plainElemX plainElem
  have : (proj s).cur = s.cur := rfl
  simp only [this]
  rw [← flushIfOverX_proj]
  split
  · rw [splitBySentencesX_proj, flushIfPendingX_proj]
  · rfl

theorem paraLoopX_proj (cfg : Cfg) (info : SecInfo) (es : List CE) (s : LSX) :
    proj (paraLoopX cfg info es s) = paraLoop cfg info es (proj s) := by
  fun_induction paraLoopX cfg info es s with
  | case1 s => rfl
  | case2 e s hk =>
    rw [paraLoop, if_pos hk]; exact atomicBlockX_proj cfg info [e] s
  | case3 e s hk =>
    rw [paraLoop, if_neg hk]; exact plainElemX_proj cfg info e s
  | case4 e n rest s hk ih =>
    rw [ih, atomicBlockX_proj, paraLoop.eq_3, if_pos hk]
  | case5 e n rest s hk hi hkeep ih =>
    rw [ih, atomicBlockX_proj, paraLoop.eq_3, if_neg hk, if_pos hi, if_pos hkeep]
  | case6 e n rest s hk hi hkeep s1 ih =>
    rw [ih, paraLoop.eq_3, if_neg hk, if_pos hi, if_neg hkeep, ← flushIfOverX_proj]; rfl
  | case7 e n rest s hk hi ih =>
    rw [ih, plainElemX_proj, paraLoop.eq_3, if_neg hk, if_neg hi]

theorem splitSectionX_proj (cfg : Cfg) (info : SecInfo) (content : List CE) (idx : Nat) :
    (splitSectionByParagraphsX cfg info content idx).map (·.c) = splitSectionByParagraphs cfg info content idx := by
  unfold splitSectionByParagraphsX splitSectionByParagraphs
  have h := flushChunkX_proj cfg info (paraLoopX cfg info content ⟨[], [], idx, [], false⟩)
  rw [paraLoopX_proj] at h
  have : proj ⟨[], [], idx, [], false⟩ = ⟨[], [], idx⟩ := rfl
  rw [this] at h
  rw [← h]; rfl

theorem chunkSectionX_proj (cfg : Cfg) (info : SecInfo) (content : List CE) (idx : Nat) :
    (chunkSectionX cfg info content idx).map (·.c) = chunkSection cfg info content idx := by
  unfold chunkSectionX chunkSection
  simp only
  split
  · rfl
  · split
    · rfl
    · exact splitSectionX_proj cfg info content idx

theorem chunkFlatX_proj (cfg : Cfg) (l : List (SecInfo × List CE)) (idx : Nat) :
    (chunkFlatX cfg l idx).map (·.x.c) = chunkFlat cfg l idx := by
  induction l generalizing idx with
  | nil => rfl
  | cons p rest ih =>
    obtain ⟨info, content⟩ := p
    simp only [chunkFlatX, chunkFlat, List.map_append, List.map_map]
    have h := chunkSectionX_proj cfg info content idx
    have hl : (chunkSectionX cfg info content idx).length = (chunkSection cfg info content idx).length := by
      rw [← h, List.length_map]
    rw [hl, ih]
    congr 1

mutual
theorem flatTreeM_eq : ∀ s : Sec, flatTreeM s = flatTree s
  | .mk info content children => by simp only [flatTreeM, flatTree, flatForestM_eq children]
theorem flatForestM_eq : ∀ ss : List Sec, flatForestM ss = flatForest ss
  | [] => by simp [flatForestM, flatForest]
  | s :: ss => by simp only [flatForestM, flatForest, flatTreeM_eq s, flatForestM_eq ss]
end

theorem chunkByParagraphsX_proj (cfg : Cfg) (title : Str) (d : LDoc) :
    (chunkByParagraphsX cfg title d).map (·.x.c) = chunkByParagraphs cfg title d := by
  unfold chunkByParagraphsX chunkByParagraphs
  cases (fallbackContent d).head? with
  | none => rfl
  | some a =>
    cases (fallbackContent d).getLast? with
    | none => rfl
    | some b =>
      simp only [List.map_map]
      exact splitSectionX_proj cfg _ _ 0

theorem setTotalLX_proj (xs : List LXS) : (setTotalLX xs).map (·.x.c) = setTotal (xs.map (·.x.c)) := by
  simp [setTotalLX, setTotal, List.map_map, Function.comp_def]

/-- **forgetting section and bookkeeping gives `Chunker.Chunk`** -/
theorem chunkX_proj (cfg : Cfg) (title : Str) (d : LDoc) : (chunkX cfg title d).map (·.x.c) = chunk cfg title d := by
  unfold chunkX chunk
  simp only
  rw [setTotalLX_proj, flatForestM_eq, chunkForest_flat]
  have h := chunkFlatX_proj cfg (flatForest (buildSections cfg d)) 0
  have he : (chunkFlatX cfg (flatForest (buildSections cfg d)) 0).isEmpty =
      (chunkFlat cfg (flatForest (buildSections cfg d)) 0).isEmpty := by
    rw [← h, List.isEmpty_map]
  rw [← he]
  split
  · rw [chunkByParagraphsX_proj]
  · rw [h]

/-! ### every chunk carries its section -/

/-- the chunks of one section's group: stamped with that section, and their `Path`, `PageStart`,
`PageEnd` are the section's -/
theorem chunkFlatX_info (cfg : Cfg) (l : List (SecInfo × List CE)) (idx : Nat) :
    ∀ y ∈ chunkFlatX cfg l idx, (∃ content, (y.info, content) ∈ l) ∧
      y.x.c.path = y.info.path ∧ y.x.c.pageStart = y.info.pageStart ∧ y.x.c.pageEnd = y.info.pageEnd := by
  induction l generalizing idx with
  | nil => intro y hy; cases hy
  | cons p rest ih =>
    obtain ⟨info, content⟩ := p
    intro y hy
    simp only [chunkFlatX] at hy
    rcases List.mem_append.mp hy with h | h
    · obtain ⟨x, hx, rfl⟩ := List.mem_map.mp h
      have hc : x.c ∈ chunkSection cfg info content idx := by
        rw [← chunkSectionX_proj]; exact List.mem_map.mpr ⟨x, hx, rfl⟩
      have := ((chunkSection_ok cfg info content idx).2 x.c hc).2
      exact ⟨⟨content, List.mem_cons_self ..⟩, this⟩
    · obtain ⟨⟨c0, hc0⟩, rest'⟩ := ih _ y h
      exact ⟨⟨c0, List.mem_cons_of_mem _ hc0⟩, rest'⟩

theorem chunkByParagraphsX_info (cfg : Cfg) (title : Str) (d : LDoc) :
    ∀ y ∈ chunkByParagraphsX cfg title d, y.info.title = title ∧ y.info.level = 0 ∧ y.info.path = [] ∧
      y.x.c.path = y.info.path ∧ y.x.c.pageStart = y.info.pageStart ∧ y.x.c.pageEnd = y.info.pageEnd := by
  intro y hy
  unfold chunkByParagraphsX at hy
  cases ha : (fallbackContent d).head? with
  | none => rw [ha] at hy; cases hy
  | some a =>
    cases hb : (fallbackContent d).getLast? with
    | none => rw [ha, hb] at hy; cases hy
    | some b =>
      rw [ha, hb] at hy
      simp only at hy
      obtain ⟨x, hx, rfl⟩ := List.mem_map.mp hy
      have hc : x.c ∈ splitSectionByParagraphs cfg ⟨title, 0, [], a.page, b.page⟩ (fallbackContent d) 0 := by
        rw [← splitSectionX_proj]; exact List.mem_map.mpr ⟨x, hx, rfl⟩
      have := ((splitSection_ok cfg ⟨title, 0, [], a.page, b.page⟩ (fallbackContent d) 0).2 x.c hc).2
      exact ⟨rfl, rfl, rfl, this⟩

theorem mem_setTotalLX (xs : List LXS) (y : LXS) (hy : y ∈ setTotalLX xs) :
    ∃ y0 ∈ xs, y.info = y0.info ∧ y.x.m = y0.x.m ∧ y.x.c.path = y0.x.c.path ∧ y.x.c.pageStart = y0.x.c.pageStart ∧
      y.x.c.pageEnd = y0.x.c.pageEnd ∧ y.x.c.text = y0.x.c.text ∧ y.x.c.idx = y0.x.c.idx := by
  simp only [setTotalLX, List.mem_map] at hy
  obtain ⟨y0, h0, rfl⟩ := hy
  exact ⟨y0, h0, rfl, rfl, rfl, rfl, rfl, rfl, rfl⟩

theorem chunkFlatX_isEmpty (cfg : Cfg) (l : List (SecInfo × List CE)) (idx : Nat) :
    (chunkFlatX cfg l idx).isEmpty = (chunkFlat cfg l idx).isEmpty := by
  rw [← chunkFlatX_proj, List.isEmpty_map]

end Tabula.ChunkLayoutX
