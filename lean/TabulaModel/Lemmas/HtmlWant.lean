import TabulaModel.Lemmas.HtmlSrc
/-!
Helper lemmas for C19 (Props/C19Text.lean): the source text `src` against the wanted text
`want` — they agree (up to white space) on every tree without a mixed paragraph.
-/
namespace Tabula.Html

/-! ### every character of the source text is a character of a text node below -/

theorem squeeze_nil_iff (s : Str) : squeeze s = [] ↔ ∀ c ∈ s, isSpace c = true := by
  unfold squeeze
  rw [List.filter_eq_nil_iff]
  constructor
  · intro h c hc; simpa using h c hc
  · intro h c hc; simpa using h c hc

theorem mem_tnFlatL {c : Nat} {k : Dom} : ∀ {ks : List Dom}, k ∈ ks → c ∈ tnFlat k → c ∈ tnFlatL ks
  | [], h, _ => by cases h
  | x :: xs, h, hc => by
      simp only [tnFlatL, List.mem_append]
      rcases List.mem_cons.mp h with e | e
      · subst e; exact Or.inl hc
      · exact Or.inr (mem_tnFlatL e hc)

theorem mem_tnFlat_elem {c : Nat} {tag : Str} {attrs : List (Str × Str)} {kids : List Dom}
    (hs : isSkip tag = false) (h : c ∈ tnFlatL kids) : c ∈ tnFlat (.elem tag attrs kids) := by
  rw [tnFlat_elem tag attrs kids hs]; exact h

theorem directSrc_mem {c : Nat} (k : Dom) (h : c ∈ directSrc k) : c ∈ tnFlat k := by
  cases k with
  | text s => exact h
  | other ks => cases h
  | elem tag attrs kids =>
    simp only [directSrc] at h
    by_cases hl : tag = T.ul ∨ tag = T.ol
    · rw [if_pos hl] at h; cases h
    · rw [if_neg hl] at h; exact h

theorem flatMap_directSrc_mem {c : Nat} : ∀ (kids : List Dom), c ∈ kids.flatMap directSrc → c ∈ tnFlatL kids
  | [], h => by cases h
  | k :: ks, h => by
      simp only [List.flatMap_cons, List.mem_append] at h
      simp only [tnFlatL, List.mem_append]
      rcases h with h | h
      · exact Or.inl (directSrc_mem k h)
      · exact Or.inr (flatMap_directSrc_mem ks h)

theorem rowCells_mem {c : Nat} (ks : List Dom) (h : c ∈ (rowCellNodes ks).flatMap tnFlat) : c ∈ tnFlatL ks := by
  rw [List.mem_flatMap] at h
  obtain ⟨cell, hcell, hc⟩ := h
  unfold rowCellNodes at hcell
  exact mem_tnFlatL (List.mem_filter.mp hcell).1 hc

theorem sectionCells_mem {c : Nat} : ∀ (ks : List Dom), c ∈ (sectionCellNodes ks).flatMap tnFlat → c ∈ tnFlatL ks
  | [], h => by cases h
  | .text s :: rest, h => by
      simp only [sectionCellNodes] at h
      simp only [tnFlatL, List.mem_append]
      exact Or.inr (sectionCells_mem rest h)
  | .other o :: rest, h => by
      simp only [sectionCellNodes] at h
      simp only [tnFlatL, List.mem_append]
      exact Or.inr (sectionCells_mem rest h)
  | .elem tag attrs kk :: rest, h => by
      simp only [sectionCellNodes, List.flatMap_append, List.mem_append] at h
      simp only [tnFlatL, List.mem_append]
      rcases h with h | h
      · left
        by_cases ht : tag = T.tr
        · simp only [ht, if_true] at h
          subst ht
          exact mem_tnFlat_elem (by decide) (rowCells_mem kk h)
        · simp [ht] at h
      · exact Or.inr (sectionCells_mem rest h)

theorem tableCells_mem {c : Nat} : ∀ (ks : List Dom), c ∈ (tableCellNodes ks).flatMap tnFlat → c ∈ tnFlatL ks
  | [], h => by cases h
  | .text s :: rest, h => by
      simp only [tableCellNodes] at h
      simp only [tnFlatL, List.mem_append]
      exact Or.inr (tableCells_mem rest h)
  | .other o :: rest, h => by
      simp only [tableCellNodes] at h
      simp only [tnFlatL, List.mem_append]
      exact Or.inr (tableCells_mem rest h)
  | .elem tag attrs kk :: rest, h => by
      simp only [tableCellNodes, List.flatMap_append, List.mem_append] at h
      simp only [tnFlatL, List.mem_append]
      rcases h with h | h
      · left
        by_cases h1 : tag = T.thead ∨ tag = T.tbody ∨ tag = T.tfoot
        · simp only [h1, if_true] at h
          have hs : isSkip tag = false := by
            rcases h1 with e | e | e <;> (subst e; decide)
          exact mem_tnFlat_elem hs (sectionCells_mem kk h)
        · simp only [h1, if_false] at h
          by_cases ht : tag = T.tr
          · simp only [ht, if_true] at h
            subst ht
            exact mem_tnFlat_elem (by decide) (rowCells_mem kk h)
          · simp [ht] at h
      · exact Or.inr (tableCells_mem rest h)

mutual
theorem src_mem (p : Pos → Dom → Bool) (w : Bool) {c : Nat} :
    ∀ (t : Dom) (pos : Pos), c ∈ src p w pos t → c ∈ tnFlat t
  | .text _, pos, h => by simp [src] at h
  | .other kids, pos, h => by
      simp only [src] at h
      simp only [tnFlat]
      exact srcL_mem p w kids _ h
  | .elem tag attrs kids, pos, h => by
      unfold src at h
      by_cases hs : isSkip tag = true
      · simp [hs] at h
      · by_cases hp : p pos (.elem tag attrs kids) = true
        · simp [hs, hp] at h
        · have hs' : isSkip tag = false := by simpa using hs
          apply mem_tnFlat_elem hs'
          simp only [hs, hp, if_false, Bool.false_eq_true] at h
          split at h
          · exact h
          · split at h
            · exact h
            · exact srcL_mem p w kids _ h
          · exact srcL_mem p w kids _ h
          · rw [List.mem_append] at h
            rcases h with h | h
            · exact flatMap_directSrc_mem kids h
            · exact srcLi_mem p w kids _ h
          · exact tableCells_mem kids h
          · exact h
          · exact h
          · cases h
          · exact srcL_mem p w kids _ h
theorem srcL_mem (p : Pos → Dom → Bool) (w : Bool) {c : Nat} :
    ∀ (ts : List Dom) (kp : Pos), c ∈ srcL p w kp ts → c ∈ tnFlatL ts
  | [], kp, h => by simp [srcL] at h
  | k :: ks, kp, h => by
      simp only [srcL, List.mem_append] at h
      simp only [tnFlatL, List.mem_append]
      rcases h with h | h
      · exact Or.inl (src_mem p w k kp h)
      · exact Or.inr (srcL_mem p w ks kp h)
theorem srcLi_mem (p : Pos → Dom → Bool) (w : Bool) {c : Nat} :
    ∀ (ts : List Dom) (kp : Pos), c ∈ srcLi p w kp ts → c ∈ tnFlatL ts
  | [], kp, h => by simp [srcLi] at h
  | k :: ks, kp, h => by
      simp only [srcLi, List.mem_append] at h
      simp only [tnFlatL, List.mem_append]
      rcases h with h | h
      · split at h
        · exact Or.inl (src_mem p w k kp h)
        · cases h
      · exact Or.inr (srcLi_mem p w ks kp h)
end

/-- a subtree whose text nodes are blank has a blank source text -/
theorem src_blank (p : Pos → Dom → Bool) (w : Bool) (t : Dom) (pos : Pos)
    (h : squeeze (tnFlat t) = []) : squeeze (src p w pos t) = [] := by
  rw [squeeze_nil_iff] at h ⊢
  exact fun c hc => h c (src_mem p w t pos hc)

theorem srcL_blank (p : Pos → Dom → Bool) (w : Bool) (ts : List Dom) (kp : Pos)
    (h : squeeze (tnFlatL ts) = []) : squeeze (srcL p w kp ts) = [] := by
  rw [squeeze_nil_iff] at h ⊢
  exact fun c hc => h c (srcL_mem p w ts kp hc)

/-! ### src against want -/

theorem isBlockContainer_eq (kids : List Dom) : isBlockContainer kids = kids.any isBlockNode := by
  unfold isBlockContainer
  congr 1

theorem wantMixed_leaf (p : Pos → Dom → Bool) (w : Bool) (kp : Pos) :
    ∀ kids : List Dom, kids.any isBlockNode = false → wantMixed p w kp kids = tnFlatL kids
  | [], _ => rfl
  | k :: ks, h => by
      simp only [List.any_cons, Bool.or_eq_false_iff] at h
      simp only [wantMixed, tnFlatL, h.1, Bool.false_eq_true, if_false, wantMixed_leaf p w kp ks h.2]

mutual
theorem src_want (p : Pos → Dom → Bool) (w : Bool) :
    ∀ (t : Dom) (pos : Pos), noMixed t = true → squeeze (src p w pos t) = squeeze (want p w pos t)
  | .text _, pos, _ => by simp [src, want]
  | .other kids, pos, h => by
      simp only [src, want]
      exact srcL_want p w kids _ (by simpa [noMixed] using h)
  | .elem tag attrs kids, pos, h => by
      have hk : noMixedL kids = true := by
        simp only [noMixed, Bool.and_eq_true] at h; exact h.2
      unfold src want
      by_cases hs : isSkip tag = true
      · simp [hs]
      · by_cases hp : p pos (.elem tag attrs kids) = true
        · simp [hs, hp]
        · simp only [hs, hp, if_false, Bool.false_eq_true]
          cases hc : classify tag with
          | heading lvl => rfl
          | pdiv isP =>
            cases isP with
            | false =>
              simp only []
              split
              · rfl
              · exact srcL_want p w kids _ hk
            | true =>
              simp only []
              have htag : tag = T.p := by
                unfold classify at hc
                by_cases h1 : tag = T.h1; · rw [if_pos h1] at hc; cases hc
                rw [if_neg h1] at hc
                by_cases h2 : tag = T.h2; · rw [if_pos h2] at hc; cases hc
                rw [if_neg h2] at hc
                by_cases h3 : tag = T.h3; · rw [if_pos h3] at hc; cases hc
                rw [if_neg h3] at hc
                by_cases h4 : tag = T.h4; · rw [if_pos h4] at hc; cases hc
                rw [if_neg h4] at hc
                by_cases h5 : tag = T.h5; · rw [if_pos h5] at hc; cases hc
                rw [if_neg h5] at hc
                by_cases h6 : tag = T.h6; · rw [if_pos h6] at hc; cases hc
                rw [if_neg h6] at hc
                by_cases h7 : tag = T.p; · exact h7
                rw [if_neg h7] at hc
                by_cases h8 : tag = T.div; · rw [if_pos h8] at hc; cases hc
                rw [if_neg h8] at hc
                iterate 7 (split at hc; · cases hc)
                cases hc
              by_cases hb : isBlockContainer kids = true
              · -- a paragraph with block-level children: the hypothesis says the rest is blank
                have hbl : blankOutsideBlocks kids = true := by
                  simp only [noMixed, Bool.and_eq_true] at h
                  have := h.1
                  simpa [htag, hb] using this
                simp only [hb, Bool.not_true, Bool.and_false, Bool.false_eq_true, if_false]
                exact srcL_wantMixed p w kids _ hbl hk
              · have hb' : isBlockContainer kids = false := by simpa using hb
                have hleaf := wantMixed_leaf p w (pos.kid w tag) kids (by rw [← isBlockContainer_eq]; exact hb')
                rw [hleaf]
                by_cases ht : (squeeze (tnFlatL kids) != []) = true
                · simp [ht, hb']
                · have ht' : squeeze (tnFlatL kids) = [] := by simpa using ht
                  simp only [ht', hb']
                  simp only [bne_self_eq_false, Bool.false_and, Bool.false_eq_true, if_false]
                  rw [srcL_blank p w kids _ ht']
          | list ord => simp only []; exact srcL_want p w kids _ hk
          | li =>
            simp only []
            rw [squeeze_append, squeeze_append, srcLi_want p w kids _ hk]
          | table => rfl
          | code => rfl
          | quote => rfl
          | void => rfl
          | other => simp only []; exact srcL_want p w kids _ hk
theorem srcL_want (p : Pos → Dom → Bool) (w : Bool) :
    ∀ (ts : List Dom) (kp : Pos), noMixedL ts = true → squeeze (srcL p w kp ts) = squeeze (wantL p w kp ts)
  | [], kp, _ => by simp [srcL, wantL]
  | k :: ks, kp, h => by
      simp only [noMixedL, Bool.and_eq_true] at h
      simp only [srcL, wantL, squeeze_append, src_want p w k kp h.1, srcL_want p w ks kp h.2]
theorem srcLi_want (p : Pos → Dom → Bool) (w : Bool) :
    ∀ (ts : List Dom) (kp : Pos), noMixedL ts = true → squeeze (srcLi p w kp ts) = squeeze (wantLi p w kp ts)
  | [], kp, _ => by simp [srcLi, wantLi]
  | k :: ks, kp, h => by
      simp only [noMixedL, Bool.and_eq_true] at h
      simp only [srcLi, wantLi, squeeze_append, srcLi_want p w ks kp h.2]
      congr 1
      split
      · exact src_want p w k kp h.1
      · rfl
theorem srcL_wantMixed (p : Pos → Dom → Bool) (w : Bool) :
    ∀ (ts : List Dom) (kp : Pos), blankOutsideBlocks ts = true → noMixedL ts = true →
      squeeze (srcL p w kp ts) = squeeze (wantMixed p w kp ts)
  | [], kp, _, _ => by simp [srcL, wantMixed]
  | k :: ks, kp, hb, h => by
      simp only [noMixedL, Bool.and_eq_true] at h
      simp only [blankOutsideBlocks, List.all_cons, Bool.and_eq_true] at hb
      have hrest : blankOutsideBlocks ks = true := hb.2
      simp only [srcL, wantMixed, squeeze_append, srcL_wantMixed p w ks kp hrest h.2]
      congr 1
      by_cases hbn : isBlockNode k = true
      · simp only [hbn, if_true]; exact src_want p w k kp h.1
      · have : squeeze (tnFlat k) = [] := by
          have := hb.1
          simpa [hbn] using this
        simp only [hbn, Bool.false_eq_true, if_false]
        rw [src_blank p w k kp this, this]
end

end Tabula.Html
