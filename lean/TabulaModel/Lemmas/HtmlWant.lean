import TabulaModel.Lemmas.HtmlSrc
/-!
Helper lemmas for C19 (Props/C19Text.lean): the source text `src` against the wanted text
`want` — they agree (up to white space) on every tree in which no paragraph with block-level
children has a child that is neither block-level nor inline content (`noWrapped`).
-/
namespace Tabula.Html

/-! ### every character of the source text is a character of a text node below -/

theorem squeeze_nil_iff (s : Str) : squeeze s = [] ↔ ∀ c ∈ s, isSpace c = true := by
  unfold squeeze
  rw [List.filter_eq_nil_iff]
  constructor
  · intro h c hc; simpa using h c hc
  · intro h c hc; simpa using h c hc

theorem mem_tnFlatL {c : Nat} {k : Dom} : ∀ {ks : List Dom}, k ∈ ks → c ∈ tnFlat k → c ∈ tnFlatL ks
  | [], h, _ => by cases h
  | x :: xs, h, hc => by
      simp only [tnFlatL, List.mem_append]
      rcases List.mem_cons.mp h with e | e
      · subst e; exact Or.inl hc
      · exact Or.inr (mem_tnFlatL e hc)

theorem mem_tnFlat_elem {c : Nat} {tag : Str} {attrs : List (Str × Str)} {kids : List Dom}
    (hs : isSkip tag = false) (h : c ∈ tnFlatL kids) : c ∈ tnFlat (.elem tag attrs kids) := by
  rw [tnFlat_elem tag attrs kids hs]; exact h

theorem directSrc_mem {c : Nat} (k : Dom) (h : c ∈ directSrc k) : c ∈ tnFlat k := by
  cases k with
  | text s => exact h
  | other ks => cases h
  | elem tag attrs kids =>
    simp only [directSrc] at h
    by_cases hl : tag = T.ul ∨ tag = T.ol
    · rw [if_pos hl] at h; cases h
    · rw [if_neg hl] at h; exact h

theorem flatMap_directSrc_mem {c : Nat} : ∀ (kids : List Dom), c ∈ kids.flatMap directSrc → c ∈ tnFlatL kids
  | [], h => by cases h
  | k :: ks, h => by
      simp only [List.flatMap_cons, List.mem_append] at h
      simp only [tnFlatL, List.mem_append]
      rcases h with h | h
      · exact Or.inl (directSrc_mem k h)
      · exact Or.inr (flatMap_directSrc_mem ks h)

theorem rowCells_mem {c : Nat} (ks : List Dom) (h : c ∈ (rowCellNodes ks).flatMap tnFlat) : c ∈ tnFlatL ks := by
  rw [List.mem_flatMap] at h
  obtain ⟨cell, hcell, hc⟩ := h
  unfold rowCellNodes at hcell
  exact mem_tnFlatL (List.mem_filter.mp hcell).1 hc

theorem sectionCells_mem {c : Nat} : ∀ (ks : List Dom), c ∈ (sectionCellNodes ks).flatMap tnFlat → c ∈ tnFlatL ks
  | [], h => by cases h
  | .text s :: rest, h => by
      simp only [sectionCellNodes] at h
      simp only [tnFlatL, List.mem_append]
      exact Or.inr (sectionCells_mem rest h)
  | .other o :: rest, h => by
      simp only [sectionCellNodes] at h
      simp only [tnFlatL, List.mem_append]
      exact Or.inr (sectionCells_mem rest h)
  | .elem tag attrs kk :: rest, h => by
      simp only [sectionCellNodes, List.flatMap_append, List.mem_append] at h
      simp only [tnFlatL, List.mem_append]
      rcases h with h | h
      · left
        by_cases ht : tag = T.tr
        · simp only [ht, if_true] at h
          subst ht
          exact mem_tnFlat_elem (by decide) (rowCells_mem kk h)
        · simp [ht] at h
      · exact Or.inr (sectionCells_mem rest h)

theorem tableCells_mem {c : Nat} : ∀ (ks : List Dom), c ∈ (tableCellNodes ks).flatMap tnFlat → c ∈ tnFlatL ks
  | [], h => by cases h
  | .text s :: rest, h => by
      simp only [tableCellNodes] at h
      simp only [tnFlatL, List.mem_append]
      exact Or.inr (tableCells_mem rest h)
  | .other o :: rest, h => by
      simp only [tableCellNodes] at h
      simp only [tnFlatL, List.mem_append]
      exact Or.inr (tableCells_mem rest h)
  | .elem tag attrs kk :: rest, h => by
      simp only [tableCellNodes, List.flatMap_append, List.mem_append] at h
      simp only [tnFlatL, List.mem_append]
      rcases h with h | h
      · left
        by_cases h1 : tag = T.thead ∨ tag = T.tbody ∨ tag = T.tfoot
        · simp only [h1, if_true] at h
          have hs : isSkip tag = false := by
            rcases h1 with e | e | e <;> (subst e; decide)
          exact mem_tnFlat_elem hs (sectionCells_mem kk h)
        · simp only [h1, if_false] at h
          by_cases ht : tag = T.tr
          · simp only [ht, if_true] at h
            subst ht
            exact mem_tnFlat_elem (by decide) (rowCells_mem kk h)
          · simp [ht] at h
      · exact Or.inr (tableCells_mem rest h)

mutual
theorem src_mem (p : Pos → Dom → Bool) (w : Bool) {c : Nat} :
    ∀ (t : Dom) (pos : Pos), c ∈ src p w pos t → c ∈ tnFlat t
  | .text _, pos, h => by simp [src] at h
  | .other kids, pos, h => by
      simp only [src] at h
      simp only [tnFlat]
      exact srcL_mem p w kids _ h
  | .elem tag attrs kids, pos, h => by
      unfold src at h
      by_cases hs : isSkip tag = true
      · simp [hs] at h
      · by_cases hp : p pos (.elem tag attrs kids) = true
        · simp [hs, hp] at h
        · have hs' : isSkip tag = false := by simpa using hs
          apply mem_tnFlat_elem hs'
          simp only [hs, hp, if_false, Bool.false_eq_true] at h
          split at h
          · exact h
          · split at h
            · exact h
            · exact srcM_mem p w kids _ h
          · exact srcL_mem p w kids _ h
          · rw [List.mem_append] at h
            rcases h with h | h
            · exact flatMap_directSrc_mem kids h
            · exact srcLi_mem p w kids _ h
          · exact tableCells_mem kids h
          · exact h
          · exact h
          · cases h
          · exact srcL_mem p w kids _ h
theorem srcL_mem (p : Pos → Dom → Bool) (w : Bool) {c : Nat} :
    ∀ (ts : List Dom) (kp : Pos), c ∈ srcL p w kp ts → c ∈ tnFlatL ts
  | [], kp, h => by simp [srcL] at h
  | k :: ks, kp, h => by
      simp only [srcL, List.mem_append] at h
      simp only [tnFlatL, List.mem_append]
      rcases h with h | h
      · exact Or.inl (src_mem p w k kp h)
      · exact Or.inr (srcL_mem p w ks kp h)
theorem srcLi_mem (p : Pos → Dom → Bool) (w : Bool) {c : Nat} :
    ∀ (ts : List Dom) (kp : Pos), c ∈ srcLi p w kp ts → c ∈ tnFlatL ts
  | [], kp, h => by simp [srcLi] at h
  | k :: ks, kp, h => by
      simp only [srcLi, List.mem_append] at h
      simp only [tnFlatL, List.mem_append]
      rcases h with h | h
      · split at h
        · exact Or.inl (src_mem p w k kp h)
        · cases h
      · exact Or.inr (srcLi_mem p w ks kp h)
theorem srcM_mem (p : Pos → Dom → Bool) (w : Bool) {c : Nat} :
    ∀ (ts : List Dom) (kp : Pos), c ∈ srcM p w kp ts → c ∈ tnFlatL ts
  | [], kp, h => by simp [srcM] at h
  | k :: ks, kp, h => by
      simp only [srcM, List.mem_append] at h
      simp only [tnFlatL, List.mem_append]
      rcases h with h | h
      · split at h
        · exact Or.inl h
        · exact Or.inl (src_mem p w k kp h)
      · exact Or.inr (srcM_mem p w ks kp h)
end

/-- a subtree whose text nodes are blank has a blank source text -/
theorem src_blank (p : Pos → Dom → Bool) (w : Bool) (t : Dom) (pos : Pos)
    (h : squeeze (tnFlat t) = []) : squeeze (src p w pos t) = [] := by
  rw [squeeze_nil_iff] at h ⊢
  exact fun c hc => h c (src_mem p w t pos hc)

theorem srcL_blank (p : Pos → Dom → Bool) (w : Bool) (ts : List Dom) (kp : Pos)
    (h : squeeze (tnFlatL ts) = []) : squeeze (srcL p w kp ts) = [] := by
  rw [squeeze_nil_iff] at h ⊢
  exact fun c hc => h c (srcL_mem p w ts kp hc)

theorem srcM_blank (p : Pos → Dom → Bool) (w : Bool) (ts : List Dom) (kp : Pos)
    (h : squeeze (tnFlatL ts) = []) : squeeze (srcM p w kp ts) = [] := by
  rw [squeeze_nil_iff] at h ⊢
  exact fun c hc => h c (srcM_mem p w ts kp hc)

/-! ### src against want -/

theorem isBlockTag_not_skip (tag : Str) (h : isBlockTag tag = true) : isSkip tag = false := by
  simp only [isBlockTag, Bool.or_eq_true, beq_iff_eq] at h
  rcases h with (((((((((((((((((((h | h) | h) | h) | h) | h) | h) | h) | h) | h) | h) | h) | h) | h) | h) | h) | h) | h) | h) | h) <;>
    (subst h; decide)

/-- a block-level element is never inline content -/
theorem isBlockNode_not_inline (k : Dom) (h : isBlockNode k = true) : isInline k = false := by
  cases k with
  | text s => cases h
  | other ks => cases h
  | elem tag attrs kids =>
    have hb : isBlockTag tag = true := h
    simp [isInline, isBlockTag_not_skip tag hb, hb]

mutual
theorem src_want (p : Pos → Dom → Bool) (w : Bool) :
    ∀ (t : Dom) (pos : Pos) (inP : Bool), okP inP t = true →
      squeeze (src p w pos t) = squeeze (want p w pos inP t)
  | .text _, pos, inP, _ => by simp [src, want]
  | .other kids, pos, inP, h => by
      simp only [src, want]
      cases inP with
      | false =>
        simp only [okP, Bool.false_eq_true, if_false] at h
        simp only [Bool.false_eq_true, if_false]
        exact srcL_want p w kids _ h
      | true =>
        simp only [okP, if_true, Bool.and_eq_true] at h
        simp only [if_true]
        exact srcL_wantD p w kids _ h.1 h.2
  | .elem tag attrs kids, pos, inP, h => by
      unfold src want
      by_cases hs : isSkip tag = true
      · simp [hs]
      · by_cases hp : p pos (.elem tag attrs kids) = true
        · simp [hs, hp]
        · simp only [hs, hp, if_false, Bool.false_eq_true]
          simp only [okP, hs, Bool.false_eq_true, if_false] at h
          cases hc : classify tag with
          | heading lvl => rfl
          | pdiv isP =>
            rw [hc] at h
            cases isP with
            | false =>
              simp only [] at h ⊢
              split
              · rfl
              · rename_i hcnd
                simp only [hcnd, Bool.false_eq_true, if_false] at h
                exact srcM_wantD p w kids _ inP h
            | true =>
              simp only [] at h ⊢
              by_cases hb : isBlockContainer kids = true
              · simp only [hb, Bool.not_true, Bool.and_false, Bool.false_eq_true, if_false] at h ⊢
                exact srcM_wantD p w kids _ true h
              · have hb' : isBlockContainer kids = false := by simpa using hb
                simp only [hb', Bool.not_false, Bool.and_true, if_true]
                by_cases ht : (squeeze (tnFlatL kids) != []) = true
                · simp [ht]
                · have ht' : squeeze (tnFlatL kids) = [] := by simpa using ht
                  simp only [ht, Bool.false_eq_true, if_false]
                  rw [srcM_blank p w kids _ ht', ht']
          | list ord =>
            rw [hc] at h
            simp only [] at h ⊢
            exact srcL_want p w kids _ h
          | li =>
            rw [hc] at h
            simp only [] at h ⊢
            rw [squeeze_append, squeeze_append, srcLi_want p w kids _ h]
          | table => rfl
          | code => rfl
          | quote => rfl
          | void => rfl
          | other =>
            rw [hc] at h
            simp only [] at h ⊢
            cases inP with
            | false =>
              simp only [Bool.false_eq_true, if_false] at h ⊢
              exact srcL_want p w kids _ h
            | true =>
              simp only [if_true, Bool.and_eq_true] at h ⊢
              exact srcL_wantD p w kids _ h.1 h.2
theorem srcL_want (p : Pos → Dom → Bool) (w : Bool) :
    ∀ (ts : List Dom) (kp : Pos), okL ts = true → squeeze (srcL p w kp ts) = squeeze (wantL p w kp ts)
  | [], kp, _ => by simp [srcL, wantL]
  | k :: ks, kp, h => by
      simp only [okL, Bool.and_eq_true] at h
      simp only [srcL, wantL, squeeze_append, src_want p w k kp false h.1, srcL_want p w ks kp h.2]
theorem srcLi_want (p : Pos → Dom → Bool) (w : Bool) :
    ∀ (ts : List Dom) (kp : Pos), okLi ts = true → squeeze (srcLi p w kp ts) = squeeze (wantLi p w kp ts)
  | [], kp, _ => by simp [srcLi, wantLi]
  | k :: ks, kp, h => by
      simp only [okLi, Bool.and_eq_true] at h
      simp only [srcLi, wantLi, squeeze_append, srcLi_want p w ks kp h.2]
      congr 1
      by_cases hk : isListElem k = true
      · simp only [hk, if_true] at h ⊢
        exact src_want p w k kp false h.1
      · simp only [hk, Bool.false_eq_true, if_false]
/-- the children of a p/div with block-level children: inline children whole, the others by their
own rules (inside a paragraph: wrappers transparent) -/
theorem srcM_wantD (p : Pos → Dom → Bool) (w : Bool) :
    ∀ (ts : List Dom) (kp : Pos) (inP : Bool), okD inP ts = true →
      squeeze (srcM p w kp ts) = squeeze (wantD p w kp inP ts)
  | [], kp, inP, _ => by simp [srcM, wantD]
  | k :: ks, kp, inP, h => by
      simp only [okD, Bool.and_eq_true, Bool.or_eq_true] at h
      simp only [srcM, wantD, squeeze_append, srcM_wantD p w ks kp inP h.2]
      congr 1
      by_cases hk : isInline k = true
      · simp only [hk, if_true]
      · simp only [hk, Bool.false_eq_true, if_false]
        rcases h.1 with h1 | h1
        · exact absurd h1 hk
        · exact src_want p w k kp inP h1
/-- the children of a wrapper inside a paragraph: the reader traverses them all, `want` keeps the
inline ones whole — the same when those are blank -/
theorem srcL_wantD (p : Pos → Dom → Bool) (w : Bool) :
    ∀ (ts : List Dom) (kp : Pos), blankInline ts = true → okD true ts = true →
      squeeze (srcL p w kp ts) = squeeze (wantD p w kp true ts)
  | [], kp, _, _ => by simp [srcL, wantD]
  | k :: ks, kp, hb, h => by
      simp only [okD, Bool.and_eq_true, Bool.or_eq_true] at h
      simp only [blankInline, List.all_cons, Bool.and_eq_true] at hb
      simp only [srcL, wantD, squeeze_append, srcL_wantD p w ks kp hb.2 h.2]
      congr 1
      by_cases hk : isInline k = true
      · have hkb : squeeze (tnFlat k) = [] := by
          have := hb.1
          simpa [hk] using this
        simp only [hk, if_true]
        rw [src_blank p w k kp hkb, hkb]
      · simp only [hk, Bool.false_eq_true, if_false]
        rcases h.1 with h1 | h1
        · exact absurd h1 hk
        · exact src_want p w k kp true h1
end

end Tabula.Html
