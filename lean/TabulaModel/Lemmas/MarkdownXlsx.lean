import TabulaModel.Lemmas.MarkdownDoc
/-!
The inline table writer of `xlsx.(*Reader).markdown` and `findContentBounds`.
-/
namespace Tabula.MarkdownDoc
open Tabula.A1 (Str dec decInt)
open Tabula.Markdown

/-- the value a grid position shows: the cell's value when the cell exists and is not covered by
a merged region, else nothing -/
def xVal (rows : List (List XCell)) (r c : Nat) : Str :=
  match rows[r]? with
  | none => []
  | some row =>
    match row[c]? with
    | none => []
    | some cell => if cell.shown then cell.value else []

theorem escCell_xlsx_nil : escCell .xlsx [] = [] := rfl

theorem xCellOut_eq (rows : List (List XCell)) (r c : Nat) :
    xCellOut rows r c = escCell .xlsx (xVal rows r c) := by
  unfold xCellOut xVal
  cases h1 : rows[r]? with
  | none => rfl
  | some row =>
    simp only
    cases h2 : row[c]? with
    | none => rfl
    | some cell =>
      simp only
      by_cases hs : cell.shown = true
      · simp [hs]
      · simp [hs, escCell_xlsx_nil]

/-- the cells of grid row `r`: `n` columns from `minCol` -/
def xRowVals (rows : List (List XCell)) (r minCol n : Nat) : List Str :=
  (List.range n).map fun k => xVal rows r (minCol + k)

theorem xRow_eq (rows : List (List XCell)) (r minCol n : Nat) :
    xRow rows r minCol n = renderRow .xlsx (xRowVals rows r minCol n) ++ [10] := by
  unfold xRow xRowVals
  simp only [renderRow, rowPipe, List.map_map, List.flatMap_map]
  congr 2
  · congr 1
    funext k
    simp [xCellOut_eq]

/-- the grid the bounds cut out of the sheet: rows `minRow..maxRow`, columns `minCol..maxCol` -/
def xGrid (rows : List (List XCell)) (b : Bounds) : List (List Str) :=
  (List.range ((b.maxRow - b.minRow).toNat + 1)).map fun i =>
    xRowVals rows (b.minRow.toNat + i) b.minCol.toNat (b.maxCol - b.minCol + 1).toNat

theorem xGrid_cons (rows : List (List XCell)) (b : Bounds) :
    xGrid rows b = xRowVals rows b.minRow.toNat b.minCol.toNat (b.maxCol - b.minCol + 1).toNat ::
      (List.range (b.maxRow - b.minRow).toNat).map fun k =>
        xRowVals rows (b.minRow.toNat + 1 + k) b.minCol.toNat (b.maxCol - b.minCol + 1).toNat := by
  unfold xGrid
  rw [List.range_succ_eq_map]
  simp only [List.map_cons, Nat.add_zero, List.map_map]
  congr 1
  apply List.map_congr_left
  intro k _
  simp only [Function.comp]
  congr 1
  omega

/-- **the inline writer is the table writer**: what `markdown` writes for a sheet's used range is
`ParsedTable.ToMarkdown` of the grid (`render .xlsx`) -/
theorem xTable_eq_render (rows : List (List XCell)) (b : Bounds) :
    xTable rows b = render .xlsx (xGrid rows b) := by
  rw [xGrid_cons]
  simp only [xTable, render, xRow_eq]
  have hlen : (xRowVals rows b.minRow.toNat b.minCol.toNat (b.maxCol - b.minCol + 1).toNat).length
      = (b.maxCol - b.minCol + 1).toNat := by simp [xRowVals]
  rw [hlen]
  simp only [renderDelim, delimPipe, delimPiece, List.flatMap_map, List.append_assoc, List.cons_append]

/-! ## `findContentBounds` -/

def XCell.content (c : XCell) : Bool := !c.isEmpty && c.shown

def Bounds.covers (b : Bounds) (r c : Int) : Prop :=
  b.minRow ≤ r ∧ r ≤ b.maxRow ∧ b.minCol ≤ c ∧ c ≤ b.maxCol

theorem boundsCell_mono (r c : Int) (b : Bounds) (cell : XCell) (r' c' : Int) (h : b.covers r' c') :
    (boundsCell r c b cell).covers r' c' := by
  unfold boundsCell Bounds.covers at *
  split
  · simp only
    refine ⟨?_, ?_, ?_, ?_⟩ <;> split <;> omega
  · exact h

theorem boundsCell_self (r c : Int) (b : Bounds) (cell : XCell) (h : cell.content = true) :
    (boundsCell r c b cell).covers r c := by
  unfold boundsCell Bounds.covers
  have : (!cell.isEmpty && cell.shown) = true := h
  simp only [this, if_true]
  refine ⟨?_, ?_, ?_, ?_⟩ <;> split <;> omega

theorem boundsRow_mono (r : Int) (cells : List XCell) : ∀ (c : Int) (b : Bounds) (r' c' : Int),
    b.covers r' c' → (boundsRow r c b cells).covers r' c' := by
  induction cells with
  | nil => intro c b r' c' h; exact h
  | cons cell rest ih =>
    intro c b r' c' h
    exact ih (c + 1) _ r' c' (boundsCell_mono r c b cell r' c' h)

theorem boundsRow_covers (r : Int) (cells : List XCell) : ∀ (c : Int) (b : Bounds) (j : Nat) (cell : XCell),
    cells[j]? = some cell → cell.content = true → (boundsRow r c b cells).covers r (c + j) := by
  induction cells with
  | nil => intro c b j cell h; simp at h
  | cons x rest ih =>
    intro c b j cell hj hc
    cases j with
    | zero =>
      simp only [List.getElem?_cons_zero, Option.some.injEq] at hj
      subst hj
      have := boundsRow_mono r rest (c + 1) _ r c (boundsCell_self r c b x hc)
      simpa [boundsRow] using this
    | succ j =>
      simp only [List.getElem?_cons_succ] at hj
      have := ih (c + 1) (boundsCell r c b x) j cell hj hc
      simp only [boundsRow]
      have e : c + 1 + (j : Int) = c + ((j + 1 : Nat) : Int) := by omega
      rw [← e]
      exact this

theorem boundsRows_mono (rows : List (List XCell)) : ∀ (r : Int) (b : Bounds) (r' c' : Int),
    b.covers r' c' → (boundsRows r b rows).covers r' c' := by
  induction rows with
  | nil => intro r b r' c' h; exact h
  | cons row rest ih =>
    intro r b r' c' h
    exact ih (r + 1) _ r' c' (boundsRow_mono r row 0 b r' c' h)

theorem boundsRows_covers (rows : List (List XCell)) : ∀ (r : Int) (b : Bounds) (i j : Nat) (row : List XCell)
    (cell : XCell), rows[i]? = some row → row[j]? = some cell → cell.content = true →
    (boundsRows r b rows).covers (r + i) j := by
  induction rows with
  | nil => intro r b i j row cell h; simp at h
  | cons x rest ih =>
    intro r b i j row cell hi hj hc
    cases i with
    | zero =>
      simp only [List.getElem?_cons_zero, Option.some.injEq] at hi
      subst hi
      have h1 := boundsRow_covers r x 0 b j cell hj hc
      have := boundsRows_mono rest (r + 1) _ r (0 + j) h1
      simpa [boundsRows] using this
    | succ i =>
      simp only [List.getElem?_cons_succ] at hi
      have := ih (r + 1) (boundsRow r 0 b x) i j row cell hi hj hc
      simp only [boundsRows]
      have e : r + 1 + (i : Int) = r + ((i + 1 : Nat) : Int) := by omega
      rw [← e]
      exact this

end Tabula.MarkdownDoc
