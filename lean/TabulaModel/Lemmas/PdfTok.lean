import TabulaModel.Model.Spell
import TabulaModel.Lemmas.A1
import TabulaModel.Lemmas.PdfName
import TabulaModel.Lemmas.PdfStr
import TabulaModel.Lemmas.PdfHex
namespace Tabula.Pdf
open Tabula.A1 (atoi dec)

/-! Token level of property C06: `nextToken` reads every legal spelling of every token back,
and `lexSkip` reads through every legal separator.  Core Lean only. -/

namespace Tok

theorem skipWs_allWs (w rest : Str) (h : AllWs w) : skipWs (w ++ rest) = skipWs rest := by
  induction w with
  | nil => rfl
  | cons c w ih =>
    have hc : isWs c = true := h c (by simp)
    have hw : AllWs w := fun d hd => h d (by simp [hd])
    rw [List.cons_append, skipWs, if_pos hc, ih hw]

theorem skipWs_nonws (b : Nat) (r : Str) (h : isWs b = false) : skipWs (b :: r) = b :: r := by
  rw [skipWs]; simp [h]

/-- the body of `nextToken` after white space has been skipped -/
def dispatch (b : Nat) (r : Str) : Option (Token × Str) :=
  if b = 37 then
    let p := commentBody r
    some (.comment (37 :: p.1), p.2)
  else if b = 91 then some (.arrStart, r)
  else if b = 93 then some (.arrEnd, r)
  else if b = 40 then
    match strLoop 1 r with
    | none => none
    | some (v, r') => some (.str v, r')
  else if b = 60 then
    match r with
    | 60 :: r' => some (.dictStart, r')
    | _ =>
      match hexLoop r with
      | none => none
      | some (v, r') => some (.hexstr v, r')
  else if b = 62 then
    match r with
    | 62 :: r' => some (.dictEnd, r')
    | _ => none
  else if b = 47 then
    match nameLoop r with
    | none => none
    | some (v, r') => some (.name v, r')
  else if isDigit b || b = 45 || b = 43 || b = 46 then
    let p := numLoop false true (b :: r)
    some (if p.2.1 then .real p.1 else .integer p.1, p.2.2)
  else if isAlpha b then
    let v := (b :: r).takeWhile isAlnum
    let r' := (b :: r).dropWhile isAlnum
    some (if v = [82] then .ref else .keyword v, r')
  else none

theorem nextToken_cons (b : Nat) (r : Str) (h : isWs b = false) : nextToken (b :: r) = dispatch b r := by
  unfold nextToken
  rw [skipWs_nonws b r h]
  rfl

end Tok

theorem nextToken_ws (w rest : Str) (h : AllWs w) : nextToken (w ++ rest) = nextToken rest := by
  unfold nextToken
  rw [Tok.skipWs_allWs w rest h]

theorem nextToken_name (ps : List NPiece) (tail : Str) (hok : ∀ p ∈ ps, p.Ok) (ht : Terminated tail) :
    nextToken (47 :: renderName ps ++ tail) = some (.name (ps.map NPiece.byte), tail) := by
  rw [List.cons_append, Tok.nextToken_cons 47 _ (by decide)]
  simp only [Tok.dispatch]
  rw [nameLoop_roundtrip ps tail hok ht]
  simp

theorem nextToken_lit (ps : List SPiece) (tail : Str) (h : ValidStr 0 ps) :
    nextToken (renderStr ps ++ tail) = some (.str (strBytes ps), tail) := by
  have e : renderStr ps ++ tail = 40 :: (renderStrBody ps ++ 41 :: tail) := by
    simp [renderStr]
  rw [e, Tok.nextToken_cons 40 _ (by decide)]
  simp only [Tok.dispatch]
  rw [litstr_roundtrip ps tail h]
  simp

namespace Tok

theorem dispatch_hex (r ds tail : Str) (h : hexLoop r = some (ds, tail)) :
    dispatch 60 r = some (.hexstr ds, tail) := by
  cases r with
  | nil => simp [hexLoop] at h
  | cons c r' =>
    by_cases hc : c = 60
    · subst hc
      rw [hexLoop_bad 60 r' (by decide) (by decide) (by decide)] at h
      cases h
    · simp only [dispatch]
      simp [hc, h]

end Tok

theorem nextToken_hex (ps : List HPiece) (last : Option HLast) (wEnd tail : Str)
    (hps : ∀ p ∈ ps, p.Ok) (hlast : ∀ l, last = some l → l.Ok) (hw : AllWs wEnd) :
    ∃ ds, nextToken (renderHex ps last wEnd ++ tail) = some (.hexstr ds, tail) ∧ hexPairs ds = hexValueOf ps last := by
  obtain ⟨ds, h1, h2⟩ := hexstr_roundtrip ps last wEnd tail hps hlast hw
  refine ⟨ds, ?_, h2⟩
  rw [renderHex, List.cons_append, Tok.nextToken_cons 60 _ (by decide)]
  exact Tok.dispatch_hex _ ds tail h1

theorem nextToken_arrStart (tail : Str) : nextToken (91 :: tail) = some (.arrStart, tail) := by
  rw [Tok.nextToken_cons 91 _ (by decide)]; rfl
theorem nextToken_arrEnd (tail : Str) : nextToken (93 :: tail) = some (.arrEnd, tail) := by
  rw [Tok.nextToken_cons 93 _ (by decide)]; rfl
theorem nextToken_dictStart (tail : Str) : nextToken (60 :: 60 :: tail) = some (.dictStart, tail) := by
  rw [Tok.nextToken_cons 60 _ (by decide)]; rfl
theorem nextToken_dictEnd (tail : Str) : nextToken (62 :: 62 :: tail) = some (.dictEnd, tail) := by
  rw [Tok.nextToken_cons 62 _ (by decide)]; rfl

namespace Tok

def IsDigits (ds : Str) : Prop := ∀ c ∈ ds, 48 ≤ c ∧ c ≤ 57

theorem dec_digits (n : Nat) : IsDigits (dec n) := by
  unfold dec
  induction n using Nat.strongRecOn with
  | _ n ih =>
    rw [Tabula.A1.decAux]
    split
    · intro c hc
      simp at hc
      omega
    · rw [Tabula.A1.decAux_acc]
      intro c hc
      simp only [List.mem_append, List.mem_singleton] at hc
      rcases hc with hc | hc
      · exact ih (n / 10) (by omega) c hc
      · omega

theorem isDigit_of (c : Nat) (h : 48 ≤ c ∧ c ≤ 57) : isDigit c = true := by
  simp [isDigit, h.1, h.2]

theorem numLoop_stop (hasDec first : Bool) (tail : Str) (ht : Terminated tail) :
    numLoop hasDec first tail = ([], hasDec, tail) := by
  rcases ht with h | ⟨c, r, h, hc⟩
  · subst h; rfl
  · subst h
    have h46 : c ≠ 46 := by intro e; subst e; revert hc; decide
    have h45 : c ≠ 45 := by intro e; subst e; revert hc; decide
    have h43 : c ≠ 43 := by intro e; subst e; revert hc; decide
    have hd : isDigit c = false := by
      cases hdd : isDigit c with
      | false => rfl
      | true =>
        simp only [isDigit, Bool.and_eq_true, decide_eq_true_eq] at hdd
        have : c = 48 ∨ c = 49 ∨ c = 50 ∨ c = 51 ∨ c = 52 ∨ c = 53 ∨ c = 54 ∨ c = 55 ∨ c = 56 ∨ c = 57 := by omega
        rcases this with e | e | e | e | e | e | e | e | e | e <;> subst e <;> revert hc <;> decide
    rw [numLoop.eq_def]
    simp [h46, h45, h43, hd]

theorem numLoop_digit (hasDec first : Bool) (c : Nat) (r : Str) (hc : 48 ≤ c ∧ c ≤ 57) :
    numLoop hasDec first (c :: r) =
      (c :: (numLoop hasDec false r).1, (numLoop hasDec false r).2.1, (numLoop hasDec false r).2.2) := by
  have h46 : c ≠ 46 := by omega
  have hd := isDigit_of c hc
  rw [numLoop.eq_def]
  simp [h46, hd]

theorem numLoop_sign (hasDec : Bool) (c : Nat) (r : Str) (hc : c = 45 ∨ c = 43) :
    numLoop hasDec true (c :: r) =
      (c :: (numLoop hasDec false r).1, (numLoop hasDec false r).2.1, (numLoop hasDec false r).2.2) := by
  rw [numLoop.eq_def]
  rcases hc with e | e <;> subst e <;> simp

theorem numLoop_digits (first : Bool) (ds tail : Str) (hd : IsDigits ds) (ht : Terminated tail) :
    numLoop false first (ds ++ tail) = (ds, false, tail) := by
  induction ds generalizing first with
  | nil => exact numLoop_stop false first tail ht
  | cons c ds ih =>
    have hc := hd c (by simp)
    have hds : IsDigits ds := fun x hx => hd x (by simp [hx])
    rw [List.cons_append, numLoop_digit false first c _ hc, ih false hds]

theorem dispatch_num (b : Nat) (r : Str) (hb : (48 ≤ b ∧ b ≤ 57) ∨ b = 45 ∨ b = 43) :
    dispatch b r =
      some (if (numLoop false true (b :: r)).2.1 then .real (numLoop false true (b :: r)).1
            else .integer (numLoop false true (b :: r)).1, (numLoop false true (b :: r)).2.2) := by
  have h37 : b ≠ 37 := by omega
  have h91 : b ≠ 91 := by omega
  have h93 : b ≠ 93 := by omega
  have h40 : b ≠ 40 := by omega
  have h60 : b ≠ 60 := by omega
  have h62 : b ≠ 62 := by omega
  have h47 : b ≠ 47 := by omega
  have hn : (isDigit b || b = 45 || b = 43 || b = 46) = true := by
    rcases hb with h | h | h
    · simp [isDigit_of b h]
    · simp [h]
    · simp [h]
  simp only [dispatch, h37, h91, h93, h40, h60, h62, h47, if_false, hn, if_true]

theorem isWs_num (b : Nat) (hb : (48 ≤ b ∧ b ≤ 57) ∨ b = 45 ∨ b = 43) : isWs b = false := by
  simp [isWs]; omega

/-- optional sign, then at least one digit -/
theorem nextToken_numText (sign ds tail : Str) (hs : sign = [] ∨ sign = [45] ∨ sign = [43])
    (hd : IsDigits ds) (hne : ds ≠ []) (ht : Terminated tail) :
    nextToken (sign ++ ds ++ tail) = some (.integer (sign ++ ds), tail) := by
  rcases hs with e | e | e
  · subst e
    cases ds with
    | nil => exact absurd rfl hne
    | cons c ds' =>
      have hc := hd c (by simp)
      have hds : IsDigits ds' := fun x hx => hd x (by simp [hx])
      simp only [List.nil_append, List.cons_append]
      rw [nextToken_cons c _ (isWs_num c (Or.inl hc)), dispatch_num c _ (Or.inl hc),
        numLoop_digit false true c _ hc, numLoop_digits false ds' tail hds ht]
      simp
  · subst e
    simp only [List.cons_append, List.nil_append]
    rw [nextToken_cons 45 _ (by decide), dispatch_num 45 _ (by omega),
      numLoop_sign false 45 _ (by omega), numLoop_digits false ds tail hd ht]
    simp
  · subst e
    simp only [List.cons_append, List.nil_append]
    rw [nextToken_cons 43 _ (by decide), dispatch_num 43 _ (by omega),
      numLoop_sign false 43 _ (by omega), numLoop_digits false ds tail hd ht]
    simp

theorem isDigits_zeros_dec (zeros n : Nat) : IsDigits (List.replicate zeros 48 ++ dec n) := by
  intro c hc
  simp only [List.mem_append, List.mem_replicate] at hc
  rcases hc with hc | hc
  · omega
  · exact dec_digits n c hc

theorem zeros_dec_ne (zeros n : Nat) : List.replicate zeros 48 ++ dec n ≠ [] := by
  obtain ⟨d, ds, h, _⟩ := Tabula.A1.dec_head n
  rw [h]; simp

end Tok

theorem nextToken_int (plus : Bool) (zeros : Nat) (i : Int) (tail : Str) (ht : Terminated tail) :
    nextToken (printInt plus zeros i ++ tail) = some (.integer (printInt plus zeros i), tail) := by
  have e : printInt plus zeros i =
      (if i < 0 then [45] else if plus then [43] else []) ++ (List.replicate zeros 48 ++ dec i.natAbs) := by
    simp [printInt]
  rw [e]
  apply Tok.nextToken_numText _ _ tail _ (Tok.isDigits_zeros_dec zeros i.natAbs) (Tok.zeros_dec_ne zeros i.natAbs) ht
  split
  · simp
  · split <;> simp

theorem nextToken_dec (n : Nat) (tail : Str) (ht : Terminated tail) :
    nextToken (dec n ++ tail) = some (.integer (dec n), tail) := by
  have := Tok.nextToken_numText [] (dec n) tail (Or.inl rfl) (Tok.dec_digits n) ?_ ht
  · simpa using this
  · obtain ⟨d, ds, h, _⟩ := Tabula.A1.dec_head n
    rw [h]; simp

namespace Tok
open Tabula.A1 (digitsAcc maxInt64)

theorem digitsAcc_zeros (z : Nat) (s : Str) : digitsAcc (List.replicate z 48 ++ s) 0 = digitsAcc s 0 := by
  induction z with
  | zero => rfl
  | succ z ih =>
    rw [List.replicate_succ, List.cons_append, digitsAcc]
    simpa using ih

theorem digitsAcc_zeros_dec (z n : Nat) : digitsAcc (List.replicate z 48 ++ dec n) 0 = some n := by
  rw [digitsAcc_zeros, Tabula.A1.digitsAcc_dec]

theorem atoi_plus (ds : Str) (v : Nat) (hne : ds ≠ []) (h : digitsAcc ds 0 = some v) (hv : v ≤ maxInt64) :
    atoi (43 :: ds) = some (v : Int) := by
  cases ds with
  | nil => exact absurd rfl hne
  | cons d ds' => simp [atoi, h, hv]

theorem atoi_minus (ds : Str) (v : Nat) (hne : ds ≠ []) (h : digitsAcc ds 0 = some v) (hv : v ≤ maxInt64 + 1) :
    atoi (45 :: ds) = some (-(v : Int)) := by
  cases ds with
  | nil => exact absurd rfl hne
  | cons d ds' => simp [atoi, h, hv]

theorem atoi_nosign (ds : Str) (v : Nat) (hne : ds ≠ []) (hd : IsDigits ds) (h : digitsAcc ds 0 = some v)
    (hv : v ≤ maxInt64) : atoi ds = some (v : Int) := by
  cases ds with
  | nil => exact absurd rfl hne
  | cons d ds' =>
    have hc := hd d (by simp)
    have h43 : d ≠ 43 := by omega
    have h45 : d ≠ 45 := by omega
    unfold atoi
    split
    · rename_i heq
      split at heq
      · rename_i h'; simp at h'; omega
      · rename_i h'; simp at h'; omega
      · simp at heq
        obtain ⟨hn, hds⟩ := heq
        subst hn; subst hds
        simp [h, hv]

end Tok

theorem atoi_printInt (plus : Bool) (zeros : Nat) (i : Int) (h1 : -(2 ^ 63 : Int) ≤ i) (h2 : i < (2 ^ 63 : Int)) :
    atoi (printInt plus zeros i) = some i := by
  have hp : (2 : Int) ^ 63 = 9223372036854775808 := by decide
  rw [hp] at h1 h2
  have hdig := Tok.digitsAcc_zeros_dec zeros i.natAbs
  have hne := Tok.zeros_dec_ne zeros i.natAbs
  have hds := Tok.isDigits_zeros_dec zeros i.natAbs
  have e : printInt plus zeros i =
      (if i < 0 then [45] else if plus then [43] else []) ++ (List.replicate zeros 48 ++ dec i.natAbs) := by
    simp [printInt]
  rw [e]
  by_cases hneg : i < 0
  · rw [if_pos hneg]
    rw [show [45] ++ (List.replicate zeros 48 ++ dec i.natAbs) = 45 :: (List.replicate zeros 48 ++ dec i.natAbs) from rfl]
    rw [Tok.atoi_minus _ i.natAbs hne hdig (by unfold Tabula.A1.maxInt64; omega)]
    congr 1; omega
  · rw [if_neg hneg]
    cases plus with
    | true =>
      rw [if_pos rfl]
      rw [show [43] ++ (List.replicate zeros 48 ++ dec i.natAbs) = 43 :: (List.replicate zeros 48 ++ dec i.natAbs) from rfl]
      rw [Tok.atoi_plus _ i.natAbs hne hdig (by unfold Tabula.A1.maxInt64; omega)]
      congr 1; omega
    | false =>
      simp only [Bool.false_eq_true, if_false, List.nil_append]
      rw [Tok.atoi_nosign _ i.natAbs hne hds hdig (by unfold Tabula.A1.maxInt64; omega)]
      congr 1; omega

namespace Tok

theorem term_not_alnum (c : Nat) (h : (isWs c || isDelim c) = true) : isAlnum c = false := by
  simp only [isWs, isDelim, Bool.or_eq_true, beq_iff_eq] at h
  cases ha : isAlnum c with
  | false => rfl
  | true =>
    simp only [isAlnum, isAlpha, isDigit, Bool.or_eq_true, Bool.and_eq_true, decide_eq_true_eq] at ha
    omega

theorem alnum_split (v tail : Str) (hv : ∀ c ∈ v, isAlnum c = true) (ht : Terminated tail) :
    (v ++ tail).takeWhile isAlnum = v ∧ (v ++ tail).dropWhile isAlnum = tail := by
  induction v with
  | nil =>
    rcases ht with h | ⟨c, r, h, hc⟩
    · subst h; simp
    · subst h
      have := term_not_alnum c hc
      simp [this]
  | cons c v ih =>
    have hc := hv c (by simp)
    have ih' := ih (fun x hx => hv x (by simp [hx]))
    simp [hc, ih'.1, ih'.2]

theorem dispatch_alpha (b : Nat) (r : Str) (h : isAlpha b = true) :
    dispatch b r =
      some (if (b :: r).takeWhile isAlnum = [82] then .ref else .keyword ((b :: r).takeWhile isAlnum),
        (b :: r).dropWhile isAlnum) := by
  have hb : (97 ≤ b ∧ b ≤ 122) ∨ (65 ≤ b ∧ b ≤ 90) := by
    simpa [isAlpha] using h
  have h37 : b ≠ 37 := by omega
  have h91 : b ≠ 91 := by omega
  have h93 : b ≠ 93 := by omega
  have h40 : b ≠ 40 := by omega
  have h60 : b ≠ 60 := by omega
  have h62 : b ≠ 62 := by omega
  have h47 : b ≠ 47 := by omega
  have hn : (isDigit b || b = 45 || b = 43 || b = 46) = false := by
    simp [isDigit]; omega
  simp only [dispatch, h37, h91, h93, h40, h60, h62, h47, if_false, hn, h, if_true, Bool.false_eq_true]

theorem isWs_alpha (b : Nat) (h : isAlpha b = true) : isWs b = false := by
  have hb : (97 ≤ b ∧ b ≤ 122) ∨ (65 ≤ b ∧ b ≤ 90) := by
    simpa [isAlpha] using h
  simp [isWs]; omega

/-- a word of letters and digits that starts with a letter -/
theorem nextToken_word (b : Nat) (v tail : Str) (hb : isAlpha b = true) (hv : ∀ c ∈ v, isAlnum c = true)
    (ht : Terminated tail) :
    nextToken (b :: v ++ tail) = some (if b :: v = [82] then .ref else .keyword (b :: v), tail) := by
  have hbv : ∀ c ∈ b :: v, isAlnum c = true := by
    intro c hc
    simp only [List.mem_cons] at hc
    rcases hc with hc | hc
    · subst hc; simp [isAlnum, hb]
    · exact hv c hc
  have hs := alnum_split (b :: v) tail hbv ht
  rw [List.cons_append] at hs ⊢
  rw [nextToken_cons b _ (isWs_alpha b hb), dispatch_alpha b _ hb, hs.1, hs.2]

end Tok

theorem nextToken_kw (kw tail : Str) (hkw : kw = kwNull ∨ kw = kwTrue ∨ kw = kwFalse) (ht : Terminated tail) :
    nextToken (kw ++ tail) = some (.keyword kw, tail) := by
  rcases hkw with e | e | e <;> subst e
  · have := Tok.nextToken_word 110 [117, 108, 108] tail (by decide) (by decide) ht
    simpa [kwNull] using this
  · have := Tok.nextToken_word 116 [114, 117, 101] tail (by decide) (by decide) ht
    simpa [kwTrue] using this
  · have := Tok.nextToken_word 102 [97, 108, 115, 101] tail (by decide) (by decide) ht
    simpa [kwFalse] using this

theorem nextToken_R (tail : Str) (ht : Terminated tail) : nextToken (82 :: tail) = some (.ref, tail) := by
  have := Tok.nextToken_word 82 [] tail (by decide) (by simp) ht
  simpa using this

namespace Tok

theorem lexSkip_ws (f : Nat) (w rest : Str) (h : AllWs w) : lexSkip f (w ++ rest) = lexSkip f rest := by
  cases f with
  | zero => rfl
  | succ f => simp only [lexSkip, nextToken_ws w rest h]

theorem lexSkip_comment (f : Nat) (r : Str) : lexSkip (f + 1) (37 :: r) = lexSkip f (commentBody r).2 := by
  simp only [lexSkip, nextToken_cons 37 r (by decide), dispatch, if_true]

theorem lexSkip_token (f : Nat) (X : Str) (t : Token) (r : Str) (hX : nextToken X = some (t, r))
    (hc : ∀ v, t ≠ .comment v) : lexSkip (f + 1) X = some (t, r) := by
  cases t with
  | comment v => exact absurd rfl (hc v)
  | _ => simp only [lexSkip, hX]

theorem commentBody_text (t s : Str) (ht : ∀ c ∈ t, c ≠ 10 ∧ c ≠ 13) :
    (commentBody (t ++ s)).2 = (commentBody s).2 := by
  induction t with
  | nil => rfl
  | cons c t ih =>
    have hc := ht c (by simp)
    have ih' := ih (fun x hx => ht x (by simp [hx]))
    rw [List.cons_append, commentBody.eq_def]
    simp [hc.1, hc.2, ih']

theorem commentBody_eol (e rest : Str) (he : e = [10] ∨ e = [13] ∨ e = [13, 10]) :
    (commentBody (e ++ rest)).2 = rest ∨ rest = 10 :: (commentBody (e ++ rest)).2 := by
  rcases he with h | h | h <;> subst h
  · left; simp [commentBody]
  · cases rest with
    | nil => left; simp [commentBody]
    | cons c r' =>
      by_cases hc : c = 10
      · subst hc; right; simp [commentBody]
      · left; simp [commentBody, hc]
  · left; simp [commentBody]

/-- after a comment the lexer goes on as if it stood right behind the end-of-line marker -/
theorem lexSkip_after_comment (f : Nat) (t e rest : Str) (ht : ∀ c ∈ t, c ≠ 10 ∧ c ≠ 13)
    (he : e = [10] ∨ e = [13] ∨ e = [13, 10]) :
    lexSkip (f + 1) (37 :: (t ++ e) ++ rest) = lexSkip f rest := by
  rw [List.cons_append, lexSkip_comment, List.append_assoc, commentBody_text t _ ht]
  rcases commentBody_eol e rest he with h | h
  · rw [h]
  · have hw : AllWs [10] := by intro c hc; simp at hc; subst hc; decide
    have := lexSkip_ws f [10] (commentBody (e ++ rest)).2 hw
    rw [show [10] ++ (commentBody (e ++ rest)).2 = 10 :: (commentBody (e ++ rest)).2 from rfl, ← h] at this
    exact this.symm

end Tok

/-- lexing through a separator: white space is skipped, comments are dropped by `lexSkip`.
`X` is what follows the separator -/
theorem lexSkip_sep (us : Sep) (X : Str) (t : Token) (r : Str) (f : Nat)
    (hus : SepOk us) (hX : nextToken X = some (t, r)) (hc : ∀ v, t ≠ .comment v)
    (hf : us.length + 1 ≤ f) :
    lexSkip f (renderSep us ++ X) = some (t, r) := by
  induction us generalizing f with
  | nil =>
    cases f with
    | zero => simp at hf
    | succ f => simpa [renderSep] using Tok.lexSkip_token f X t r hX hc
  | cons u us ih =>
    have hu : u.Ok := hus u (by simp)
    have hus' : SepOk us := fun x hx => hus x (by simp [hx])
    have e : renderSep (u :: us) ++ X = u.render ++ (renderSep us ++ X) := by
      simp [renderSep]
    rw [e]
    cases u with
    | ws b =>
      have hw : AllWs [b] := by intro c hc; simp at hc; subst hc; exact hu
      simp only [SepUnit.render]
      rw [Tok.lexSkip_ws f [b] _ hw]
      exact ih f hus' (by simp only [List.length_cons] at hf; omega)
    | comment tx el =>
      obtain ⟨ht, he⟩ := hu
      cases f with
      | zero => simp at hf
      | succ f =>
        simp only [SepUnit.render]
        rw [Tok.lexSkip_after_comment f tx el _ ht he]
        exact ih f hus' (by simp only [List.length_cons] at hf; omega)

/-- a non-empty legal separator starts with white space or `%`, so it terminates any token -/
theorem sep_terminated (us : Sep) (rest : Str) (hus : SepOk us) (hne : us ≠ []) : Terminated (renderSep us ++ rest) := by
  cases us with
  | nil => exact absurd rfl hne
  | cons u us =>
    have hu : u.Ok := hus u (by simp)
    right
    cases u with
    | ws b =>
      refine ⟨b, renderSep us ++ rest, by simp [renderSep, SepUnit.render], ?_⟩
      have : isWs b = true := hu
      simp [this]
    | comment tx el =>
      refine ⟨37, (tx ++ el) ++ (renderSep us ++ rest), by simp [renderSep, SepUnit.render], by decide⟩

end Tabula.Pdf
