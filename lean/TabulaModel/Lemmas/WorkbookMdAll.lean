import TabulaModel.Lemmas.WorkbookMd
/-!
The Markdown of several sheets read back sheet by sheet (C17): the text is the sheets' lines with
two blank lines between sheets; a reader that cuts it at the heading lines finds each table.
-/
namespace Tabula.Wb
open Tabula.A1 Tabula.Sheet

/-- a line with its newline -/
def nl (l : Str) : Str := l ++ [10]

/-- the lines of the Markdown table of a sheet ([] for a sheet without content) -/
def tableLines (s : Sheet) : List Str :=
  if (sheetToTable s).headers.isEmpty then []
  else rowLine (sheetToTable s).headers :: sepLine (sheetToTable s).headers :: (sheetToTable s).rows.map rowLine

/-- the lines of one sheet's block: heading, blank line, table lines -/
def sheetLines (lvl : Nat) (s : Sheet) : List Str := [headingLine lvl s.name, []] ++ tableLines s

theorem headers_isEmpty_iff (s : Sheet) (hrect : Rect (s.maxCol + 1) s.rows) :
    (sheetToTable s).headers.isEmpty = (findContentBounds s).isEmpty := by
  cases hne : (findContentBounds s).isEmpty with
  | true => simp [sheetToTable, hne]
  | false =>
    obtain ⟨_, hbox⟩ := sheetToTable_box s hrect hne
    obtain ⟨cells, hcells, hb⟩ := boxCells_cons s hrect hne
    obtain ⟨_, f2, _, f4, _, _⟩ := box_facts s hrect hne
    rw [boxTable_eq_boxCells, hb, List.map_cons] at hbox
    have hh := (List.cons.inj hbox).1
    have hlen : (sheetToTable s).headers.length = (findContentBounds s).nC := by
      rw [← hh, List.length_map, List.length_take, List.length_drop]
      have := hrect cells (List.mem_of_getElem? hcells)
      omega
    cases hx : (sheetToTable s).headers with
    | nil => rw [hx] at hlen; simp at hlen; omega
    | cons _ _ => rfl

theorem sheetMd_lines (lvl : Nat) (s : Sheet) (hrect : Rect (s.maxCol + 1) s.rows) :
    sheetMd lvl s = (sheetLines lvl s).flatMap nl := by
  unfold sheetMd sheetHeading sheetLines tableLines
  rw [sheetTableMd_eq s hrect]
  cases hh : (sheetToTable s).headers.isEmpty with
  | true =>
    have : (sheetToTable s).toMarkdown = [] := by
      have hne : (findContentBounds s).isEmpty = true := by rw [← headers_isEmpty_iff s hrect]; exact hh
      simp [sheetToTable, hne, PTable.toMarkdown]
    rw [this]
    simp [nl, headingLine]
  | false =>
    rw [toMarkdown_lines _ hh]
    have e : (fun (l : Str) => l ++ [10]) = nl := rfl
    simp [e, nl, headingLine]

/-- the sheets' line lists with two blank lines between consecutive sheets -/
def joinSheets : List (List Str) → List Str
  | [] => []
  | [L] => L
  | L :: rest => L ++ [[], []] ++ joinSheets rest

theorem intercalate_sheets (Ls : List (List Str)) :
    intercalate [10, 10] (Ls.map fun L => L.flatMap nl) = (joinSheets Ls).flatMap nl := by
  induction Ls with
  | nil => rfl
  | cons L rest ih =>
    cases rest with
    | nil => rfl
    | cons L' rest' =>
      have e : intercalate [10, 10] ((L :: L' :: rest').map fun L => L.flatMap nl) =
          L.flatMap nl ++ [10, 10] ++ intercalate [10, 10] ((L' :: rest').map fun L => L.flatMap nl) := by
        simp [intercalate]
      rw [e, ih]
      simp [joinSheets, List.flatMap_append, nl]

/-! ## the section reader -/

def isHeading (l : Str) : Bool := l.head? == some 35

/-- the lines after the `(k+1)`-th heading line -/
def dropHeadings : Nat → List Str → List Str
  | _, [] => []
  | k, l :: ls =>
    if isHeading l then (match k with | 0 => ls | k + 1 => dropHeadings k ls)
    else dropHeadings k ls

/-- the lines of section `k`: after its heading, up to the next heading -/
def sectionLines (k : Nat) (lines : List Str) : List Str :=
  (dropHeadings k lines).takeWhile fun l => !isHeading l

/-- **reader of the Markdown of a workbook**: the table under the `(k+1)`-th heading -/
def mdReadSheet (k : Nat) (md : Str) : List (List Str) :=
  dropSecond ((sectionLines k (splitOn 10 md)).filterMap mdParseLine)

theorem isHeading_headingLine (lvl : Nat) (name : Str) (hl : 1 ≤ lvl) : isHeading (headingLine lvl name) = true := by
  obtain ⟨k, rfl⟩ : ∃ k, lvl = k + 1 := ⟨lvl - 1, by omega⟩
  simp [isHeading, headingLine, List.replicate_succ]

theorem tableLines_not_heading (s : Sheet) : ∀ l ∈ tableLines s, isHeading l = false := by
  intro l hl
  unfold tableLines at hl
  split at hl
  · cases hl
  · simp only [List.mem_cons, List.mem_map] at hl
    rcases hl with rfl | rfl | ⟨r, _, rfl⟩ <;> simp [isHeading, rowLine, sepLine]

theorem dropHeadings_not_heading (k : Nat) (pre rest : List Str) (h : ∀ l ∈ pre, isHeading l = false) :
    dropHeadings k (pre ++ rest) = dropHeadings k rest := by
  induction pre with
  | nil => rfl
  | cons p ps ih =>
    simp only [List.cons_append, dropHeadings, h p (by simp), Bool.false_eq_true, if_false]
    exact ih (fun l hl => h l (by simp [hl]))

theorem takeWhile_not_heading (pre rest : List Str) (h : ∀ l ∈ pre, isHeading l = false) :
    (pre ++ rest).takeWhile (fun l => !isHeading l) = pre ++ rest.takeWhile (fun l => !isHeading l) := by
  induction pre with
  | nil => rfl
  | cons p ps ih =>
    simp only [List.cons_append, List.takeWhile_cons, h p (by simp), Bool.not_false, if_true]
    rw [ih (fun l hl => h l (by simp [hl]))]

/-- the joined lines of a non-empty list of sheets start with the first sheet's heading -/
theorem joinSheets_head (lvl : Nat) (s1 : Sheet) (rest : List Sheet) :
    ∃ xs, joinSheets ((s1 :: rest).map (sheetLines lvl)) = headingLine lvl s1.name :: xs := by
  cases rest with
  | nil => exact ⟨_, rfl⟩
  | cons s2 rest' => exact ⟨_, rfl⟩

/-- the `k`-th section of the joined lines holds exactly the table lines of the `k`-th sheet -/
theorem section_tableLines (lvl : Nat) (hl : 1 ≤ lvl) (ss : List Sheet) (k : Nat) (s : Sheet) (hk : ss[k]? = some s) :
    (sectionLines k (joinSheets (ss.map (sheetLines lvl)))).filterMap mdParseLine =
      (tableLines s).filterMap mdParseLine := by
  induction ss generalizing k with
  | nil => simp at hk
  | cons s0 rest ih =>
    have hhead := isHeading_headingLine lvl s0.name hl
    have hnh : ∀ l ∈ ([] : Str) :: tableLines s0, isHeading l = false := by
      intro l hl'
      rcases List.mem_cons.mp hl' with rfl | h
      · rfl
      · exact tableLines_not_heading s0 l h
    cases rest with
    | nil =>
      cases k with
      | zero =>
        simp only [List.getElem?_cons_zero, Option.some.injEq] at hk
        subst hk
        unfold sectionLines
        simp only [List.map_cons, List.map_nil, joinSheets, sheetLines, List.cons_append, List.nil_append,
          dropHeadings, hhead, if_true]
        have := takeWhile_not_heading (([] : Str) :: tableLines s0) [] hnh
        rw [List.append_nil] at this
        rw [this, List.takeWhile_nil, List.append_nil, List.filterMap_cons]
        rfl
      | succ k => simp at hk
    | cons s1 rest' =>
      obtain ⟨xs, hxs⟩ := joinSheets_head lvl s1 rest'
      have hh1 := isHeading_headingLine lvl s1.name hl
      have hj : joinSheets ((s0 :: s1 :: rest').map (sheetLines lvl)) =
          headingLine lvl s0.name :: ((([] : Str) :: tableLines s0) ++
            ([] :: [] :: joinSheets ((s1 :: rest').map (sheetLines lvl)))) := by
        simp [joinSheets, sheetLines]
      cases k with
      | zero =>
        simp only [List.getElem?_cons_zero, Option.some.injEq] at hk
        subst hk
        unfold sectionLines
        rw [hj]
        simp only [dropHeadings, hhead, if_true]
        rw [takeWhile_not_heading _ _ hnh, hxs]
        have e : List.takeWhile (fun l => !isHeading l) (([] : Str) :: [] :: headingLine lvl s1.name :: xs) = [[], []] := by
          simp [hh1, show isHeading ([] : Str) = false from rfl]
        have e2 : List.filterMap mdParseLine [([] : Str), []] = [] := rfl
        rw [e, List.filterMap_append, e2, List.append_nil, List.filterMap_cons]
        rfl
      | succ k =>
        simp only [List.getElem?_cons_succ] at hk
        unfold sectionLines
        rw [hj]
        simp only [dropHeadings, hhead, if_true]
        rw [dropHeadings_not_heading k _ _ hnh]
        have e : dropHeadings k (([] : Str) :: [] :: joinSheets ((s1 :: rest').map (sheetLines lvl))) =
            dropHeadings k (joinSheets ((s1 :: rest').map (sheetLines lvl))) := by
          have := dropHeadings_not_heading k [([] : Str), []] (joinSheets ((s1 :: rest').map (sheetLines lvl)))
            (by intro l hl'; simp only [List.mem_cons, List.not_mem_nil, or_false] at hl'; rcases hl' with rfl | rfl <;> rfl)
          simpa using this
        rw [e]
        exact ih k hk

/-! ## the whole text -/

theorem joinSheets_mem (Ls : List (List Str)) (l : Str) (h : l ∈ joinSheets Ls) : l = [] ∨ ∃ L ∈ Ls, l ∈ L := by
  induction Ls with
  | nil => cases h
  | cons L rest ih =>
    cases rest with
    | nil => exact Or.inr ⟨L, by simp, by simpa [joinSheets] using h⟩
    | cons L' rest' =>
      have h' : l ∈ L ∨ l = [] ∨ l = [] ∨ l ∈ joinSheets (L' :: rest') := by
        simpa [joinSheets] using h
      rcases h' with h | h | h | h
      · exact Or.inr ⟨L, by simp, h⟩
      · exact Or.inl h
      · exact Or.inl h
      · rcases ih h with h' | ⟨M, hM, h'⟩
        · exact Or.inl h'
        · exact Or.inr ⟨M, by simp [hM], h'⟩

theorem joinSheets_append_last (Ls : List (List Str)) (L : List Str) :
    ∃ pre, joinSheets (Ls ++ [L]) = pre ++ L := by
  induction Ls with
  | nil => exact ⟨[], rfl⟩
  | cons M rest ih =>
    obtain ⟨pre, hpre⟩ := ih
    cases hr : rest ++ [L] with
    | nil => simp at hr
    | cons X Y =>
      refine ⟨M ++ [[], []] ++ pre, ?_⟩
      simp only [List.cons_append, hr, joinSheets]
      rw [← hr, hpre]
      simp

theorem tableLines_clean (s : Sheet) : ∀ l ∈ tableLines s, 10 ∉ l := by
  intro l hl
  unfold tableLines at hl
  split at hl
  · cases hl
  · simp only [List.mem_cons, List.mem_map] at hl
    rcases hl with rfl | rfl | ⟨r, _, rfl⟩
    · exact not_mem_rowLine _
    · exact not_mem_sepLine _
    · exact not_mem_rowLine _

theorem headingLine_clean (lvl : Nat) (name : Str) (h : 10 ∉ name) : 10 ∉ headingLine lvl name := by
  unfold headingLine
  intro h'
  simp only [List.mem_append, List.mem_replicate, List.mem_singleton] at h'
  rcases h' with (⟨_, h'⟩ | h') | h'
  · cases h'
  · cases h'
  · exact h h'

theorem tableLines_last_ends (s : Sheet) (hne : (sheetToTable s).headers.isEmpty = false) :
    ∃ T i, tableLines s = T ++ [i ++ [124]] := by
  unfold tableLines
  simp only [hne, Bool.false_eq_true, if_false]
  rcases List.eq_nil_or_concat (sheetToTable s).rows with h | ⟨R, b, h⟩
  · obtain ⟨i, hi⟩ := sepLine_ends (sheetToTable s).headers
    exact ⟨[rowLine (sheetToTable s).headers], i, by rw [h, hi]; rfl⟩
  · obtain ⟨i, hi⟩ := rowLine_ends b
    exact ⟨rowLine (sheetToTable s).headers :: sepLine (sheetToTable s).headers :: R.map rowLine, i, by
      rw [h, List.concat_eq_append, List.map_append, ← hi]; rfl⟩

/-- the table lines of a sheet read back: its content box (nothing for a sheet without content) -/
theorem tableLines_read (s : Sheet) (hrect : Rect (s.maxCol + 1) s.rows) :
    dropSecond ((tableLines s).filterMap mdParseLine) =
      if (findContentBounds s).isEmpty then [] else (boxTable s).map (·.map pad) := by
  unfold tableLines
  rw [headers_isEmpty_iff s hrect]
  cases hne : (findContentBounds s).isEmpty with
  | true => rfl
  | false =>
    simp only [Bool.false_eq_true, if_false]
    have hh : (sheetToTable s).headers.isEmpty = false := by rw [headers_isEmpty_iff s hrect]; exact hne
    have := mdRead_lines [] (sheetToTable s) hh (by simp) [] (by simp)
    simp only [List.nil_append, List.append_nil] at this
    rw [this, (sheetToTable_box s hrect hne).2]

/-- **the Markdown of several sheets, trimmed, read back sheet by sheet** (the last sheet has
content, so that what `strings.TrimSpace` removes is the final newline) -/
theorem mdReadSheet_all (lvl : Nat) (hl : 1 ≤ lvl) (init : List Sheet) (last : Sheet)
    (hrect : ∀ s ∈ init ++ [last], Rect (s.maxCol + 1) s.rows)
    (hnames : ∀ s ∈ init ++ [last], 10 ∉ s.name)
    (hlast : (findContentBounds last).isEmpty = false)
    (k : Nat) (s : Sheet) (hk : (init ++ [last])[k]? = some s) :
    mdReadSheet k (HF.trimSpace (intercalate [10, 10] ((init ++ [last]).map (sheetMd lvl)))) =
      if (findContentBounds s).isEmpty then [] else (boxTable s).map (·.map pad) := by
  have hs : s ∈ init ++ [last] := List.mem_of_getElem? hk
  have e1 : (init ++ [last]).map (sheetMd lvl) = ((init ++ [last]).map (sheetLines lvl)).map fun L => L.flatMap nl := by
    rw [List.map_map]
    apply List.map_congr_left
    intro t ht
    exact sheetMd_lines lvl t (hrect t ht)
  rw [e1, intercalate_sheets]
  -- the joined lines: first a heading, last a table line
  have hlastne : (sheetToTable last).headers.isEmpty = false := by
    rw [headers_isEmpty_iff last (hrect last (by simp))]; exact hlast
  obtain ⟨T, i, hT⟩ := tableLines_last_ends last hlastne
  obtain ⟨pre, hpre⟩ := joinSheets_append_last (init.map (sheetLines lvl)) (sheetLines lvl last)
  have hA : joinSheets ((init ++ [last]).map (sheetLines lvl)) =
      (pre ++ [headingLine lvl last.name, []] ++ T) ++ [i ++ [124]] := by
    rw [List.map_append, List.map_cons, List.map_nil, hpre]
    unfold sheetLines
    rw [hT]
    simp
  obtain ⟨s1, rest1, hcons⟩ : ∃ s1 rest1, init ++ [last] = s1 :: rest1 := by
    cases init with
    | nil => exact ⟨last, [], rfl⟩
    | cons a b => exact ⟨a, b ++ [last], rfl⟩
  obtain ⟨xs, hxs⟩ := joinSheets_head lvl s1 rest1
  obtain ⟨kk, hkk⟩ : ∃ kk, lvl = kk + 1 := ⟨lvl - 1, by omega⟩
  have hclean : ∀ l ∈ joinSheets ((init ++ [last]).map (sheetLines lvl)), 10 ∉ l := by
    intro l hl'
    rcases joinSheets_mem _ l hl' with rfl | ⟨L, hL, hl''⟩
    · simp
    · obtain ⟨t, ht, rfl⟩ := List.mem_map.mp hL
      simp only [sheetLines, List.cons_append, List.nil_append, List.mem_cons] at hl''
      rcases hl'' with rfl | rfl | hl''
      · exact headingLine_clean lvl t.name (hnames t ht)
      · simp
      · exact tableLines_clean t l hl''
  -- trim: only the final newline goes
  have htrim : HF.trimSpace ((joinSheets ((init ++ [last]).map (sheetLines lvl))).flatMap nl) =
      (pre ++ [headingLine lvl last.name, []] ++ T).flatMap nl ++ (i ++ [124]) := by
    have hstart : ∃ z, (pre ++ [headingLine lvl last.name, []] ++ T).flatMap nl ++ i = 35 :: z := by
      have : joinSheets ((init ++ [last]).map (sheetLines lvl)) = headingLine lvl s1.name :: xs := by
        rw [hcons]; exact hxs
      rw [hA] at this
      have hhd : ((pre ++ [headingLine lvl last.name, []] ++ T).flatMap nl ++ i).head? = some 35 := by
        cases hP : pre ++ [headingLine lvl last.name, []] ++ T with
        | nil => simp at hP
        | cons p ps =>
          rw [hP] at this
          simp only [List.cons_append, List.cons.injEq] at this
          rw [this.1, hkk]
          simp [nl, headingLine, List.replicate_succ]
      cases hX : (pre ++ [headingLine lvl last.name, []] ++ T).flatMap nl ++ i with
      | nil => rw [hX] at hhd; cases hhd
      | cons a z =>
        rw [hX] at hhd
        simp only [List.head?_cons, Option.some.injEq] at hhd
        exact ⟨z, by rw [hhd]⟩
    obtain ⟨z, hz⟩ := hstart
    rw [hA, List.flatMap_append]
    have e : (pre ++ [headingLine lvl last.name, []] ++ T).flatMap nl ++ [i ++ [124]].flatMap nl =
        35 :: (z ++ [124, 10]) := by
      simp only [List.flatMap_cons, List.flatMap_nil, List.append_nil, nl]
      rw [← List.append_assoc, ← List.append_assoc, hz]
      simp
    rw [e, trimSpace_hash_pipe, ← List.append_assoc, hz]
    simp
  unfold mdReadSheet
  rw [htrim]
  have hsplit := splitOn_lines (pre ++ [headingLine lvl last.name, []] ++ T) (i ++ [124])
    (fun l hl' => hclean l (by rw [hA]; exact List.mem_append_left _ hl'))
    (hclean _ (by rw [hA]; simp))
  have hnl : (fun (l : Str) => l ++ [10]) = nl := rfl
  rw [hnl] at hsplit
  rw [hsplit, ← hA, section_tableLines lvl hl _ k s hk]
  exact tableLines_read s (hrect s hs)

end Tabula.Wb
