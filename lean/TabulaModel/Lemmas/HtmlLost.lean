import TabulaModel.Model.HtmlLost
import TabulaModel.Lemmas.HtmlWant
import TabulaModel.Lemmas.HtmlRepair
/-!
Helper lemmas for C19 (Props/C19Lost.lean): the wanted text is an order-preserving interleaving
(`Shuffle`) of the source text and the lost text, for every tree, predicate and position — no
hypothesis on the document.
-/
namespace Tabula.Html

/-- `c` is an interleaving of `a` and `b`: every element of `c` comes from exactly one of the two,
and each of them keeps its order -/
inductive Shuffle {α : Type} : List α → List α → List α → Prop
  | nil : Shuffle [] [] []
  | left (x : α) {a b c : List α} : Shuffle a b c → Shuffle (x :: a) b (x :: c)
  | right (x : α) {a b c : List α} : Shuffle a b c → Shuffle a (x :: b) (x :: c)

namespace Shuffle
variable {α : Type}

theorem nil_right : ∀ (a : List α), Shuffle a [] a
  | [] => .nil
  | x :: xs => .left x (nil_right xs)

theorem nil_left : ∀ (b : List α), Shuffle [] b b
  | [] => .nil
  | x :: xs => .right x (nil_left xs)

theorem append {a b c a' b' c' : List α} (h : Shuffle a b c) (h' : Shuffle a' b' c') :
    Shuffle (a ++ a') (b ++ b') (c ++ c') := by
  induction h with
  | nil => exact h'
  | left x _ ih => exact .left x ih
  | right x _ ih => exact .right x ih

theorem sublist_left {a b c : List α} (h : Shuffle a b c) : a.Sublist c := by
  induction h with
  | nil => exact .slnil
  | left x _ ih => exact ih.cons_cons x
  | right x _ ih => exact ih.cons x

theorem sublist_right {a b c : List α} (h : Shuffle a b c) : b.Sublist c := by
  induction h with
  | nil => exact .slnil
  | left x _ ih => exact ih.cons x
  | right x _ ih => exact ih.cons_cons x

theorem perm {a b c : List α} (h : Shuffle a b c) : c.Perm (a ++ b) := by
  induction h with
  | nil => exact .nil
  | left x _ ih => exact ih.cons x
  | right x _ ih => exact (ih.cons x).trans List.perm_middle.symm

theorem length {a b c : List α} (h : Shuffle a b c) : c.length = a.length + b.length := by
  induction h with
  | nil => rfl
  | left x _ ih => simp [ih]; omega
  | right x _ ih => simp [ih]; omega

theorem of_nil_right {a c : List α} (h : Shuffle a [] c) : c = a := by
  generalize hb : ([] : List α) = b at h
  induction h with
  | nil => rfl
  | left x _ ih => rw [ih hb]
  | right x _ _ => cases hb

/-- nothing is missing exactly when the second part is empty -/
theorem eq_left_iff {a b c : List α} (h : Shuffle a b c) : c = a ↔ b = [] := by
  constructor
  · intro e
    have := h.length
    rw [e] at this
    exact List.eq_nil_of_length_eq_zero (by omega)
  · intro e; subst e; exact h.of_nil_right

end Shuffle

/-- inline content has no source text of its own (it is only ever part of a run) -/
theorem src_inline_blank (p : Pos → Dom → Bool) (w : Bool) (k : Dom) (pos : Pos)
    (h : isInline k = true) : squeeze (src p w pos k) = [] := by
  rw [← atoms_src p w k pos ⟨false, 0⟩, atoms_inline p w k pos _ h]; rfl

mutual
theorem want_shuffle (p : Pos → Dom → Bool) (w : Bool) :
    ∀ (t : Dom) (pos : Pos) (inP : Bool),
      Shuffle (squeeze (src p w pos t)) (squeeze (lost p w pos inP t)) (squeeze (want p w pos inP t))
  | .text _, pos, inP => by simp [src, want, lost, squeeze]; exact .nil
  | .other kids, pos, inP => by
      simp only [src, want, lost]
      cases inP with
      | false =>
        simp only [Bool.false_eq_true, if_false]
        exact wantL_shuffle p w kids _
      | true =>
        simp only [if_true]
        exact wantW_shuffle p w kids _
  | .elem tag attrs kids, pos, inP => by
      unfold src want lost
      by_cases hs : isSkip tag = true
      · simp only [hs, if_true]; exact .nil
      · by_cases hp : p pos (.elem tag attrs kids) = true
        · simp only [hs, hp, if_true, if_false, Bool.false_eq_true]; exact .nil
        · simp only [hs, hp, if_false, Bool.false_eq_true]
          cases hc : classify tag with
          | heading lvl => exact Shuffle.nil_right _
          | pdiv isP =>
            cases isP with
            | false =>
              simp only []
              split
              · exact Shuffle.nil_right _
              · exact wantD_shuffle p w kids _ inP
            | true =>
              simp only []
              by_cases hb : isBlockContainer kids = true
              · simp only [hb, Bool.not_true, Bool.and_false, Bool.false_eq_true, if_false]
                exact wantD_shuffle p w kids _ true
              · have hb' : isBlockContainer kids = false := by simpa using hb
                simp only [hb', Bool.not_false, Bool.and_true, if_true]
                by_cases ht : (squeeze (tnFlatL kids) != []) = true
                · simp only [ht, if_true]; exact Shuffle.nil_right _
                · have ht' : squeeze (tnFlatL kids) = [] := by simpa using ht
                  simp only [ht, Bool.false_eq_true, if_false]
                  rw [srcM_blank p w kids _ ht', ht']
                  exact .nil
          | list ord => exact wantL_shuffle p w kids _
          | li =>
            simp only []
            rw [squeeze_append, squeeze_append]
            exact (Shuffle.nil_right _).append (wantLi_shuffle p w kids _)
          | table => exact Shuffle.nil_right _
          | code => exact Shuffle.nil_right _
          | quote => exact Shuffle.nil_right _
          | void => exact .nil
          | other =>
            simp only []
            cases inP with
            | false =>
              simp only [Bool.false_eq_true, if_false]
              exact wantL_shuffle p w kids _
            | true =>
              simp only [if_true]
              exact wantW_shuffle p w kids _
theorem wantL_shuffle (p : Pos → Dom → Bool) (w : Bool) :
    ∀ (ts : List Dom) (kp : Pos),
      Shuffle (squeeze (srcL p w kp ts)) (squeeze (lostL p w kp ts)) (squeeze (wantL p w kp ts))
  | [], kp => by simp [srcL, wantL, lostL, squeeze]; exact .nil
  | k :: ks, kp => by
      simp only [srcL, wantL, lostL, squeeze_append]
      exact (want_shuffle p w k kp false).append (wantL_shuffle p w ks kp)
theorem wantLi_shuffle (p : Pos → Dom → Bool) (w : Bool) :
    ∀ (ts : List Dom) (kp : Pos),
      Shuffle (squeeze (srcLi p w kp ts)) (squeeze (lostLi p w kp ts)) (squeeze (wantLi p w kp ts))
  | [], kp => by simp [srcLi, wantLi, lostLi, squeeze]; exact .nil
  | k :: ks, kp => by
      simp only [srcLi, wantLi, lostLi, squeeze_append]
      refine Shuffle.append ?_ (wantLi_shuffle p w ks kp)
      by_cases hk : isListElem k = true
      · simp only [hk, if_true]; exact want_shuffle p w k kp false
      · simp only [hk, Bool.false_eq_true, if_false]; exact .nil
theorem wantD_shuffle (p : Pos → Dom → Bool) (w : Bool) :
    ∀ (ts : List Dom) (kp : Pos) (inP : Bool),
      Shuffle (squeeze (srcM p w kp ts)) (squeeze (lostD p w kp inP ts)) (squeeze (wantD p w kp inP ts))
  | [], kp, inP => by simp [srcM, wantD, lostD, squeeze]; exact .nil
  | k :: ks, kp, inP => by
      simp only [srcM, wantD, lostD, squeeze_append]
      refine Shuffle.append ?_ (wantD_shuffle p w ks kp inP)
      by_cases hk : isInline k = true
      · simp only [hk, if_true]; exact Shuffle.nil_right _
      · simp only [hk, Bool.false_eq_true, if_false]; exact want_shuffle p w k kp inP
theorem wantW_shuffle (p : Pos → Dom → Bool) (w : Bool) :
    ∀ (ts : List Dom) (kp : Pos),
      Shuffle (squeeze (srcL p w kp ts)) (squeeze (lostW p w kp ts)) (squeeze (wantD p w kp true ts))
  | [], kp => by simp [srcL, wantD, lostW, squeeze]; exact .nil
  | k :: ks, kp => by
      simp only [srcL, wantD, lostW, squeeze_append]
      refine Shuffle.append ?_ (wantW_shuffle p w ks kp)
      by_cases hk : isInline k = true
      · simp only [hk, if_true]
        rw [src_inline_blank p w k kp hk]
        exact Shuffle.nil_left _
      · simp only [hk, Bool.false_eq_true, if_false]; exact want_shuffle p w k kp true
end

/-! ### `noWrapped` documents lose nothing, under every predicate -/

theorem lost_of_ok (p : Pos → Dom → Bool) (w : Bool) (t : Dom) (pos : Pos) (inP : Bool)
    (h : okP inP t = true) : squeeze (lost p w pos inP t) = [] :=
  ((want_shuffle p w t pos inP).eq_left_iff).mp (src_want p w t pos inP h).symm

end Tabula.Html
