import TabulaModel.Lemmas.Conserve
import TabulaModel.Lemmas.OverlapValid
import TabulaModel.Lemmas.Codec
/-!
C13, deepening round: the overlap of EVERY strategy (character, sentence, paragraph, and
the truncation `truncateOverlap`) of a valid UTF-8 chunk is valid UTF-8 and its
non-whitespace characters are a suffix of those of the chunk (`generateOverlap_spec`).

Ingredients: `[]rune`/`WriteRune` round trip (`Lemmas/Codec.lean`); the sentence splitter of
overlap.go cuts the re-encoded text into trimmed pieces whatever `isSentenceEndRune` decides
(`sentencesLoop_pieces`); `strings.Split(text, "\n")` and the paragraph loop keep the content
(`splitIntoParagraphs_spec`); the backward loop of `truncateOverlap` selects a suffix of the
sentence list (`fitLast_suffix`).
-/
set_option linter.unusedVariables false
namespace Tabula.Overlap
open Tabula.Split


/-! ### general facts -/

/-- if a string and a suffix of it are valid, so is the prefix before that suffix -/
theorem validUtf8_of_append_right (a b : Str) (hab : validUtf8 (a ++ b) = true)
    (hb : validUtf8 b = true) : validUtf8 a = true := by
  generalize hn : a.length = n
  induction n using Nat.strongRecOn generalizing a with
  | _ n ih =>
    by_cases ha : a = []
    · subst ha; exact validUtf8_nil
    · have hne : a ++ b ≠ [] := by simp [ha]
      have hc := charLen_ne_zero_of_valid hne hab
      by_cases hk : charLen (a ++ b) ≤ a.length
      · have h1 : charLen ((a ++ b).take (charLen (a ++ b))) = charLen (a ++ b) :=
          charLen_take _ _ hc (Nat.le_refl _)
        rw [List.take_append_of_le_length hk] at h1
        have h2 : charLen a = charLen (a ++ b) := by
          have := charLen_append (a.take (charLen (a ++ b))) (a.drop (charLen (a ++ b))) (by rw [h1]; exact hc)
          rw [List.take_append_drop] at this
          rw [this, h1]
        have hca : charLen a ≠ 0 := by rw [h2]; exact hc
        rw [validUtf8_step a hca]
        rw [validUtf8_step _ hc, ← h2, List.drop_append_of_le_length (charLen_le_length a)] at hab
        have hpos : 0 < a.length := List.length_pos_iff.mpr ha
        exact ih (a.drop (charLen a)).length (by simp only [List.length_drop]; omega) _ hab rfl
      · exfalso
        have hpos : 0 < a.length := List.length_pos_iff.mpr ha
        obtain ⟨x, hx1, hx2⟩ := charLen_cont (a ++ b) a.length hpos (by omega)
        have hx3 : b[0]? = some x := by
          rw [List.getElem?_append_right (Nat.le_refl _)] at hx1
          simpa using hx1
        have hbne : b ≠ [] := by intro e; subst e; simp at hx3
        obtain ⟨y, hy1, hy2⟩ := charLen_head b (charLen_ne_zero_of_valid hbne hb)
        rw [hx3] at hy1
        cases hy1
        exact isCont_not_runeStart hx2 hy2

theorem valid_wsOnly {g : Str} (hg : WsOnly g) : validUtf8 g = true := by
  induction hg with
  | nil => exact validUtf8_nil
  | @cons c s hc _ ih =>
    apply validUtf8_append _ _ _ ih
    have h0 : spaceLen c ≠ 0 := by
      rw [hc.2]; exact Nat.ne_of_gt (List.length_pos_iff.mpr hc.1)
    have e := charLen_of_spaceLen c h0
    rw [validUtf8_step c (by rw [e]; exact h0), e, hc.2, List.drop_length]
    exact validUtf8_nil

theorem Pieces.append {a b : Str} {ps qs : List Str} (h1 : Pieces a ps) (h2 : Pieces b qs) :
    Pieces (a ++ b) (ps ++ qs) := by
  induction h1 with
  | done hg => exact h2.prepend hg
  | @piece g p r ps hg _ ih =>
    have : g ++ p ++ r ++ b = g ++ p ++ (r ++ b) := by simp [List.append_assoc]
    rw [this]
    exact .piece hg ih

/-- `trimSpace x` as zero or one piece of `x` -/
def emit (x : Str) : List Str := if trimSpace x = [] then [] else [trimSpace x]

theorem emit_pieces (x : Str) : Pieces x (emit x) := by
  unfold emit
  split
  · rename_i h; exact .done (wsOnly_of_trimSpace_nil x h)
  · obtain ⟨l, r, hl, hr, e⟩ := trimSpace_decomp x
    exact (Pieces.piece (p := trimSpace x) hl (.done hr)).cast e

theorem emit_valid (x : Str) (hv : validUtf8 x = true) : ∀ t ∈ emit x, validUtf8 t = true := by
  unfold emit
  split
  · simp
  · intro t ht; simp at ht; subst ht; exact valid_trimSpace x hv

theorem valid_joinWith (sep : Str) (hs : validUtf8 sep = true) (ps : List Str)
    (hv : ∀ p ∈ ps, validUtf8 p = true) : validUtf8 (joinWith sep ps) = true := by
  induction ps with
  | nil => exact validUtf8_nil
  | cons p rest ih =>
    rw [joinWith_cons]
    have hp := hv p (List.mem_cons_self ..)
    split
    · exact hp
    · exact validUtf8_append _ _ (validUtf8_append _ _ hp hs) (ih fun q hq => hv q (List.mem_cons_of_mem _ hq))

/-- joining valid pieces with a whitespace separator keeps exactly their content -/
theorem stripWs_joinWith (sep : Str) (hs : WsOnly sep) (ps : List Str)
    (hv : ∀ p ∈ ps, validUtf8 p = true) : stripWs (joinWith sep ps) = ps.flatMap stripWs := by
  induction ps with
  | nil => simp [joinWith, stripWs_nil]
  | cons p rest ih =>
    rw [joinWith_cons]
    have hp := hv p (List.mem_cons_self ..)
    split
    · rename_i h; subst h; simp
    · rw [List.append_assoc, stripWs_valid_append p _ hp, stripWs_wsOnly_append hs,
        ih fun q hq => hv q (List.mem_cons_of_mem _ hq), List.flatMap_cons]

theorem wsOnly_space : WsOnly [32] := WsOnly.single ⟨by simp, by decide⟩
theorem wsOnly_nl : WsOnly [10] := WsOnly.single ⟨by simp, by decide⟩
theorem wsOnly_nlnl : WsOnly [10, 10] := WsOnly.cons (c := [10]) ⟨by simp, by decide⟩ wsOnly_nl

/-! ### the sentence splitter of overlap.go -/

theorem encodeRunes_append (a b : List Nat) : encodeRunes (a ++ b) = encodeRunes a ++ encodeRunes b := by
  simp [encodeRunes]

theorem drop_getR (runes : Array Nat) (i : Nat) (h : i < runes.size) :
    runes.toList.drop i = getR runes i :: runes.toList.drop (i + 1) := by
  have hl : i < runes.toList.length := by simpa using h
  rw [List.drop_eq_getElem_cons hl]
  congr 1
  unfold getR
  simp [h]

theorem skipSpaces_spec (runes : Array Nat) (fuel i : Nat) :
    i ≤ skipSpaces runes fuel i ∧ ∃ g, WsOnly g ∧
      encodeRunes (runes.toList.drop (i + 1)) = g ++ encodeRunes (runes.toList.drop (skipSpaces runes fuel i + 1)) := by
  induction fuel generalizing i with
  | zero => exact ⟨Nat.le_refl _, [], .nil, rfl⟩
  | succ n ih =>
    unfold skipSpaces
    split
    · rename_i h
      simp only [Bool.and_eq_true, decide_eq_true_eq] at h
      obtain ⟨h1, g, hg, e⟩ := ih (i + 1)
      refine ⟨by omega, encodeRune (getR runes (i + 1)) ++ g, ?_, ?_⟩
      · exact (WsOnly.single (wsChar_encodeRune _ h.2)).append hg
      · rw [drop_getR runes (i + 1) h.1, encodeRunes_cons, e, List.append_assoc]
    · exact ⟨Nat.le_refl _, [], .nil, rfl⟩

theorem sentencesLoop_zero (cl : Classes) (runes : Array Nat) (i : Nat) (cur : List Nat) (acc : List Str) :
    sentencesLoop cl runes 0 i cur acc = acc.reverse ++ emit (encodeRunes cur.reverse) := rfl

theorem sentencesLoop_succ (cl : Classes) (runes : Array Nat) (fuel i : Nat) (cur : List Nat) (acc : List Str) :
    sentencesLoop cl runes (fuel + 1) i cur acc =
      if i ≥ runes.size then acc.reverse ++ emit (encodeRunes cur.reverse)
      else if ((getR runes i == 46 || getR runes i == 33 || getR runes i == 63) && isSentenceEndRune cl runes i) = true then
        sentencesLoop cl runes fuel (skipSpaces runes runes.size i + 1) []
          (if trimSpace (encodeRunes (getR runes i :: cur).reverse) = [] then acc
           else trimSpace (encodeRunes (getR runes i :: cur).reverse) :: acc)
      else sentencesLoop cl runes fuel (i + 1) (getR runes i :: cur) acc := rfl

theorem sentencesLoop_pieces (cl : Classes) (runes : Array Nat) (fuel i : Nat) (cur : List Nat)
    (acc : List Str) (hf : runes.size < i + fuel) :
    ∃ rest, sentencesLoop cl runes fuel i cur acc = acc.reverse ++ rest
      ∧ Pieces (encodeRunes cur.reverse ++ encodeRunes (runes.toList.drop i)) rest
      ∧ ∀ t ∈ rest, validUtf8 t = true := by
  induction fuel generalizing i cur acc with
  | zero =>
    refine ⟨emit (encodeRunes cur.reverse), sentencesLoop_zero .., ?_, emit_valid _ (valid_encodeRunes _)⟩
    have : runes.toList.drop i = [] := List.drop_eq_nil_of_le (by simp; omega)
    rw [this]
    simpa [encodeRunes] using emit_pieces (encodeRunes cur.reverse)
  | succ n ih =>
    rw [sentencesLoop_succ]
    by_cases hi : i ≥ runes.size
    · rw [if_pos hi]
      refine ⟨emit (encodeRunes cur.reverse), rfl, ?_, emit_valid _ (valid_encodeRunes _)⟩
      have : runes.toList.drop i = [] := List.drop_eq_nil_of_le (by simp; omega)
      rw [this]
      simpa [encodeRunes] using emit_pieces (encodeRunes cur.reverse)
    · rw [if_neg hi]
      have hlt : i < runes.size := by omega
      have htext : encodeRunes cur.reverse ++ encodeRunes (runes.toList.drop i)
          = encodeRunes (getR runes i :: cur).reverse ++ encodeRunes (runes.toList.drop (i + 1)) := by
        rw [drop_getR runes i hlt, encodeRunes_cons, List.reverse_cons, encodeRunes_append,
          List.append_assoc]
        simp [encodeRunes]
      rw [htext]
      split
      · obtain ⟨hj, g, hg, eg⟩ := skipSpaces_spec runes runes.size i
        obtain ⟨rest, e, hp, hv⟩ := ih (skipSpaces runes runes.size i + 1) []
          (if trimSpace (encodeRunes (getR runes i :: cur).reverse) = [] then acc
           else trimSpace (encodeRunes (getR runes i :: cur).reverse) :: acc) (by omega)
        refine ⟨emit (encodeRunes (getR runes i :: cur).reverse) ++ rest, ?_, ?_, ?_⟩
        · rw [e]
          unfold emit
          split <;> simp
        · rw [eg]
          apply Pieces.append (emit_pieces _)
          have : Pieces (encodeRunes (runes.toList.drop (skipSpaces runes runes.size i + 1))) rest := by
            simpa [encodeRunes] using hp
          exact this.prepend hg
        · intro t ht
          rcases List.mem_append.mp ht with ht | ht
          · exact emit_valid _ (valid_encodeRunes _) t ht
          · exact hv t ht
      · exact ih (i + 1) (getR runes i :: cur) acc (by omega)

/-- the sentences are, in order, disjoint substrings of the re-encoded text with
whitespace-only gaps, and each is valid UTF-8 -/
theorem splitIntoSentences_pieces (cl : Classes) (text : Str) :
    Pieces (encodeRunes (decodeRunes text)) (splitIntoSentences cl text)
      ∧ ∀ t ∈ splitIntoSentences cl text, validUtf8 t = true := by
  unfold splitIntoSentences
  obtain ⟨rest, e, hp, hv⟩ := sentencesLoop_pieces cl (decodeRunes text).toArray
    ((decodeRunes text).toArray.size + 1) 0 [] [] (by omega)
  simp only at e ⊢
  rw [e]
  simp only [List.reverse_nil, List.nil_append]
  refine ⟨?_, hv⟩
  simpa [encodeRunes] using hp

theorem splitIntoSentences_content (cl : Classes) (text : Str) (hv : validUtf8 text = true) :
    (splitIntoSentences cl text).flatMap stripWs = stripWs text := by
  obtain ⟨hp, hval⟩ := splitIntoSentences_pieces cl text
  rw [encode_decode text hv] at hp
  exact hp.stripWs_eq hval

/-! ### the paragraph splitter of overlap.go -/

theorem splitLines_ne_nil (text acc : Str) : splitLines text acc ≠ [] := by
  induction text generalizing acc with
  | nil => simp [splitLines]
  | cons c rest ih =>
    unfold splitLines
    split
    · simp
    · exact ih _

theorem splitLines_join (text acc : Str) : joinWith [10] (splitLines text acc) = acc.reverse ++ text := by
  induction text generalizing acc with
  | nil => simp [splitLines, joinWith]
  | cons c rest ih =>
    unfold splitLines
    split
    · rename_i h
      subst h
      rw [joinWith_cons, if_neg (splitLines_ne_nil rest []), ih []]
      simp
    · rw [ih (c :: acc)]
      simp

/-- cutting a valid string at an ASCII byte leaves two valid strings -/
theorem valid_split_ascii (a y : Str) (b : Nat) (hb : b < 0x80)
    (h : validUtf8 (a ++ [b] ++ y) = true) : validUtf8 a = true ∧ validUtf8 y = true := by
  have hi : (a ++ [b] ++ y)[a.length]? = some b := by
    rw [List.append_assoc, List.getElem?_append_right (Nat.le_refl _)]
    simp
  have h1 := valid_take_after_ascii _ h a.length b hi hb
  have e1 : (a ++ [b] ++ y).take (a.length + 1) = a ++ [b] := by
    have : (a ++ [b]).length = a.length + 1 := by simp
    rw [← this, List.take_left]
  have h2 := valid_drop_of_valid_take _ h _ h1
  have e2 : (a ++ [b] ++ y).drop (a.length + 1) = y := by
    have : (a ++ [b]).length = a.length + 1 := by simp
    rw [← this, List.drop_left]
  rw [e1] at h1
  rw [e2] at h2
  have hb1 : validUtf8 [b] = true := by
    have h3 : charLen [b] = 1 := charLen_one hb
    rw [validUtf8_step [b] (by rw [h3]; exact Nat.one_ne_zero), h3]
    exact validUtf8_nil
  exact ⟨validUtf8_of_append_right a [b] h1 hb1, h2⟩

theorem valid_of_joinWith_nl (ls : List Str) (h : validUtf8 (joinWith [10] ls) = true) :
    ∀ l ∈ ls, validUtf8 l = true := by
  induction ls with
  | nil => simp
  | cons l rest ih =>
    rw [joinWith_cons] at h
    split at h
    · rename_i hr; subst hr
      intro x hx; simp at hx; subst hx; exact h
    · obtain ⟨h1, h2⟩ := valid_split_ascii l (joinWith [10] rest) 10 (by decide) h
      intro x hx
      rcases List.mem_cons.mp hx with hx | hx
      · subst hx; exact h1
      · exact ih h2 x hx

theorem splitLines_valid (text : Str) (hv : validUtf8 text = true) :
    ∀ l ∈ splitLines text [], validUtf8 l = true := by
  apply valid_of_joinWith_nl
  rw [splitLines_join]
  simpa using hv

theorem splitLines_content (text : Str) (hv : validUtf8 text = true) :
    (splitLines text []).flatMap stripWs = stripWs text := by
  have := stripWs_joinWith [10] wsOnly_nl (splitLines text []) (splitLines_valid text hv)
  rw [splitLines_join] at this
  simpa using this.symm

/-- one iteration of the loop of `splitIntoParagraphs` -/
def paraStep (st : Str × List Str) (line : Str) : Str × List Str :=
  let trimmed := trimSpace line
  if trimmed = [] then
    (if st.1 ≠ [] then ([], trimSpace st.1 :: st.2) else st)
  else ((if st.1 ≠ [] then st.1 ++ [32] else st.1) ++ trimmed, st.2)

def paraFinish (st : Str × List Str) : List Str :=
  (if st.1 ≠ [] then trimSpace st.1 :: st.2 else st.2).reverse

theorem splitIntoParagraphs_eq (text : Str) :
    splitIntoParagraphs text = paraFinish ((splitLines text []).foldl paraStep ([], [])) := rfl

/-- invariant: current paragraph and finished paragraphs are valid and carry the content
of the lines read so far -/
def ParaInv (content : Str) (st : Str × List Str) : Prop :=
  validUtf8 st.1 = true ∧ (∀ p ∈ st.2, validUtf8 p = true)
    ∧ st.2.reverse.flatMap stripWs ++ stripWs st.1 = content

theorem paraStep_inv (content : Str) (st : Str × List Str) (line : Str) (hl : validUtf8 line = true)
    (h : ParaInv content st) : ParaInv (content ++ stripWs line) (paraStep st line) := by
  obtain ⟨h1, h2, h3⟩ := h
  unfold paraStep
  simp only
  have hts := stripWs_trimSpace line hl
  by_cases ht : trimSpace line = []
  · rw [if_pos ht]
    have hz : stripWs line = [] := by rw [← hts, ht, stripWs_nil]
    rw [hz, List.append_nil]
    by_cases hc : st.1 ≠ []
    · rw [if_pos hc]
      refine ⟨validUtf8_nil, ?_, ?_⟩
      · intro p hp
        rcases List.mem_cons.mp hp with hp | hp
        · subst hp; exact valid_trimSpace _ h1
        · exact h2 p hp
      · simp only [List.reverse_cons, List.flatMap_append, List.flatMap_cons, List.flatMap_nil,
          List.append_nil, stripWs_nil]
        rw [stripWs_trimSpace _ h1]; exact h3
    · rw [if_neg hc]; exact ⟨h1, h2, h3⟩
  · rw [if_neg ht]
    have hcur : validUtf8 (if st.1 ≠ [] then st.1 ++ [32] else st.1) = true := by
      split
      · exact validUtf8_append _ _ h1 (valid_wsOnly wsOnly_space)
      · exact h1
    have hcs : stripWs (if st.1 ≠ [] then st.1 ++ [32] else st.1) = stripWs st.1 := by
      split
      · rw [stripWs_valid_append _ _ h1, stripWs_wsOnly wsOnly_space, List.append_nil]
      · rfl
    refine ⟨validUtf8_append _ _ hcur (valid_trimSpace _ hl), h2, ?_⟩
    simp only
    rw [stripWs_valid_append _ _ hcur, hcs, hts, ← List.append_assoc, h3]

theorem paraFold_inv (lines : List Str) (hl : ∀ l ∈ lines, validUtf8 l = true) (content : Str)
    (st : Str × List Str) (h : ParaInv content st) :
    ParaInv (content ++ lines.flatMap stripWs) (lines.foldl paraStep st) := by
  induction lines generalizing content st with
  | nil => simpa using h
  | cons l rest ih =>
    rw [List.foldl_cons, List.flatMap_cons, ← List.append_assoc]
    exact ih (fun x hx => hl x (List.mem_cons_of_mem _ hx)) _ _
      (paraStep_inv content st l (hl l (List.mem_cons_self ..)) h)

theorem splitIntoParagraphs_spec (text : Str) (hv : validUtf8 text = true) :
    (∀ p ∈ splitIntoParagraphs text, validUtf8 p = true)
      ∧ (splitIntoParagraphs text).flatMap stripWs = stripWs text := by
  rw [splitIntoParagraphs_eq]
  have inv := paraFold_inv (splitLines text []) (splitLines_valid text hv) [] ([], [])
    ⟨validUtf8_nil, by simp, by simp [stripWs_nil]⟩
  rw [List.nil_append, splitLines_content text hv] at inv
  obtain ⟨h1, h2, h3⟩ := inv
  generalize (splitLines text []).foldl paraStep ([], []) = st at h1 h2 h3
  unfold paraFinish
  by_cases hc : st.1 ≠ []
  · rw [if_pos hc]
    constructor
    · intro p hp
      rw [List.mem_reverse] at hp
      rcases List.mem_cons.mp hp with hp | hp
      · subst hp; exact valid_trimSpace _ h1
      · exact h2 p hp
    · simp only [List.reverse_cons, List.flatMap_append, List.flatMap_cons, List.flatMap_nil,
        List.append_nil]
      rw [stripWs_trimSpace _ h1]; exact h3
  · rw [if_neg hc]
    have hc' : st.1 = [] := by simpa using hc
    rw [hc', stripWs_nil, List.append_nil] at h3
    exact ⟨fun p hp => h2 p (List.mem_reverse.mp hp), h3⟩

/-! ### suffixes of content -/

/-- `b`'s non-whitespace content is a suffix of `a`'s -/
def ContentSuffix (a b : Str) : Prop := ∃ x, stripWs a = x ++ stripWs b

theorem ContentSuffix.refl (a : Str) : ContentSuffix a a := ⟨[], rfl⟩

theorem ContentSuffix.trans {a b c : Str} (h1 : ContentSuffix a b) (h2 : ContentSuffix b c) :
    ContentSuffix a c := by
  obtain ⟨x, e1⟩ := h1
  obtain ⟨y, e2⟩ := h2
  exact ⟨x ++ y, by rw [e1, e2, List.append_assoc]⟩

theorem contentSuffix_nil (a : Str) : ContentSuffix a [] := ⟨stripWs a, by simp [stripWs_nil]⟩

/-- the last pieces of a list, joined by a whitespace separator and trimmed -/
theorem contentSuffix_join_drop (text sep : Str) (hs : WsOnly sep) (ps : List Str) (k : Nat)
    (hv : ∀ p ∈ ps, validUtf8 p = true) (hc : ps.flatMap stripWs = stripWs text) :
    ContentSuffix text (trimSpace (joinWith sep (ps.drop k)))
      ∧ validUtf8 (trimSpace (joinWith sep (ps.drop k))) = true := by
  have hvd : ∀ p ∈ ps.drop k, validUtf8 p = true := fun p hp => hv p (List.mem_of_mem_drop hp)
  have hj := valid_joinWith sep (valid_wsOnly hs) _ hvd
  refine ⟨⟨(ps.take k).flatMap stripWs, ?_⟩, valid_trimSpace _ hj⟩
  rw [stripWs_trimSpace _ hj, stripWs_joinWith sep hs _ hvd, ← List.flatMap_append,
    List.take_append_drop, hc]

/-- a structural suffix up to trailing whitespace is a content suffix -/
theorem contentSuffix_of_decomp {text a res r : Str} (hv : validUtf8 text = true)
    (hres : validUtf8 res = true) (hr : WsOnly r) (e : text = a ++ res ++ r) :
    ContentSuffix text res := by
  have hrr : validUtf8 (res ++ r) = true := validUtf8_append _ _ hres (valid_wsOnly hr)
  have ha : validUtf8 a = true := by
    apply validUtf8_of_append_right a (res ++ r) _ hrr
    rw [← List.append_assoc, ← e]; exact hv
  refine ⟨stripWs a, ?_⟩
  rw [e, List.append_assoc, stripWs_valid_append a _ ha, stripWs_valid_append res _ hres,
    stripWs_wsOnly hr, List.append_nil]

theorem contentSuffix_charOverlap (c : OverlapConfig) (text : Str) (hv : validUtf8 text = true) :
    ContentSuffix text (generateCharacterOverlap c text) := by
  obtain ⟨a, r, hr, e⟩ := generateCharacterOverlap_suffix c text
  exact contentSuffix_of_decomp hv (valid_generateCharacterOverlap c text hv) hr e

theorem tailAtRuneBoundary_spec (s : Str) (n : Nat) (hv : validUtf8 s = true) :
    validUtf8 (tailAtRuneBoundary s n) = true ∧ ContentSuffix s (tailAtRuneBoundary s n) := by
  unfold tailAtRuneBoundary
  split
  · exact ⟨hv, .refl s⟩
  · have h1 := valid_skipCont_drop s hv (s.length - n)
    refine ⟨h1, ?_⟩
    obtain ⟨a1, e1⟩ := skipCont_suffix (s.drop (s.length - n))
    have e : s = (s.take (s.length - n) ++ a1) ++ skipCont (s.drop (s.length - n)) ++ [] := by
      rw [List.append_nil, List.append_assoc, ← e1, List.take_append_drop]
    exact contentSuffix_of_decomp hv h1 .nil e

/-- what the backward loop of `truncateOverlap` selects is a suffix of the sentence list -/
theorem fitLast_suffix (max : Nat) (rev : List Str) (size : Nat) (acc : List Str) :
    ∃ pre, rev.reverse ++ acc = pre ++ fitLast max rev size acc := by
  induction rev generalizing size acc with
  | nil => exact ⟨[], by simp [fitLast]⟩
  | cons s rest ih =>
    rw [fitLast_cons]
    by_cases hfit : size + (s.length + (if size > 0 then 1 else 0)) > max
    · rw [if_pos hfit]; exact ⟨(s :: rest).reverse, rfl⟩
    · rw [if_neg hfit]
      obtain ⟨pre, e⟩ := ih (size + (s.length + (if size > 0 then 1 else 0))) (s :: acc)
      exact ⟨pre, by rw [← e]; simp⟩

theorem truncateOverlap_spec (cl : Classes) (c : OverlapConfig) (o : Str) (hv : validUtf8 o = true) :
    validUtf8 (truncateOverlap cl c o) = true ∧ ContentSuffix o (truncateOverlap cl c o) := by
  unfold truncateOverlap
  split
  · exact ⟨hv, .refl o⟩
  · simp only
    obtain ⟨ht1, ht2⟩ := tailAtRuneBoundary_spec o c.maxOverlap hv
    have hchar : validUtf8 (generateCharacterOverlap c (tailAtRuneBoundary o c.maxOverlap)) = true
        ∧ ContentSuffix o (generateCharacterOverlap c (tailAtRuneBoundary o c.maxOverlap)) :=
      ⟨valid_generateCharacterOverlap c _ ht1, ht2.trans (contentSuffix_charOverlap c _ ht1)⟩
    split
    · exact hchar
    · split
      · exact hchar
      · obtain ⟨hp, hval⟩ := splitIntoSentences_pieces cl o
        have hcont := splitIntoSentences_content cl o hv
        obtain ⟨pre, e⟩ := fitLast_suffix c.maxOverlap (splitIntoSentences cl o).reverse 0 []
        rw [List.reverse_reverse, List.append_nil] at e
        generalize fitLast c.maxOverlap (splitIntoSentences cl o).reverse 0 [] = sel at e ⊢
        have hsel : ∀ p ∈ sel, validUtf8 p = true := fun p hp =>
          hval p (by rw [e]; exact List.mem_append_right _ hp)
        refine ⟨valid_joinWith _ (valid_wsOnly wsOnly_space) _ hsel, pre.flatMap stripWs, ?_⟩
        rw [stripWs_joinWith _ wsOnly_space _ hsel, ← List.flatMap_append, ← e, hcont]

theorem capOverlap_spec (cl : Classes) (c : OverlapConfig) (o : Str) (hv : validUtf8 o = true) :
    validUtf8 (capOverlap cl c o) = true ∧ ContentSuffix o (capOverlap cl c o) := by
  unfold capOverlap
  split
  · exact truncateOverlap_spec cl c o hv
  · exact ⟨hv, .refl o⟩

theorem sentenceOverlap_spec (cl : Classes) (c : OverlapConfig) (text : Str) (hv : validUtf8 text = true) :
    validUtf8 (generateSentenceOverlap cl c text).1 = true
      ∧ ContentSuffix text (generateSentenceOverlap cl c text).1 := by
  unfold generateSentenceOverlap
  simp only
  split
  · exact ⟨validUtf8_nil, contentSuffix_nil text⟩
  · obtain ⟨_, hval⟩ := splitIntoSentences_pieces cl text
    have := contentSuffix_join_drop text [32] wsOnly_space (splitIntoSentences cl text)
      ((splitIntoSentences cl text).length - min c.size (splitIntoSentences cl text).length)
      hval (splitIntoSentences_content cl text hv)
    exact ⟨this.2, this.1⟩

theorem paragraphOverlap_spec (cl : Classes) (c : OverlapConfig) (text : Str) (hv : validUtf8 text = true) :
    validUtf8 (generateParagraphOverlap cl c text).1 = true
      ∧ ContentSuffix text (generateParagraphOverlap cl c text).1 := by
  unfold generateParagraphOverlap
  simp only
  split
  · exact ⟨validUtf8_nil, contentSuffix_nil text⟩
  · obtain ⟨hval, hcont⟩ := splitIntoParagraphs_spec text hv
    have := contentSuffix_join_drop text [10, 10] wsOnly_nlnl (splitIntoParagraphs text)
      ((splitIntoParagraphs text).length - min c.size (splitIntoParagraphs text).length) hval hcont
    exact ⟨this.2, this.1⟩

theorem rawOverlap_spec (cl : Classes) (c : OverlapConfig) (text : Str) (hv : validUtf8 text = true) :
    validUtf8 (rawOverlap cl c text).1 = true ∧ ContentSuffix text (rawOverlap cl c text).1 := by
  unfold rawOverlap
  split
  · exact ⟨valid_generateCharacterOverlap c text hv, contentSuffix_charOverlap c text hv⟩
  · split
    · exact sentenceOverlap_spec cl c text hv
    · exact paragraphOverlap_spec cl c text hv

/-- **every strategy**: the overlap of a valid UTF-8 chunk is valid UTF-8 and its
non-whitespace characters are a suffix of those of the chunk -/
theorem generateOverlap_spec (cl : Classes) (c : OverlapConfig) (text : Str) (hv : validUtf8 text = true) :
    validUtf8 (generateOverlap cl c text) = true ∧ ContentSuffix text (generateOverlap cl c text) := by
  unfold generateOverlap
  split
  · exact ⟨validUtf8_nil, contentSuffix_nil text⟩
  · simp only
    have hraw := rawOverlap_spec cl c text hv
    have hsel : validUtf8 (if (rawOverlap cl c text).1.length < c.minOverlap ∧ c.strategy = 2 ∧ (rawOverlap cl c text).2 = 0
          then generateCharacterOverlap c text else (rawOverlap cl c text).1) = true
        ∧ ContentSuffix text (if (rawOverlap cl c text).1.length < c.minOverlap ∧ c.strategy = 2 ∧ (rawOverlap cl c text).2 = 0
          then generateCharacterOverlap c text else (rawOverlap cl c text).1) := by
      split
      · exact ⟨valid_generateCharacterOverlap c text hv, contentSuffix_charOverlap c text hv⟩
      · exact hraw
    obtain ⟨h1, h2⟩ := capOverlap_spec cl c _ hsel.1
    exact ⟨h1, hsel.2.trans h2⟩

/-! ### `ApplyOverlapToChunks`, element by element -/

/-- what `ApplyOverlapToChunks` makes of one chunk given the overlap computed for it -/
def outOf (c : OverlapConfig) (ov text title : Str) : OverlapOut :=
  if ov = [] then { has := false, pref := [], text := text }
  else { has := true, pref := ov, text := applyOverlap text ov title c.includeHeadingContext }

theorem applyOverlapAux_get (cl : Classes) (c : OverlapConfig) (prev : Option Str)
    (items : List (Str × Str)) (i : Nat) :
    (applyOverlapAux cl c prev items)[i]?
      = items[i]?.map fun it => outOf c (overlapFrom cl c (prevText prev items i)) it.1 it.2 := by
  induction items generalizing prev i with
  | nil => simp [applyOverlapAux]
  | cons it rest ih =>
    obtain ⟨text, title⟩ := it
    unfold applyOverlapAux
    cases i with
    | zero =>
      simp only [List.getElem?_cons_zero, Option.map_some, prevText, outOf]
      cases prev <;> rfl
    | succ j =>
      simp only [List.getElem?_cons_succ]
      rw [ih (some text) j]
      cases j <;> simp [prevText]

end Tabula.Overlap
