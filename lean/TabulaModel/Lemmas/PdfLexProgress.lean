import TabulaModel.Lemmas.PdfTok
import TabulaModel.Lemmas.PdfState
/-!
Progress of the lexer of core/lexer.go, for EVERY input (legal or not): whatever `NextToken`
returns, the unread input is a suffix of what it was given, and it is strictly shorter unless the
token is the end of input.  Consequences: `lexSkip` (the comment-dropping loop of
`(*Parser).nextToken`) never runs out of its fuel, so its result does not depend on it.
Core Lean only.
-/
namespace Tabula.Pdf
namespace Prog

theorem suffix_tail {a : Nat} {r s : Str} (h : (a :: r) <:+ s) : r <:+ s :=
  List.IsSuffix.trans (List.suffix_cons a r) h

theorem skipWs_suffix (s : Str) : skipWs s <:+ s := by
  induction s with
  | nil => exact List.suffix_refl _
  | cons b r ih =>
    simp only [skipWs]
    split
    · exact List.IsSuffix.trans ih (List.suffix_cons b r)
    · exact List.suffix_refl _

theorem skipWs_eq_dropWhile (s : Str) : skipWs s = s.dropWhile isWs := by
  induction s with
  | nil => rfl
  | cons b r ih =>
    simp only [skipWs, List.dropWhile_cons]
    split <;> simp_all

theorem skipWs_split (s : Str) : s = s.takeWhile isWs ++ skipWs s := by
  rw [skipWs_eq_dropWhile, List.takeWhile_append_dropWhile]

theorem commentBody_suffix (r : Str) : (commentBody r).2 <:+ r := by
  induction r with
  | nil => exact List.suffix_refl _
  | cons b r ih =>
    by_cases h10 : b = 10
    · simp only [commentBody, h10, if_true]; exact List.suffix_cons _ _
    · by_cases h13 : b = 13
      · cases r with
        | nil => simp only [commentBody, h13]; exact List.suffix_cons _ _
        | cons c r' =>
          by_cases hc : c = 10
          · simp only [commentBody, h13, hc, if_true]
            exact List.IsSuffix.trans (List.suffix_cons _ r') (List.suffix_cons _ _)
          · simp only [commentBody, h13, hc, if_false]
            exact List.suffix_cons _ _
      · simp only [commentBody, h10, h13, if_false]
        exact List.IsSuffix.trans ih (List.suffix_cons b r)

theorem afterCR_suffix (r : Str) : afterCR r <:+ r := by
  unfold afterCR
  split
  · split
    · exact List.suffix_cons _ _
    · exact List.suffix_refl _
  · exact List.suffix_refl _

theorem readOctal_suffix (c : Nat) (r : Str) : (readOctal c r).2 <:+ r := by
  unfold readOctal
  split
  · split
    · split
      · split
        · exact List.IsSuffix.trans (List.suffix_cons _ _) (List.suffix_cons _ _)
        · exact List.suffix_cons _ _
      · exact List.suffix_cons _ _
    · exact List.suffix_refl _
  · exact List.suffix_refl _

theorem readEscape_suffix {inp bs r : Str} (h : readEscape inp = some (bs, r)) : r <:+ inp := by
  cases inp with
  | nil => simp [readEscape] at h
  | cons c r0 =>
    simp only [readEscape] at h
    split at h
    · cases h; exact List.suffix_cons _ _
    · split at h
      · cases h; exact List.IsSuffix.trans (afterCR_suffix r0) (List.suffix_cons _ _)
      · split at h
        · cases h; exact List.suffix_cons _ _
        · split at h
          · cases h; exact List.IsSuffix.trans (readOctal_suffix c r0) (List.suffix_cons _ _)
          · cases h; exact List.suffix_cons _ _

theorem pre_some {bs : Str} {x : Option (Str × Str)} {v r : Str} (h : pre bs x = some (v, r)) :
    ∃ v', x = some (v', r) ∧ v = bs ++ v' := by
  cases x with
  | none => simp [pre] at h
  | some p =>
    obtain ⟨v', r'⟩ := p
    simp only [pre, Option.some.injEq, Prod.mk.injEq] at h
    exact ⟨v', by rw [h.2], h.1.symm⟩

/-- `readString`: the closing parenthesis is consumed -/
theorem strLoop_suffix (inp : Str) : ∀ (d : Nat) (v r : Str), strLoop d inp = some (v, r) →
    r <:+ inp ∧ r.length < inp.length := by
  induction inp using List.rec with
  | nil => intro d v r h; rw [strLoop] at h; cases h
  | cons b r0 ih => exact strLoop_suffix_aux b r0
where
  strLoop_suffix_aux (b : Nat) (r0 : Str) : ∀ (d : Nat) (v r : Str), strLoop d (b :: r0) = some (v, r) →
      r <:+ (b :: r0) ∧ r.length < (b :: r0).length := by
    -- strong induction on the length of the unread input
    have key : ∀ n (inp : Str), inp.length ≤ n → ∀ (d : Nat) (v r : Str), strLoop d inp = some (v, r) →
        r <:+ inp ∧ r.length < inp.length := by
      intro n
      induction n with
      | zero =>
        intro inp hl d v r h
        cases inp with
        | nil => rw [strLoop] at h; cases h
        | cons _ _ => simp at hl
      | succ n ihn =>
        intro inp hl d v r h
        cases inp with
        | nil => rw [strLoop] at h; cases h
        | cons c rest =>
          have hl' : rest.length ≤ n := by simp only [List.length_cons] at hl; omega
          rw [strLoop] at h
          split at h
          · obtain ⟨v', h', _⟩ := pre_some h
            have := ihn rest hl' _ _ _ h'
            exact ⟨List.IsSuffix.trans this.1 (List.suffix_cons _ _), by simp only [List.length_cons]; omega⟩
          · split at h
            · split at h
              · obtain ⟨v', h', _⟩ := pre_some h
                have := ihn rest hl' _ _ _ h'
                exact ⟨List.IsSuffix.trans this.1 (List.suffix_cons _ _), by simp only [List.length_cons]; omega⟩
              · cases h; exact ⟨List.suffix_cons _ _, by simp⟩
            · split at h
              · split at h
                · cases h
                · next bs r' he =>
                  obtain ⟨v', h', _⟩ := pre_some h
                  have hs := readEscape_suffix he
                  have hlt := readEscape_lt he
                  have := ihn r' (by omega) _ _ _ h'
                  exact ⟨List.IsSuffix.trans this.1 (List.IsSuffix.trans hs (List.suffix_cons _ _)),
                    by simp only [List.length_cons]; omega⟩
              · obtain ⟨v', h', _⟩ := pre_some h
                have := ihn rest hl' _ _ _ h'
                exact ⟨List.IsSuffix.trans this.1 (List.suffix_cons _ _), by simp only [List.length_cons]; omega⟩
    exact key _ _ (Nat.le_refl _)

/-- `readHexString`: the closing `>` is consumed -/
theorem hexLoop_suffix (inp : Str) : ∀ (v r : Str), hexLoop inp = some (v, r) →
    r <:+ inp ∧ r.length < inp.length := by
  induction inp with
  | nil => intro v r h; simp [hexLoop] at h
  | cons b r0 ih =>
    intro v r h
    rw [hexLoop] at h
    split at h
    · cases h; exact ⟨List.suffix_cons _ _, by simp⟩
    · split at h
      · have := ih _ _ h
        exact ⟨List.IsSuffix.trans this.1 (List.suffix_cons _ _), by simp only [List.length_cons]; omega⟩
      · split at h
        · obtain ⟨v', h', _⟩ := pre_some h
          have := ih _ _ h'
          exact ⟨List.IsSuffix.trans this.1 (List.suffix_cons _ _), by simp only [List.length_cons]; omega⟩
        · cases h

/-- `readName` (after the `/`): may consume nothing -/
theorem nameLoop_suffix (inp : Str) : ∀ (v r : Str), nameLoop inp = some (v, r) → r <:+ inp := by
  have key : ∀ n (inp : Str), inp.length ≤ n → ∀ (v r : Str), nameLoop inp = some (v, r) → r <:+ inp := by
    intro n
    induction n with
    | zero =>
      intro inp hl v r h
      cases inp with
      | nil => simp [nameLoop] at h; rw [← h.2]; exact List.suffix_refl _
      | cons _ _ => simp at hl
    | succ n ihn =>
      intro inp hl v r h
      cases inp with
      | nil => simp [nameLoop] at h; rw [← h.2]; exact List.suffix_refl _
      | cons c rest =>
        simp only [List.length_cons] at hl
        by_cases hterm : (isWs c || isDelim c) = true
        · rw [Nm.nameLoop_term c rest hterm] at h
          cases h; exact List.suffix_refl _
        · have hw : isWs c = false := by
            cases hh : isWs c <;> simp_all
          have hd : isDelim c = false := by
            cases hh : isDelim c <;> simp_all
          by_cases h35 : c = 35
          · subst h35
            match rest, hl, h with
            | [], _, h => rw [Nm.nameLoop_hash0] at h; cases h
            | [a], _, h => rw [Nm.nameLoop_hash1] at h; cases h
            | h1 :: h2 :: r', hl, h =>
              rw [Nm.nameLoop_hash] at h
              split at h
              · obtain ⟨v', h', _⟩ := pre_some h
                have := ihn r' (by simp only [List.length_cons] at hl; omega) _ _ h'
                exact List.IsSuffix.trans this
                  (List.IsSuffix.trans (List.suffix_cons _ _)
                    (List.IsSuffix.trans (List.suffix_cons _ _) (List.suffix_cons _ _)))
              · cases h
          · rw [Nm.nameLoop_raw c rest hw hd h35] at h
            obtain ⟨v', h', _⟩ := pre_some h
            have := ihn rest (by omega) _ _ h'
            exact List.IsSuffix.trans this (List.suffix_cons _ _)
  intro v r h
  exact key _ _ (Nat.le_refl _) v r h

/-- `readNumber`: the rest is a suffix -/
theorem numLoop_suffix (inp : Str) : ∀ (hd first : Bool), (numLoop hd first inp).2.2 <:+ inp := by
  induction inp with
  | nil => intro hd first; simp [numLoop]
  | cons b r ih =>
    intro hd first
    rw [numLoop]
    split
    · split
      · exact List.suffix_refl _
      · exact List.IsSuffix.trans (ih true false) (List.suffix_cons _ _)
    · split
      · exact List.IsSuffix.trans (ih hd false) (List.suffix_cons _ _)
      · exact List.suffix_refl _

/-- `readNumber` entered on a digit, a sign or a point consumes that byte -/
theorem numLoop_first_lt (b : Nat) (r : Str) (hb : (isDigit b || b = 45 || b = 43 || b = 46) = true) :
    (numLoop false true (b :: r)).2.2.length < (b :: r).length := by
  rw [numLoop]
  split
  · simp only [Bool.false_eq_true, if_false]
    have := (numLoop_suffix r true false).length_le
    simp only [List.length_cons]; omega
  · next hne =>
    split
    · have := (numLoop_suffix r false false).length_le
      simp only [List.length_cons]; omega
    · next hno =>
      exfalso
      simp only [Bool.or_eq_true, decide_eq_true_eq, Bool.true_and, beq_iff_eq] at hb hno
      rcases hb with ((hb | hb) | hb) | hb
      · exact hno (Or.inl hb)
      · exact hno (Or.inr (Or.inl hb))
      · exact hno (Or.inr (Or.inr hb))
      · exact hne hb

theorem isAlpha_alnum {b : Nat} (h : isAlpha b = true) : isAlnum b = true := by
  simp [isAlnum, h]

/-- the body of `NextToken` behind the white space: always consumes at least the byte it
dispatches on -/
theorem dispatch_progress (b : Nat) (r : Str) (t : Token) (r' : Str) (h : Tok.dispatch b r = some (t, r')) :
    r' <:+ (b :: r) ∧ r'.length < (b :: r).length ∧ t ≠ .eof := by
  have hcons : ∀ {x : Str}, x <:+ r → x <:+ (b :: r) ∧ x.length < (b :: r).length := by
    intro x hx
    exact ⟨List.IsSuffix.trans hx (List.suffix_cons _ _), by have := hx.length_le; simp only [List.length_cons]; omega⟩
  unfold Tok.dispatch at h
  split at h
  · cases h
    have := hcons (commentBody_suffix r)
    exact ⟨this.1, this.2, by simp⟩
  split at h
  · cases h; have := hcons (List.suffix_refl r); exact ⟨this.1, this.2, by simp⟩
  split at h
  · cases h; have := hcons (List.suffix_refl r); exact ⟨this.1, this.2, by simp⟩
  split at h
  · split at h
    · cases h
    · next v r1 hs =>
      cases h
      have := hcons (strLoop_suffix r 1 v _ hs).1
      exact ⟨this.1, this.2, by simp⟩
  split at h
  · split at h
    · next r1 =>
      cases h
      have := hcons (List.suffix_cons 60 r')
      exact ⟨this.1, this.2, by simp⟩
    · split at h
      · cases h
      · next v r1 hs =>
        cases h
        have := hcons (hexLoop_suffix r v _ hs).1
        exact ⟨this.1, this.2, by simp⟩
  split at h
  · split at h
    · cases h
      have := hcons (List.suffix_cons 62 r')
      exact ⟨this.1, this.2, by simp⟩
    · cases h
  split at h
  · split at h
    · cases h
    · next v r1 hs =>
      cases h
      have := hcons (nameLoop_suffix r v _ hs)
      exact ⟨this.1, this.2, by simp⟩
  split at h
  · next hb =>
    dsimp only at h
    cases h
    refine ⟨numLoop_suffix _ _ _, numLoop_first_lt b r (by simpa using hb), ?_⟩
    split <;> simp
  split at h
  · next hb =>
    dsimp only at h
    cases h
    refine ⟨List.dropWhile_suffix _, ?_, ?_⟩
    · rw [List.dropWhile_cons, if_pos (isAlpha_alnum hb)]
      have := (List.dropWhile_suffix isAlnum (l := r)).length_le
      simp only [List.length_cons]; omega
    · split <;> simp
  · cases h

/-- **progress of `NextToken`**, every input: the unread input is a suffix of the input, and a
token other than the end of input consumed at least one byte -/
theorem nextToken_progress (inp : Str) (t : Token) (r : Str) (h : nextToken inp = some (t, r)) :
    r <:+ inp ∧ (t ≠ .eof → r.length < inp.length) ∧ (t = .eof → r = [] ∧ skipWs inp = []) := by
  cases hs : skipWs inp with
  | nil =>
    unfold nextToken at h
    rw [hs] at h
    cases h
    exact ⟨List.nil_suffix, fun h => absurd rfl h, fun _ => ⟨rfl, rfl⟩⟩
  | cons b x =>
    have hb : isWs b = false := skipWs_head inp b x hs
    have h' : Tok.dispatch b x = some (t, r) := by
      have e : nextToken inp = nextToken (b :: x) := by
        unfold nextToken
        rw [hs, Tok.skipWs_nonws b x hb]
      rw [e, Tok.nextToken_cons b x hb] at h
      exact h
    have := dispatch_progress b x t r h'
    have hsuf := skipWs_suffix inp
    rw [hs] at hsuf
    refine ⟨List.IsSuffix.trans this.1 hsuf, fun _ => ?_, fun he => absurd he this.2.2⟩
    have := hsuf.length_le
    omega

/-- white space before the token and the token's own bytes tile the consumed input -/
theorem nextToken_tiles (inp : Str) (t : Token) (r : Str) (h : nextToken inp = some (t, r)) :
    ∃ lx, inp = inp.takeWhile isWs ++ lx ++ r ∧ (t ≠ .eof → lx ≠ []) ∧ lx ++ r = skipWs inp := by
  have hp := nextToken_progress inp t r h
  cases hs : skipWs inp with
  | nil =>
    have : t = .eof := by
      unfold nextToken at h
      rw [hs] at h
      cases h; rfl
    have hr := (hp.2.2 this).1
    subst hr
    refine ⟨[], ?_, fun hne => absurd this hne, rfl⟩
    have := skipWs_split inp
    rw [hs] at this
    simpa using this
  | cons b x =>
    have hb : isWs b = false := skipWs_head inp b x hs
    have h' : Tok.dispatch b x = some (t, r) := by
      have e : nextToken inp = nextToken (b :: x) := by
        unfold nextToken
        rw [hs, Tok.skipWs_nonws b x hb]
      rw [e, Tok.nextToken_cons b x hb] at h
      exact h
    obtain ⟨hsuf, hlt, _⟩ := dispatch_progress b x t r h'
    obtain ⟨lx, hlx⟩ := hsuf
    refine ⟨lx, ?_, fun _ hn => ?_, hlx⟩
    · have := skipWs_split inp
      rw [hs, ← hlx] at this
      rw [List.append_assoc]
      exact this
    · subst hn
      simp only [List.nil_append] at hlx
      rw [hlx] at hlt
      omega

/-! ### `lexSkip`: the comment-dropping loop of `(*Parser).nextToken` -/

/-- the first token of `inp` that is not a comment, with the fuel `(*Parser).nextToken` is modelled
with -/
def tok (inp : Str) : Option (Token × Str) := lexSkip (inp.length + 1) inp

/-- with fuel above the length of the input, `lexSkip` never stops for lack of fuel: more fuel
gives the same answer -/
theorem lexSkip_stable (n : Nat) : ∀ (inp : Str) (f : Nat), inp.length + 1 ≤ n → n ≤ f →
    lexSkip f inp = lexSkip n inp := by
  induction n with
  | zero => intro inp f h; omega
  | succ n ih =>
    intro inp f h1 h2
    obtain ⟨f, rfl⟩ : ∃ g, f = g + 1 := ⟨f - 1, by omega⟩
    simp only [lexSkip]
    cases hn : nextToken inp with
    | none => rfl
    | some p =>
      obtain ⟨t, r⟩ := p
      cases t with
      | comment v =>
        dsimp only
        have := (nextToken_progress inp _ r hn).2.1 (by simp)
        exact ih r f (by omega) (by omega)
      | _ => rfl

theorem lexSkip_eq_tok (inp : Str) (f : Nat) (h : inp.length + 1 ≤ f) : lexSkip f inp = tok inp :=
  lexSkip_stable (inp.length + 1) inp f (Nat.le_refl _) h

/-- what `lexSkip` returns is never a comment; the unread input is a suffix, strictly shorter
unless the token is the end of input -/
theorem lexSkip_progress (f : Nat) : ∀ (inp : Str) (t : Token) (r : Str), lexSkip f inp = some (t, r) →
    r <:+ inp ∧ (t ≠ .eof → r.length < inp.length) ∧ (t = .eof → r = []) ∧ (∀ v, t ≠ .comment v) := by
  induction f with
  | zero => intro inp t r h; simp [lexSkip] at h
  | succ f ih =>
    intro inp t r h
    simp only [lexSkip] at h
    cases hn : nextToken inp with
    | none => rw [hn] at h; cases h
    | some p =>
      obtain ⟨t0, r0⟩ := p
      rw [hn] at h
      have hp := nextToken_progress inp t0 r0 hn
      cases t0 with
      | comment v =>
        dsimp only at h
        have := ih r0 t r h
        have hl := hp.2.1 (by simp)
        have hl2 := this.1.length_le
        exact ⟨List.IsSuffix.trans this.1 hp.1, fun hne => by have := this.2.1 hne; omega, this.2.2.1, this.2.2.2⟩
      | _ =>
        dsimp only at h
        cases h
        exact ⟨hp.1, hp.2.1, fun he => (hp.2.2 he).1, by intro v; simp⟩

theorem tok_progress (inp : Str) (t : Token) (r : Str) (h : tok inp = some (t, r)) :
    r <:+ inp ∧ (t ≠ .eof → r.length < inp.length) ∧ (t = .eof → r = []) ∧ (∀ v, t ≠ .comment v) :=
  lexSkip_progress _ inp t r h


/-! ### the document-level lexer and `contentstream.skipSpace` skip the same bytes -/

theorem dispatch_not_comment (b : Nat) (r : Str) (t : Token) (r' : Str) (hb : b ≠ 37)
    (h : Tok.dispatch b r = some (t, r')) : ∀ v, t ≠ .comment v := by
  intro v hv
  subst hv
  unfold Tok.dispatch at h
  rw [if_neg hb] at h
  repeat' split at h
  all_goals first | cases h | (dsimp only at h; split at h <;> cases h)

theorem skipSpace_nil : CS.skipSpace [] = [] := by rw [CS.skipSpace]

theorem skipSpace_ws (b : Nat) (r : Str) (h : isWs b = true) : CS.skipSpace (b :: r) = CS.skipSpace r := by
  rw [CS.skipSpace]; simp [h]

theorem skipSpace_comment (r : Str) : CS.skipSpace (37 :: r) = CS.skipSpace (CS.skipLine r) := by
  rw [CS.skipSpace]; simp [show isWs 37 = false by decide]

theorem skipSpace_other (b : Nat) (r : Str) (h : isWs b = false) (h37 : b ≠ 37) :
    CS.skipSpace (b :: r) = b :: r := by
  rw [CS.skipSpace]; simp [h, h37]

/-- a comment ends at the same place for both parsers: the document-level lexer consumes the
end-of-line marker, the content-stream parser leaves it to the white space that follows -/
theorem skipSpace_skipLine (r : Str) : CS.skipSpace (CS.skipLine r) = CS.skipSpace (commentBody r).2 := by
  induction r with
  | nil => simp [CS.skipLine, commentBody]
  | cons b r ih =>
    by_cases h10 : b = 10
    · subst h10
      simp only [CS.skipLine, commentBody, if_true, or_true]
      exact skipSpace_ws 10 r (by decide)
    · by_cases h13 : b = 13
      · subst h13
        simp only [CS.skipLine, true_or, if_true]
        rw [skipSpace_ws 13 r (by decide)]
        cases r with
        | nil => simp [commentBody]
        | cons c r' =>
          by_cases hc : c = 10
          · subst hc
            simp only [commentBody, if_true]
            exact skipSpace_ws 10 r' (by decide)
          · simp [commentBody, hc]
      · simp only [CS.skipLine, commentBody, h10, h13, or_self, if_false]
        exact ih

/-- what `contentstream.skipSpace` stops at is never white space and never `%` -/
theorem skipSpace_head (inp : Str) : ∀ (c : Nat) (x : Str), CS.skipSpace inp = c :: x → isWs c = false ∧ c ≠ 37 := by
  have key : ∀ n (inp : Str), inp.length ≤ n → ∀ (c : Nat) (x : Str), CS.skipSpace inp = c :: x →
      isWs c = false ∧ c ≠ 37 := by
    intro n
    induction n with
    | zero =>
      intro inp hl c x h
      cases inp with
      | nil => rw [skipSpace_nil] at h; cases h
      | cons _ _ => simp at hl
    | succ n ih =>
      intro inp hl c x h
      cases inp with
      | nil => rw [skipSpace_nil] at h; cases h
      | cons b r =>
        simp only [List.length_cons] at hl
        by_cases hw : isWs b = true
        · rw [skipSpace_ws b r hw] at h
          exact ih r (by omega) c x h
        · have hw' : isWs b = false := by cases hh : isWs b <;> simp_all
          by_cases h37 : b = 37
          · subst h37
            rw [skipSpace_comment] at h
            exact ih _ (by have := CS.skipLine_le r; omega) c x h
          · rw [skipSpace_other b r hw' h37] at h
            cases h
            exact ⟨hw', h37⟩
  intro c x h
  exact key _ _ (Nat.le_refl _) c x h

theorem skipSpace_suffix (inp : Str) : CS.skipSpace inp <:+ inp := by
  have skipLine_suffix : ∀ r : Str, CS.skipLine r <:+ r := by
    intro r
    induction r with
    | nil => exact List.suffix_refl _
    | cons b r ih =>
      simp only [CS.skipLine]
      split
      · exact List.suffix_refl _
      · exact List.IsSuffix.trans ih (List.suffix_cons _ _)
  have key : ∀ n (inp : Str), inp.length ≤ n → CS.skipSpace inp <:+ inp := by
    intro n
    induction n with
    | zero =>
      intro inp hl
      cases inp with
      | nil => rw [skipSpace_nil]; exact List.suffix_refl _
      | cons _ _ => simp at hl
    | succ n ih =>
      intro inp hl
      cases inp with
      | nil => rw [skipSpace_nil]; exact List.suffix_refl _
      | cons b r =>
        simp only [List.length_cons] at hl
        by_cases hw : isWs b = true
        · rw [skipSpace_ws b r hw]
          exact List.IsSuffix.trans (ih r (by omega)) (List.suffix_cons _ _)
        · have hw' : isWs b = false := by cases hh : isWs b <;> simp_all
          by_cases h37 : b = 37
          · subst h37
            rw [skipSpace_comment]
            have h1 := skipLine_suffix r
            exact List.IsSuffix.trans (ih _ (by have := h1.length_le; omega))
              (List.IsSuffix.trans h1 (List.suffix_cons _ _))
          · rw [skipSpace_other b r hw' h37]; exact List.suffix_refl _
  exact key _ _ (Nat.le_refl _)

/-- `skipSpace` is idempotent (the parsers call it again at the start of `parseOperand`) -/
theorem skipSpace_idem (inp : Str) : CS.skipSpace (CS.skipSpace inp) = CS.skipSpace inp := by
  cases h : CS.skipSpace inp with
  | nil => exact skipSpace_nil
  | cons c x =>
    have := skipSpace_head inp c x h
    exact skipSpace_other c x this.1 this.2

/-- **the two parsers see the same first token**: the first non-comment token of the
document-level lexer is the token that starts at the byte `contentstream.skipSpace` stops at -/
theorem tok_of_skipSpace (inp : Str) :
    (CS.skipSpace inp = [] → tok inp = some (.eof, [])) ∧
    (∀ c x, CS.skipSpace inp = c :: x → tok inp = Tok.dispatch c x) := by
  have key : ∀ n (inp : Str), inp.length ≤ n →
      (CS.skipSpace inp = [] → tok inp = some (.eof, [])) ∧
      (∀ c x, CS.skipSpace inp = c :: x → tok inp = Tok.dispatch c x) := by
    intro n
    induction n with
    | zero =>
      intro inp hl
      cases inp with
      | nil => exact ⟨fun _ => rfl, fun c x h => by rw [skipSpace_nil] at h; cases h⟩
      | cons _ _ => simp at hl
    | succ n ih =>
      intro inp hl
      cases inp with
      | nil => exact ⟨fun _ => rfl, fun c x h => by rw [skipSpace_nil] at h; cases h⟩
      | cons b r =>
        simp only [List.length_cons] at hl
        by_cases hw : isWs b = true
        · have e1 : tok (b :: r) = tok r := by
            have hws : AllWs [b] := by intro c hc; simp at hc; subst hc; exact hw
            have := Tok.lexSkip_ws ((b :: r).length + 1) [b] r hws
            rw [tok, show lexSkip ((b :: r).length + 1) (b :: r) = lexSkip ((b :: r).length + 1) ([b] ++ r) from rfl,
              this]
            exact lexSkip_eq_tok r _ (by simp)
          rw [skipSpace_ws b r hw, e1]
          exact ih r (by omega)
        · have hw' : isWs b = false := by cases hh : isWs b <;> simp_all
          by_cases h37 : b = 37
          · subst h37
            have hsuf := (commentBody_suffix r).length_le
            have e1 : tok (37 :: r) = tok (commentBody r).2 := by
              rw [tok, List.length_cons, Tok.lexSkip_comment]
              exact lexSkip_eq_tok _ _ (by omega)
            rw [skipSpace_comment, skipSpace_skipLine, e1]
            exact ih _ (by omega)
          · rw [skipSpace_other b r hw' h37]
            refine ⟨fun h => (by cases h), fun c x h => ?_⟩
            simp only [List.cons.injEq] at h
            obtain ⟨rfl, rfl⟩ := h
            have e : nextToken (b :: r) = Tok.dispatch b r := Tok.nextToken_cons b r hw'
            cases hd : Tok.dispatch b r with
            | none => simp only [tok, lexSkip, e, hd]
            | some p =>
              obtain ⟨t, r'⟩ := p
              rw [hd] at e
              exact Tok.lexSkip_token _ _ t r' e (dispatch_not_comment b r t r' h37 hd)
  exact key _ _ (Nat.le_refl _)


/-! ### the parser's window as a function of the first token -/

theorem half_of_tok (inp : Str) (t : Token) (r : Str) (h : tok inp = some (t, r)) :
    half inp = { cur := none, peek := some t, inp := r, err := false } :=
  half_of_lex inp t r h

/-- `stateAt` depends on the bytes only through their first non-comment token and what it leaves
unread (when there is one: after a lexical error the state also records where it happened) -/
theorem stateAt_congr (x y : Str) (t : Token) (r : Str) (hx : tok x = some (t, r)) (hy : tok y = some (t, r)) :
    stateAt x = stateAt y := by
  rw [stateAt_def, stateAt_def, half_of_tok x t r hx, half_of_tok y t r hy]

/-- a lexical error at the first token: `NewParser` records it, both window slots hold `TokenEOF` -/
theorem stateAt_tok_none (inp : Str) (h : tok inp = none) :
    stateAt inp = { cur := some .eof, peek := some .eof, inp := inp, err := true } := by
  have h' : lexSkip (inp.length + 1) inp = none := h
  have hh : half inp = { cur := none, peek := some .eof, inp := inp, err := true } := by
    unfold half PState.next
    simp only [reduceCtorEq, if_false, Bool.false_eq_true, h']
  rw [stateAt_def, hh]
  unfold PState.next
  simp only [Option.some.injEq, reduceCtorEq, if_false, if_true]

theorem stateAt_cur_tok (inp : Str) (t : Token) (r : Str) (h : tok inp = some (t, r)) :
    (stateAt inp).cur = some t := stateAt_cur_of_lex inp t r h

theorem stateAt_next_tok (inp : Str) (t : Token) (r : Str) (h : tok inp = some (t, r))
    (hs : t ≠ .keyword kwStream) : (stateAt inp).next = stateAt r := stateAt_next inp t r h hs

/-- the current token of `stateAt inp` in all cases -/
theorem stateAt_cur_cases (inp : Str) :
    (tok inp = none ∧ (stateAt inp).cur = some .eof ∧ (stateAt inp).err = true) ∨
    (∃ t r, tok inp = some (t, r) ∧ (stateAt inp).cur = some t) := by
  cases h : tok inp with
  | none => left; rw [stateAt_tok_none inp h]; exact ⟨rfl, rfl, rfl⟩
  | some p => right; exact ⟨p.1, p.2, rfl, stateAt_cur_tok inp p.1 p.2 h⟩

theorem tok_skipSpace (inp : Str) : tok (CS.skipSpace inp) = tok inp := by
  cases h : CS.skipSpace inp with
  | nil => rw [(tok_of_skipSpace inp).1 h]; rfl
  | cons c x =>
    rw [(tok_of_skipSpace inp).2 c x h]
    have := skipSpace_idem inp
    rw [h] at this
    exact (tok_of_skipSpace (c :: x)).2 c x this

/-- the document-level parser's state does not see the white space and comments that
`contentstream.skipSpace` skips (unless the very first token is a lexical error) -/
theorem stateAt_skipSpace (inp : Str) (h : tok inp ≠ none) : stateAt (CS.skipSpace inp) = stateAt inp := by
  cases ht : tok inp with
  | none => exact absurd ht h
  | some p =>
    obtain ⟨t, r⟩ := p
    exact stateAt_congr _ _ t r (by rw [tok_skipSpace, ht]) ht

end Prog
end Tabula.Pdf
