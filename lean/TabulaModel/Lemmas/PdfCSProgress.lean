import TabulaModel.Lemmas.PdfLexProgress
import TabulaModel.Model.LexPos
/-!
Progress of the content-stream parser of contentstream/parser.go, for EVERY input (legal or not):
every successful operand read consumes at least one byte and leaves a suffix of what it was given,
the fuel of the mutual recursion and the bound of `Parse`'s loop are never the reason for a failure,
and an accepted stream has at most one operator or operand per byte.  Core Lean only.
-/
namespace Tabula.Pdf
namespace Prog

theorem cs_numBody_suffix (inp : Str) : ∀ hd : Bool, (CS.numBody hd inp).2.2 <:+ inp := by
  induction inp with
  | nil => intro hd; simp [CS.numBody]
  | cons c r ih =>
    intro hd
    rw [CS.numBody]
    split
    · exact List.IsSuffix.trans (ih hd) (List.suffix_cons _ _)
    · split
      · exact List.IsSuffix.trans (ih true) (List.suffix_cons _ _)
      · exact List.suffix_refl _

/-- entered on a sign, a digit or the point, `parseNumber` consumes that byte -/
theorem cs_parseNumber_progress (c : Nat) (r : Str) (o : Obj) (r' : Str)
    (hc : c = 45 ∨ c = 43 ∨ c = 46 ∨ isDigit c = true) (h : CS.parseNumber (c :: r) = some (o, r')) :
    r' <:+ (c :: r) ∧ r'.length < (c :: r).length := by
  have fin : ∀ (sign x : Str) (p : Str × Bool × Str),
      (if p.2.1 = true then
        match parseReal (sign ++ p.1) with
        | none => none
        | some o => some (o, p.2.2)
      else
        match A1.atoi (sign ++ p.1) with
        | none => none
        | some v => some (Obj.int v, p.2.2)) = some (o, r') → r' = p.2.2 := by
    intro sign x p h
    split at h
    · split at h
      · cases h
      · cases h; rfl
    · split at h
      · cases h
      · cases h; rfl
  have key : ∃ hd, r' = (CS.numBody hd r).2.2 := by
    unfold CS.parseNumber at h
    dsimp only at h
    by_cases hs : c = 43 ∨ c = 45
    · simp only [if_pos hs, List.length_cons, List.length_nil, List.drop_succ_cons, List.drop_zero] at h
      exact ⟨false, fin _ r _ h⟩
    · simp only [if_neg hs, List.length_nil, List.drop_zero] at h
      have := fin _ r _ h
      rw [CS.numBody] at this
      by_cases hd : isDigit c = true
      · rw [if_pos hd] at this
        exact ⟨false, this⟩
      · rw [if_neg hd] at this
        have h46 : c = 46 := by
          rcases hc with hc | hc | hc | hc
          · exact absurd (Or.inr hc) hs
          · exact absurd (Or.inl hc) hs
          · exact hc
          · exact absurd hc hd
        rw [if_pos ⟨h46, rfl⟩] at this
        exact ⟨true, this⟩
  obtain ⟨hd, rfl⟩ := key
  have hsuf := cs_numBody_suffix r hd
  exact ⟨List.IsSuffix.trans hsuf (List.suffix_cons _ _), by
    have := hsuf.length_le; simp only [List.length_cons]; omega⟩

theorem cs_hexLoop_suffix (inp : Str) : ∀ v r, CS.hexLoop inp = some (v, r) → r <:+ inp := by
  have key : ∀ n (inp : Str), inp.length ≤ n → ∀ v r, CS.hexLoop inp = some (v, r) → r <:+ inp := by
    intro n
    induction n with
    | zero =>
      intro inp hl v r h
      cases inp with
      | nil => rw [CS.hexLoop.eq_def] at h; cases h; exact List.suffix_refl _
      | cons _ _ => simp at hl
    | succ n ih =>
      intro inp hl v r h
      cases inp with
      | nil => rw [CS.hexLoop.eq_def] at h; cases h; exact List.suffix_refl _
      | cons c r0 =>
        simp only [List.length_cons] at hl
        rw [CS.hexLoop.eq_def] at h
        dsimp only at h
        split at h
        · cases h; exact List.suffix_cons _ _
        split at h
        · exact List.IsSuffix.trans (ih r0 (by omega) _ _ h) (List.suffix_cons _ _)
        split at h
        · cases h
        split at h
        · cases h; exact List.nil_suffix
        · next c2 r2 =>
          simp only [List.length_cons] at hl
          have s2 : r2 <:+ (c :: c2 :: r2) :=
            List.IsSuffix.trans (List.suffix_cons _ _) (List.suffix_cons _ _)
          split at h
          · cases h; exact s2
          split at h
          · split at h
            · cases h; exact List.nil_suffix
            · next c3 r3 hsk =>
              have s3 : r3 <:+ r2 := by
                have := skipWs_suffix r2
                rw [hsk] at this
                exact suffix_tail this
              split at h
              · cases h; exact List.IsSuffix.trans s3 s2
              split at h
              · cases h
              · obtain ⟨v', h', _⟩ := pre_some h
                have := ih r3 (by have := s3.length_le; omega) _ _ h'
                exact List.IsSuffix.trans this (List.IsSuffix.trans s3 s2)
          split at h
          · cases h
          · obtain ⟨v', h', _⟩ := pre_some h
            have := ih r2 (by omega) _ _ h'
            exact List.IsSuffix.trans this s2
  intro v r h
  exact key _ _ (Nat.le_refl _) v r h

theorem cs_nameLoop_hash_keep (r : Str)
    (h : ∀ h1 h2 r', r = h1 :: h2 :: r' → (isHexDigit h1 && isHexDigit h2) = false) :
    CS.nameLoop (35 :: r) = (35 :: (CS.nameLoop r).1, (CS.nameLoop r).2) := by
  rw [CS.nameLoop.eq_def]
  have hw : isWs 35 = false := by decide
  have hd : isDelim 35 = false := by decide
  simp only [hw, hd, Bool.or_self, Bool.false_eq_true, if_false, if_true]
  split
  · next h1 h2 r' =>
    rw [h h1 h2 r' rfl]
    simp
  · rfl

theorem cs_nameLoop_suffix (inp : Str) : (CS.nameLoop inp).2 <:+ inp := by
  have key : ∀ n (inp : Str), inp.length ≤ n → (CS.nameLoop inp).2 <:+ inp := by
    intro n
    induction n with
    | zero =>
      intro inp hl
      cases inp with
      | nil => rw [CS.nameLoop]; exact List.suffix_refl _
      | cons _ _ => simp at hl
    | succ n ih =>
      intro inp hl
      cases inp with
      | nil => rw [CS.nameLoop]; exact List.suffix_refl _
      | cons c rest =>
        simp only [List.length_cons] at hl
        by_cases hterm : (isWs c || isDelim c) = true
        · rw [Nm.cs_nameLoop_term c rest hterm]; exact List.suffix_refl _
        · have hw : isWs c = false := by cases hh : isWs c <;> simp_all
          have hd : isDelim c = false := by cases hh : isDelim c <;> simp_all
          by_cases h35 : c = 35
          · subst h35
            by_cases hx : ∃ h1 h2 r', rest = h1 :: h2 :: r' ∧ (isHexDigit h1 && isHexDigit h2) = true
            · obtain ⟨h1, h2, r', rfl, hh⟩ := hx
              rw [Nm.cs_nameLoop_hash h1 h2 r' hh]
              simp only [List.length_cons] at hl
              exact List.IsSuffix.trans (ih r' (by omega))
                (List.IsSuffix.trans (List.suffix_cons _ _)
                  (List.IsSuffix.trans (List.suffix_cons _ _) (List.suffix_cons _ _)))
            · rw [cs_nameLoop_hash_keep rest (by
                intro h1 h2 r' he
                cases hh : (isHexDigit h1 && isHexDigit h2) with
                | false => rfl
                | true => exact absurd ⟨h1, h2, r', he, hh⟩ hx)]
              exact List.IsSuffix.trans (ih rest (by omega)) (List.suffix_cons _ _)
          · rw [Nm.cs_nameLoop_raw c rest hw hd h35]
            exact List.IsSuffix.trans (ih rest (by omega)) (List.suffix_cons _ _)
  exact key _ _ (Nat.le_refl _)

theorem lift_cons {c : Nat} {r x : Str} (hx : x <:+ r) :
    x <:+ (c :: r) ∧ x.length < (c :: r).length :=
  ⟨List.IsSuffix.trans hx (List.suffix_cons _ _), by
    have := hx.length_le; simp only [List.length_cons]; omega⟩

theorem lift_skip {inp : Str} {c : Nat} {r x : Str} (hs : CS.skipSpace inp = c :: r)
    (hx : x <:+ (c :: r) ∧ x.length < (c :: r).length) : x <:+ inp ∧ x.length < inp.length := by
  have := skipSpace_suffix inp
  rw [hs] at this
  exact ⟨List.IsSuffix.trans hx.1 this, by have := this.length_le; omega⟩

theorem skipSpace_len {inp : Str} {c : Nat} {r : Str} (hs : CS.skipSpace inp = c :: r) :
    r.length + 1 ≤ inp.length := by
  have := (skipSpace_suffix inp).length_le
  rw [hs] at this
  simpa using this

/-- every successful operand read leaves a strictly shorter suffix; the container loops leave a
suffix -/
theorem cs_progress (f : Nat) :
    (∀ d inp o r, CS.parseOperand f d inp = some (o, r) → r <:+ inp ∧ r.length < inp.length) ∧
    (∀ d inp acc o r, CS.parseArray f d inp acc = some (o, r) → r <:+ inp) ∧
    (∀ d inp acc o r, CS.parseDict f d inp acc = some (o, r) → r <:+ inp) := by
  induction f with
  | zero =>
    refine ⟨?_, ?_, ?_⟩
    · intro d s o s' h; rw [CS.parseOperand] at h; cases h
    · intro d s acc o s' h; rw [CS.parseArray] at h; cases h
    · intro d s acc o s' h; rw [CS.parseDict] at h; cases h
  | succ f ih =>
    obtain ⟨ihO, ihA, ihD⟩ := ih
    refine ⟨?_, ?_, ?_⟩
    · intro d inp o r0 h
      rw [CS.parseOperand] at h
      cases hs : CS.skipSpace inp with
      | nil => rw [hs] at h; cases h
      | cons c r =>
        rw [hs] at h
        dsimp only at h
        refine lift_skip hs ?_
        by_cases h1 : c = 45 ∨ c = 43 ∨ c = 46 ∨ isDigit c = true
        · rw [if_pos h1] at h; exact cs_parseNumber_progress c r o r0 h1 h
        rw [if_neg h1] at h
        by_cases h2 : c = 40
        · rw [if_pos h2] at h
          split at h
          · cases h
          · next v r1 hstr =>
            cases h
            rw [cs_strLoop_eq] at hstr
            exact lift_cons (strLoop_suffix r 1 v _ hstr).1
        rw [if_neg h2] at h
        by_cases h3 : c = 60 ∧ r ≠ [] ∧ r.head? ≠ some 60
        · rw [if_pos h3] at h
          split at h
          · cases h
          · next v r1 hh =>
            cases h
            exact lift_cons (cs_hexLoop_suffix r v _ hh)
        rw [if_neg h3] at h
        by_cases h4 : c = 47
        · rw [if_pos h4] at h; cases h; exact lift_cons (cs_nameLoop_suffix r)
        rw [if_neg h4] at h
        by_cases h5 : c = 91
        · rw [if_pos h5] at h
          split at h
          · cases h
          · exact lift_cons (ihA _ _ _ _ _ h)
        rw [if_neg h5] at h
        by_cases h6 : c = 60 ∧ r.head? = some 60
        · rw [if_pos h6] at h
          split at h
          · cases h
          · exact lift_cons (List.IsSuffix.trans (ihD _ _ _ _ _ h) (List.drop_suffix 1 r))
        rw [if_neg h6] at h
        by_cases h7 : c = 116 ∨ c = 102 ∨ c = 110
        · rw [if_pos h7] at h
          have kw : ∀ n, 0 < n → (c :: r).drop n <:+ (c :: r) ∧ ((c :: r).drop n).length < (c :: r).length := by
            intro n hn
            refine ⟨List.drop_suffix _ _, ?_⟩
            rw [List.length_drop]
            simp only [List.length_cons]; omega
          split at h
          · next ht => cases h; rw [ht]; exact kw _ (by decide)
          split at h
          · next ht => cases h; rw [ht]; exact kw _ (by decide)
          split at h
          · next ht => cases h; rw [ht]; exact kw _ (by decide)
          · cases h
        rw [if_neg h7] at h; cases h
    · intro d inp acc o r0 h
      rw [CS.parseArray] at h
      by_cases h0 : inp = []
      · rw [if_pos h0] at h; cases h; exact List.nil_suffix
      rw [if_neg h0] at h
      cases hs : CS.skipSpace inp with
      | nil => rw [hs] at h; cases h
      | cons c r =>
        rw [hs] at h
        dsimp only at h
        have hsuf := skipSpace_suffix inp
        rw [hs] at hsuf
        by_cases h1 : c = 93
        · rw [if_pos h1] at h; cases h; exact suffix_tail hsuf
        rw [if_neg h1] at h
        split at h
        · cases h
        · next o1 r1 hp =>
          exact List.IsSuffix.trans (List.IsSuffix.trans (ihA d r1 _ o r0 h) (ihO d (c :: r) o1 r1 hp).1) hsuf
    · intro d inp acc o r0 h
      rw [CS.parseDict] at h
      by_cases h0 : inp = []
      · rw [if_pos h0] at h; cases h; exact List.nil_suffix
      rw [if_neg h0] at h
      cases hs : CS.skipSpace inp with
      | nil => rw [hs] at h; cases h
      | cons c r =>
        rw [hs] at h
        dsimp only at h
        have hsuf := skipSpace_suffix inp
        rw [hs] at hsuf
        by_cases h1 : c = 62 ∧ r.head? = some 62
        · rw [if_pos h1] at h; cases h
          exact List.IsSuffix.trans (List.drop_suffix 1 r) (suffix_tail hsuf)
        rw [if_neg h1] at h
        by_cases h2 : c ≠ 47
        · rw [if_pos h2] at h; cases h
        rw [if_neg h2] at h
        split at h
        · cases h
        · next o1 r1 hp =>
          exact List.IsSuffix.trans (ihD d r1 _ o r0 h)
            (List.IsSuffix.trans (ihO d _ o1 r1 hp).1
              (List.IsSuffix.trans (cs_nameLoop_suffix r) (suffix_tail hsuf)))

/-- fuel above 2·length+1 (operands) / 2·length+2 (container loops) is never used up -/
theorem cs_fuel_stable (f1 : Nat) :
    (∀ f2 d inp, 2 * inp.length + 1 ≤ f1 → 2 * inp.length + 1 ≤ f2 →
      CS.parseOperand f1 d inp = CS.parseOperand f2 d inp) ∧
    (∀ f2 d inp acc, 2 * inp.length + 2 ≤ f1 → 2 * inp.length + 2 ≤ f2 →
      CS.parseArray f1 d inp acc = CS.parseArray f2 d inp acc) ∧
    (∀ f2 d inp acc, 2 * inp.length + 2 ≤ f1 → 2 * inp.length + 2 ≤ f2 →
      CS.parseDict f1 d inp acc = CS.parseDict f2 d inp acc) := by
  induction f1 with
  | zero =>
    refine ⟨?_, ?_, ?_⟩
    · intro f2 d inp h; omega
    · intro f2 d inp acc h; omega
    · intro f2 d inp acc h; omega
  | succ g1 ih =>
    obtain ⟨ihO, ihA, ihD⟩ := ih
    refine ⟨?_, ?_, ?_⟩
    · intro f2 d inp hf1 hf2
      obtain ⟨g2, rfl⟩ : ∃ g, f2 = g + 1 := ⟨f2 - 1, by omega⟩
      rw [CS.parseOperand, CS.parseOperand]
      cases hs : CS.skipSpace inp with
      | nil => rfl
      | cons c r =>
        dsimp only
        have hl := skipSpace_len hs
        by_cases h1 : c = 45 ∨ c = 43 ∨ c = 46 ∨ isDigit c = true
        · simp only [if_pos h1]
        simp only [if_neg h1]
        by_cases h2 : c = 40
        · simp only [if_pos h2]
        simp only [if_neg h2]
        by_cases h3 : c = 60 ∧ r ≠ [] ∧ r.head? ≠ some 60
        · simp only [if_pos h3]
        simp only [if_neg h3]
        by_cases h4 : c = 47
        · simp only [if_pos h4]
        simp only [if_neg h4]
        by_cases h5 : c = 91
        · simp only [if_pos h5]
          by_cases hd : maxNestingDepth ≤ d
          · simp only [if_pos hd]
          · simp only [if_neg hd]
            exact ihA g2 (d + 1) r [] (by omega) (by omega)
        simp only [if_neg h5]
        by_cases h6 : c = 60 ∧ r.head? = some 60
        · simp only [if_pos h6]
          by_cases hd : maxNestingDepth ≤ d
          · simp only [if_pos hd]
          · simp only [if_neg hd]
            have : (r.drop 1).length ≤ r.length := by rw [List.length_drop]; omega
            exact ihD g2 (d + 1) (r.drop 1) [] (by omega) (by omega)
        simp only [if_neg h6]
    · intro f2 d inp acc hf1 hf2
      obtain ⟨g2, rfl⟩ : ∃ g, f2 = g + 1 := ⟨f2 - 1, by omega⟩
      rw [CS.parseArray, CS.parseArray]
      by_cases h0 : inp = []
      · simp only [if_pos h0]
      simp only [if_neg h0]
      cases hs : CS.skipSpace inp with
      | nil => rfl
      | cons c r =>
        dsimp only
        have hl := skipSpace_len hs
        by_cases h1 : c = 93
        · simp only [if_pos h1]
        simp only [if_neg h1]
        rw [ihO g2 d (c :: r) (by simp only [List.length_cons]; omega) (by simp only [List.length_cons]; omega)]
        cases hp : CS.parseOperand g2 d (c :: r) with
        | none => rfl
        | some p =>
          obtain ⟨o, r'⟩ := p
          dsimp only
          have := ((cs_progress g2).1 d (c :: r) o r' hp).2
          simp only [List.length_cons] at this
          exact ihA g2 d r' _ (by omega) (by omega)
    · intro f2 d inp acc hf1 hf2
      obtain ⟨g2, rfl⟩ : ∃ g, f2 = g + 1 := ⟨f2 - 1, by omega⟩
      rw [CS.parseDict, CS.parseDict]
      by_cases h0 : inp = []
      · simp only [if_pos h0]
      simp only [if_neg h0]
      cases hs : CS.skipSpace inp with
      | nil => rfl
      | cons c r =>
        dsimp only
        have hl := skipSpace_len hs
        by_cases h1 : c = 62 ∧ r.head? = some 62
        · simp only [if_pos h1]
        simp only [if_neg h1]
        by_cases h2 : c ≠ 47
        · simp only [if_pos h2]
        simp only [if_neg h2]
        have hn := (cs_nameLoop_suffix r).length_le
        rw [ihO g2 d (CS.nameLoop r).2 (by omega) (by omega)]
        cases hp : CS.parseOperand g2 d (CS.nameLoop r).2 with
        | none => rfl
        | some p =>
          obtain ⟨o, r'⟩ := p
          dsimp only
          have := ((cs_progress g2).1 d _ o r' hp).2
          exact ihD g2 d r' _ (by omega) (by omega)

theorem opName_suffix (s : Str) : ∀ b : Bool, (CS.opName b s).2 <:+ s := by
  induction s with
  | nil => intro b; simp [CS.opName]
  | cons c r ih =>
    intro b
    rw [CS.opName]
    split
    · exact List.IsSuffix.trans (ih true) (List.suffix_cons _ _)
    · exact List.suffix_refl _

theorem opName_progress (c : Nat) (r : Str) (h : (CS.opName false (c :: r)).1 ≠ []) :
    (CS.opName false (c :: r)).2 <:+ (c :: r) ∧
      (CS.opName false (c :: r)).2.length < (c :: r).length := by
  rw [CS.opName] at h ⊢
  by_cases hc : CS.isOpChar false c = true
  · rw [if_pos hc]
    exact lift_cons (opName_suffix r true)
  · rw [if_neg hc] at h
    exact absurd rfl h

/-- the bounds of `Parse`'s loop are never reached: any two large enough pairs give the same
result -/
theorem parseLoop_stable (n1 : Nat) : ∀ (n2 F1 F2 : Nat) (inp : Str) (stack : List Obj) (ops : List CS.Operation),
    inp.length + 1 ≤ n1 → inp.length + 1 ≤ n2 → 2 * inp.length + 1 ≤ F1 → 2 * inp.length + 1 ≤ F2 →
    CS.parseLoop n1 F1 inp stack ops = CS.parseLoop n2 F2 inp stack ops := by
  induction n1 with
  | zero => intro n2 F1 F2 inp stack ops h; omega
  | succ m1 ih =>
    intro n2 F1 F2 inp stack ops hn1 hn2 hF1 hF2
    obtain ⟨m2, rfl⟩ : ∃ g, n2 = g + 1 := ⟨n2 - 1, by omega⟩
    rw [CS.parseLoop, CS.parseLoop]
    cases hs : CS.skipSpace inp with
    | nil => rfl
    | cons c r =>
      dsimp only
      have hl := skipSpace_len hs
      split
      · by_cases hp : (CS.opName false (c :: r)).1 = []
        · simp only [if_pos hp]
        · simp only [if_neg hp]
          have := (opName_progress c r hp).2
          simp only [List.length_cons] at this
          exact ih m2 F1 F2 _ _ _ (by omega) (by omega) (by omega) (by omega)
      · rw [(cs_fuel_stable F1).1 F2 0 (c :: r) (by simp only [List.length_cons]; omega)
          (by simp only [List.length_cons]; omega)]
        cases hp : CS.parseOperand F2 0 (c :: r) with
        | none => rfl
        | some p =>
          obtain ⟨o, r'⟩ := p
          dsimp only
          have := ((cs_progress F2).1 0 (c :: r) o r' hp).2
          simp only [List.length_cons] at this
          exact ih m2 F1 F2 _ _ _ (by omega) (by omega) (by omega) (by omega)

theorem csParse_stable (inp : Str) (n F : Nat) (hn : inp.length + 2 ≤ n) (hF : CS.fuelFor inp ≤ F) :
    CS.parseLoop n F inp [] [] = CS.csParse inp := by
  unfold CS.csParse
  unfold CS.fuelFor at hF ⊢
  exact parseLoop_stable n _ _ _ inp [] [] (by omega) (by omega) (by omega) (by omega)

/-- one byte at least per operator and per operand -/
theorem parseLoop_count (n F : Nat) : ∀ (inp : Str) (stack : List Obj) (ops res : List CS.Operation),
    CS.parseLoop n F inp stack ops = some res →
    (res.map (fun o => 1 + o.operands.length)).sum ≤
      (ops.map (fun o => 1 + o.operands.length)).sum + stack.length + inp.length := by
  induction n with
  | zero => intro inp stack ops res h; rw [CS.parseLoop] at h; cases h
  | succ n ih =>
    intro inp stack ops res h
    rw [CS.parseLoop] at h
    cases hs : CS.skipSpace inp with
    | nil => rw [hs] at h; cases h; omega
    | cons c r =>
      rw [hs] at h
      dsimp only at h
      have hl := skipSpace_len hs
      split at h
      · split at h
        · cases h
        · next hp =>
          have hlt := (opName_progress c r hp).2
          simp only [List.length_cons] at hlt
          have := ih _ _ _ _ h
          simp only [List.map_append, List.sum_append, List.map_cons, List.map_nil, List.sum_cons,
            List.sum_nil, List.length_nil] at this
          omega
      · split at h
        · cases h
        · next o r' hp =>
          have hlt := ((cs_progress F).1 0 (c :: r) o r' hp).2
          simp only [List.length_cons] at hlt
          have := ih _ _ _ _ h
          simp only [List.length_append, List.length_cons, List.length_nil] at this
          omega

theorem csParse_count (inp : Str) (res : List CS.Operation) (h : CS.csParse inp = some res) :
    (res.map (fun o => 1 + o.operands.length)).sum ≤ inp.length := by
  have := parseLoop_count _ _ inp [] [] res h
  simpa using this

/-- `p.pos` after one `parseOperand` call is positive and inside the data -/
theorem csOperandAt_pos (inp : Str) (o : Obj) (pos : Nat) (h : csOperandAt inp = some (o, pos)) :
    0 < pos ∧ pos ≤ inp.length := by
  unfold csOperandAt at h
  split at h
  · cases h
  · next o1 r hp =>
    cases h
    have := ((cs_progress _).1 0 inp o r hp).2
    omega

end Prog
end Tabula.Pdf
