import TabulaModel.Model.XrefFile
import TabulaModel.Lemmas.Xref
/-!
`core.ObjectStream`: whatever was asked of it before, `GetObjectByIndex` answers what the
stream means.
-/
namespace Tabula.XrefFile
open Tabula.Pdf Tabula.Reader

theorem memberSlice_num (os : ObjStm) (i : Nat) (num : Int) (rel : Nat) (h : os.offsets[i]? = some (num, rel))
    (n' : Int) (bytes : Str) (hs : memberSlice os i = some (n', bytes)) : n' = num := by
  unfold memberSlice at hs
  rw [h] at hs
  simp only at hs
  split at hs
  · cases hs
  · simp at hs; exact hs.1.symm

theorem memberSlice_none_of_offsets (os : ObjStm) (i : Nat) (h : os.offsets[i]? = none) :
    memberSlice os i = none := by
  unfold memberSlice; rw [h]

/-- everything the object remembers is what the stream means -/
def OSOk (dec : Except Reader.Err ObjStm) (st : OSState) : Prop :=
  (∀ os, st.decoded = some os → dec = .ok os) ∧
  (∀ i o, Xref.getLast st.objects i = some o →
    ∃ os num bytes s', dec = .ok os ∧ memberSlice os i = some (num, bytes) ∧ coreParse bytes = .ok (o, s'))

theorem osOk_empty (dec : Except Reader.Err ObjStm) : OSOk dec {} := by
  constructor
  · intro os h; cases h
  · intro i o h; simp [Xref.getLast] at h

/-- the step once the stream is known to decode to `os` (whether it was decoded before or now) -/
theorem osStep_spec (os : ObjStm) (st : OSState) (idx : Int) (h : OSOk (.ok os) st) :
    ((if idx < 0 then ((none : Option (Int × Obj)), st)
      else
        match os.offsets[idx.toNat]? with
        | none => (none, st)
        | some (num, _) =>
          match Xref.getLast st.objects idx.toNat with
          | some o => (some (num, o), st)
          | none =>
            match memberSlice os idx.toNat with
            | none => (none, st)
            | some (_, bytes) =>
              match coreParse bytes with
              | .error _ => (none, st)
              | .ok (o, _) => (some (num, o), { st with objects := st.objects ++ [(idx.toNat, o)] })).1
        = osSpec (.ok os) idx) ∧
    OSOk (.ok os)
      ((if idx < 0 then ((none : Option (Int × Obj)), st)
      else
        match os.offsets[idx.toNat]? with
        | none => (none, st)
        | some (num, _) =>
          match Xref.getLast st.objects idx.toNat with
          | some o => (some (num, o), st)
          | none =>
            match memberSlice os idx.toNat with
            | none => (none, st)
            | some (_, bytes) =>
              match coreParse bytes with
              | .error _ => (none, st)
              | .ok (o, _) => (some (num, o), { st with objects := st.objects ++ [(idx.toNat, o)] })).2) := by
  by_cases hneg : idx < 0
  · simp [hneg, osSpec, h]
  · simp only [hneg, if_false, osSpec]
    cases hoff : os.offsets[idx.toNat]? with
    | none => simp [memberSlice_none_of_offsets os _ hoff, h]
    | some p =>
      obtain ⟨num, rel⟩ := p
      simp only
      cases hc : Xref.getLast st.objects idx.toNat with
      | some o =>
        obtain ⟨os', num', bytes, s', e1, e2, e3⟩ := h.2 _ o hc
        cases e1
        have := memberSlice_num os _ num rel hoff num' bytes e2
        subst this
        simp [e2, e3, h]
      | none =>
        simp only
        cases hs : memberSlice os idx.toNat with
        | none => simp [h]
        | some q =>
          obtain ⟨n', bytes⟩ := q
          have := memberSlice_num os _ num rel hoff n' bytes hs
          subst this
          simp only
          cases hp : coreParse bytes with
          | error e => simp [h]
          | ok r =>
            obtain ⟨o, s'⟩ := r
            refine ⟨rfl, ⟨h.1, ?_⟩⟩
            intro i o' hi
            simp only [Xref.getLast_append, Xref.getLast_single] at hi
            by_cases e : idx.toNat = i
            · subst e; simp at hi; subst hi; exact ⟨os, n', bytes, s', rfl, hs, hp⟩
            · simp [e] at hi; exact h.2 i o' hi

theorem osGetByIndex_spec (dec : Except Reader.Err ObjStm) (st : OSState) (idx : Int) (h : OSOk dec st) :
    (osGetByIndex dec st idx).1 = osSpec dec idx ∧ OSOk dec (osGetByIndex dec st idx).2 := by
  unfold osGetByIndex osDecode
  cases hd : st.decoded with
  | none =>
    cases dec with
    | error e => simp [osSpec, h]
    | ok os =>
      simp only
      have hok1 : OSOk (.ok os) { st with decoded := some os } := by
        refine ⟨by intro os' e; simp at e; rw [e], ?_⟩
        intro i o hi
        exact h.2 i o hi
      exact osStep_spec os { st with decoded := some os } idx hok1
  | some os =>
    have hdec := h.1 os hd
    subst hdec
    simp only
    exact osStep_spec os st idx h

theorem osRun_refines (dec : Except Reader.Err ObjStm) (is : List Int) (st : OSState) (h : OSOk dec st) :
    osRun dec st is = is.map (osSpec dec) := by
  induction is generalizing st with
  | nil => rfl
  | cons i is ih =>
    obtain ⟨h1, h2⟩ := osGetByIndex_spec dec st i h
    simp only [osRun, List.map_cons]
    rw [h1, ih _ h2]

/-! ### the object as the code has it since c437385 (the header error is kept) -/

/-- `GetObjectByIndex` of the model above, through `osAnswer` -/
theorem osGetByIndex_eq (dec : Except Reader.Err ObjStm) (st : OSState) (idx : Int) :
    osGetByIndex dec st idx =
      match osDecode dec st with
      | (none, st') => (none, st')
      | (some os, st') =>
        ((osAnswer os st'.objects idx).1, { st' with objects := (osAnswer os st'.objects idx).2 }) := by
  unfold osGetByIndex
  cases hdec : osDecode dec st with
  | mk r st' =>
    cases r with
    | none => rfl
    | some os =>
      simp only
      unfold osAnswer
      by_cases hneg : idx < 0
      · simp [hneg]
      · simp only [hneg, if_false]
        cases os.offsets[idx.toNat]? with
        | none => rfl
        | some p =>
          obtain ⟨num, rel⟩ := p
          simp only
          cases Xref.getLast st'.objects idx.toNat with
          | some o => rfl
          | none =>
            simp only
            cases memberSlice os idx.toNat with
            | none => rfl
            | some q =>
              obtain ⟨n', bytes⟩ := q
              simp only
              cases coreParse bytes with
              | error e => rfl
              | ok r => rfl

/-- what the two state machines have in common: the same decoded stream and per-index cache;
and a kept header error means the stream is one that does not decode -/
def OSRel (dec : Except Reader.Err ObjStm) (sk : OSStateK) (s : OSState) : Prop :=
  s.decoded = sk.decoded ∧ s.objects = sk.objects ∧
    (sk.headerErr = true → sk.decoded = none ∧ ∃ e, dec = .error e)

theorem osRel_empty (dec : Except Reader.Err ObjStm) : OSRel dec {} {} :=
  ⟨rfl, rfl, by intro h; cases h⟩

theorem osGetByIndexK_rel (keep : Bool) (dec : Except Reader.Err ObjStm) (sk : OSStateK) (s : OSState)
    (idx : Int) (h : OSRel dec sk s) :
    (osGetByIndexK keep dec sk idx).1 = (osGetByIndex dec s idx).1 ∧
      OSRel dec (osGetByIndexK keep dec sk idx).2 (osGetByIndex dec s idx).2 := by
  obtain ⟨hd, ho, he⟩ := h
  rw [osGetByIndex_eq]
  unfold osGetByIndexK osDecodeK osDecode OSRel
  by_cases hk : sk.headerErr = true
  · obtain ⟨hnone, e, hdec⟩ := he hk
    subst hdec
    simp [hk, hd, hnone, ho]
  · have hk' : sk.headerErr = false := by simpa using hk
    cases hsd : sk.decoded with
    | some os => simp [hk', hd, hsd, ho]
    | none =>
      cases dec with
      | ok os => simp [hk', hd, hsd, ho]
      | error e => simp [hk', hd, hsd, ho]

/-- the code of c437385 answers every call sequence exactly as the "stays undecoded" machine -/
theorem osRunK_eq (keep : Bool) (dec : Except Reader.Err ObjStm) (is : List Int) (sk : OSStateK) (s : OSState)
    (h : OSRel dec sk s) : osRunK keep dec sk is = osRun dec s is := by
  induction is generalizing sk s with
  | nil => rfl
  | cons i is ih =>
    obtain ⟨h1, h2⟩ := osGetByIndexK_rel keep dec sk s i h
    simp only [osRunK, osRun]
    rw [h1, ih _ _ h2]

end Tabula.XrefFile
