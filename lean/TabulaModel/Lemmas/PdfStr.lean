import TabulaModel.Model.Print
import TabulaModel.Model.CSParser
/-
Property C06, literal strings: the reader `strLoop` (model of `readString`)
reads every legal spelling of a string body back as the bytes meant; the
content-stream reader `CS.strLoop` is the same function.  Core Lean only.
-/
namespace Tabula.Pdf

/-! ### one-step unfoldings of `strLoop` -/

theorem strLoop_nil (d : Nat) : strLoop d [] = none := by
  rw [strLoop]

theorem strLoop_open (d : Nat) (r : Str) : strLoop d (40 :: r) = pre [40] (strLoop (d + 1) r) := by
  rw [strLoop]; simp

theorem strLoop_close (d : Nat) (r : Str) :
    strLoop d (41 :: r) = if d - 1 > 0 then pre [41] (strLoop (d - 1) r) else some ([], r) := by
  rw [strLoop]; simp

theorem strLoop_raw (d b : Nat) (r : Str) (h1 : b ≠ 40) (h2 : b ≠ 41) (h3 : b ≠ 92) :
    strLoop d (b :: r) = pre [b] (strLoop d r) := by
  rw [strLoop]; simp [h1, h2, h3]

theorem strLoop_esc_none (d : Nat) (r : Str) (h : readEscape r = none) :
    strLoop d (92 :: r) = none := by
  rw [strLoop]
  simp only [show (92 : Nat) ≠ 40 by decide, show (92 : Nat) ≠ 41 by decide, if_false, if_true]
  split
  · rfl
  · next bs r' h' => rw [h] at h'; cases h'

theorem strLoop_esc (d : Nat) (r bs r' : Str) (h : readEscape r = some (bs, r')) :
    strLoop d (92 :: r) = pre bs (strLoop d r') := by
  rw [strLoop]
  simp only [show (92 : Nat) ≠ 40 by decide, show (92 : Nat) ≠ 41 by decide, if_false, if_true]
  split
  · next h' => rw [h] at h'; cases h'
  · next bs2 r2 h' => rw [h] at h'; cases h'; rfl

/-! ### escapes -/

theorem readEscape_named (b : Nat) (r : Str)
    (h : b = 10 ∨ b = 13 ∨ b = 9 ∨ b = 8 ∨ b = 12 ∨ b = 40 ∨ b = 41 ∨ b = 92) :
    readEscape (escChar b :: r) = some ([b], r) := by
  rcases h with h | h | h | h | h | h | h | h <;> subst h <;> simp [readEscape, escChar, namedEsc]

theorem namedEsc_octal (c : Nat) (h : isOctal c = true) : namedEsc c = none := by
  simp only [isOctal, Bool.and_eq_true, decide_eq_true_eq] at h
  unfold namedEsc
  have h1 : c ≠ 110 := by omega
  have h2 : c ≠ 114 := by omega
  have h3 : c ≠ 116 := by omega
  have h4 : c ≠ 98 := by omega
  have h5 : c ≠ 102 := by omega
  have h6 : ¬ (c = 40 ∨ c = 41 ∨ c = 92) := by omega
  simp [h1, h2, h3, h4, h5, h6]

theorem readEscape_octal (c : Nat) (r : Str) (h : isOctal c = true) :
    readEscape (c :: r) = some ([(readOctal c r).1], (readOctal c r).2) := by
  have hn := namedEsc_octal c h
  simp only [isOctal, Bool.and_eq_true, decide_eq_true_eq] at h
  have h1 : c ≠ 13 := by omega
  have h2 : c ≠ 10 := by omega
  simp [readEscape, hn, h1, h2, isOctal, h.1, h.2]

theorem isOctal_digit (v : Nat) : isOctal (48 + v % 8) = true := by
  simp only [isOctal, Bool.and_eq_true, decide_eq_true_eq]; omega

theorem readOctal_1 (c n : Nat) (r : Str) (hn : isOctal n = false) :
    readOctal c (n :: r) = (c - 48, n :: r) := by
  simp [readOctal, hn]

theorem readOctal_2 (c d1 n : Nat) (r : Str) (h1 : isOctal d1 = true) (hn : isOctal n = false) :
    readOctal c (d1 :: n :: r) = ((c - 48) * 8 + (d1 - 48), n :: r) := by
  simp [readOctal, h1, hn]

theorem readOctal_3 (c d1 d2 : Nat) (r : Str) (h1 : isOctal d1 = true) (h2 : isOctal d2 = true) :
    readOctal c (d1 :: d2 :: r) = ((((c - 48) * 8 + (d1 - 48)) * 8 + (d2 - 48)) % 256, r) := by
  simp [readOctal, h1, h2]

/-- the first byte of a body followed by `)` -/
theorem head_body (xs tail : Str) : ∃ r, xs ++ 41 :: tail = xs.headD 41 :: r := by
  cases xs with
  | nil => exact ⟨tail, rfl⟩
  | cons x xs => exact ⟨xs ++ 41 :: tail, rfl⟩

theorem readEscape_oct (b k n : Nat) (r : Str) (hk1 : 1 ≤ k) (hk3 : k ≤ 3) (hb : b < 8 ^ k)
    (hb2 : b < 256) (hn : k < 3 → isOctal n = false) :
    readEscape (octDigits k b ++ n :: r) = some ([b], n :: r) := by
  have hk : k = 1 ∨ k = 2 ∨ k = 3 := by omega
  rcases hk with hk | hk | hk <;> subst hk
  · have hn' := hn (by decide)
    have hb' : b < 8 := by simpa using hb
    simp only [octDigits, List.nil_append, List.cons_append]
    rw [readEscape_octal _ _ (isOctal_digit b), readOctal_1 _ _ _ hn']
    simp only [Nat.add_sub_cancel_left]
    have : b % 8 = b := by omega
    rw [this]
  · have hn' := hn (by decide)
    have hb' : b < 64 := by simpa using hb
    simp only [octDigits, List.nil_append, List.cons_append]
    rw [readEscape_octal _ _ (isOctal_digit _), readOctal_2 _ _ _ _ (isOctal_digit b) hn']
    simp only [Nat.add_sub_cancel_left]
    have : b / 8 % 8 * 8 + b % 8 = b := by omega
    rw [this]
  · simp only [octDigits, List.nil_append, List.cons_append]
    rw [readEscape_octal _ _ (isOctal_digit _),
      readOctal_3 _ _ _ _ (isOctal_digit _) (isOctal_digit b)]
    simp only [Nat.add_sub_cancel_left]
    have : ((b / 8 / 8 % 8 * 8 + b / 8 % 8) * 8 + b % 8) % 256 = b := by omega
    rw [this]

theorem readEscape_cont (eol : Str) (n : Nat) (r : Str)
    (h : eol = [10] ∨ eol = [13, 10] ∨ (eol = [13] ∧ n ≠ 10)) :
    readEscape (eol ++ n :: r) = some ([], n :: r) := by
  rcases h with h | h | ⟨h, hn⟩ <;> subst h
  · simp [readEscape, namedEsc]
  · simp [readEscape, namedEsc, afterCR]
  · simp [readEscape, namedEsc, afterCR, hn]

/-! ### the round trip -/

/-- every legal spelling of a literal string body reads back as the bytes meant -/
theorem strLoop_roundtrip (ps : List SPiece) (d : Nat) (tail : Str) (h : ValidStr d ps) :
    strLoop (d + 1) (renderStrBody ps ++ 41 :: tail) = some (strBytes ps, tail) := by
  induction ps generalizing d with
  | nil =>
    simp only [ValidStr] at h
    subst h
    simp [renderStrBody, strBytes, strLoop_close]
  | cons p ps ih =>
    have hr : renderStrBody (p :: ps) = p.render ++ renderStrBody ps := by
      simp [renderStrBody]
    have hb : strBytes (p :: ps) = p.bytes ++ strBytes ps := by
      simp [strBytes]
    rw [hr, hb, List.append_assoc]
    obtain ⟨rest, hrest⟩ := head_body (renderStrBody ps) tail
    cases p with
    | raw b =>
      simp only [ValidStr] at h
      obtain ⟨h1, h2, h3, _, hv⟩ := h
      simp only [SPiece.render, SPiece.bytes, List.cons_append, List.nil_append]
      rw [strLoop_raw _ _ _ h1 h2 h3, ih d hv]; rfl
    | popen =>
      simp only [ValidStr] at h
      simp only [SPiece.render, SPiece.bytes, List.cons_append, List.nil_append]
      rw [strLoop_open, ih (d + 1) h]; rfl
    | pclose =>
      simp only [ValidStr] at h
      obtain ⟨hd, hv⟩ := h
      simp only [SPiece.render, SPiece.bytes, List.cons_append, List.nil_append]
      have hd1 : d + 1 - 1 = (d - 1) + 1 := by omega
      have hd2 : (d - 1) + 1 > 0 := by omega
      rw [strLoop_close, hd1, if_pos hd2, ih (d - 1) hv]; rfl
    | named b =>
      simp only [ValidStr] at h
      obtain ⟨hb', hv⟩ := h
      simp only [SPiece.render, SPiece.bytes, List.cons_append, List.nil_append]
      rw [strLoop_esc _ _ _ _ (readEscape_named b _ hb'), ih d hv]; rfl
    | octal b k =>
      simp only [ValidStr] at h
      obtain ⟨hk1, hk3, hb1, hb2, hn, hv⟩ := h
      simp only [SPiece.render, SPiece.bytes, List.cons_append, List.nil_append]
      have := ih d hv
      rw [hrest] at this ⊢
      rw [strLoop_esc _ _ _ _ (readEscape_oct b k _ rest hk1 hk3 hb1 hb2 hn), this]; rfl
    | cont eol =>
      simp only [ValidStr] at h
      obtain ⟨he, hv⟩ := h
      simp only [SPiece.render, SPiece.bytes, List.cons_append, List.nil_append]
      have := ih d hv
      rw [hrest] at this ⊢
      rw [strLoop_esc _ _ _ _ (readEscape_cont eol _ rest he), this]; rfl

theorem litstr_roundtrip (ps : List SPiece) (tail : Str) (h : ValidStr 0 ps) :
    strLoop 1 (renderStrBody ps ++ 41 :: tail) = some (strBytes ps, tail) :=
  strLoop_roundtrip ps 0 tail h

/-- every byte string has a legal spelling (all-octal), so the round trip covers every byte string -/
theorem validStr_octal3 (bs : Str) (h : ∀ b ∈ bs, b < 256) :
    ValidStr 0 (bs.map (fun b => SPiece.octal b 3)) ∧ strBytes (bs.map (fun b => SPiece.octal b 3)) = bs := by
  induction bs with
  | nil => simp [ValidStr, strBytes]
  | cons b bs ih =>
    have hb : b < 256 := h b (by simp)
    obtain ⟨h1, h2⟩ := ih (fun c hc => h c (by simp [hc]))
    constructor
    · simp only [List.map_cons, ValidStr]
      refine ⟨by decide, by decide, ?_, hb, ?_, h1⟩
      · have : (8 : Nat) ^ 3 = 512 := by decide
        omega
      · intro hlt; omega
    · simp only [strBytes, List.map_cons, List.flatMap_cons, SPiece.bytes] at h2 ⊢
      rw [h2]; rfl

/-! ### the content-stream reader -/

theorem readOctal_lt (c : Nat) (r : Str) (h : isOctal c = true) : (readOctal c r).1 < 256 := by
  simp only [isOctal, Bool.and_eq_true, decide_eq_true_eq] at h
  unfold readOctal
  split
  · next d1 r1 =>
    by_cases h1 : isOctal d1 = true
    · simp only [h1, if_true]
      split
      · next d2 r2 =>
        by_cases h2 : isOctal d2 = true
        · simp only [h2, if_true]; omega
        · simp only [h2]
          simp only [isOctal, Bool.and_eq_true, decide_eq_true_eq] at h1
          simp; omega
      · simp only [isOctal, Bool.and_eq_true, decide_eq_true_eq] at h1
        simp; omega
    · simp only [h1]; simp; omega
  · simp; omega

theorem csEscape_eq (r : Str) : CS.csEscape r = readEscape r := by
  cases r with
  | nil => rfl
  | cons c r =>
    simp only [CS.csEscape, readEscape]
    cases hN : namedEsc c with
    | some v => rfl
    | none =>
      simp only []
      by_cases h1 : c = 13
      · simp [h1]
      · by_cases h2 : c = 10
        · simp [h2]
        · by_cases h3 : isOctal c = true
          · have := readOctal_lt c r h3
            simp [h1, h2, h3, Nat.mod_eq_of_lt this]
          · simp [h1, h2, h3]

/-- the content-stream string reader and the document-level one are the same function -/
theorem cs_strLoop_eq (inp : Str) (d : Nat) : CS.strLoop d inp = strLoop d inp := by
  suffices H : ∀ n (inp : Str) (d : Nat), inp.length ≤ n → CS.strLoop d inp = strLoop d inp from
    H inp.length inp d (Nat.le_refl _)
  intro n
  induction n with
  | zero =>
    intro inp d hl
    cases inp with
    | nil => rw [CS.strLoop, strLoop]
    | cons c r => simp at hl
  | succ n ih =>
    intro inp d hl
    cases inp with
    | nil => rw [CS.strLoop, strLoop]
    | cons c r =>
      have hl' : r.length ≤ n := by simp only [List.length_cons] at hl; omega
      by_cases h92 : c = 92
      · subst h92
        cases hE : readEscape r with
        | none =>
          rw [strLoop_esc_none _ _ hE]
          rw [CS.strLoop]
          by_cases hr : r = []
          · subst hr
            simp [CS.strLoop, pre]
          · simp only [hr, ne_eq, not_false_eq_true, and_self, if_true]
            split
            · rfl
            · next bs r' h' => rw [csEscape_eq, hE] at h'; cases h'
        | some p =>
          obtain ⟨bs, r'⟩ := p
          rw [strLoop_esc _ _ _ _ hE]
          have hlt := readEscape_lt hE
          have hr : r ≠ [] := by
            intro h0; subst h0; simp [readEscape] at hE
          rw [CS.strLoop]
          simp only [hr, ne_eq, not_false_eq_true, and_self, if_true]
          split
          · next h' => rw [csEscape_eq, hE] at h'; cases h'
          · next bs2 r2 h' =>
            rw [csEscape_eq, hE] at h'; cases h'
            rw [ih r' d (by omega)]
      · by_cases h40 : c = 40
        · subst h40
          rw [strLoop_open, CS.strLoop]
          simp [ih r (d + 1) hl']
        · by_cases h41 : c = 41
          · subst h41
            rw [strLoop_close, CS.strLoop]
            simp [ih r (d - 1) hl']
          · rw [strLoop_raw _ _ _ h40 h41 h92, CS.strLoop]
            simp [h92, h40, h41, ih r d hl']

end Tabula.Pdf
