import TabulaModel.Lemmas.MarkdownDoc
/-!
The DOCX Markdown writer (`docxLoop`) as a sequence of line segments, and what the reading spec
gives back on them.
-/
namespace Tabula.MarkdownDoc
open Tabula.A1 (Str dec decInt)
open Tabula.Markdown

/-! ## tables as lines -/

/-- the lines of `renderSpan w t` (docx / odt `ParsedTable.ToMarkdown`) -/
def spanLines (w : Writer) (t : List (List SCell)) : List Str :=
  match t with
  | [] => []
  | hdr :: rows =>
    renderSpanRow w (colCount t) hdr :: delimPipe (delimPiece w) (colCount t)
      :: rows.map (renderSpanRow w (colCount t))

theorem colCount_nil : colCount [] = 0 := rfl

theorem renderSpan_zero (w : Writer) (t : List (List SCell)) (h : colCount t = 0) : renderSpan w t = [] := by
  simp [renderSpan, h]

theorem renderSpan_lines (w : Writer) (t : List (List SCell)) (h : colCount t ≠ 0) :
    renderSpan w t = joinLines (spanLines w t) := by
  cases t with
  | nil => exact absurd colCount_nil h
  | cons hdr rows =>
    simp only [renderSpan, h, if_false, spanLines, joinLines_cons]
    have : (rows.flatMap fun r => renderSpanRow w (colCount (hdr :: rows)) r ++ [10])
        = joinLines (rows.map (renderSpanRow w (colCount (hdr :: rows)))) := by
      unfold joinLines
      exact flatMap_lines _ rows
    rw [this]
    simp

theorem spanLines_ne_nil (w : Writer) (t : List (List SCell)) (h : colCount t ≠ 0) : spanLines w t ≠ [] := by
  cases t with
  | nil => exact absurd colCount_nil h
  | cons hdr rows => simp [spanLines]

theorem spanLines_pipe (w : Writer) (t : List (List SCell)) : ∀ l ∈ spanLines w t, isPipeLine l = true := by
  cases t with
  | nil => simp [spanLines]
  | cons hdr rows =>
    intro l hl
    simp only [spanLines, List.mem_cons, List.mem_map] at hl
    rcases hl with rfl | rfl | ⟨r, _, rfl⟩
    · rfl
    · rfl
    · rfl

theorem emptyCells_noNl (k : Nat) : 10 ∉ emptyCells k := by
  unfold emptyCells
  intro h
  rcases List.mem_flatten.mp h with ⟨l, hl, hm⟩
  rw [List.eq_of_mem_replicate hl] at hm
  simp at hm

theorem escCell_noNl (w : Writer) (s : Str) : 10 ∉ escCell w s := by
  rw [escCell_eq]
  exact escPipe_noNl _ (preCell_noNl w s)

theorem spanCellOut_noNl (w : Writer) (c : SCell) : 10 ∉ spanCellOut w c := by
  unfold spanCellOut
  split
  · exact emptyCells_noNl _
  · intro hc
    rcases List.mem_cons.mp hc with hc | hc
    · omega
    · rcases List.mem_append.mp hc with hc | hc
      · rcases List.mem_append.mp hc with hc | hc
        · exact escCell_noNl w _ hc
        · simp at hc
      · exact emptyCells_noNl _ hc

theorem renderSpanRow_noNl (w : Writer) (n : Nat) (cells : List SCell) : 10 ∉ renderSpanRow w n cells := by
  unfold renderSpanRow
  intro h
  rcases List.mem_cons.mp h with h | h
  · omega
  · rcases List.mem_append.mp h with h | h
    · rcases List.mem_flatMap.mp h with ⟨c, _, hc⟩
      exact spanCellOut_noNl w c hc
    · exact emptyCells_noNl _ h

theorem delimPipe_noNl (w : Writer) (n : Nat) : 10 ∉ delimPipe (delimPiece w) n := by
  unfold delimPipe
  intro h
  simp only [List.mem_cons, List.mem_flatten] at h
  rcases h with h | ⟨l, hl, hm⟩
  · omega
  · rw [List.eq_of_mem_replicate hl] at hm
    cases w <;> simp [delimPiece] at hm

theorem spanLines_noNl (w : Writer) (t : List (List SCell)) : ∀ l ∈ spanLines w t, 10 ∉ l := by
  cases t with
  | nil => simp [spanLines]
  | cons hdr rows =>
    intro l hl
    simp only [spanLines, List.mem_cons, List.mem_map] at hl
    rcases hl with rfl | rfl | ⟨r, _, rfl⟩
    · exact renderSpanRow_noNl _ _ _
    · exact delimPipe_noNl _ _
    · exact renderSpanRow_noNl _ _ _

/-- the table element as a segment: nothing but the empty line when the table has no columns -/
def spanSeg (w : Writer) (t : List (List SCell)) : Seg :=
  if colCount t = 0 then .plain [[]] else .table (spanLines w t)

theorem spanSeg_lines (w : Writer) (t : List (List SCell)) :
    renderSpan w t ++ [10] = joinLines (spanSeg w t).lines := by
  unfold spanSeg
  split
  · rename_i h
    simp [renderSpan_zero w t h, Seg.lines, joinLines]
  · rename_i h
    rw [renderSpan_lines w t h, Seg.lines, joinLines_append]
    simp [joinLines]

theorem spanSeg_OK (w : Writer) (t : List (List SCell)) : (spanSeg w t).OK := by
  unfold spanSeg
  split
  · intro l hl; simp at hl; subst hl; rfl
  · rename_i h
    exact ⟨spanLines_ne_nil w t h, spanLines_pipe w t⟩

/-! ## the DOCX loop as segments -/

/-- the part of the loop state that decides what is written -/
structure DLs where
  il : Bool
  ln : Str
  cs : Ctrs

/-- the list item line without its `\n` -/
def docxItemLine (fmt : Str → Int → NumFmt) (p : DPara) (cs : Ctrs) : Str :=
  ((docxListItem fmt p cs).1).dropLast

theorem docxListItem_line (fmt : Str → Int → NumFmt) (p : DPara) (cs : Ctrs) :
    (docxListItem fmt p cs).1 = docxItemLine fmt p cs ++ [10] := by
  unfold docxItemLine docxListItem
  simp only
  split
  · simp only [List.dropLast_concat]
  · simp only [List.dropLast_concat]

def docxSegStep (excl : Str → Bool) (hl : Int → Int) (fmt : Str → Int → NumFmt) (s : DLs) :
    DElem → List Seg × DLs
  | .para p =>
    if excl p.text then ([], s) else
    let sp := s.il && (!p.isListItem || p.numID != s.ln)
    let sepL : List Str := if sp then [[]] else []
    if p.isHeading then
      ([.plain (sepL ++ [atxLine (hl p.level).toNat p.text, []])], ⟨false, s.ln, s.cs⟩)
    else if p.listed then
      ([.plain (sepL ++ [docxItemLine fmt p s.cs])], ⟨true, p.numID, (docxListItem fmt p s.cs).2⟩)
    else if !p.text.isEmpty then
      ([.plain (sepL ++ [p.text, []])], ⟨false, s.ln, s.cs⟩)
    else ([.plain sepL], ⟨if sp then false else s.il, s.ln, s.cs⟩)
  | .table t =>
    ([.plain (if s.il then [[]] else []), spanSeg .docx t], ⟨false, s.ln, s.cs⟩)

def docxSegs (excl : Str → Bool) (hl : Int → Int) (fmt : Str → Int → NumFmt) : DLs → List DElem → List Seg
  | _, [] => []
  | s, e :: es => (docxSegStep excl hl fmt s e).1 ++ docxSegs excl hl fmt (docxSegStep excl hl fmt s e).2 es

def DSt.ls (st : DSt) : DLs := ⟨st.inList, st.lastNum, st.ctrs⟩

/-- the loop invariant that makes the `i > 0 && result.Len() > 0` guard redundant -/
def DSt.Good (i : Nat) (st : DSt) : Prop := st.inList = true → 0 < i ∧ st.out ≠ []

theorem docxStep_eq (excl : Str → Bool) (hl : Int → Int) (fmt : Str → Int → NumFmt) (i : Nat) (st : DSt)
    (hg : st.Good i) (e : DElem) :
    docxStep excl hl fmt i st e =
      { out := st.out ++ joinLines (segLines (docxSegStep excl hl fmt st.ls e).1)
        inList := (docxSegStep excl hl fmt st.ls e).2.il
        lastNum := (docxSegStep excl hl fmt st.ls e).2.ln
        ctrs := (docxSegStep excl hl fmt st.ls e).2.cs } := by
  cases e with
  | para p =>
    unfold docxStep docxSegStep
    by_cases hx : excl p.text = true
    · simp [hx, DSt.ls, segLines, joinLines]
    · simp only [hx, Bool.false_eq_true, if_false]
      -- the guard
      have hguard : ((decide (i > 0) && !st.out.isEmpty) && (st.inList && (!p.isListItem || p.numID != st.lastNum)))
          = (st.inList && (!p.isListItem || p.numID != st.lastNum)) := by
        by_cases hil : st.inList = true
        · obtain ⟨hi, ho⟩ := hg hil
          have : st.out.isEmpty = false := by
            cases hout : st.out with
            | nil => exact absurd hout ho
            | cons a b => rfl
          simp [hi, this]
        · have : st.inList = false := by simpa using hil
          simp [this]
      rw [hguard]
      simp only [DSt.ls]
      by_cases hsp : (st.inList && (!p.isListItem || p.numID != st.lastNum)) = true
      · simp only [hsp, if_true]
        by_cases hh : p.isHeading = true
        · simp [hh, segLines, Seg.lines, joinLines]
        · simp only [hh, Bool.false_eq_true, if_false]
          by_cases hli : p.listed = true
          · simp [hli, segLines, Seg.lines, joinLines, docxListItem_line]
          · simp only [hli, Bool.false_eq_true, if_false]
            by_cases ht : (!p.text.isEmpty) = true
            · simp [ht, segLines, Seg.lines, joinLines]
            · simp [ht, segLines, Seg.lines, joinLines]
      · simp only [hsp, Bool.false_eq_true, if_false]
        by_cases hh : p.isHeading = true
        · simp [hh, segLines, Seg.lines, joinLines]
        · simp only [hh, Bool.false_eq_true, if_false]
          by_cases hli : p.listed = true
          · simp [hli, segLines, Seg.lines, joinLines, docxListItem_line]
          · simp only [hli, Bool.false_eq_true, if_false]
            by_cases ht : (!p.text.isEmpty) = true
            · simp [ht, segLines, Seg.lines, joinLines]
            · simp [ht, segLines, Seg.lines, joinLines]
  | table t =>
    unfold docxStep docxSegStep
    simp only [DSt.ls]
    have hs := spanSeg_lines .docx t
    by_cases hil : st.inList = true
    · simp only [hil, if_true, segLines, List.flatMap_cons, List.flatMap_nil, List.append_nil,
        joinLines_append]
      rw [← hs]
      simp [Seg.lines, joinLines]
    · have : st.inList = false := by simpa using hil
      simp only [this, Bool.false_eq_true, if_false, segLines, List.flatMap_cons, List.flatMap_nil,
        List.append_nil, joinLines_append]
      rw [← hs]
      simp [Seg.lines, joinLines]

theorem docxStep_good (excl : Str → Bool) (hl : Int → Int) (fmt : Str → Int → NumFmt) (i : Nat) (st : DSt)
    (hg : st.Good i) (e : DElem) : (docxStep excl hl fmt i st e).Good (i + 1) := by
  intro hil
  refine ⟨by omega, ?_⟩
  rw [docxStep_eq excl hl fmt i st hg e] at hil ⊢
  simp only at hil ⊢
  cases e with
  | table t => simp [docxSegStep] at hil
  | para p =>
    unfold docxSegStep at hil ⊢
    by_cases hx : excl p.text = true
    · simp only [hx, if_true] at hil ⊢
      simp only [DSt.ls] at hil
      simpa [segLines, joinLines] using (hg hil).2
    · simp only [hx, Bool.false_eq_true, if_false] at hil ⊢
      by_cases hh : p.isHeading = true
      · simp [hh] at hil
      · simp only [hh, Bool.false_eq_true, if_false] at hil ⊢
        by_cases hli : p.listed = true
        · simp [hli, segLines, Seg.lines, joinLines]
        · simp only [hli, Bool.false_eq_true, if_false] at hil ⊢
          by_cases ht : (!p.text.isEmpty) = true
          · simp [ht] at hil
          · simp only [ht, Bool.false_eq_true, if_false] at hil ⊢
            simp only [DSt.ls] at hil ⊢
            by_cases hsp : (st.inList && (!p.isListItem || p.numID != st.lastNum)) = true
            · simp [hsp] at hil
            · simp only [hsp, Bool.false_eq_true, if_false] at hil
              have := (hg hil).2
              intro hcontra
              apply this
              cases hout : st.out with
              | nil => rfl
              | cons a b => rw [hout] at hcontra; simp at hcontra

theorem docxLoop_out (excl : Str → Bool) (hl : Int → Int) (fmt : Str → Int → NumFmt) (els : List DElem) :
    ∀ (i : Nat) (st : DSt), st.Good i →
      (docxLoop excl hl fmt i st els).out = st.out ++ joinLines (segLines (docxSegs excl hl fmt st.ls els)) := by
  induction els with
  | nil => intro i st _; simp [docxLoop, docxSegs, segLines, joinLines]
  | cons e es ih =>
    intro i st hg
    unfold docxLoop docxSegs
    rw [ih (i + 1) _ (docxStep_good excl hl fmt i st hg e)]
    rw [docxStep_eq excl hl fmt i st hg e]
    simp only [DSt.ls, segLines_append, joinLines_append, List.append_assoc]

/-! ## counters never go negative -/

def ctrNN (m : Ctr) : Prop := ∀ e ∈ m, 0 ≤ e.2
def ctrsNN (cs : Ctrs) : Prop := ∀ e ∈ cs, ctrNN e.2

theorem ctrGet_nonneg (m : Ctr) (k : Int) (h : ctrNN m) : 0 ≤ ctrGet m k := by
  unfold ctrGet ctrGet?
  cases hf : m.find? (fun e => e.1 == k) with
  | none => simp
  | some e => simpa using h e (List.mem_of_find?_eq_some hf)

theorem ctrNN_set (m : Ctr) (k v : Int) (h : ctrNN m) (hv : 0 ≤ v) : ctrNN (ctrSet m k v) := by
  intro e he
  rcases List.mem_cons.mp he with rfl | he
  · exact hv
  · exact h e (List.mem_filter.mp he).1

theorem ctrNN_filter (m : Ctr) (f : Int × Int → Bool) (h : ctrNN m) : ctrNN (m.filter f) :=
  fun e he => h e (List.mem_filter.mp he).1

theorem ctrNN_get (cs : Ctrs) (id : Str) (h : ctrsNN cs) : ctrNN (ctrsGet cs id) := by
  unfold ctrsGet
  cases hf : cs.find? (fun e => e.1 == id) with
  | none => intro e he; simp at he
  | some e => exact h e (List.mem_of_find?_eq_some hf)

theorem ctrsNN_set (cs : Ctrs) (id : Str) (c : Ctr) (h : ctrsNN cs) (hc : ctrNN c) : ctrsNN (ctrsSet cs id c) := by
  intro e he
  rcases List.mem_cons.mp he with rfl | he
  · exact hc
  · exact h e (List.mem_filter.mp he).1

theorem decInt_nonneg (i : Int) (h : 0 ≤ i) : decInt i = dec i.toNat := by
  unfold Tabula.A1.decInt
  have : ¬ i < 0 := by omega
  simp only [this, if_false]
  congr 1
  omega

theorem ctrNN_clear (c : Ctr) (lvl : Int) (h : ctrNN c) : ctrNN (ctrClearDeeper c lvl) := by
  unfold ctrClearDeeper
  split
  · split
    · exact ctrNN_filter _ _ h
    · exact h
  · exact h

/-- the counters after one list item, and the item line as a `listLine` -/
theorem docxListItem_spec (fmt : Str → Int → NumFmt) (p : DPara) (cs : Ctrs) (hcs : ctrsNN cs)
    (hl : 0 ≤ p.listLevel) (hs : (fmt p.numID p.listLevel).ordered = true → 0 ≤ (fmt p.numID p.listLevel).startAt) :
    ctrsNN (docxListItem fmt p cs).2 ∧
      ∃ num, docxItemLine fmt p cs = listLine ⟨p.listLevel.toNat, (fmt p.numID p.listLevel).ordered, num, p.text⟩ := by
  have h2 : ctrNN (ctrSet (ctrClearDeeper (ctrsGet cs p.numID) p.listLevel) (-1) p.listLevel) :=
    ctrNN_set _ (-1) p.listLevel (ctrNN_clear _ _ (ctrNN_get cs p.numID hcs)) hl
  have hline := docxListItem_line fmt p cs
  generalize hc2 : ctrSet (ctrClearDeeper (ctrsGet cs p.numID) p.listLevel) (-1) p.listLevel = c2 at h2
  cases ho : (fmt p.numID p.listLevel).ordered with
  | false =>
    have e1 : (docxListItem fmt p cs).1 = (indent2 p.listLevel ++ [45, 32] ++ p.text) ++ [10] := by
      simp [docxListItem, ho]
    have e2 : (docxListItem fmt p cs).2 = ctrsSet cs p.numID c2 := by
      simp [docxListItem, ho, hc2]
    rw [e2]
    refine ⟨ctrsNN_set _ _ _ hcs h2, 1, ?_⟩
    have := List.append_cancel_right (hline.symm.trans e1)
    rw [this]
    simp [listLine, indent2]
  | true =>
    have h3 := ctrGet_nonneg c2 p.listLevel h2
    have hst := hs ho
    have e1 : (docxListItem fmt p cs).1 =
        (indent2 p.listLevel ++ decInt ((fmt p.numID p.listLevel).startAt + (ctrGet c2 p.listLevel + 1) - 1)
          ++ [46, 32] ++ p.text) ++ [10] := by
      simp [docxListItem, ho, hc2]
    have e2 : (docxListItem fmt p cs).2 = ctrsSet cs p.numID (ctrSet c2 p.listLevel (ctrGet c2 p.listLevel + 1)) := by
      simp [docxListItem, ho, hc2]
    rw [e2]
    refine ⟨ctrsNN_set _ _ _ hcs (ctrNN_set _ _ _ h2 (by omega)), ?_⟩
    refine ⟨((fmt p.numID p.listLevel).startAt + (ctrGet c2 p.listLevel + 1) - 1).toNat, ?_⟩
    have := List.append_cancel_right (hline.symm.trans e1)
    rw [this, decInt_nonneg _ (by omega)]
    simp [listLine, indent2]

/-! ## what the reader finds in the segments -/

def dHeadings (excl : Str → Bool) (hl : Int → Int) (els : List DElem) : List (Nat × Str) :=
  els.filterMap fun
    | .para p => if !excl p.text && p.isHeading then some ((hl p.level).toNat, p.text) else none
    | .table _ => none

def dItems (excl : Str → Bool) (fmt : Str → Int → NumFmt) (els : List DElem) : List (Nat × Bool × Str) :=
  els.filterMap fun
    | .para p =>
      if !excl p.text && !p.isHeading && p.listed then
        some (p.listLevel.toNat, (fmt p.numID p.listLevel).ordered, p.text)
      else none
    | .table _ => none

def dParas (excl : Str → Bool) (els : List DElem) : List Str :=
  els.filterMap fun
    | .para p => if !excl p.text && !p.isHeading && !p.listed && !p.text.isEmpty then some p.text else none
    | .table _ => none

def dTables (els : List DElem) : List (List (List SCell)) :=
  els.filterMap fun
    | .para _ => none
    | .table t => if colCount t = 0 then none else some t

/-- well-formed input of the DOCX writer for the read-back theorems -/
structure DocxWF (excl : Str → Bool) (hl : Int → Int) (fmt : Str → Int → NumFmt) (els : List DElem) : Prop where
  /-- heading levels come out in 1..6 -/
  hlRange : ∀ l, 1 ≤ (hl l).toNat ∧ (hl l).toNat ≤ 6
  /-- paragraph texts are single lines -/
  noNl : ∀ p, DElem.para p ∈ els → 10 ∉ p.text
  /-- body paragraphs are paragraph text for a Markdown reader (not `# x`, `- x`, `| x`, `---`, …) -/
  plain : ∀ p, DElem.para p ∈ els → excl p.text = false → p.isHeading = false → p.listed = false →
    p.text.isEmpty = false → classify p.text = .para
  /-- list levels are not negative; ordered lists do not start below zero -/
  level : ∀ p, DElem.para p ∈ els → p.listed = true → 0 ≤ p.listLevel
  start : ∀ p, DElem.para p ∈ els → p.listed = true → (fmt p.numID p.listLevel).ordered = true →
    0 ≤ (fmt p.numID p.listLevel).startAt

theorem DocxWF.tail {excl hl fmt e es} (h : DocxWF excl hl fmt (e :: es)) : DocxWF excl hl fmt es :=
  ⟨h.hlRange, fun p hp => h.noNl p (List.mem_cons_of_mem _ hp),
   fun p hp => h.plain p (List.mem_cons_of_mem _ hp), fun p hp => h.level p (List.mem_cons_of_mem _ hp),
   fun p hp => h.start p (List.mem_cons_of_mem _ hp)⟩

theorem classify_para_props (l : Str) (h : classify l = .para) :
    headingOf l = none ∧ itemOf l = none ∧ isPara l = true ∧ isPipeLine l = false ∧ l ≠ hrLine ∧ l ≠ tocTitle := by
  refine ⟨by simp [headingOf, h], by simp [itemOf, h], by simp [isPara, h], ?_, ?_, ?_⟩
  · cases hp : isPipeLine l with
    | false => rfl
    | true => rw [classify_of_isPipe l hp] at h; cases h
  · intro e; rw [e] at h; revert h; decide
  · intro e; rw [e] at h; revert h; decide

/-- the facts about one step that all projections use -/
theorem docxSegStep_facts (excl : Str → Bool) (hl : Int → Int) (fmt : Str → Int → NumFmt) (s : DLs) (e : DElem)
    (es : List DElem) (hwf : DocxWF excl hl fmt (e :: es)) (hcs : ctrsNN s.cs) :
    ctrsNN (docxSegStep excl hl fmt s e).2.cs ∧
    (∀ sg ∈ (docxSegStep excl hl fmt s e).1, sg.OK) ∧
    (∀ l ∈ segLines (docxSegStep excl hl fmt s e).1, 10 ∉ l ∧ l ≠ hrLine) ∧
    (segPlain (docxSegStep excl hl fmt s e).1).filterMap headingOf = dHeadings excl hl [e] ∧
    (segPlain (docxSegStep excl hl fmt s e).1).filterMap itemOf = dItems excl fmt [e] ∧
    (segPlain (docxSegStep excl hl fmt s e).1).filter isPara = dParas excl [e] ∧
    segTables (docxSegStep excl hl fmt s e).1 = (dTables [e]).map (spanLines .docx) := by
  have hnil : (10 ∉ ([] : Str) ∧ ([] : Str) ≠ hrLine) := by simp [hrLine]
  -- the separator lines
  have hsep : ∀ (b : Bool), (∀ l ∈ (if b = true then [([] : Str)] else []), isPipeLine l = false) ∧
      (∀ l ∈ (if b = true then [([] : Str)] else []), 10 ∉ l ∧ l ≠ hrLine) ∧
      (if b = true then [([] : Str)] else []).filterMap headingOf = [] ∧
      (if b = true then [([] : Str)] else []).filterMap itemOf = [] ∧
      (if b = true then [([] : Str)] else []).filter isPara = [] := by
    intro b; cases b <;> simp [headingOf_nil, itemOf_nil, isPara_nil, isPipeLine, hrLine]
  cases e with
  | table t =>
    have hOK := spanSeg_OK .docx t
    obtain ⟨ht1, ht2, ht3, ht4, ht5⟩ := hsep s.il
    refine ⟨hcs, ?_, ?_, ?_, ?_, ?_, ?_⟩
    · intro sg hsg
      simp only [docxSegStep, List.mem_cons, List.not_mem_nil, or_false] at hsg
      rcases hsg with rfl | rfl
      · exact ht1
      · exact hOK
    · intro l hl'
      simp only [docxSegStep, segLines, List.flatMap_cons, List.flatMap_nil, List.append_nil,
        List.mem_append] at hl'
      rcases hl' with hl' | hl'
      · exact ht2 l hl'
      · by_cases hc : colCount t = 0
        · simp [spanSeg, hc, Seg.lines] at hl'; subst hl'; exact hnil
        · simp only [spanSeg, hc, if_false, Seg.lines, List.mem_append, List.mem_singleton] at hl'
          rcases hl' with hl' | rfl
          · refine ⟨spanLines_noNl .docx t l hl', ?_⟩
            intro e
            have := spanLines_pipe .docx t l hl'
            rw [e] at this; exact absurd this (by decide)
          · exact hnil
    · by_cases hc : colCount t = 0 <;>
        simp [docxSegStep, segPlain, dHeadings, spanSeg, hc, ht3, headingOf_nil]
    · by_cases hc : colCount t = 0 <;>
        simp [docxSegStep, segPlain, dItems, spanSeg, hc, ht4, itemOf_nil]
    · by_cases hc : colCount t = 0 <;>
        simp [docxSegStep, segPlain, dParas, spanSeg, hc, ht5, isPara_nil]
    · by_cases hc : colCount t = 0 <;>
        simp [docxSegStep, segTables, dTables, spanSeg, hc]
  | para p =>
    have hnl := hwf.noNl p (by simp)
    have hr := hwf.hlRange p.level
    by_cases hx : excl p.text = true
    · simp [docxSegStep, hx, hcs, segLines, segPlain, segTables, dHeadings, dItems, dParas, dTables]
    · have hx' : excl p.text = false := by simpa using hx
      obtain ⟨hs1, hs2, hs3, hs4, hs5⟩ := hsep (s.il && (!p.isListItem || p.numID != s.ln))
      generalize hgen : (if (s.il && (!p.isListItem || p.numID != s.ln)) = true then [([] : Str)] else []) = sepL
        at hs1 hs2 hs3 hs4 hs5
      by_cases hh : p.isHeading = true
      · -- heading
        have hatx := hr.1
        have hnlA : 10 ∉ atxLine (hl p.level).toNat p.text := by
          unfold atxLine
          intro hm
          rcases List.mem_append.mp hm with hm | hm
          · have := List.eq_of_mem_replicate hm; omega
          · rcases List.mem_cons.mp hm with hm | hm
            · omega
            · exact hnl hm
        have hhrA : atxLine (hl p.level).toNat p.text ≠ hrLine := by
          intro e
          have := classify_atxLine (hl p.level).toNat p.text hatx
          rw [e] at this
          have h2 : classify hrLine = .skip := by decide
          rw [h2] at this; cases this
        simp only [docxSegStep, hx', Bool.false_eq_true, if_false, hh, if_true, hgen]
        refine ⟨hcs, ?_, ?_, ?_, ?_, ?_, ?_⟩
        · intro sg hsg
          simp only [List.mem_singleton] at hsg; subst hsg
          intro l hl'
          rcases List.mem_append.mp hl' with hl' | hl'
          · exact hs1 l hl'
          · simp only [List.mem_cons, List.not_mem_nil, or_false] at hl'
            rcases hl' with rfl | rfl
            · exact isPipeLine_atxLine _ _ hatx
            · rfl
        · intro l hl'
          simp only [segLines, List.flatMap_cons, List.flatMap_nil, List.append_nil, Seg.lines] at hl'
          rcases List.mem_append.mp hl' with hl' | hl'
          · exact hs2 l hl'
          · simp only [List.mem_cons, List.not_mem_nil, or_false] at hl'
            rcases hl' with rfl | rfl
            · exact ⟨hnlA, hhrA⟩
            · exact hnil
        · simp [segPlain, dHeadings, hx', hh, hs3, headingOf_atxLine _ _ hatx, headingOf_nil]
        · simp [segPlain, dItems, hx', hh, hs4, itemOf_atxLine _ _ hatx, itemOf_nil]
        · simp [segPlain, dParas, hx', hh, hs5, isPara_atxLine _ _ hatx, isPara_nil]
        · simp [segTables, dTables]
      · have hh' : p.isHeading = false := by simpa using hh
        by_cases hli : p.listed = true
        · -- list item
          obtain ⟨hcs', num, hline⟩ := docxListItem_spec fmt p s.cs hcs (hwf.level p (by simp) hli)
            (hwf.start p (by simp) hli)
          obtain ⟨c, r, hcr, hc, hnb, hhrI⟩ := listLine_shape ⟨p.listLevel.toNat, (fmt p.numID p.listLevel).ordered, num, p.text⟩
          have hnlI : 10 ∉ docxItemLine fmt p s.cs := by
            rw [hline]
            unfold listLine
            intro hm
            simp only [List.mem_append] at hm
            rcases hm with (hm | hm) | hm
            · have := List.eq_of_mem_replicate hm; omega
            · split at hm
              · rcases List.mem_append.mp hm with h1 | h1
                · have := dec_digits num 10 h1; simp [isDigit] at this
                · simp at h1
              · simp at hm
            · exact hnl hm
          simp only [docxSegStep, hx', Bool.false_eq_true, if_false, hh', hli, if_true, hgen]
          refine ⟨hcs', ?_, ?_, ?_, ?_, ?_, ?_⟩
          · intro sg hsg
            simp only [List.mem_singleton] at hsg; subst hsg
            intro l hl'
            rcases List.mem_append.mp hl' with hl' | hl'
            · exact hs1 l hl'
            · simp only [List.mem_singleton] at hl'; subst hl'
              rw [hline]; exact isPipeLine_listLine _
          · intro l hl'
            simp only [segLines, List.flatMap_cons, List.flatMap_nil, List.append_nil, Seg.lines] at hl'
            rcases List.mem_append.mp hl' with hl' | hl'
            · exact hs2 l hl'
            · simp only [List.mem_singleton] at hl'; subst hl'
              exact ⟨hnlI, by rw [hline]; exact hhrI⟩
          · simp [segPlain, dHeadings, hx', hh', hs3, hline, headingOf_listLine]
          · simp [segPlain, dItems, hx', hh', hli, hs4, hline, itemOf_listLine]
          · simp [segPlain, dParas, hx', hh', hli, hs5, hline, isPara_listLine]
          · simp [segTables, dTables]
        · have hli' : p.listed = false := by simpa using hli
          by_cases ht : p.text.isEmpty = true
          · -- nothing but the separator
            simp only [docxSegStep, hx', Bool.false_eq_true, if_false, hh', hli', ht, Bool.not_true, hgen]
            refine ⟨hcs, ?_, ?_, ?_, ?_, ?_, ?_⟩
            · intro sg hsg
              simp only [List.mem_singleton] at hsg; subst hsg
              exact hs1
            · intro l hl'
              simp only [segLines, List.flatMap_cons, List.flatMap_nil, List.append_nil, Seg.lines] at hl'
              exact hs2 l hl'
            · simp [segPlain, dHeadings, hx', hh', hs3]
            · simp [segPlain, dItems, hx', hh', hli', hs4]
            · have hte : p.text = [] := by simpa using ht
              simp [segPlain, dParas, hx', hh', hli', hte, hs5]
            · simp [segTables, dTables]
          · have ht' : p.text.isEmpty = false := by simpa using ht
            obtain ⟨hp1, hp2, hp3, hp4, hp5, _⟩ := classify_para_props p.text (hwf.plain p (by simp) hx' hh' hli' ht')
            simp only [docxSegStep, hx', Bool.false_eq_true, if_false, hh', hli', ht', Bool.not_false, if_true, hgen]
            refine ⟨hcs, ?_, ?_, ?_, ?_, ?_, ?_⟩
            · intro sg hsg
              simp only [List.mem_singleton] at hsg; subst hsg
              intro l hl'
              rcases List.mem_append.mp hl' with hl' | hl'
              · exact hs1 l hl'
              · simp only [List.mem_cons, List.not_mem_nil, or_false] at hl'
                rcases hl' with rfl | rfl
                · exact hp4
                · rfl
            · intro l hl'
              simp only [segLines, List.flatMap_cons, List.flatMap_nil, List.append_nil, Seg.lines] at hl'
              rcases List.mem_append.mp hl' with hl' | hl'
              · exact hs2 l hl'
              · simp only [List.mem_cons, List.not_mem_nil, or_false] at hl'
                rcases hl' with rfl | rfl
                · exact ⟨hnl, hp5⟩
                · exact hnil
            · simp [segPlain, dHeadings, hx', hh', hs3, hp1, headingOf_nil]
            · simp [segPlain, dItems, hx', hh', hli', hs4, hp2, itemOf_nil]
            · have htne : p.text ≠ [] := by simpa using ht'
              simp [segPlain, dParas, hx', hh', hli', htne, hs5, hp3, isPara_nil]
            · simp [segTables, dTables]

theorem dHeadings_cons (excl : Str → Bool) (hl : Int → Int) (e : DElem) (es : List DElem) :
    dHeadings excl hl (e :: es) = dHeadings excl hl [e] ++ dHeadings excl hl es := by
  simp only [dHeadings, List.filterMap_cons, List.filterMap_nil]
  split <;> simp
theorem dItems_cons (excl : Str → Bool) (fmt : Str → Int → NumFmt) (e : DElem) (es : List DElem) :
    dItems excl fmt (e :: es) = dItems excl fmt [e] ++ dItems excl fmt es := by
  simp only [dItems, List.filterMap_cons, List.filterMap_nil]
  split <;> simp
theorem dParas_cons (excl : Str → Bool) (e : DElem) (es : List DElem) :
    dParas excl (e :: es) = dParas excl [e] ++ dParas excl es := by
  simp only [dParas, List.filterMap_cons, List.filterMap_nil]
  split <;> simp
theorem dTables_cons (e : DElem) (es : List DElem) : dTables (e :: es) = dTables [e] ++ dTables es := by
  simp only [dTables, List.filterMap_cons, List.filterMap_nil]
  split <;> simp

/-- the segments of the whole loop: well-formed, and what the reader's projections find in them -/
theorem docxSegs_facts (excl : Str → Bool) (hl : Int → Int) (fmt : Str → Int → NumFmt) (els : List DElem) :
    ∀ (s : DLs), DocxWF excl hl fmt els → ctrsNN s.cs →
    (∀ sg ∈ docxSegs excl hl fmt s els, sg.OK) ∧
    (∀ l ∈ segLines (docxSegs excl hl fmt s els), 10 ∉ l ∧ l ≠ hrLine) ∧
    (segPlain (docxSegs excl hl fmt s els)).filterMap headingOf = dHeadings excl hl els ∧
    (segPlain (docxSegs excl hl fmt s els)).filterMap itemOf = dItems excl fmt els ∧
    (segPlain (docxSegs excl hl fmt s els)).filter isPara = dParas excl els ∧
    segTables (docxSegs excl hl fmt s els) = (dTables els).map (spanLines .docx) := by
  induction els with
  | nil => intro s _ _; simp [docxSegs, segLines, segPlain, segTables, dHeadings, dItems, dParas, dTables]
  | cons e es ih =>
    intro s hwf hcs
    obtain ⟨f1, f2, f3, f4, f5, f6, f7⟩ := docxSegStep_facts excl hl fmt s e es hwf hcs
    obtain ⟨g2, g3, g4, g5, g6, g7⟩ := ih (docxSegStep excl hl fmt s e).2 hwf.tail f1
    unfold docxSegs
    refine ⟨?_, ?_, ?_, ?_, ?_, ?_⟩
    · intro sg hsg
      rcases List.mem_append.mp hsg with h | h
      · exact f2 sg h
      · exact g2 sg h
    · intro l hl'
      rw [segLines_append] at hl'
      rcases List.mem_append.mp hl' with h | h
      · exact f3 l h
      · exact g3 l h
    · rw [segPlain_append, List.filterMap_append, f4, g4, ← dHeadings_cons]
    · rw [segPlain_append, List.filterMap_append, f5, g5, ← dItems_cons]
    · rw [segPlain_append, List.filter_append, f6, g6, ← dParas_cons]
    · rw [segTables_append, f7, g7, ← List.map_append, ← dTables_cons]

/-- `"Table of Contents"` -/
def tocText : Str := [84, 97, 98, 108, 101, 32, 111, 102, 32, 67, 111, 110, 116, 101, 110, 116, 115]

theorem headingOf_tocTitle : headingOf tocTitle = some (2, tocText) := by decide

/-- the body of a DOCX rendering (the element loop from an empty builder): what the reader finds -/
theorem docx_body_read (excl : Str → Bool) (hl : Int → Int) (fmt : Str → Int → NumFmt) (els : List DElem)
    (hwf : DocxWF excl hl fmt els) (htoc : (2, tocText) ∉ dHeadings excl hl els) :
    let L := segLines (docxSegs excl hl fmt ⟨false, [], []⟩ els)
    (∀ l ∈ L, 10 ∉ l) ∧ hrLine ∉ L ∧ tocTitle ∉ L ∧
    readLines L =
      { headings := dHeadings excl hl els, items := dItems excl fmt els,
        tables := (dTables els).map fun t => gfmTableL (spanLines .docx t), paras := dParas excl els } := by
  intro L
  obtain ⟨g2, g3, g4, g5, g6, g7⟩ := docxSegs_facts excl hl fmt els ⟨false, [], []⟩ hwf (by intro e he; simp at he)
  have hhr : hrLine ∉ L := fun h => (g3 _ h).2 rfl
  have hh : L.filterMap headingOf = dHeadings excl hl els := by
    rw [← g4]; exact filterMap_segLines headingOf headingOf_nil headingOf_pipe _ g2
  have htt : tocTitle ∉ L := by
    intro h
    apply htoc
    rw [← hh]
    exact List.mem_filterMap.mpr ⟨tocTitle, h, headingOf_tocTitle⟩
  refine ⟨fun l h => (g3 l h).1, hhr, htt, ?_⟩
  rw [readLines_plain L (by
    intro h
    cases hL : L with
    | nil => rw [hL] at h; simp at h
    | cons a b =>
      rw [hL] at h
      simp only [List.head?_cons, Option.some.injEq] at h
      exact hhr (by rw [hL, h]; simp)) htt]
  rw [hh]
  congr 1
  · rw [← g5]; exact filterMap_segLines itemOf itemOf_nil itemOf_pipe _ g2
  · rw [pipeBlocks_segs _ g2, g7, List.map_map]; rfl
  · rw [← g6]; exact filter_segLines isPara isPara_nil isPara_pipe _ g2

end Tabula.MarkdownDoc
