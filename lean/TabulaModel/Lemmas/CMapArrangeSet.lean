import TabulaModel.Lemmas.CMapArrangeDefs
/-!
The specified text of a code depends only on the SET of entries of a program when no code is
given two different texts: whatever the items' forms, their order and their split into sections.
-/
namespace Tabula.CMapArrange
open Tabula.UTF16 Tabula.CMap
open Tabula.CMapCompose (allItems directEntries offsetRuns offsetEntries Functional Specified)

theorem mem_allEntries (secs : List Section) (e : Nat × List Nat) :
    e ∈ allEntries secs ↔ ∃ it ∈ allItems secs, e ∈ it.entries := by
  unfold allEntries
  exact List.mem_flatMap

/-- a direct entry is an entry of the program -/
theorem direct_sub_all (secs : List Section) (e : Nat × List Nat) (h : e ∈ directEntries secs) :
    e ∈ allEntries secs := by
  obtain ⟨it, hit, he⟩ := (CMapCompose.mem_directEntries secs e).mp h
  exact (mem_allEntries secs e).mpr ⟨it, hit, CMapCompose.item_chars_sub it e he⟩

/-- an entry of an offset run of the program is an entry of the program -/
theorem offset_sub_all (secs : List Section) (e : Nat × List Nat) (h : e ∈ offsetEntries secs) :
    e ∈ allEntries secs := by
  obtain ⟨r, hr, her⟩ := List.mem_flatMap.mp h
  exact (mem_allEntries secs e).mpr ⟨.offset r, (CMapCompose.mem_offsetRuns secs r).mp hr, her⟩

/-- every entry of the program is a direct entry or an entry of an offset run -/
theorem all_sub (secs : List Section) (e : Nat × List Nat) (h : e ∈ allEntries secs) :
    e ∈ directEntries secs ∨ e ∈ offsetEntries secs := by
  obtain ⟨it, hit, he⟩ := (mem_allEntries secs e).mp h
  cases it with
  | char c t => exact Or.inl ((CMapCompose.mem_directEntries secs e).mpr ⟨_, hit, he⟩)
  | offset r =>
    exact Or.inr (List.mem_flatMap.mpr ⟨r, (CMapCompose.mem_offsetRuns secs r).mpr hit, he⟩)
  | array r => exact Or.inl ((CMapCompose.mem_directEntries secs e).mpr ⟨_, hit, he⟩)

/-- when no code is given two different texts (whatever the items' forms, order and sections),
the specified text of a code is the text of its entry, wherever and however it is written … -/
theorem specText_of_entry (w : Nat) (secs : List Section) (hs : ∀ s ∈ secs, SectionOK w s)
    (hf : Functional (allEntries secs)) (e : Nat × List Nat) (he : e ∈ allEntries secs) :
    specText secs e.1 = e.2 := by
  unfold specText
  cases hfd : (directEntries secs).reverse.find? (fun e' => e'.1 == e.1) with
  | some d =>
    have hdm : d ∈ directEntries secs := List.mem_reverse.mp (List.mem_of_find?_eq_some hfd)
    have hdc : d.1 = e.1 := by
      have := List.find?_some hfd
      exact beq_iff_eq.mp this
    have hde : d = e := hf d (direct_sub_all secs d hdm) e he hdc
    simp only [hde]
  | none =>
    have hnd : e ∉ directEntries secs := by
      intro hm
      have := List.find?_eq_none.mp hfd e (List.mem_reverse.mpr hm)
      simp at this
    have hoe : e ∈ offsetEntries secs := by
      rcases all_sub secs e he with h | h
      · exact absurd h hnd
      · exact h
    obtain ⟨r, hr, her⟩ := List.mem_flatMap.mp hoe
    have hbt := CMapCompose.entry_between her
    cases hfr : (offsetRuns secs).find? (fun r => decide (r.lo ≤ e.1 ∧ e.1 ≤ r.hi)) with
    | none =>
      have := List.find?_eq_none.mp hfr r hr
      simp only [decide_eq_true_eq] at this
      exact absurd hbt this
    | some r' =>
      have hr'm : r' ∈ offsetRuns secs := List.mem_of_find?_eq_some hfr
      have hr'b : r'.lo ≤ e.1 ∧ e.1 ≤ r'.hi := by
        have := List.find?_some hfr
        simpa only [decide_eq_true_eq] using this
      have hok := (CMapCompose.offsetRuns_ok w secs hs r' hr'm).1
      have hne : r'.texts ≠ [] := hok.1
      have hlen : 0 < r'.texts.length := List.length_pos_iff.mpr hne
      have hhi : r'.hi = r'.lo + r'.texts.length - 1 := rfl
      have hi : e.1 - r'.lo < r'.texts.length := by omega
      have hmem : (e.1, r'.texts[e.1 - r'.lo]) ∈ r'.entries :=
        (CMapCompose.mem_entries r' _).mpr ⟨e.1 - r'.lo, List.getElem?_eq_getElem hi, by
          show e.1 = r'.lo + (e.1 - r'.lo)
          omega⟩
      have hall : (e.1, r'.texts[e.1 - r'.lo]) ∈ allEntries secs :=
        offset_sub_all secs _ (List.mem_flatMap.mpr ⟨r', hr'm, hmem⟩)
      have heq := hf _ hall e he rfl
      show r'.texts.getD (e.1 - r'.lo) [] = e.2
      rw [List.getD_eq_getElem?_getD, List.getElem?_eq_getElem hi, Option.getD_some]
      exact congrArg Prod.snd heq

/-- … and a code that no entry defines has no specified text -/
theorem specText_of_undefined (w : Nat) (secs : List Section) (hs : ∀ s ∈ secs, SectionOK w s)
    (c : Nat) (hc : ∀ e ∈ allEntries secs, e.1 ≠ c) : specText secs c = [] := by
  unfold specText
  cases hfd : (directEntries secs).reverse.find? (fun e' => e'.1 == c) with
  | some d =>
    have hdm : d ∈ directEntries secs := List.mem_reverse.mp (List.mem_of_find?_eq_some hfd)
    have hdc : d.1 = c := by
      have := List.find?_some hfd
      exact beq_iff_eq.mp this
    exact absurd hdc (hc d (direct_sub_all secs d hdm))
  | none =>
    cases hfr : (offsetRuns secs).find? (fun r => decide (r.lo ≤ c ∧ c ≤ r.hi)) with
    | none => rfl
    | some r' =>
      have hr'm : r' ∈ offsetRuns secs := List.mem_of_find?_eq_some hfr
      have hr'b : r'.lo ≤ c ∧ c ≤ r'.hi := by
        have := List.find?_some hfr
        simpa only [decide_eq_true_eq] using this
      have hok := (CMapCompose.offsetRuns_ok w secs hs r' hr'm).1
      have hne : r'.texts ≠ [] := hok.1
      have hlen : 0 < r'.texts.length := List.length_pos_iff.mpr hne
      have hhi : r'.hi = r'.lo + r'.texts.length - 1 := rfl
      have hi : c - r'.lo < r'.texts.length := by omega
      have hmem : (c, r'.texts[c - r'.lo]) ∈ r'.entries :=
        (CMapCompose.mem_entries r' _).mpr ⟨c - r'.lo, List.getElem?_eq_getElem hi, by
          show c = r'.lo + (c - r'.lo)
          omega⟩
      have hall : (c, r'.texts[c - r'.lo]) ∈ allEntries secs :=
        offset_sub_all secs _ (List.mem_flatMap.mpr ⟨r', hr'm, hmem⟩)
      exact absurd rfl (hc _ hall)

/-- two programs with the same SET of entries (any permutation of the entries, any split into
items of any form - bfchar entries, offset-target ranges, array-target ranges -, any split into
sections, any order of the sections) specify the same text for every code -/
theorem specText_entries_ext (w : Nat) (s1 s2 : List Section)
    (h1 : ∀ s ∈ s1, SectionOK w s) (h2 : ∀ s ∈ s2, SectionOK w s)
    (hf : Functional (allEntries s1)) (hset : ∀ e, e ∈ allEntries s1 ↔ e ∈ allEntries s2) (c : Nat) :
    specText s1 c = specText s2 c := by
  have hf2 : Functional (allEntries s2) := fun a ha b hb hab =>
    hf a ((hset a).mpr ha) b ((hset b).mpr hb) hab
  cases hfe : (allEntries s1).find? (fun e => e.1 == c) with
  | some e =>
    have hem : e ∈ allEntries s1 := List.mem_of_find?_eq_some hfe
    have hec : e.1 = c := by
      have := List.find?_some hfe
      exact beq_iff_eq.mp this
    have a := specText_of_entry w s1 h1 hf e hem
    have b := specText_of_entry w s2 h2 hf2 e ((hset e).mp hem)
    rw [hec] at a b
    rw [a, b]
  | none =>
    have hn1 : ∀ e ∈ allEntries s1, e.1 ≠ c := by
      intro e hem hec
      have := List.find?_eq_none.mp hfe e hem
      simp [hec] at this
    have hn2 : ∀ e ∈ allEntries s2, e.1 ≠ c := fun e hem => hn1 e ((hset e).mpr hem)
    rw [specText_of_undefined w s1 h1 c hn1, specText_of_undefined w s2 h2 c hn2]

end Tabula.CMapArrange
