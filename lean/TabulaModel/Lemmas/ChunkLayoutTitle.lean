import TabulaModel.Lemmas.ChunkLayoutSections
import TabulaModel.Model.ChunkColl
/-!
Helper lemmas for property C12, layout-based chunker, for EVERY document (no hypothesis on the
page numbers): what `buildSections` writes into `Section.Title` and `Section.PageEnd`, and into
`PageStart` of the section without a heading.

* `Title` is the last entry of `Path` (nothing for the preamble);
* `PageEnd` is the page of the element added last, `PageStart` when there is none;
* the preamble's `PageStart` is the first page number other than 0 among its elements (0 is the
  code's mark for "not set yet").
-/
namespace Tabula.ChunkLayout
open Tabula.Chunk Tabula.ChunkMeta

/-- the first page number other than 0 (0 if there is none): what `preambleStartPage` ends up as -/
def firstSetPage (content : List CE) : Int := ((content.map (·.page)).find? (fun p => p != 0)).getD 0

/-- the page of the last element, `d` when there is none -/
def lastPage (content : List CE) (d : Int) : Int := (content.getLast?.map (·.page)).getD d

def SecShapeOK (x : SecInfo × List CE) : Prop :=
  x.1.title = titleOf x.1.path ∧ x.1.pageEnd = lastPage x.2 x.1.pageStart ∧
  (x.1.path = [] → x.1.pageStart = firstSetPage x.2)

structure TInv (s : BState) : Prop where
  secs : ∀ x ∈ openFlat s.stack s.done, SecShapeOK x
  pre : s.pre ≠ [] → s.preEnd = lastPage s.pre s.preStart
  start : s.stack = [] → s.preStart = firstSetPage s.pre
  opened : ∀ f ∈ s.stack, f.info.path ≠ []

theorem firstSetPage_snoc (pre : List CE) (ce : CE) :
    firstSetPage (pre ++ [ce]) = if firstSetPage pre == 0 then ce.page else firstSetPage pre := by
  unfold firstSetPage
  rw [List.map_append, List.find?_append]
  cases h : (pre.map (·.page)).find? (fun p => p != 0) with
  | none =>
    simp only [Option.none_or, Option.getD_none, List.map_cons, List.map_nil, List.find?_cons, List.find?_nil]
    by_cases e : ce.page = 0
    · simp [e]
    · have e' : (ce.page != 0) = true := by simpa using e
      simp [e']
  | some p =>
    have hp := List.find?_some h
    simp only [bne_iff_ne, ne_eq] at hp
    simp [hp]

theorem lastPage_snoc (pre : List CE) (ce : CE) (d : Int) : lastPage (pre ++ [ce]) d = ce.page := by
  simp [lastPage]

theorem popFrames_infos (lvl : Int) (stack : List Frame) (path : List Str) (done : List Sec) :
    ∀ f ∈ (popFrames lvl stack path done).1, ∃ g ∈ stack, f.info = g.info := by
  fun_induction popFrames lvl stack path done with
  | case1 => intro f hf; cases hf
  | case2 path done f rest hlvl => intro x hx; exact ⟨x, hx, rfl⟩
  | case3 path done f hlvl ih => intro x hx; exact absurd hx (by simpa using fun h => nomatch (ih x h))
  | case4 path done f hlvl g rest ih =>
    intro x hx
    obtain ⟨y, hy, e⟩ := ih x hx
    rcases List.mem_cons.mp hy with rfl | hy
    · exact ⟨g, List.mem_cons_of_mem _ (List.mem_cons_self ..), e⟩
    · exact ⟨y, List.mem_cons_of_mem _ (List.mem_cons_of_mem _ hy), e⟩

theorem addContent_tinv (s : BState) (hi : Inv s) (h : TInv s) (ce : CE) : TInv (addContent s ce) := by
  obtain ⟨done, stack, path, pre, pst, pen⟩ := s
  cases stack with
  | nil =>
    refine ⟨h.secs, fun _ => ?_, fun _ => ?_, fun f hf => (by cases hf)⟩
    · simp only [addContent, lastPage_snoc]
    · have h0 := h.start rfl
      simp only at h0
      simp only [addContent, firstSetPage_snoc, h0]
  | cons f rest =>
    have hleaf : f.children = [] := hi.top_leaf f rest rfl
    have hpre : pre = [] := hi.pre_empty (by simp)
    have hop := h.opened
    refine ⟨?_, fun hp => absurd hpre (by simpa [addContent] using hp), fun hs => (by simp [addContent] at hs), ?_⟩
    · have hold := h.secs
      simp only [addContent] at hold ⊢
      rw [openFlat_cons_leaf _ _ _ hleaf] at hold
      rw [openFlat_cons_leaf _ _ _ (by exact hleaf)]
      intro x hx
      rcases List.mem_append.mp hx with hx | hx
      · exact hold x (List.mem_append.mpr (Or.inl hx))
      · simp only [List.mem_singleton] at hx
        subst hx
        obtain ⟨t1, _, _⟩ := hold (f.info, f.content) (List.mem_append.mpr (Or.inr (List.mem_singleton.mpr rfl)))
        simp only at t1
        refine ⟨t1, by simp only [lastPage_snoc], ?_⟩
        intro hp
        exact absurd hp (hop f (List.mem_cons_self ..))
    · intro x hx
      simp only [addContent] at hx
      rcases List.mem_cons.mp hx with rfl | hx
      · exact hop f (List.mem_cons_self ..)
      · exact hop x (List.mem_cons_of_mem _ hx)

theorem titleOf_rev_cons (t : Str) (rest : List Str) : titleOf (t :: rest).reverse = t := by
  simp [titleOf]

theorem stepHeading_tinv (cfg : Cfg) (page : Int) (s : BState) (ls : LabSt) (hr : Rel s ls) (h : TInv s)
    (hd : LHeading) : TInv (stepHeading cfg page s hd) := by
  by_cases hmaj : hd.level ≤ cfg.minHeadingLevel
  · obtain ⟨st', hst, hpre, _, hps1, hpe1, _, hflat, hps⟩ := stepMajor_shape cfg page s hr.inv hd hmaj hr.path
    refine ⟨?_, fun hp => absurd hpre hp, fun hs => (by rw [hst] at hs; cases hs), ?_⟩
    · rw [hflat]
      intro x hx
      rcases List.mem_append.mp hx with hx | hx
      · rcases List.mem_append.mp hx with hx | hx
        · exact h.secs x hx
        · by_cases hp : s.pre = []
          · simp [hp] at hx
          · simp only [hp, if_false, List.mem_singleton] at hx
            subst hx
            exact ⟨rfl, h.pre hp, fun _ => h.start (hps hp)⟩
      · simp only [List.mem_singleton] at hx
        subst hx
        refine ⟨(titleOf_rev_cons _ _).symm, rfl, fun hp => ?_⟩
        simp at hp
    · -- the open sections: the new one and what the pop loop left of the old ones
      rw [stepHeading_major_eq cfg page s hd hmaj]
      intro f hf
      simp only at hf
      rcases List.mem_cons.mp hf with rfl | hf
      · simp
      · have hsame : (if (!s.pre.isEmpty && s.stack.isEmpty) = true then
            ({ s with done := s.done ++ [preambleSec s], pre := [] } : BState) else s).stack = s.stack := by
          split <;> rfl
        obtain ⟨g, hg, e⟩ := popFrames_infos _ _ _ _ f hf
        rw [hsame] at hg
        rw [e]; exact h.opened g hg
  · have hs : stepHeading cfg page s hd = addContent s (headingCE page hd) := by
      simp [stepHeading, hmaj, headingCE]
    rw [hs]
    exact addContent_tinv s hr.inv h (headingCE page hd)

theorem headings_tinv (cfg : Cfg) (page : Int) (hs : List LHeading) (s : BState) (ls : LabSt) (hr : Rel s ls)
    (h : TInv s) : TInv (hs.foldl (stepHeading cfg page) s) := by
  induction hs generalizing s ls with
  | nil => exact h
  | cons x xs ih =>
    exact ih _ _ (stepHeading_rel cfg page s ls hr x) (stepHeading_tinv cfg page s ls hr h x)

theorem addAll_tinv {α} (f : α → CE) (xs : List α) (s : BState) (ls : LabSt) (hr : Rel s ls) (h : TInv s) :
    TInv (xs.foldl (fun s x => addContent s (f x)) s) := by
  induction xs generalizing s ls with
  | nil => exact h
  | cons x xs ih => exact ih _ _ (addContent_rel s ls hr (f x)) (addContent_tinv s hr.inv h (f x))

theorem stepPage_tinv (cfg : Cfg) (s : BState) (ls : LabSt) (hr : Rel s ls) (h : TInv s) (pg : LPage) :
    TInv (stepPage cfg s pg) := by
  unfold stepPage
  cases pg.layout with
  | none => exact h
  | some lay =>
    have r1 := headings_rel cfg pg.number lay.headings s ls hr
    have p1 := headings_tinv cfg pg.number lay.headings s ls hr h
    have r2 := addAll_rel (paraCE pg.number) lay.paras _ _ r1
    have p2 := addAll_tinv (paraCE pg.number) lay.paras _ _ r1 p1
    exact addAll_tinv (listCE pg.number) lay.lists _ _ r2 p2

theorem pages_tinv (cfg : Cfg) (d : LDoc) (s : BState) (ls : LabSt) (hr : Rel s ls) (h : TInv s) :
    TInv (d.foldl (stepPage cfg) s) := by
  induction d generalizing s ls with
  | nil => exact h
  | cons pg pgs ih => exact ih _ _ (stepPage_rel cfg s ls hr pg) (stepPage_tinv cfg s ls hr h pg)

/-- **every section of `buildSections`, any document**: `Title` is the last entry of `Path`,
`PageEnd` is the page of its last element (`PageStart` when it has none), and the section without a
path starts on the first page number other than 0 among its elements -/
theorem buildSections_shape (cfg : Cfg) (d : LDoc) : ∀ x ∈ flatForest (buildSections cfg d), SecShapeOK x := by
  have h0 : TInv ⟨[], [], [], [], 0, 0⟩ :=
    ⟨fun x hx => by simp [openFlat, flatForest] at hx, fun hp => absurd rfl hp, fun _ => rfl, fun f hf => by cases hf⟩
  have hp := pages_tinv cfg d _ _ rel_init h0
  obtain ⟨hf, hq⟩ := buildSections_flat cfg d
  rw [hf]
  intro x hx
  rcases List.mem_append.mp hx with hx | hx
  · exact hp.secs x hx
  · split at hx
    · cases hx
    · rename_i hne
      simp only [List.mem_singleton] at hx
      subst hx
      exact ⟨rfl, hp.pre hne, fun _ => hp.start (hq hne).1⟩

end Tabula.ChunkLayout
