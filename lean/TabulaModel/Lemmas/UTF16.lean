import TabulaModel.Model.UTF16
/-!
Lemmas about the UTF-16 model: bit arithmetic of `be16`/`combine`, validity of decoded
values, and the encode/decode round trips used by C07.
-/
namespace Tabula.UTF16

theorem be16_eq (a b : Nat) (hb : b < 256) : be16 a b = a * 256 + b := by
  unfold be16
  rw [← Nat.shiftLeft_add_eq_or_of_lt (by simpa using hb)]
  simp [Nat.shiftLeft_eq]

theorem combine_eq (hi lo : Nat) (hlo : lo - 0xDC00 < 1024) :
    combine hi lo = 0x10000 + (hi - 0xD800) * 1024 + (lo - 0xDC00) := by
  unfold combine
  rw [← Nat.shiftLeft_add_eq_or_of_lt (by simpa using hlo)]
  simp [Nat.shiftLeft_eq, Nat.add_assoc]

theorem be16_split (u : Nat) : be16 (u / 256) (u % 256) = u := by
  rw [be16_eq _ _ (Nat.mod_lt _ (by decide))]
  omega

theorem unitsBE_bytesBE (us : List Nat) : unitsBE (bytesBE us) = us := by
  induction us with
  | nil => rfl
  | cons u t ih =>
    simp only [bytesBE, List.flatMap_cons] at ih ⊢
    simp only [List.cons_append, List.nil_append, unitsBE]
    rw [be16_split, ih]

theorem unitsLE_bytesLE (us : List Nat) : unitsLE (bytesLE us) = us := by
  induction us with
  | nil => rfl
  | cons u t ih =>
    simp only [bytesLE, List.flatMap_cons] at ih ⊢
    simp only [List.cons_append, List.nil_append, unitsLE]
    rw [be16_split, ih]

/-- surrogate arithmetic: the pair produced for a supplementary scalar combines back to it -/
theorem combine_encode (c : Nat) (h1 : 0x10000 ≤ c) (h2 : c < 0x110000) :
    combine (0xD800 + (c - 0x10000) / 1024) (0xDC00 + (c - 0x10000) % 1024) = c := by
  rw [combine_eq _ _ (by omega)]
  omega

theorem isHigh_iff (u : Nat) : isHigh u = true ↔ 0xD800 ≤ u ∧ u ≤ 0xDBFF := by
  simp [isHigh]

theorem isLow_iff (u : Nat) : isLow u = true ↔ 0xDC00 ≤ u ∧ u ≤ 0xDFFF := by
  simp [isLow]

/-- `decodeUnits (encodeScalar c ++ rest) = c :: decodeUnits rest` for a scalar `c` -/
theorem decodeUnits_encodeScalar (c : Nat) (hc : IsScalar c) (rest : List Nat) :
    decodeUnits (encodeScalar c ++ rest) = c :: decodeUnits rest := by
  unfold encodeScalar
  by_cases hb : c < 0x10000
  · simp only [hb, if_true, List.cons_append, List.nil_append]
    have hh : isHigh c = false := by
      cases h : isHigh c with
      | false => rfl
      | true => rw [isHigh_iff] at h; unfold IsScalar at hc; omega
    have hl : isLow c = false := by
      cases h : isLow c with
      | false => rfl
      | true => rw [isLow_iff] at h; unfold IsScalar at hc; omega
    cases rest with
    | nil => simp [decodeUnits, hh, hl]
    | cons l r => simp [decodeUnits, hh, hl]
  · simp only [hb, if_false, List.cons_append, List.nil_append]
    have hc2 : c < 0x110000 := by unfold IsScalar at hc; omega
    have hh : isHigh (0xD800 + (c - 0x10000) / 1024) = true := by rw [isHigh_iff]; omega
    have hl : isLow (0xDC00 + (c - 0x10000) % 1024) = true := by rw [isLow_iff]; omega
    rw [decodeUnits]
    simp only [hh, hl, if_true]
    rw [combine_encode c (by omega) hc2]

theorem decodeUnits_encodeUnits (s : List Nat) (hs : ∀ c ∈ s, IsScalar c) :
    decodeUnits (encodeUnits s) = s := by
  induction s with
  | nil => rfl
  | cons c t ih =>
    unfold encodeUnits at ih ⊢
    rw [List.flatMap_cons, decodeUnits_encodeScalar c (hs c (by simp))]
    rw [ih (fun x hx => hs x (by simp [hx]))]

/-- the same for the `decodeUTF16BE` of cmap.go and for Go's `utf16.Decode` -/
theorem toRune_scalar (c : Nat) (hc : IsScalar c) : toRune c = c := by
  unfold toRune IsScalar at *; simp [hc]

theorem cmapDecodeUnits_encodeScalar (c : Nat) (hc : IsScalar c) (rest : List Nat) :
    cmapDecodeUnits (encodeScalar c ++ rest) = c :: cmapDecodeUnits rest := by
  unfold encodeScalar
  by_cases hb : c < 0x10000
  · simp only [hb, if_true, List.cons_append, List.nil_append]
    have hh : isHigh c = false := by
      cases h : isHigh c with
      | false => rfl
      | true => rw [isHigh_iff] at h; unfold IsScalar at hc; omega
    cases rest with
    | nil => simp [cmapDecodeUnits, toRune_scalar c hc]
    | cons l r => simp [cmapDecodeUnits, hh, toRune_scalar c hc]
  · simp only [hb, if_false, List.cons_append, List.nil_append]
    have hc2 : c < 0x110000 := by unfold IsScalar at hc; omega
    have hh : isHigh (0xD800 + (c - 0x10000) / 1024) = true := by rw [isHigh_iff]; omega
    have hl : isLow (0xDC00 + (c - 0x10000) % 1024) = true := by rw [isLow_iff]; omega
    rw [cmapDecodeUnits]
    simp only [hh, hl, if_true]
    rw [combine_encode c (by omega) hc2]

theorem cmapDecodeUnits_encodeUnits (s : List Nat) (hs : ∀ c ∈ s, IsScalar c) :
    cmapDecodeUnits (encodeUnits s) = s := by
  induction s with
  | nil => rfl
  | cons c t ih =>
    unfold encodeUnits at ih ⊢
    rw [List.flatMap_cons, cmapDecodeUnits_encodeScalar c (hs c (by simp))]
    rw [ih (fun x hx => hs x (by simp [hx]))]

theorem stdDecodeUnits_encodeScalar (c : Nat) (hc : IsScalar c) (rest : List Nat) :
    stdDecodeUnits (encodeScalar c ++ rest) = c :: stdDecodeUnits rest := by
  unfold encodeScalar
  by_cases hb : c < 0x10000
  · simp only [hb, if_true, List.cons_append, List.nil_append]
    have hh : isHigh c = false := by
      cases h : isHigh c with
      | false => rfl
      | true => rw [isHigh_iff] at h; unfold IsScalar at hc; omega
    cases rest with
    | nil => simp [stdDecodeUnits, toRune_scalar c hc]
    | cons l r => simp [stdDecodeUnits, hh, toRune_scalar c hc]
  · simp only [hb, if_false, List.cons_append, List.nil_append]
    have hc2 : c < 0x110000 := by unfold IsScalar at hc; omega
    have hh : isHigh (0xD800 + (c - 0x10000) / 1024) = true := by rw [isHigh_iff]; omega
    have hl : isLow (0xDC00 + (c - 0x10000) % 1024) = true := by rw [isLow_iff]; omega
    rw [stdDecodeUnits]
    simp only [hh, hl, Bool.and_self, if_true]
    rw [combine_encode c (by omega) hc2]

theorem stdDecodeUnits_encodeUnits (s : List Nat) (hs : ∀ c ∈ s, IsScalar c) :
    stdDecodeUnits (encodeUnits s) = s := by
  induction s with
  | nil => rfl
  | cons c t ih =>
    unfold encodeUnits at ih ⊢
    rw [List.flatMap_cons, stdDecodeUnits_encodeScalar c (hs c (by simp))]
    rw [ih (fun x hx => hs x (by simp [hx]))]

/-! ## every decoder yields scalar values only -/

theorem toRune_isScalar (x : Nat) : IsScalar (toRune x) := by
  unfold toRune IsScalar
  split <;> omega

theorem combine_isScalar (hi lo : Nat) (hh : isHigh hi = true) (hl : isLow lo = true) :
    IsScalar (combine hi lo) := by
  rw [isHigh_iff] at hh; rw [isLow_iff] at hl
  rw [combine_eq _ _ (by omega)]
  unfold IsScalar; omega

/-- bytes -/
def AllBytes (l : List Nat) : Prop := ∀ b ∈ l, b < 256

theorem allBytes_tail {a : Nat} {l : List Nat} (h : AllBytes (a :: l)) : AllBytes l :=
  fun b hb => h b (List.mem_cons_of_mem _ hb)

theorem be16_lt (a b : Nat) (ha : a < 256) (hb : b < 256) : be16 a b < 65536 := by
  rw [be16_eq a b hb]; omega

theorem unitsBE_lt (data : List Nat) (h : AllBytes data) : ∀ u ∈ unitsBE data, u < 65536 := by
  induction data using unitsBE.induct with
  | case1 => intro u hu; simp [unitsBE] at hu
  | case2 a =>
    intro u hu; simp only [unitsBE, List.mem_singleton] at hu; subst hu
    exact be16_lt a 0 (h a (by simp)) (by decide)
  | case3 a b rest ih =>
    intro u hu
    simp only [unitsBE, List.mem_cons] at hu
    rcases hu with hu | hu
    · subst hu; exact be16_lt a b (h a (by simp)) (h b (by simp))
    · exact ih (allBytes_tail (allBytes_tail h)) u hu

theorem unitsLE_lt (data : List Nat) (h : AllBytes data) : ∀ u ∈ unitsLE data, u < 65536 := by
  induction data using unitsLE.induct with
  | case1 => intro u hu; simp [unitsLE] at hu
  | case2 a =>
    intro u hu; simp only [unitsLE, List.mem_singleton] at hu; subst hu
    exact be16_lt 0 a (by decide) (h a (by simp))
  | case3 a b rest ih =>
    intro u hu
    simp only [unitsLE, List.mem_cons] at hu
    rcases hu with hu | hu
    · subst hu; exact be16_lt b a (h b (by simp)) (h a (by simp))
    · exact ih (allBytes_tail (allBytes_tail h)) u hu

theorem plain_unit_scalar (u : Nat) (hu : u < 65536) (hh : isHigh u = false) (hl : isLow u = false) : IsScalar u := by
  unfold IsScalar
  have h1 : ¬ (0xD800 ≤ u ∧ u ≤ 0xDBFF) := by rw [← isHigh_iff]; simp [hh]
  have h2 : ¬ (0xDC00 ≤ u ∧ u ≤ 0xDFFF) := by rw [← isLow_iff]; simp [hl]
  omega

/-- `DecodeUTF16BE/LE` only produce scalar values -/
theorem decodeUnits_scalar (us : List Nat) (h : ∀ u ∈ us, u < 65536) : ∀ x ∈ decodeUnits us, IsScalar x := by
  induction us using decodeUnits.induct with
  | case1 => intro x hx; simp [decodeUnits] at hx
  | case2 u hh => intro x hx; simp [decodeUnits, hh] at hx
  | case3 u hh hl => intro x hx; simp [decodeUnits, hh, hl] at hx
  | case4 u hh hl =>
    intro x hx
    simp only [decodeUnits, hh, hl, Bool.false_eq_true, if_false, List.mem_singleton] at hx
    subst hx
    exact plain_unit_scalar x (h x (by simp)) (by simpa using hh) (by simpa using hl)
  | case5 u l rest hh hl ih =>
    intro x hx
    simp only [decodeUnits, hh, hl, if_true, List.mem_cons] at hx
    rcases hx with hx | hx
    · subst hx; exact combine_isScalar u l hh hl
    · exact ih (fun v hv => h v (by simp [hv])) x hx
  | case6 u l rest hh hl ih =>
    intro x hx
    simp only [decodeUnits, hh, hl, if_true, Bool.false_eq_true, if_false] at hx
    exact ih (fun v hv => h v (by simp [hv])) x hx
  | case7 u l rest hh hl ih =>
    intro x hx
    simp only [decodeUnits, hh, hl, if_true, Bool.false_eq_true, if_false] at hx
    exact ih (fun v hv => h v (by simp [hv])) x hx
  | case8 u l rest hh hl ih =>
    intro x hx
    simp only [decodeUnits, hh, hl, Bool.false_eq_true, if_false, List.mem_cons] at hx
    rcases hx with hx | hx
    · subst hx
      exact plain_unit_scalar x (h x (by simp)) (by simpa using hh) (by simpa using hl)
    · exact ih (fun v hv => h v (by simp [hv])) x hx

theorem decodeRune_scalar (l : List Nat) (hb : AllBytes l) (r w : Nat) (h : decodeRune l = (r, w)) (hw : 1 < w) :
    IsScalar r := by
  unfold IsScalar
  unfold decodeRune at h
  split at h
  · simp only [Prod.mk.injEq] at h; omega
  · rename_i b0 rest
    have h0 : b0 < 256 := hb b0 (by simp)
    repeat' (split at h)
    all_goals (try (simp only [Prod.mk.injEq] at h))
    all_goals (try omega)
    all_goals (
      split at h
      · rename_i hc
        simp only [Bool.and_eq_true, decide_eq_true_eq, isCont] at hc
        simp only [Prod.mk.injEq] at h
        omega
      · simp only [Prod.mk.injEq] at h; omega)


theorem allBytes_drop {l : List Nat} (h : AllBytes l) (n : Nat) : AllBytes (l.drop n) :=
  fun b hb => h b (List.mem_of_mem_drop hb)

theorem toValidAux_scalar (fuel : Nat) (inv : Bool) (l : List Nat) (hb : AllBytes l) :
    ∀ x ∈ toValidAux fuel inv l, IsScalar x := by
  induction fuel generalizing inv l with
  | zero => intro x hx; simp [toValidAux] at hx
  | succ f ih =>
    cases l with
    | nil => intro x hx; simp [toValidAux] at hx
    | cons b rest =>
      intro x hx
      simp only [toValidAux] at hx
      split at hx
      · rename_i hlt
        rcases List.mem_cons.mp hx with hx | hx
        · subst hx; unfold IsScalar; omega
        · exact ih false rest (allBytes_tail hb) x hx
      · cases hd : decodeRune (b :: rest) with
        | mk r w =>
          simp only [hd] at hx
          split at hx
          · split at hx
            · exact ih true rest (allBytes_tail hb) x hx
            · rcases List.mem_cons.mp hx with hx | hx
              · subst hx; unfold IsScalar; omega
              · exact ih true rest (allBytes_tail hb) x hx
          · rename_i hw
            rcases List.mem_cons.mp hx with hx | hx
            · subst hx; exact decodeRune_scalar (b :: rest) hb x w hd (by omega)
            · exact ih false _ (allBytes_drop hb w) x hx

/-- `strings.ToValidUTF8` read back as scalars contains scalars only -/
theorem toValidUTF8_scalar (l : List Nat) (hb : AllBytes l) : ∀ x ∈ toValidUTF8 l, IsScalar x :=
  toValidAux_scalar _ _ l hb

end Tabula.UTF16
