import TabulaModel.Lemmas.Package
/-!
The file-name fallback of `pptx.parseSlides` (`sort.Slice` by `extractSlideNumber`, modelled
as a stable insertion sort): the result is a sorted permutation of the candidates, and when
the candidates' numbers are pairwise distinct it does not depend on the order in which the
candidates are met (= on the ZIP member order).
-/
namespace Tabula.Package

theorem insertBy_perm (k : Str → Int) (v : Str) (l : List Str) : (insertBy k v l).Perm (v :: l) := by
  induction l with
  | nil => exact List.Perm.refl _
  | cons y ys ih =>
    simp only [insertBy]
    split
    · exact List.Perm.refl _
    · exact (List.Perm.cons y ih).trans (List.Perm.swap v y ys)

theorem foldl_insertBy_perm (k : Str → Int) (l acc : List Str) :
    (l.foldl (fun acc v => insertBy k v acc) acc).Perm (acc ++ l) := by
  induction l generalizing acc with
  | nil => simp
  | cons v rest ih =>
    simp only [List.foldl_cons]
    refine (ih (insertBy k v acc)).trans ?_
    refine ((insertBy_perm k v acc).append_right rest).trans ?_
    simp only [List.cons_append]
    exact (List.perm_middle (l₁ := acc) (a := v) (l₂ := rest)).symm

theorem sortByNumber_perm (l : List Str) : (sortByNumber l).Perm l := by
  have := foldl_insertBy_perm extractSlideNumber l []
  simpa [sortByNumber] using this

/-- ascending (not necessarily strictly) by key -/
def SortedBy (k : Str → Int) (l : List Str) : Prop := l.Pairwise (fun a b => k a ≤ k b)

theorem insertBy_sorted (k : Str → Int) (v : Str) (l : List Str) (h : SortedBy k l) :
    SortedBy k (insertBy k v l) := by
  induction l with
  | nil => simp [insertBy, SortedBy]
  | cons y ys ih =>
    have hy := List.pairwise_cons.mp h
    simp only [insertBy]
    split
    · rename_i hlt
      refine List.pairwise_cons.mpr ⟨?_, h⟩
      intro b hb
      rcases List.mem_cons.mp hb with rfl | hb
      · omega
      · have := hy.1 b hb
        omega
    · rename_i hge
      refine List.pairwise_cons.mpr ⟨?_, ih hy.2⟩
      intro b hb
      have hb' := (insertBy_perm k v ys).mem_iff.mp hb
      rcases List.mem_cons.mp hb' with rfl | hb'
      · omega
      · exact hy.1 b hb'

theorem foldl_insertBy_sorted (k : Str → Int) (l acc : List Str) (h : SortedBy k acc) :
    SortedBy k (l.foldl (fun acc v => insertBy k v acc) acc) := by
  induction l generalizing acc with
  | nil => exact h
  | cons v rest ih => exact ih _ (insertBy_sorted k v acc h)

theorem sortByNumber_sorted (l : List Str) : SortedBy extractSlideNumber (sortByNumber l) :=
  foldl_insertBy_sorted extractSlideNumber l [] List.Pairwise.nil

/-- two ascending lists with the same elements are equal when the key separates the elements -/
theorem sorted_perm_eq (k : Str → Int) (l1 l2 : List Str) (h1 : SortedBy k l1) (h2 : SortedBy k l2)
    (hp : l1.Perm l2) (hinj : ∀ a ∈ l1, ∀ b ∈ l1, k a = k b → a = b) : l1 = l2 := by
  induction l1 generalizing l2 with
  | nil => exact (List.Perm.nil_eq hp)
  | cons a t1 ih =>
    cases l2 with
    | nil => exact absurd hp.symm.nil_eq (by simp)
    | cons b t2 =>
      have s1 := List.pairwise_cons.mp h1
      have s2 := List.pairwise_cons.mp h2
      have ha : a ∈ b :: t2 := hp.mem_iff.mp List.mem_cons_self
      have hb : b ∈ a :: t1 := hp.mem_iff.mpr List.mem_cons_self
      have hab : a = b := by
        rcases List.mem_cons.mp ha with e | ha'
        · exact e
        · rcases List.mem_cons.mp hb with e | hb'
          · exact e.symm
          · have l1 := s2.1 a ha'
            have l2 := s1.1 b hb'
            exact hinj a List.mem_cons_self b hb (by omega)
      subst hab
      have hp' : t1.Perm t2 := List.Perm.cons_inv hp
      rw [ih t2 s1.2 s2.2 hp' (fun x hx y hy => hinj x (List.mem_cons_of_mem _ hx) y (List.mem_cons_of_mem _ hy))]

/-- the candidates of the file-name fallback -/
def fallbackCandidates (names : List Str) : List Str :=
  names.filter fun n => hasPrefix sSlidePre n && hasSuffix sXml n && !hasSub sRelsDir n

theorem fallbackSlidePaths_eq (names : List Str) :
    fallbackSlidePaths names = sortByNumber (fallbackCandidates names) := rfl

/-- with pairwise distinct slide numbers the fallback's slide list does not depend on the
order of the member list -/
theorem fallback_perm_invariant (names names' : List Str) (hp : names.Perm names')
    (hinj : ∀ a ∈ fallbackCandidates names, ∀ b ∈ fallbackCandidates names,
      extractSlideNumber a = extractSlideNumber b → a = b) :
    fallbackSlidePaths names = fallbackSlidePaths names' := by
  rw [fallbackSlidePaths_eq, fallbackSlidePaths_eq]
  have hc : (fallbackCandidates names).Perm (fallbackCandidates names') := hp.filter _
  have p1 := sortByNumber_perm (fallbackCandidates names)
  have p2 := sortByNumber_perm (fallbackCandidates names')
  apply sorted_perm_eq extractSlideNumber _ _ (sortByNumber_sorted _) (sortByNumber_sorted _)
  · exact p1.trans (hc.trans p2.symm)
  · intro a ha b hb
    exact hinj a (p1.mem_iff.mp ha) b (p1.mem_iff.mp hb)

end Tabula.Package
