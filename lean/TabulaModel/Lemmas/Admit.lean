import TabulaModel.Lemmas.Detect
import TabulaModel.Lemmas.Drm
import TabulaModel.Model.Admit
/-!
Helper lemmas for `Props/C20Api.lean`: what the sniffer can and cannot answer, further
HTML fronts, the archive seen by sniffer and DRM gate at once, the extractor life cycle.
-/
set_option autoImplicit false
namespace Tabula.Detect

/-! ### the range of the ZIP sniffer -/

theorem mimeVerdict_range {m : Member} {f : Format} (h : mimeVerdict m = some f) : f = .odt ∨ f = .epub := by
  unfold mimeVerdict at h
  by_cases hn : m.name = nMimetype
  · rw [if_pos hn] at h
    cases hd : m.data with
    | none => rw [hd] at h; cases h
    | some d =>
      rw [hd] at h
      dsimp only at h
      by_cases h1 : hasSub odtMime (trimSpace (List.take 256 d)) = true
      · rw [if_pos h1] at h; cases h; exact Or.inl rfl
      · rw [if_neg h1] at h
        by_cases h2 : trimSpace (List.take 256 d) = epubMime
        · rw [if_pos h2] at h; cases h; exact Or.inr rfl
        · rw [if_neg h2] at h; cases h
  · rw [if_neg hn] at h; cases h

theorem detectZip_range (ms : List Member) :
    detectZip ms = .odt ∨ detectZip ms = .epub ∨ detectZip ms = .docx ∨ detectZip ms = .xlsx ∨
      detectZip ms = .pptx ∨ detectZip ms = .unknown := by
  unfold detectZip
  cases h : firstMime ms with
  | some f =>
    obtain ⟨m, _, hv⟩ := firstMime_some_mem h
    rcases mimeVerdict_range hv with rfl | rfl <;> simp
  | none =>
    simp only
    repeat' split
    all_goals simp

theorem isPrefixOf_length {p l : Str} (h : p.isPrefixOf l = true) : p.length ≤ l.length := by
  rw [List.isPrefixOf_iff_prefix] at h
  exact h.length_le

/-! ### further HTML fronts -/

theorem hasSub_of_prefix {p l : Str} (h : p.isPrefixOf l = true) : hasSub p l = true := by
  cases l with
  | nil =>
    cases p with
    | nil => rfl
    | cons a t => simp [List.isPrefixOf] at h
  | cons c cs => simp [hasSub, h]

theorem hasSub_append_left (p a b : Str) : hasSub p (a ++ (p ++ b)) = true := by
  induction a with
  | nil => exact hasSub_of_prefix (isPrefixOf_append_self p b)
  | cons c cs ih => simp [hasSub, ih]

theorem upper_append (a b : Str) : upper (a ++ b) = upper a ++ upper b := by
  unfold upper; simp

theorem upper_length (a : Str) : (upper a).length = a.length := by
  unfold upper; simp

theorem head_lt_of_upper {c : Nat} {t p : Str} (h : upper (c :: t) = 60 :: p) : c = 60 := by
  have : upperB c = 60 := by
    have := congrArg List.head? h
    simpa [upper] using this
  exact upperB_eq_lt c this

/-- a text whose first non-blank byte is `<` starts neither like a PDF nor like a ZIP -/
theorem not_pdf_zip_prefix_lt (lead r : Str) (hl : ∀ c ∈ lead, isMagicWS c = true) :
    sPdfMagic.isPrefixOf (lead ++ 60 :: r) = false ∧ sZipMagic.isPrefixOf (lead ++ 60 :: r) = false := by
  cases lead with
  | nil => exact ⟨isPrefixOf_head_ne _ _ _ _ (by decide), isPrefixOf_head_ne _ _ _ _ (by decide)⟩
  | cons w ws =>
    have hw := isMagicWS_ne w (hl w (by simp))
    exact ⟨isPrefixOf_head_ne _ _ _ _ (fun h => hw.2.1 h.symm), isPrefixOf_head_ne _ _ _ _ (fun h => hw.2.2 h.symm)⟩

/-- white space, `<html` in any letter case, then anything -/
theorem detectHTMLMagic_tag (lead t rest : Str) (hl : ∀ c ∈ lead, isMagicWS c = true)
    (ht : upper t = sHtmlTag) : detectHTMLMagic (lead ++ (t ++ rest)) = true := by
  cases t with
  | nil => simp [upper, sHtmlTag] at ht
  | cons c t' =>
    have hc : c = 60 := head_lt_of_upper ht
    have hcw : isMagicWS c = false := by rw [hc]; decide
    unfold detectHTMLMagic
    have e : lead ++ ((c :: t') ++ rest) = lead ++ c :: (t' ++ rest) := by simp
    rw [e, dropWhile_ws lead _ hl c hcw]
    have hu : upper (c :: (t' ++ rest)) = sHtmlTag ++ upper rest := by
      have : c :: (t' ++ rest) = (c :: t') ++ rest := by simp
      rw [this, upper_append, ht]
    have hp : sHtmlTag.isPrefixOf (sHtmlTag ++ upper rest) = true := isPrefixOf_append_self _ _
    simp only [hu, hp, List.isEmpty_cons, Bool.false_eq_true, if_false, if_true]
    split <;> rfl

/-- white space, `<?xml` in any letter case, anything, `<html` in any letter case — all
within 500 bytes of the `<` — then anything -/
theorem detectHTMLMagic_xmldecl (lead x mid t rest : Str) (hl : ∀ c ∈ lead, isMagicWS c = true)
    (hx : upper x = sXmlDecl) (ht : upper t = sHtmlTag)
    (h500 : x.length + mid.length + t.length ≤ 500) :
    detectHTMLMagic (lead ++ (x ++ (mid ++ (t ++ rest)))) = true := by
  cases x with
  | nil => simp [upper, sXmlDecl] at hx
  | cons c x' =>
    have hc : c = 60 := head_lt_of_upper hx
    have hcw : isMagicWS c = false := by rw [hc]; decide
    unfold detectHTMLMagic
    have e : lead ++ ((c :: x') ++ (mid ++ (t ++ rest))) = lead ++ c :: (x' ++ (mid ++ (t ++ rest))) := by simp
    rw [e, dropWhile_ws lead _ hl c hcw]
    have hu : upper (c :: (x' ++ (mid ++ (t ++ rest)))) = sXmlDecl ++ (upper mid ++ (sHtmlTag ++ upper rest)) := by
      have : c :: (x' ++ (mid ++ (t ++ rest))) = (c :: x') ++ (mid ++ (t ++ rest)) := by simp
      rw [this, upper_append, upper_append, upper_append, hx, ht]
    have hp : sXmlDecl.isPrefixOf (sXmlDecl ++ (upper mid ++ (sHtmlTag ++ upper rest))) = true :=
      isPrefixOf_append_self _ _
    have hlen : (sXmlDecl ++ (upper mid ++ sHtmlTag)).length ≤ 500 := by
      have h1 := upper_length (c :: x'); rw [hx] at h1
      have h2 := upper_length t; rw [ht] at h2
      simp only [List.length_append, upper_length]; omega
    have htake : (sXmlDecl ++ (upper mid ++ (sHtmlTag ++ upper rest))).take 500 =
        sXmlDecl ++ (upper mid ++ (sHtmlTag ++ (upper rest).take (500 - (sXmlDecl ++ (upper mid ++ sHtmlTag)).length))) := by
      have e2 : sXmlDecl ++ (upper mid ++ (sHtmlTag ++ upper rest)) = (sXmlDecl ++ (upper mid ++ sHtmlTag)) ++ upper rest := by simp
      rw [e2, take_append_short _ _ 500 hlen]; simp
    have hs : hasSub sHtmlTag ((sXmlDecl ++ (upper mid ++ (sHtmlTag ++ upper rest))).take 500) = true := by
      rw [htake]
      have e3 : sXmlDecl ++ (upper mid ++ (sHtmlTag ++ (upper rest).take (500 - (sXmlDecl ++ (upper mid ++ sHtmlTag)).length))) =
          (sXmlDecl ++ upper mid) ++ (sHtmlTag ++ (upper rest).take (500 - (sXmlDecl ++ (upper mid ++ sHtmlTag)).length)) := by simp
      rw [e3]; exact hasSub_append_left _ _ _
    simp only [hu, hp, hs, List.isEmpty_cons, Bool.false_eq_true, if_false, Bool.and_self, if_true]
    repeat' split
    all_goals rfl

end Tabula.Detect

namespace Tabula.Admit
open Tabula.Detect Tabula.Drm

/-! ### one archive for the sniffer and the DRM gate -/

theorem nRights_ne_nEncryption : nRights ≠ nEncryption := by decide

theorem toMember_names (ms : List AMember) :
    (ms.map AMember.toMember).map (·.name) = ms.map (·.name) := by
  simp [AMember.toMember, Function.comp_def]

/-- `checkForDRM` on the archive is an `any` over its members -/
def amemberBad (m : AMember) : Bool := memberBad (classify m)

theorem archiveDRM_eq_any (ms : List AMember) : archiveDRM ms = ms.any amemberBad := by
  unfold archiveDRM
  rw [checkForDRM_eq_any, List.any_map]
  rfl

theorem amemberBad_iff (m : AMember) :
    amemberBad m = true ↔
      m.name = nRights ∨ (m.name = nEncryption ∧ m.enc = none) ∨
      (m.name = nEncryption ∧ ∃ es, m.enc = some es ∧
        ∃ e ∈ es, isFontObfuscation e.algorithm = false ∧ isContentFile e.uri = true) := by
  unfold amemberBad classify
  by_cases hr : m.name = nRights
  · simp [hr, memberBad]
  · rw [if_neg hr]
    by_cases he : m.name = nEncryption
    · rw [if_pos he]
      cases henc : m.enc with
      | none => simp [memberBad, he, hr]
      | some es =>
        have hne : ¬ nEncryption = nRights := fun h => nRights_ne_nEncryption h.symm
        simp only [memberBad, he, hne, false_or, true_and, reduceCtorEq, Option.some.injEq,
          exists_eq_left']
        rw [hasEncryptedContent_eq_any, List.any_eq_true]
        constructor
        · rintro ⟨e, hm, hb⟩
          unfold entryBad at hb
          simp only [Bool.and_eq_true, Bool.not_eq_eq_eq_not, Bool.not_true] at hb
          exact ⟨e, hm, hb.1, hb.2⟩
        · rintro ⟨e, hm, h1, h2⟩
          exact ⟨e, hm, by simp [entryBad, h1, h2]⟩
    · rw [if_neg he]
      simp [memberBad, hr, he]

theorem archiveDRM_perm {ms ms' : List AMember} (hp : ms.Perm ms') : archiveDRM ms = archiveDRM ms' := by
  rw [archiveDRM_eq_any, archiveDRM_eq_any]
  exact any_perm hp

/-! ### the EPUB reader's gate -/

theorem epubInit_eq (ms : List AMember) (rest : Bool) :
    epubInit ms rest = if archiveDRM ms then .drm else if rest then .ok else .structure := by
  unfold epubInit; rfl

theorem epubOpen_some (ms : List AMember) (rest : Bool) : epubOpen (some ms) rest = epubInit ms rest := rfl

theorem epubOpen_ok_iff (zip : Option (List AMember)) (rest : Bool) :
    epubOpen zip rest = .ok ↔ ∃ ms, zip = some ms ∧ archiveDRM ms = false ∧ rest = true := by
  cases zip with
  | none => simp [epubOpen]
  | some ms =>
    rw [epubOpen_some, epubInit_eq]
    cases hd : archiveDRM ms <;> cases rest <;> simp [hd]

theorem epubOpen_drm_iff (zip : Option (List AMember)) (rest : Bool) :
    epubOpen zip rest = .drm ↔ ∃ ms, zip = some ms ∧ archiveDRM ms = true := by
  cases zip with
  | none => simp [epubOpen]
  | some ms =>
    rw [epubOpen_some, epubInit_eq]
    cases hd : archiveDRM ms <;> cases rest <;> simp [hd]

/-! ### the extractor life cycle -/

/-- what every reachable extractor value satisfies -/
structure Ext.WF (e : Ext) : Prop where
  /-- `readerOpened` says whether a reader field is set -/
  opened_reader : e.opened = e.reader.isSome
  owns_opened : e.owns = true → e.opened = true
  /-- an extractor with a file name got its format from that name, … -/
  named_format : e.name ≠ [] → e.format = detect e.name
  /-- … owns the reader it holds, … -/
  named_owns : e.name ≠ [] → e.opened = true → e.owns = true
  /-- … and that reader was opened on bytes that passed `validateFormat` and the
  reader's own gate at that moment -/
  checked : e.name ≠ [] → ∀ r, e.reader = some r →
    ∃ fs, r.src = some fs ∧ admitFile e.format fs = .ok r.fmt

theorem openExt_wf (name : Str) : (openExt name).WF :=
  ⟨rfl, by simp [openExt], fun _ => rfl, by simp [openExt], by simp [openExt]⟩

theorem fromHTML_wf (ok : Bool) : (fromHTML ok).WF := by
  cases ok <;> exact ⟨rfl, by simp [fromHTML], by simp [fromHTML], by simp [fromHTML], by simp [fromHTML]⟩

theorem fromReader_wf : fromReader.WF :=
  ⟨rfl, by simp [fromReader], by simp [fromReader], by simp [fromReader], by simp [fromReader]⟩

theorem reset_wf {e : Ext} (h : e.WF) :
    ({ e with reader := none, owns := false, opened := false } : Ext).WF :=
  ⟨rfl, by simp, h.named_format, by simp, by simp⟩

theorem clone_wf {e : Ext} (h : e.WF) : e.clone.WF := by
  unfold Ext.clone
  split
  · exact h
  · exact reset_wf h

theorem derive_wf {e : Ext} (h : e.WF) (bad : Bool) : (e.derive bad).WF := by
  have hc := clone_wf h
  unfold Ext.derive
  cases bad
  · exact hc
  · exact ⟨hc.opened_reader, hc.owns_opened, hc.named_format, hc.named_owns, hc.checked⟩

theorem close_wf {e : Ext} (h : e.WF) : e.close.WF := by
  unfold Ext.close
  split
  · split
    · exact reset_wf h
    · exact h
  · exact h

theorem ensureReader_wf {e e1 : Ext} {cur : FileState} (h : e.WF) (he : e.ensureReader cur = .ok e1) :
    e1.WF ∧ e1.opened = true ∧ e1.name = e.name ∧ e1.format = e.format ∧ e1.err = e.err ∧
      (e.opened = true → e1 = e) ∧
      (e.opened = false → e.name ≠ [] ∧ ∃ f, admitFile e.format cur = .ok f ∧ e1.reader = some ⟨f, some cur⟩) := by
  unfold Ext.ensureReader at he
  by_cases ho : e.opened = true
  · rw [if_pos ho] at he
    cases he
    exact ⟨h, ho, rfl, rfl, rfl, fun _ => rfl, fun hf => by rw [ho] at hf; cases hf⟩
  · rw [if_neg ho] at he
    by_cases hn : e.name.isEmpty = true
    · rw [if_pos hn] at he; cases he
    · rw [if_neg hn] at he
      have hne : e.name ≠ [] := by intro h0; rw [h0] at hn; exact hn rfl
      cases ha : admitFile e.format cur with
      | error o => rw [ha] at he; cases he
      | ok f =>
        rw [ha] at he
        cases he
        refine ⟨⟨rfl, fun _ => rfl, h.named_format, fun _ _ => rfl, ?_⟩, rfl, rfl, rfl, rfl, fun h1 => absurd h1 ho,
          fun _ => ⟨hne, f, rfl, rfl⟩⟩
        intro _ r hr
        cases hr
        exact ⟨cur, rfl, ha⟩

theorem ensureReader_err_nochange {e : Ext} {cur : FileState} {o : Outcome}
    (he : e.ensureReader cur = .error o) : e.opened = false := by
  unfold Ext.ensureReader at he
  by_cases ho : e.opened = true
  · rw [if_pos ho] at he; cases he
  · simpa using ho

theorem close_name (e : Ext) : e.close.name = e.name ∧ e.close.format = e.format := by
  unfold Ext.close
  split
  · split <;> exact ⟨rfl, rfl⟩
  · exact ⟨rfl, rfl⟩

/-- `Close` on an extractor that holds no reader changes nothing -/
theorem close_of_unopened {e : Ext} (h : e.WF) (ho : e.opened = false) : e.close = e := by
  have hr := h.opened_reader
  rw [ho] at hr
  unfold Ext.close
  cases hrd : e.reader with
  | none => split <;> rfl
  | some r => rw [hrd] at hr; cases hr

/-- the extractor `ensurePDFReader` leaves behind when it refuses: closed under the early
guard, as it is otherwise -/
theorem pdfEarly_wf {e e1 : Ext} (h1 : e1.WF) : (if e.pdfEarly then e1.close else e1).WF := by
  cases e.pdfEarly
  · exact h1
  · exact close_wf h1

theorem pdfEarly_name (e e1 : Ext) :
    (if e.pdfEarly then e1.close else e1).name = e1.name ∧ (if e.pdfEarly then e1.close else e1).format = e1.format := by
  cases e.pdfEarly
  · exact ⟨rfl, rfl⟩
  · exact close_name e1

/-- the reader an operation's body runs on -/
theorem bodyOn_of_opened {e : Ext} (h : e.WF) (ho : e.opened = true) :
    ∃ r, e.reader = some r ∧ bodyOn e = { out := .reached, on := some r } := by
  have := h.opened_reader
  rw [ho] at this
  cases hr : e.reader with
  | none => rw [hr] at this; cases this
  | some r => exact ⟨r, rfl, by simp [bodyOn, hr]⟩

/-- what one operation does: facts about the new extractor value and the result -/
structure RunSpec (e : Ext) (cur : FileState) (e' : Ext) (r : Res) : Prop where
  wf : e'.WF
  name : e'.name = e.name
  format : e'.format = e.format
  not_nil : r.out ≠ .nilReader
  reached : r.out = .reached → ∃ ri, r.on = some ri ∧
    (e.name ≠ [] → ∃ fs, ri.src = some fs ∧ admitFile e.format fs = .ok ri.fmt) ∧
    (e.opened = false → ri.src = some cur)
  failed : r.out ≠ .reached → r.out ≠ .notPdf → e' = e

theorem frame_spec {e : Ext} (h : e.WF) (cur : FileState) (checkErr closes : Bool) :
    RunSpec e cur (frame e cur checkErr closes).1 (frame e cur checkErr closes).2 := by
  unfold frame
  split
  · exact ⟨h, rfl, rfl, by simp, by simp, fun _ _ => rfl⟩
  · cases he : e.ensureReader cur with
    | error o =>
      have hno : o ≠ .reached ∧ o ≠ .nilReader := by
        unfold Ext.ensureReader at he
        split at he
        · cases he
        · split at he
          · cases he; exact ⟨by decide, by decide⟩
          · cases ha : admitFile e.format cur with
            | ok f => rw [ha] at he; cases he
            | error o' =>
              rw [ha] at he
              cases he
              cases cur with
              | missing => simp [admitFile] at ha; subst ha; exact ⟨by decide, by decide⟩
              | unreadable => simp [admitFile] at ha; subst ha; exact ⟨by decide, by decide⟩
              | file head zip acc =>
                simp only [admitFile] at ha
                repeat' split at ha
                all_goals first | (cases ha; exact ⟨by decide, by decide⟩) | cases ha
      exact ⟨h, rfl, rfl, hno.2, fun hr => absurd hr hno.1, fun _ _ => rfl⟩
    | ok e1 =>
      obtain ⟨hw, ho, hn, hf, _, hsame, hnew⟩ := ensureReader_wf h he
      obtain ⟨ri, hri, hb⟩ := bodyOn_of_opened hw ho
      have hwf' : (if closes then e1.close else e1).WF := by
        cases closes
        · exact hw
        · exact close_wf hw
      have hname : (if closes then e1.close else e1).name = e.name := by
        cases closes
        · exact hn
        · exact (close_name e1).1.trans hn
      have hfmt : (if closes then e1.close else e1).format = e.format := by
        cases closes
        · exact hf
        · exact (close_name e1).2.trans hf
      refine ⟨hwf', hname, hfmt, by simp [hb], ?_, fun hr => by simp [hb] at hr⟩
      intro _
      refine ⟨ri, by simp [hb], ?_, ?_⟩
      · intro hne
        have := hw.checked (by rw [hn]; exact hne) ri hri
        rw [hf] at this
        exact this
      · intro hcl
        obtain ⟨_, f, _, hrd⟩ := hnew hcl
        rw [hrd] at hri
        cases hri
        rfl


theorem ensureReader_error_out {e : Ext} {cur : FileState} {o : Outcome}
    (he : e.ensureReader cur = .error o) : o ≠ .reached ∧ o ≠ .nilReader ∧ o ≠ .notPdf := by
  unfold Ext.ensureReader at he
  split at he
  · cases he
  · split at he
    · cases he; exact ⟨by decide, by decide, by decide⟩
    · cases ha : admitFile e.format cur with
      | ok f => rw [ha] at he; cases he
      | error o' =>
        rw [ha] at he
        cases he
        cases cur with
        | missing => simp [admitFile] at ha; subst ha; exact ⟨by decide, by decide, by decide⟩
        | unreadable => simp [admitFile] at ha; subst ha; exact ⟨by decide, by decide, by decide⟩
        | file head zip acc =>
          simp only [admitFile] at ha
          repeat' split at ha
          all_goals first | (cases ha; exact ⟨by decide, by decide, by decide⟩) | cases ha

theorem framePdf_spec {e : Ext} (h : e.WF) (cur : FileState) (closes : Bool) :
    RunSpec e cur (framePdf e cur closes).1 (framePdf e cur closes).2 := by
  unfold framePdf
  split
  · exact ⟨h, rfl, rfl, by simp, by simp, fun _ _ => rfl⟩
  · cases he : e.ensureReader cur with
    | error o =>
      have hno := ensureReader_error_out he
      -- `ensureReader` failed, so no reader is held and the early `Close` finds nothing
      have hsame : (if e.pdfEarly then e.close else e) = e := by
        rw [close_of_unopened h (ensureReader_err_nochange he)]; split <;> rfl
      dsimp only
      rw [hsame]
      exact ⟨h, rfl, rfl, hno.2.1, fun hr => absurd hr hno.1, fun _ _ => rfl⟩
    | ok e1 =>
      obtain ⟨hw, ho, hn, hf, _, hsame, hnew⟩ := ensureReader_wf h he
      obtain ⟨ri, hri, hb⟩ := bodyOn_of_opened hw ho
      dsimp only
      split
      · exact ⟨pdfEarly_wf hw, (pdfEarly_name e e1).1.trans hn, (pdfEarly_name e e1).2.trans hf,
          by simp, by simp, fun _ hr => absurd rfl hr⟩
      · have hwf' : (if closes then e1.close else e1).WF := by
          cases closes
          · exact hw
          · exact close_wf hw
        have hname : (if closes then e1.close else e1).name = e.name := by
          cases closes
          · exact hn
          · exact (close_name e1).1.trans hn
        have hfmt : (if closes then e1.close else e1).format = e.format := by
          cases closes
          · exact hf
          · exact (close_name e1).2.trans hf
        refine ⟨hwf', hname, hfmt, by simp [hb], ?_, fun hr => by simp [hb] at hr⟩
        intro _
        refine ⟨ri, by simp [hb], ?_, ?_⟩
        · intro hne
          have := hw.checked (by rw [hn]; exact hne) ri hri
          rw [hf] at this
          exact this
        · intro hcl
          obtain ⟨_, f, _, hrd⟩ := hnew hcl
          rw [hrd] at hri
          cases hri
          rfl

theorem run_spec {e : Ext} (h : e.WF) (cur : FileState) (k : TKind) :
    RunSpec e cur (e.run cur k).1 (e.run cur k).2 := by
  cases k with
  | text => exact frame_spec h cur true true
  | document => exact frame_spec h cur true true
  | markdown =>
    show RunSpec e cur
      (if e.format = .pdf ∨ e.format = .unknown then frame e cur true true else frame e cur false true).1
      (if e.format = .pdf ∨ e.format = .unknown then frame e cur true true else frame e cur false true).2
    by_cases hc : e.format = .pdf ∨ e.format = .unknown
    · rw [if_pos hc]; exact frame_spec h cur true true
    · rw [if_neg hc]; exact frame_spec h cur false true
  | pdfOnly => exact framePdf_spec h cur true
  | pageCount => exact frame_spec h cur true false
  | pdfProbe => exact framePdf_spec h cur false


theorem ensureReader_name {e e1 : Ext} {cur : FileState} (he : e.ensureReader cur = .ok e1) :
    e1.name = e.name ∧ e1.format = e.format := by
  unfold Ext.ensureReader at he
  split at he
  · cases he; exact ⟨rfl, rfl⟩
  · split at he
    · cases he
    · cases ha : admitFile e.format cur with
      | error o => rw [ha] at he; cases he
      | ok f => rw [ha] at he; cases he; exact ⟨rfl, rfl⟩

theorem frame_name (e : Ext) (cur : FileState) (a b : Bool) :
    (frame e cur a b).1.name = e.name ∧ (frame e cur a b).1.format = e.format := by
  unfold frame
  split
  · exact ⟨rfl, rfl⟩
  · cases he : e.ensureReader cur with
    | error o => exact ⟨rfl, rfl⟩
    | ok e1 =>
      have h1 := ensureReader_name he
      cases b
      · exact h1
      · exact ⟨(close_name e1).1.trans h1.1, (close_name e1).2.trans h1.2⟩

theorem framePdf_name (e : Ext) (cur : FileState) (b : Bool) :
    (framePdf e cur b).1.name = e.name ∧ (framePdf e cur b).1.format = e.format := by
  unfold framePdf
  split
  · exact ⟨rfl, rfl⟩
  · cases he : e.ensureReader cur with
    | error o => exact pdfEarly_name e e
    | ok e1 =>
      have h1 := ensureReader_name he
      dsimp only
      split
      · exact ⟨(pdfEarly_name e e1).1.trans h1.1, (pdfEarly_name e e1).2.trans h1.2⟩
      · cases b
        · exact h1
        · exact ⟨(close_name e1).1.trans h1.1, (close_name e1).2.trans h1.2⟩

theorem run_name (e : Ext) (cur : FileState) (k : TKind) :
    (e.run cur k).1.name = e.name ∧ (e.run cur k).1.format = e.format := by
  cases k with
  | text => exact frame_name e cur true true
  | document => exact frame_name e cur true true
  | markdown =>
    show (if e.format = .pdf ∨ e.format = .unknown then frame e cur true true else frame e cur false true).1.name = e.name ∧
      (if e.format = .pdf ∨ e.format = .unknown then frame e cur true true else frame e cur false true).1.format = e.format
    by_cases hc : e.format = .pdf ∨ e.format = .unknown
    · rw [if_pos hc]; exact frame_name e cur true true
    · rw [if_neg hc]; exact frame_name e cur false true
  | pdfOnly => exact framePdf_name e cur true
  | pageCount => exact frame_name e cur true false
  | pdfProbe => exact framePdf_name e cur false

/-! ### call histories -/

def GoodSt (s : St) : Prop := ∀ e ∈ s.exts, e.WF

theorem step_op_some {s : St} {i : Nat} {k : TKind} {e : Ext} (h : s.exts[i]? = some e) :
    step s (.op i k) = ({ s with exts := s.exts.set i (e.run s.cur k).1 }, .res (e.run s.cur k).2) := by
  simp [step, h]

theorem step_op_none {s : St} {i : Nat} {k : TKind} (h : s.exts[i]? = none) :
    step s (.op i k) = (s, .bad) := by
  simp [step, h]

theorem step_close_some {s : St} {i : Nat} {e : Ext} (h : s.exts[i]? = some e) :
    step s (.close i) = ({ s with exts := s.exts.set i e.close }, .closed) := by
  simp [step, h]

theorem step_derive_some {s : St} {i : Nat} {bad : Bool} {e : Ext} (h : s.exts[i]? = some e) :
    step s (.derive i bad) = ({ s with exts := s.exts ++ [e.derive bad] }, .created s.exts.length) := by
  simp [step, h]

theorem good_append {s : St} (h : GoodSt s) {x : Ext} (hx : x.WF) :
    GoodSt { s with exts := s.exts ++ [x] } := by
  intro e he
  simp only [List.mem_append, List.mem_singleton] at he
  rcases he with he | rfl
  · exact h e he
  · exact hx

theorem good_set {s : St} (h : GoodSt s) (i : Nat) {x : Ext} (hx : x.WF) :
    GoodSt { s with exts := s.exts.set i x } := by
  intro e he
  rcases List.mem_or_eq_of_mem_set he with he | rfl
  · exact h e he
  · exact hx

theorem step_good {s : St} (h : GoodSt s) (c : Call) : GoodSt (step s c).1 := by
  cases c with
  | «open» name => exact good_append h (openExt_wf name)
  | fromHTML ok => exact good_append h (fromHTML_wf ok)
  | fromReader => exact good_append h fromReader_wf
  | derive i bad =>
    cases hi : s.exts[i]? with
    | none => simpa [step, hi] using h
    | some e =>
      rw [step_derive_some hi]
      exact good_append h (derive_wf (h e (List.mem_of_getElem? hi)) bad)
  | op i k =>
    cases hi : s.exts[i]? with
    | none => rw [step_op_none hi]; exact h
    | some e =>
      rw [step_op_some hi]
      exact good_set h i (run_spec (h e (List.mem_of_getElem? hi)) s.cur k).wf
  | close i =>
    cases hi : s.exts[i]? with
    | none => simpa [step, hi] using h
    | some e =>
      rw [step_close_some hi]
      exact good_set h i (close_wf (h e (List.mem_of_getElem? hi)))
  | rewrite fs => exact h

theorem get_append_of_some {l : List Ext} {i : Nat} {e0 x : Ext} (h : l[i]? = some e0) :
    (l ++ [x])[i]? = some e0 := by
  have hlt : i < l.length := by
    apply Classical.byContradiction; intro hn
    rw [List.getElem?_eq_none (by omega)] at h; cases h
  rw [List.getElem?_append_left hlt]; exact h

/-- extractor `i` keeps its file name and format whatever is called -/
theorem step_get {s : St} {i : Nat} {e0 : Ext} (h0 : s.exts[i]? = some e0) (c : Call) :
    ∃ e, (step s c).1.exts[i]? = some e ∧ e.name = e0.name ∧ e.format = e0.format := by
  cases c with
  | «open» name => exact ⟨e0, get_append_of_some h0, rfl, rfl⟩
  | fromHTML ok => exact ⟨e0, get_append_of_some h0, rfl, rfl⟩
  | fromReader => exact ⟨e0, get_append_of_some h0, rfl, rfl⟩
  | derive j bad =>
    cases hj : s.exts[j]? with
    | none => exact ⟨e0, by simpa [step, hj] using h0, rfl, rfl⟩
    | some e =>
      rw [step_derive_some hj]
      exact ⟨e0, get_append_of_some h0, rfl, rfl⟩
  | op j k =>
    cases hj : s.exts[j]? with
    | none => rw [step_op_none hj]; exact ⟨e0, h0, rfl, rfl⟩
    | some e =>
      rw [step_op_some hj]
      by_cases hij : j = i
      · subst hij
        rw [h0] at hj; cases hj
        have hlt : j < s.exts.length := by
          apply Classical.byContradiction; intro hn
          rw [List.getElem?_eq_none (by omega)] at h0; cases h0
        exact ⟨(e0.run s.cur k).1, by simp [List.getElem?_set_self hlt], (run_name e0 s.cur k).1, (run_name e0 s.cur k).2⟩
      · exact ⟨e0, by simp [List.getElem?_set_ne hij, h0], rfl, rfl⟩
  | close j =>
    cases hj : s.exts[j]? with
    | none => exact ⟨e0, by simpa [step, hj] using h0, rfl, rfl⟩
    | some e =>
      rw [step_close_some hj]
      by_cases hij : j = i
      · subst hij
        rw [h0] at hj; cases hj
        have hlt : j < s.exts.length := by
          apply Classical.byContradiction; intro hn
          rw [List.getElem?_eq_none (by omega)] at h0; cases h0
        exact ⟨e0.close, by simp [List.getElem?_set_self hlt], (close_name e0).1, (close_name e0).2⟩
      · exact ⟨e0, by simp [List.getElem?_set_ne hij, h0], rfl, rfl⟩
  | rewrite fs => exact ⟨e0, h0, rfl, rfl⟩


theorem runCalls_cons (s : St) (c : Call) (cs : List Call) :
    runCalls s (c :: cs) = ((runCalls (step s c).1 cs).1, (step s c).2 :: (runCalls (step s c).1 cs).2) := rfl

theorem runCalls_good {s : St} (h : GoodSt s) (cs : List Call) : GoodSt (runCalls s cs).1 := by
  induction cs generalizing s with
  | nil => exact h
  | cons c cs ih => rw [runCalls_cons]; exact ih (step_good h c)

theorem runCalls_get {s : St} {i : Nat} {e0 : Ext} (h0 : s.exts[i]? = some e0) (cs : List Call) :
    ∃ e, (runCalls s cs).1.exts[i]? = some e ∧ e.name = e0.name ∧ e.format = e0.format := by
  induction cs generalizing s e0 with
  | nil => exact ⟨e0, h0, rfl, rfl⟩
  | cons c cs ih =>
    rw [runCalls_cons]
    obtain ⟨e1, h1, hn, hf⟩ := step_get h0 c
    obtain ⟨e2, h2, hn2, hf2⟩ := ih h1
    exact ⟨e2, h2, hn2.trans hn, hf2.trans hf⟩

theorem runCalls_length (s : St) (cs : List Call) : (runCalls s cs).2.length = cs.length := by
  induction cs generalizing s with
  | nil => rfl
  | cons c cs ih => rw [runCalls_cons]; simp [ih]

/-- the bytes stored under the names just before call `k` of the history -/
def curBefore : FileState → List Call → Nat → FileState
  | c0, [], _ => c0
  | c0, _ :: _, 0 => c0
  | c0, c :: cs, k + 1 => curBefore (step { cur := c0 } c).1.cur cs k

theorem step_cur (s : St) (c : Call) : (step s c).1.cur = (step { cur := s.cur } c).1.cur := by
  cases c with
  | «open» name => rfl
  | fromHTML ok => rfl
  | fromReader => rfl
  | derive i bad =>
    cases hi : s.exts[i]? with
    | none => simp [step, hi]
    | some e => rw [step_derive_some hi]; simp [step]
  | op i k =>
    cases hi : s.exts[i]? with
    | none => rw [step_op_none hi]; simp [step]
    | some e => rw [step_op_some hi]; simp [step]
  | close i =>
    cases hi : s.exts[i]? with
    | none => simp [step, hi]
    | some e => rw [step_close_some hi]; simp [step]
  | rewrite fs => rfl

/-- the master lemma: what a result at position `k` of any history from a good state says -/
theorem runCalls_result {s : St} (h : GoodSt s) (cs : List Call) (k i : Nat) (kind : TKind) (r : Res)
    (hc : cs[k]? = some (.op i kind)) (hr : (runCalls s cs).2[k]? = some (.res r)) :
    ∃ e0 cur, e0.WF ∧ cur = curBefore s.cur cs k ∧ RunSpec e0 cur (e0.run cur kind).1 r ∧
      ∀ e, (runCalls s cs).1.exts[i]? = some e → e.name = e0.name ∧ e.format = e0.format := by
  induction cs generalizing s k with
  | nil => cases hc
  | cons c cs ih =>
    rw [runCalls_cons] at hr ⊢
    cases k with
    | zero =>
      simp only [List.getElem?_cons_zero, Option.some.injEq] at hc hr
      subst hc
      cases hi : s.exts[i]? with
      | none => rw [step_op_none hi] at hr; cases hr
      | some e0 =>
        rw [step_op_some hi] at hr ⊢
        simp only [CallRes.res.injEq] at hr
        subst hr
        refine ⟨e0, s.cur, h e0 (List.mem_of_getElem? hi), rfl, run_spec (h e0 (List.mem_of_getElem? hi)) s.cur kind, ?_⟩
        intro e he
        have hlt : i < s.exts.length := by
          apply Classical.byContradiction; intro hn
          rw [List.getElem?_eq_none (by omega)] at hi; cases hi
        have h1 : ({ s with exts := s.exts.set i (e0.run s.cur kind).1 } : St).exts[i]? = some (e0.run s.cur kind).1 := by
          simp [List.getElem?_set_self hlt]
        obtain ⟨e2, h2, hn2, hf2⟩ := runCalls_get h1 cs
        rw [h2] at he; cases he
        exact ⟨hn2.trans (run_name e0 s.cur kind).1, hf2.trans (run_name e0 s.cur kind).2⟩
    | succ k =>
      simp only [List.getElem?_cons_succ] at hc hr
      obtain ⟨e0, cur, hw, hcur, hspec, hfin⟩ := ih (step_good h c) k hc hr
      refine ⟨e0, cur, hw, ?_, hspec, hfin⟩
      rw [hcur]
      show curBefore (step s c).1.cur cs k = curBefore (step { cur := s.cur } c).1.cur cs k
      rw [step_cur]

/-! ### spellings of a container path -/

theorem pctEsc_append (keep : Nat → Bool) (a b : Str) : pctEsc keep (a ++ b) = pctEsc keep a ++ pctEsc keep b := by
  unfold pctEsc; simp

theorem pctEsc_unreserved (keep : Nat → Bool) (s : Str) (h : ∀ c ∈ s, isUnreservedOrSlash c = true) :
    pctEsc keep s = s := by
  induction s with
  | nil => rfl
  | cons c cs ih =>
    have hc := h c (by simp)
    have hcs : ∀ x ∈ cs, isUnreservedOrSlash x = true := fun x hx => h x (by simp [hx])
    have e : pctEsc keep (c :: cs) = [c] ++ pctEsc keep cs := by
      unfold pctEsc; simp [hc]
    rw [e, ih hcs]; rfl

theorem pctEsc_keep_all (s : Str) : pctEsc (fun _ => true) s = s := by
  induction s with
  | nil => rfl
  | cons c cs ih =>
    have e : pctEsc (fun _ => true) (c :: cs) = [c] ++ pctEsc (fun _ => true) cs := by
      unfold pctEsc; simp
    rw [e, ih]; rfl

theorem unreserved_of_lowerB (c : Nat) (h : isUnreservedOrSlash (lowerB c) = true) :
    isUnreservedOrSlash c = true := by
  unfold isUnreservedOrSlash at h ⊢
  simp only [Bool.or_eq_true, Bool.and_eq_true, decide_eq_true_eq, beq_iff_eq] at h ⊢
  unfold lowerB at h
  split at h <;> omega

theorem unreserved_of_lower (s t : Str) (hs : lower s = t) (ht : ∀ c ∈ t, isUnreservedOrSlash c = true) :
    ∀ c ∈ s, isUnreservedOrSlash c = true := by
  intro c hc
  apply unreserved_of_lowerB
  apply ht
  rw [← hs]
  unfold lower
  exact List.mem_map.2 ⟨c, hc, rfl⟩

theorem hasSuffix_append (a b : Str) : hasSuffix (a ++ b) b = true := by
  unfold hasSuffix
  rw [List.reverse_append]
  exact isPrefixOf_append_self _ _

/-- the extensions of (X)HTML content documents -/
def contentExts : List Str := [sfxXhtml, sfxHtml, sfxHtm]

/-- a URI that ends, in any letter case, in `.xhtml`, `.html` or `.htm` is a content file
for the DRM gate, whatever comes before -/
theorem isContentFile_of_ext (pre sfx : Str) (h : lower sfx ∈ contentExts) :
    isContentFile (pre ++ sfx) = true := by
  unfold isContentFile
  rw [lower_append]
  simp only [contentExts, List.mem_cons, List.not_mem_nil, or_false] at h
  rcases h with h | h | h <;> rw [h] <;> simp [hasSuffix_append]

/-! ### histories under a state invariant -/

/-- the result at position `k` of a history is the result of running the addressed
extractor in an intermediate state that satisfies every invariant `I` the calls preserve -/
theorem runCalls_result_inv (I : St → Prop) (Q : Call → Prop)
    (hstep : ∀ s c, I s → Q c → I (step s c).1)
    {s : St} (hI : I s) (cs : List Call) (hQ : ∀ c ∈ cs, Q c) (k i : Nat) (kind : TKind) (r : Res)
    (hc : cs[k]? = some (.op i kind)) (hr : (runCalls s cs).2[k]? = some (.res r)) :
    ∃ s' e0, I s' ∧ s'.exts[i]? = some e0 ∧ s'.cur = curBefore s.cur cs k ∧ r = (e0.run s'.cur kind).2 ∧
      ∀ e, (runCalls s cs).1.exts[i]? = some e → e.name = e0.name ∧ e.format = e0.format := by
  induction cs generalizing s k with
  | nil => cases hc
  | cons c cs ih =>
    rw [runCalls_cons] at hr ⊢
    cases k with
    | zero =>
      simp only [List.getElem?_cons_zero, Option.some.injEq] at hc hr
      subst hc
      cases hi : s.exts[i]? with
      | none => rw [step_op_none hi] at hr; cases hr
      | some e0 =>
        rw [step_op_some hi] at hr ⊢
        simp only [CallRes.res.injEq] at hr
        refine ⟨s, e0, hI, hi, rfl, hr.symm, ?_⟩
        intro e he
        have hlt : i < s.exts.length := by
          apply Classical.byContradiction; intro hn
          rw [List.getElem?_eq_none (by omega)] at hi; cases hi
        have h1 : ({ s with exts := s.exts.set i (e0.run s.cur kind).1 } : St).exts[i]? = some (e0.run s.cur kind).1 := by
          simp [List.getElem?_set_self hlt]
        obtain ⟨e2, h2, hn2, hf2⟩ := runCalls_get h1 cs
        rw [h2] at he; cases he
        exact ⟨hn2.trans (run_name e0 s.cur kind).1, hf2.trans (run_name e0 s.cur kind).2⟩
    | succ k =>
      simp only [List.getElem?_cons_succ] at hc hr
      obtain ⟨s', e0, hI', hget, hcur, hres, hfin⟩ :=
        ih (hstep s c hI (hQ c (by simp))) (fun x hx => hQ x (by simp [hx])) k hc hr
      refine ⟨s', e0, hI', hget, ?_, hres, hfin⟩
      rw [hcur]
      show curBefore (step s c).1.cur cs k = curBefore (step { cur := s.cur } c).1.cur cs k
      rw [step_cur]

/-- a step only changes the extractor it addresses, or appends one -/
theorem step_exts_cases (s : St) (c : Call) (e : Ext) (he : e ∈ (step s c).1.exts) :
    e ∈ s.exts ∨ (∃ name, c = .open name ∧ e = openExt name) ∨
      (e.name = [] ∧ ((∃ ok, c = .fromHTML ok ∧ e = fromHTML ok) ∨ (c = .fromReader ∧ e = fromReader))) ∨
      (∃ i bad e0, c = .derive i bad ∧ s.exts[i]? = some e0 ∧ e = e0.derive bad) ∨
      (∃ i k e0, c = .op i k ∧ s.exts[i]? = some e0 ∧ e = (e0.run s.cur k).1) ∨
      (∃ i e0, c = .close i ∧ s.exts[i]? = some e0 ∧ e = e0.close) := by
  cases c with
  | «open» name =>
    simp only [step, List.mem_append, List.mem_singleton] at he
    rcases he with he | rfl
    · exact Or.inl he
    · exact Or.inr (Or.inl ⟨name, rfl, rfl⟩)
  | fromHTML ok =>
    simp only [step, List.mem_append, List.mem_singleton] at he
    rcases he with he | rfl
    · exact Or.inl he
    · exact Or.inr (Or.inr (Or.inl ⟨by cases ok <;> rfl, Or.inl ⟨ok, rfl, rfl⟩⟩))
  | fromReader =>
    simp only [step, List.mem_append, List.mem_singleton] at he
    rcases he with he | rfl
    · exact Or.inl he
    · exact Or.inr (Or.inr (Or.inl ⟨rfl, Or.inr ⟨rfl, rfl⟩⟩))
  | derive i bad =>
    cases hi : s.exts[i]? with
    | none => left; simpa [step, hi] using he
    | some e0 =>
      rw [step_derive_some hi] at he
      simp only [List.mem_append, List.mem_singleton] at he
      rcases he with he | rfl
      · exact Or.inl he
      · exact Or.inr (Or.inr (Or.inr (Or.inl ⟨i, bad, e0, rfl, hi, rfl⟩)))
  | op i k =>
    cases hi : s.exts[i]? with
    | none => left; rw [step_op_none hi] at he; exact he
    | some e0 =>
      rw [step_op_some hi] at he
      rcases List.mem_or_eq_of_mem_set he with he | rfl
      · exact Or.inl he
      · exact Or.inr (Or.inr (Or.inr (Or.inr (Or.inl ⟨i, k, e0, rfl, hi, rfl⟩))))
  | close i =>
    cases hi : s.exts[i]? with
    | none => left; simpa [step, hi] using he
    | some e0 =>
      rw [step_close_some hi] at he
      rcases List.mem_or_eq_of_mem_set he with he | rfl
      · exact Or.inl he
      · exact Or.inr (Or.inr (Or.inr (Or.inr (Or.inr ⟨i, e0, rfl, hi, rfl⟩))))
  | rewrite fs => exact Or.inl he

theorem clone_name (e : Ext) : e.clone.name = e.name ∧ e.clone.format = e.format := by
  unfold Ext.clone; split <;> exact ⟨rfl, rfl⟩

theorem derive_name (e : Ext) (bad : Bool) : (e.derive bad).name = e.name ∧ (e.derive bad).format = e.format := by
  unfold Ext.derive
  cases bad
  · exact clone_name e
  · exact clone_name e

theorem clone_unopened {e : Ext} (h : e.opened = false) : e.clone.opened = false := by
  unfold Ext.clone; split
  · exact h
  · rfl

theorem derive_unopened {e : Ext} (h : e.opened = false) (bad : Bool) : (e.derive bad).opened = false := by
  unfold Ext.derive
  cases bad
  · exact clone_unopened h
  · exact clone_unopened h

theorem close_unopened {e : Ext} (h : e.opened = false) : e.close.opened = false := by
  unfold Ext.close
  split
  · split
    · rfl
    · exact h
  · exact h

/-- a reader that a named extractor opened from its file is closed by `Close` -/
theorem close_named_unopened {e : Ext} (h : e.WF) (hn : e.name ≠ []) : e.close.opened = false := by
  cases ho : e.opened with
  | false => exact close_unopened ho
  | true =>
    have hw := h.named_owns hn ho
    have hr := h.opened_reader
    rw [ho] at hr
    unfold Ext.close
    rw [if_pos hw]
    cases hrd : e.reader with
    | none => rw [hrd] at hr; cases hr
    | some r => rfl

/-- `Text`, `Document`/`Chunks`, `ToMarkdown` leave a named extractor without a reader,
so its next operation validates the bytes stored under the name at that moment -/
theorem closing_leaves_unopened {e : Ext} (h : e.WF) (hn : e.name ≠ []) (cur : FileState) (a : Bool) :
    (frame e cur a true).1.opened = false ∨ (frame e cur a true).1 = e := by
  unfold frame
  split
  · exact Or.inr rfl
  · cases he : e.ensureReader cur with
    | error o => exact Or.inr rfl
    | ok e1 =>
      obtain ⟨hw, _, hn1, _⟩ := ensureReader_wf h he
      exact Or.inl (close_named_unopened hw (by rw [hn1]; exact hn))

/-- an unopened extractor whose name asks for another format than the bytes are detected
as is refused by every operation, and stays as it is.  (`e.WF` is needed since
`ensurePDFReader` closes early: the `Close` it defers finds no reader to release on an
unopened extractor only because `readerOpened` is kept in step with the reader fields.) -/
theorem run_mismatch {e : Ext} (h : e.WF) (hn : e.name ≠ []) (ho : e.opened = false)
    {head : Str} {zip : Option (List AMember)} {acc : Format → Bool} {d : Format}
    (hdet : detectFile head zip = some d) (hmis : Detect.ensureReader e.format (some d) = .mismatch)
    (k : TKind) :
    (e.run (.file head zip acc) k).1 = e ∧
      ((e.run (.file head zip acc) k).2.out = .mismatch ∨ (e.run (.file head zip acc) k).2.out = .errSet) := by
  have hemp : e.name.isEmpty = false := by
    cases hne : e.name with
    | nil => exact absurd hne hn
    | cons _ _ => rfl
  have her : e.ensureReader (.file head zip acc) = .error .mismatch := by
    unfold Ext.ensureReader
    simp only [ho, hemp, Bool.false_eq_true, if_false, admitFile, hdet, hmis]
  have hf : ∀ a b, (frame e (.file head zip acc) a b).1 = e ∧
      ((frame e (.file head zip acc) a b).2.out = .mismatch ∨ (frame e (.file head zip acc) a b).2.out = .errSet) := by
    intro a b
    unfold frame
    split
    · exact ⟨rfl, Or.inr rfl⟩
    · rw [her]; exact ⟨rfl, Or.inl rfl⟩
  have hp : ∀ b, (framePdf e (.file head zip acc) b).1 = e ∧
      ((framePdf e (.file head zip acc) b).2.out = .mismatch ∨ (framePdf e (.file head zip acc) b).2.out = .errSet) := by
    intro b
    unfold framePdf
    split
    · exact ⟨rfl, Or.inr rfl⟩
    · rw [her]
      refine ⟨?_, Or.inl rfl⟩
      dsimp only
      rw [close_of_unopened h ho]; split <;> rfl
  cases k with
  | text => exact hf true true
  | document => exact hf true true
  | markdown =>
    show (if e.format = .pdf ∨ e.format = .unknown then frame e _ true true else frame e _ false true).1 = e ∧
      ((if e.format = .pdf ∨ e.format = .unknown then frame e _ true true else frame e _ false true).2.out = .mismatch ∨
       (if e.format = .pdf ∨ e.format = .unknown then frame e _ true true else frame e _ false true).2.out = .errSet)
    split
    · exact hf true true
    · exact hf false true
  | pdfOnly => exact hp true
  | pageCount => exact hf true false
  | pdfProbe => exact hp false

/-! ### `ensurePDFReader` closes early; histories by prefix -/

theorem pdfEarly_of_named {e : Ext} (hn : e.name ≠ []) (hf : e.format ≠ .pdf) : e.pdfEarly = true := by
  unfold Ext.pdfEarly
  cases hne : e.name with
  | nil => exact absurd hne hn
  | cons _ _ => simp [hf]

theorem pdfEarly_of_unnamed {e : Ext} (hn : e.name = []) : e.pdfEarly = false := by
  unfold Ext.pdfEarly; simp [hn]

/-- a named extractor that was closed holds nothing -/
theorem close_named_released {e : Ext} (h : e.WF) (hn : e.name ≠ []) :
    e.close.opened = false ∧ e.close.reader = none ∧ e.close.owns = false := by
  have ho := close_named_unopened h hn
  have hw := close_wf h
  refine ⟨ho, ?_, ?_⟩
  · have := hw.opened_reader
    rw [ho] at this
    cases hr : e.close.reader with
    | none => rfl
    | some r => rw [hr] at this; cases this
  · cases hown : e.close.owns with
    | false => rfl
    | true => have := hw.owns_opened hown; rw [ho] at this; cases this

/-- "operation is only supported for PDF documents" is the answer of the PDF-only
operations only -/
theorem frame_never_notPdf {e : Ext} (h : e.WF) (cur : FileState) (a b : Bool) :
    (frame e cur a b).2.out ≠ .notPdf := by
  unfold frame
  split
  · simp
  · cases he : e.ensureReader cur with
    | error o => exact (ensureReader_error_out he).2.2
    | ok e1 =>
      obtain ⟨hw, ho, _⟩ := ensureReader_wf h he
      obtain ⟨ri, _, hb⟩ := bodyOn_of_opened hw ho
      simp [hb]

theorem runCalls_append (s : St) (a b : List Call) :
    runCalls s (a ++ b) =
      ((runCalls (runCalls s a).1 b).1, (runCalls s a).2 ++ (runCalls (runCalls s a).1 b).2) := by
  induction a generalizing s with
  | nil => rfl
  | cons c cs ih =>
    rw [List.cons_append, runCalls_cons, runCalls_cons, ih]
    rfl

/-! ### further helpers of the end-to-end theorems -/

/-- no member of the archive is named `n` -/
def NoMember (n : Str) (ms : List AMember) : Prop := ∀ m ∈ ms, m.name ≠ n

theorem frame_out_err {e : Ext} {cur : FileState} {o : Outcome} (a b : Bool) (herr : e.err = false)
    (he : e.ensureReader cur = .error o) : (frame e cur a b).2.out = o := by
  unfold frame; simp [herr, he]

theorem frame_out_ok {e e1 : Ext} {cur : FileState} (a b : Bool) (herr : e.err = false)
    (he : e.ensureReader cur = .ok e1) : (frame e cur a b).2 = bodyOn e1 := by
  unfold frame; simp [herr, he]

theorem framePdf_out_err {e : Ext} {cur : FileState} {o : Outcome} (b : Bool) (herr : e.err = false)
    (he : e.ensureReader cur = .error o) : (framePdf e cur b).2.out = o := by
  unfold framePdf; simp [herr, he]

theorem framePdf_out_ok {e e1 : Ext} {cur : FileState} (b : Bool) (herr : e.err = false)
    (he : e.ensureReader cur = .ok e1) :
    (framePdf e cur b).2 = if e1.format != .pdf || e1.pdfReaderNil then { out := .notPdf } else bodyOn e1 := by
  unfold framePdf; simp only [herr, he, Bool.false_eq_true, if_false]
  split <;> rfl

theorem hasSuffix_iff (s sfx : Str) : hasSuffix s sfx = true ↔ ∃ pre, s = pre ++ sfx := by
  unfold hasSuffix
  rw [List.isPrefixOf_iff_prefix]
  constructor
  · rintro ⟨t, ht⟩
    refine ⟨t.reverse, ?_⟩
    have := congrArg List.reverse ht
    simpa using this.symm
  · rintro ⟨pre, rfl⟩
    exact ⟨pre.reverse, by simp⟩

theorem lower_length (s : Str) : (lower s).length = s.length := by unfold lower; simp

theorem lower_take (s : Str) (n : Nat) : lower (s.take n) = (lower s).take n := by
  unfold lower; simp [List.map_take]

theorem lower_drop (s : Str) (n : Nat) : lower (s.drop n) = (lower s).drop n := by
  unfold lower; simp [List.map_drop]

/-- `".xhtml"`, `".html"`, `".htm"` consist of unreserved characters only -/
theorem contentExts_unreserved : ∀ x ∈ contentExts, ∀ c ∈ x, isUnreservedOrSlash c = true := by decide

theorem hasMember_toMember_true {n : Str} {ms : List AMember} {m : AMember} (hm : m ∈ ms) (hn : m.name = n) :
    hasMember n (ms.map AMember.toMember) = true := by
  unfold hasMember
  rw [List.any_eq_true]
  exact ⟨m.toMember, List.mem_map.2 ⟨m, hm, rfl⟩, by simp [AMember.toMember, hn]⟩

theorem hasMember_toMember_false {n : Str} {ms : List AMember} (h : NoMember n ms) :
    hasMember n (ms.map AMember.toMember) = false := by
  apply hasMember_false_of_forall
  intro d hd
  obtain ⟨m, hm, rfl⟩ := List.mem_map.1 hd
  exact h m hm

theorem firstMime_none_of_noMember {ms : List AMember} (h : NoMember nMimetype ms) :
    firstMime (ms.map AMember.toMember) = none := by
  rw [firstMime_eq_none]
  intro d hd
  obtain ⟨m, hm, rfl⟩ := List.mem_map.1 hd
  exact mimeVerdict_none_of_name (h m hm)

end Tabula.Admit
