import TabulaModel.Lemmas.HtmlGrid
import TabulaModel.Model.HtmlSpec
/-!
Helper lemmas for C19 (Props/C19Text.lean): text up to white space (`squeeze`),
`getTextContent` / `getDirectTextContent` / `parseTable` against the text nodes
of the tree, and the document-level source text `src`.
-/
namespace Tabula.Html

/-! ### squeeze -/

theorem squeeze_nil : squeeze [] = [] := rfl

theorem squeeze_append (a b : Str) : squeeze (a ++ b) = squeeze a ++ squeeze b := by
  simp [squeeze]

theorem squeeze_dropWhile (s : Str) : squeeze (s.dropWhile isSpace) = squeeze s := by
  induction s with
  | nil => rfl
  | cons c cs ih =>
    rw [List.dropWhile_cons]
    by_cases h : isSpace c = true
    · simp only [h, if_true, ih]
      simp [squeeze, h]
    · simp [h]

theorem squeeze_reverse (s : Str) : squeeze s.reverse = (squeeze s).reverse := by
  simp [squeeze]

theorem squeeze_trimLeft (s : Str) : squeeze (trimLeft s) = squeeze s := squeeze_dropWhile s

theorem squeeze_trimRight (s : Str) : squeeze (trimRight s) = squeeze s := by
  unfold trimRight
  rw [squeeze_reverse, squeeze_dropWhile, squeeze_reverse, List.reverse_reverse]

/-- trimming removes white space only -/
theorem squeeze_trim (s : Str) : squeeze (trim s) = squeeze s := by
  unfold trim; rw [squeeze_trimRight, squeeze_trimLeft]

theorem dropWhile_of_squeeze_nil (s : Str) (h : squeeze s = []) : s.dropWhile isSpace = [] := by
  induction s with
  | nil => rfl
  | cons c cs ih =>
    by_cases hc : isSpace c = true
    · rw [List.dropWhile_cons]; simp only [hc, if_true]
      apply ih
      simpa [squeeze, hc] using h
    · simp [squeeze, hc] at h

/-- a string trims to nothing exactly when it is white space only -/
theorem trim_eq_nil_iff (s : Str) : trim s = [] ↔ squeeze s = [] := by
  constructor
  · intro h; rw [← squeeze_trim, h]; rfl
  · intro h
    unfold trim trimLeft
    rw [dropWhile_of_squeeze_nil s h]; rfl

theorem squeeze_idem (s : Str) : squeeze (squeeze s) = squeeze s := by
  simp [squeeze]

theorem squeeze_sublist {a b : Str} (h : a.Sublist b) : (squeeze a).Sublist (squeeze b) :=
  List.Sublist.filter _ h

/-- `if t ≠ "" then [t] else []`, seen through squeeze, is just `t` -/
theorem squeeze_opt (t : Str) : squeeze (if (t != []) = true then t else []) = squeeze t := by
  by_cases h : t = []
  · simp [h]
  · simp [h]

/-! ### getTextContent is the text nodes, once, in document order -/

mutual
theorem textRec_pieces : ∀ t : Dom, textRec t = (pieces t).flatMap Piece.render
  | .text s => by simp [textRec, pieces, Piece.render]
  | .other kids => by simp only [textRec, pieces]; exact textRecL_pieces kids
  | .elem tag attrs kids => by
      unfold textRec pieces
      by_cases hs : isSkip tag = true
      · simp [hs]
      · simp only [hs, if_false, Bool.false_eq_true, List.flatMap_append, textRecL_pieces kids]
        congr 1
        · congr 1
          split <;> simp [Piece.render]
        · split <;> simp [Piece.render]
theorem textRecL_pieces : ∀ ts : List Dom, textRecL ts = (piecesL ts).flatMap Piece.render
  | [] => by simp [textRecL, piecesL]
  | k :: ks => by
      simp only [textRecL, piecesL, List.flatMap_append, textRec_pieces k, textRecL_pieces ks]
end

mutual
theorem pieces_texts : ∀ t : Dom, (pieces t).filterMap Piece.text? = tn t
  | .text s => by simp [pieces, tn, Piece.text?]
  | .other kids => by simp only [pieces, tn]; exact piecesL_texts kids
  | .elem tag attrs kids => by
      unfold pieces tn
      by_cases hs : isSkip tag = true
      · simp [hs]
      · simp only [hs, if_false, Bool.false_eq_true, List.filterMap_append, piecesL_texts kids]
        have h1 : List.filterMap Piece.text? (if tag = T.br then [Piece.nl] else []) = [] := by
          split <;> simp [Piece.text?]
        have h2 : List.filterMap Piece.text? (if spaceAfter tag = true then [Piece.sp] else []) = [] := by
          split <;> simp [Piece.text?]
        rw [h1, h2]; simp
theorem piecesL_texts : ∀ ts : List Dom, (piecesL ts).filterMap Piece.text? = tnL ts
  | [] => by simp [piecesL, tnL]
  | k :: ks => by
      simp only [piecesL, tnL, List.filterMap_append, pieces_texts k, piecesL_texts ks]
end

mutual
theorem tnFlat_eq : ∀ t : Dom, tnFlat t = (tn t).flatten
  | .text s => by simp [tnFlat, tn]
  | .other kids => by simp only [tnFlat, tn]; exact tnFlatL_eq kids
  | .elem tag attrs kids => by
      unfold tnFlat tn
      by_cases hs : isSkip tag = true
      · simp [hs]
      · simp only [hs, if_false, Bool.false_eq_true]; exact tnFlatL_eq kids
theorem tnFlatL_eq : ∀ ts : List Dom, tnFlatL ts = (tnL ts).flatten
  | [] => by simp [tnFlatL, tnL]
  | k :: ks => by simp only [tnFlatL, tnL, List.flatten_append, tnFlat_eq k, tnFlatL_eq ks]
end

mutual
theorem squeeze_textRec : ∀ t : Dom, squeeze (textRec t) = squeeze (tnFlat t)
  | .text s => by simp [textRec, tnFlat]
  | .other kids => by simp only [textRec, tnFlat]; exact squeeze_textRecL kids
  | .elem tag attrs kids => by
      unfold textRec tnFlat
      by_cases hs : isSkip tag = true
      · simp [hs]
      · simp only [hs, if_false, Bool.false_eq_true, squeeze_append, squeeze_textRecL kids]
        have h1 : squeeze (if tag = T.br then [10] else []) = [] := by split <;> rfl
        have h2 : squeeze (if spaceAfter tag = true then [32] else []) = [] := by split <;> rfl
        rw [h1, h2]; simp
theorem squeeze_textRecL : ∀ ts : List Dom, squeeze (textRecL ts) = squeeze (tnFlatL ts)
  | [] => by simp [textRecL, tnFlatL]
  | k :: ks => by
      simp only [textRecL, tnFlatL, squeeze_append, squeeze_textRec k, squeeze_textRecL ks]
end

/-- up to white space `getTextContent` is the concatenation of the text nodes -/
theorem squeeze_getTextContent (t : Dom) : squeeze (getTextContent t) = squeeze (tnFlat t) := by
  unfold getTextContent; rw [squeeze_trim, squeeze_textRec]

theorem tnFlat_elem (tag : Str) (attrs : List (Str × Str)) (kids : List Dom) (h : isSkip tag = false) :
    tnFlat (.elem tag attrs kids) = tnFlatL kids := by
  unfold tnFlat; simp [h]

/-! ### list items -/

theorem squeeze_directPiece (k : Dom) : squeeze (directPiece k) = squeeze (directSrc k) := by
  cases k with
  | text s => rfl
  | other ks => rfl
  | elem tag attrs kids =>
    unfold directPiece directSrc
    by_cases h1 : tag = T.ul ∨ tag = T.ol
    · simp [h1]
    · simp only [h1, if_false]
      split
      · by_cases ht : getTextContent (.elem tag attrs kids) = []
        · simp only [ht, if_true]
          rw [← squeeze_getTextContent, ht]
        · simp only [ht, if_false, squeeze_append]
          rw [squeeze_getTextContent]
          simp [squeeze, isSpace]
      · exact squeeze_getTextContent _

theorem squeeze_flatMap_directPiece (kids : List Dom) :
    squeeze (kids.flatMap directPiece) = squeeze (kids.flatMap directSrc) := by
  induction kids with
  | nil => rfl
  | cons k ks ih => simp only [List.flatMap_cons, squeeze_append, squeeze_directPiece, ih]

/-- up to white space the text of a list item is its text nodes outside the nested lists -/
theorem squeeze_getDirectTextContent (kids : List Dom) :
    squeeze (getDirectTextContent kids) = squeeze (kids.flatMap directSrc) := by
  unfold getDirectTextContent; rw [squeeze_trim, squeeze_flatMap_directPiece]

/-! ### tables -/

theorem applySpans_text : ∀ (attrs : List (Str × Str)) (c : Cell),
    (applySpans attrs c).text = c.text ∧ (applySpans attrs c).isHeader = c.isHeader
  | [], c => ⟨rfl, rfl⟩
  | (k, v) :: rest, c => by
      unfold applySpans
      simp only []
      have ih := applySpans_text rest
      split
      · split
        · rw [(ih _).1, (ih _).2]; exact ⟨rfl, rfl⟩
        · exact ih c
      · split
        · split
          · rw [(ih _).1, (ih _).2]; exact ⟨rfl, rfl⟩
          · exact ih c
        · exact ih c

/-- the text a cell node is given -/
def cellText (c : Dom) : Str := trim (getTextContent c)

theorem parseTableRow_texts (isHeader : Bool) (kids : List Dom) :
    (parseTableRow isHeader kids).map (·.text) = (rowCellNodes kids).map cellText := by
  unfold parseTableRow rowCellNodes
  induction kids with
  | nil => rfl
  | cons k ks ih =>
    cases k with
    | text s => simpa [List.filterMap_cons, List.filter_cons, isCellElem] using ih
    | other o => simpa [List.filterMap_cons, List.filter_cons, isCellElem] using ih
    | elem tag attrs kk =>
      by_cases h : tag = T.td ∨ tag = T.th
      · have hb : isCellElem (.elem tag attrs kk) = true := by
          simp only [isCellElem, Bool.or_eq_true, beq_iff_eq]; exact h
        rw [List.filterMap_cons, List.filter_cons]
        simp only [h, if_true, hb, List.map_cons, ih]
        rw [(applySpans_text attrs _).1]
        rfl
      · have hb : isCellElem (.elem tag attrs kk) = false := by
          cases hc : isCellElem (.elem tag attrs kk) with
          | false => rfl
          | true =>
            simp only [isCellElem, Bool.or_eq_true, beq_iff_eq] at hc
            exact absurd hc h
        rw [List.filterMap_cons, List.filter_cons]
        simp only [h, if_false, hb, Bool.false_eq_true]
        exact ih

theorem parseTableRows_texts (isHeader : Bool) (kids : List Dom) :
    (parseTableRows isHeader kids).flatten.map (·.text) = (sectionCellNodes kids).map cellText := by
  unfold parseTableRows
  induction kids with
  | nil => rfl
  | cons k ks ih =>
    cases k with
    | text s => simpa [List.filterMap_cons, sectionCellNodes] using ih
    | other o => simpa [List.filterMap_cons, sectionCellNodes] using ih
    | elem tag attrs kk =>
      rw [List.filterMap_cons]
      simp only [sectionCellNodes]
      by_cases h : tag = T.tr
      · simp only [h, if_true, List.flatten_cons, List.map_append]
        rw [parseTableRow_texts, ih]
      · simp only [h, if_false, List.nil_append]
        exact ih

theorem tableSections_texts (kids : List Dom) :
    (tableSections kids).1.flatten.map (·.text) = (tableCellNodes kids).map cellText := by
  induction kids with
  | nil => rfl
  | cons k ks ih =>
    cases k with
    | text s => simpa [tableSections, tableCellNodes] using ih
    | other o => simpa [tableSections, tableCellNodes] using ih
    | elem tag attrs kk =>
      simp only [tableSections, tableCellNodes]
      by_cases h1 : tag = T.thead
      · simp only [h1, if_true, true_or, List.flatten_append, List.map_append]
        rw [parseTableRows_texts, ih]
      · by_cases h2 : tag = T.tbody ∨ tag = T.tfoot
        · have h3 : tag = T.thead ∨ tag = T.tbody ∨ tag = T.tfoot := Or.inr h2
          simp only [h1, h2, if_true, if_false, false_or, List.flatten_append, List.map_append]
          rw [parseTableRows_texts, ih]
        · have h3 : ¬ (tag = T.thead ∨ tag = T.tbody ∨ tag = T.tfoot) := by
            rintro (h | h)
            · exact h1 h
            · exact h2 h
          simp only [h1, h2, if_false, false_or]
          by_cases h4 : tag = T.tr
          · simp only [h4, if_true, List.flatten_cons, List.map_append]
            rw [parseTableRow_texts, ih]
          · simp only [h4, if_false, List.nil_append]
            exact ih

/-- every td/th of the table's rows is returned as one cell, in document order, with the text
`getTextContent` gives it; rows without cells contribute nothing -/
theorem parseTable_texts (kids : List Dom) :
    (parseTable kids).1.flatten.map (·.text) = (tableCellNodes kids).map cellText := by
  have : (parseTable kids).1 = dropEmptyRows (tableSections kids).1 := by
    unfold parseTable
    cases tableSections kids with
    | mk rows hd => rfl
  rw [this, dropEmptyRows, HtmlGrid.dropEmptyRows, HtmlGrid.dropEmptyRowsFrom_flatten]
  exact tableSections_texts kids

theorem squeeze_cellTexts (cs : List Dom) :
    squeeze ((cs.map cellText).flatten) = squeeze (cs.flatMap tnFlat) := by
  induction cs with
  | nil => rfl
  | cons c rest ih =>
    simp only [List.map_cons, List.flatten_cons, List.flatMap_cons, squeeze_append, ih]
    congr 1
    unfold cellText
    rw [squeeze_trim, squeeze_getTextContent]

end Tabula.Html
