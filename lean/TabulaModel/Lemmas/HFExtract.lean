import TabulaModel.Model.HFExtract
import TabulaModel.Lemmas.HeaderFooter
import TabulaModel.Lemmas.PageSel
/-!
Helper lemmas about `Model/HFExtract.lean` (the extractor-level path of header/footer exclusion):
what `collectAllPages` collects, what a page loop hands its detector, and the source that carries
only what exclusion keeps.
-/
namespace Tabula.HFX
open Tabula.HF Tabula.PageSel Tabula.Builder Tabula.TextPipe

/-- the page `collectAllPages` makes of readable page `k` -/
def pageOf (k : Nat) (rp : RawPage) : Page := { index := (k : Int), height := rp.height, frags := rp.frags }

/-! ### collectAllPages -/

theorem mem_collectFrom {p : Page} : ∀ {src : Source} {i : Nat},
    p ∈ collectFrom i src ↔ ∃ k rp, src[k]? = some (some rp) ∧ p = pageOf (i + k) rp := by
  intro src
  induction src with
  | nil => intro i; simp [collectFrom]
  | cons a rest ih =>
    intro i
    cases a with
    | none =>
      simp only [collectFrom]
      rw [ih]
      constructor
      · rintro ⟨k, rp, h, e⟩
        exact ⟨k + 1, rp, by simpa using h, by rw [e]; congr 1; omega⟩
      · rintro ⟨k, rp, h, e⟩
        cases k with
        | zero => simp at h
        | succ k => exact ⟨k, rp, by simpa using h, by rw [e]; congr 1; omega⟩
    | some rp0 =>
      simp only [collectFrom, List.mem_cons]
      rw [ih]
      constructor
      · rintro (e | ⟨k, rp, h, e⟩)
        · exact ⟨0, rp0, by simp, by rw [e]; rfl⟩
        · exact ⟨k + 1, rp, by simpa using h, by rw [e]; congr 1; omega⟩
      · rintro ⟨k, rp, h, e⟩
        cases k with
        | zero =>
          simp only [List.getElem?_cons_zero, Option.some.injEq] at h
          subst h
          exact Or.inl (by rw [e]; rfl)
        | succ k => exact Or.inr ⟨k, rp, by simpa using h, by rw [e]; congr 1; omega⟩

/-- **what feeds detection**: exactly the pages that can be read, each under its own page index
and height — whatever was requested -/
theorem mem_collectAllPages {p : Page} {src : Source} :
    p ∈ collectAllPages src ↔ ∃ k rp, src[k]? = some (some rp) ∧ p = pageOf k rp := by
  unfold collectAllPages
  rw [mem_collectFrom]
  simp

theorem collectFrom_index_ge : ∀ (src : Source) (i : Nat) (p : Page), p ∈ collectFrom i src → (i : Int) ≤ p.index := by
  intro src i p hp
  obtain ⟨k, rp, _, e⟩ := mem_collectFrom.mp hp
  rw [e]; simp only [pageOf]; omega

/-- the page indices handed to the detector are pairwise different -/
theorem collectFrom_nodup : ∀ (src : Source) (i : Nat), ((collectFrom i src).map (·.index)).Nodup := by
  intro src
  induction src with
  | nil => intro i; simp [collectFrom]
  | cons a rest ih =>
    intro i
    cases a with
    | none => simpa [collectFrom] using ih (i + 1)
    | some rp =>
      simp only [collectFrom, List.map_cons, List.nodup_cons]
      refine ⟨?_, ih (i + 1)⟩
      intro hmem
      obtain ⟨p, hp, e⟩ := List.mem_map.mp hmem
      have := collectFrom_index_ge rest (i + 1) p hp
      rw [e] at this
      simp at this
      omega

theorem collectAllPages_nodup (src : Source) : ((collectAllPages src).map (·.index)).Nodup :=
  collectFrom_nodup src 0

theorem collectFrom_length_le : ∀ (src : Source) (i : Nat), (collectFrom i src).length ≤ src.length := by
  intro src
  induction src with
  | nil => intro i; simp [collectFrom]
  | cons a rest ih =>
    intro i
    cases a with
    | none => have := ih (i + 1); simp only [collectFrom, List.length_cons]; omega
    | some rp => have := ih (i + 1); simp only [collectFrom, List.length_cons]; omega

theorem collectAllPages_length_le (src : Source) : (collectAllPages src).length ≤ src.length :=
  collectFrom_length_le src 0

theorem collectAllPages_ne_nil {src : Source} {k : Nat} {rp : RawPage} (h : src[k]? = some (some rp)) :
    (collectAllPages src).isEmpty = false := by
  have : pageOf k rp ∈ collectAllPages src := mem_collectAllPages.mpr ⟨k, rp, h, rfl⟩
  cases hc : collectAllPages src with
  | nil => rw [hc] at this; cases this
  | cons _ _ => rfl

/-! ### what a page loop hands its detector -/

theorem readPage_ok {src : Source} {k : Nat} {rp : RawPage} :
    readPage src k = .ok rp ↔ src[k]? = some (some rp) := by
  unfold readPage
  cases h : src[k]? with
  | none => simp
  | some o => cases o with
    | none => simp
    | some rp' => simp

theorem readPage_error {src : Source} {k : Nat} {e : E} (h : readPage src k = .error e) :
    e = .page ∧ ∀ rp, src[k]? ≠ some (some rp) := by
  unfold readPage at h
  cases hs : src[k]? with
  | none => rw [hs] at h; simp at h; exact ⟨h.symm, by simp⟩
  | some o => cases o with
    | none => rw [hs] at h; simp at h; exact ⟨h.symm, by simp⟩
    | some rp' => rw [hs] at h; simp at h

/-- the only two outcomes of `hfResult` on a source with a readable page -/
theorem hfResult_of_readable {src : Source} {k : Nat} {rp : RawPage} (h : src[k]? = some (some rp))
    (o : Options) :
    hfResult o src = if needHF o then some (detect defaultConfig (collectAllPages src)) else none := by
  unfold hfResult detectHeaderFooter
  simp [collectAllPages_ne_nil h]

/-- **pageInput_readable**: on a readable page, a page loop hands its detector the page's
fragments, or — with either flag set — `excludePage` of that page w.r.t. all readable pages -/
theorem pageInput_readable {src : Source} {k : Nat} {rp : RawPage} (h : src[k]? = some (some rp))
    (o : Options) :
    pageInput o src k = .ok (if needHF o then excludePage defaultConfig (collectAllPages src) (pageOf k rp)
      else rp.frags) := by
  unfold pageInput
  rw [readPage_ok.mpr h, hfResult_of_readable h]
  cases needHF o <;> simp [filterWith, excludePage, pageOf]

theorem pageInput_unreadable {src : Source} {k : Nat} (h : ∀ rp, src[k]? ≠ some (some rp)) (o : Options) :
    pageInput o src k = .error .page := by
  unfold pageInput
  cases hr : readPage src k with
  | ok rp => exact absurd (readPage_ok.mp hr) (h rp)
  | error e => rw [(readPage_error hr).1]

/-- a page loop either fails on an unreadable page or answers for a readable one -/
theorem pageInput_cases (o : Options) (src : Source) (k : Nat) :
    (∃ rp, src[k]? = some (some rp) ∧
      pageInput o src k = .ok (if needHF o then excludePage defaultConfig (collectAllPages src) (pageOf k rp)
        else rp.frags)) ∨
    ((∀ rp, src[k]? ≠ some (some rp)) ∧ pageInput o src k = .error .page) := by
  by_cases h : ∃ rp, src[k]? = some (some rp)
  · obtain ⟨rp, hrp⟩ := h
    exact Or.inl ⟨rp, hrp, pageInput_readable hrp o⟩
  · have h' : ∀ rp, src[k]? ≠ some (some rp) := fun rp hrp => h ⟨rp, hrp⟩
    exact Or.inr ⟨h', pageInput_unreadable h' o⟩

/-! ### `collect` over page loops -/

/-- two lists of the same length whose entries are related position by position
(`List.Forall₂` of Mathlib; core Lean has no such relation) -/
inductive Pointwise {α β : Type} (R : α → β → Prop) : List α → List β → Prop
  | nil : Pointwise R [] []
  | cons {a : α} {b : β} {as : List α} {bs : List β} : R a b → Pointwise R as bs → Pointwise R (a :: as) (b :: bs)

theorem Pointwise.length_eq {α β : Type} {R : α → β → Prop} {as : List α} {bs : List β}
    (h : Pointwise R as bs) : as.length = bs.length := by
  induction h with
  | nil => rfl
  | cons _ _ ih => simp [ih]

theorem Pointwise.get {α β : Type} {R : α → β → Prop} {as : List α} {bs : List β}
    (h : Pointwise R as bs) : ∀ (j : Nat) (a : α) (b : β), as[j]? = some a → bs[j]? = some b → R a b := by
  induction h with
  | nil => intro j a b ha; simp at ha
  | cons h1 _ ih =>
    intro j a b ha hb
    cases j with
    | zero => simp at ha hb; subst ha; subst hb; exact h1
    | succ j => simp at ha hb; exact ih j a b ha hb

theorem Pointwise.imp {α β : Type} {R S : α → β → Prop} (hRS : ∀ a b, R a b → S a b) {as : List α} {bs : List β}
    (h : Pointwise R as bs) : Pointwise S as bs := by
  induction h with
  | nil => exact .nil
  | cons h1 _ ih => exact .cons (hRS _ _ h1) ih

theorem collect_congr {α : Type} {f g : Nat → Except E α} {idx : List Nat} (h : ∀ k ∈ idx, f k = g k) :
    collect f idx = collect g idx := by
  induction idx with
  | nil => rfl
  | cons k ks ih =>
    have hk := h k (by simp)
    have ht := ih (fun j hj => h j (by simp [hj]))
    simp only [collect, hk, ht]

theorem collect_eq_ok {α : Type} {f : Nat → Except E α} : ∀ {idx : List Nat} {rs : List α},
    collect f idx = .ok rs ↔ Pointwise (fun k r => f k = .ok r) idx rs := by
  intro idx
  induction idx with
  | nil =>
    intro rs
    simp only [collect]
    constructor
    · intro h; cases h; exact .nil
    · intro h; cases h; rfl
  | cons k ks ih =>
    intro rs
    simp only [collect]
    cases hk : f k with
    | error e =>
      simp only
      constructor
      · intro h; cases h
      · intro h; cases h with | cons h1 _ => rw [hk] at h1; cases h1
    | ok a =>
      cases hc : collect f ks with
      | error e =>
        simp only
        constructor
        · intro h; cases h
        · intro h
          cases h with
          | cons h1 h2 =>
            have := ih.mpr h2
            rw [hc] at this; cases this
      | ok as =>
        simp only
        constructor
        · intro h
          cases h
          exact .cons hk (ih.mp hc)
        · intro h
          cases h with
          | cons h1 h2 =>
            rw [hk] at h1; cases h1
            have := ih.mpr h2
            rw [hc] at this; cases this
            rfl

theorem collect_eq_error {α : Type} {f : Nat → Except E α} : ∀ {idx : List Nat} {e : E},
    collect f idx = .error e → ∃ k ∈ idx, f k = .error e := by
  intro idx
  induction idx with
  | nil => intro e h; simp [collect] at h
  | cons k ks ih =>
    intro e h
    simp only [collect] at h
    cases hk : f k with
    | error e' =>
      rw [hk] at h; simp only at h; cases h
      exact ⟨k, by simp, hk⟩
    | ok a =>
      rw [hk] at h; simp only at h
      cases hc : collect f ks with
      | error e' =>
        rw [hc] at h; simp only at h; cases h
        obtain ⟨j, hj, hje⟩ := ih hc
        exact ⟨j, by simp [hj], hje⟩
      | ok as => rw [hc] at h; simp only at h; cases h

/-! ### the source that carries only what exclusion keeps -/

theorem filteredFrom_length (res : Option Result) : ∀ (src : Source) (i : Nat),
    (filteredFrom res i src).length = src.length := by
  intro src
  induction src with
  | nil => intro i; rfl
  | cons a rest ih => intro i; cases a <;> simp [filteredFrom, ih]

theorem filteredFrom_getElem? (res : Option Result) : ∀ (src : Source) (i k : Nat),
    (filteredFrom res i src)[k]? =
      (src[k]?).map fun o => o.map fun rp => { rp with frags := filterWith res (i + k) rp } := by
  intro src
  induction src with
  | nil => intro i k; simp [filteredFrom]
  | cons a rest ih =>
    intro i k
    cases k with
    | zero => cases a <;> simp [filteredFrom]
    | succ k =>
      cases a with
      | none =>
        simp only [filteredFrom, List.getElem?_cons_succ]
        rw [ih]; congr; funext o; congr; funext rp; congr 2; omega
      | some rp0 =>
        simp only [filteredFrom, List.getElem?_cons_succ]
        rw [ih]; congr; funext o; congr; funext rp; congr 2; omega

theorem filteredSource_length (src : Source) : (filteredSource src).length = src.length :=
  filteredFrom_length _ src 0

theorem filteredSource_getElem? (src : Source) (k : Nat) :
    (filteredSource src)[k]? =
      (src[k]?).map fun o => o.map fun rp => { rp with frags := filterWith (hfResult exclOn src) k rp } := by
  unfold filteredSource
  rw [filteredFrom_getElem?]
  simp

theorem needHF_exclOn : needHF exclOn = true := rfl

/-- `hfResult` looks at the two flags only through `needHF` -/
theorem hfResult_congr {o o' : Options} (h : needHF o = needHF o') (src : Source) :
    hfResult o src = hfResult o' src := by
  unfold hfResult; rw [h]

theorem hfResult_off {o : Options} (h : needHF o = false) (src : Source) : hfResult o src = none := by
  unfold hfResult; simp [h]

end Tabula.HFX
